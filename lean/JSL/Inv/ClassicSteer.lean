import JSL.Inv.ClassicEnvDefs
import JSL.Inv.ClassicQueries
import JSL.Props.C06
import JSL.Props.C12
import JSL.Props.C18

/-!
# The steering strategy

Given the step interface `StepIface` of a classic instance, an action list is constructed that drives
the environment to the target schedule `S`: at every fresh decision point

* if an offer is a dispatch, or the start of an operation whose target start is now, decline down to
  it and accept it;
* otherwise decline everything (the clock then advances strictly).

The measure is lexicographic: the potential `pot` of the state (strictly decreased by an accept, never
increased), then the distance of the clock to the makespan of the target.
-/

namespace JSL

variable {orc : Oracle} {inst : Instance}

/-! ## the makespan of the target bounds every end

(`le_targetMakespan` of `JSL.Inv.ReachListPlan` restated: that module cannot be imported together with
`JSL.Inv.AcceptPot` – both declare `JSL.sum_map_le`.) -/

theorem steer_foldl_max_ge : ∀ (l : List Int) (i : Int), i ≤ l.foldl max i
  | [], _ => Int.le_refl _
  | y :: l, i => by
    simp only [List.foldl_cons]
    have := steer_foldl_max_ge l (max i y)
    omega

theorem steer_foldl_max_ge_mem : ∀ (l : List Int) (i x : Int), x ∈ l → x ≤ l.foldl max i
  | y :: l, i, x, h => by
    simp only [List.foldl_cons]
    rcases List.mem_cons.mp h with rfl | h
    · have := steer_foldl_max_ge l (max i x)
      omega
    · exact steer_foldl_max_ge_mem l (max i y) x h

theorem steer_le_targetMakespan (S : Nat → Nat → Int) {oc : OpCfg} (h : oc ∈ allOps inst) :
    S oc.job oc.idx + oc.d ≤ targetMakespan inst S :=
  steer_foldl_max_ge_mem _ 0 _ (List.mem_map.mpr ⟨oc, h, rfl⟩)

/-! ## runs -/

theorem envRun_append {ec : EnvCfg} {st : RewardStatic} : ∀ (as bs : List AgentAct) (e : EnvState),
    envRun orc inst ec st e (as ++ bs) = envRun orc inst ec st e as >>= fun e' => envRun orc inst ec st e' bs
  | [], bs, e => by simp [envRun]
  | a :: as, bs, e => by
    simp only [List.cons_append, envRun]
    cases h : envStep orc inst ec st e a with
    | error x => rfl
    | ok out =>
      simp only [except_bind_ok]
      exact envRun_append as bs out.env

theorem envRun_append_ok {ec : EnvCfg} {st : RewardStatic} {as bs : List AgentAct} {e e1 e2 : EnvState}
    (h1 : envRun orc inst ec st e as = .ok e1) (h2 : envRun orc inst ec st e1 bs = .ok e2) :
    envRun orc inst ec st e (as ++ bs) = .ok e2 := by
  rw [envRun_append, h1, except_bind_ok, h2]

theorem envRun_single {ec : EnvCfg} {st : RewardStatic} {a : AgentAct} {e : EnvState} {out : StepOut}
    (h : envStep orc inst ec st e a = .ok out) : envRun orc inst ec st e [a] = .ok out.env := by
  simp [envRun, h]

/-- `envDeclineN` is a run of declines -/
theorem envDeclineN_run {ec : EnvCfg} {st : RewardStatic} : ∀ (k : Nat) {e e' : EnvState} {mic : List State},
    envDeclineN orc inst ec st k e = .ok (e', mic) →
    envRun orc inst ec st e (List.replicate k .decline) = .ok e'
  | 0, e, e', mic, h => by
    simp only [envDeclineN, except_pure, Except.ok.injEq, Prod.mk.injEq] at h
    obtain ⟨rfl, _⟩ := h
    simp [envRun]
  | k + 1, e, e', mic, h => by
    simp only [envDeclineN] at h
    obtain ⟨out, hout, h⟩ := except_bind_eq_ok h
    obtain ⟨⟨e1, mic1⟩, h1, h⟩ := except_bind_eq_ok h
    simp only [except_pure, Except.ok.injEq, Prod.mk.injEq] at h
    obtain ⟨rfl, _⟩ := h
    simp only [List.replicate_succ, envRun, hout, except_bind_ok]
    exact envDeclineN_run k h1

/-! ## decision points -/

/-- what is carried along the run: an environment state of the episode that is not over, whose
result is successful, in step with the target, and whose shop is not finished -/
structure DecPt (orc : Oracle) (inst : Instance) (ec : EnvCfg) (st : RewardStatic) (s0 : State)
    (S : Nat → Nat → Int) (e : EnvState) : Prop where
  reach : EnvReach orc inst ec st s0 e
  notDone : e.done = false
  succ : e.res.success = true
  joker : 0 ≤ e.mw.joker
  sync : SyncL inst S e.res.state
  shopOpen : isDone inst e.res.state = false

/-- where the strategy stops -/
def Finished (orc : Oracle) (inst : Instance) (ec : EnvCfg) (st : RewardStatic) (s0 : State)
    (S : Nat → Nat → Int) (e : EnvState) : Prop :=
  EnvReach orc inst ec st s0 e ∧ e.terminated = true ∧ e.truncated = false ∧
    isDone inst e.res.state = true ∧ ∃ t, SyncL inst S { e.res.state with time := t }

section
variable {ec : EnvCfg} {st : RewardStatic} {s0 : State} {S : Nat → Nat → Int}

theorem DecPt.offers (hst : Start orc inst s0) (hC : Classic inst) {e : EnvState}
    (h : DecPt orc inst ec st s0 S e) : e.res.possible ≠ [] :=
  (envReach_good hst hC.flex hC.hasAgv h.reach).offers h.succ h.shopOpen

/-- declining with at least two offers held respects every target -/
theorem stepOK_decline_many {e : EnvState} {o o' : Transition} {rest : List Transition}
    (hp : e.res.possible = o :: o' :: rest) : StepOK S e .decline := by
  unfold StepOK
  exact ⟨fun h => (by cases h), fun _ hl => (by rw [hp] at hl; simp at hl)⟩

/-- declining down to an offer, along decision points -/
theorem decline_down (hn : st.numOps ≠ 0) (hif : StepIface orc inst ec st s0 S) (pre : List Transition)
    (tr : Transition) (post : List Transition) : ∀ (e : EnvState), DecPt orc inst ec st s0 S e →
    e.res.possible = pre ++ tr :: post →
    ∃ e', envRun orc inst ec st e (List.replicate pre.length .decline) = .ok e' ∧
      DecPt orc inst ec st s0 S e' ∧ e'.res.state = e.res.state ∧ e'.res.possible = tr :: post := by
  induction pre with
  | nil =>
    intro e hd hp
    exact ⟨e, by simp [envRun], hd, rfl, by simpa using hp⟩
  | cons p pre' ih =>
    intro e hd hp
    obtain ⟨o', rest, he⟩ : ∃ o' rest, pre' ++ tr :: post = o' :: rest := by
      cases pre' with
      | nil => exact ⟨tr, post, rfl⟩
      | cons a as => exact ⟨a, as ++ tr :: post, rfl⟩
    have hp' : e.res.possible = p :: o' :: rest := by rw [hp, List.cons_append, he]
    have hc : CanDecline inst st e := ⟨hd.notDone, hd.shopOpen, hd.joker, hn⟩
    obtain ⟨out, h1, _, e1, _, e3, _, e5, _, e7, _, _, _, _, _, _, _, hc'⟩ :=
      envStep_decline_many (orc := orc) (ec := ec) hc p o' rest hp'
    obtain ⟨out', h1', s1, _, _, s4, _, _, _, s8⟩ :=
      hif.step hd.reach hd.notDone hd.succ hd.joker hd.sync .decline (Or.inr rfl) (stepOK_decline_many hp')
    rw [h1] at h1'
    injection h1' with h1'
    subst h1'
    have hd' : DecPt orc inst ec st s0 S out.env :=
      ⟨EnvReach.step hd.reach h1, e7, s1, by rw [e5]; exact hd.joker, s8 e7, hc'.shopOpen⟩
    obtain ⟨e', h2, hd'', f1, f2⟩ := ih out.env hd' (by rw [e3, he])
    refine ⟨e', ?_, hd'', by rw [f1, e1], f2⟩
    simp only [List.length_cons, List.replicate_succ, envRun, h1, except_bind_ok]
    exact h2

/-- declining the last offer strictly advances the clock (environment form of
`c18_decline_last_advances`) -/
theorem envStep_decline_last_advances (hst : Start orc inst s0) {e : EnvState}
    (hr : EnvReach orc inst ec st s0 e) {o : Transition} (hp : e.res.possible = [o]) {out : StepOut}
    (h : envStep orc inst ec st e .decline = .ok out) (hs : out.obsRes.success = true)
    (hnd : isDone inst out.env.res.state = false) : e.res.state.time < out.env.res.state.time := by
  unfold envStep at h
  split at h
  · simp at h
  · obtain ⟨⟨res', mw, r, mic⟩, hm, h⟩ := except_bind_eq_ok h
    simp only at h
    obtain ⟨⟨rew, cnt⟩, _, h⟩ := except_bind_eq_ok h
    simp at h; subst h
    simp only at hs
    simp only [hs, if_true] at hnd ⊢
    obtain ⟨r', mic', hstep, _⟩ := c18_decline_last_is_forced_jump e.res e.mw e.rng o hp _ hm
    have hdn : res'.done = false := by
      rcases (smStep_spec hstep).2 with h1 | h1 | h1
      · exact h1.2.1
      · simp only at h1; rw [h1.2.2.2] at hnd; cases hnd
      · exact h1.2.1
    exact c18_decline_last_advances hst hr o hp e.mw e.rng _ hm hs hdn

/-- the closing step of a macro step: an accept, or the decline of the last offer -/
theorem closing_step (hst : Start orc inst s0) (hC : Classic inst) (hif : StepIface orc inst ec st s0 S)
    {e : EnvState} (hd : DecPt orc inst ec st s0 S e) (a : AgentAct)
    (ha : a = .accept ∨ (a = .decline ∧ e.res.possible.length = 1)) (hok : StepOK S e a) :
    ∃ out, envStep orc inst ec st e a = .ok out ∧ out.obsRes.success = true ∧
      (out.env.done = true → Finished orc inst ec st s0 S out.env) ∧
      (out.env.done = false → DecPt orc inst ec st s0 S out.env ∧ FreshOffers inst ec out.env) := by
  obtain ⟨out, h1, s1, s2, s3, s4, s5, s6, s7, s8⟩ :=
    hif.step hd.reach hd.notDone hd.succ hd.joker hd.sync a (ha.imp id And.left) hok
  have hr' : EnvReach orc inst ec st s0 out.env := EnvReach.step hd.reach h1
  refine ⟨out, h1, s2, fun hdn => ?_, fun hdn => ?_⟩
  · exact ⟨hr', by rw [s5, ← s6, hdn], s3, by rw [← s6, hdn], s7⟩
  · have hd' : DecPt orc inst ec st s0 S out.env :=
      ⟨hr', hdn, s1, by rw [s4]; exact hd.joker, s8 hdn, by rw [← s6, hdn]⟩
    exact ⟨hd', envStep_fresh h1 (ha.imp id And.right) hdn (hd'.offers hst hC)⟩

/-! ## the choice at a fresh decision point -/

/-- an offer the strategy accepts: a dispatch, or the start of an operation whose target start is now -/
def GoodOffer (S : Nat → Nat → Int) (s : State) (tr : Transition) : Prop :=
  tr.new = .m .setup → ∀ j ∈ s.jobs, tr.job = some j.id → ∀ o, j.nextIdle? = some o → S o.job o.idx = s.time

theorem stepOK_accept_good {e : EnvState} {tr : Transition} {post : List Transition}
    (hp : e.res.possible = tr :: post) (hg : GoodOffer S e.res.state tr) : StepOK S e .accept := by
  unfold StepOK
  refine ⟨fun _ tr' htr' => ?_, fun h => (by cases h)⟩
  rw [hp] at htr'
  simp at htr'
  subst htr'
  exact hg

/-- an offer that is not good is the start of an operation whose target start lies ahead -/
theorem bad_offer_ahead {s : State} (hsy : SyncL inst S s) {tr : Transition} (hb : ¬ GoodOffer S s tr) :
    tr.new = .m .setup ∧ ∃ j ∈ s.jobs, ∃ o, tr.job = some j.id ∧ j.nextIdle? = some o ∧ s.time < S o.job o.idx := by
  unfold GoodOffer at hb
  refine ⟨Classical.byContradiction fun h => hb (fun h' => absurd h' h), ?_⟩
  apply Classical.byContradiction
  intro hno
  apply hb
  intro _ j hj hid o hn
  apply Classical.byContradiction
  intro hne
  apply hno
  refine ⟨j, hj, o, hid, hn, ?_⟩
  have ho := find?_mem_ops (j := j) (p := fun x => x.st == .idle) hn
  have hidle : o.st = .idle := by simpa using ho.2
  have := hsy.due j hj o ho.1
  have : ¬ S o.job o.idx < s.time := fun h => this h hidle
  omega

/-- when no offer is good: no operation that could start now is due, and the clock is before the
makespan of the target -/
theorem all_bad (hst : Start orc inst s0) (hC : Classic inst) (he : ec.sm.allowEarly = false)
    (hif : StepIface orc inst ec st s0 S) {e : EnvState} (hd : DecPt orc inst ec st s0 S e)
    (hf : FreshOffers inst ec e) (hbad : ∀ tr ∈ e.res.possible, ¬ GoodOffer S e.res.state tr) :
    NoneDueNow S e.res.state ∧ e.res.state.time < targetMakespan inst S := by
  have hne := hd.offers hst hC
  have hi := envReach_inv hst hd.reach
  obtain ⟨w, hI, hS⟩ := occursA_inv hst (hi.live hne).1
  have hA := hi.full
  have hidle := (hif.settled hd.reach hne).1
  have hf' : possibleTransitions inst ec.sm e.res.state = .ok e.res.possible := hf
  obtain ⟨pj, pt, _, hpt, _, hL⟩ := possibleTransitions_split hf'
  have hK := fun tr htr => bad_offer_ahead hd.sync (hbad tr htr)
  have hnil : pt = [] := by
    cases pt with
    | nil => rfl
    | cons x xs =>
      have hx : x ∈ e.res.possible := by rw [hL]; simp
      obtain ⟨t, _, j, _, hxe, _⟩ := possibleTransport_facts hpt x (by simp)
      have := (hK x hx).1
      rw [hxe] at this
      cases this
  constructor
  · intro j hj hrun o hn hmidle
    obtain ⟨m, hm, hmid, hpre, _⟩ := no_dispatch_at_pre w hC hI hS hA he hidle hpt hnil j hj hrun o hn
    have hso : StartableOp e.res.state j o m :=
      ⟨hrun, hn, by rw [← hmid]; exact getMachine_of_mem (hI.shape.machNodup w) hm, hmidle m hm hmid, hpre⟩
    have hmem := offers_complete_op hS hf' hj hso
    obtain ⟨_, j', hj', o', hid, hn', hlt⟩ := hK _ hmem
    have hid' : j.id = j'.id := by simpa using hid
    have : j = j' := eq_of_mem_of_key_eq (key := fun (y : JobState) => y.id) (hI.shape.jobsNodup w) hj hj' hid'
    subst this
    rw [hn] at hn'
    injection hn' with hn'
    subst hn'
    exact hlt
  · cases hp : e.res.possible with
    | nil => exact absurd hp hne
    | cons x xs =>
      obtain ⟨_, j, hj, o, _, hn, hlt⟩ := hK x (by rw [hp]; simp)
      have ho := (find?_mem_ops (j := j) (p := fun x => x.st == .idle) hn).1
      obtain ⟨jc, hjc, hk⟩ := hI.shape.job_cfg hj
      simp only [jKey, jcKey, Prod.mk.injEq] at hk
      obtain ⟨oc, hoc, hke⟩ := mem_of_map_eq hk.2 ho
      simp only [opKey, ocKey, Prod.mk.injEq] at hke
      have hall : oc ∈ allOps inst := List.mem_flatMap.mpr ⟨jc, hjc, hoc⟩
      obtain ⟨d, hdur, hpos⟩ := hC.posDur oc hall
      have hdd : oc.d = d := by simp [OpCfg.d, hdur]
      have := steer_le_targetMakespan (inst := inst) S hall
      rw [← hke.1, ← hke.2.1, hdd] at this
      omega

/-! ## one macro step, and the induction -/

/-- one macro step from a fresh decision point: the run ends the episode in the target, or reaches a
fresh decision point that is smaller in the lexicographic measure -/
theorem macro_step (hst : Start orc inst s0) (hC : Classic inst) (he : ec.sm.allowEarly = false)
    (hn : st.numOps ≠ 0) (hif : StepIface orc inst ec st s0 S) {e : EnvState}
    (hd : DecPt orc inst ec st s0 S e) (hf : FreshOffers inst ec e) :
    ∃ acts e', envRun orc inst ec st e acts = .ok e' ∧
      (Finished orc inst ec st s0 S e' ∨
       (DecPt orc inst ec st s0 S e' ∧ FreshOffers inst ec e' ∧
        (pot inst e'.res.state < pot inst e.res.state ∨
         (pot inst e'.res.state ≤ pot inst e.res.state ∧ e.res.state.time < e'.res.state.time ∧
          e.res.state.time < targetMakespan inst S)))) := by
  by_cases hg : ∃ tr ∈ e.res.possible, GoodOffer S e.res.state tr
  · obtain ⟨tr, htr, hg⟩ := hg
    obtain ⟨pre, post, hp⟩ := List.append_of_mem htr
    obtain ⟨e1, hrun1, hd1, hs1, hp1⟩ := decline_down hn hif pre tr post e hd hp
    obtain ⟨out, h2, hsuc, hfin, hcont⟩ :=
      closing_step hst hC hif hd1 .accept (Or.inl rfl) (stepOK_accept_good hp1 (by rw [hs1]; exact hg))
    refine ⟨_, out.env, envRun_append_ok hrun1 (envRun_single h2), ?_⟩
    cases hdn : out.env.done with
    | true => exact Or.inl (hfin hdn)
    | false =>
      have := accept_decreases hst hd1.reach h2 hsuc
      rw [hs1] at this
      exact Or.inr ⟨(hcont hdn).1, (hcont hdn).2, Or.inl this⟩
  · have hbad : ∀ tr ∈ e.res.possible, ¬ GoodOffer S e.res.state tr := fun tr htr h => hg ⟨tr, htr, h⟩
    obtain ⟨hnone, hlt⟩ := all_bad hst hC he hif hd hf hbad
    have hne := hd.offers hst hC
    obtain ⟨e1, hrun1, hd1, hs1, hp1⟩ := decline_down hn hif e.res.possible.dropLast (e.res.possible.getLast hne) [] e hd
      (List.dropLast_append_getLast hne).symm
    have hok : StepOK S e1 .decline := by
      unfold StepOK
      exact ⟨fun h => (by cases h), fun _ _ => (by rw [hs1]; exact hnone)⟩
    obtain ⟨out, h2, hsuc, hfin, hcont⟩ :=
      closing_step hst hC hif hd1 .decline (Or.inr ⟨rfl, by rw [hp1]; rfl⟩) hok
    refine ⟨_, out.env, envRun_append_ok hrun1 (envRun_single h2), ?_⟩
    cases hdn : out.env.done with
    | true => exact Or.inl (hfin hdn)
    | false =>
      have hd2 := (hcont hdn).1
      have h3 := envStep_decline_last_advances hst hd1.reach hp1 h2 hsuc hd2.shopOpen
      have h4 := envStep_pot_le hst hd1.reach h2
      rw [hs1] at h3 h4
      exact Or.inr ⟨hd2, (hcont hdn).2, Or.inr ⟨h4, h3, hlt⟩⟩

/-- from every fresh decision point the strategy ends the episode in the target -/
theorem steer_from (hst : Start orc inst s0) (hC : Classic inst) (he : ec.sm.allowEarly = false)
    (hn : st.numOps ≠ 0) (hif : StepIface orc inst ec st s0 S) :
    ∀ (p q : Nat) (e : EnvState), DecPt orc inst ec st s0 S e → FreshOffers inst ec e →
      pot inst e.res.state = p → (targetMakespan inst S - e.res.state.time).toNat = q →
      ∃ acts e', envRun orc inst ec st e acts = .ok e' ∧ Finished orc inst ec st s0 S e' := by
  intro p
  induction p using Nat.strongRecOn with
  | ind p ihp =>
    intro q
    induction q using Nat.strongRecOn with
    | ind q ihq =>
      intro e hd hf hp hq
      obtain ⟨acts, e1, hrun, hcase⟩ := macro_step hst hC he hn hif hd hf
      rcases hcase with hfin | ⟨hd1, hf1, hlt⟩
      · exact ⟨acts, e1, hrun, hfin⟩
      · have hsmall : pot inst e1.res.state < p ∨ (pot inst e1.res.state = p ∧
            (targetMakespan inst S - e1.res.state.time).toNat < q) := by
          rcases hlt with h | ⟨h1, h2, h3⟩
          · exact Or.inl (by omega)
          · rcases Nat.lt_or_ge (pot inst e1.res.state) p with h | h
            · exact Or.inl h
            · exact Or.inr ⟨by omega, by omega⟩
        rcases hsmall with h | ⟨h1, h2⟩
        · obtain ⟨acts2, e2, hrun2, hfin⟩ := ihp _ h _ e1 hd1 hf1 rfl rfl
          exact ⟨acts ++ acts2, e2, envRun_append_ok hrun hrun2, hfin⟩
        · obtain ⟨acts2, e2, hrun2, hfin⟩ := ihq _ h2 e1 hd1 hf1 h1 rfl
          exact ⟨acts ++ acts2, e2, envRun_append_ok hrun hrun2, hfin⟩

end

/-! ## the start -/

/-- the shop is not finished right after `reset`: the reset step starts nothing, so the first
operation of any job is still idle, and a job in an output buffer would be finished -/
theorem reset_not_done {ec : EnvCfg} {s0 : State} (hst : Start orc inst s0) (hC : Classic inst) (hjobs : inst.jobs ≠ []) {r0 : Rng}
    {e0 : EnvState} {mic : List State} (h : envReset orc inst ec s0 r0 = .ok (e0, mic)) :
    isDone inst e0.res.state = false := by
  have hi := (envReset_inv hst h).1
  obtain ⟨w, hI0⟩ := initOKB_sound hst.init
  have hS0 := restB_sound hst.rest
  have nn := nonnegB_sound hst.samples hst.nonneg
  have hflex : PreFlex inst := by
    intro mc hmc
    apply hC.flex
    simp only [allBufCfgs, List.mem_append, List.mem_flatMap, List.mem_map]
    exact Or.inl (Or.inr ⟨mc, hmc, by simp⟩)
  have hns : NoStartSince s0 e0.res.state := by
    unfold envReset mwReset at h
    obtain ⟨⟨res, mw, r', mic'⟩, h1, h⟩ := except_bind_eq_ok h
    obtain ⟨⟨res', r'', mic''⟩, h2, h1⟩ := except_bind_eq_ok h1
    simp at h1 h
    obtain ⟨rfl, rfl, rfl, rfl⟩ := h1
    obtain ⟨rfl, rfl⟩ := h
    exact (smStep_starts_nothing w nn hflex hI0 hS0 admissible_noOp
      (by simp [noOpAction]; exact NoSetup.nil) h2).1
  have hstay := hns.idle_stays w hI0.shape hi.struct.shape
  -- a job of the initial state with an idle record
  obtain ⟨jc, hjc⟩ : ∃ jc, jc ∈ inst.jobs := by
    cases hj : inst.jobs with
    | nil => exact absurd hj hjobs
    | cons a as => exact ⟨a, by simp⟩
  obtain ⟨j, hj, hk⟩ := mem_of_map_eq hI0.shape.jobs.symm hjc
  simp only [jKey, jcKey, Prod.mk.injEq] at hk
  obtain ⟨o, ho⟩ : ∃ o, o ∈ j.ops := by
    cases hops : j.ops with
    | nil =>
      rw [hops] at hk
      have := hk.2
      simp at this
      exact absurd this (hC.jobsNonempty jc hjc)
    | cons a as => exact ⟨a, by simp⟩
  have hidle : o.st = .idle := by
    have hr := hst.rest
    simp only [restB, Bool.and_eq_true, List.all_eq_true, beq_iff_eq] at hr
    exact hr.1.2 j hj o ho
  obtain ⟨j', hj', _, o', ho', _, _, hidle'⟩ := hstay j hj o ho hidle
  cases hdone : isDone inst e0.res.state with
  | false => rfl
  | true =>
    simp only [isDone, List.all_eq_true, List.contains_iff_mem] at hdone
    have := hi.full.route.delivered j' hj' (hdone j' hj') o' ho'
    rw [hidle'] at this
    cases this

set_option linter.unusedVariables false in
/-- **The steering strategy.**  For a classic instance with the step interface `StepIface`: from the
reset state a list of accept / decline decisions leads to an environment state of the episode that is
terminated, not truncated, whose shop is finished and – up to the final stamp of the clock – in step
with the target schedule. -/
theorem steer {orc : Oracle} {inst : Instance} {ec : EnvCfg} {st : RewardStatic} {s0 : State} {S : Nat → Nat → Int}
    (hst : Start orc inst s0) (hC : Classic inst) (he : ec.sm.allowEarly = false) (hjk : 0 ≤ ec.mw.jokerInit)
    (hn : st.numOps ≠ 0) (hT : TargetOK inst S) (hjobs : inst.jobs ≠ [])
    (hif : StepIface orc inst ec st s0 S) (r0 : Rng) :
    ∃ e0 mic acts e, envReset orc inst ec s0 r0 = .ok (e0, mic) ∧ envRun orc inst ec st e0 acts = .ok e ∧
      EnvReach orc inst ec st s0 e ∧ e.terminated = true ∧ e.truncated = false ∧
      isDone inst e.res.state = true ∧ ∃ t, SyncL inst S { e.res.state with time := t } := by
  obtain ⟨e0, mic, hreset, hsuc, hsync⟩ := hif.reset r0
  obtain ⟨f1, _, f3, _, _⟩ := envReset_flags hreset
  have hopen := reset_not_done hst hC hjobs hreset
  have hd : DecPt orc inst ec st s0 S e0 :=
    ⟨EnvReach.reset hreset, f3, hsuc, by rw [f1]; exact hjk, hsync, hopen⟩
  have hf : FreshOffers inst ec e0 := envReset_fresh hreset (hd.offers hst hC)
  obtain ⟨acts, e, hrun, hr, h1, h2, h3, h4⟩ := steer_from hst hC he hn hif _ _ e0 hd hf rfl rfl
  exact ⟨e0, mic, acts, e, hreset, hrun, hr, h1, h2, h3, h4⟩

end JSL
