import JSL.Inv.TravelPass

/-!
# Setup separation: definitions

Consecutive operations on one machine are separated by the (constant) setup time configured for
changing from the tool of the earlier operation to the tool of the later one.

All clauses speak about the *records* of a state (`recs s`, the operation records of all jobs) and
about the phase / mounted tool of a machine.  Operations of length zero at one instant make "the
record immediately before" ambiguous when only times are compared, so the clauses are phrased with a
witness: for every finished record `a` on the machine that is not *after* `b` there is a finished
record `p` on the machine (the predecessor of `b`) that is `a` itself or lies after `a`, ends before
`b` starts, and is separated from `b` by the setup time `tool p → tool b`.
-/

namespace JSL

variable {orc : Oracle} {inst : Instance}

/-- recorded start / end of a record (`0` for `NoTime`; started records always carry times) -/
def tS (o : OpState) : Int := o.start.getD 0
def tE (o : OpState) : Int := o.stop.getD 0

/-- all operation records of a state -/
def recs (s : State) : List OpState := s.jobs.flatMap (·.ops)

/-- the configured tool of the operation a record belongs to -/
def toolOf (inst : Instance) (o : OpState) : Option Nat :=
  ((inst.jobs.flatMap (·.ops)).find? (fun c => c.job == o.job && c.idx == o.idx)).map (·.tool)

/-- the machine `mid` has the constant `d` configured as setup time for changing from the tool of
`p`'s operation to the tool of `b`'s operation (matrix read as `(from, to)`) -/
def detSetup (inst : Instance) (mid : Nat) (p b : OpState) (d : Int) : Prop :=
  ∃ mc ∈ inst.machines, mc.id = mid ∧ ∃ tp tb, toolOf inst p = some tp ∧ toolOf inst b = some tb ∧
    mc.setup.lookup (tp, tb) = some (.det d)

/-- a finished record that ran on machine `mid` -/
structure DoneOn (R : List OpState) (mid : Nat) (a : OpState) : Prop where
  mem : a ∈ R
  mach : a.machine = mid
  st : a.st = .done

/-- a record in progress on machine `mid` -/
structure ProcOn (R : List OpState) (mid : Nat) (b : OpState) : Prop where
  mem : b ∈ R
  mach : b.machine = mid
  st : b.st = .processing

/-- `p` is `a` itself or starts after `a` ended -/
def NotBefore (a p : OpState) : Prop := p = a ∨ tE a ≤ tS p

/-- `p` ends before `b` starts, by at least the constant setup time `tool p → tool b` if one is configured -/
def Sep (inst : Instance) (mid : Nat) (p b : OpState) : Prop :=
  tE p ≤ tS b ∧ ∀ d, detSetup inst mid p b d → tE p + d ≤ tS b

/-- while `b` is being set up: its interval is exactly the constant setup time `tool p → tool b` -/
def SetupExact (inst : Instance) (mid : Nat) (p b : OpState) : Prop :=
  tE p ≤ tS b ∧ ∀ d, detSetup inst mid p b d → tE b = tS b + d

/-- what is known about one machine -/
structure MachOK (inst : Instance) (R : List OpState) (m : MachineState) : Prop where
  /-- a busy machine has mounted the tool of the operation it holds -/
  mounted : m.st ≠ .idle → ∀ b, ProcOn R m.id b → toolOf inst b = some m.tool
  /-- an idle machine has mounted the tool of the last operation it finished -/
  mountedIdle : m.st = .idle → ∀ a, DoneOn R m.id a →
    ∃ p, DoneOn R m.id p ∧ NotBefore a p ∧ toolOf inst p = some m.tool
  /-- during SETUP the record of the accepted operation spans exactly the setup time from the
  tool of the predecessor -/
  setup : m.st = .setup → ∀ b, ProcOn R m.id b → ∀ a, DoneOn R m.id a →
    ∃ p, DoneOn R m.id p ∧ NotBefore a p ∧ SetupExact inst m.id p b
  /-- during WORKING / OUTAGE the operation started at least the setup time after its predecessor -/
  work : (m.st = .working ∨ m.st = .outage) → ∀ b, ProcOn R m.id b → ∀ a, DoneOn R m.id a →
    ∃ p, DoneOn R m.id p ∧ NotBefore a p ∧ Sep inst m.id p b

/-- finished records on one machine: every finished `b` is separated from its predecessor -/
def Chain (inst : Instance) (R : List OpState) : Prop :=
  ∀ b a, b ∈ R → a ∈ R → b.st = .done → a.st = .done → a.machine = b.machine → a ≠ b →
    tE b ≤ tS a ∨ ∃ p, DoneOn R b.machine p ∧ p ≠ b ∧ NotBefore a p ∧ Sep inst b.machine p b

structure SetupInv (inst : Instance) (s : State) : Prop where
  mach : ∀ m ∈ s.machines, MachOK inst (recs s) m
  chain : Chain inst (recs s)

/-! ## congruence -/

theorem toolOf_congr {o o' : OpState} (h1 : o'.job = o.job) (h2 : o'.idx = o.idx) : toolOf inst o' = toolOf inst o := by
  unfold toolOf; rw [h1, h2]

theorem toolOf_of_cfg (w : WF inst) {oc : OpCfg} (hoc : oc ∈ inst.jobs.flatMap (·.ops)) {o : OpState}
    (h1 : oc.job = o.job) (h2 : oc.idx = o.idx) : toolOf inst o = some oc.tool := by
  unfold toolOf
  cases hf : (inst.jobs.flatMap (·.ops)).find? (fun c => c.job == o.job && c.idx == o.idx) with
  | none =>
    have := List.find?_eq_none.mp hf oc hoc
    simp [h1, h2] at this
  | some c =>
    have hc := List.mem_of_find?_eq_some hf
    have hp := List.find?_some hf
    simp only [Bool.and_eq_true, beq_iff_eq] at hp
    have : c = oc := opCfg_unique w hc hoc (by rw [hp.1, h1]) (by rw [hp.2, h2])
    subst this; rfl

theorem detSetup_congr {mid : Nat} {p b b' : OpState} (h1 : b'.job = b.job) (h2 : b'.idx = b.idx) {d : Int} :
    detSetup inst mid p b' d ↔ detSetup inst mid p b d := by
  unfold detSetup; rw [toolOf_congr h1 h2]

theorem mem_recs {s : State} {x : OpState} : x ∈ recs s ↔ ∃ j ∈ s.jobs, x ∈ j.ops := by
  simp [recs, List.mem_flatMap]

theorem DoneOn.congr {R R' : List OpState} {mid : Nat} {a : OpState} (h : a ∈ R → a ∈ R') (ha : DoneOn R mid a) :
    DoneOn R' mid a := ⟨h ha.mem, ha.mach, ha.st⟩

/-- a machine whose records, phase and tool did not change keeps its clauses -/
theorem MachOK.congr {R R' : List OpState} {m m' : MachineState} (h : MachOK inst R m)
    (hR : ∀ x, x.machine = m.id → (x ∈ R' ↔ x ∈ R)) (hid : m'.id = m.id) (hst : m'.st = m.st) (htool : m'.tool = m.tool) :
    MachOK inst R' m' := by
  have hd : ∀ {a}, DoneOn R' m'.id a → DoneOn R m.id a := fun ha =>
    ⟨(hR _ (by rw [ha.mach, hid])).mp ha.mem, by rw [ha.mach, hid], ha.st⟩
  have hd' : ∀ {a}, DoneOn R m.id a → DoneOn R' m'.id a := fun ha =>
    ⟨(hR _ ha.mach).mpr ha.mem, by rw [ha.mach, hid], ha.st⟩
  have hp : ∀ {a}, ProcOn R' m'.id a → ProcOn R m.id a := fun ha =>
    ⟨(hR _ (by rw [ha.mach, hid])).mp ha.mem, by rw [ha.mach, hid], ha.st⟩
  constructor
  · intro hb b hb'
    rw [htool]; exact h.mounted (by rw [← hst]; exact hb) b (hp hb')
  · intro hi a ha
    obtain ⟨p, h1, h2, h3⟩ := h.mountedIdle (by rw [← hst]; exact hi) a (hd ha)
    exact ⟨p, hd' h1, h2, by rw [htool]; exact h3⟩
  · intro hs b hb a ha
    obtain ⟨p, h1, h2, h3⟩ := h.setup (by rw [← hst]; exact hs) b (hp hb) a (hd ha)
    exact ⟨p, hd' h1, h2, by rw [hid]; exact h3⟩
  · intro hs b hb a ha
    obtain ⟨p, h1, h2, h3⟩ := h.work (by rw [← hst]; exact hs) b (hp hb) a (hd ha)
    exact ⟨p, hd' h1, h2, by rw [hid]; exact h3⟩

/-- the chain of finished records only depends on the finished records -/
theorem Chain.congr {R R' : List OpState} (h : Chain inst R) (hR : ∀ x, x.st = .done → (x ∈ R' ↔ x ∈ R)) : Chain inst R' := by
  intro b a hb ha hbs has hm hne
  rcases h b a ((hR b hbs).mp hb) ((hR a has).mp ha) hbs has hm hne with h1 | ⟨p, hp, h2, h3, h4⟩
  · exact Or.inl h1
  · exact Or.inr ⟨p, ⟨(hR p hp.st).mpr hp.mem, hp.mach, hp.st⟩, h2, h3, h4⟩

/-- same records, machines with the same id / phase / tool: the invariant carries over -/
theorem SetupInv.transfer {s s' : State} (h : SetupInv inst s) (hR : ∀ x, x ∈ recs s' ↔ x ∈ recs s)
    (hm : ∀ m' ∈ s'.machines, ∃ m ∈ s.machines, m'.id = m.id ∧ m'.st = m.st ∧ m'.tool = m.tool) : SetupInv inst s' := by
  constructor
  · intro m' hm'
    obtain ⟨m, hm0, e1, e2, e3⟩ := hm m' hm'
    exact (h.mach m hm0).congr (fun x _ => hR x) e1 e2 e3
  · exact h.chain.congr (fun x _ => hR x)

theorem SetupInv.advance {s : State} (h : SetupInv inst s) (t : Int) : SetupInv inst { s with time := t } :=
  h.transfer (fun _ => Iff.rfl) (fun m hm => ⟨m, hm, rfl, rfl, rfl⟩)

theorem SetupInv.of_time {s : State} {t : Int} (h : SetupInv inst { s with time := t }) : SetupInv inst s :=
  h.transfer (fun _ => Iff.rfl) (fun m hm => ⟨m, hm, rfl, rfl, rfl⟩)

/-- at rest nothing has started -/
theorem SetupInv.of_rest {s : State} (h : restB s = true) : SetupInv inst s := by
  simp only [restB, Bool.and_eq_true, List.all_eq_true, beq_iff_eq] at h
  obtain ⟨⟨_, hj⟩, _⟩ := h
  have idle : ∀ x ∈ recs s, x.st = .idle := by
    intro x hx
    obtain ⟨j, hj', hx'⟩ := mem_recs.mp hx
    exact hj j hj' x hx'
  constructor
  · intro m _
    constructor
    · intro _ b hb; have := idle b hb.mem; rw [hb.st] at this; cases this
    · intro _ a ha; have := idle a ha.mem; rw [ha.st] at this; cases this
    · intro _ b hb; have := idle b hb.mem; rw [hb.st] at this; cases this
    · intro _ b hb; have := idle b hb.mem; rw [hb.st] at this; cases this
  · intro b a hb _ hbs
    have := idle b hb; rw [hbs] at this; cases this

end JSL
