import JSL.Inv.PreDefs
import JSL.Inv.TotalPass

/-!
# Every guard and invariant of `inst` is one of `preFlex inst`

The guards and invariants read the type of a buffer nowhere (only `FlexInst` does, and `preFlex inst` of an
instance with unordered pickup buffers has it).
-/

namespace JSL

variable {orc : Oracle} {inst : Instance}

theorem pb_mem_machines {mc' : MachineCfg} (h : mc' ∈ (preFlex inst).machines) : ∃ mc ∈ inst.machines, mc' = pfM mc := by
  rw [preFlex_machines] at h
  obtain ⟨mc, hmc, e⟩ := List.mem_map.mp h
  exact ⟨mc, hmc, e.symm⟩

theorem pb_wf (w : WF inst) : WF (preFlex inst) where
  jobsNodup := w.jobsNodup
  machNodup := by
    rw [preFlex_machines, List.map_map]
    exact w.machNodup
  trNodup := w.trNodup
  bufNodup := by rw [pb_allBufCfgs_ids]; exact w.bufNodup
  opJob := w.opJob
  opIdxNodup := w.opIdxNodup
  opMachine := by
    intro j hj o ho
    obtain ⟨m, hm, e⟩ := w.opMachine j hj o ho
    exact ⟨pfM m, by rw [preFlex_machines]; exact List.mem_map.mpr ⟨m, hm, rfl⟩, e⟩

theorem pb_nonneg (nn : NonNeg orc inst) : NonNeg orc (preFlex inst) where
  orc := nn.orc
  ops := nn.ops
  setup := by
    intro m hm
    obtain ⟨mc, hmc, rfl⟩ := pb_mem_machines hm
    exact nn.setup mc hmc
  travel := nn.travel
  mout := by
    intro m hm
    obtain ⟨mc, hmc, rfl⟩ := pb_mem_machines hm
    exact nn.mout mc hmc
  tout := nn.tout

theorem pb_pickupBufs : pickupBufs (preFlex inst) = pickupBufs inst := by
  unfold pickupBufs
  rw [preFlex_machines]
  congr 1
  simp [List.flatMap_map] 

theorem pb_stands : stands (preFlex inst) = stands inst := by
  unfold stands
  rw [preFlex_machines]
  congr 1
  simp [List.map_map, Function.comp_def]

theorem pb_sources : sources (preFlex inst) = sources inst := by
  unfold sources
  rw [preFlex_machines]
  congr 1
  simp [List.map_map, Function.comp_def]

theorem pb_tables (h : TablesTotal inst) : TablesTotal (preFlex inst) where
  output := h.output
  bufCap := by
    intro m hm
    obtain ⟨mc, hmc, rfl⟩ := pb_mem_machines hm
    exact h.bufCap mc hmc
  parents := by rw [pb_pickupBufs]; exact h.parents
  setup := by
    intro m hm
    obtain ⟨mc, hmc, rfl⟩ := pb_mem_machines hm
    exact h.setup mc hmc
  travel := by rw [pb_pickupBufs, pb_stands]; exact h.travel

theorem pb_totClass (C : TotClassP inst) : TotClass (preFlex inst) where
  tables := pb_tables C.tables
  roomy := by
    refine ⟨C.roomy.out, ?_, ?_, ?_, C.roomy.agv⟩
    · intro m hm
      obtain ⟨mc, hmc, rfl⟩ := pb_mem_machines hm
      exact C.roomy.pre mc hmc
    · intro m hm
      obtain ⟨mc, hmc, rfl⟩ := pb_mem_machines hm
      exact C.roomy.post mc hmc
    · intro m hm
      obtain ⟨mc, hmc, rfl⟩ := pb_mem_machines hm
      exact C.roomy.buf mc hmc
  parents := by
    refine ⟨C.parents.standalone, ?_⟩
    intro m hm
    obtain ⟨mc, hmc, rfl⟩ := pb_mem_machines hm
    exact C.parents.machine mc hmc
  agvOnly := ⟨C.agvOnly.ne, C.agvOnly.agv⟩
  routes := by
    unfold Routes
    rw [pb_sources, pb_stands]
    exact C.routes
  jobsOps := C.jobsOps
  flex := by
    intro bc hbc
    unfold allBufCfgs at hbc
    rcases List.mem_append.mp hbc with h | h
    · rcases List.mem_append.mp h with h | h
      · exact C.pflex.standalone bc h
      · obtain ⟨m, hm, hb⟩ := List.mem_flatMap.mp h
        obtain ⟨mc, hmc, rfl⟩ := pb_mem_machines hm
        simp only [List.mem_cons, List.not_mem_nil, or_false] at hb
        rcases hb with rfl | rfl | rfl
        · rfl
        · exact C.pflex.buf mc hmc
        · exact C.pflex.post mc hmc
    · obtain ⟨tc, htc, rfl⟩ := List.mem_map.mp h
      exact C.pflex.agv tc htc

theorem pb_shape {s : State} (h : Shape inst s) : Shape (preFlex inst) s where
  jobs := h.jobs
  machines := by
    rw [h.machines, preFlex_machines, List.map_map]
    rfl
  transports := h.transports
  buffers := h.buffers

theorem pb_struct {s : State} (h : StructInv inst s) : StructInv (preFlex inst) s where
  shape := pb_shape h.shape
  cons := h.cons
  cap := by
    intro c' hc'
    obtain ⟨c, hc, hcc⟩ := pb_mem_cfgs_of_pre hc'
    have := h.cap c hc
    rcases hcc with rfl | ⟨rfl, _⟩
    · exact this
    · exact this

theorem pb_ready {s : State} (h : Ready inst s) : Ready (preFlex inst) s where
  tool := by
    intro m hm mc' hmc' hid b hb
    obtain ⟨mc, hmc, rfl⟩ := pb_mem_machines hmc'
    exact h.tool m hm mc hmc hid b hb
  parked := by
    intro t ht hst
    obtain ⟨l, hl, hr⟩ := h.parked t ht hst
    refine ⟨l, hl, ?_⟩
    unfold reaches
    rw [pb_pickupBufs]
    exact hr

theorem pb_outShape {s : State} (h : OutShape inst s) : OutShape (preFlex inst) s where
  mach := by
    intro m hm mc' hmc' hid
    obtain ⟨mc, hmc, rfl⟩ := pb_mem_machines hmc'
    exact h.mach m hm mc hmc hid
  agv := h.agv

theorem pb_full {s : State} (h : AgvFull inst s) : AgvFull (preFlex inst) s :=
  ⟨h.agv, ⟨h.route.transitOwn, h.route.route, h.route.preUnclaimed, h.route.preNext, h.route.delivered⟩⟩

theorem pb_place {s : State} (h : JobPlace inst s) : JobPlace (preFlex inst) s :=
  ⟨h.inputIdle, h.claimNotOut⟩

theorem pb_totInv {s : State} (h : TotInv inst s) : TotInv (preFlex inst) s :=
  ⟨pb_struct h.struct, h.sched, pb_full h.full, pb_ready h.ready, h.out, pb_outShape h.outShape, h.shape, pb_place h.place⟩

theorem pb_aim {s : State} {tr : Transition} (h : Aim inst s tr) : Aim (preFlex inst) s tr :=
  ⟨h.mach, h.agv, h.notBuf⟩

end JSL
