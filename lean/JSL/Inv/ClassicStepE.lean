import JSL.Inv.ClassicStep
import JSL.Inv.ClassicInvE

/-!
# One applied transition keeps the classic invariant with early dispatch

`cinvE_step`: for a classic instance, every enabled transition (`EnE`) that applies keeps `CInvE`.
The structure is that of `JSL/Inv/ClassicStep.lean` (`cinv_step`): kind by kind through the closed form of
the handler that ran, field by field through three frame lemmas (`cinvE_replaceTransport`,
`cinvE_machine_step`, `cinvE_agv_move`).

What is new: a claimed job may lie in the internal buffer of a machine (`Pickable`), and a waiting AGV
need not be due – then its waiting time is the end of the running record of its job (`waitDue`).  The
machine transitions on a claimed job keep this: whenever a running record's end is rewritten or the record
is finished, the old end has been reached (the machine was due).
-/

namespace JSL

variable {orc : Oracle} {inst : Instance}

/-- job `j` has a running record that ends at `c` -/
def ProcEndE (j : JobState) (c : Int) : Prop := ∃ o ∈ j.ops, o.st = .processing ∧ o.stop = some c

/-! ## places and buffer ids -/

/-- the internal buffer of a machine of the state is an internal buffer of the instance -/
theorem cse_buffer_internal {s : State} (hs : Shape inst s) {m : MachineState} (hm : m ∈ s.machines) :
    m.buffer.id ∈ internalIds inst := by
  obtain ⟨mc, hmc, hk⟩ := mem_of_map_eq hs.machines hm
  simp only [mKey, mcKey, Prod.mk.injEq] at hk
  unfold internalIds
  exact List.mem_map.mpr ⟨mc, hmc, hk.2.2.1.symm⟩

/-- an internal buffer of the instance is the internal buffer of a machine of the state -/
theorem cse_internal_machine {s : State} (hs : Shape inst s) {i : Nat} (hi : i ∈ internalIds inst) :
    ∃ m ∈ s.machines, m.buffer.id = i := by
  unfold internalIds at hi
  obtain ⟨mc, hmc, e⟩ := List.mem_map.mp hi
  obtain ⟨m, hm, hk⟩ := mem_of_map_eq hs.machines.symm hmc
  simp only [mKey, mcKey, Prod.mk.injEq] at hk
  exact ⟨m, hm, by rw [← hk.2.2.1, e]⟩

/-- a job lying in a pre-buffer is not `Pickable` -/
theorem cse_pre_not_pickable (w : WF inst) {s : State} (hs : Shape inst s) {m : MachineState} (hm : m ∈ s.machines)
    {j : JobState} (hloc : j.loc = m.pre.id) : ¬ Pickable inst j := by
  intro h
  rcases h with h | h
  · rw [hloc] at h; exact (cs_machine_not_pickup w hs hm).1 h
  · rw [hloc] at h
    obtain ⟨m2, hm2, e⟩ := cse_internal_machine hs h
    exact (internal_ne_pre_post hs w hm2 hm).1 e

/-! ## the per-AGV part of `CInvE` -/

structure TGoodE (inst : Instance) (s : State) (t : TransportState) : Prop where
  noDep : ∀ b j tr, t.occ ≠ .dep b j tr
  noWorking : t.st ≠ .working
  claimed : t.st = .pickup ∨ t.st = .waitingpickup → ∃ j ∈ s.jobs, t.job = some j.id ∧ Pickable inst j
  isAt : t.st ≠ .idle → ∃ c, t.occ = .at c
  due : t.st = .pickup ∨ t.st = .transit ∨ t.st = .outage → ∀ c, t.occ = .at c → c ≤ s.time
  waitDue : t.st = .waitingpickup → ∀ j ∈ s.jobs, t.job = some j.id → ∀ c, t.occ = .at c →
    c ≤ s.time ∨ ProcEndE j c
  parked : t.st = .idle ∨ t.st = .outage → ∃ l, t.loc = .at l ∧ l ∈ locsOf inst

theorem CInvE.tgoodE {s : State} (h : CInvE inst s) {t : TransportState} (ht : t ∈ s.transports) : TGoodE inst s t :=
  ⟨h.noDep t ht, h.noWorking t ht, h.claimed t ht, h.agvAt t ht, h.agvDue t ht, h.waitDue t ht, h.parked t ht⟩

/-- `CInvE` from its per-AGV part and the three fields on jobs and machines -/
theorem cinvE_of_parts {s : State} (key : ∀ t ∈ s.transports, TGoodE inst s t)
    (fresh : ∀ j ∈ s.jobs, j.loc ∈ inst.buffers.map (·.id) → j.loc ∉ outputIds inst → ∃ o, j.nextIdle? = some o)
    (machDue : ∀ m ∈ s.machines, m.st = .setup ∨ m.st = .outage → ∃ c, m.occ = some c ∧ c ≤ s.time)
    (setupRec : ∀ m ∈ s.machines, m.st = .setup → ∀ j ∈ s.jobs, ∀ o ∈ j.ops, o.st = .processing →
      o.machine = m.id → o.start = o.stop) : CInvE inst s :=
  ⟨fun t ht => (key t ht).noDep, fun t ht => (key t ht).noWorking, fun t ht => (key t ht).claimed,
   fun t ht => (key t ht).isAt, fun t ht => (key t ht).due, fun t ht => (key t ht).waitDue,
   fun t ht => (key t ht).parked, fresh, machDue, setupRec⟩

/-- an AGV record that is good in `s` is good in `s'` when the clock is the same, every job keeps its id, and
the job it claims (if `Pickable`) stays `Pickable` and every end of a running record of it either has been
reached or is still the end of a running record -/
theorem TGoodE.frame {s s' : State} {t : TransportState} (h : TGoodE inst s t)
    (hnd : (s.jobs.map (·.id)).Nodup) (htime : s'.time = s.time)
    (hfwd : ∀ j ∈ s.jobs, ∃ j' ∈ s'.jobs, j'.id = j.id)
    (hback : ∀ j' ∈ s'.jobs, t.job = some j'.id → ∃ j ∈ s.jobs, j.id = j'.id ∧
      (Pickable inst j → Pickable inst j' ∧ ∀ c, ProcEndE j c → c ≤ s.time ∨ ProcEndE j' c)) :
    TGoodE inst s' t := by
  refine ⟨h.noDep, h.noWorking, ?_, h.isAt, ?_, ?_, h.parked⟩
  · intro hst
    obtain ⟨j, hj, e, hl⟩ := h.claimed hst
    obtain ⟨j', hj', e'⟩ := hfwd j hj
    obtain ⟨j1, hj1, e1, hp⟩ := hback j' hj' (by rw [e, e'])
    have : j1 = j := eq_of_mem_of_key_eq (key := fun (y : JobState) => y.id) hnd hj1 hj (by rw [e1, e'])
    subst this
    exact ⟨j', hj', by rw [e, e'], (hp hl).1⟩
  · intro hst c hc
    rw [htime]; exact h.due hst c hc
  · intro hst j' hj' e' c hc
    obtain ⟨j1, hj1, e1, hp⟩ := hback j' hj' e'
    obtain ⟨j, hj, e, hl⟩ := h.claimed (Or.inr hst)
    have : j1 = j := eq_of_mem_of_key_eq (key := fun (y : JobState) => y.id) hnd hj1 hj
      (by rw [e'] at e; simp only [Option.some.injEq] at e; rw [e1, e])
    subst this
    rw [htime]
    rcases h.waitDue hst j1 hj1 (by rw [e', e1]) c hc with h1 | h1
    · exact Or.inl h1
    · exact (hp hl).2 c h1

/-! ## three frame lemmas -/

/-- only one AGV record changes -/
theorem cinvE_replaceTransport {s : State} (hc : CInvE inst s) {t' : TransportState} (hg : TGoodE inst s t') :
    CInvE inst (s.replaceTransport t') := by
  have key : ∀ t ∈ (s.replaceTransport t').transports, TGoodE inst s t := by
    intro t ht
    rcases cs_mem_replaceTransport ht with rfl | ⟨ht', _⟩
    · exact hg
    · exact hc.tgoodE ht'
  exact ⟨fun t ht => (key t ht).noDep, fun t ht => (key t ht).noWorking, fun t ht => (key t ht).claimed,
    fun t ht => (key t ht).isAt, fun t ht => (key t ht).due, fun t ht => (key t ht).waitDue,
    fun t ht => (key t ht).parked, hc.fresh, hc.machDue, hc.setupRec⟩

/-- one job record (`j ↦ J`) and one machine record (`m ↦ M`) change; if the job is `Pickable` before, it is after,
and every end of a running record of it has been reached or is still such an end; the job lies in no standalone
buffer after -/
theorem cinvE_machine_step (w : WF inst) {s s' : State} (hs : Shape inst s) (hS : SchedInv s) (hc : CInvE inst s)
    {j J : JobState} {m M : MachineState} (hj : j ∈ s.jobs) (hm : m ∈ s.machines) (hJid : J.id = j.id)
    (hMid : M.id = m.id) (htime : s'.time = s.time) (htr : s'.transports = s.transports)
    (hjobs : s'.jobs = (s.replaceJob J).jobs) (hmach : s'.machines = (s.replaceMachine M).machines)
    (hpick : Pickable inst j → Pickable inst J ∧ ∀ c, ProcEndE j c → c ≤ s.time ∨ ProcEndE J c)
    (hJloc : J.loc ∉ inst.buffers.map (·.id))
    (hdue : M.st = .setup ∨ M.st = .outage → ∃ c, M.occ = some c ∧ c ≤ s.time)
    (hops : ∀ o ∈ J.ops, o ∈ j.ops ∨ o.machine = m.id ∨ o.st ≠ .processing)
    (hnew : M.st = .setup → m.st = .idle ∧ ∀ o ∈ J.ops, o ∈ j.ops ∨ o.start = o.stop) :
    CInvE inst s' := by
  have hjn := hs.jobsNodup w
  have hmn := hs.machNodup w
  have key : ∀ t ∈ s'.transports, TGoodE inst s' t := by
    intro t ht
    rw [htr] at ht
    refine (hc.tgoodE ht).frame hjn htime ?_ ?_
    · intro j0 hj0
      by_cases e : j0.id = j.id
      · exact ⟨J, by rw [hjobs]; exact (mem_replaceJob hjn hj hJid J).mpr (Or.inl rfl), by rw [hJid, e]⟩
      · exact ⟨j0, by rw [hjobs]; exact cs_keep_replaceJob hj0 (by rw [hJid]; exact e), rfl⟩
    · intro j' hj' _
      rw [hjobs] at hj'
      rcases cs_mem_replaceJob hj' with rfl | ⟨hj0, _⟩
      · exact ⟨j, hj, hJid.symm, hpick⟩
      · exact ⟨j', hj0, rfl, fun hp => ⟨hp, fun c hc => Or.inr hc⟩⟩
  -- a processing record on machine `m` while `m` is idle: impossible
  have idle_no_proc : m.st = .idle → ∀ j0 ∈ s.jobs, ∀ o ∈ j0.ops, o.st = .processing → o.machine = m.id → False := by
    intro hidle j0 hj0 o ho hp hmm
    obtain ⟨m2, hm2, hid2, hbusy, _⟩ := hS.procOnBusy j0 hj0 o ho hp
    have : m2 = m := eq_of_mem_of_key_eq (key := fun (y : MachineState) => y.id) hmn hm2 hm (by rw [hid2, hmm])
    subst this
    exact hbusy hidle
  refine cinvE_of_parts key ?_ ?_ ?_
  · intro j' hj' h1 h2
    rw [hjobs] at hj'
    rcases cs_mem_replaceJob hj' with rfl | ⟨hj0, _⟩
    · exact absurd h1 hJloc
    · exact hc.fresh j' hj0 h1 h2
  · intro m' hm' hst
    rw [hmach] at hm'
    rw [htime]
    rcases cs_mem_replaceMachine hm' with rfl | ⟨hm0, _⟩
    · exact hdue hst
    · exact hc.machDue m' hm0 hst
  · intro m' hm' hst j' hj' o ho hp hmm
    rw [hmach] at hm'
    rw [hjobs] at hj'
    rcases cs_mem_replaceMachine hm' with rfl | ⟨hm0, hne⟩
    · obtain ⟨hidle, hJ⟩ := hnew hst
      rw [hMid] at hmm
      rcases cs_mem_replaceJob hj' with rfl | ⟨hj0, _⟩
      · rcases hJ o ho with ho' | e
        · exact (idle_no_proc hidle j hj o ho' hp hmm).elim
        · exact e
      · exact (idle_no_proc hidle j' hj0 o ho hp hmm).elim
    · rcases cs_mem_replaceJob hj' with rfl | ⟨hj0, _⟩
      · rcases hops o ho with ho' | e | e
        · exact hc.setupRec m' hm0 hst j hj o ho' hp hmm
        · exact absurd (by rw [← hmm, e, hMid]) hne
        · exact absurd hp e
      · exact hc.setupRec m' hm0 hst j' hj0 o ho hp hmm

/-- one job `j`, claimed by AGV `t`, is relocated to `l` (not a standalone buffer, or an output buffer), the record of
`t` changes, machines keep their state and `occupied_till` -/
theorem cinvE_agv_move {s s' : State} (hnd : (s.jobs.map (·.id)).Nodup) (hA : AgvInv s) (hc : CInvE inst s)
    {j : JobState} {t t' : TransportState} {l : Nat} (hj : j ∈ s.jobs) (ht : t ∈ s.transports)
    (hclaim : t.job = some j.id) (hid : t'.id = t.id) (htime : s'.time = s.time)
    (hjobs : s'.jobs = (s.replaceJob (j.at l)).jobs) (htrs : s'.transports = (s.replaceTransport t').transports)
    (hmach : ∀ m' ∈ s'.machines, ∃ m ∈ s.machines, m.id = m'.id ∧ m.st = m'.st ∧ m.occ = m'.occ)
    (hl : l ∈ inst.buffers.map (·.id) → l ∈ outputIds inst) (hgood : TGoodE inst s' t') : CInvE inst s' := by
  have key : ∀ t2 ∈ s'.transports, TGoodE inst s' t2 := by
    intro t2 ht2
    rw [htrs] at ht2
    rcases cs_mem_replaceTransport ht2 with rfl | ⟨ht2', hne⟩
    · exact hgood
    · refine (hc.tgoodE ht2').frame hnd htime ?_ ?_
      · intro j0 hj0
        by_cases e : j0.id = j.id
        · exact ⟨j.at l, by rw [hjobs]; exact (mem_replaceJob (j' := j.at l) hnd hj rfl (j.at l)).mpr (Or.inl rfl), by
            simp only [JobState.at_id]; exact e.symm⟩
        · exact ⟨j0, by rw [hjobs]; exact cs_keep_replaceJob hj0 (by simp only [JobState.at_id]; exact e), rfl⟩
      · intro j' hj' e'
        rw [hjobs] at hj'
        rcases cs_mem_replaceJob hj' with rfl | ⟨hj0, _⟩
        · simp only [JobState.at_id] at e'
          exact absurd (by rw [hid]; exact hA.unique t2 ht2' t ht j.id e' hclaim) hne
        · exact ⟨j', hj0, rfl, fun hp => ⟨hp, fun c hc => Or.inr hc⟩⟩
  -- every job of `s'` has the records of a job of `s`
  have hrec : ∀ j' ∈ s'.jobs, ∃ j0 ∈ s.jobs, j'.ops = j0.ops := by
    intro j' hj'
    rw [hjobs] at hj'
    rcases cs_mem_replaceJob hj' with rfl | ⟨hj0, _⟩
    · exact ⟨j, hj, rfl⟩
    · exact ⟨j', hj0, rfl⟩
  refine cinvE_of_parts key ?_ ?_ ?_
  · intro j' hj' h1 h2
    rw [hjobs] at hj'
    rcases cs_mem_replaceJob hj' with rfl | ⟨hj0, _⟩
    · exact absurd (hl h1) h2
    · exact hc.fresh j' hj0 h1 h2
  · intro m' hm' hst
    obtain ⟨m, hm, _, e1, e2⟩ := hmach m' hm'
    rw [← e1] at hst
    rw [← e2, htime]
    exact hc.machDue m hm hst
  · intro m' hm' hst j' hj' o ho hp hmm
    obtain ⟨m, hm, e0, e1, _⟩ := hmach m' hm'
    obtain ⟨j0, hj0, e⟩ := hrec j' hj'
    exact hc.setupRec m hm (by rw [e1]; exact hst) j0 hj0 o (by rw [← e]; exact ho) hp (by rw [hmm, e0])

/-! ## the machine kinds -/

/-- the end of a running record of the job held by a busy machine is the machine's `occupied_till` -/
theorem cse_procEnd_busy (w : WF inst) {s : State} (hs : Shape inst s) (hS : SchedInv s) {m : MachineState}
    (hm : m ∈ s.machines) (hb : m.st ≠ .idle) {j : JobState} (hj : j ∈ s.jobs) (hin : j.id ∈ m.buffer.store)
    {c : Int} (hc : ProcEndE j c) : m.occ = some c := by
  obtain ⟨j1, hj1, hst, op, hp, _, hstop, _⟩ := hS.busyHolds m hm hb
  have : j1 = j := eq_of_mem_of_key_eq (key := fun (y : JobState) => y.id) (hs.jobsNodup w) hj1 hj
    (by rw [hst] at hin; simp only [List.mem_singleton] at hin; exact hin.symm)
  subst this
  obtain ⟨o, ho, hop, hoc⟩ := hc
  obtain ⟨_, _, _, _, hpst⟩ := processing?_split' hp
  have : o = op := OpsOK_one_processing _ _ (hS.ops j1 hj) o ho op (find?_mem_ops hp).1 hop hpst
  subst this
  rw [← hstop, hoc]

/-- a machine start (IDLE → SETUP) -/
theorem cinvE_start_machine (w : WF inst) (hC : Classic inst) {s s' : State} {r r' : Rng} {a : Transition}
    (hI : StructInv inst s) (hS : SchedInv s) (hB : BundleE inst s) {m : MachineState} (hm : m ∈ s.machines)
    (hst : m.st = .idle) (h : handleMachineIdleToSetup orc inst s r a m = .ok (s', r')) : CInvE inst s' := by
  have hs := hI.shape
  obtain ⟨j, op, oc, mc, sd, bss1, bss2, hj, _, hin, _, _, _, _, hmc, _, _, ⟨c, hlk, hsd⟩, rfl⟩ := idleToSetup_spec h
  have hc0 : c = .det 0 := hC.setup0 mc hmc _ (cs_lookup_mem hlk)
  have hsd0 : sd = 0 := by
    rw [hc0] at hsd
    simp only [TimeCfg.readUpd, Prod.mk.injEq] at hsd
    exact hsd.1
  subst hsd0
  have hloc : j.loc = m.pre.id := cs_loc_of_store w hI hj (mem_allBufs_of_machine hm).1 hin
  refine cinvE_machine_step w hs hS hB.cinv (j := j) (m := m)
    (J := (j.replaceOp (opRec oc s.time (s.time + 0) m.id)).at m.buffer.id)
    (M := m.toSetup j.id bss1 bss2 (s.time + 0) oc.tool) hj hm rfl rfl rfl rfl rfl rfl ?_ ?_ ?_ ?_ ?_
  · intro hp; exact absurd hp (cse_pre_not_pickable w hs hm hloc)
  · exact (cs_machine_not_standalone w hs hm).2.1
  · intro _
    exact ⟨s.time + 0, rfl, by omega⟩
  · intro o ho
    rcases cs_mem_replaceOp ho with ho' | rfl
    · exact Or.inl ho'
    · exact Or.inr (Or.inl rfl)
  · intro _
    refine ⟨hst, ?_⟩
    intro o ho
    rcases cs_mem_replaceOp ho with ho' | rfl
    · exact Or.inl ho'
    · right; simp [opRec]

/-- SETUP → WORKING -/
theorem cinvE_mWork (w : WF inst) {s s' : State} {r r' : Rng} {a : Transition}
    (hI : StructInv inst s) (hS : SchedInv s) (hB : BundleE inst s) {m : MachineState} (hm : m ∈ s.machines)
    (hst : m.st = .setup) (h : handleMachineSetupToWorking orc inst s r a m = .ok (s', r')) : CInvE inst s' := by
  have hs := hI.shape
  obtain ⟨j, op, oc, d, hj, _, hin, _, _, _, _, _, rfl⟩ := setupToWorking_spec h
  have hloc : j.loc = m.buffer.id := cs_loc_of_store w hI hj (mem_allBufs_of_machine hm).2.1 hin
  refine cinvE_machine_step w hs hS hB.cinv (j := j) (m := m)
    (J := j.replaceOp (opRec oc s.time (s.time + d) m.id)) (M := m.toWorking (s.time + d))
    hj hm rfl rfl rfl rfl rfl rfl ?_ ?_ ?_ ?_ ?_
  · intro hp
    refine ⟨hp, fun c hc => Or.inl ?_⟩
    obtain ⟨c0, e0, hle⟩ := hB.cinv.machDue m hm (Or.inl hst)
    have := cse_procEnd_busy w hs hS hm (by rw [hst]; simp) hj hin hc
    rw [e0] at this
    simp only [Option.some.injEq] at this
    omega
  · show j.loc ∉ _
    rw [hloc]; exact (cs_machine_not_standalone w hs hm).2.1
  · intro h; rcases h with h | h <;> cases h
  · intro o ho
    rcases cs_mem_replaceOp ho with ho' | rfl
    · exact Or.inl ho'
    · exact Or.inr (Or.inl rfl)
  · intro h; cases h

/-- WORKING → OUTAGE (of a machine that is due) -/
theorem cinvE_mOut (w : WF inst) (hC : Classic inst) {s s' : State} {r r' : Rng} {a : Transition}
    (hI : StructInv inst s) (hS : SchedInv s) (hB : BundleE inst s) {m : MachineState} (hm : m ∈ s.machines)
    (hst : m.st = .working) {x : Nat} (hx : m.buffer.store = [x]) (hjob : a.job = some x)
    (hdue : dueAt m.occ s.time = true)
    (h : handleMachineWorkingToOutage orc inst s r a m = .ok (s', r')) : CInvE inst s' := by
  have hs := hI.shape
  obtain ⟨_, j, op, hj, htj, hp, rfl⟩ := workingToOutage_classic hC h
  have hjx : j.id = x := by rw [hjob] at htj; simpa using htj.symm
  obtain ⟨j0, hj0, hid0, _, op0, hp0, _, hmach0, _, _⟩ := busy_running w hI hS hm (by rw [hst]; simp) hx
  have : j0 = j := eq_of_mem_of_key_eq (key := fun (y : JobState) => y.id) (hs.jobsNodup w) hj0 hj (by rw [hid0, hjx])
  subst this
  have : op0 = op := by rw [hp0] at hp; simpa using hp
  subst this
  have hin : j0.id ∈ m.buffer.store := by rw [hx, hjx]; simp
  have hloc : j0.loc = m.buffer.id := cs_loc_of_store w hI hj (mem_allBufs_of_machine hm).2.1 hin
  refine cinvE_machine_step w hs hS hB.cinv (j := j0) (m := m)
    (J := j0.replaceOp { op0 with stop := some s.time }) (M := m.toOutage [] s.time) hj hm rfl rfl rfl rfl rfl rfl
    ?_ ?_ ?_ ?_ ?_
  · intro hpk
    refine ⟨hpk, fun c hc => Or.inl ?_⟩
    have := cse_procEnd_busy w hs hS hm (by rw [hst]; simp) hj hin hc
    rw [this] at hdue
    simpa [dueAt] using hdue
  · show j0.loc ∉ _
    rw [hloc]; exact (cs_machine_not_standalone w hs hm).2.1
  · intro _
    exact ⟨s.time, rfl, Int.le_refl _⟩
  · intro o ho
    rcases cs_mem_replaceOp ho with ho' | rfl
    · exact Or.inl ho'
    · exact Or.inr (Or.inl hmach0)
  · intro h; cases h

/-- OUTAGE → IDLE of a machine -/
theorem cinvE_mIdle (w : WF inst) {s s' : State} {r r' : Rng}
    (hI : StructInv inst s) (hS : SchedInv s) (hB : BundleE inst s) {m : MachineState} (hm : m ∈ s.machines)
    (hst : m.st = .outage) (h : handleMachineOutageToIdle inst s r m = .ok (s', r')) : CInvE inst s' := by
  have hs := hI.shape
  obtain ⟨j, op, mc, rest, bss1, bss2, hstore, hj, _, _, _, _, _, rfl⟩ := outageToIdle_spec h
  have hin : j.id ∈ m.buffer.store := by rw [hstore]; simp
  have hloc : j.loc = m.buffer.id := cs_loc_of_store w hI hj (mem_allBufs_of_machine hm).2.1 hin
  refine cinvE_machine_step w hs hS hB.cinv (j := j) (m := m)
    (J := (j.replaceOp { op with stop := some s.time, st := .done }).at m.post.id) (M := m.toIdle j.id bss1 bss2)
    hj hm rfl rfl rfl rfl rfl rfl ?_ ?_ ?_ ?_ ?_
  · intro _
    refine ⟨Or.inl (cs_post_pickup hs hm), fun c hc => Or.inl ?_⟩
    obtain ⟨c0, e0, hle⟩ := hB.cinv.machDue m hm (Or.inr hst)
    have := cse_procEnd_busy w hs hS hm (by rw [hst]; simp) hj hin hc
    rw [e0] at this
    simp only [Option.some.injEq] at this
    omega
  · exact (cs_machine_not_standalone w hs hm).2.2
  · intro h; rcases h with h | h <;> cases h
  · intro o ho
    rcases cs_mem_replaceOp ho with ho' | rfl
    · exact Or.inl ho'
    · exact Or.inr (Or.inr (by simp))
  · intro h; cases h

/-! ## the AGV kinds -/

/-- where the AGV is sent for a job at a pickup place or in an internal buffer is a place of the shop -/
theorem cse_source_locs (w : WF inst) (hC : Classic inst) {bc : BufCfg} (hbc : bc ∈ allBufCfgs inst)
    (hid : bc.id ∈ pickupPlaces inst ∨ bc.id ∈ internalIds inst) :
    (bc.parent = none → Loc.b bc.id ∈ locsOf inst) ∧ (∀ mid, bc.parent = some (.m mid) → Loc.m mid ∈ locsOf inst) := by
  rcases hid with hid | hid
  · obtain ⟨src, hsrc, hl⟩ := pickupSource_locs w hC hbc hid
    constructor
    · intro hp
      simp only [pickupSource, hp, except_pure, Except.ok.injEq] at hsrc
      rw [hsrc]; exact hl
    · intro mid hp
      simp only [pickupSource, hp, except_pure, Except.ok.injEq] at hsrc
      rw [hsrc]; exact hl
  · unfold internalIds at hid
    obtain ⟨mc, hmc, e⟩ := List.mem_map.mp hid
    have : mc.buf = bc := eq_of_mem_of_key_eq (key := fun (y : BufCfg) => y.id) w.bufNodup
      (mem_allBufCfgs_of_machine hmc).2.1 hbc e
    subst this
    have hp := hC.parentBuf mc hmc
    constructor
    · intro h; rw [hp] at h; cases h
    · intro mid h
      rw [hp] at h
      simp only [Option.some.injEq, Comp.m.injEq] at h
      subst h
      unfold locsOf
      exact List.mem_append.mpr (Or.inl (List.mem_map.mpr ⟨mc, hmc, rfl⟩))

/-- the waiting time of an AGV for a job of the shop, when it is computed: "now", or the end of the running record
of the job -/
theorem cse_waitingTime (w : WF inst) (hC : Classic inst) {s : State} (hI : StructInv inst s) (hS : SchedInv s)
    {j : JobState} (hj : j ∈ s.jobs) {c : Comp} {ns : NewSt} {occ : Occ}
    (h : getWaitingTime inst s ⟨c, ns, some j.id⟩ = .ok occ) : ∃ e, occ = .at e ∧ (e = s.time ∨ ProcEndE j e) := by
  have hs := hI.shape
  have h0 := h
  have hgj : getJobOpt s.jobs (some j.id) = .ok j := getJob_of_mem (hs.jobsNodup w) hj
  unfold getWaitingTime at h
  simp only [hgj, except_bind_ok] at h
  obtain ⟨bc, hbc, h⟩ := except_bind_eq_ok h
  cases hp : bc.parent with
  | none =>
    simp only [hp, except_pure, Except.ok.injEq] at h
    exact ⟨s.time, h.symm, Or.inl rfl⟩
  | some p =>
    cases p with
    | m mid =>
      simp only [hp] at h
      obtain ⟨ms, hms, h⟩ := except_bind_eq_ok h
      have hms' := getMachine_ok hms
      by_cases hcont : ms.post.store.contains j.id = true
      · have hin : j.id ∈ ms.post.store := List.contains_iff_mem.mp hcont
        have hloc := cs_loc_of_store w hI hj (mem_allBufs_of_machine hms'.1).2.2 hin
        have := getWaitingTime_classic w hC hI hS hj (by rw [hloc]; exact cs_post_pickup hs hms'.1) c ns
        rw [this] at h0
        simp only [Except.ok.injEq] at h0
        exact ⟨s.time, h0.symm, Or.inl rfl⟩
      · simp only [hcont, Bool.false_eq_true, if_false] at h
        unfold waitProcessing at h
        cases hpr : j.processing? with
        | none => simp [hpr] at h
        | some op =>
          simp only [hpr, except_pure, Except.ok.injEq] at h
          obtain ⟨_, _, _, _, hpst⟩ := processing?_split' hpr
          have hmem := (find?_mem_ops hpr).1
          obtain ⟨a, b, _, hb, _⟩ := (OpsOK_mem _ _ (hS.ops j hj) op hmem).2.1 hpst
          rw [hb] at h
          exact ⟨b, h.symm, Or.inr ⟨op, hmem, hpst, hb⟩⟩
    | t n => simp [hp] at h
    | b n => simp [hp] at h

/-- dispatch (IDLE → PICKUP), also to a running job -/
theorem cinvE_dispatch (w : WF inst) (hC : Classic inst) {s s' : State} {r r' : Rng}
    (hI : StructInv inst s) (hB : BundleE inst s) {t : TransportState} (ht : t ∈ s.transports) (hst : t.st = .idle)
    {j : JobState} (hj : j ∈ s.jobs) (hpk : Pickable inst j)
    (h : handleAgvIdleToWorking orc inst s r ⟨.t t.id, .t .working, some j.id⟩ t = .ok (s', r')) : CInvE inst s' := by
  have hs := hI.shape
  obtain ⟨l, hl, hlo⟩ := hB.cinv.parked t ht (Or.inl hst)
  obtain ⟨j', cur, target, src, bc, c, hj', htj, hcur, _, hbc, hbid, hsrc, htc, _, rfl⟩ := idleToWorking_spec h
  have : j' = j := eq_of_mem_of_key_eq (key := fun (y : JobState) => y.id) (hs.jobsNodup w) hj' hj
    (by simpa using htj.symm)
  subst this
  have : cur = l := by rw [hl] at hcur; simpa using hcur.symm
  subst this
  have hsl : src ∈ locsOf inst := by
    have hloc := cse_source_locs w hC hbc (by rw [hbid]; exact hpk)
    rcases hsrc with ⟨hp, rfl⟩ | ⟨mid, hp, rfl⟩
    · rw [← hbid]; exact hloc.1 hp
    · exact hloc.2 mid hp
  have hc0 : c = .det 0 := by
    have := hC.travel0 cur hlo src hsl
    rw [this] at htc
    simpa using htc.symm
  subst hc0
  refine cinvE_replaceTransport hB.cinv ⟨?_, ?_, ?_, ?_, ?_, ?_, ?_⟩
  · intro b x tr; simp [TransportState.toPickup]
  · simp [TransportState.toPickup]
  · intro _; exact ⟨j', hj, rfl, hpk⟩
  · intro _; exact ⟨_, rfl⟩
  · intro _ c hc
    simp only [TransportState.toPickup, TimeCfg.cur, Occ.at.injEq] at hc
    omega
  · intro h; cases h
  · intro h; rcases h with h | h <;> cases h

/-- PICKUP → WAITINGPICKUP and WAITINGPICKUP → WAITINGPICKUP: the record of the AGV after the waiting time is set -/
theorem cse_waiting_good (w : WF inst) (hC : Classic inst) {s : State} (hI : StructInv inst s) (hS : SchedInv s)
    (hB : BundleE inst s) {t : TransportState} (ht : t ∈ s.transports) (hst : t.st = .pickup ∨ t.st = .waitingpickup)
    {j : JobState} (hj : j ∈ s.jobs) (hjob : t.job = some j.id) {c : Comp} {ns : NewSt} {occ : Occ}
    (h : getWaitingTime inst s ⟨c, ns, some j.id⟩ = .ok occ) : TGoodE inst s (t.toWaiting occ) := by
  obtain ⟨e, rfl, he⟩ := cse_waitingTime w hC hI hS hj h
  refine ⟨?_, ?_, ?_, ?_, ?_, ?_, ?_⟩
  · intro b x tr; simp [TransportState.toWaiting]
  · simp [TransportState.toWaiting]
  · intro _; exact hB.cinv.claimed t ht hst
  · intro _; exact ⟨e, rfl⟩
  · intro h; rcases h with h | h | h <;> cases h
  · intro _ j2 hj2 e2 c2 hc2
    have : j2 = j := eq_of_mem_of_key_eq (key := fun (y : JobState) => y.id) (hI.shape.jobsNodup w) hj2 hj
      (by
        have e3 : t.job = some j2.id := e2
        rw [hjob] at e3
        simpa using e3.symm)
    subst this
    have : e = c2 := by simpa [TransportState.toWaiting] using hc2
    subst this
    rcases he with he | he
    · exact Or.inl (by omega)
    · exact Or.inr he
  · intro h; rcases h with h | h <;> cases h

/-- OUTAGE → IDLE of an AGV -/
theorem cinvE_release (w : WF inst) (hC : Classic inst) {s s' : State} {r r' : Rng}
    (hI : StructInv inst s) (hB : BundleE inst s) {t : TransportState} (ht : t ∈ s.transports) (hst : t.st = .outage)
    (h : applyTransition orc inst s r ⟨.t t.id, .t .idle, none⟩ = .ok (s', r')) : CInvE inst s' := by
  have happ := agvToIdle_result (orc := orc) w hC hI ht hst r
  rw [happ] at h
  simp only [Except.ok.injEq, Prod.mk.injEq] at h
  obtain ⟨rfl, _⟩ := h
  refine cinvE_replaceTransport hB.cinv ⟨?_, ?_, ?_, ?_, ?_, ?_, ?_⟩
  · exact hB.cinv.noDep t ht
  · simp
  · intro h; rcases h with h | h <;> cases h
  · intro h; exact absurd rfl h
  · intro h; rcases h with h | h | h <;> cases h
  · intro h; cases h
  · intro _; exact hB.cinv.parked t ht (Or.inr hst)

/-- WAITINGPICKUP → TRANSIT -/
theorem cinvE_pick (w : WF inst) (hC : Classic inst) {s s' : State} {r r' : Rng} {a : Transition}
    (hI : StructInv inst s) (hB : BundleE inst s) {t : TransportState} (ht : t ∈ s.transports)
    {j : JobState} (hj : j ∈ s.jobs) (hjob : t.job = some j.id) (haj : a.job = some j.id)
    (h : handleAgvPickupToTransit orc inst s r a t = .ok (s', r')) : CInvE inst s' := by
  have hs := hI.shape
  have hjn := hs.jobsNodup w
  obtain ⟨j', src, dst, tt, bss1, bss2, hj', htj, hdrop, htt, _, hcase⟩ := pickupToTransit_spec h
  have : j' = j := eq_of_mem_of_key_eq (key := fun (y : JobState) => y.id) hjn hj' hj
    (by rw [haj] at htj; simpa using htj.symm)
  subst this
  have hdl : dst ∈ locsOf inst :=
    cs_drop_place w hs hj (fun o ho => (find?_mem_ops ho).1) hdrop
  have hnst := cs_transport_not_standalone w hs ht
  -- the new record of the AGV is good once the travel time is known to be 0
  have good : ∀ s1 : State, s1.time = s.time → tt = 0 → TGoodE inst s1 (t.toTransit (s.time + tt) j'.id bss2) := by
    intro s1 h1 h0
    refine ⟨?_, ?_, ?_, ?_, ?_, ?_, ?_⟩
    · intro b x tr; simp [TransportState.toTransit]
    · simp [TransportState.toTransit]
    · intro h; rcases h with h | h <;> cases h
    · intro _; exact ⟨s.time + tt, rfl⟩
    · intro _ c hc
      simp only [TransportState.toTransit, Occ.at.injEq] at hc
      rw [h1]; omega
    · intro h; cases h
    · intro h; rcases h with h | h <;> cases h
  rcases hcase with ⟨fb, rfl, _, hfb, hfid, _, rfl⟩ | ⟨mid, ms, bs, ms', rfl, _, hms, rfl, _, _, hrep, rfl⟩
  · have hsl : Loc.b j'.loc ∈ locsOf inst := by rw [← hfid]; exact cs_loc_b_mem hs hfb
    have h0 := cs_travel_zero hC hsl hdl htt
    refine cinvE_agv_move hjn hB.full.agv hB.cinv (j := j') (t := t) (l := t.buffer.id)
      (t' := t.toTransit (s.time + tt) j'.id bss2) hj ht hjob rfl rfl rfl rfl ?_ ?_ (good _ rfl h0)
    · intro m' hm'; exact ⟨m', hm', rfl, rfl, rfl⟩
    · intro h; exact absurd h hnst
  · have hsl : Loc.m ms.id ∈ locsOf inst := cs_loc_m_mem hs hms
    have h0 := cs_travel_zero hC hsl hdl htt
    obtain ⟨e1, e2, e3⟩ := cs_replaceBuf_keep hrep
    refine cinvE_agv_move hjn hB.full.agv hB.cinv (j := j') (t := t) (l := t.buffer.id)
      (t' := t.toTransit (s.time + tt) j'.id bss2) hj ht hjob rfl rfl rfl rfl ?_ ?_ (good _ rfl h0)
    · intro m' hm'
      rcases cs_mem_replaceMachine hm' with rfl | ⟨hm0, _⟩
      · exact ⟨ms, hms, e1.symm, e2.symm, e3.symm⟩
      · exact ⟨m', hm0, rfl, rfl, rfl⟩
    · intro h; exact absurd h hnst

/-- TRANSIT → OUTAGE (delivery) -/
theorem cinvE_deliver (w : WF inst) (hC : Classic inst) {s s' : State} {r r' : Rng} {a : Transition}
    (hI : StructInv inst s) (hB : BundleE inst s) {t : TransportState} (ht : t ∈ s.transports) (hst : t.st = .transit)
    {j : JobState} (hj : j ∈ s.jobs) (hstore : t.buffer.store = [j.id]) (haj : a.job = some j.id)
    (h : handleAgvTransitToOutage orc inst s r a t = .ok (s', r')) : CInvE inst s' := by
  have hs := hI.shape
  have hjn := hs.jobsNodup w
  obtain ⟨j', cur, pick, drop, tc, outs, bss1, bss2, hj', htj, hloc, _, htc, _, hno, hcase⟩ := transitToOutage_spec h
  have : j' = j := eq_of_mem_of_key_eq (key := fun (y : JobState) => y.id) hjn hj' hj
    (by rw [haj] at htj; simpa using htj.symm)
  subst this
  rw [hC.noOutT tc htc, newOutageStates_nil] at hno
  simp only [Except.ok.injEq, Prod.mk.injEq] at hno
  obtain ⟨rfl, _⟩ := hno
  have hclaim : t.job = some j'.id := hB.full.route.transitOwn t ht hst j'.id (by rw [hstore]; simp)
  obtain ⟨cur', pick', drop', hloc', hdrop⟩ := hB.full.route.route t ht j'.id hclaim j' hj rfl
  rw [hloc] at hloc'
  simp only [TLoc.route.injEq] at hloc'
  obtain ⟨_, _, rfl⟩ := hloc'
  have good : ∀ s1 : State, s1.time = s.time → drop ∈ locsOf inst →
      TGoodE inst s1 (t.toOutage j'.id bss1 [] (s.time + occupiedFor []) drop) := by
    intro s1 h1 hd
    refine ⟨?_, ?_, ?_, ?_, ?_, ?_, ?_⟩
    · intro b x tr; simp [TransportState.toOutage]
    · simp [TransportState.toOutage]
    · intro h; rcases h with h | h <;> cases h
    · intro _; exact ⟨s.time + occupiedFor [], rfl⟩
    · intro _ c hc
      simp only [TransportState.toOutage, Occ.at.injEq, occupiedFor_nil] at hc
      rw [h1]; omega
    · intro h; cases h
    · intro _; exact ⟨drop, rfl, hd⟩
  rcases hcase with ⟨mid, ms, rfl, hms, rfl, _, rfl⟩ | ⟨bid, b, rfl, hb, rfl, _, rfl⟩
  · refine cinvE_agv_move hjn hB.full.agv hB.cinv (j := j') (t := t) (l := ms.pre.id)
      (t' := t.toOutage j'.id bss1 [] (s.time + occupiedFor []) (.m ms.id)) hj ht hclaim rfl rfl rfl rfl ?_ ?_
      (good _ rfl (cs_loc_m_mem hs hms))
    · intro m' hm'
      rcases cs_mem_replaceMachine hm' with rfl | ⟨hm0, _⟩
      · exact ⟨ms, hms, rfl, rfl, rfl⟩
      · exact ⟨m', hm0, rfl, rfl, rfl⟩
    · intro h; exact absurd h (cs_machine_not_standalone w hs hms).1
  · refine cinvE_agv_move hjn hB.full.agv hB.cinv (j := j') (t := t) (l := b.id)
      (t' := t.toOutage j'.id bss1 [] (s.time + occupiedFor []) (.b b.id)) hj ht hclaim rfl rfl rfl rfl ?_ ?_
      (good _ rfl (cs_loc_b_mem hs hb))
    · intro m' hm'; exact ⟨m', hm', rfl, rfl, rfl⟩
    · intro _
      rcases hdrop with ⟨_, o, ho, e⟩ | ⟨_, op, _, e⟩
      · simp only [Loc.b.injEq] at e
        rw [e]; exact (firstOutput_place ho).2.1
      · cases e

/-! ## the step -/

/-- **one applied transition keeps the classic invariant with early dispatch**; `hdue`: a machine that goes
WORKING → OUTAGE is due (timed transitions are only created for due machines: `DueGS`) -/
theorem cinvE_step (w : WF inst) (hC : Classic inst) {s s' : State} {r r' : Rng} {a : Transition}
    (hI : StructInv inst s) (hS : SchedInv s) (hB : BundleE inst s) (hE : EnE inst s a)
    (hdue : ∀ m ∈ s.machines, a.comp = .m m.id → a.new = .m .outage → dueAt m.occ s.time = true)
    (hv : transitionValid s a = .ok true) (h : applyTransition orc inst s r a = .ok (s', r')) : CInvE inst s' := by
  have hs := hI.shape
  have hmn := hs.machNodup w
  have htn := hs.trNodup w
  cases hE with
  | start tr hn =>
    cases hc : a.comp with
    | b bid => exact (apply_not_buffer hc h).elim
    | t tid =>
      obtain ⟨t0, _, _, hstep⟩ := agv_step_cases hc h
      cases hstep <;> simp_all
    | m mid =>
      obtain ⟨m0, hm0, _, hstep⟩ := mach_step_cases hc h
      cases hstep with
      | start hst _ hh => exact cinvE_start_machine w hC hI hS hB hm0 hst hh
      | work _ hn' _ => rw [hn] at hn'; cases hn'
      | out _ hn' _ => rw [hn] at hn'; cases hn'
      | idle _ hn' _ => rw [hn] at hn'; cases hn'
  | mWork m x hm hst hx =>
    obtain ⟨m0, hm0, hid, hstep⟩ := mach_step_cases (mid := m.id) rfl h
    have : m0 = m := eq_of_mem_of_key_eq (key := fun (y : MachineState) => y.id) hmn hm0 hm hid
    subst this
    cases hstep with
    | start _ hn' _ => cases hn'
    | work _ _ hh => exact cinvE_mWork w hI hS hB hm0 hst hh
    | out _ hn' _ => cases hn'
    | idle _ hn' _ => cases hn'
  | mOut m x hm hst hx =>
    obtain ⟨m0, hm0, hid, hstep⟩ := mach_step_cases (mid := m.id) rfl h
    have : m0 = m := eq_of_mem_of_key_eq (key := fun (y : MachineState) => y.id) hmn hm0 hm hid
    subst this
    cases hstep with
    | start _ hn' _ => cases hn'
    | work _ hn' _ => cases hn'
    | out _ _ hh => exact cinvE_mOut w hC hI hS hB hm0 hst hx rfl (hdue m0 hm0 rfl rfl) hh
    | idle _ hn' _ => cases hn'
  | mIdle m x hm hst hx =>
    obtain ⟨m0, hm0, hid, hstep⟩ := mach_step_cases (mid := m.id) rfl h
    have : m0 = m := eq_of_mem_of_key_eq (key := fun (y : MachineState) => y.id) hmn hm0 hm hid
    subst this
    cases hstep with
    | start _ hn' _ => cases hn'
    | work _ hn' _ => cases hn'
    | out _ hn' _ => cases hn'
    | idle _ _ hh => exact cinvE_mIdle w hI hS hB hm0 hst hh
  | dispatch t j ht hst hj hpk _ =>
    obtain ⟨t0, ht0, hid, hstep⟩ := agv_step_cases (tid := t.id) rfl h
    have : t0 = t := eq_of_mem_of_key_eq (key := fun (y : TransportState) => y.id) htn ht0 ht hid
    subst this
    cases hstep with
    | dispatch _ _ hh => exact cinvE_dispatch w hC hI hB ht0 hst hj hpk hh
    | wait1 _ hn' _ => cases hn'
    | wait2 _ hn' _ => cases hn'
    | pick _ hn' _ => cases hn'
    | deliver _ hn' _ => cases hn'
    | release _ hn' _ => cases hn'
  | wait t j ht hst hj hjob =>
    obtain ⟨t0, ht0, hid, hstep⟩ := agv_step_cases (tid := t.id) rfl h
    have : t0 = t := eq_of_mem_of_key_eq (key := fun (y : TransportState) => y.id) htn ht0 ht hid
    subst this
    cases hstep with
    | dispatch _ hn' _ => cases hn'
    | wait1 _ _ hh =>
      obtain ⟨occ, ho, _, _, rfl⟩ := pickupToWaiting_spec hh
      exact cinvE_replaceTransport hB.cinv (cse_waiting_good w hC hI hS hB ht0 (Or.inl hst) hj hjob ho)
    | wait2 hst' _ _ => rw [hst] at hst'; cases hst'
    | pick _ hn' _ => cases hn'
    | deliver _ hn' _ => cases hn'
    | release _ hn' _ => cases hn'
  | rewait t j ht hst hj hjob =>
    obtain ⟨t0, ht0, hid, hstep⟩ := agv_step_cases (tid := t.id) rfl h
    have : t0 = t := eq_of_mem_of_key_eq (key := fun (y : TransportState) => y.id) htn ht0 ht hid
    subst this
    cases hstep with
    | dispatch _ hn' _ => cases hn'
    | wait1 hst' _ _ => rw [hst] at hst'; cases hst'
    | wait2 _ _ hh =>
      obtain ⟨occ, ho, _, rfl⟩ := waitingToWaiting_spec hh
      exact cinvE_replaceTransport hB.cinv (cse_waiting_good w hC hI hS hB ht0 (Or.inr hst) hj hjob ho)
    | pick _ hn' _ => cases hn'
    | deliver _ hn' _ => cases hn'
    | release _ hn' _ => cases hn'
  | pick t j ht hst hj hjob _ =>
    obtain ⟨t0, ht0, hid, hstep⟩ := agv_step_cases (tid := t.id) rfl h
    have : t0 = t := eq_of_mem_of_key_eq (key := fun (y : TransportState) => y.id) htn ht0 ht hid
    subst this
    cases hstep with
    | dispatch _ hn' _ => cases hn'
    | wait1 _ hn' _ => cases hn'
    | wait2 _ hn' _ => cases hn'
    | pick _ _ hh => exact cinvE_pick w hC hI hB ht0 hj hjob rfl hh
    | deliver _ hn' _ => cases hn'
    | release _ hn' _ => cases hn'
  | deliver t j ht hst hj hstore =>
    obtain ⟨t0, ht0, hid, hstep⟩ := agv_step_cases (tid := t.id) rfl h
    have : t0 = t := eq_of_mem_of_key_eq (key := fun (y : TransportState) => y.id) htn ht0 ht hid
    subst this
    cases hstep with
    | dispatch _ hn' _ => cases hn'
    | wait1 _ hn' _ => cases hn'
    | wait2 _ hn' _ => cases hn'
    | pick _ hn' _ => cases hn'
    | deliver _ _ hh => exact cinvE_deliver w hC hI hB ht0 hst hj hstore rfl hh
    | release _ hn' _ => cases hn'
  | release t ht hst => exact cinvE_release w hC hI hB ht hst h

end JSL
