import JSL.Inv.ReachListDom
import JSL.Inv.PlanOf
import JSL.Props.Example

/-!
# Target schedules and plans (C06, reachability side)

* `planOf_eq_target` – a state whose records carry the starts of a target schedule records the plan
  of that schedule;
* `planOfTarget_proj` – the plan of a target schedule is a plan of the instance;
* `feasiblePlan_iff_feasT` / `targetOK_feasible` – feasibility of a target schedule is feasibility of
  its plan;
* `exists_target_of_plan` – every plan of the instance is the plan of a target schedule;
* `feasible_dominated` (**Theorem B**) – every feasible plan of the instance is matched by a list
  schedule; `feasible_dominated_target` packages it with Theorem A.
-/

namespace JSL

variable {inst : Instance}

/-! ## maxima -/

theorem foldl_max_le_of : ∀ (l : List Int) (i C : Int), i ≤ C → (∀ x ∈ l, x ≤ C) → l.foldl max i ≤ C
  | [], _, _, h, _ => h
  | y :: l, i, C, h, hl => by
    simp only [List.foldl_cons]
    have := hl y (by simp)
    exact foldl_max_le_of l (max i y) C (by omega) (fun x hx => hl x (by simp [hx]))

theorem le_targetMakespan (S : Nat → Nat → Int) {oc : OpCfg} (h : oc ∈ allOps inst) :
    S oc.job oc.idx + oc.d ≤ targetMakespan inst S :=
  foldl_max_ge_mem _ 0 _ (List.mem_map.mpr ⟨oc, h, rfl⟩)

theorem targetMakespan_nonneg (S : Nat → Nat → Int) : 0 ≤ targetMakespan inst S := foldl_max_ge _ 0

theorem targetMakespan_le {S : Nat → Nat → Int} {C : Int} (h0 : 0 ≤ C)
    (h : ∀ oc ∈ allOps inst, S oc.job oc.idx + oc.d ≤ C) : targetMakespan inst S ≤ C := by
  apply foldl_max_le_of _ 0 C h0
  intro x hx
  obtain ⟨oc, hoc, rfl⟩ := List.mem_map.mp hx
  exact h oc hoc

/-! ## the plan of a target schedule -/

/-- the scheduled operation a target schedule makes of a configured one -/
def tOp (S : Nat → Nat → Int) (oc : OpCfg) : POp := (oc.machine, oc.d, S oc.job oc.idx)

theorem planOfTarget_eq (S : Nat → Nat → Int) :
    planOfTarget inst S = inst.jobs.map fun jc => jc.ops.map (tOp S) := rfl

theorem planOfTarget_flat (S : Nat → Nat → Int) : (planOfTarget inst S).flatMap id = (allOps inst).map (tOp S) := by
  rw [planOfTarget_eq, allOps, List.flatMap_map, List.map_flatMap]
  rfl

theorem d_of_det {oc : OpCfg} {d : Int} (h : oc.dur = .det d) : oc.d = d := by simp [OpCfg.d, h]

theorem planOfTarget_proj {orc : Oracle} {r : Rng} (S : Nat → Nat → Int)
    (hdet : ∀ oc ∈ allOps inst, ∃ d, oc.dur = .det d) : (planOfTarget inst S).proj = schedOf orc r inst := by
  unfold Plan.proj schedOf
  rw [planOfTarget_eq, List.map_map]
  apply List.map_congr_left
  intro jc hjc
  simp only [Function.comp, PJob.proj, List.map_map]
  apply List.map_congr_left
  intro oc hoc
  obtain ⟨d, hd⟩ := hdet oc (mem_allOps hjc hoc)
  simp [tOp, d_of_det hd, hd, TimeCfg.cur]

/-- a state whose records carry the starts of `S` records the plan of `S` -/
theorem planOf_eq_target (w : WF inst) {s : State} (hs : Shape inst s) (hdet : ∀ oc ∈ allOps inst, ∃ d, oc.dur = .det d)
    {S : Nat → Nat → Int} (hst : ∀ j ∈ s.jobs, ∀ o ∈ j.ops, o.start = some (S o.job o.idx)) :
    planOf inst s = planOfTarget inst S := by
  unfold planOf
  rw [planOfTarget_eq]
  apply map_eq_of_keys hs.jobs
  intro j hj jc hjc hk
  simp only [jKey, jcKey, Prod.mk.injEq] at hk
  apply map_eq_of_keys hk.2
  intro o ho oc hoc hko
  simp only [opKey, ocKey, Prod.mk.injEq] at hko
  obtain ⟨d, hd⟩ := hdet oc (mem_allOps hjc hoc)
  have hmem : oc ∈ inst.jobs.flatMap (·.ops) := mem_allOps hjc hoc
  simp only [planOp, tOp]
  rw [durDet_of_cfg w hmem ⟨hko.1.symm, hko.2.1.symm⟩ hd, d_of_det hd, hst j hj o ho, hko.1, hko.2.1, hko.2.2]
  rfl

/-! ## chains -/

theorem chainOK_of_adj (S : Nat → Nat → Int) : ∀ (ops : List OpCfg) (t : Int),
    (∀ a rest, ops = a :: rest → t ≤ S a.job a.idx) →
    (∀ l1 a b l2, ops = l1 ++ a :: b :: l2 → S a.job a.idx + a.d ≤ S b.job b.idx) →
    ChainOK t (ops.map (tOp S))
  | [], _, _, _ => trivial
  | a :: rest, t, h0, hc => by
    simp only [List.map_cons, ChainOK]
    refine ⟨h0 a rest rfl, ?_⟩
    apply chainOK_of_adj S rest
    · intro b l2 e
      subst e
      exact hc [] a b l2 rfl
    · intro l1 x y l2 e
      exact hc (a :: l1) x y l2 (by simp [e])

theorem chain_adj : ∀ (l1 : List POp) (t : Int) (a b : POp) (l2 : List POp), ChainOK t (l1 ++ a :: b :: l2) →
    a.stop ≤ b.start
  | [], _, _, _, _, h => h.2.1
  | _ :: l1, _, a, b, l2, h => chain_adj l1 _ a b l2 h.2

theorem chain_start_ge : ∀ (l : List POp) (t : Int), ChainOK t l → (∀ x ∈ l, 0 ≤ x.dur) → ∀ x ∈ l, t ≤ x.start
  | [], _, _, _, x, hx => by cases hx
  | y :: l, t, h, hd, x, hx => by
    rcases List.mem_cons.mp hx with rfl | hx'
    · exact h.1
    · have := chain_start_ge l y.stop h.2 (fun z hz => hd z (by simp [hz])) x hx'
      have h1 := h.1
      have h2 := hd y (by simp)
      simp only [POp.stop, POp.dur, POp.start] at *
      omega

/-! ## pairwise -/

theorem pairwise_mem {α} {R : α → α → Prop} (hsym : ∀ a b, R a b → R b a) : ∀ {l : List α}, l.Pairwise R →
    ∀ a ∈ l, ∀ b ∈ l, a ≠ b → R a b
  | [], _, a, ha, _, _, _ => by cases ha
  | x :: xs, h, a, ha, b, hb, hne => by
    obtain ⟨h1, h2⟩ := List.pairwise_cons.mp h
    rcases List.mem_cons.mp ha with rfl | ha' <;> rcases List.mem_cons.mp hb with rfl | hb'
    · exact absurd rfl hne
    · exact h1 b hb'
    · exact hsym _ _ (h1 a ha')
    · exact pairwise_mem hsym h2 a ha' b hb' hne

theorem disjointOps_symm (x y : POp) (h : disjointOps x y) : disjointOps y x := Or.symm h

/-! ## feasibility of a target schedule is feasibility of its plan -/

theorem feasT_of_feasiblePlan (hnn : ∀ oc ∈ allOps inst, 0 ≤ oc.d) {S : Nat → Nat → Int} {C : Int}
    (hf : FeasiblePlan (planOfTarget inst S) C) :
    FeasT inst S ∧ ∀ oc ∈ allOps inst, S oc.job oc.idx + oc.d ≤ C := by
  have hmemj : ∀ jc ∈ inst.jobs, jc.ops.map (tOp S) ∈ planOfTarget inst S := fun jc hjc =>
    List.mem_map.mpr ⟨jc, hjc, rfl⟩
  refine ⟨⟨?_, ?_, ?_⟩, ?_⟩
  · intro oc hoc
    obtain ⟨jc, hjc, hoc'⟩ := List.mem_flatMap.mp hoc
    have := chain_start_ge _ 0 (hf.chain _ (hmemj jc hjc)) (by
      intro x hx
      obtain ⟨oc', h', rfl⟩ := List.mem_map.mp hx
      exact hnn oc' (mem_allOps hjc h')) (tOp S oc) (List.mem_map.mpr ⟨oc, hoc', rfl⟩)
    exact this
  · intro jc hjc l1 a b l2 e
    have := hf.chain _ (hmemj jc hjc)
    rw [e] at this
    simp only [List.map_append, List.map_cons] at this
    exact chain_adj _ 0 _ _ _ this
  · intro a ha b hb hm hne
    have hp := hf.excl
    rw [planOfTarget_flat, List.pairwise_map] at hp
    have hab : a ≠ b := fun e => hne (by rw [e])
    have := pairwise_mem (R := fun a b : OpCfg => (tOp S a).mach = (tOp S b).mach → disjointOps (tOp S a) (tOp S b))
      (fun x y h e => disjointOps_symm _ _ (h e.symm)) hp a ha b hb hab hm
    exact this
  · intro oc hoc
    obtain ⟨jc, hjc, hoc'⟩ := List.mem_flatMap.mp hoc
    exact hf.bound _ (hmemj jc hjc) (tOp S oc) (List.mem_map.mpr ⟨oc, hoc', rfl⟩)

theorem feasiblePlan_of_feasT (w : WF inst) {S : Nat → Nat → Int} {C : Int} (h : FeasT inst S)
    (hC : ∀ oc ∈ allOps inst, S oc.job oc.idx + oc.d ≤ C) : FeasiblePlan (planOfTarget inst S) C := by
  refine ⟨?_, ?_, ?_⟩
  · intro pj hpj
    obtain ⟨jc, hjc, rfl⟩ := List.mem_map.mp hpj
    apply chainOK_of_adj S jc.ops 0
    · intro a rest e
      exact h.nonneg a (mem_allOps hjc (by simp [e]))
    · exact h.chain jc hjc
  · have hflat : (planOfTarget inst S).flatMap id = inst.jobs.flatMap (fun jc => jc.ops.map (tOp S)) := by
      rw [planOfTarget_eq, List.flatMap_map]; rfl
    rw [hflat, List.pairwise_flatMap]
    have hdisj : ∀ j1 ∈ inst.jobs, ∀ o1 ∈ j1.ops, ∀ j2 ∈ inst.jobs, ∀ o2 ∈ j2.ops, (o1.job, o1.idx) ≠ (o2.job, o2.idx) →
        (tOp S o1).mach = (tOp S o2).mach → disjointOps (tOp S o1) (tOp S o2) := by
      intro j1 hj1 o1 ho1 j2 hj2 o2 ho2 hne hm
      exact h.excl o1 (mem_allOps hj1 ho1) o2 (mem_allOps hj2 ho2) hm hne
    constructor
    · intro jc hjc
      rw [List.pairwise_map]
      apply pairwise_of_nodup_key (k := fun (o : OpCfg) => o.idx) (w.opIdxNodup jc hjc)
      intro o1 ho1 o2 ho2 hne
      exact hdisj jc hjc o1 ho1 jc hjc o2 ho2 (fun e => hne (Prod.mk.inj e).2)
    · apply pairwise_of_nodup_key (k := fun (j : JobCfg) => j.id) w.jobsNodup
      intro j1 hj1 j2 hj2 hne x hx y hy
      obtain ⟨o1, ho1, rfl⟩ := List.mem_map.mp hx
      obtain ⟨o2, ho2, rfl⟩ := List.mem_map.mp hy
      exact hdisj j1 hj1 o1 ho1 j2 hj2 o2 ho2 (fun e => hne (by
        have := (Prod.mk.inj e).1
        rw [w.opJob j1 hj1 o1 ho1, w.opJob j2 hj2 o2 ho2] at this; exact this))
  · intro pj hpj x hx
    obtain ⟨jc, hjc, rfl⟩ := List.mem_map.mp hpj
    obtain ⟨oc, hoc, rfl⟩ := List.mem_map.mp hx
    exact hC oc (mem_allOps hjc hoc)

/-- a feasible target schedule is a feasible plan of the instance, with its makespan.
(No condition on the durations is needed in this direction.) -/
theorem targetOK_feasible (w : WF inst) {S : Nat → Nat → Int} (h : TargetOK inst S) :
    FeasiblePlan (planOfTarget inst S) (targetMakespan inst S) :=
  feasiblePlan_of_feasT w h.feasT (fun _ hoc => le_targetMakespan S hoc)

/-! ## every plan of the instance is the plan of a target schedule -/

theorem exists_starts_job : ∀ (ops : List OpCfg) (pj : PJob), (ops.map (·.idx)).Nodup →
    pj.proj = ops.map (fun o => (o.machine, o.d)) →
    ∃ g : Nat → Int, ops.map (fun oc => ((oc.machine, oc.d, g oc.idx) : POp)) = pj
  | [], [], _, _ => ⟨fun _ => 0, rfl⟩
  | [], _ :: _, _, h => by simp [PJob.proj] at h
  | _ :: _, [], _, h => by simp [PJob.proj] at h
  | oc :: ops, x :: pj, hn, h => by
    simp only [PJob.proj, List.map_cons, List.cons.injEq] at h
    simp only [List.map_cons, List.nodup_cons, List.mem_map, not_exists, not_and] at hn
    obtain ⟨g, hg⟩ := exists_starts_job ops pj hn.2 h.2
    refine ⟨fun k => if k = oc.idx then x.2.2 else g k, ?_⟩
    simp only [List.map_cons, if_true]
    congr 1
    · have h1 := (Prod.mk.inj h.1).1
      have h2 := (Prod.mk.inj h.1).2
      rw [← h1, ← h2]
    · rw [← hg]
      apply List.map_congr_left
      intro o ho
      rw [if_neg (hn.1 o ho)]

theorem exists_starts_jobs : ∀ (jobs : List JobCfg) (p : Plan), (jobs.map (·.id)).Nodup →
    (∀ jc ∈ jobs, (jc.ops.map (·.idx)).Nodup) →
    p.proj = jobs.map (fun j => j.ops.map fun o => (o.machine, o.d)) →
    ∃ T : Nat → Nat → Int, jobs.map (fun jc => jc.ops.map fun oc => ((oc.machine, oc.d, T jc.id oc.idx) : POp)) = p
  | [], [], _, _, _ => ⟨fun _ _ => 0, rfl⟩
  | [], _ :: _, _, _, h => by simp [Plan.proj] at h
  | _ :: _, [], _, _, h => by simp [Plan.proj] at h
  | jc :: jobs, pj :: p, hn, hi, h => by
    simp only [Plan.proj, List.map_cons, List.cons.injEq] at h
    simp only [List.map_cons, List.nodup_cons, List.mem_map, not_exists, not_and] at hn
    obtain ⟨T, hT⟩ := exists_starts_jobs jobs p hn.2 (fun j hj => hi j (by simp [hj])) h.2
    obtain ⟨g, hg⟩ := exists_starts_job jc.ops pj (hi jc (by simp)) h.1
    refine ⟨fun j => if j = jc.id then g else T j, ?_⟩
    simp only [List.map_cons, if_true]
    congr 1
    rw [← hT]
    apply List.map_congr_left
    intro j hj
    rw [if_neg (hn.1 j hj)]

theorem exists_target_of_plan (w : WF inst) (hdet : ∀ oc ∈ allOps inst, ∃ d, oc.dur = .det d) {p : Plan}
    {orc : Oracle} {r : Rng} (hproj : p.proj = schedOf orc r inst) : ∃ T, planOfTarget inst T = p := by
  have hs : schedOf orc r inst = inst.jobs.map (fun j => j.ops.map fun o => (o.machine, o.d)) := by
    rw [← planOfTarget_proj (orc := orc) (r := r) (fun _ _ => 0) hdet, planOfTarget_eq]
    simp [Plan.proj, PJob.proj, tOp, Function.comp_def]
  obtain ⟨T, hT⟩ := exists_starts_jobs inst.jobs p w.jobsNodup w.opIdxNodup (hproj.trans hs)
  refine ⟨T, ?_⟩
  rw [planOfTarget_eq, ← hT]
  apply List.map_congr_left
  intro jc hjc
  apply List.map_congr_left
  intro oc hoc
  simp only [tOp, w.opJob jc hjc oc hoc]

/-! ## Theorem B -/

/-- **Theorem B**: every feasible plan of the instance with makespan at most `C` is matched by a list
schedule: there is a valid order all of whose operations end by `C`. -/
theorem feasible_dominated (w : WF inst) (hpos : ∀ oc ∈ allOps inst, ∃ d, oc.dur = .det d ∧ 0 < d) {p : Plan} {C : Int}
    (hf : FeasiblePlan p C) {orc : Oracle} {r : Rng} (hproj : p.proj = schedOf orc r inst) :
    ∃ π, ValidOrder inst π ∧ ∀ oc ∈ allOps inst, listStarts inst π oc.job oc.idx + oc.d ≤ C := by
  have hdet : ∀ oc ∈ allOps inst, ∃ d, oc.dur = .det d := fun oc hoc => by
    obtain ⟨d, hd, _⟩ := hpos oc hoc
    exact ⟨d, hd⟩
  obtain ⟨T, rfl⟩ := exists_target_of_plan w hdet hproj
  obtain ⟨hT, hC⟩ := feasT_of_feasiblePlan (d_nonneg_of_det hpos) hf
  obtain ⟨π, hπ, hle⟩ := dominated_of_feasT w (d_pos_of_det hpos) hT
  refine ⟨π, hπ, ?_⟩
  intro oc hoc
  have := hle oc hoc
  have := hC oc hoc
  omega

/-- a plan of an instance with an operation has a non-negative makespan bound -/
theorem feasiblePlan_bound_nonneg (w : WF inst) (hpos : ∀ oc ∈ allOps inst, ∃ d, oc.dur = .det d ∧ 0 < d) {p : Plan}
    {C : Int} (hf : FeasiblePlan p C) {orc : Oracle} {r : Rng} (hproj : p.proj = schedOf orc r inst)
    (hne : allOps inst ≠ []) : 0 ≤ C := by
  have hdet : ∀ oc ∈ allOps inst, ∃ d, oc.dur = .det d := fun oc hoc => by
    obtain ⟨d, hd, _⟩ := hpos oc hoc
    exact ⟨d, hd⟩
  obtain ⟨T, rfl⟩ := exists_target_of_plan w hdet hproj
  obtain ⟨hT, hC⟩ := feasT_of_feasiblePlan (d_nonneg_of_det hpos) hf
  cases hl : allOps inst with
  | nil => exact absurd hl hne
  | cons oc rest =>
    have hoc : oc ∈ allOps inst := by rw [hl]; simp
    have := hT.nonneg oc hoc
    have := hC oc hoc
    have := d_pos_of_det hpos oc hoc
    omega

/-- Theorems A and B together: below every feasible plan of the instance there is a list schedule,
which is a feasible, event-aligned target schedule of no greater makespan. -/
theorem feasible_dominated_target (w : WF inst) (hpos : ∀ oc ∈ allOps inst, ∃ d, oc.dur = .det d ∧ 0 < d) {p : Plan}
    {C : Int} (hf : FeasiblePlan p C) {orc : Oracle} {r : Rng} (hproj : p.proj = schedOf orc r inst)
    (h0 : 0 ≤ C ∨ allOps inst ≠ []) :
    ∃ π, ValidOrder inst π ∧ TargetOK inst (listStarts inst π) ∧ targetMakespan inst (listStarts inst π) ≤ C := by
  obtain ⟨π, hπ, hle⟩ := feasible_dominated w hpos hf hproj
  have hC : 0 ≤ C := by
    rcases h0 with h | h
    · exact h
    · exact feasiblePlan_bound_nonneg w hpos hf hproj h
  exact ⟨π, hπ, listStarts_targetOK w hpos hπ, targetMakespan_le hC hle⟩

theorem feasible_dominated_makespan (w : WF inst) (hpos : ∀ oc ∈ allOps inst, ∃ d, oc.dur = .det d ∧ 0 < d) {p : Plan}
    {C : Int} (hf : FeasiblePlan p C) {orc : Oracle} {r : Rng} (hproj : p.proj = schedOf orc r inst) (h0 : 0 ≤ C) :
    ∃ π, ValidOrder inst π ∧ targetMakespan inst (listStarts inst π) ≤ C := by
  obtain ⟨π, hπ, _, h⟩ := feasible_dominated_target w hpos hf hproj (Or.inl h0)
  exact ⟨π, hπ, h⟩

/-! ## a concrete list schedule -/

example : ValidOrder Ex.inst [0, 1, 0, 1] := by decide

/-- job 0 runs 0–3 on machine 0 and 4–6 on machine 1, job 1 runs 0–4 on machine 1 and 4–5 on machine 0 -/
example : listStarts Ex.inst [0, 1, 0, 1] 0 0 = 0 ∧ listStarts Ex.inst [0, 1, 0, 1] 1 0 = 0 ∧
    listStarts Ex.inst [0, 1, 0, 1] 0 1 = 4 ∧ listStarts Ex.inst [0, 1, 0, 1] 1 1 = 4 := by decide

example : targetMakespan Ex.inst (listStarts Ex.inst [0, 1, 0, 1]) = 6 := by decide

/-- an order that finishes job 0 first is worse: job 1 waits for machine 1 until 5 and ends at 10 -/
example : targetMakespan Ex.inst (listStarts Ex.inst [0, 0, 1, 1]) = 10 := by decide

end JSL
