import JSL.Inv.ReachTarget
import JSL.Inv.Defs

/-!
# List scheduling (C06, reachability side; model independent)

A sequence `π` of job ids is turned into a schedule by placing, for every entry, the next
unplaced operation of the named job as early as its job predecessor and the operations placed so far
on its machine allow (`listStarts`).  **Theorem A** (`listStarts_targetOK`): for an order that names
every job as often as it has operations the result is a feasible, event-aligned target schedule
(`TargetOK`).  The domination theorem (every feasible plan is matched by a list schedule) is in
`ReachListDom.lean`, the bridge to recorded schedules in `ReachListPlan.lean`.
-/

namespace JSL

/-- state of the list scheduler: per job the number of operations placed and the end of the last one,
per machine the end of the last operation placed on it, and the starts chosen so far -/
structure LS where
  cnt : Nat → Nat
  jend : Nat → Int
  mend : Nat → Int
  st : Nat → Nat → Int

def LS.init : LS := ⟨fun _ => 0, fun _ => 0, fun _ => 0, fun _ _ => 0⟩

def findJob (inst : Instance) (i : Nat) : Option JobCfg := inst.jobs.find? (fun jc => jc.id == i)

/-- place operation `oc` as the next operation of job `i` -/
def lsPlace (ls : LS) (i : Nat) (oc : OpCfg) : LS :=
  let t := max (ls.jend i) (ls.mend oc.machine)
  { cnt := fun j => if j = i then ls.cnt j + 1 else ls.cnt j
    jend := fun j => if j = i then t + oc.d else ls.jend j
    mend := fun m => if m = oc.machine then t + oc.d else ls.mend m
    st := fun j k => if j = i ∧ k = oc.idx then t else ls.st j k }

/-- one entry of the order: the next operation of job `i` (nothing if there is no such job or all
its operations are placed) -/
def lsStep (inst : Instance) (ls : LS) (i : Nat) : LS :=
  match findJob inst i with
  | none => ls
  | some jc =>
    match jc.ops[ls.cnt i]? with
    | none => ls
    | some oc => lsPlace ls i oc

def lsRun (inst : Instance) (π : List Nat) : LS := π.foldl (lsStep inst) LS.init

/-- the list schedule of the order `π`: job id → operation index → start -/
def listStarts (inst : Instance) (π : List Nat) : Nat → Nat → Int := (lsRun inst π).st

/-- every job is named exactly as often as it has operations -/
def ValidOrder (inst : Instance) (π : List Nat) : Prop :=
  ∀ jc ∈ inst.jobs, π.count jc.id = jc.ops.length

def validOrderB (inst : Instance) (π : List Nat) : Bool :=
  inst.jobs.all fun jc => π.count jc.id == jc.ops.length

theorem validOrderB_iff {inst : Instance} {π : List Nat} : validOrderB inst π = true ↔ ValidOrder inst π := by
  simp [validOrderB, ValidOrder]

instance (inst : Instance) (π : List Nat) : Decidable (ValidOrder inst π) :=
  decidable_of_iff _ validOrderB_iff

theorem lsRun_append (inst : Instance) (π1 π2 : List Nat) :
    lsRun inst (π1 ++ π2) = π2.foldl (lsStep inst) (lsRun inst π1) := by
  simp [lsRun, List.foldl_append]

theorem lsRun_concat (inst : Instance) (π : List Nat) (i : Nat) :
    lsRun inst (π ++ [i]) = lsStep inst (lsRun inst π) i := by
  simp [lsRun_append]

/-! ## durations -/

theorem d_pos_of_det {inst : Instance} (hpos : ∀ oc ∈ allOps inst, ∃ d, oc.dur = .det d ∧ 0 < d) :
    ∀ oc ∈ allOps inst, 0 < oc.d := by
  intro oc hoc
  obtain ⟨d, h1, h2⟩ := hpos oc hoc
  simp [OpCfg.d, h1, h2]

theorem d_nonneg_of_det {inst : Instance} (hpos : ∀ oc ∈ allOps inst, ∃ d, oc.dur = .det d ∧ 0 < d) :
    ∀ oc ∈ allOps inst, 0 ≤ oc.d := fun oc hoc => Int.le_of_lt (d_pos_of_det hpos oc hoc)

theorem mem_allOps {inst : Instance} {jc : JobCfg} (hjc : jc ∈ inst.jobs) {oc : OpCfg} (hoc : oc ∈ jc.ops) :
    oc ∈ allOps inst := List.mem_flatMap.mpr ⟨jc, hjc, hoc⟩

/-! ## jobs and positions -/

variable {inst : Instance}

theorem findJob_some {i : Nat} {jc : JobCfg} (h : findJob inst i = some jc) : jc ∈ inst.jobs ∧ jc.id = i := by
  unfold findJob at h
  exact ⟨List.mem_of_find?_eq_some h, by simpa using List.find?_some h⟩

theorem job_unique (w : WF inst) {a b : JobCfg} (ha : a ∈ inst.jobs) (hb : b ∈ inst.jobs) (h : a.id = b.id) :
    a = b := eq_of_mem_of_key_eq (key := fun (y : JobCfg) => y.id) w.jobsNodup ha hb h

theorem findJob_mem (w : WF inst) {jc : JobCfg} (hjc : jc ∈ inst.jobs) : findJob inst jc.id = some jc := by
  cases h : findJob inst jc.id with
  | none =>
    have := List.find?_eq_none.mp h jc hjc
    simp at this
  | some jc' =>
    obtain ⟨h1, h2⟩ := findJob_some h
    rw [job_unique w h1 hjc h2]

theorem idx_pos_unique : ∀ {l : List OpCfg}, (l.map (·.idx)).Nodup → ∀ {k k' : Nat} {a b : OpCfg},
    l[k]? = some a → l[k']? = some b → a.idx = b.idx → k = k'
  | [], _, _, _, _, _, ha, _, _ => by simp at ha
  | x :: xs, hn, k, k', a, b, ha, hb, h => by
    simp only [List.map_cons, List.nodup_cons, List.mem_map, not_exists, not_and] at hn
    cases k with
    | zero =>
      cases k' with
      | zero => rfl
      | succ k' =>
        simp only [List.getElem?_cons_zero, Option.some.injEq, List.getElem?_cons_succ] at ha hb
        subst ha
        exact absurd h.symm (hn.1 b (List.mem_of_getElem? hb))
    | succ k =>
      cases k' with
      | zero =>
        simp only [List.getElem?_cons_zero, Option.some.injEq, List.getElem?_cons_succ] at ha hb
        subst hb
        exact absurd h (hn.1 a (List.mem_of_getElem? ha))
      | succ k' =>
        simp only [List.getElem?_cons_succ] at ha hb
        rw [idx_pos_unique hn.2 ha hb h]

/-- operation `oc` has been placed: it is among the first `cnt` operations of its job -/
def Placed (inst : Instance) (ls : LS) (oc : OpCfg) : Prop :=
  ∃ jc ∈ inst.jobs, ∃ k, k < ls.cnt jc.id ∧ jc.ops[k]? = some oc

/-- operation `oc` has not been placed yet -/
def Unplaced (inst : Instance) (ls : LS) (oc : OpCfg) : Prop :=
  ∃ jc ∈ inst.jobs, ∃ k, ls.cnt jc.id ≤ k ∧ jc.ops[k]? = some oc

theorem Placed.mem {ls : LS} {oc : OpCfg} (h : Placed inst ls oc) : oc ∈ allOps inst := by
  obtain ⟨jc, hjc, k, _, hk⟩ := h
  exact mem_allOps hjc (List.mem_of_getElem? hk)

theorem Unplaced.mem {ls : LS} {oc : OpCfg} (h : Unplaced inst ls oc) : oc ∈ allOps inst := by
  obtain ⟨jc, hjc, k, _, hk⟩ := h
  exact mem_allOps hjc (List.mem_of_getElem? hk)

theorem placed_or_unplaced (ls : LS) {oc : OpCfg} (h : oc ∈ allOps inst) : Placed inst ls oc ∨ Unplaced inst ls oc := by
  obtain ⟨jc, hjc, hoc⟩ := List.mem_flatMap.mp h
  obtain ⟨k, hk⟩ := List.getElem?_of_mem hoc
  by_cases hlt : k < ls.cnt jc.id
  · exact Or.inl ⟨jc, hjc, k, hlt, hk⟩
  · exact Or.inr ⟨jc, hjc, k, by omega, hk⟩

/-! ## one placement -/

section place

variable {ls : LS} {jc : JobCfg} {oc : OpCfg}

theorem placed_place (w : WF inst) (hjc : jc ∈ inst.jobs) (hoc : jc.ops[ls.cnt jc.id]? = some oc) {x : OpCfg}
    (h : Placed inst (lsPlace ls jc.id oc) x) : Placed inst ls x ∨ x = oc := by
  obtain ⟨jc', hjc', k, hk, hx⟩ := h
  simp only [lsPlace] at hk
  by_cases e : jc'.id = jc.id
  · have := job_unique w hjc' hjc e
    subst this
    simp only [if_true] at hk
    by_cases hlt : k < ls.cnt jc'.id
    · exact Or.inl ⟨jc', hjc', k, hlt, hx⟩
    · have : k = ls.cnt jc'.id := by omega
      subst this
      rw [hoc] at hx
      exact Or.inr (Option.some.inj hx).symm
  · simp only [e, if_false] at hk
    exact Or.inl ⟨jc', hjc', k, hk, hx⟩

theorem placed_mono {x : OpCfg} (i : Nat) (h : Placed inst ls x) : Placed inst (lsPlace ls i oc) x := by
  obtain ⟨jc', hjc', k, hk, hx⟩ := h
  refine ⟨jc', hjc', k, ?_, hx⟩
  simp only [lsPlace]
  split <;> omega

theorem placed_new (hjc : jc ∈ inst.jobs) (hoc : jc.ops[ls.cnt jc.id]? = some oc) :
    Placed inst (lsPlace ls jc.id oc) oc :=
  ⟨jc, hjc, ls.cnt jc.id, by simp [lsPlace], hoc⟩

theorem unplaced_place {x : OpCfg} (i : Nat) (h : Unplaced inst (lsPlace ls i oc) x) : Unplaced inst ls x := by
  obtain ⟨jc', hjc', k, hk, hx⟩ := h
  refine ⟨jc', hjc', k, ?_, hx⟩
  simp only [lsPlace] at hk
  split at hk <;> omega

/-- a placed operation is not the one placed next -/
theorem placed_ne (w : WF inst) (hjc : jc ∈ inst.jobs) (hoc : jc.ops[ls.cnt jc.id]? = some oc) {x : OpCfg}
    (h : Placed inst ls x) : ¬ (x.job = jc.id ∧ x.idx = oc.idx) := by
  obtain ⟨jc', hjc', k, hk, hx⟩ := h
  intro ⟨e1, e2⟩
  have hj := w.opJob jc' hjc' x (List.mem_of_getElem? hx)
  have := job_unique w hjc' hjc (by rw [← hj, e1])
  subst this
  have := idx_pos_unique (w.opIdxNodup jc' hjc') hx hoc e2
  omega

theorem st_old (w : WF inst) (hjc : jc ∈ inst.jobs) (hoc : jc.ops[ls.cnt jc.id]? = some oc) {x : OpCfg}
    (h : Placed inst ls x) : (lsPlace ls jc.id oc).st x.job x.idx = ls.st x.job x.idx := by
  have := placed_ne w hjc hoc h
  simp only [lsPlace]
  rw [if_neg this]

theorem st_new (w : WF inst) (hjc : jc ∈ inst.jobs) (hoc : jc.ops[ls.cnt jc.id]? = some oc) :
    (lsPlace ls jc.id oc).st oc.job oc.idx = max (ls.jend jc.id) (ls.mend oc.machine) := by
  have := w.opJob jc hjc oc (List.mem_of_getElem? hoc)
  simp [lsPlace, this]

end place

/-! ## the invariant of the scheduler -/

structure LInv (inst : Instance) (ls : LS) : Prop where
  cntLe : ∀ jc ∈ inst.jobs, ls.cnt jc.id ≤ jc.ops.length
  jend0 : ∀ i, 0 ≤ ls.jend i
  mend0 : ∀ m, 0 ≤ ls.mend m
  nonneg : ∀ oc, Placed inst ls oc → 0 ≤ ls.st oc.job oc.idx
  jle : ∀ oc, Placed inst ls oc → ls.st oc.job oc.idx + oc.d ≤ ls.jend oc.job
  mle : ∀ oc, Placed inst ls oc → ls.st oc.job oc.idx + oc.d ≤ ls.mend oc.machine
  chain : ∀ jc ∈ inst.jobs, ∀ k a b, k + 1 < ls.cnt jc.id → jc.ops[k]? = some a → jc.ops[k + 1]? = some b →
    ls.st a.job a.idx + a.d ≤ ls.st b.job b.idx
  excl : ∀ a b, Placed inst ls a → Placed inst ls b → a.machine = b.machine → (a.job, a.idx) ≠ (b.job, b.idx) →
    ls.st a.job a.idx + a.d ≤ ls.st b.job b.idx ∨ ls.st b.job b.idx + b.d ≤ ls.st a.job a.idx
  aligned : ∀ oc, Placed inst ls oc → ls.st oc.job oc.idx = 0 ∨
    ∃ oc', Placed inst ls oc' ∧ ls.st oc.job oc.idx = ls.st oc'.job oc'.idx + oc'.d
  jal : ∀ i, ls.jend i = 0 ∨ ∃ oc, Placed inst ls oc ∧ oc.job = i ∧ ls.jend i = ls.st oc.job oc.idx + oc.d
  mal : ∀ m, ls.mend m = 0 ∨ ∃ oc, Placed inst ls oc ∧ oc.machine = m ∧ ls.mend m = ls.st oc.job oc.idx + oc.d

theorem LInv.init (inst : Instance) : LInv inst LS.init := by
  have hno : ∀ oc, ¬ Placed inst LS.init oc := by
    intro oc ⟨_, _, k, hk, _⟩
    simp [LS.init] at hk
  refine ⟨?_, ?_, ?_, ?_, ?_, ?_, ?_, ?_, ?_, ?_, ?_⟩
  · intro jc _; simp [LS.init]
  · intro i; simp [LS.init]
  · intro m; simp [LS.init]
  · intro oc h; exact absurd h (hno oc)
  · intro oc h; exact absurd h (hno oc)
  · intro oc h; exact absurd h (hno oc)
  · intro jc _ k a b hk; simp [LS.init] at hk
  · intro a b h; exact absurd h (hno a)
  · intro oc h; exact absurd h (hno oc)
  · intro i; exact Or.inl rfl
  · intro m; exact Or.inl rfl

theorem LInv.place (w : WF inst) (hnn : ∀ oc ∈ allOps inst, 0 ≤ oc.d) {ls : LS} (hI : LInv inst ls) {jc : JobCfg}
    (hjc : jc ∈ inst.jobs) {oc : OpCfg} (hoc : jc.ops[ls.cnt jc.id]? = some oc) :
    LInv inst (lsPlace ls jc.id oc) := by
  have hocm : oc ∈ jc.ops := List.mem_of_getElem? hoc
  have hd : 0 ≤ oc.d := hnn oc (mem_allOps hjc hocm)
  have hjob : oc.job = jc.id := w.opJob jc hjc oc hocm
  have hlt : ls.cnt jc.id < jc.ops.length := by
    have := List.getElem?_eq_some_iff.mp hoc
    exact this.1
  have hold : ∀ {x}, Placed inst ls x → (lsPlace ls jc.id oc).st x.job x.idx = ls.st x.job x.idx :=
    fun h => st_old w hjc hoc h
  have hnew := st_new (ls := ls) w hjc hoc
  have hcase : ∀ {x}, Placed inst (lsPlace ls jc.id oc) x → Placed inst ls x ∨ x = oc :=
    fun h => placed_place w hjc hoc h
  have hpn : Placed inst (lsPlace ls jc.id oc) oc := placed_new hjc hoc
  have hj0 := hI.jend0 jc.id
  have hm0 := hI.mend0 oc.machine
  have hjend : ∀ i, (lsPlace ls jc.id oc).jend i =
      if i = jc.id then max (ls.jend jc.id) (ls.mend oc.machine) + oc.d else ls.jend i := fun i => rfl
  have hmend : ∀ m, (lsPlace ls jc.id oc).mend m =
      if m = oc.machine then max (ls.jend jc.id) (ls.mend oc.machine) + oc.d else ls.mend m := fun m => rfl
  refine ⟨?_, ?_, ?_, ?_, ?_, ?_, ?_, ?_, ?_, ?_, ?_⟩
  · intro jc' hjc'
    simp only [lsPlace]
    by_cases e : jc'.id = jc.id
    · have := job_unique w hjc' hjc e
      subst this
      simp only [if_true]; omega
    · simp only [e, if_false]; exact hI.cntLe jc' hjc'
  · intro i
    rw [hjend]
    have := hI.jend0 i
    split <;> omega
  · intro m
    rw [hmend]
    have := hI.mend0 m
    split <;> omega
  · intro x hx
    rcases hcase hx with h | rfl
    · rw [hold h]; exact hI.nonneg x h
    · rw [hnew]; omega
  · intro x hx
    rcases hcase hx with h | rfl
    · rw [hold h, hjend]
      have := hI.jle x h
      split
      · next e =>
        have h1 : ls.jend x.job = ls.jend jc.id := by rw [e]
        omega
      · exact this
    · rw [hnew, hjend, if_pos hjob]; omega
  · intro x hx
    rcases hcase hx with h | rfl
    · rw [hold h, hmend]
      have := hI.mle x h
      split
      · next e => rw [e] at this; omega
      · exact this
    · rw [hnew, hmend, if_pos rfl]; omega
  · intro jc' hjc' k a b hk ha hb
    simp only [lsPlace] at hk
    by_cases e : jc'.id = jc.id
    · have := job_unique w hjc' hjc e
      subst this
      simp only [if_true] at hk
      have hpa : Placed inst ls a := ⟨jc', hjc', k, by omega, ha⟩
      by_cases hlt' : k + 1 < ls.cnt jc'.id
      · have hpb : Placed inst ls b := ⟨jc', hjc', k + 1, hlt', hb⟩
        rw [hold hpa, hold hpb]
        exact hI.chain jc' hjc' k a b hlt' ha hb
      · have hk1 : k + 1 = ls.cnt jc'.id := by omega
        rw [hk1, hoc] at hb
        have := Option.some.inj hb
        subst this
        rw [hold hpa, hnew]
        have h1 := hI.jle a hpa
        have h2 : a.job = jc'.id := w.opJob jc' hjc' a (List.mem_of_getElem? ha)
        have h3 : ls.jend a.job = ls.jend jc'.id := by rw [h2]
        omega
    · simp only [e, if_false] at hk
      have hpa : Placed inst ls a := ⟨jc', hjc', k, by omega, ha⟩
      have hpb : Placed inst ls b := ⟨jc', hjc', k + 1, hk, hb⟩
      rw [hold hpa, hold hpb]
      exact hI.chain jc' hjc' k a b hk ha hb
  · intro a b ha hb hm hne
    rcases hcase ha with ha' | rfl <;> rcases hcase hb with hb' | rfl
    · rw [hold ha', hold hb']; exact hI.excl a b ha' hb' hm hne
    · rw [hold ha', hnew]
      have := hI.mle a ha'
      rw [hm] at this
      left; omega
    · rw [hold hb', hnew]
      have := hI.mle b hb'
      rw [← hm] at this
      right; omega
    · exact absurd rfl hne
  · intro x hx
    have hlift : ∀ oc', Placed inst ls oc' → ∀ v, v = ls.st oc'.job oc'.idx + oc'.d →
        ∃ oc', Placed inst (lsPlace ls jc.id oc) oc' ∧
          v = (lsPlace ls jc.id oc).st oc'.job oc'.idx + oc'.d := by
      intro oc' h' v hv
      exact ⟨oc', placed_mono jc.id h', by rw [hold h']; exact hv⟩
    rcases hcase hx with h | rfl
    · rw [hold h]
      rcases hI.aligned x h with h0 | ⟨oc', h', e⟩
      · exact Or.inl h0
      · exact Or.inr (hlift oc' h' _ e)
    · rw [hnew]
      by_cases hmx : ls.mend x.machine ≤ ls.jend jc.id
      · have e : max (ls.jend jc.id) (ls.mend x.machine) = ls.jend jc.id := by omega
        rw [e]
        rcases hI.jal jc.id with h0 | ⟨oc', h', _, e'⟩
        · exact Or.inl h0
        · exact Or.inr (hlift oc' h' _ e')
      · have e : max (ls.jend jc.id) (ls.mend x.machine) = ls.mend x.machine := by omega
        rw [e]
        rcases hI.mal x.machine with h0 | ⟨oc', h', _, e'⟩
        · exact Or.inl h0
        · exact Or.inr (hlift oc' h' _ e')
  · intro i
    rw [hjend]
    by_cases e : i = jc.id
    · rw [if_pos e]
      exact Or.inr ⟨oc, hpn, by rw [hjob, e], by rw [hnew]⟩
    · rw [if_neg e]
      rcases hI.jal i with h0 | ⟨oc', h', e1, e2⟩
      · exact Or.inl h0
      · exact Or.inr ⟨oc', placed_mono jc.id h', e1, by rw [hold h']; exact e2⟩
  · intro m
    rw [hmend]
    by_cases e : m = oc.machine
    · rw [if_pos e]
      exact Or.inr ⟨oc, hpn, e.symm, by rw [hnew]⟩
    · rw [if_neg e]
      rcases hI.mal m with h0 | ⟨oc', h', e1, e2⟩
      · exact Or.inl h0
      · exact Or.inr ⟨oc', placed_mono jc.id h', e1, by rw [hold h']; exact e2⟩

theorem LInv.step (w : WF inst) (hnn : ∀ oc ∈ allOps inst, 0 ≤ oc.d) {ls : LS} (hI : LInv inst ls) (i : Nat) :
    LInv inst (lsStep inst ls i) := by
  unfold lsStep
  cases hf : findJob inst i with
  | none => exact hI
  | some jc =>
    obtain ⟨hjc, rfl⟩ := findJob_some hf
    simp only
    cases ho : jc.ops[ls.cnt jc.id]? with
    | none => exact hI
    | some oc => exact hI.place w hnn hjc ho

theorem LInv.foldl (w : WF inst) (hnn : ∀ oc ∈ allOps inst, 0 ≤ oc.d) : ∀ (π : List Nat) {ls : LS}, LInv inst ls →
    LInv inst (π.foldl (lsStep inst) ls)
  | [], _, h => h
  | i :: π, _, h => LInv.foldl w hnn π (h.step w hnn i)

theorem LInv.run (w : WF inst) (hnn : ∀ oc ∈ allOps inst, 0 ≤ oc.d) (π : List Nat) : LInv inst (lsRun inst π) :=
  LInv.foldl w hnn π (LInv.init inst)

/-! ## how many operations of a job are placed -/

theorem cnt_step (w : WF inst) {jc : JobCfg} (hjc : jc ∈ inst.jobs) (ls : LS) (i : Nat) :
    (lsStep inst ls i).cnt jc.id =
      if i = jc.id ∧ ls.cnt jc.id < jc.ops.length then ls.cnt jc.id + 1 else ls.cnt jc.id := by
  unfold lsStep
  cases hf : findJob inst i with
  | none =>
    have : i ≠ jc.id := by
      intro e
      rw [e, findJob_mem w hjc] at hf
      cases hf
    simp [this]
  | some jc' =>
    obtain ⟨hjc', rfl⟩ := findJob_some hf
    simp only
    by_cases e : jc'.id = jc.id
    · have := job_unique w hjc' hjc e
      subst this
      cases ho : jc'.ops[ls.cnt jc'.id]? with
      | none =>
        have := List.getElem?_eq_none_iff.mp ho
        simp only
        rw [if_neg (by omega)]
      | some oc =>
        have := (List.getElem?_eq_some_iff.mp ho).1
        simp only [lsPlace, if_true]
        rw [if_pos ⟨trivial, this⟩]
    · rw [if_neg (fun h => e h.1)]
      cases ho : jc'.ops[ls.cnt jc'.id]? with
      | none => rfl
      | some oc =>
        simp only [lsPlace]
        rw [if_neg (fun h => e h.symm)]

theorem cnt_foldl (w : WF inst) {jc : JobCfg} (hjc : jc ∈ inst.jobs) : ∀ (π : List Nat) (ls : LS),
    ls.cnt jc.id ≤ jc.ops.length →
    (π.foldl (lsStep inst) ls).cnt jc.id = min (ls.cnt jc.id + π.count jc.id) jc.ops.length
  | [], ls, h => by simp; omega
  | i :: π, ls, h => by
    have hs := cnt_step w hjc ls i
    have hle : (lsStep inst ls i).cnt jc.id ≤ jc.ops.length := by
      rw [hs]; split <;> omega
    rw [List.foldl_cons, cnt_foldl w hjc π _ hle, hs, List.count_cons]
    by_cases e : i = jc.id
    · subst e
      simp only [true_and, BEq.rfl, if_true]
      split <;> omega
    · have : (i == jc.id) = false := by simpa using e
      simp only [e, false_and, if_false, this, Bool.false_eq_true]
      omega

theorem cnt_run (w : WF inst) {jc : JobCfg} (hjc : jc ∈ inst.jobs) (π : List Nat) :
    (lsRun inst π).cnt jc.id = min (π.count jc.id) jc.ops.length := by
  have := cnt_foldl w hjc π LS.init (by simp [LS.init])
  simpa [lsRun, LS.init] using this

theorem placed_of_full {ls : LS} (hfull : ∀ jc ∈ inst.jobs, ls.cnt jc.id = jc.ops.length) {oc : OpCfg}
    (h : oc ∈ allOps inst) : Placed inst ls oc := by
  obtain ⟨jc, hjc, hoc⟩ := List.mem_flatMap.mp h
  obtain ⟨k, hk⟩ := List.getElem?_of_mem hoc
  have := (List.getElem?_eq_some_iff.mp hk).1
  refine ⟨jc, hjc, k, ?_, hk⟩
  rw [hfull jc hjc]
  omega

theorem full_of_valid (w : WF inst) {π : List Nat} (hπ : ValidOrder inst π) :
    ∀ jc ∈ inst.jobs, (lsRun inst π).cnt jc.id = jc.ops.length := by
  intro jc hjc
  rw [cnt_run w hjc, hπ jc hjc]
  omega

/-! ## Theorem A -/

/-- the invariant of a run in which every operation is placed is `TargetOK` -/
theorem LInv.targetOK {ls : LS} (hI : LInv inst ls) (hfull : ∀ jc ∈ inst.jobs, ls.cnt jc.id = jc.ops.length) :
    TargetOK inst ls.st := by
  have hall : ∀ oc ∈ allOps inst, Placed inst ls oc := fun oc h => placed_of_full hfull h
  refine ⟨?_, ?_, ?_, ?_⟩
  · intro oc hoc; exact hI.nonneg oc (hall oc hoc)
  · intro jc hjc l1 a b l2 e
    have ha : jc.ops[l1.length]? = some a := by simp [e]
    have hb : jc.ops[l1.length + 1]? = some b := by
      rw [e, List.getElem?_append_right (by omega)]
      simp
    have hlen := (List.getElem?_eq_some_iff.mp hb).1
    exact hI.chain jc hjc l1.length a b (by rw [hfull jc hjc]; exact hlen) ha hb
  · intro a ha b hb hm hne
    exact hI.excl a b (hall a ha) (hall b hb) hm hne
  · intro oc hoc
    rcases hI.aligned oc (hall oc hoc) with h | ⟨oc', h', e⟩
    · exact Or.inl h
    · exact Or.inr ⟨oc', h'.mem, e⟩

/-- **Theorem A**: the list schedule of a valid order is a feasible, event-aligned target schedule.
(Only non-negative durations are used.) -/
theorem listStarts_targetOK_of_nonneg (w : WF inst) (hnn : ∀ oc ∈ allOps inst, 0 ≤ oc.d) {π : List Nat}
    (hπ : ValidOrder inst π) : TargetOK inst (listStarts inst π) :=
  (LInv.run w hnn π).targetOK (full_of_valid w hπ)

theorem listStarts_targetOK (w : WF inst) (hpos : ∀ oc ∈ allOps inst, ∃ d, oc.dur = .det d ∧ 0 < d) {π : List Nat}
    (hπ : ValidOrder inst π) : TargetOK inst (listStarts inst π) :=
  listStarts_targetOK_of_nonneg w (d_nonneg_of_det hpos) hπ

/-! ## operations of a job in order -/

/-- from the chain condition on adjacent operations: an operation ends before any later operation of
its job starts -/
theorem chain_before {S : Nat → Nat → Int} {ops : List OpCfg} (hnn : ∀ oc ∈ ops, 0 ≤ oc.d)
    (hc : ∀ l1 a b l2, ops = l1 ++ a :: b :: l2 → S a.job a.idx + a.d ≤ S b.job b.idx) :
    ∀ (l2 l1 : List OpCfg) (a b : OpCfg), ops = l1 ++ a :: l2 → b ∈ l2 → S a.job a.idx + a.d ≤ S b.job b.idx
  | [], _, _, _, _, hb => by cases hb
  | c :: l2, l1, a, b, e, hb => by
    have h1 := hc l1 a c l2 e
    rcases List.mem_cons.mp hb with rfl | hb'
    · exact h1
    · have h2 := chain_before hnn hc l2 (l1 ++ [a]) c b (by simp [e]) hb'
      have : 0 ≤ c.d := hnn c (by simp [e])
      omega

theorem TargetOK.before {S : Nat → Nat → Int} (h : TargetOK inst S) (hnn : ∀ oc ∈ allOps inst, 0 ≤ oc.d)
    {jc : JobCfg} (hjc : jc ∈ inst.jobs) {l1 l2 : List OpCfg} {a b : OpCfg} (e : jc.ops = l1 ++ a :: l2)
    (hb : b ∈ l2) : S a.job a.idx + a.d ≤ S b.job b.idx :=
  chain_before (fun oc hoc => hnn oc (mem_allOps hjc hoc)) (h.chain jc hjc) l2 l1 a b e hb

/-! ## feasibility alone -/

/-- the feasibility part of `TargetOK` (no alignment) -/
structure FeasT (inst : Instance) (S : Nat → Nat → Int) : Prop where
  nonneg : ∀ oc ∈ allOps inst, 0 ≤ S oc.job oc.idx
  chain : ∀ jc ∈ inst.jobs, ∀ l1 a b l2, jc.ops = l1 ++ a :: b :: l2 → S a.job a.idx + a.d ≤ S b.job b.idx
  excl : ∀ a ∈ allOps inst, ∀ b ∈ allOps inst, a.machine = b.machine → (a.job, a.idx) ≠ (b.job, b.idx) →
    S a.job a.idx + a.d ≤ S b.job b.idx ∨ S b.job b.idx + b.d ≤ S a.job a.idx

theorem TargetOK.feasT {S : Nat → Nat → Int} (h : TargetOK inst S) : FeasT inst S := ⟨h.nonneg, h.chain, h.excl⟩

theorem FeasT.before {S : Nat → Nat → Int} (h : FeasT inst S) (hnn : ∀ oc ∈ allOps inst, 0 ≤ oc.d)
    {jc : JobCfg} (hjc : jc ∈ inst.jobs) {l1 l2 : List OpCfg} {a b : OpCfg} (e : jc.ops = l1 ++ a :: l2)
    (hb : b ∈ l2) : S a.job a.idx + a.d ≤ S b.job b.idx :=
  chain_before (fun oc hoc => hnn oc (mem_allOps hjc hoc)) (h.chain jc hjc) l2 l1 a b e hb

/-- positional form of `before` -/
theorem FeasT.before_pos {S : Nat → Nat → Int} (h : FeasT inst S) (hnn : ∀ oc ∈ allOps inst, 0 ≤ oc.d)
    {jc : JobCfg} (hjc : jc ∈ inst.jobs) {k k' : Nat} {a b : OpCfg} (ha : jc.ops[k]? = some a)
    (hb : jc.ops[k']? = some b) (hlt : k < k') : S a.job a.idx + a.d ≤ S b.job b.idx := by
  have hk := (List.getElem?_eq_some_iff.mp ha)
  have hk' := (List.getElem?_eq_some_iff.mp hb)
  obtain ⟨hk1, hk2⟩ := hk
  obtain ⟨hk1', hk2'⟩ := hk'
  have e : jc.ops = jc.ops.take k ++ a :: jc.ops.drop (k + 1) := by
    rw [← hk2]; simp
  refine h.before hnn hjc e ?_
  rw [← hk2']
  rw [List.mem_iff_getElem]
  refine ⟨k' - (k + 1), by simp; omega, ?_⟩
  simp only [List.getElem_drop]
  congr 1; omega

end JSL
