import JSL.Inv.Views

/-! How `storeAt` changes under the replace-by-id operations, given duplicate-free ids. -/

namespace JSL

/-- `Shape` is kept by replacing a machine by one with the same keys -/
theorem Shape.replaceMachine {inst : Instance} {s : State} (hs : Shape inst s) (w : WF inst)
    {m m' : MachineState} (hm : m ∈ s.machines) (hk : mKey m' = mKey m) :
    Shape inst (s.replaceMachine m') where
  jobs := hs.jobs
  transports := hs.transports
  buffers := hs.buffers
  machines := by
    have hid : m'.id = m.id := by have := congrArg Prod.fst hk; simpa [mKey] using this
    have := map_replace (key := fun (y : MachineState) => y.id) (hs.machNodup w) hm hid mKey hk
    simp only [State.replaceMachine]
    rw [← hs.machines]
    simpa using this

theorem Shape.replaceTransport {inst : Instance} {s : State} (hs : Shape inst s) (w : WF inst)
    {t t' : TransportState} (ht : t ∈ s.transports) (hk : tKey t' = tKey t) :
    Shape inst (s.replaceTransport t') where
  jobs := hs.jobs
  machines := hs.machines
  buffers := hs.buffers
  transports := by
    have hid : t'.id = t.id := by have := congrArg Prod.fst hk; simpa [tKey] using this
    have := map_replace (key := fun (y : TransportState) => y.id) (hs.trNodup w) ht hid tKey hk
    simp only [State.replaceTransport]
    rw [← hs.transports]
    simpa using this

theorem Shape.replaceJob {inst : Instance} {s : State} (hs : Shape inst s) (w : WF inst)
    {j j' : JobState} (hj : j ∈ s.jobs) (hk : jKey j' = jKey j) :
    Shape inst (s.replaceJob j') where
  machines := hs.machines
  transports := hs.transports
  buffers := hs.buffers
  jobs := by
    have hid : j'.id = j.id := by have := congrArg Prod.fst hk; simpa [jKey] using this
    have := map_replace (key := fun (y : JobState) => y.id) (hs.jobsNodup w) hj hid jKey hk
    simp only [State.replaceJob]
    rw [← hs.jobs]
    simpa using this

theorem Shape.bufsNodup {inst : Instance} {s : State} (hs : Shape inst s) (w : WF inst) :
    (s.buffers.map (·.id)).Nodup := by
  have h := hs.bufNodup w
  unfold allBufStates at h
  simp only [List.map_append] at h
  exact (List.nodup_append.mp (List.nodup_append.mp h).1).1

theorem Shape.replaceBuffer {inst : Instance} {s : State} (hs : Shape inst s) (w : WF inst)
    {b b' : BufState} (hb : b ∈ s.buffers) (hk : b'.id = b.id) :
    Shape inst (s.replaceBuffer b') where
  jobs := hs.jobs
  machines := hs.machines
  transports := hs.transports
  buffers := by
    have := map_replace (key := fun (y : BufState) => y.id) (hs.bufsNodup w) hb hk (fun y => y.id) hk
    simp only [State.replaceBuffer]
    rw [← hs.buffers]
    simpa using this

theorem mem_allBufs_of_machine {s : State} {m : MachineState} (hm : m ∈ s.machines) :
    m.pre ∈ allBufStates s ∧ m.buffer ∈ allBufStates s ∧ m.post ∈ allBufStates s := by
  simp only [mem_allBufs]
  exact ⟨Or.inr (Or.inl ⟨m, hm, Or.inl rfl⟩), Or.inr (Or.inl ⟨m, hm, Or.inr (Or.inl rfl)⟩),
    Or.inr (Or.inl ⟨m, hm, Or.inr (Or.inr rfl)⟩)⟩

theorem mem_allBufs_of_transport {s : State} {t : TransportState} (ht : t ∈ s.transports) :
    t.buffer ∈ allBufStates s := by
  simp only [mem_allBufs]; exact Or.inr (Or.inr ⟨t, ht, rfl⟩)

theorem mem_allBufs_of_buffer {s : State} {b : BufState} (hb : b ∈ s.buffers) : b ∈ allBufStates s := by
  simp only [mem_allBufs]; exact Or.inl hb

/-- the three buffers of one machine have distinct ids -/
theorem machine_buf_ids_ne {inst : Instance} {s : State} (hs : Shape inst s) (w : WF inst)
    {m : MachineState} (hm : m ∈ s.machines) :
    m.pre.id ≠ m.buffer.id ∧ m.pre.id ≠ m.post.id ∧ m.buffer.id ≠ m.post.id := by
  have hnd := hs.bufNodup w
  unfold allBufStates at hnd
  simp only [List.map_append, List.map_flatMap] at hnd
  have h2 := (List.nodup_append.mp (List.nodup_append.mp hnd).1).2.1
  obtain ⟨l1, l2, hl⟩ := List.append_of_mem hm
  rw [hl] at h2
  simp only [List.flatMap_append, List.flatMap_cons, List.map_cons, List.map_nil] at h2
  have h3 := (List.nodup_append.mp h2).2.1
  have h4 := (List.nodup_append.mp h3).1
  simp at h4
  exact ⟨h4.1.1, h4.1.2, h4.2⟩

/-- `storeAt` after replacing a machine by one with the same keys -/
theorem storeAt_replaceMachine {inst : Instance} {s : State} (hs : Shape inst s) (w : WF inst)
    {m m' : MachineState} (hm : m ∈ s.machines) (hk : mKey m' = mKey m) (i : Nat) :
    storeAt (s.replaceMachine m') i =
      if i = m.pre.id then m'.pre.store else if i = m.buffer.id then m'.buffer.store
      else if i = m.post.id then m'.post.store else storeAt s i := by
  have hs' := hs.replaceMachine w hm hk
  have hnd := hs.bufNodup w
  have hnd' := hs'.bufNodup w
  have hid : m'.id = m.id := by have := congrArg Prod.fst hk; simpa [mKey] using this
  have hkk : m'.pre.id = m.pre.id ∧ m'.buffer.id = m.buffer.id ∧ m'.post.id = m.post.id := by
    simp only [mKey, Prod.mk.injEq] at hk; exact ⟨hk.2.1, hk.2.2.1, hk.2.2.2⟩
  have hm' : m' ∈ (s.replaceMachine m').machines :=
    (mem_replaceMachine (hs.machNodup w) hm hid m').mpr (Or.inl rfl)
  have hb' := mem_allBufs_of_machine hm'
  have hb := mem_allBufs_of_machine hm
  by_cases h1 : i = m.pre.id
  · simp only [h1, if_true]; rw [← hkk.1]; exact storeAt_of_mem hnd' hb'.1
  · by_cases h2 : i = m.buffer.id
    · simp only [h1, h2, if_true, if_false]
      rw [if_neg (by rw [← h2]; exact h1)]
      rw [← hkk.2.1]; exact storeAt_of_mem hnd' hb'.2.1
    · by_cases h3 : i = m.post.id
      · rw [if_neg h1, if_neg h2, if_pos h3, h3, ← hkk.2.2]; exact storeAt_of_mem hnd' hb'.2.2
      · rw [if_neg h1, if_neg h2, if_neg h3]
        apply storeAt_frame_same hnd hnd'
        · intro b hb0 hbi
          rw [mem_allBufs] at hb0 ⊢
          rcases hb0 with hb0 | ⟨x, hx, hbx⟩ | hb0
          · exact Or.inl hb0
          · right; left
            by_cases hxm : x.id = m.id
            · have : x = m := eq_of_mem_of_key_eq (key := fun (y : MachineState) => y.id) (hs.machNodup w) hx hm hxm
              subst this
              rcases hbx with rfl | rfl | rfl <;> simp_all
            · exact ⟨x, (mem_replaceMachine (hs.machNodup w) hm hid x).mpr (Or.inr ⟨hx, hxm⟩), hbx⟩
          · exact Or.inr (Or.inr hb0)
        · intro b hb0 hbi
          rw [mem_allBufs] at hb0 ⊢
          rcases hb0 with hb0 | ⟨x, hx, hbx⟩ | hb0
          · exact Or.inl hb0
          · right; left
            rcases (mem_replaceMachine (hs.machNodup w) hm hid x).mp hx with rfl | ⟨hx, _⟩
            · rcases hbx with rfl | rfl | rfl <;> simp_all
            · exact ⟨x, hx, hbx⟩
          · exact Or.inr (Or.inr hb0)

/-- `storeAt` after replacing a transport by one with the same keys -/
theorem storeAt_replaceTransport {inst : Instance} {s : State} (hs : Shape inst s) (w : WF inst)
    {t t' : TransportState} (ht : t ∈ s.transports) (hk : tKey t' = tKey t) (i : Nat) :
    storeAt (s.replaceTransport t') i = if i = t.buffer.id then t'.buffer.store else storeAt s i := by
  have hs' := hs.replaceTransport w ht hk
  have hnd := hs.bufNodup w
  have hnd' := hs'.bufNodup w
  have hid : t'.id = t.id := by have := congrArg Prod.fst hk; simpa [tKey] using this
  have hkk : t'.buffer.id = t.buffer.id := by simp only [tKey, Prod.mk.injEq] at hk; exact hk.2
  have ht' : t' ∈ (s.replaceTransport t').transports :=
    (mem_replaceTransport (hs.trNodup w) ht hid t').mpr (Or.inl rfl)
  by_cases h1 : i = t.buffer.id
  · rw [if_pos h1, h1, ← hkk]; exact storeAt_of_mem hnd' (mem_allBufs_of_transport ht')
  · rw [if_neg h1]
    apply storeAt_frame_same hnd hnd'
    · intro b hb0 hbi
      rw [mem_allBufs] at hb0 ⊢
      rcases hb0 with hb0 | hb0 | ⟨x, hx, hbx⟩
      · exact Or.inl hb0
      · exact Or.inr (Or.inl hb0)
      · right; right
        by_cases hxt : x.id = t.id
        · have : x = t := eq_of_mem_of_key_eq (key := fun (y : TransportState) => y.id) (hs.trNodup w) hx ht hxt
          subst this; subst hbx; exact absurd hbi.symm h1
        · exact ⟨x, (mem_replaceTransport (hs.trNodup w) ht hid x).mpr (Or.inr ⟨hx, hxt⟩), hbx⟩
    · intro b hb0 hbi
      rw [mem_allBufs] at hb0 ⊢
      rcases hb0 with hb0 | hb0 | ⟨x, hx, hbx⟩
      · exact Or.inl hb0
      · exact Or.inr (Or.inl hb0)
      · right; right
        rcases (mem_replaceTransport (hs.trNodup w) ht hid x).mp hx with rfl | ⟨hx, _⟩
        · subst hbx; rw [hkk] at hbi; exact absurd hbi.symm h1
        · exact ⟨x, hx, hbx⟩

/-- `storeAt` after replacing a standalone buffer -/
theorem storeAt_replaceBuffer {inst : Instance} {s : State} (hs : Shape inst s) (w : WF inst)
    {b b' : BufState} (hb : b ∈ s.buffers) (hk : b'.id = b.id) (i : Nat) :
    storeAt (s.replaceBuffer b') i = if i = b.id then b'.store else storeAt s i := by
  have hs' := hs.replaceBuffer w hb hk
  have hnd := hs.bufNodup w
  have hnd' := hs'.bufNodup w
  have hb' : b' ∈ (s.replaceBuffer b').buffers :=
    (mem_replaceBuffer (hs.bufsNodup w) hb hk b').mpr (Or.inl rfl)
  by_cases h1 : i = b.id
  · rw [if_pos h1, h1, ← hk]; exact storeAt_of_mem hnd' (mem_allBufs_of_buffer hb')
  · rw [if_neg h1]
    apply storeAt_frame_same hnd hnd'
    · intro x hx0 hxi
      rw [mem_allBufs] at hx0 ⊢
      rcases hx0 with hx0 | hx0 | hx0
      · left
        by_cases hxb : x.id = b.id
        · exact absurd (hxi ▸ hxb).symm (fun h => h1 h.symm)
        · exact (mem_replaceBuffer (hs.bufsNodup w) hb hk x).mpr (Or.inr ⟨hx0, hxb⟩)
      · exact Or.inr (Or.inl hx0)
      · exact Or.inr (Or.inr hx0)
    · intro x hx0 hxi
      rw [mem_allBufs] at hx0 ⊢
      rcases hx0 with hx0 | hx0 | hx0
      · left
        rcases (mem_replaceBuffer (hs.bufsNodup w) hb hk x).mp hx0 with rfl | ⟨hx, _⟩
        · rw [hk] at hxi; exact absurd hxi.symm h1
        · exact hx
      · exact Or.inr (Or.inl hx0)
      · exact Or.inr (Or.inr hx0)

/-- replacing a machine by one with the same keys and the same buffer contents changes no store -/
theorem storeAt_replaceMachine_same {inst : Instance} {s : State} (hs : Shape inst s) (w : WF inst)
    {m m' : MachineState} (hm : m ∈ s.machines) (hk : mKey m' = mKey m)
    (h1 : m'.pre.store = m.pre.store) (h2 : m'.buffer.store = m.buffer.store) (h3 : m'.post.store = m.post.store)
    (i : Nat) : storeAt (s.replaceMachine m') i = storeAt s i := by
  rw [storeAt_replaceMachine hs w hm hk]
  have hb := mem_allBufs_of_machine hm
  split
  · rename_i h; rw [h, h1]; exact (storeAt_of_mem (hs.bufNodup w) hb.1).symm
  · split
    · rename_i h; rw [h, h2]; exact (storeAt_of_mem (hs.bufNodup w) hb.2.1).symm
    · split
      · rename_i h; rw [h, h3]; exact (storeAt_of_mem (hs.bufNodup w) hb.2.2).symm
      · rfl

/-- replacing a transport by one with the same keys and the same buffer content changes no store -/
theorem storeAt_replaceTransport_same {inst : Instance} {s : State} (hs : Shape inst s) (w : WF inst)
    {t t' : TransportState} (ht : t ∈ s.transports) (hk : tKey t' = tKey t)
    (h1 : t'.buffer.store = t.buffer.store) (i : Nat) : storeAt (s.replaceTransport t') i = storeAt s i := by
  rw [storeAt_replaceTransport hs w ht hk]
  split
  · rename_i h; rw [h, h1]; exact (storeAt_of_mem (hs.bufNodup w) (mem_allBufs_of_transport ht)).symm
  · rfl

/-! ### buffers living in different parts of the state have different ids -/

theorem ids_parts {inst : Instance} {s : State} (hs : Shape inst s) (w : WF inst) :
    (∀ b ∈ s.buffers, ∀ m ∈ s.machines, b.id ≠ m.pre.id ∧ b.id ≠ m.buffer.id ∧ b.id ≠ m.post.id) ∧
    (∀ b ∈ s.buffers, ∀ t ∈ s.transports, b.id ≠ t.buffer.id) ∧
    (∀ m ∈ s.machines, ∀ t ∈ s.transports, m.pre.id ≠ t.buffer.id ∧ m.buffer.id ≠ t.buffer.id ∧ m.post.id ≠ t.buffer.id) := by
  have hnd := hs.bufNodup w
  unfold allBufStates at hnd
  simp only [List.map_append, List.map_flatMap, List.map_map] at hnd
  rw [List.nodup_append] at hnd
  obtain ⟨h12, _, hd3⟩ := hnd
  rw [List.nodup_append] at h12
  obtain ⟨_, _, hd12⟩ := h12
  refine ⟨?_, ?_, ?_⟩
  · intro b hb m hm
    have f : ∀ x ∈ [m.pre.id, m.buffer.id, m.post.id], b.id ≠ x := by
      intro x hx
      apply hd12 b.id (List.mem_map.mpr ⟨b, hb, rfl⟩) x
      exact List.mem_flatMap.mpr ⟨m, hm, by simpa using hx⟩
    exact ⟨f _ (by simp), f _ (by simp), f _ (by simp)⟩
  · intro b hb t ht
    apply hd3 b.id (List.mem_append.mpr (Or.inl (List.mem_map.mpr ⟨b, hb, rfl⟩))) t.buffer.id
    exact List.mem_map.mpr ⟨t, ht, rfl⟩
  · intro m hm t ht
    have f : ∀ x ∈ [m.pre.id, m.buffer.id, m.post.id], x ≠ t.buffer.id := by
      intro x hx
      apply hd3 x (List.mem_append.mpr (Or.inr (List.mem_flatMap.mpr ⟨m, hm, by simpa using hx⟩))) t.buffer.id
      exact List.mem_map.mpr ⟨t, ht, rfl⟩
    exact ⟨f _ (by simp), f _ (by simp), f _ (by simp)⟩

@[simp] theorem storeAt_replaceJob (s : State) (j : JobState) (i : Nat) :
    storeAt (s.replaceJob j) i = storeAt s i := rfl

end JSL
