import JSL.Inv.ShiftClock

/-!
# Translation of simulated time: `processTransitions`, teleport filter, `lastDoneEnd`, `timedLoop`
-/

namespace JSL
variable (δ : Int) {inst : Instance}

def shiftProcOut (δ : Int) (o : ProcOut) : ProcOut :=
  { o with state := shiftState δ o.state, micro := o.micro.map (shiftState δ) }

def shiftLoopOut (δ : Int) (o : LoopOut) : LoopOut :=
  { o with state := shiftState δ o.state, subs := o.subs.map (shiftState δ), micro := o.micro.map (shiftState δ) }

theorem processTransitions_shift (hno : NoOutages inst) (orc : Oracle) : ∀ (trs : List Transition) (s : State) (r : Rng),
    processTransitions orc inst trs (shiftState δ s) r =
      (processTransitions orc inst trs s r).map (shiftProcOut δ)
  | [], _, _ => rfl
  | tr :: trs, s, r => by
    unfold processTransitions
    rw [transitionValid_shift]
    ecase transitionValid s tr with v
    cases v with
    | true =>
      simp only [if_true]
      rw [applyTransition_shift δ hno]
      ecase applyTransition orc inst s r tr with q
      obtain ⟨s1, r1⟩ := q
      simp only
      rw [processTransitions_shift hno orc trs s1 r1]
      ecase processTransitions orc inst trs s1 r1 with o
      try rfl
    | false =>
      simp only [Bool.false_eq_true, if_false]
      rw [processTransitions_shift hno orc trs s r]
      ecase processTransitions orc inst trs s r with o
      try rfl

theorem travelTimeForTransport_shift (orc : Oracle) (r : Rng) (s : State) (jid : Option Nat) :
    travelTimeForTransport orc inst r (shiftState δ s) jid = travelTimeForTransport orc inst r s jid := by
  unfold travelTimeForTransport
  simp only [shiftState_jobs, getJobOpt_shift]
  ecase getJobOpt s.jobs jid with j
  simp only [shiftJob_loc, shiftJob_noOpIdle, shiftJob_nextIdleOpt]
  ecase getBufCfg (allBufCfgs inst) j.loc with bc
  cases j.nextIdle? <;> rfl

theorem filterTeleport_shift (orc : Oracle) (r : Rng) (s : State) (poss : List Transition) :
    filterTeleport orc inst r (shiftState δ s) poss = filterTeleport orc inst r s poss := by
  unfold filterTeleport
  simp only [travelTimeForTransport_shift]

theorem lastDoneEnd_shift (s : State) :
    lastDoneEnd (shiftState δ s) = (lastDoneEnd s).map (Option.map (· + δ)) := by
  unfold lastDoneEnd
  rw [allOps_shift, filter_map_inv (shiftOp δ) (fun o => o.st == .done) (fun _ => rfl),
    mapM_map_equiv_self (shiftOp δ) (· + δ)]
  · epeel ends
    cases ends with
    | nil => rfl
    | cons e es => simp only [List.map_cons, foldl_max_add, except_pure, except_map'_ok, Option.map_some]
  · intro o
    simp only [shiftOp_stop]
    cases o.stop <;> rfl

theorem timedLoop_shift (hno : NoOutages inst) (orc : Oracle) (cfg : SMConfig) : ∀ (fuel : Nat) (tt : List Transition)
    (s : State) (r : Rng) (subs mic : List State),
    timedLoop orc inst cfg fuel tt (shiftState δ s) r (subs.map (shiftState δ)) (mic.map (shiftState δ)) =
      (timedLoop orc inst cfg fuel tt s r subs mic).map (shiftLoopOut δ)
  | 0, [], _, _, _, _ => rfl
  | _ + 1, [], _, _, _, _ => rfl
  | 0, _ :: _, _, _, _, _ => rfl
  | fuel + 1, t :: ts, s, r, subs, mic => by
    unfold timedLoop
    rw [processTransitions_shift δ hno]
    ecase processTransitions orc inst (t :: ts) s r with o
    have e1 : (shiftProcOut δ o).nerr = o.nerr := rfl
    have e2 : (shiftProcOut δ o).state = shiftState δ o.state := rfl
    have e3 : (shiftProcOut δ o).rng = o.rng := rfl
    have e4 : (shiftProcOut δ o).micro = o.micro.map (shiftState δ) := rfl
    simp only [e1, e2, e3, e4]
    split
    · simp only [except_pure, except_map'_ok, shiftLoopOut, List.map_append]
    · rw [jumpToEvent_shift]
      ecase jumpToEvent inst cfg o.state with tm
      rw [shiftState_setTime, timedTransitions_shift]
      ecase timedTransitions inst { o.state with time := tm } with tt2
      have := timedLoop_shift hno orc cfg fuel tt2 { o.state with time := tm } o.rng
        (subs ++ [{ o.state with time := tm }]) (mic ++ o.micro)
      simp only [List.map_append, List.map_cons, List.map_nil] at this
      exact this
end JSL
