import JSL.Inv.ApproachDefs

/-!
# The approach leg, one transition at a time

* `AgvFx` – what one applied transition does to the AGV records: nothing, a dispatch (IDLE → PICKUP,
  `occupied_till := now + matrix entry (where the AGV stands → pickup source)`), or a transition that
  ends in a state other than PICKUP and – when it starts in PICKUP – is a `→ WAITINGPICKUP/TRANSIT`.
* `ApDueGS` – the batch side condition: a transition that makes an AGV leave PICKUP is applied only
  when that AGV's `occupied_till` has been reached.  The timed batch built from a state meets it
  provided every parked transition (`TimeDependency`) is parked at the AGV it addresses (`DepOwn`).
-/

namespace JSL

variable {orc : Oracle} {inst : Instance}

/-- a transition that ends the approach phase of an AGV -/
def Leaving (tr : Transition) : Prop := tr.new = .t .waitingpickup ∨ tr.new = .t .transit

/-- every transition parked in a `TimeDependency` addresses the AGV it is parked at -/
def DepOwn (s : State) : Prop :=
  ∀ t ∈ s.transports, ∀ b j tr, t.occ = .dep b j tr → tr.comp = .t t.id

/-- the record `t'` is the record `t0` right after the dispatch `tr` applied in `s`: it travels
`v` = the current value of the matrix entry (where it stands → the component holding the job) -/
def Dispatched (orc : Oracle) (inst : Instance) (s : State) (tr : Transition) (t0 t' : TransportState) : Prop :=
  ∃ (j : JobState) (cur target src : Loc) (bc : BufCfg) (c : TimeCfg) (v : Int),
    j ∈ s.jobs ∧ tr.job = some j.id ∧ t0.loc = .at cur ∧ bc ∈ allBufCfgs inst ∧ bc.id = j.loc ∧
    (bc.parent = none ∧ src = .b j.loc ∨ ∃ mid, bc.parent = some (.m mid) ∧ src = .m mid) ∧
    travelCfg inst cur src = some c ∧ t'.occ = .at (s.time + v) ∧ t'.loc = .route cur bc.id target ∧
    0 ≤ v ∧ (∀ d, c = .det d → v = d) ∧ (∀ sid, c = .stoch sid → ∃ k, v = orc sid k)

/-- the record `t'` is an AGV record right after the pickup `tr` applied in `s`: it arrives after
`tt` = the value of the matrix entry (component holding the job → destination), freshly sampled if
stochastic -/
def Loaded (orc : Oracle) (inst : Instance) (s : State) (tr : Transition) (t' : TransportState) : Prop :=
  ∃ (j : JobState) (src dst : Loc) (c : TimeCfg) (tt : Int), j ∈ s.jobs ∧ tr.job = some j.id ∧
    (src = .b j.loc ∧ machineIdOfBuffer inst.machines j.loc = none ∨
      ∃ mid, src = .m mid ∧ machineIdOfBuffer inst.machines j.loc = some mid) ∧
    dropOK inst j JobState.nextNotDone? dst ∧ travelCfg inst src dst = some c ∧ t'.occ = .at (s.time + tt) ∧
    (∀ d, c = .det d → tt = d) ∧ (∀ sid, c = .stoch sid → ∃ k, 1 ≤ k ∧ tt = orc sid k)

structure AgvFx (orc : Oracle) (inst : Instance) (s : State) (tr : Transition) (s' : State) : Prop where
  time : s'.time = s.time
  ex : ∀ tid, tr.comp = .t tid → ∃ t' ∈ s'.transports, t'.id = tid
  fx : ∀ t' ∈ s'.transports, (t' ∈ s.transports ∧ tr.comp ≠ .t t'.id) ∨
    ∃ t0 ∈ s.transports, tr.comp = .t t0.id ∧ t'.id = t0.id ∧
    ((tr.new = .t .working ∧ t0.st = .idle ∧ t'.st = .pickup ∧ Dispatched orc inst s tr t0 t') ∨
     (tr.new ≠ .t .working ∧ t'.st ≠ .pickup ∧ (t0.st = .pickup → Leaving tr) ∧
       (tr.new = .t .transit → Loaded orc inst s tr t')))

theorem ap_fx_of_replace {s s' : State} {tr : Transition} {t0 t' : TransportState}
    (htn : (s.transports.map (·.id)).Nodup) (ht0 : t0 ∈ s.transports) (hc : tr.comp = .t t0.id) (hid : t'.id = t0.id)
    (htime : s'.time = s.time) (htr : s'.transports = (s.replaceTransport t').transports)
    (hcase : (tr.new = .t .working ∧ t0.st = .idle ∧ t'.st = .pickup ∧ Dispatched orc inst s tr t0 t') ∨
     (tr.new ≠ .t .working ∧ t'.st ≠ .pickup ∧ (t0.st = .pickup → Leaving tr) ∧
       (tr.new = .t .transit → Loaded orc inst s tr t'))) : AgvFx orc inst s tr s' := by
  refine ⟨htime, ?_, ?_⟩
  · intro tid htid
    rw [hc] at htid
    simp at htid
    exact ⟨t', by rw [htr]; exact (mem_replaceTransport htn ht0 hid t').mpr (Or.inl rfl), by rw [hid, htid]⟩
  · intro x hx
    rw [htr] at hx
    rcases (mem_replaceTransport htn ht0 hid x).mp hx with rfl | ⟨hx0, hne⟩
    · exact Or.inr ⟨t0, ht0, hc, hid, hcase⟩
    · exact Or.inl ⟨hx0, by rw [hc]; simpa using fun e => hne e.symm⟩

/-- **what one applied transition does to the AGV records** -/
theorem ap_agv_fx (w : WF inst) (nn : NonNeg orc inst) {s s' : State} {r r' : Rng} {tr : Transition}
    (hI : StructInv inst s) (h : applyTransition orc inst s r tr = .ok (s', r')) : AgvFx orc inst s tr s' := by
  have htime := applyTransition_time h
  have htn := hI.shape.trNodup w
  have h0 := h
  cases hc : tr.comp with
  | b bid =>
    unfold applyTransition at h
    simp only [hc] at h
    obtain ⟨_, _, h⟩ := except_bind_eq_ok h
    simp at h
  | m mid =>
    have htr := (machine_effect w hI hc h0).2.1
    exact ⟨htime, fun tid e => (by rw [hc] at e; cases e), fun t' ht' => Or.inl ⟨by rw [htr] at ht'; exact ht', by rw [hc]; simp⟩⟩
  | t tid =>
    unfold applyTransition at h
    simp only [hc] at h
    obtain ⟨t0, ht0, h⟩ := except_bind_eq_ok h
    unfold handleTransportTransition at h
    obtain ⟨t, ht, h⟩ := except_bind_eq_ok h
    rw [ht0] at ht; simp at ht; subst ht
    have hmem := getTransport_ok ht0
    have hc' : tr.comp = .t t0.id := by rw [hc, hmem.2]
    obtain ⟨tc, _, h⟩ := except_bind_eq_ok h
    split at h
    · simp at h
    · obtain ⟨hd, hh, h⟩ := except_bind_eq_ok h
      unfold agvHandlerOf at hh
      cases hn : tr.new with
      | m ns => simp [hn] at hh
      | t ns =>
        simp only [hn] at hh
        cases hah : agvHandler t0.st ns with
        | none => simp [hah] at hh
        | some hd' =>
          simp [hah] at hh; subst hh
          cases hd' with
          | idleToWorking =>
            have hst := agvHandler_idleToWorking hah
            obtain ⟨j, cur, target, src, bc, c, h1, h2, h3, _, h5, h6, h7, h8, _, rfl⟩ := idleToWorking_spec h
            refine ap_fx_of_replace (t' := t0.toPickup cur bc.id target (s.time + c.cur orc r) j.id) htn hmem.1 hc' rfl
              htime rfl (Or.inl ⟨by rw [hn, hst.2], hst.1, rfl, ?_⟩)
            refine ⟨j, cur, target, src, bc, c, c.cur orc r, h1, h2, h3, h5, h6, h7, h8, rfl, rfl, ?_, ?_, ?_⟩
            · exact TimeCfg.cur_nonneg nn.orc r c (nn.travel _ (lookup_mem (by simpa [travelCfg] using h8)))
            · intro d e; subst e; rfl
            · intro sid e; subst e; exact ⟨r sid, rfl⟩
          | pickupToWaitingpickup =>
            have hst := agvHandler_pickupToWaiting hah
            obtain ⟨occ, _, _, _, rfl⟩ := pickupToWaiting_spec h
            exact ap_fx_of_replace (t' := t0.toWaiting occ) htn hmem.1 hc' rfl htime rfl
              (Or.inr ⟨by rw [hn, hst.1]; simp, by simp [TransportState.toWaiting], fun _ => Or.inl (by rw [hn, hst.1]), fun e => (by rw [hn, hst.1] at e; cases e)⟩)
          | waitingPickupToWaitingPickup =>
            have hst := agvHandler_waitingToWaiting hah
            obtain ⟨occ, _, _, rfl⟩ := waitingToWaiting_spec h
            exact ap_fx_of_replace (t' := t0.toWaiting occ) htn hmem.1 hc' rfl htime rfl
              (Or.inr ⟨by rw [hn, hst.1]; simp, by simp [TransportState.toWaiting], fun _ => Or.inl (by rw [hn, hst.1]), fun e => (by rw [hn, hst.1] at e; cases e)⟩)
          | outageToIdle =>
            have hst := agvHandler_outageToIdle hah
            obtain ⟨_, rfl⟩ := agvOutageToIdle_spec h
            exact ap_fx_of_replace (t' := t0.toIdle) htn hmem.1 hc' rfl htime rfl
              (Or.inr ⟨by rw [hn, hst.2]; simp, by simp [TransportState.toIdle], (fun e => by rw [hst.1] at e; cases e),
                (fun e => by rw [hn, hst.2] at e; cases e)⟩)
          | pickupToTransit =>
            have hst := agvHandler_pickupToTransit hah
            obtain ⟨j, src, dst, tt, bss1, bss2, hj, htj, hdrop, htt, _, hcase⟩ := pickupToTransit_spec h
            refine ap_fx_of_replace (t' := t0.toTransit (s.time + tt) j.id bss2) htn hmem.1 hc' rfl htime ?_
              (Or.inr ⟨by rw [hn, hst.1]; simp, by simp [TransportState.toTransit], fun _ => Or.inr (by rw [hn, hst.1]), fun _ => ?_⟩)
            · rcases hcase with ⟨fb, _, _, _, _, _, rfl⟩ | ⟨mid, ms, bs, ms', _, _, _, _, _, _, _, rfl⟩ <;> rfl
            · have hcc : ∃ c, travelCfg inst src dst = some c ∧ (∀ d, c = .det d → tt = d) ∧
                  (∀ sid, c = .stoch sid → ∃ k, 1 ≤ k ∧ tt = orc sid k) := by
                unfold travelTimeFromSpec at htt
                split at htt
                · simp at htt
                · cases hl : travelCfg inst src dst with
                  | none => simp [hl] at htt
                  | some c =>
                    simp [hl] at htt
                    refine ⟨c, rfl, ?_, ?_⟩
                    · intro d e; subst e; simp [TimeCfg.updRead] at htt; exact htt.1.symm
                    · intro sid e; subst e; simp [TimeCfg.updRead] at htt; exact ⟨r sid + 1, by omega, htt.1.symm⟩
              obtain ⟨c, hc1, hc2, hc3⟩ := hcc
              have hsrc : (src = .b j.loc ∧ machineIdOfBuffer inst.machines j.loc = none ∨
                  ∃ mid, src = .m mid ∧ machineIdOfBuffer inst.machines j.loc = some mid) := by
                rcases hcase with ⟨fb, e1, e2, _⟩ | ⟨mid, ms, bs, ms', e1, e2, _⟩
                · exact Or.inl ⟨e1, e2⟩
                · exact Or.inr ⟨mid, e1, e2⟩
              exact ⟨j, src, dst, c, tt, hj, htj, hsrc, hdrop, hc1, rfl, hc2, hc3⟩
          | transitToOutage =>
            have hst := agvHandler_transitToOutage hah
            obtain ⟨j, cur, pick, drop, tc, outs, bss1, bss2, hj, _, hloc, hin, _, _, _, hcase⟩ := transitToOutage_spec h
            refine ap_fx_of_replace (t' := t0.toOutage j.id bss1 outs (s.time + occupiedFor outs) drop) htn hmem.1 hc' rfl
              htime ?_ (Or.inr ⟨by rw [hn, hst.1]; simp, by simp [TransportState.toOutage], fun e => ?_,
                (fun e => by rw [hn, hst.1] at e; cases e)⟩)
            · rcases hcase with ⟨mid, ms, _, _, _, _, rfl⟩ | ⟨bid, b, _, _, _, _, rfl⟩ <;> rfl
            · rcases hst.2 with e' | e' <;> rw [e'] at e <;> cases e

/-! ## the batch side condition -/

/-- a transition that ends an approach is applied only when the approach time has been reached,
and nothing earlier in the batch dispatches -/
structure ApDueGS (s : State) (L : List Transition) : Prop where
  due : ∀ tr ∈ L, Leaving tr → ∀ t ∈ s.transports, tr.comp = .t t.id → t.st = .pickup →
    ∀ o, t.occ = .at o → o ≤ s.time
  order : L.Pairwise (fun a b => Leaving b → a.new ≠ .t .working)

theorem ApDueGS.tail {s : State} {tr : Transition} {R : List Transition} (h : ApDueGS s (tr :: R)) : ApDueGS s R :=
  ⟨fun t ht => h.due t (by simp [ht]), (List.pairwise_cons.mp h.order).2⟩


/-- one applied transition keeps the side condition for the rest of the batch -/
theorem ApDueGS.step {s s' : State} {tr : Transition} {R : List Transition} (h : ApDueGS s (tr :: R))
    (hfx : AgvFx orc inst s tr s') : ApDueGS s' R := by
  refine ⟨?_, h.tail.order⟩
  intro b hb hl t ht hcb hst o ho
  rw [hfx.time]
  rcases hfx.fx t ht with ⟨ht0, _⟩ | ⟨t0, _, _, _, hcase⟩
  · exact h.due b (by simp [hb]) hl t ht0 hcb hst o ho
  · rcases hcase with ⟨hw, _⟩ | ⟨_, hnp, _⟩
    · exact absurd hw ((List.pairwise_cons.mp h.order).1 b hb hl)
    · exact absurd hst hnp

/-- offers (machine → SETUP, AGV → WORKING) end no approach -/
theorem ap_dueGS_offers {s : State} {L : List Transition} (h : ∀ tr ∈ L, OfferShaped tr) : ApDueGS s L := by
  have hnl : ∀ tr ∈ L, ¬ Leaving tr := by
    intro tr htr hl
    rcases h tr htr with e | e <;> rcases hl with e' | e' <;> rw [e] at e' <;> cases e'
  refine ⟨fun tr htr hl => absurd hl (hnl tr htr), ?_⟩
  apply List.pairwise_of_forall_mem_list
  intro a _ b hb hl
  exact absurd hl (hnl b hb)

/-- what `create_timed_transport_transitions` produces for one AGV whose parked transition, if any,
is its own: a transition for this AGV, no dispatch, and – unless parked – due -/
theorem ap_timedTransport_due {s : State} {t : TransportState}
    (hown : ∀ b j tr, t.occ = .dep b j tr → tr.comp = .t t.id)
    (hwait : ∀ b j tr, t.occ = .dep b j tr → tr.new = .t .waitingpickup) {tr : Transition}
    (h : timedTransport inst s t = .ok (some tr)) :
    tr.comp = .t t.id ∧ tr.new ≠ .t .working ∧ ∀ o, t.occ = .at o → o ≤ s.time := by
  unfold timedTransport at h
  cases hocc : t.occ with
  | none => simp [hocc] at h
  | dep b j tr' =>
    simp only [hocc] at h
    obtain ⟨res, _, h⟩ := except_bind_eq_ok h
    split at h
    · simp at h; subst h
      exact ⟨hown b j tr' hocc, by rw [hwait b j tr' hocc]; simp, fun o ho => by cases ho⟩
    · simp at h
  | «at» o =>
    simp only [hocc] at h
    split at h
    · rename_i hle
      have hdue : ∀ o', Occ.at o = Occ.at o' → o' ≤ s.time := fun o' ho' => by simp at ho'; omega
      cases hcr : agvTimedCreator t.st with
      | idleToPick =>
        simp only [hcr] at h
        unfold agvIdleToPickTransition at h
        obtain ⟨jid, _, h⟩ := except_bind_eq_ok h
        obtain ⟨j, _, h⟩ := except_bind_eq_ok h
        obtain ⟨rdy, _, h⟩ := except_bind_eq_ok h
        simp at h
        cases hnx : idleToPickNext t.st rdy with
        | none => simp [hnx] at h
        | some ns =>
          simp [hnx] at h; subst h
          refine ⟨rfl, ?_, hdue⟩
          simp only [ne_eq, NewSt.t.injEq]
          intro e; subst e
          revert hnx; cases t.st <;> cases rdy <;> decide
      | pickupToDrop =>
        simp only [hcr] at h
        split at h
        · obtain ⟨js, _, h⟩ := except_bind_eq_ok h
          simp at h; subst h; exact ⟨rfl, by simp, hdue⟩
        · simp at h
      | dropToIdle => simp [hcr] at h; subst h; exact ⟨rfl, by simp, hdue⟩
      | raises => simp [hcr] at h
      | none => simp [hcr] at h
    · simp at h

theorem ap_timedTransports_due {s : State} (hS : SchedInv s) (hown : DepOwn s) :
    ∀ (ts : List TransportState), (∀ t ∈ ts, t ∈ s.transports) → ∀ r, ts.mapM (timedTransport inst s) = .ok r →
    ∀ tr ∈ r.filterMap id, tr.new ≠ .t .working ∧
      ∃ t ∈ s.transports, tr.comp = .t t.id ∧ ∀ o, t.occ = .at o → o ≤ s.time
  | [], _, r, h => by simp [List.mapM_nil] at h; subst h; simp
  | t :: ts, hsub, r, h => by
    rw [List.mapM_cons] at h
    obtain ⟨x, hx, h⟩ := except_bind_eq_ok h
    obtain ⟨xs, hxs, h⟩ := except_bind_eq_ok h
    simp at h; subst h
    have ih := ap_timedTransports_due hS hown ts (fun y hy => hsub y (by simp [hy])) xs hxs
    have htm := hsub t (by simp)
    cases x with
    | none => simpa only [List.filterMap_cons, id] using ih
    | some tr0 =>
      simp only [List.filterMap_cons, id]
      intro tr htr
      rcases List.mem_cons.mp htr with rfl | htr
      · have := ap_timedTransport_due (hown t htm) (hS.depWaiting t htm) hx
        exact ⟨this.2.1, t, htm, this.1, this.2.2⟩
      · exact ih tr htr

/-- **the timed batch (followed by AGV dispatches) meets the side condition**, provided every parked
transition is parked at the AGV it addresses -/
theorem ap_timed_due (w : WF inst) {s : State} (hI : StructInv inst s) (hS : SchedInv s) (hown : DepOwn s)
    {tt tele : List Transition} (htt : timedTransitions inst s = .ok tt) (htele : ∀ tr ∈ tele, tr.new = .t .working) :
    ApDueGS s (tt ++ tele) := by
  have hs := hI.shape
  unfold timedTransitions at htt
  obtain ⟨a, ha, htt⟩ := except_bind_eq_ok htt
  obtain ⟨b, hb, htt⟩ := except_bind_eq_ok htt
  simp at htt; subst htt
  unfold timedMachineTransitions at ha
  unfold timedTransportTransitions at hb
  cases hra : s.machines.mapM (timedMachine inst s.time) with
  | error e => simp [hra] at ha
  | ok ra =>
    simp [hra] at ha; subst ha
    cases hrb : s.transports.mapM (timedTransport inst s) with
    | error e => simp [hrb] at hb
    | ok rb =>
      simp [hrb] at hb; subst hb
      have hA := timedMachines_spec (inst := inst) s.machines (fun m hm => hm) (hs.machNodup w) ra hra
      have hB := ap_timedTransports_due (inst := inst) hS hown s.transports (fun t ht => ht) rb hrb
      have hM : ∀ tr ∈ ra.filterMap id, ∃ ns, tr.new = .m ns := by
        intro tr htr
        obtain ⟨⟨m, _, hc, hcase⟩, _⟩ := hA.1 tr htr
        rcases hcase with ⟨ns, _, e, _⟩ | ⟨_, e, _⟩
        · exact ⟨ns, e⟩
        · exact ⟨.setup, e⟩
      have hnl : ∀ tr ∈ tele, ¬ Leaving tr := by
        intro tr htr hl
        rcases hl with e' | e' <;> rw [htele tr htr] at e' <;> cases e'
      have hnw : ∀ tr ∈ ra.filterMap id ++ rb.filterMap id, tr.new ≠ .t .working := by
        intro tr htr
        rcases List.mem_append.mp htr with h | h
        · obtain ⟨ns, e⟩ := hM tr h
          rw [e]; simp
        · exact (hB tr h).1
      constructor
      · intro tr htr hl t ht hc hst o ho
        rcases List.mem_append.mp htr with h | h
        · rcases List.mem_append.mp h with h | h
          · obtain ⟨ns, e⟩ := hM tr h
            rcases hl with e' | e' <;> rw [e] at e' <;> cases e'
          · obtain ⟨_, t1, ht1, hc1, hdue⟩ := hB tr h
            rw [hc1] at hc
            simp at hc
            have : t1 = t := eq_of_mem_of_key_eq (key := fun (y : TransportState) => y.id) (hs.trNodup w) ht1 ht hc
            subst this
            exact hdue o ho
        · exact absurd hl (hnl tr h)
      · apply List.pairwise_append.mpr
        refine ⟨?_, ?_, ?_⟩
        · apply List.pairwise_of_forall_mem_list
          intro x hx y _ _
          exact hnw x hx
        · apply List.pairwise_of_forall_mem_list
          intro x _ y hy hl
          exact absurd hl (hnl y hy)
        · intro x hx y hy hl
          exact absurd hl (hnl y hy)

end JSL
