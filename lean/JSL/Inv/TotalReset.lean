import JSL.Inv.TotalEnv

/-!
# An environment state that is not done holds an offer

`envStep` raises `InvalidValue` when the result held has no offer.  For an instance of the class
with at least one job this cannot happen while `done = false`:

* after a step, `done = false` means the result is successful and the shop is not finished, so by
  the progress theorem (`envReach_good`) an offer is held;
* after `reset` the result is successful (`smStep_totalT`), and the shop is not finished because no
  operation has been started: with unordered buffers the timed loop never starts a setup on its own
  (`NoStartPass`), a job that lies in an output buffer has all its operations done
  (`RouteInv.delivered`), and every job has an operation.
-/

namespace JSL

variable {orc : Oracle} {inst : Instance}

/-! ## nothing is started without the agent -/

/-- no operation has been started -/
def AllIdle (s : State) : Prop := ∀ j ∈ s.jobs, ∀ o ∈ j.ops, o.st = .idle

theorem AllIdle.machines_idle {s : State} (hS : SchedInv s) (h : AllIdle s) : ∀ m ∈ s.machines, m.st = .idle := by
  intro m hm
  apply Classical.byContradiction
  intro hb
  obtain ⟨j, hj, _, op, hop, _⟩ := hS.busyHolds m hm hb
  obtain ⟨ho, hp⟩ := find?_mem_ops hop
  have := h j hj op ho
  rw [this] at hp
  simp at hp

/-- with unordered buffers an idle machine creates no timed transition -/
theorem timedMachine_flex_idle (hF : FlexInst inst) {m : MachineState} (hst : m.st = .idle) {now : Int} {tr : Transition}
    (h : timedMachine inst now m = .ok (some tr)) : False := by
  unfold timedMachine at h
  have e : (if dueAt m.occ now then machineTimedNext m.st else none) = none := by
    rw [hst]; simp [machineTimedNext]
  rw [e] at h
  simp only [hst, beq_self_eq_true, if_true] at h
  unfold machineSetupTransition at h
  split at h
  · obtain ⟨pc, hpc, h⟩ := except_bind_eq_ok h
    have hty := hF pc (getBufCfg_ok hpc).1
    have : nextJobFromBuffer m.pre pc = none := by
      unfold nextJobFromBuffer
      rw [hty]; rfl
    rw [this] at h
    simp at h
  · simp at h

/-- a timed batch built from a state in which nothing has been started contains no machine start -/
theorem timed_no_start (hF : FlexInst inst) {s : State} (hS : SchedInv s) (hP : AllIdle s) {tt : List Transition}
    (htt : timedTransitions inst s = .ok tt) : ∀ tr ∈ tt, tr.new ≠ .m .setup := by
  unfold timedTransitions at htt
  obtain ⟨a, ha, htt⟩ := except_bind_eq_ok htt
  obtain ⟨b, hb, htt⟩ := except_bind_eq_ok htt
  simp at htt; subst htt
  unfold timedMachineTransitions at ha
  unfold timedTransportTransitions at hb
  cases hra : s.machines.mapM (timedMachine inst s.time) with
  | error e => simp [hra] at ha
  | ok ra =>
    simp [hra] at ha; subst ha
    cases hrb : s.transports.mapM (timedTransport inst s) with
    | error e => simp [hrb] at hb
    | ok rb =>
      simp [hrb] at hb; subst hb
      have hB := timedTransports_spec (inst := inst) hS s.transports (fun t ht => ht) rb hrb
      intro tr htr
      rcases List.mem_append.mp htr with h | h
      · exfalso
        obtain ⟨m, hm, e⟩ := mapM_filterMap_mem hra h
        exact timedMachine_flex_idle hF (hP.machines_idle hS m hm) e
      · obtain ⟨⟨ns, e⟩, _⟩ := hB tr h
        rw [e]; simp

/-- **the pass**: while no batch contains a machine start, no operation is started -/
def NoStartPass (orc : Oracle) (inst : Instance) (cfg : SMConfig) (w : WF inst) (hF : FlexInst inst) :
    Pass orc inst cfg where
  P := AllIdle
  GS := fun _ L => ∀ tr ∈ L, tr.new ≠ .m .setup
  Adm := fun _ a => a.transitions = []
  tail := fun h tr htr => h tr (by simp [htr])
  step := fun {s s' r r' tr R} hI hS hP hv _ _ hgs ha => by
    refine ⟨?_, fun tr' htr' => hgs tr' (by simp [htr'])⟩
    cases hc : tr.comp with
    | b bid =>
      unfold applyTransition at ha
      simp only [hc] at ha
      obtain ⟨_, _, ha⟩ := except_bind_eq_ok ha
      simp at ha
    | m mid =>
      exfalso
      unfold transitionValid at hv
      simp only [hc] at hv
      obtain ⟨m, hm, hv⟩ := except_bind_eq_ok hv
      have hidle := hP.machines_idle hS m (getMachine_ok hm).1
      have hne := hgs tr (by simp)
      unfold machineTransitionValid at hv
      rw [hidle] at hv
      cases hn : tr.new with
      | m ns =>
        rw [hn] at hv hne
        cases ns <;> simp [machineAllowed, machineValid] at hv hne
      | t ns =>
        rw [hn] at hv
        cases ns <;> simp [machineAllowed, machineValidX] at hv
    | t tid =>
      obtain ⟨t0, t', _, _, _, _, heff⟩ := agv_effectR w hI hc ha
      have hjn := hI.shape.jobsNodup w
      have key : ∀ (j : JobState) (l : Nat), j ∈ s.jobs → s'.jobs = (s.replaceJob (j.at l)).jobs → AllIdle s' := by
        intro j l hj e j1 hj1 o ho
        rw [e] at hj1
        rcases (mem_replaceJob hjn hj (JobState.at_id j _) j1).mp hj1 with rfl | ⟨hj1', _⟩
        · exact hP j hj o ho
        · exact hP j1 hj1' o ho
      cases heff with
      | dispatch j cur pick drop _ _ _ _ _ _ _ _ _ hjobs _ => intro j1 hj1; rw [hjobs] at hj1; exact hP j1 hj1
      | keep _ _ _ _ _ hjobs _ => intro j1 hj1; rw [hjobs] at hj1; exact hP j1 hj1
      | pickup j _ _ _ _ _ _ hj _ hjobs _ => exact key j _ hj hjobs
      | deliverM j cur pick ms bss _ _ _ _ _ _ hj _ hjobs _ => exact key j _ hj hjobs
      | deliverB j cur pick b bss _ _ _ _ _ _ hj _ hjobs _ _ => exact key j _ hj hjobs
  advance := fun _ _ hP _ _ => hP
  timed := fun {s tt poss tele r} _ hS hP htt hposs htele => by
    intro tr htr
    rcases List.mem_append.mp htr with h | h
    · exact timed_no_start hF hS hP htt tr h
    · rw [filterTeleport_shape hposs htele tr h]; simp
  timedOnly := fun _ hS hP htt => timed_no_start hF hS hP htt
  action := fun {s a} _ _ _ hadm => by
    rw [hadm, sortedByTransport_nil]; intro _ h; cases h

/-! ## after `reset` the shop is not finished -/

theorem reset_not_doneT {cfg : SMConfig} {fuel : Nat} {s0 : State} (hst : Start orc inst s0) (C : TotClass inst)
    (hJ : inst.jobs ≠ []) {r r' : Rng} {res : SMResult} {mic : List State}
    (h : smStep orc inst cfg fuel s0 r noOpAction = .ok (res, r', mic)) : isDone inst res.state = false := by
  obtain ⟨w, hI0⟩ := initOKB_sound hst.init
  have nn := nonnegB_sound hst.samples hst.nonneg
  have hS0 := restB_sound hst.rest
  have hidle0 : AllIdle s0 := by
    have := hst.rest
    simp only [restB, Bool.and_eq_true, List.all_eq_true, beq_iff_eq] at this
    exact this.1.2
  obtain ⟨t, hidle⟩ := ((NoStartPass orc inst cfg w C.flex).smStep w nn hI0 hS0 hidle0 admissible_noOp rfl h).2.2.1
  have hri := (smStep_resInv hst OccursF.init admissible_noOp (Or.inl rfl) h).1
  have hs := hri.struct.shape
  -- a job of the result
  cases hjobs : res.state.jobs with
  | nil =>
    exfalso
    have := hs.jobIds
    rw [hjobs] at this
    simp at this
    exact hJ this
  | cons j js =>
    have hj : j ∈ res.state.jobs := by rw [hjobs]; simp
    obtain ⟨jc, hjc, hk⟩ := hs.job_cfg hj
    simp only [jKey, jcKey, Prod.mk.injEq] at hk
    cases hops : j.ops with
    | nil =>
      exfalso
      have := hk.2
      rw [hops] at this
      simp at this
      exact C.jobsOps jc hjc this
    | cons o os =>
      have ho : o ∈ j.ops := by rw [hops]; simp
      have hoi : o.st = .idle := hidle j hj o ho
      have hnot : j.loc ∉ outputIds inst := by
        intro hout
        have := hri.full.route.delivered j hj hout o ho
        rw [hoi] at this
        cases this
      unfold isDone
      rw [hjobs]
      simp only [List.all_cons, Bool.and_eq_false_iff]
      left
      simpa using hnot

/-! ## an environment state that is not done is live -/

theorem envReach_liveT {ec : EnvCfg} {st : RewardStatic} {s0 : State} (hst : Start orc inst s0) (C : TotClass inst)
    (h0 : TotP inst s0) (hJ : inst.jobs ≠ []) {e : EnvState} (h : EnvReach orc inst ec st s0 e) (hd : e.done = false) :
    e.res.success = true ∧ isDone inst e.res.state = false := by
  cases h with
  | @reset r e mic hr =>
    unfold envReset mwReset at hr
    obtain ⟨⟨res, mw, r', mic'⟩, h1, hr⟩ := except_bind_eq_ok hr
    obtain ⟨⟨res', r'', mic''⟩, h2, h1⟩ := except_bind_eq_ok h1
    simp at h1 hr
    obtain ⟨rfl, rfl, rfl, rfl⟩ := h1
    obtain ⟨rfl, rfl⟩ := hr
    obtain ⟨w, hI0⟩ := initOKB_sound hst.init
    have nn := nonnegB_sound hst.samples hst.nonneg
    refine ⟨?_, reset_not_doneT hst C hJ h2⟩
    rcases smStep_totalT (orc := orc) (cfg := ec.sm) (fuel := ec.fuel) (r := r) w nn C hI0 (restB_sound hst.rest) h0
      admissible_noOp (Or.inl rfl) with ⟨res2, r2, mic2, hs, hsuc⟩ | herr
    · rw [h2] at hs
      simp only [Except.ok.injEq, Prod.mk.injEq] at hs
      rw [hs.1]; exact hsuc
    · rw [h2] at herr; cases herr
  | @step e0 a out _ hs =>
    unfold envStep at hs
    split at hs
    · simp at hs
    · obtain ⟨⟨res', mw, r, mic⟩, _, hs⟩ := except_bind_eq_ok hs
      simp only at hs
      obtain ⟨⟨rew, cnt⟩, _, hs⟩ := except_bind_eq_ok hs
      simp at hs; subst hs
      by_cases hsuc : res'.success = true
      · simp only [hsuc, if_true] at hd ⊢
        simp only [Bool.or_eq_false_iff] at hd
        exact ⟨trivial, hd.1⟩
      · simp [hsuc] at hd

theorem envReach_has_offer {ec : EnvCfg} {st : RewardStatic} {s0 : State} (hst : Start orc inst s0) (C : TotClass inst)
    (h0 : TotP inst s0) (hJ : inst.jobs ≠ []) {e : EnvState} (h : EnvReach orc inst ec st s0 e) (hd : e.done = false) :
    e.res.possible ≠ [] := by
  have hA : HasAgv inst := by
    cases htr : inst.transports with
    | nil => exact absurd htr C.agvOnly.ne
    | cons tc ts => exact ⟨tc, by rw [htr]; simp, C.agvOnly.agv tc (by rw [htr]; simp)⟩
  obtain ⟨hs, hnd⟩ := envReach_liveT hst C h0 hJ h hd
  exact (envReach_good hst C.flex hA h).offers hs hnd

end JSL
