import JSL.Inv.TotalStep

/-!
# The middleware and the environment step do not raise

`occursF_tot`: the invariants `TotP` hold along every execution the environment produces;
`mwStep_total`, `envStep_total`: in an environment state of an episode that holds an offer, the
actions 0 and 1 are handled – the step returns, or the timed loop runs out of fuel.
-/

namespace JSL

variable {orc : Oracle} {inst : Instance}

/-! ## the initial state -/

theorem JobPlace.of_rest {s : State} (hs : Shape inst s) (hJ : JobsHaveOps inst) (h : restB s = true) : JobPlace inst s := by
  simp only [restB, Bool.and_eq_true, List.all_eq_true, beq_iff_eq, List.isEmpty_iff, Option.isNone_iff_eq_none] at h
  obtain ⟨⟨_, hj⟩, ht⟩ := h
  constructor
  · intro j hjm _
    obtain ⟨jc, hjc, hk⟩ := hs.job_cfg hjm
    simp only [jKey, jcKey, Prod.mk.injEq] at hk
    have hne : j.ops ≠ [] := by
      intro e
      have := hk.2
      rw [e] at this
      simp at this
      exact hJ jc hjc this
    cases hops : j.ops with
    | nil => exact absurd hops hne
    | cons o os =>
      have ho := hj j hjm o (by rw [hops]; simp)
      simp [JobState.noOpIdle, hops, ho]
  · intro t ht' x hx
    rw [(ht t ht').1.1.2] at hx
    cases hx

/-- the further invariants hold in an initial state at rest that is ready, has a record for every
configured outage, all of them inactive -/
theorem TotP.of_start {s0 : State} (hst : Start orc inst s0) (C : TotClass inst) (hR : Ready inst s0)
    (hO : OutShape inst s0) (h0 : outRestB s0 = true) : TotP inst s0 := by
  obtain ⟨_, hI⟩ := initOKB_sound hst.init
  exact ⟨AgvFull.of_rest hst.rest hst.placed, hR, OutageInv.of_rest hst.rest h0, hO, AgvShape.of_rest hst.rest,
    JobPlace.of_rest hI.shape C.jobsOps hst.rest⟩

/-! ## along the executions of the environment -/

theorem occursF_tot {cfg : SMConfig} {s0 σ : State} (hst : Start orc inst s0) (C : TotClass inst) (h0 : TotP inst s0)
    (h : OccursF orc inst cfg s0 σ) : TotP inst σ := by
  obtain ⟨w, _⟩ := initOKB_sound hst.init
  have nn := nonnegB_sound hst.samples hst.nonneg
  induction h with
  | init => exact h0
  | result hprev ha hc hstep hnd ih =>
    obtain ⟨_, hI, hS⟩ := occursA_inv hst hprev.toC.toA
    exact ((TotPass orc inst cfg w nn C).smStep w nn hI hS ih ha hc hstep).2.2.2 hnd
  | sub hprev ha hc hstep hσ ih =>
    obtain ⟨_, hI, hS⟩ := occursA_inv hst hprev.toC.toA
    exact ((TotPass orc inst cfg w nn C).smStep w nn hI hS ih ha hc hstep).2.1 _ hσ
  | micro hprev ha hc hstep hσ ih =>
    obtain ⟨_, hI, hS⟩ := occursA_inv hst hprev.toC.toA
    exact ((TotPass orc inst cfg w nn C).smStep w nn hI hS ih ha hc hstep).1 _ hσ

/-! ## the reward -/

/-- the reward parameters that cannot divide by zero -/
structure RewardOK (rc : RewardCfg) (st : RewardStatic) : Prop where
  numOps : st.numOps ≠ 0
  span : st.tmax - st.lb ≠ 0
  bias : rc.sparseBias ≠ 0

theorem rewardMake_totalT {rc : RewardCfg} {st : RewardStatic} (hrw : RewardOK rc st) (cnt : Nat) (res : SMResult)
    (term trunc : Bool) : ∃ x, rewardMake rc st cnt res term trunc = .ok x := by
  have h1 : ∃ x, sparseReward rc st res.state.time term trunc = .ok x := by
    unfold sparseReward
    cases trunc with
    | true => simp [hrw.bias]
    | false =>
      cases term with
      | false => simp
      | true => simp [hrw.span]
  have h2 : ∃ x, denseReward st cnt res = .ok x := by
    unfold denseReward
    simp [hrw.numOps]
  obtain ⟨x1, e1⟩ := h1
  obtain ⟨⟨d, c⟩, e2⟩ := h2
  unfold rewardMake
  simp only [e1, e2, except_bind_ok, except_pure]
  exact ⟨_, rfl⟩

/-- the environment step returns when the middleware step does, and passes its exception on -/
theorem envStep_of_mwStepT {ec : EnvCfg} {st : RewardStatic} (hrw : RewardOK ec.rw st) {e : EnvState} (hd : e.done = false)
    (a : AgentAct) :
    (∀ out, mwStep orc inst ec.sm ec.mw ec.fuel e.res e.mw e.rng a = .ok out → ∃ o, envStep orc inst ec st e a = .ok o) ∧
    (∀ x, mwStep orc inst ec.sm ec.mw ec.fuel e.res e.mw e.rng a = .error x → envStep orc inst ec st e a = .error x) := by
  constructor
  · rintro ⟨res', mw, r, mic⟩ hm
    unfold envStep
    simp only [hd, Bool.false_eq_true, if_false, hm, except_bind_ok]
    generalize hX : rewardMake ec.rw st e.rwCnt _ _ _ = X
    obtain ⟨⟨rew, cnt⟩, hx⟩ : ∃ x, X = .ok x := by rw [← hX]; exact rewardMake_totalT hrw _ _ _ _
    subst hx
    exact ⟨_, rfl⟩
  · intro x hm
    unfold envStep
    simp only [hd, Bool.false_eq_true, if_false, hm, except_bind_error]

/-! ## the middleware -/

/-- the outcome of a middleware step -/
def MwGood (x : Except Err (SMResult × MwState × Rng × List State)) : Prop :=
  (∃ out, x = .ok out) ∨ x = .error .outOfFuel

theorem mwStep_total {cfg : SMConfig} {mc : MwCfg} {fuel : Nat} {s0 : State} (hst : Start orc inst s0) (C : TotClass inst)
    (h0 : TotP inst s0) {res : SMResult} (hi : ResInv orc inst cfg s0 res) (hne : res.possible ≠ []) (m : MwState) (r : Rng)
    {a : AgentAct} (ha : a = .accept ∨ a = .decline) : MwGood (mwStep orc inst cfg mc fuel res m r a) := by
  have hl := hi.live hne
  have hF := hi.liveF hne
  obtain ⟨w, hI, hS⟩ := occursA_inv hst hl.1
  have nn := nonnegB_sound hst.samples hst.nonneg
  have hP := occursF_tot hst C h0 hF
  obtain ⟨poss, hposs, hsub⟩ := hi.offersFrom hne
  have hA : HasAgv inst := by
    cases htr : inst.transports with
    | nil => exact absurd htr C.agvOnly.ne
    | cons tc ts => exact ⟨tc, by rw [htr]; simp, C.agvOnly.agv tc (by rw [htr]; simp)⟩
  cases hp : res.possible with
  | nil => exact absurd hp hne
  | cons tr rest =>
    have htr : tr ∈ res.possible := by rw [hp]; simp
    rcases ha with rfl | rfl
    · -- accept
      have hadm : Admissible { transitions := [tr], noOp := false, tm := .jumpToEvent } :=
        ⟨fun x hx => by simp at hx; subst hx; exact hl.2 x htr, by simp⟩
      have hoff : AdmOffer inst cfg res.state { transitions := [tr], noOp := false, tm := .jumpToEvent } :=
        Or.inr ⟨poss, hposs, tr, hsub tr htr, rfl⟩
      unfold mwStep interpret
      simp only [hp, except_pure, except_bind_ok, Bool.false_eq_true, if_false]
      rcases smStep_totalT (orc := orc) (fuel := fuel) (r := r) w nn C hI hS hP hadm hoff with ⟨res', r', mic, hs, _⟩ | herr
      · left; simp only [hs, except_bind_ok]; exact ⟨_, rfl⟩
      · right; simp only [herr, except_bind_error]
    · -- decline
      unfold mwStep interpret
      simp only [hp, except_pure, except_bind_ok, noOpAction, if_true]
      unfold noOpResult
      simp only [hp]
      cases rest with
      | cons o' rest' => left; exact ⟨_, rfl⟩
      | nil =>
        have hadm : Admissible { transitions := [], noOp := true, tm := .forceJump } :=
          ⟨fun x hx => by simp at hx, by simp⟩
        have hoff : AdmOffer inst cfg res.state { transitions := [], noOp := true, tm := .forceJump } := Or.inl rfl
        simp only
        rcases smStep_totalT (orc := orc) (fuel := fuel) (r := r) w nn C hI hS hP hadm hoff with ⟨res', r', mic, hs, hsuc⟩ | herr
        · left
          simp only [hs, except_bind_ok]
          have hg := (smStep_good hst C.flex hA hF hadm hoff hs).2 hsuc
          by_cases hemp : res'.possible = []
          · have hdone : isDone inst res'.state = true := by
              cases hdn : isDone inst res'.state with
              | true => rfl
              | false => exact absurd hemp (hg hdn)
            simp [hemp, hdone]
          · have : res'.possible.isEmpty = false := by simpa using hemp
            simp only [this, Bool.false_eq_true, if_false]
            exact ⟨_, rfl⟩
        · right; simp only [herr, except_bind_error]

/-- **`env.step` handles the actions 0 and 1** in every state of every episode that holds an offer -/
theorem envStep_total {ec : EnvCfg} {st : RewardStatic} {s0 : State} (hst : Start orc inst s0) (C : TotClass inst)
    (h0 : TotP inst s0) (hrw : RewardOK ec.rw st) {e : EnvState} (h : EnvReach orc inst ec st s0 e) (hd : e.done = false)
    (hne : e.res.possible ≠ []) {a : AgentAct} (ha : a = .accept ∨ a = .decline) :
    (∃ out, envStep orc inst ec st e a = .ok out) ∨ envStep orc inst ec st e a = .error .outOfFuel := by
  have hm := mwStep_total (mc := ec.mw) (fuel := ec.fuel) hst C h0 (envReach_inv hst h) hne e.mw e.rng ha
  have he := envStep_of_mwStepT (orc := orc) (inst := inst) hrw hd a
  rcases hm with ⟨out, ho⟩ | herr
  · exact Or.inl (he.1 out ho)
  · exact Or.inr (he.2 _ herr)

end JSL
