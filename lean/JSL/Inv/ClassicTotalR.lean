import JSL.Inv.ClassicTotal
import JSL.Inv.ClassicTotalDefsR

/-!
# The totality plumbing with re-waits: `state.step` returns

The lemmas of `JSL.Inv.ClassicTotal` (`process_total`, `loop_total`, `smStep_total`) for the weaker
interface `TotalHypR ps μ B Q RW`: a transition `tr` with `RW s tr` (a "re-wait") need not lower the
measure `μ`, it only must not raise it; every non-empty purely timed batch contains a transition that
is not a re-wait, so each round of the `while timed_transitions` loop still lowers `μ` by at least 1.
The environment-level lemmas of `JSL.Inv.ClassicTotal` do not mention `TotalHyp` and are reused as
they are.
-/

namespace JSL

variable {orc : Oracle} {inst : Instance} {cfg : SMConfig}

/-- **`process_state_transitions` returns** on a guarded batch without machine starts: no validation
error, the invariants and `Q` hold afterwards, the clock is untouched, and when the batch has no
dispatch the measure did not go up – and went down when some member of the batch is not a re-wait. -/
theorem process_totalR (ps : Pass orc inst cfg) {μ : State → Nat} {B : Nat} {Q : State → Prop}
    {RW : State → Transition → Prop} (hT : TotalHypR ps μ B Q RW) (w : WF inst) (nn : NonNeg orc inst) :
    ∀ (L : List Transition) (s : State) (r : Rng), StructInv inst s → SchedInv s → ps.P s → Safe s L → Fresh L →
      ps.GS s L → (∀ tr ∈ L, tr.new ≠ .m .setup) → Q s →
      ∃ o, processTransitions orc inst L s r = .ok o ∧ o.nerr = 0 ∧ StructInv inst o.state ∧ SchedInv o.state ∧
        ps.P o.state ∧ Q o.state ∧ o.state.time = s.time ∧
        ((∀ tr ∈ L, tr.new ≠ .t .working) → μ o.state ≤ μ s ∧ ((∃ tr ∈ L, ¬ RW s tr) → μ o.state + 1 ≤ μ s)) := by
  intro L
  induction L with
  | nil =>
    intro s r hI hS hP _ _ _ _ hQ
    exact ⟨⟨s, r, 0, []⟩, by simp [processTransitions], rfl, hI, hS, hP, hQ, rfl,
      fun _ => ⟨Nat.le_refl _, fun ⟨_, h, _⟩ => by simp at h⟩⟩
  | cons tr L ih =>
    intro s r hI hS hP hsafe hfresh hgs hns hQ
    have hne : tr.new ≠ .m .setup := hns tr (by simp)
    obtain ⟨hv, s1, r1, ha⟩ := hT.apply r hI hS hP hgs hne
    have hI1 := applyTransition_struct w hI hv ha
    have hS1 := applyTransition_sched w nn hI hS hv hsafe.guard ha
    have hfr := applyTransition_frame w hI hS hsafe.guard ha
    have hP1 := ps.step hI hS hP hv hsafe hfresh hgs ha
    have hQ1 := hT.q_step hI hS hP hgs hne ha hQ
    obtain ⟨o1, ho1, hn1, hIo, hSo, hPo, hQo, hto, hμo⟩ :=
      ih s1 r1 hI1 hS1 hP1.1 (hsafe.step hfresh hfr) (List.pairwise_cons.mp hfresh).2 hP1.2
        (fun t ht => hns t (by simp [ht])) hQ1
    refine ⟨{ o1 with micro := s1 :: o1.micro }, ?_, hn1, hIo, hSo, hPo, hQo, ?_, ?_⟩
    · simp only [processTransitions, hv, ha, ho1, except_bind_ok, except_pure, if_true]
    · show o1.state.time = s.time
      rw [hto, applyTransition_time ha]
    · intro hnd
      have hnd0 : tr.new ≠ .t .working := hnd tr (by simp)
      have h1 := hT.μ_mono hI hS hP hgs hne hnd0 ha
      have h2 := hμo (fun t ht => hnd t (by simp [ht]))
      show μ o1.state ≤ μ s ∧ ((∃ t ∈ tr :: L, ¬ RW s t) → μ o1.state + 1 ≤ μ s)
      refine ⟨Nat.le_trans h2.1 h1, ?_⟩
      intro ⟨b, hb, hnb⟩
      by_cases hrw : RW s tr
      · -- the head is a re-wait: the witness is in the tail and is still not a re-wait afterwards
        have hbL : b ∈ L := by
          rcases List.mem_cons.mp hb with e | h
          · subst e; exact absurd hrw hnb
          · exact h
        have hnb1 : ¬ RW s1 b := fun h => hnb (hT.rw_keep hI hS hP hgs hrw ha b hbL h)
        have := h2.2 ⟨b, hbL, hnb1⟩
        omega
      · have := hT.μ_step hI hS hP hgs hne hnd0 hrw ha
        omega

/-- `jump_to_event` returns in a state satisfying the invariants, and `Q` survives the jump -/
theorem jumpToEvent_totalR (ps : Pass orc inst cfg) {μ : State → Nat} {B : Nat} {Q : State → Prop}
    {RW : State → Transition → Prop} (hT : TotalHypR ps μ B Q RW) {s : State} (hI : StructInv inst s)
    (hS : SchedInv s) (hP : ps.P s) (hQ : Q s) :
    ∃ t, jumpToEvent inst cfg s = .ok t ∧ Q { s with time := t } := by
  obtain ⟨n, hn⟩ := hT.count hI hS hP
  cases n with
  | succ k =>
    exact ⟨s.time, by unfold jumpToEvent; simp [hn], hQ⟩
  | zero =>
    obtain ⟨t, ht⟩ := hT.force hI hS hP
    exact ⟨t, by unfold jumpToEvent; simp [hn, ht], hT.q_jump hI hS hP hQ hn ht⟩

/-- **The `while timed_transitions` loop returns** without failure.  The batch `tt` is guarded and
contains no machine start; either it contains no dispatch, contains (when non-empty) a transition that
is not a re-wait, and the fuel exceeds the measure of the current state, or the fuel is at least
`B + 2` (the first batch of `state.step`, which may contain teleport dispatches). -/
theorem loop_totalR (ps : Pass orc inst cfg) {μ : State → Nat} {B : Nat} {Q : State → Prop}
    {RW : State → Transition → Prop} (hT : TotalHypR ps μ B Q RW) (w : WF inst) (nn : NonNeg orc inst) :
    ∀ (fuel : Nat) (tt : List Transition) (s : State) (r : Rng) (subs mic : List State),
      StructInv inst s → SchedInv s → ps.P s → Q s → Safe s tt → Fresh tt → ps.GS s tt →
      (∀ tr ∈ tt, tr.new ≠ .m .setup) →
      ((∀ tr ∈ tt, tr.new ≠ .t .working) ∧ (tt ≠ [] → ∃ tr ∈ tt, ¬ RW s tr) ∧ μ s < fuel ∨ B + 2 ≤ fuel) →
      ∃ out, timedLoop orc inst cfg fuel tt s r subs mic = .ok out ∧ out.failed = false ∧
        StructInv inst out.state ∧ SchedInv out.state ∧ ps.P out.state ∧ Q out.state ∧ s.time ≤ out.state.time := by
  intro fuel
  induction fuel with
  | zero =>
    intro tt s r subs mic hI hS hP hQ _ _ _ _ hfuel
    cases tt with
    | nil => exact ⟨⟨s, r, subs, false, mic⟩, by simp [timedLoop], rfl, hI, hS, hP, hQ, Int.le_refl _⟩
    | cons a as => omega
  | succ n ih =>
    intro tt s r subs mic hI hS hP hQ hsafe hfresh hgs hns hfuel
    cases tt with
    | nil => exact ⟨⟨s, r, subs, false, mic⟩, by simp [timedLoop], rfl, hI, hS, hP, hQ, Int.le_refl _⟩
    | cons a as =>
      obtain ⟨o, ho, hn0, hIo, hSo, hPo, hQo, hto, hμo⟩ :=
        process_totalR ps hT w nn (a :: as) s r hI hS hP hsafe hfresh hgs hns hQ
      obtain ⟨t, ht, hQt⟩ := jumpToEvent_totalR ps hT hIo hSo hPo hQo
      have hadv := jumpToEvent_spec hSo ht
      have hS' := hSo.advance hadv.1 hadv.2
      have hI' := hIo.time t
      have hP' := ps.advance hIo hSo hPo hadv.1 hadv.2
      obtain ⟨tt', htt'⟩ := hT.timed hI' hS' hP'
      have hsf := timed_batch_safe w (tele := []) hI' hS' htt' (by simp)
      simp only [List.append_nil] at hsf
      have hμ' : μ { o.state with time := t } < n := by
        rw [hT.μ_time]
        rcases hfuel with ⟨hnd, hw, hlt⟩ | hB
        · have := (hμo hnd).2 (hw (by simp))
          omega
        · have := hT.μ_le (s := o.state) hIo
          omega
      obtain ⟨out, hout, hf, hIout, hSout, hPout, hQout, htout⟩ :=
        ih tt' { o.state with time := t } o.rng (subs ++ [{ o.state with time := t }]) (mic ++ o.micro)
          hI' hS' hP' hQt hsf.1 hsf.2 (ps.timedOnly hI' hS' hP' htt') (hT.noStartTimed hI' hS' htt')
          (Or.inl ⟨hT.noDispatchTimed hS' htt', hT.rw_timed hI' hS' hP' htt', hμ'⟩)
      refine ⟨out, ?_, hf, hIout, hSout, hPout, hQout, ?_⟩
      · simp only [timedLoop, ho, except_bind_ok, hn0, Nat.lt_irrefl, ht, htt']
        simpa using hout
      · have : s.time ≤ t := by rw [← hto]; exact hadv.1
        exact Int.le_trans this htout

/-- the loop on the purely timed batch of the current state, with fuel exceeding the measure -/
theorem loop_totalR_timed (ps : Pass orc inst cfg) {μ : State → Nat} {B : Nat} {Q : State → Prop}
    {RW : State → Transition → Prop} (hT : TotalHypR ps μ B Q RW) (w : WF inst) (nn : NonNeg orc inst)
    (fuel : Nat) (tt : List Transition) (s : State) (r : Rng) (subs mic : List State)
    (hI : StructInv inst s) (hS : SchedInv s) (hP : ps.P s) (hQ : Q s)
    (htt : timedTransitions inst s = .ok tt) (hfuel : μ s < fuel) :
    ∃ out, timedLoop orc inst cfg fuel tt s r subs mic = .ok out ∧ out.failed = false ∧
      StructInv inst out.state ∧ SchedInv out.state ∧ ps.P out.state ∧ Q out.state ∧ s.time ≤ out.state.time := by
  have hsf := timed_batch_safe w (tele := []) hI hS htt (by simp)
  simp only [List.append_nil] at hsf
  exact loop_totalR ps hT w nn fuel tt s r subs mic hI hS hP hQ hsf.1 hsf.2 (ps.timedOnly hI hS hP htt)
    (hT.noStartTimed hI hS htt) (Or.inl ⟨hT.noDispatchTimed hS htt, hT.rw_timed hI hS hP htt, hfuel⟩)

/-- **`state.step` returns, successfully.**  From a state satisfying the invariants, with an
admissible action that is empty or a single applicable transition, and fuel `≥ B + 2`. -/
theorem smStep_totalR (ps : Pass orc inst cfg) {μ : State → Nat} {B : Nat} {Q : State → Prop}
    {RW : State → Transition → Prop} (hT : TotalHypR ps μ B Q RW) (w : WF inst) (nn : NonNeg orc inst)
    {fuel : Nat} {s0 : State} {r : Rng} {a : Action} (hI : StructInv inst s0) (hS : SchedInv s0) (hP : ps.P s0)
    (ha : Admissible a) (hadm : ps.Adm s0 a) (hfuel : B + 2 ≤ fuel)
    -- the action is empty, or a single transition that passes validation and applies
    (hact : a.transitions = [] ∨ ∃ tr, a.transitions = [tr] ∧ transitionValid s0 tr = .ok true ∧
        ∃ s' r', applyTransition orc inst s0 r tr = .ok (s', r'))
    -- `Q` right after the action (the caller's business: this is where a machine start may happen)
    (hQa : a.tm = .jumpToEvent → ∀ p, processTransitions orc inst (sortedByTransport a.transitions) s0 r = .ok p →
        Q p.state)
    (hQb : a.tm = .forceJump → ∀ p t, processTransitions orc inst (sortedByTransport a.transitions) s0 r = .ok p →
        forceJump p.state = .ok t → Q { p.state with time := t }) :
    ∃ res r' mic, smStep orc inst cfg fuel s0 r a = .ok (res, r', mic) ∧ res.success = true ∧
      (∃ t, Q { res.state with time := t }) ∧ (res.done = false → Q res.state) ∧
      StructInv inst res.state ∧ (res.done = false → SchedInv res.state ∧ ps.P res.state) := by
  obtain ⟨p, hp, hn0⟩ := action_batch_total (orc := orc) (inst := inst) hact
  have hsf := offerShaped_safe (s := s0) (L := sortedByTransport a.transitions)
    (fun tr htr => ha.shaped tr (mem_sortedByTransport htr))
  have hp' := processTransitions_sched w nn _ _ _ _ hI hS hsf.1 hsf.2 hp
  have hpI := processTransitions_struct w _ _ _ _ hI hp
  have hpP := ps.process w nn _ _ _ _ hI hS hP hsf.1 hsf.2 (ps.action hI hS hP hadm) hp
  -- the time machine
  have htm : ∃ t, runTimeMachine inst cfg p.state a.tm = .ok t ∧ Q { p.state with time := t } := by
    cases htmk : a.tm with
    | jumpByOne => exact absurd htmk ha.tm
    | jumpToEvent =>
      obtain ⟨t, ht, hQt⟩ := jumpToEvent_totalR ps hT hpI.1 hp'.1 hpP.1 (hQa htmk p hp)
      exact ⟨t, by simpa [runTimeMachine] using ht, hQt⟩
    | forceJump =>
      obtain ⟨t, ht⟩ := hT.force hpI.1 hp'.1 hpP.1
      exact ⟨t, by simpa [runTimeMachine] using ht, hQb htmk p t hp ht⟩
  obtain ⟨t, ht, hQ1⟩ := htm
  have hadv := runTimeMachine_spec hp'.1 ha.tm ht
  have hS1 := hp'.1.advance hadv.1 hadv.2
  have hI1 := hpI.1.time t
  have hP1 := ps.advance hpI.1 hp'.1 hpP.1 hadv.1 hadv.2
  obtain ⟨timed, htimed⟩ := hT.timed hI1 hS1 hP1
  obtain ⟨poss, hposs⟩ := hT.poss hI1 hS1 hP1
  obtain ⟨tele, htele⟩ := hT.tele p.rng hI1 hS1 hP1 hposs
  have hbatch := timed_batch_safe w hI1 hS1 htimed (filterTeleport_shape hposs htele)
  have hns : ∀ tr ∈ timed ++ tele, tr.new ≠ .m .setup := by
    intro tr htr
    rcases List.mem_append.mp htr with h | h
    · exact hT.noStartTimed hI1 hS1 htimed tr h
    · exact hT.noStartTele hposs htele tr h
  obtain ⟨out, hout, hf, hIo, hSo, hPo, hQo, _⟩ :=
    loop_totalR ps hT w nn fuel (timed ++ tele) { p.state with time := t } p.rng [p.state] p.micro
      hI1 hS1 hP1 hQ1 hbatch.1 hbatch.2 (ps.timed hI1 hS1 hP1 htimed hposs htele) hns (Or.inr hfuel)
  cases hd : isDone inst out.state with
  | true =>
    obtain ⟨e, he⟩ := hT.lastDone hSo
    refine ⟨{ state := (match e with | some e => { out.state with time := e } | none => out.state),
              subStates := out.subs.dropLast, action := a, success := true, done := true, possible := [] },
            out.rng, out.micro, ?_, rfl, ⟨out.state.time, ?_⟩, by simp, ?_, by simp⟩
    · simp only [smStep, hp, except_bind_ok, hn0, Nat.lt_irrefl, ht, htimed, hposs, htele, hout, hf, hd, he]
      simp
      cases e <;> rfl
    · cases e <;> exact hQo
    · cases e with
      | none => exact hIo
      | some e => exact hIo.time e
  | false =>
    obtain ⟨poss', hposs'⟩ := hT.poss hIo hSo hPo
    refine ⟨{ state := out.state, subStates := out.subs.dropLast, action := a, success := true, done := false,
              possible := poss' }, out.rng, out.micro, ?_, rfl, ⟨out.state.time, hQo⟩, fun _ => hQo, hIo,
            fun _ => ⟨hSo, hPo⟩⟩
    simp only [smStep, hp, except_bind_ok, hn0, Nat.lt_irrefl, ht, htimed, hposs, htele, hout, hf, hd, hposs']
    simp

end JSL
