import JSL.Inv.ShiftLoop

/-!
# Translation invariance of simulated time

For an instance on which no outage is configured (`NoOutages inst`), running the state machine, the
middleware, `reset`, or a whole run from the state `shiftState δ s` – the state `s` with `δ` added to
the clock and to every recorded timestamp – gives exactly the shifted outcome: every state in the
result (final state, intermediate states, post-states of the applied transitions) is the shifted
one, and the action, the success and done flags, the offers, the middleware bookkeeping, the update
counters of the stochastic objects and the raised error (if any) are the same.

The chain of lemmas is in `ShiftDefs` (definitions, lookups), `ShiftMachine` and `ShiftTransport`
(the handlers, `applyTransition`), `ShiftTimed` (timed transitions), `ShiftOffers` (offers),
`ShiftClock` (time machines, validation) and `ShiftLoop` (`processTransitions`, teleport filter,
`timedLoop`).

Assumptions: only `NoOutages inst`.  The outage records of machines and transports are left as they
are by `shiftState`; with no outage configured `get_new_outage_states` returns the empty list at
every call, whatever the records.  With outages configured the statement is false: a record that was
never active counts its idle time from the absolute time 0 (`outageSince`).  `env.step` is not
covered: the sparse reward at termination reads the absolute clock.
-/

namespace JSL
variable (δ : Int) {inst : Instance}

theorem dropLast_map_shift {α} (f : α → α) : ∀ l : List α, (l.map f).dropLast = l.dropLast.map f
  | [] => rfl
  | [_] => rfl
  | a :: b :: l => by
    simp only [List.map_cons, List.dropLast_cons_cons]
    rw [← List.map_cons, dropLast_map_shift f (b :: l)]

@[simp] theorem shiftProcOut_nerr (o : ProcOut) : (shiftProcOut δ o).nerr = o.nerr := rfl
@[simp] theorem shiftProcOut_state (o : ProcOut) : (shiftProcOut δ o).state = shiftState δ o.state := rfl
@[simp] theorem shiftProcOut_rng (o : ProcOut) : (shiftProcOut δ o).rng = o.rng := rfl
@[simp] theorem shiftProcOut_micro (o : ProcOut) : (shiftProcOut δ o).micro = o.micro.map (shiftState δ) := rfl
@[simp] theorem shiftLoopOut_state (o : LoopOut) : (shiftLoopOut δ o).state = shiftState δ o.state := rfl
@[simp] theorem shiftLoopOut_rng (o : LoopOut) : (shiftLoopOut δ o).rng = o.rng := rfl
@[simp] theorem shiftLoopOut_failed (o : LoopOut) : (shiftLoopOut δ o).failed = o.failed := rfl
@[simp] theorem shiftLoopOut_subs (o : LoopOut) : (shiftLoopOut δ o).subs = o.subs.map (shiftState δ) := rfl
@[simp] theorem shiftLoopOut_micro (o : LoopOut) : (shiftLoopOut δ o).micro = o.micro.map (shiftState δ) := rfl

/-- `state.step`: starting from the shifted state gives the shifted result -/
theorem smStep_shift (hno : NoOutages inst) (orc : Oracle) (cfg : SMConfig) (fuel : Nat) (s : State) (r : Rng)
    (a : Action) :
    smStep orc inst cfg fuel (shiftState δ s) r a =
      (smStep orc inst cfg fuel s r a).map
        (fun p => (shiftResult δ p.1, p.2.1, p.2.2.map (shiftState δ))) := by
  unfold smStep
  rw [processTransitions_shift δ hno]
  ecase processTransitions orc inst (sortedByTransport a.transitions) s r with p
  simp only [shiftProcOut_nerr, shiftProcOut_state, shiftProcOut_rng, shiftProcOut_micro]
  isplit
  rw [runTimeMachine_shift]
  ecase runTimeMachine inst cfg p.state a.tm with t
  rw [shiftState_setTime, timedTransitions_shift]
  ecase timedTransitions inst { p.state with time := t } with timed
  rw [possibleTransitions_shift]
  ecase possibleTransitions inst cfg { p.state with time := t } with poss
  rw [filterTeleport_shift]
  ecase filterTeleport orc inst p.rng { p.state with time := t } poss with tele
  have hl := timedLoop_shift δ hno orc cfg fuel (timed ++ tele) { p.state with time := t } p.rng [p.state] p.micro
  simp only [List.map_cons, List.map_nil] at hl
  rw [hl]
  ecase timedLoop orc inst cfg fuel (timed ++ tele) { p.state with time := t } p.rng [p.state] p.micro with out
  simp only [shiftLoopOut_state, shiftLoopOut_rng, shiftLoopOut_failed, shiftLoopOut_subs, shiftLoopOut_micro,
    isDone_shift]
  isplit
  isplit
  · rw [lastDoneEnd_shift]
    ecase lastDoneEnd out.state with x
    cases x with
    | none => simp only [Option.map_none, except_pure, except_map'_ok, shiftResult, dropLast_map_shift]
    | some e =>
      simp only [Option.map_some, except_pure, except_map'_ok, shiftResult, dropLast_map_shift,
        shiftState_setTime]
  · rw [possibleTransitions_shift]
    ecase possibleTransitions inst cfg out.state with poss2
    simp only [except_pure, except_map'_ok, shiftResult, dropLast_map_shift]

@[simp] theorem shiftResult_state (res : SMResult) : (shiftResult δ res).state = shiftState δ res.state := rfl
@[simp] theorem shiftResult_subStates (res : SMResult) :
    (shiftResult δ res).subStates = res.subStates.map (shiftState δ) := rfl
@[simp] theorem shiftResult_possible (res : SMResult) : (shiftResult δ res).possible = res.possible := rfl
@[simp] theorem shiftResult_action (res : SMResult) : (shiftResult δ res).action = res.action := rfl
@[simp] theorem shiftResult_success (res : SMResult) : (shiftResult δ res).success = res.success := rfl
@[simp] theorem shiftResult_done (res : SMResult) : (shiftResult δ res).done = res.done := rfl

/-- what the middleware returns, shifted: result, bookkeeping, counters, ghost trace -/
def shiftMw (δ : Int) (p : SMResult × MwState × Rng × List State) : SMResult × MwState × Rng × List State :=
  (shiftResult δ p.1, p.2.1, p.2.2.1, p.2.2.2.map (shiftState δ))

theorem interpret_shift (res : SMResult) (a : AgentAct) : interpret (shiftResult δ res) a = interpret res a := rfl

/-- `middleware.reset` -/
theorem mwReset_shift (hno : NoOutages inst) (orc : Oracle) (cfg : SMConfig) (mc : MwCfg) (fuel : Nat) (s : State)
    (r : Rng) :
    mwReset orc inst cfg mc fuel (shiftState δ s) r = (mwReset orc inst cfg mc fuel s r).map (shiftMw δ) := by
  unfold mwReset
  rw [smStep_shift δ hno]
  ecase smStep orc inst cfg fuel s r noOpAction with q
  try rfl

theorem noOpResult_shift (hno : NoOutages inst) (orc : Oracle) (cfg : SMConfig) (mc : MwCfg) (fuel : Nat)
    (res : SMResult) (m : MwState) (r : Rng) (a : Action) :
    noOpResult orc inst cfg mc fuel (shiftResult δ res) m r a =
      (noOpResult orc inst cfg mc fuel res m r a).map (shiftMw δ) := by
  unfold noOpResult
  simp only [shiftResult_possible, shiftResult_state, shiftResult_subStates]
  split
  · rfl
  · rw [smStep_shift δ hno]
    ecase smStep orc inst cfg fuel res.state r { a with tm := .forceJump } with q
    simp only [shiftResult_possible, shiftResult_state, isDone_shift]
    isplit
    isplit
  · rfl

/-- `middleware.step` -/
theorem mwStep_shift (hno : NoOutages inst) (orc : Oracle) (cfg : SMConfig) (mc : MwCfg) (fuel : Nat)
    (res : SMResult) (m : MwState) (r : Rng) (a : AgentAct) :
    mwStep orc inst cfg mc fuel (shiftResult δ res) m r a =
      (mwStep orc inst cfg mc fuel res m r a).map (shiftMw δ) := by
  unfold mwStep
  rw [interpret_shift]
  ecase interpret res a with act
  split
  · exact noOpResult_shift δ hno orc cfg mc fuel res _ r act
  · simp only [shiftResult_state]
    rw [smStep_shift δ hno]
    ecase smStep orc inst cfg fuel res.state r act with q
    try rfl

/-- `env.reset` (no reward is computed there) -/
theorem envReset_shift (hno : NoOutages inst) (orc : Oracle) (ec : EnvCfg) (s : State) (r : Rng) :
    envReset orc inst ec (shiftState δ s) r =
      (envReset orc inst ec s r).map
        (fun p => ({ p.1 with res := shiftResult δ p.1.res }, p.2.map (shiftState δ))) := by
  unfold envReset
  rw [mwReset_shift δ hno]
  ecase mwReset orc inst ec.sm ec.mw ec.fuel s r with q
  try rfl

/-! ## whole runs through the middleware -/

/-- a run through the middleware from a result on: every agent action gives the new result, the
bookkeeping and the ghost trace, or the error it raises (which leaves the run where it was) -/
def mwRunFrom (orc : Oracle) (inst : Instance) (cfg : SMConfig) (mc : MwCfg) (fuel : Nat) :
    SMResult → MwState → Rng → List AgentAct → List (Except Err (SMResult × MwState × List State))
  | _, _, _, [] => []
  | res, m, r, a :: as =>
    match mwStep orc inst cfg mc fuel res m r a with
    | .error e => .error e :: mwRunFrom orc inst cfg mc fuel res m r as
    | .ok q => .ok (q.1, q.2.1, q.2.2.2) :: mwRunFrom orc inst cfg mc fuel q.1 q.2.1 q.2.2.1 as

/-- `middleware.reset`, then the actions -/
def mwRun (orc : Oracle) (inst : Instance) (cfg : SMConfig) (mc : MwCfg) (fuel : Nat) (s0 : State) (r : Rng)
    (as : List AgentAct) :
    Except Err ((SMResult × List State) × List (Except Err (SMResult × MwState × List State))) :=
  (mwReset orc inst cfg mc fuel s0 r).map fun p =>
    ((p.1, p.2.2.2), mwRunFrom orc inst cfg mc fuel p.1 p.2.1 p.2.2.1 as)

/-- one entry of a run, shifted -/
def shiftEntry (δ : Int) (p : SMResult × MwState × List State) : SMResult × MwState × List State :=
  (shiftResult δ p.1, p.2.1, p.2.2.map (shiftState δ))

theorem mwRunFrom_shift (hno : NoOutages inst) (orc : Oracle) (cfg : SMConfig) (mc : MwCfg) (fuel : Nat) :
    ∀ (as : List AgentAct) (res : SMResult) (m : MwState) (r : Rng),
      mwRunFrom orc inst cfg mc fuel (shiftResult δ res) m r as =
        (mwRunFrom orc inst cfg mc fuel res m r as).map (Except.map (shiftEntry δ))
  | [], _, _, _ => rfl
  | a :: as, res, m, r => by
    unfold mwRunFrom
    rw [mwStep_shift δ hno]
    cases mwStep orc inst cfg mc fuel res m r a with
    | error e =>
      simp only [except_map'_error, List.map_cons]
      rw [mwRunFrom_shift hno orc cfg mc fuel as res m r]
    | ok q =>
      simp only [except_map'_ok, List.map_cons]
      have := mwRunFrom_shift hno orc cfg mc fuel as q.1 q.2.1 q.2.2.1
      simp only [shiftMw]
      rw [this]
      rfl

/-- **Translation invariance of a whole run**: for an instance without outages, starting the run
from the initial state with every timestamp moved by `δ` gives, for every sequence of agent actions,
the same run with every timestamp of every result, intermediate state and applied-transition state
moved by `δ`; actions, success and done flags, offers, middleware bookkeeping, update counters and
raised errors are the same. -/
theorem mwRun_shift (hno : NoOutages inst) (orc : Oracle) (cfg : SMConfig) (mc : MwCfg) (fuel : Nat) (s0 : State)
    (r : Rng) (as : List AgentAct) :
    mwRun orc inst cfg mc fuel (shiftState δ s0) r as =
      (mwRun orc inst cfg mc fuel s0 r as).map
        (fun p => ((shiftResult δ p.1.1, p.1.2.map (shiftState δ)), p.2.map (Except.map (shiftEntry δ)))) := by
  unfold mwRun
  rw [mwReset_shift δ hno]
  cases mwReset orc inst cfg mc fuel s0 r with
  | error e => rfl
  | ok q =>
    simp only [except_map'_ok, shiftMw]
    rw [mwRunFrom_shift δ hno]

/-! ## shifting by zero is the identity -/

theorem shiftState_zero (s : State) : shiftState 0 s = s := by
  have hop : ∀ o : OpState, shiftOp 0 o = o := by
    intro o; cases o with
    | mk job idx start stop machine st =>
      cases start <;> cases stop <;> simp [shiftOp]
  have hj : ∀ j : JobState, shiftJob 0 j = j := by
    intro j; cases j with
    | mk jid ops loc =>
      simp only [shiftJob]
      congr 1
      have : shiftOp 0 = id := funext hop
      rw [this, List.map_id]
  have hm : ∀ m : MachineState, shiftMachine 0 m = m := by
    intro m; cases m with
    | mk mid buffer occ pre post st tool outages => cases occ <;> simp [shiftMachine]
  have ht : ∀ t : TransportState, shiftTransport 0 t = t := by
    intro t; cases t with
    | mk st tid occ buffer loc outages job => cases occ <;> simp [shiftTransport, shiftOcc]
  cases s with
  | mk jobs time machines transports buffers =>
    have e1 : shiftJob 0 = id := funext hj
    have e2 : shiftMachine 0 = id := funext hm
    have e3 : shiftTransport 0 = id := funext ht
    simp only [shiftState, e1, e2, e3, List.map_id, Int.add_zero]
end JSL
