import JSL.Inv.Store

/-!
# Handler specifications

For every handler: what a successful application did, as an explicit description of the new
state.  Obtained by unfolding the model once; all invariant proofs start from these.
-/

namespace JSL

variable {orc : Oracle} {inst : Instance}

/-- the operation record written when setup / processing starts -/
def opRec (oc : OpCfg) (a b : Int) (mid : Nat) : OpState :=
  { job := oc.job, idx := oc.idx, start := some a, stop := some b, machine := mid, st := .processing }
/-- buffer without job `j` -/
def BufState.without (b : BufState) (j : Nat) (bss : BSS) : BufState :=
  { b with store := b.store.filter (· != j), bss := bss }
/-- buffer with job `j` appended at the back -/
def BufState.withBack (b : BufState) (j : Nat) (bss : BSS) : BufState :=
  { b with store := b.store ++ [j], bss := bss }
/-- job relocated -/
def JobState.at (j : JobState) (l : Nat) : JobState := { j with loc := l }

def MachineState.toSetup (m : MachineState) (j : Nat) (b1 b2 : BSS) (t : Int) (tool : Nat) : MachineState :=
  { m with pre := m.pre.without j b1, buffer := m.buffer.withBack j b2, st := .setup, occ := some t, tool := tool }
def MachineState.toWorking (m : MachineState) (t : Int) : MachineState := { m with st := .working, occ := some t }
def MachineState.toOutage (m : MachineState) (outs : List OutageState) (t : Int) : MachineState :=
  { m with st := .outage, outages := outs, occ := some t }
def MachineState.toIdle (m : MachineState) (j : Nat) (b1 b2 : BSS) : MachineState :=
  { m with buffer := m.buffer.without j b1, post := m.post.withBack j b2, st := .idle,
           outages := m.outages.map releaseOutage }

@[simp] theorem BufState.without_id (b : BufState) (j : Nat) (x : BSS) : (b.without j x).id = b.id := rfl
@[simp] theorem BufState.withBack_id (b : BufState) (j : Nat) (x : BSS) : (b.withBack j x).id = b.id := rfl
@[simp] theorem BufState.without_store (b : BufState) (j : Nat) (x : BSS) :
    (b.without j x).store = b.store.filter (· != j) := rfl
@[simp] theorem BufState.withBack_store (b : BufState) (j : Nat) (x : BSS) :
    (b.withBack j x).store = b.store ++ [j] := rfl
@[simp] theorem JobState.at_id (j : JobState) (l : Nat) : (j.at l).id = j.id := rfl
@[simp] theorem JobState.at_loc (j : JobState) (l : Nat) : (j.at l).loc = l := rfl
@[simp] theorem JobState.at_ops (j : JobState) (l : Nat) : (j.at l).ops = j.ops := rfl
@[simp] theorem replaceOp_id (j : JobState) (o : OpState) : (j.replaceOp o).id = j.id := rfl
@[simp] theorem replaceOp_loc (j : JobState) (o : OpState) : (j.replaceOp o).loc = j.loc := rfl

theorem putInBuffer_spec {b : BufState} {c : BufCfg} {j : JobState} {b' : BufState} {j' : JobState}
    (h : putInBuffer b c j = .ok (b', j')) :
    (b.store.length : Int) < c.cap ∧ b'.id = b.id ∧ b'.store = b.store ++ [j.id] ∧
      j' = { j with loc := b.id } := by
  unfold putInBuffer at h
  split at h
  · simp at h
  · simp at h
    obtain ⟨rfl, rfl⟩ := h
    simp; omega

theorem removeFromBuffer_spec {b : BufState} {j : Nat} {b' : BufState} (h : removeFromBuffer b j = .ok b') :
    j ∈ b.store ∧ b'.id = b.id ∧ b'.store = b.store.filter (· != j) := by
  unfold removeFromBuffer at h
  split at h
  · simp at h
  · rename_i hc
    simp at h; subst h
    simp at hc
    simp [hc]

theorem switchBuffer_spec {from_ to : BufState} {j : JobState} {f' t' : BufState} {j' : JobState}
    (h : switchBuffer inst from_ to j = .ok (f', t', j')) :
    j.id ∈ from_.store ∧ f'.id = from_.id ∧ f'.store = from_.store.filter (· != j.id) ∧
      t'.id = to.id ∧ t'.store = to.store ++ [j.id] ∧ j' = { j with loc := to.id } ∧
      ∃ c ∈ allBufCfgs inst, c.id = to.id ∧ (to.store.length : Int) < c.cap := by
  unfold switchBuffer at h
  split at h
  · simp at h
  · simp only [except_pure, except_bind_ok] at h
    obtain ⟨f1, hf, h⟩ := except_bind_eq_ok h
    obtain ⟨c, hc, h⟩ := except_bind_eq_ok h
    obtain ⟨⟨t1, j1⟩, hp, h⟩ := except_bind_eq_ok h
    simp at h
    obtain ⟨rfl, rfl, rfl⟩ := h
    have r := removeFromBuffer_spec hf
    have p := putInBuffer_spec hp
    have cc := getBufCfg_ok hc
    exact ⟨r.1, r.2.1, r.2.2, p.2.1, p.2.2.1, p.2.2.2, c, cc.1, cc.2, p.1⟩

/-- `handle_machine_idle_to_setup_transition` -/
theorem idleToSetup_spec {s s' : State} {r r' : Rng} {tr : Transition} {m : MachineState}
    (h : handleMachineIdleToSetup orc inst s r tr m = .ok (s', r')) :
    ∃ (j : JobState) (op : OpState) (oc : OpCfg) (mc : MachineCfg) (sd : Int) (bss1 bss2 : BSS),
      j ∈ s.jobs ∧ tr.job = some j.id ∧ j.id ∈ m.pre.store ∧ j.nextNotDone? = some op ∧
      oc ∈ inst.jobs.flatMap (·.ops) ∧ oc.job = op.job ∧ oc.idx = op.idx ∧
      mc ∈ inst.machines ∧ mc.id = m.id ∧ (m.buffer.store.length : Int) < mc.buf.cap ∧
      (∃ c, mc.setup.lookup (m.tool, oc.tool) = some c ∧ (sd, r') = c.readUpd orc r) ∧
      s' = (s.replaceJob ((j.replaceOp (opRec oc s.time (s.time + sd) m.id)).at m.buffer.id)).replaceMachine
            (m.toSetup j.id bss1 bss2 (s.time + sd) oc.tool) := by
  unfold handleMachineIdleToSetup at h
  cases htj : tr.job with
  | none => simp [htj] at h
  | some jid =>
    simp only [htj, except_pure, except_bind_ok] at h
    obtain ⟨j, hj, h⟩ := except_bind_eq_ok h
    have hj' := getJob_ok hj
    split at h
    · simp at h
    · rename_i hin
      obtain ⟨⟨j1, m1, r1⟩, hb, h⟩ := except_bind_eq_ok h
      simp at h
      obtain ⟨rfl, rfl⟩ := h
      unfold beginMachineSetup at hb
      obtain ⟨op, hop, hb⟩ := except_bind_eq_ok hb
      obtain ⟨oc, hoc, hb⟩ := except_bind_eq_ok hb
      obtain ⟨mc, hmc, hb⟩ := except_bind_eq_ok hb
      obtain ⟨⟨sd, r2⟩, hsd, hb⟩ := except_bind_eq_ok hb
      simp only at hb
      obtain ⟨pre', hpre, hb⟩ := except_bind_eq_ok hb
      obtain ⟨⟨buf', j2⟩, hput, hb⟩ := except_bind_eq_ok hb
      simp at hb
      obtain ⟨rfl, rfl, rfl⟩ := hb
      have hoc' := findE_ok hoc
      have hmc' := getMachineCfg_ok hmc
      have hpre' := removeFromBuffer_spec hpre
      have hput' := putInBuffer_spec hput
      simp [JobState.replaceOp] at hpre'
      obtain ⟨_, hpid, hpst⟩ := hpre'
      obtain ⟨hcap, hbid, hbst, hj2⟩ := hput'
      subst hj2
      cases pre' with | mk pid pbss pstore =>
      cases buf' with | mk bid bbss bstore =>
      simp at hpid hpst hbid hbst
      subst hpid hpst hbid hbst
      refine ⟨j, op, oc, mc, sd, pbss, bbss, hj'.1, by simp [hj'.2], by simpa using hin, ?_, hoc'.1, ?_, ?_,
        hmc'.1, hmc'.2, hcap, ?_, ?_⟩
      · unfold JobState.nextNotDone at hop
        split at hop <;> simp_all
      · have := hoc'.2; simp at this; exact this.1
      · have := hoc'.2; simp at this; exact this.2
      · unfold setupDuration at hsd
        split at hsd
        · rename_i c hc
          simp at hsd
          exact ⟨c, hc, by simp [hsd]⟩
        · simp at hsd
      · simp [JobState.replaceOp, opRec, BufState.without, BufState.withBack, JobState.at, MachineState.toSetup]

theorem nextNotDone_ok {j : JobState} {op : OpState} (h : j.nextNotDone = .ok op) : j.nextNotDone? = some op := by
  unfold JobState.nextNotDone at h
  split at h <;> simp_all

theorem getOpCfg_ok {job idx : Nat} {oc : OpCfg} (h : getOpCfg inst job idx = .ok oc) :
    oc ∈ inst.jobs.flatMap (·.ops) ∧ oc.job = job ∧ oc.idx = idx := by
  have := findE_ok h
  simp at this
  exact ⟨by simpa using this.1, this.2.1, this.2.2⟩

/-- `handle_machine_setup_to_working_transition` -/
theorem setupToWorking_spec {s s' : State} {r r' : Rng} {tr : Transition} {m : MachineState}
    (h : handleMachineSetupToWorking orc inst s r tr m = .ok (s', r')) :
    ∃ (j : JobState) (op : OpState) (oc : OpCfg) (d : Int),
      j ∈ s.jobs ∧ tr.job = some j.id ∧ j.id ∈ m.buffer.store ∧ j.nextNotDone? = some op ∧
      oc ∈ inst.jobs.flatMap (·.ops) ∧ oc.job = op.job ∧ oc.idx = op.idx ∧
      (d, r') = oc.dur.updRead orc r ∧
      s' = (s.replaceJob (j.replaceOp (opRec oc s.time (s.time + d) m.id))).replaceMachine
            (m.toWorking (s.time + d)) := by
  unfold handleMachineSetupToWorking at h
  cases htj : tr.job with
  | none => simp [htj] at h
  | some jid =>
    simp only [htj, except_pure, except_bind_ok] at h
    obtain ⟨j, hj, h⟩ := except_bind_eq_ok h
    have hj' := getJob_ok hj
    split at h
    · simp at h
    · rename_i hin
      obtain ⟨⟨j1, m1, r1⟩, hb, h⟩ := except_bind_eq_ok h
      simp at h
      obtain ⟨rfl, rfl⟩ := h
      unfold beginNextJobOnMachine at hb
      obtain ⟨op, hop, hb⟩ := except_bind_eq_ok hb
      obtain ⟨oc, hoc, hb⟩ := except_bind_eq_ok hb
      have hoc' := getOpCfg_ok hoc
      simp at hb
      obtain ⟨rfl, rfl, rfl⟩ := hb
      exact ⟨j, op, oc, (oc.dur.updRead orc r).1, hj'.1, by simp [hj'.2], by simpa using hin,
        nextNotDone_ok hop, hoc'.1, hoc'.2.1, hoc'.2.2, rfl, rfl⟩

/-- `handle_machine_working_to_outage_transition` -/
theorem workingToOutage_spec {s s' : State} {r r' : Rng} {tr : Transition} {m : MachineState}
    (h : handleMachineWorkingToOutage orc inst s r tr m = .ok (s', r')) :
    ∃ (mc : MachineCfg) (outs : List OutageState) (j : JobState) (op : OpState),
      mc ∈ inst.machines ∧ mc.id = m.id ∧
      newOutageStates orc s.time m.outages mc.outages r = .ok (outs, r') ∧
      j ∈ s.jobs ∧ tr.job = some j.id ∧ j.processing? = some op ∧
      s' = (s.replaceMachine (m.toOutage outs (s.time + occupiedFor outs))).replaceJob
            (j.replaceOp { op with stop := some (s.time + occupiedFor outs) }) := by
  unfold handleMachineWorkingToOutage at h
  obtain ⟨mc, hmc, h⟩ := except_bind_eq_ok h
  obtain ⟨⟨outs, r1⟩, ho, h⟩ := except_bind_eq_ok h
  simp only at h
  obtain ⟨j, hj, h⟩ := except_bind_eq_ok h
  obtain ⟨⟨j1, m1⟩, hb, h⟩ := except_bind_eq_ok h
  simp at h
  obtain ⟨rfl, rfl⟩ := h
  have hmc' := getMachineCfg_ok hmc
  have hj' := getJobOpt_ok hj
  unfold beginMachineOutage at hb
  simp only [except_pure] at hb
  split at hb
  · simp at hb
  · rename_i op hop
    simp at hb
    obtain ⟨rfl, rfl⟩ := hb
    exact ⟨mc, outs, j, op, hmc'.1, hmc'.2, ho, hj'.1, hj'.2, hop, rfl⟩

/-- `handle_machine_outage_to_idle_transition` -/
theorem outageToIdle_spec {s s' : State} {r r' : Rng} {m : MachineState}
    (h : handleMachineOutageToIdle inst s r m = .ok (s', r')) :
    ∃ (j : JobState) (op : OpState) (mc : MachineCfg) (rest : List Nat) (bss1 bss2 : BSS),
      m.buffer.store = j.id :: rest ∧ j ∈ s.jobs ∧ j.processing? = some op ∧
      mc ∈ inst.machines ∧ mc.id = m.id ∧ (m.post.store.length : Int) < mc.post.cap ∧ r' = r ∧
      s' = (s.replaceJob ((j.replaceOp { op with stop := some s.time, st := .done }).at m.post.id)).replaceMachine
            (m.toIdle j.id bss1 bss2) := by
  unfold handleMachineOutageToIdle at h
  obtain ⟨⟨j1, m1⟩, hb, h⟩ := except_bind_eq_ok h
  simp at h
  obtain ⟨rfl, rfl⟩ := h
  unfold completeActiveOperation at hb
  cases hst : m.buffer.store with
  | nil => simp [hst] at hb
  | cons jid rest =>
    simp only [hst, except_pure, except_bind_ok] at hb
    obtain ⟨j, hj, hb⟩ := except_bind_eq_ok hb
    have hj' := getJob_ok hj
    cases hop : j.processing? with
    | none => simp [hop] at hb
    | some op =>
      simp only [hop, except_bind_ok] at hb
      obtain ⟨buf', hrm, hb⟩ := except_bind_eq_ok hb
      obtain ⟨mc, hmc, hb⟩ := except_bind_eq_ok hb
      obtain ⟨⟨post', j2⟩, hput, hb⟩ := except_bind_eq_ok hb
      simp at hb
      obtain ⟨rfl, rfl⟩ := hb
      have hmc' := getMachineCfg_ok hmc
      have hrm' := removeFromBuffer_spec hrm
      have hput' := putInBuffer_spec hput
      simp [JobState.replaceOp] at hrm'
      obtain ⟨_, hbid, hbst⟩ := hrm'
      obtain ⟨hcap, hpid, hpst, hj2⟩ := hput'
      subst hj2
      cases buf' with | mk bid bbss bstore =>
      cases post' with | mk pid pbss pstore =>
      simp at hbid hbst hpid hpst
      subst hbid hbst hpid hpst
      refine ⟨j, op, mc, rest, bbss, pbss, by simp [hj'.2], hj'.1, hop, hmc'.1, hmc'.2, hcap, rfl, ?_⟩
      simp [JobState.replaceOp, hst, BufState.without, BufState.withBack, JobState.at, MachineState.toIdle]

end JSL
