import JSL.Inv.PreOffers
import JSL.Inv.TotalReset

/-!
# The environment in the wider class

* `pb_envReach_good`      – every environment state of an episode holds a result that, when successful and not
                            finished, holds an offer (`EnvGood`);
* `pb_mwStep_total`, `pb_envStep_total` – the middleware and the environment step handle the actions 0 and 1
                            in a state that holds an offer: they return, or the timed loop runs out of fuel;
* `pb_envReach_live`, `pb_envReach_has_offer` – an environment state that is not done is successful, not
                            finished, and holds an offer.

`ResetLive`: `reset` does not finish the shop.  In the class `totalClassB` this is a theorem
(`reset_not_doneT`: nothing is started inside `reset`); with ordered pre-buffers operations can start inside
`reset` (teleports, then the machine takes the job), and the proof would need a second invariant (no job
reaches an output buffer with a single dispatch).  It is a hypothesis here; for a concrete instance it is
checked by `decide`.
-/

namespace JSL

variable {orc : Oracle} {inst : Instance}

/-- `reset` does not finish the shop -/
def ResetLive (orc : Oracle) (inst : Instance) (ec : EnvCfg) (s0 : State) : Prop :=
  ∀ r e mic, envReset orc inst ec s0 r = .ok (e, mic) → isDone inst e.res.state = false

theorem pb_envReset_good {ec : EnvCfg} {s0 : State} (hst : Start orc inst s0) (C : TotClassP inst) (h0 : TotP inst s0)
    {r : Rng} {e : EnvState} {mic : List State} (h : envReset orc inst ec s0 r = .ok (e, mic)) :
    EnvGood orc inst ec.sm s0 e.res := by
  unfold envReset mwReset at h
  obtain ⟨⟨res, mw, r', mic'⟩, h1, h⟩ := except_bind_eq_ok h
  obtain ⟨⟨res', r'', mic''⟩, h2, h1⟩ := except_bind_eq_ok h1
  simp at h1 h
  obtain ⟨rfl, rfl, rfl, rfl⟩ := h1
  obtain ⟨rfl, rfl⟩ := h
  have := pb_smStep_good hst C h0 OccursF.init admissible_noOp (Or.inl rfl) h2
  exact ⟨this.1, this.2⟩

theorem pb_envStep_good {ec : EnvCfg} {st : RewardStatic} {s0 : State} (hst : Start orc inst s0) (C : TotClassP inst)
    (h0 : TotP inst s0) {e : EnvState} (hi : ResInv orc inst ec.sm s0 e.res) (hg : EnvGood orc inst ec.sm s0 e.res)
    {a : AgentAct} {out : StepOut} (h : envStep orc inst ec st e a = .ok out) :
    EnvGood orc inst ec.sm s0 out.env.res := by
  unfold envStep at h
  split at h
  · simp at h
  · obtain ⟨⟨res', mw, r, mic⟩, hm, h⟩ := except_bind_eq_ok h
    simp only at h
    obtain ⟨⟨rew, cnt⟩, _, h⟩ := except_bind_eq_ok h
    simp at h; subst h
    have key : EnvGood orc inst ec.sm s0 res' := by
      rcases mwStep_cases hm with ⟨o, o', rest, _, hp, e1, _, e3, _, _, _, _⟩ | ⟨act, hsub, hk, hs⟩
      · simp only at e1 e3
        refine ⟨fun hd => ?_, fun _ _ => ?_⟩
        · rw [e1] at hd ⊢; exact hg.occ hd
        · rw [e3]; simp
      · have hne : e.res.possible ≠ [] := by
          rcases hk with ⟨_, _, _, h⟩ | ⟨_, _, _, h⟩
          · exact h
          · intro h0; rw [h0] at h; simp at h
        have hl := hi.live hne
        have ha : Admissible act := by
          refine ⟨fun tr htr => hl.2 tr ?_, ?_⟩
          · have := hsub tr htr
            cases hp : e.res.possible with
            | nil => rw [hp] at this; simp at this
            | cons x xs => rw [hp] at this; simp at this; rw [this]; simp
          · rcases hk with ⟨_, h, _⟩ | ⟨_, h, _⟩ <;> rw [h] <;> simp
        have hadm : AdmOffer inst ec.sm e.res.state act := by
          obtain ⟨poss, hposs, hsub⟩ := hi.offersFrom hne
          rcases hk with ⟨_, _, ht, _⟩ | ⟨_, _, ht, _⟩
          · right
            cases hp : e.res.possible with
            | nil => exact absurd hp hne
            | cons x xs => exact ⟨poss, hposs, x, hsub x (by rw [hp]; simp), by rw [ht, hp]; rfl⟩
          · left; exact ht
        have := pb_smStep_good hst C h0 (hi.liveF hne) ha hadm hs
        exact ⟨this.1, this.2⟩
    by_cases hsuc : res'.success = true
    · simp only [hsuc, if_true]; exact key
    · simp only [hsuc]
      exact hg

theorem pb_envReach_good {ec : EnvCfg} {st : RewardStatic} {s0 : State} (hst : Start orc inst s0) (C : TotClassP inst)
    (h0 : TotP inst s0) {e : EnvState} (h : EnvReach orc inst ec st s0 e) : EnvGood orc inst ec.sm s0 e.res := by
  induction h with
  | reset h => exact pb_envReset_good hst C h0 h
  | step hprev h ih => exact pb_envStep_good hst C h0 (envReach_inv hst hprev) ih h

theorem pb_mwStep_total {cfg : SMConfig} {mc : MwCfg} {fuel : Nat} {s0 : State} (hst : Start orc inst s0) (C : TotClassP inst)
    (h0 : TotP inst s0) {res : SMResult} (hi : ResInv orc inst cfg s0 res) (hne : res.possible ≠ []) (m : MwState) (r : Rng)
    {a : AgentAct} (ha : a = .accept ∨ a = .decline) : MwGood (mwStep orc inst cfg mc fuel res m r a) := by
  have hl := hi.live hne
  have hF := hi.liveF hne
  obtain ⟨w, hI, hS⟩ := occursA_inv hst hl.1
  have nn := nonnegB_sound hst.samples hst.nonneg
  have hP := pb_occursF_tot hst C h0 hF
  obtain ⟨poss, hposs, hsub⟩ := hi.offersFrom hne
  cases hp : res.possible with
  | nil => exact absurd hp hne
  | cons tr rest =>
    have htr : tr ∈ res.possible := by rw [hp]; simp
    rcases ha with rfl | rfl
    · -- accept
      have hadm : Admissible { transitions := [tr], noOp := false, tm := .jumpToEvent } :=
        ⟨fun x hx => by simp at hx; subst hx; exact hl.2 x htr, by simp⟩
      have hoff : AdmOffer inst cfg res.state { transitions := [tr], noOp := false, tm := .jumpToEvent } :=
        Or.inr ⟨poss, hposs, tr, hsub tr htr, rfl⟩
      unfold mwStep interpret
      simp only [hp, except_pure, except_bind_ok, Bool.false_eq_true, if_false]
      rcases pb_smStep_total (orc := orc) (fuel := fuel) (r := r) w nn C hI hS hP hadm hoff with ⟨res', r', mic, hs, _⟩ | herr
      · left; simp only [hs, except_bind_ok]; exact ⟨_, rfl⟩
      · right; simp only [herr, except_bind_error]
    · -- decline
      unfold mwStep interpret
      simp only [hp, except_pure, except_bind_ok, noOpAction, if_true]
      unfold noOpResult
      simp only [hp]
      cases rest with
      | cons o' rest' => left; exact ⟨_, rfl⟩
      | nil =>
        have hadm : Admissible { transitions := [], noOp := true, tm := .forceJump } :=
          ⟨fun x hx => by simp at hx, by simp⟩
        have hoff : AdmOffer inst cfg res.state { transitions := [], noOp := true, tm := .forceJump } := Or.inl rfl
        simp only
        rcases pb_smStep_total (orc := orc) (fuel := fuel) (r := r) w nn C hI hS hP hadm hoff with ⟨res', r', mic, hs, hsuc⟩ | herr
        · left
          simp only [hs, except_bind_ok]
          have hg := (pb_smStep_good hst C h0 hF hadm hoff hs).2 hsuc
          by_cases hemp : res'.possible = []
          · have hdone : isDone inst res'.state = true := by
              cases hdn : isDone inst res'.state with
              | true => rfl
              | false => exact absurd hemp (hg hdn)
            simp [hemp, hdone]
          · have : res'.possible.isEmpty = false := by simpa using hemp
            simp only [this, Bool.false_eq_true, if_false]
            exact ⟨_, rfl⟩
        · right; simp only [herr, except_bind_error]

/-- **`env.step` handles the actions 0 and 1** in every state of every episode that holds an offer -/
theorem pb_envStep_total {ec : EnvCfg} {st : RewardStatic} {s0 : State} (hst : Start orc inst s0) (C : TotClassP inst)
    (h0 : TotP inst s0) (hrw : RewardOK ec.rw st) {e : EnvState} (h : EnvReach orc inst ec st s0 e) (hd : e.done = false)
    (hne : e.res.possible ≠ []) {a : AgentAct} (ha : a = .accept ∨ a = .decline) :
    (∃ out, envStep orc inst ec st e a = .ok out) ∨ envStep orc inst ec st e a = .error .outOfFuel := by
  have hm := pb_mwStep_total (mc := ec.mw) (fuel := ec.fuel) hst C h0 (envReach_inv hst h) hne e.mw e.rng ha
  have he := envStep_of_mwStepT (orc := orc) (inst := inst) hrw hd a
  rcases hm with ⟨out, ho⟩ | herr
  · exact Or.inl (he.1 out ho)
  · exact Or.inr (he.2 _ herr)

/-- an environment state that is not done holds a successful result of a shop that is not finished -/
theorem pb_envReach_live {ec : EnvCfg} {st : RewardStatic} {s0 : State} (hst : Start orc inst s0) (C : TotClassP inst)
    (h0 : TotP inst s0) (hL : ResetLive orc inst ec s0) {e : EnvState} (h : EnvReach orc inst ec st s0 e)
    (hd : e.done = false) : e.res.success = true ∧ isDone inst e.res.state = false := by
  cases h with
  | @reset r e mic hr =>
    refine ⟨?_, hL r e mic hr⟩
    unfold envReset mwReset at hr
    obtain ⟨⟨res, mw, r', mic'⟩, h1, hr⟩ := except_bind_eq_ok hr
    obtain ⟨⟨res', r'', mic''⟩, h2, h1⟩ := except_bind_eq_ok h1
    simp at h1 hr
    obtain ⟨rfl, rfl, rfl, rfl⟩ := h1
    obtain ⟨rfl, rfl⟩ := hr
    obtain ⟨w, hI0⟩ := initOKB_sound hst.init
    have nn := nonnegB_sound hst.samples hst.nonneg
    rcases pb_smStep_total (orc := orc) (cfg := ec.sm) (fuel := ec.fuel) (r := r) w nn C hI0 (restB_sound hst.rest) h0
      admissible_noOp (Or.inl rfl) with ⟨res2, r2, mic2, hs, hsuc⟩ | herr
    · rw [h2] at hs
      simp only [Except.ok.injEq, Prod.mk.injEq] at hs
      rw [hs.1]; exact hsuc
    · rw [h2] at herr; cases herr
  | @step e0 a out _ hs =>
    unfold envStep at hs
    split at hs
    · simp at hs
    · obtain ⟨⟨res', mw, r, mic⟩, _, hs⟩ := except_bind_eq_ok hs
      simp only at hs
      obtain ⟨⟨rew, cnt⟩, _, hs⟩ := except_bind_eq_ok hs
      simp at hs; subst hs
      by_cases hsuc : res'.success = true
      · simp only [hsuc, if_true] at hd ⊢
        simp only [Bool.or_eq_false_iff] at hd
        exact ⟨trivial, hd.1⟩
      · simp [hsuc] at hd

theorem pb_envReach_has_offer {ec : EnvCfg} {st : RewardStatic} {s0 : State} (hst : Start orc inst s0) (C : TotClassP inst)
    (h0 : TotP inst s0) (hL : ResetLive orc inst ec s0) {e : EnvState} (h : EnvReach orc inst ec st s0 e)
    (hd : e.done = false) : e.res.possible ≠ [] := by
  obtain ⟨hs, hnd⟩ := pb_envReach_live hst C h0 hL h hd
  exact (pb_envReach_good hst C h0 h).offers hs hnd

end JSL
