import JSL.Inv.Agv
import JSL.Inv.Offers
import JSL.Inv.Reach

/-!
# The AGV invariant along `state.step` and along every episode
-/

namespace JSL

variable {orc : Oracle} {inst : Instance}

/-- the conflict-removal loop leaves transitions with pairwise different jobs -/
theorem teleportGreedy_pairwise : ∀ (n : Nat) (l : List Transition),
    (teleportGreedy n l).Pairwise (fun a b => a.job ≠ b.job)
  | 0, _ => by simp [teleportGreedy]
  | n + 1, [] => by simp [teleportGreedy]
  | n + 1, t :: ts => by
    simp only [teleportGreedy]
    apply List.pairwise_cons.mpr
    refine ⟨?_, teleportGreedy_pairwise n _⟩
    intro b hb
    have := mem_teleportGreedy n _ b hb
    have hf := (List.mem_filter.mp this).2
    simp only [Bool.and_eq_true, bne_iff_ne, ne_eq] at hf
    exact fun e => hf.1 e.symm

/-- a timed transport transition never dispatches an AGV -/
theorem timedTransport_not_dispatch {s : State} (hS : SchedInv s) {t : TransportState} (ht : t ∈ s.transports)
    {tr : Transition} (h : timedTransport inst s t = .ok (some tr)) : tr.new ≠ .t .working := by
  unfold timedTransport at h
  cases hocc : t.occ with
  | none => simp [hocc] at h
  | dep b j tr' =>
    simp only [hocc] at h
    obtain ⟨res, _, h⟩ := except_bind_eq_ok h
    split at h
    · simp at h; subst h
      rw [hS.depWaiting t ht b j tr' hocc]; simp
    · simp at h
  | «at» o =>
    simp only [hocc] at h
    split at h
    · cases hcr : agvTimedCreator t.st with
      | idleToPick =>
        simp only [hcr] at h
        unfold agvIdleToPickTransition at h
        obtain ⟨jid, _, h⟩ := except_bind_eq_ok h
        obtain ⟨j, hj, h⟩ := except_bind_eq_ok h
        obtain ⟨rdy, hrdy, h⟩ := except_bind_eq_ok h
        simp at h
        cases hnx : idleToPickNext t.st rdy with
        | none => simp [hnx] at h
        | some ns =>
          simp [hnx] at h; subst h
          intro e
          simp at e; subst e
          revert hnx; cases t.st <;> cases rdy <;> decide
      | pickupToDrop =>
        simp only [hcr] at h
        split at h
        · obtain ⟨js, _, h⟩ := except_bind_eq_ok h
          simp at h; subst h; simp
        · simp at h
      | dropToIdle => simp [hcr] at h; subst h; simp
      | raises => simp [hcr] at h
      | none => simp [hcr] at h
    · simp at h

/-- the timed batch followed by the teleports meets the claim guard -/
theorem timed_claim (w : WF inst) {cfg : SMConfig} {s : State} (hI : StructInv inst s) (hS : SchedInv s)
    {tt poss tele : List Transition} {r : Rng} (htt : timedTransitions inst s = .ok tt)
    (hposs : possibleTransitions inst cfg s = .ok poss) (htele : filterTeleport orc inst r s poss = .ok tele) :
    ClaimGS s (tt ++ tele) := by
  -- no timed transition is a dispatch
  have hT : ∀ tr ∈ tt, tr.new ≠ .t .working := by
    unfold timedTransitions at htt
    obtain ⟨a, ha, htt⟩ := except_bind_eq_ok htt
    obtain ⟨b, hb, htt⟩ := except_bind_eq_ok htt
    simp at htt; subst htt
    unfold timedMachineTransitions at ha
    unfold timedTransportTransitions at hb
    cases hra : s.machines.mapM (timedMachine inst s.time) with
    | error e => simp [hra] at ha
    | ok ra =>
      simp [hra] at ha; subst ha
      cases hrb : s.transports.mapM (timedTransport inst s) with
      | error e => simp [hrb] at hb
      | ok rb =>
        simp [hrb] at hb; subst hb
        intro tr htr
        rcases List.mem_append.mp htr with h | h
        · obtain ⟨x, hx, e⟩ := List.mem_filterMap.mp h
          simp at e; subst e
          obtain ⟨m, hm, e⟩ := (mapM_ok_mem hra).2 _ hx
          have := (timedMachine_spec (inst := inst) (s := s) hm e).1
          obtain ⟨m', _, _, hcase⟩ := this
          rcases hcase with ⟨ns, _, hn, _⟩ | ⟨_, hn, _⟩ <;> rw [hn] <;> simp
        · obtain ⟨x, hx, e⟩ := List.mem_filterMap.mp h
          simp at e; subst e
          obtain ⟨t, ht, e⟩ := (mapM_ok_mem hrb).2 _ hx
          exact timedTransport_not_dispatch hS ht e
  -- the teleports are offers with pairwise different jobs
  unfold filterTeleport at htele
  obtain ⟨l, hl, htele⟩ := except_bind_eq_ok htele
  simp at htele; subst htele
  have hsub : ∀ tr ∈ teleportGreedy l.length l, tr ∈ poss := fun tr htr => (filterE_ok hl tr (mem_teleportGreedy _ _ _ htr)).1
  have hfacts : ∀ tr ∈ teleportGreedy l.length l, tr.new = .t .working → ∀ x, tr.job = some x →
      ∀ t ∈ s.transports, t.job ≠ some x := by
    intro tr htr hn x hx
    have hp := hsub tr htr
    unfold possibleTransitions at hposs
    obtain ⟨pj, _, hposs⟩ := except_bind_eq_ok hposs
    obtain ⟨pt, hpt, hposs⟩ := except_bind_eq_ok hposs
    obtain ⟨mt, hmt, hposs⟩ := except_bind_eq_ok hposs
    simp at hposs; subst hposs
    rcases List.mem_append.mp hp with h1 | h1
    · obtain ⟨j, _, e⟩ := (mapM_ok_mem hmt).2 tr h1
      cases hni : j.nextIdle? with
      | none => simp [hni] at e
      | some o => simp [hni] at e; subst e; simp at hn
    · obtain ⟨t, _, j, _, rfl, _, hunc, _⟩ := possibleTransport_facts hpt tr h1
      simp at hx; subst hx
      exact hunc
  constructor
  · intro tr htr hn x hx
    rcases List.mem_append.mp htr with h | h
    · exact absurd hn (hT tr h)
    · exact hfacts tr h hn x hx
  · apply List.pairwise_append.mpr
    refine ⟨?_, ?_, ?_⟩
    · apply List.pairwise_of_forall_mem_list
      intro a ha b _ hna
      exact absurd hna (hT a ha)
    · exact (teleportGreedy_pairwise _ _).imp (fun {a b} hab _ _ x hxa hxb => hab (by rw [hxa, hxb]))
    · intro a ha b _ hna
      exact absurd hna (hT a ha)


theorem timed_no_dispatch {s : State} (hS : SchedInv s) {tt : List Transition} (htt : timedTransitions inst s = .ok tt) :
    ∀ tr ∈ tt, tr.new ≠ .t .working := by
  unfold timedTransitions at htt
  obtain ⟨a, ha, htt⟩ := except_bind_eq_ok htt
  obtain ⟨b, hb, htt⟩ := except_bind_eq_ok htt
  simp at htt; subst htt
  unfold timedMachineTransitions at ha
  unfold timedTransportTransitions at hb
  cases hra : s.machines.mapM (timedMachine inst s.time) with
  | error e => simp [hra] at ha
  | ok ra =>
    simp [hra] at ha; subst ha
    cases hrb : s.transports.mapM (timedTransport inst s) with
    | error e => simp [hrb] at hb
    | ok rb =>
      simp [hrb] at hb; subst hb
      intro tr htr
      rcases List.mem_append.mp htr with h | h
      · obtain ⟨x, hx, e⟩ := List.mem_filterMap.mp h
        simp at e; subst e
        obtain ⟨m, hm, e⟩ := (mapM_ok_mem hra).2 _ hx
        obtain ⟨m', _, _, hcase⟩ := (timedMachine_spec (inst := inst) (s := s) hm e).1
        rcases hcase with ⟨ns, _, hn, _⟩ | ⟨_, hn, _⟩ <;> rw [hn] <;> simp
      · obtain ⟨x, hx, e⟩ := List.mem_filterMap.mp h
        simp at e; subst e
        obtain ⟨t, ht, e⟩ := (mapM_ok_mem hrb).2 _ hx
        exact timedTransport_not_dispatch hS ht e

theorem claimGS_of_no_dispatch {s : State} {L : List Transition} (h : ∀ tr ∈ L, tr.new ≠ .t .working) : ClaimGS s L :=
  ⟨fun tr htr hn => absurd hn (h tr htr), List.pairwise_of_forall_mem_list (fun a ha _ _ hna => absurd hna (h a ha))⟩

/-- **The AGV pass.** -/
def AgvPass (orc : Oracle) (inst : Instance) (cfg : SMConfig) (w : WF inst) : Pass orc inst cfg where
  P := AgvInv
  GS := ClaimGS
  Adm := fun s a => ClaimGS s (sortedByTransport a.transitions)
  tail := fun h => h.tail
  step := fun hI hS hP hv _ _ hgs ha => applyTransition_agv w hI hS hP hv hgs ha
  advance := fun _ _ hP _ _ => ⟨hP.empty, hP.holds, hP.unique, hP.claimed⟩
  timed := fun hI hS _ htt hposs htele => timed_claim w hI hS htt hposs htele
  timedOnly := fun _ hS _ htt => claimGS_of_no_dispatch (timed_no_dispatch hS htt)
  action := fun _ _ _ h => h

theorem AgvInv.of_time {s : State} {t : Int} (h : AgvInv { s with time := t }) : AgvInv s :=
  ⟨h.empty, h.holds, h.unique, h.claimed⟩

theorem AgvInv.of_rest {s : State} (h : restB s = true) : AgvInv s := by
  simp only [restB, Bool.and_eq_true, List.all_eq_true, beq_iff_eq, List.isEmpty_iff, Option.isNone_iff_eq_none] at h
  obtain ⟨_, ht⟩ := h
  constructor
  · intro t ht' _; exact (ht t ht').2
  · intro t ht' hst; rw [(ht t ht').1.1.1] at hst; cases hst
  · intro t1 h1 _ _ x hx; rw [(ht t1 h1).1.1.2] at hx; cases hx
  · intro t ht' x hx; rw [(ht t ht').1.1.2] at hx; cases hx

/-- executions in which, in addition to being admissible, every dispatch an action contains is
for a job no AGV has claimed (pairwise different jobs): what the environment submits -/
inductive OccursC (orc : Oracle) (inst : Instance) (cfg : SMConfig) (s0 : State) : State → Prop
  | init : OccursC orc inst cfg s0 s0
  | result {s res r a r' mic fuel} : OccursC orc inst cfg s0 s → Admissible a → ClaimGS s (sortedByTransport a.transitions) →
      smStep orc inst cfg fuel s r a = .ok (res, r', mic) → res.done = false → OccursC orc inst cfg s0 res.state
  | sub {s res r a r' mic fuel σ} : OccursC orc inst cfg s0 s → Admissible a → ClaimGS s (sortedByTransport a.transitions) →
      smStep orc inst cfg fuel s r a = .ok (res, r', mic) → σ ∈ res.subStates → OccursC orc inst cfg s0 σ
  | micro {s res r a r' mic fuel σ} : OccursC orc inst cfg s0 s → Admissible a → ClaimGS s (sortedByTransport a.transitions) →
      smStep orc inst cfg fuel s r a = .ok (res, r', mic) → σ ∈ mic → OccursC orc inst cfg s0 σ

theorem OccursC.toA {cfg : SMConfig} {s0 σ : State} (h : OccursC orc inst cfg s0 σ) : OccursA orc inst cfg s0 σ := by
  induction h with
  | init => exact .init
  | result _ ha _ hs hnd ih => exact .result ih ha hs hnd
  | sub _ ha _ hs hσ ih => exact .sub ih ha hs hσ
  | micro _ ha _ hs hσ ih => exact .micro ih ha hs hσ

theorem occursC_agv {cfg : SMConfig} {s0 σ : State} (hst : Start orc inst s0) (h : OccursC orc inst cfg s0 σ) :
    AgvInv σ := by
  obtain ⟨w, _⟩ := initOKB_sound hst.init
  have nn := nonnegB_sound hst.samples hst.nonneg
  induction h with
  | init => exact AgvInv.of_rest hst.rest
  | result hprev ha hc hstep hnd ih =>
    obtain ⟨_, hI, hS⟩ := occursA_inv hst hprev.toA
    exact ((AgvPass orc inst cfg w).smStep w nn hI hS ih ha hc hstep).2.2.2 hnd
  | sub hprev ha hc hstep hσ ih =>
    obtain ⟨_, hI, hS⟩ := occursA_inv hst hprev.toA
    exact ((AgvPass orc inst cfg w).smStep w nn hI hS ih ha hc hstep).2.1 _ hσ
  | micro hprev ha hc hstep hσ ih =>
    obtain ⟨_, hI, hS⟩ := occursA_inv hst hprev.toA
    exact ((AgvPass orc inst cfg w).smStep w nn hI hS ih ha hc hstep).1 _ hσ

theorem final_agv {cfg : SMConfig} {s0 s : State} (hst : Start orc inst s0) (h : OccursC orc inst cfg s0 s)
    {a : Action} (ha : Admissible a) (hc : ClaimGS s (sortedByTransport a.transitions)) {fuel : Nat} {r r' : Rng}
    {res : SMResult} {mic : List State} (hstep : smStep orc inst cfg fuel s r a = .ok (res, r', mic)) :
    AgvInv res.state := by
  obtain ⟨w, hI, hS⟩ := occursA_inv hst h.toA
  have nn := nonnegB_sound hst.samples hst.nonneg
  obtain ⟨t, ht⟩ := ((AgvPass orc inst cfg w).smStep w nn hI hS (occursC_agv hst h) ha hc hstep).2.2.1
  exact AgvInv.of_time ht


/-- a dispatch on offer is for a job that no AGV has claimed -/
theorem offers_claim_free {cfg : SMConfig} {s : State} {poss : List Transition}
    (hposs : possibleTransitions inst cfg s = .ok poss) (tr : Transition) (hp : tr ∈ poss) (hn : tr.new = .t .working)
    (x : Nat) (hx : tr.job = some x) : ∀ t ∈ s.transports, t.job ≠ some x := by
  unfold possibleTransitions at hposs
  obtain ⟨pj, _, hposs⟩ := except_bind_eq_ok hposs
  obtain ⟨pt, hpt, hposs⟩ := except_bind_eq_ok hposs
  obtain ⟨mt, hmt, hposs⟩ := except_bind_eq_ok hposs
  simp at hposs; subst hposs
  rcases List.mem_append.mp hp with h1 | h1
  · obtain ⟨j, _, e⟩ := (mapM_ok_mem hmt).2 tr h1
    cases hni : j.nextIdle? with
    | none => simp [hni] at e
    | some o => simp [hni] at e; subst e; simp at hn
  · obtain ⟨t, _, j, _, rfl, _, hunc, _⟩ := possibleTransport_facts hpt tr h1
    simp at hx; subst hx
    exact hunc

theorem sortedByTransport_nil : sortedByTransport [] = [] := rfl

theorem sortedByTransport_single (tr : Transition) : sortedByTransport [tr] = [tr] := by
  unfold sortedByTransport
  by_cases h : tr.sortKey = 0 <;> simp [h]

/-- what the middleware submits meets the claim guard: nothing, or one transition currently on offer -/
theorem claimGS_of_offer {cfg : SMConfig} {s : State} {poss : List Transition}
    (hposs : possibleTransitions inst cfg s = .ok poss) {l : List Transition} (hl : l = [] ∨ ∃ tr ∈ poss, l = [tr]) :
    ClaimGS s (sortedByTransport l) := by
  rcases hl with rfl | ⟨tr, hp, rfl⟩
  · rw [sortedByTransport_nil]; exact ⟨fun _ h => (by cases h), List.Pairwise.nil⟩
  · rw [sortedByTransport_single]
    refine ⟨?_, List.pairwise_singleton _ _⟩
    intro t ht hn x hx
    simp at ht; subst ht
    exact offers_claim_free hposs t hp hn x hx

end JSL
