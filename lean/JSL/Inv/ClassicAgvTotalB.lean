import JSL.Inv.ClassicRoom

/-!
# Classic instances: the pickup and the delivery of an AGV never raise
-/

namespace JSL

variable {orc : Oracle} {inst : Instance}

/-- the loaded run costs nothing between two places of the shop that are not both standalone buffers -/
theorem travelTimeFromSpec_classic (hC : Classic inst) {src dst : Loc} (hs : src ∈ locsOf inst) (hd : dst ∈ locsOf inst)
    (hnb : ¬ ((∃ a, src = .b a) ∧ (∃ b, dst = .b b))) (r : Rng) :
    travelTimeFromSpec orc inst r src dst = .ok (0, r) := by
  have h := hC.travel0 src hs dst hd
  unfold travelTimeFromSpec
  cases src <;> cases dst <;> simp_all [TimeCfg.updRead]

theorem flatMap_nodup_inj {α} {f : α → List Nat} : ∀ {l : List α}, (l.flatMap f).Nodup → ∀ {a b : α} {x : Nat},
    a ∈ l → b ∈ l → x ∈ f a → x ∈ f b → a = b := by
  intro l
  induction l with
  | nil => intro _ a b x ha; cases ha
  | cons c cs ih =>
    intro hnd a b x ha hb hxa hxb
    simp only [List.flatMap_cons] at hnd
    obtain ⟨_, h2, h3⟩ := List.nodup_append.mp hnd
    rcases List.mem_cons.mp ha with rfl | ha' <;> rcases List.mem_cons.mp hb with rfl | hb'
    · rfl
    · exact absurd rfl (h3 x hxa x (List.mem_flatMap.mpr ⟨b, hb', hxb⟩))
    · exact absurd rfl (h3 x hxb x (List.mem_flatMap.mpr ⟨a, ha', hxa⟩))
    · exact ih h2 ha' hb' hxa hxb

/-- the buffer ids of the configuration, by part -/
theorem cfg_ids_parts (w : WF inst) :
    (∀ b ∈ inst.buffers, ∀ m ∈ inst.machines, b.id ≠ m.pre.id ∧ b.id ≠ m.buf.id ∧ b.id ≠ m.post.id) ∧
    (inst.machines.flatMap (fun m => [m.pre.id, m.buf.id, m.post.id])).Nodup := by
  have hnd := w.bufNodup
  unfold allBufCfgs at hnd
  simp only [List.map_append, List.map_flatMap, List.map_cons, List.map_nil] at hnd
  obtain ⟨h1, _, _⟩ := List.nodup_append.mp hnd
  obtain ⟨_, h2, h3⟩ := List.nodup_append.mp h1
  refine ⟨?_, h2⟩
  intro b hb m hm
  have hbm : b.id ∈ inst.buffers.map (·.id) := List.mem_map.mpr ⟨b, hb, rfl⟩
  refine ⟨?_, ?_, ?_⟩ <;> intro e <;> refine h3 b.id hbm b.id (List.mem_flatMap.mpr ⟨m, hm, ?_⟩) rfl <;> simp [e]

theorem machineIdOfBuffer_standalone (w : WF inst) {b : BufCfg} (hb : b ∈ inst.buffers) :
    machineIdOfBuffer inst.machines b.id = none := by
  unfold machineIdOfBuffer
  have : inst.machines.find? (fun m => m.pre.id == b.id || m.buf.id == b.id || m.post.id == b.id) = none := by
    apply List.find?_eq_none.mpr
    intro m hm
    have := (cfg_ids_parts w).1 b hb m hm
    simp only [Bool.or_eq_true, beq_iff_eq, not_or]
    exact ⟨⟨fun e => this.1 e.symm, fun e => this.2.1 e.symm⟩, fun e => this.2.2 e.symm⟩
  rw [this]; rfl

theorem machineIdOfBuffer_post (w : WF inst) {mc : MachineCfg} (hmc : mc ∈ inst.machines) :
    machineIdOfBuffer inst.machines mc.post.id = some mc.id := by
  unfold machineIdOfBuffer
  cases hf : inst.machines.find? (fun m => m.pre.id == mc.post.id || m.buf.id == mc.post.id || m.post.id == mc.post.id) with
  | none =>
    have := List.find?_eq_none.mp hf mc hmc
    simp at this
  | some mc' =>
    have hm' := List.mem_of_find?_eq_some hf
    have hp := List.find?_some hf
    have : mc' = mc := by
      apply flatMap_nodup_inj (cfg_ids_parts w).2 hm' hmc (x := mc.post.id)
      · simp only [Bool.or_eq_true, beq_iff_eq] at hp
        rcases hp with (e | e) | e <;> simp [e]
      · simp
    rw [this]; rfl

theorem op_machine_mem_locs (w : WF inst) {s : State} (hs : Shape inst s) {j : JobState} (hj : j ∈ s.jobs)
    {o : OpState} (ho : o ∈ j.ops) : Loc.m o.machine ∈ locsOf inst := by
  obtain ⟨oc, _, hoc, hm⟩ := getOpCfg_of_mem w hs hj ho
  obtain ⟨jc, hjc, hoc'⟩ := List.mem_flatMap.mp hoc
  obtain ⟨m, hmm, e⟩ := w.opMachine jc hjc oc hoc'
  unfold locsOf
  exact List.mem_append.mpr (Or.inl (List.mem_map.mpr ⟨m, hmm, by rw [e, hm]⟩))

theorem firstOutput_place {o : Nat} (h : firstOutput inst = .ok o) :
    Loc.b o ∈ locsOf inst ∧ o ∈ outputIds inst ∧ ∃ b ∈ inst.buffers, b.id = o := by
  unfold firstOutput at h
  cases hob : outputBuffers inst with
  | nil => simp [hob] at h
  | cons b bs =>
    simp [hob] at h
    have hb : b ∈ outputBuffers inst := by rw [hob]; simp
    have hb' : b ∈ inst.buffers := (List.mem_filter.mp hb).1
    refine ⟨?_, ?_, b, hb', h⟩
    · unfold locsOf
      exact List.mem_append.mpr (Or.inr (List.mem_map.mpr ⟨b, hb', by rw [h]⟩))
    · unfold outputIds
      exact List.mem_map.mpr ⟨b, hb, h⟩

theorem nextIdle_of_idle_left {j : JobState} (hn : ¬ j.noOpIdle = true) : ∃ o, j.nextIdle? = some o := by
  cases hni : j.nextIdle? with
  | some o => exact ⟨o, rfl⟩
  | none =>
    exfalso
    apply hn
    unfold JobState.nextIdle? at hni
    have := List.find?_eq_none.mp hni
    unfold JobState.noOpIdle
    apply List.all_eq_true.mpr
    intro x hx
    simpa using this x hx

theorem dropLoc_notDone_total (w : WF inst) (hC : Classic inst) {s : State} (hI : StructInv inst s) (hS : SchedInv s)
    {j : JobState} (hj : j ∈ s.jobs) (hnr : j.running = false) :
    ∃ dst, dropLoc inst j JobState.nextNotDone = .ok dst ∧ dst ∈ locsOf inst ∧
      ((∃ o, j.nextIdle? = some o) → ∃ m, dst = .m m) := by
  unfold dropLoc
  by_cases hn : j.noOpIdle = true
  · obtain ⟨o, ho⟩ := hC.tables.output
    simp only [hn, if_true, ho, except_map'_ok]
    refine ⟨_, rfl, (firstOutput_place ho).1, ?_⟩
    rintro ⟨o', ho'⟩
    exfalso
    have hm := find?_mem_ops ho'
    unfold JobState.noOpIdle at hn
    have := List.all_eq_true.mp hn o' hm.1
    have h2 := hm.2
    simp at this h2
    exact this h2
  · obtain ⟨o, ho⟩ := nextIdle_of_idle_left hn
    have hnn : j.nextNotDone? = some o := by rw [nextNotDone_eq_nextIdle (hS.ops j hj) hnr, ho]
    have hnn' : j.nextNotDone = .ok o := by simp [JobState.nextNotDone, hnn]
    simp only [hn, hnn', except_map'_ok]
    exact ⟨_, rfl, op_machine_mem_locs w hI.shape hj (find?_mem_ops ho).1, fun _ => ⟨_, rfl⟩⟩

theorem transportCfg_of_mem (w : WF inst) {s : State} (hs : Shape inst s) {t : TransportState} (ht : t ∈ s.transports) :
    ∃ tc ∈ inst.transports, getTransportCfg inst.transports t.id = .ok tc ∧ tc.id = t.id ∧
      getBufCfg (allBufCfgs inst) t.buffer.id = .ok tc.buf := by
  obtain ⟨tc, htc, hk⟩ := hs.transport_cfg ht
  simp only [tKey, tcKey, Prod.mk.injEq] at hk
  have h1 := findE_of_mem (key := fun (y : TransportCfg) => y.id) w.trNodup htc .invalidValue
  simp only [← hk.1] at h1
  have hmem : tc.buf ∈ allBufCfgs inst := by
    unfold allBufCfgs
    exact List.mem_append.mpr (Or.inr (List.mem_map.mpr ⟨tc, htc, rfl⟩))
  have h2 := findE_of_mem (key := fun (y : BufCfg) => y.id) w.bufNodup hmem .invalidValue
  simp only [← hk.2] at h2
  exact ⟨tc, htc, h1, hk.1.symm, h2⟩

theorem switchBuffer_total {from_ to : BufState} {j : JobState} {c : BufCfg} (hin : j.id ∈ from_.store)
    (hc : getBufCfg (allBufCfgs inst) to.id = .ok c) (hroom : (to.store.length : Int) < c.cap) :
    ∃ f' t', switchBuffer inst from_ to j = .ok (f', t', { j with loc := to.id }) ∧ f'.id = from_.id := by
  have hcont : from_.store.contains j.id = true := List.contains_iff_mem.mpr hin
  obtain ⟨t', ht'⟩ := putInBuffer_of_room j hroom
  unfold switchBuffer
  simp only [hcont, Bool.not_true, Bool.false_eq_true, if_false, removeFromBuffer, hc, ht',
    pure, bind, Except.bind, Except.pure]
  exact ⟨_, _, rfl, rfl⟩


/-- (PICKUP | WAITINGPICKUP) → TRANSIT: the AGV takes the job out of the buffer it lies in -/
theorem toTransit_total (w : WF inst) (hC : Classic inst) {s : State} (hI : StructInv inst s) (hS : SchedInv s)
    (hA : AgvFull inst s) {t : TransportState} (ht : t ∈ s.transports) (hst : t.st = .pickup ∨ t.st = .waitingpickup)
    {j : JobState} (hj : j ∈ s.jobs) (hloc : j.loc ∈ pickupPlaces inst) (hnr : j.running = false)
    (hfresh : j.loc ∈ inst.buffers.map (·.id) → ∃ o, j.nextIdle? = some o) (r : Rng) :
    transitionValid s ⟨.t t.id, .t .transit, some j.id⟩ = .ok true ∧
    ∃ s' r', applyTransition orc inst s r ⟨.t t.id, .t .transit, some j.id⟩ = .ok (s', r') := by
  have hs := hI.shape
  have hgt := getTransport_of_mem (hs.trNodup w) ht
  constructor
  · simp only [transitionValid, hgt, except_bind_ok, except_pure, transportTransitionValid]
    rcases hst with e | e <;> rw [e] <;> rfl
  obtain ⟨tc, htc, hgtc, htcid, hgbc⟩ := transportCfg_of_mem w hs ht
  have hty := hC.allAgv tc htc
  have hah : agvHandler t.st .transit = some .pickupToTransit := by
    rcases hst with e | e <;> rw [e] <;> rfl
  have hempty : t.buffer.store = [] := hA.agv.empty t ht (by rcases hst with e | e <;> rw [e] <;> simp)
  have hroom : (t.buffer.store.length : Int) < tc.buf.cap := by
    rw [hempty]; have := hC.roomAgv tc htc; simp; omega
  obtain ⟨dst, hdst, hdl, hdm⟩ := dropLoc_notDone_total w hC hI hS hj hnr
  -- the buffer the job lies in
  have h1 := hI.cons.located (j.id, j.loc) (List.mem_map.mpr ⟨j, hj, rfl⟩)
  simp only at h1
  simp only [applyTransition, hgt, except_bind_ok, handleTransportTransition, hgtc, hty, trTypeHandled,
    Bool.not_true, Bool.false_eq_true, if_false, agvHandlerOf, hah, except_pure,
    handleAgvPickupToTransit, getJob_of_mem (hs.jobsNodup w) hj, hdst]
  unfold pickupPlaces at hloc
  rcases List.mem_append.mp hloc with hloc | hloc
  · -- a standalone buffer
    obtain ⟨bc, hbc, hbcid⟩ := List.mem_map.mp hloc
    have hbc' := (List.mem_filter.mp hbc).1
    have hsrc : machineIdOfBuffer inst.machines j.loc = none := by
      rw [← hbcid]; exact machineIdOfBuffer_standalone w hbc'
    obtain ⟨m, rfl⟩ := hdm (hfresh (List.mem_map.mpr ⟨bc, hbc', hbcid⟩))
    have hsl : Loc.b j.loc ∈ locsOf inst := by
      unfold locsOf
      exact List.mem_append.mpr (Or.inr (List.mem_map.mpr ⟨bc, hbc', by rw [hbcid]⟩))
    have htt := travelTimeFromSpec_classic (orc := orc) hC hsl hdl (by rintro ⟨_, _, h⟩; cases h) r
    have : j.loc ∈ s.buffers.map (·.id) := by rw [hs.buffers, ← hbcid]; exact List.mem_map.mpr ⟨bc, hbc', rfl⟩
    obtain ⟨fb, hfb, hfbid⟩ := List.mem_map.mp this
    have hgb : getBufState s.buffers j.loc = .ok fb := by
      have := findE_of_mem (key := fun (y : BufState) => y.id) (hs.bufsNodup w) hfb .invalidValue
      simp only [hfbid] at this
      exact this
    have hin : j.id ∈ fb.store := by
      rw [← storeAt_of_mem (hs.bufNodup w) (mem_allBufs_of_buffer hfb), hfbid]; exact h1
    obtain ⟨f', t', hsw, _⟩ := switchBuffer_total (inst := inst) hin hgbc hroom
    simp only [hsrc, htt, except_bind_ok, hgb, hsw]
    exact ⟨_, _, rfl⟩
  · -- a post-buffer
    obtain ⟨mc, hmc, hmcid⟩ := List.mem_map.mp hloc
    have hsrc : machineIdOfBuffer inst.machines j.loc = some mc.id := by
      rw [← hmcid]; exact machineIdOfBuffer_post w hmc
    have hsl : Loc.m mc.id ∈ locsOf inst := by
      unfold locsOf
      exact List.mem_append.mpr (Or.inl (List.mem_map.mpr ⟨mc, hmc, rfl⟩))
    have htt := travelTimeFromSpec_classic (orc := orc) hC hsl hdl (by rintro ⟨⟨_, h⟩, _⟩; cases h) r
    obtain ⟨ms, hms, hk⟩ := mem_of_map_eq hs.machines.symm hmc
    simp only [mKey, mcKey, Prod.mk.injEq] at hk
    have hgm : getMachine s.machines mc.id = .ok ms := by
      rw [hk.1]; exact getMachine_of_mem (hs.machNodup w) hms
    have hne := machine_buf_ids_ne hs w hms
    have hpid : j.loc = ms.post.id := by rw [← hmcid, hk.2.2.2]
    have hbm : bufOfMachine ms j.loc = .ok ms.post := by
      unfold bufOfMachine
      rw [hpid]
      simp [hne.2.1.symm, hne.2.2.symm]
    have hin : j.id ∈ ms.post.store := by
      rw [← storeAt_of_mem (hs.bufNodup w) (mem_allBufs_of_machine hms).2.2, ← hpid]; exact h1
    obtain ⟨f', t', hsw, hfid⟩ := switchBuffer_total (inst := inst) hin hgbc hroom
    have hrep : ∃ ms', replaceBufInMachine ms f' = .ok ms' := by
      unfold replaceBufInMachine
      rw [hfid]
      simp [hne.2.1.symm, hne.2.2.symm]
    obtain ⟨ms', hms'⟩ := hrep
    simp only [hsrc, htt, except_bind_ok, hgm, hbm, hsw, hms']
    exact ⟨_, _, rfl⟩


/-- a job carried by an AGV lies in no other buffer -/
theorem carried_not_elsewhere (w : WF inst) {s : State} (hI : StructInv inst s) {t : TransportState} (ht : t ∈ s.transports)
    {x : Nat} (hx : x ∈ t.buffer.store) {b : BufState} (hb : b ∈ allBufStates s) (hne : b.id ≠ t.buffer.id) :
    x ∉ b.store := by
  intro hin
  have hnd := hI.shape.bufNodup w
  have h1 := hI.cons.stored t.buffer.id x (by rw [storeAt_of_mem hnd (mem_allBufs_of_transport ht)]; exact hx)
  have h2 := hI.cons.stored b.id x (by rw [storeAt_of_mem hnd hb]; exact hin)
  exact hne (unique_loc (hI.shape.jobsNodup w) h2 h1)

/-- delivery into a buffer of the state that takes all jobs of the shop -/
theorem deliver_room (w : WF inst) {s : State} (hI : StructInv inst s) {t : TransportState} (ht : t ∈ s.transports)
    {j : JobState} (hj : j ∈ s.jobs) (hx : j.id ∈ t.buffer.store) {b : BufState} (hb : b ∈ allBufStates s)
    (hne : b.id ≠ t.buffer.id) {c : BufCfg} (hc : c ∈ allBufCfgs inst) (hid : c.id = b.id)
    (hcap : (inst.jobs.length : Int) ≤ c.cap) :
    ∃ f' t', switchBuffer inst t.buffer b j = .ok (f', t', { j with loc := b.id }) ∧ f'.id = t.buffer.id := by
  have hgc : getBufCfg (allBufCfgs inst) b.id = .ok c := by
    have := findE_of_mem (key := fun (y : BufCfg) => y.id) w.bufNodup hc .invalidValue
    simp only [hid] at this
    exact this
  have := store_room w hI hb ⟨j, hj, rfl⟩ (carried_not_elsewhere w hI ht hx hb hne)
  exact switchBuffer_total hx hgc (by omega)

/-- TRANSIT → OUTAGE: the AGV delivers the job it carries into the pre-buffer of the target machine or into
the output buffer -/
theorem transitToOutage_total (w : WF inst) (hC : Classic inst) {s : State} (hI : StructInv inst s) (hS : SchedInv s)
    (hA : AgvFull inst s) {t : TransportState} (ht : t ∈ s.transports) (hst : t.st = .transit)
    {j : JobState} (hj : j ∈ s.jobs) (hstore : t.buffer.store = [j.id]) (r : Rng) :
    transitionValid s ⟨.t t.id, .t .outage, some j.id⟩ = .ok true ∧
    ∃ s' r', applyTransition orc inst s r ⟨.t t.id, .t .outage, some j.id⟩ = .ok (s', r') := by
  have hs := hI.shape
  have hgt := getTransport_of_mem (hs.trNodup w) ht
  constructor
  · simp only [transitionValid, hgt, except_bind_ok, except_pure, transportTransitionValid]
    rw [hst]; rfl
  obtain ⟨tc, htc, hgtc, htcid, hgbc⟩ := transportCfg_of_mem w hs ht
  have hty := hC.allAgv tc htc
  have hout := hC.noOutT tc htc
  have hah : agvHandler t.st .outage = some .transitToOutage := by rw [hst]; rfl
  have hx : j.id ∈ t.buffer.store := by rw [hstore]; simp
  have hjob := hA.route.transitOwn t ht hst j.id hx
  obtain ⟨cur, pick, drop, hloc, hdrop⟩ := hA.route.route t ht j.id hjob j hj rfl
  simp only [applyTransition, hgt, except_bind_ok, handleTransportTransition, hgtc, hty, trTypeHandled,
    Bool.not_true, Bool.false_eq_true, if_false, agvHandlerOf, hah, except_pure,
    handleAgvTransitToOutage, getJob_of_mem (hs.jobsNodup w) hj, hloc]
  rcases hdrop with ⟨_, o, ho, rfl⟩ | ⟨_, op, hop, rfl⟩
  · -- into the output buffer
    obtain ⟨_, _, bc, hbc, hbcid⟩ := firstOutput_place ho
    have : o ∈ s.buffers.map (·.id) := by rw [hs.buffers, ← hbcid]; exact List.mem_map.mpr ⟨bc, hbc, rfl⟩
    obtain ⟨fb, hfb, hfbid⟩ := List.mem_map.mp this
    have hgb : getBufState s.buffers o = .ok fb := by
      have := findE_of_mem (key := fun (y : BufState) => y.id) (hs.bufsNodup w) hfb .invalidValue
      simp only [hfbid] at this
      exact this
    have hbca : bc ∈ allBufCfgs inst := by
      unfold allBufCfgs
      exact List.mem_append.mpr (Or.inl (List.mem_append.mpr (Or.inl hbc)))
    obtain ⟨f', t', hsw, _⟩ := deliver_room w hI ht hj hx (mem_allBufs_of_buffer hfb)
      ((ids_parts hs w).2.1 fb hfb t ht) hbca (by rw [hbcid, hfbid]) (hC.roomB bc hbc)
    simp only [getCompByLoc, hgb, except_map'_ok, except_bind_ok, completeTransportTask, hsw, hgtc, hout,
      newOutageStates, except_pure]
    exact ⟨_, _, rfl⟩
  · -- into the pre-buffer of the next machine
    have hloc := op_machine_mem_locs w hs hj (find?_mem_ops hop).1
    unfold locsOf at hloc
    rcases List.mem_append.mp hloc with h | h
    · obtain ⟨mc, hmc, e⟩ := List.mem_map.mp h
      simp only [Loc.m.injEq] at e
      obtain ⟨ms, hms, hk⟩ := mem_of_map_eq hs.machines.symm hmc
      simp only [mKey, mcKey, Prod.mk.injEq] at hk
      have hgm : getMachine s.machines op.machine = .ok ms := by
        rw [← e, hk.1]; exact getMachine_of_mem (hs.machNodup w) hms
      obtain ⟨f', t', hsw, _⟩ := deliver_room w hI ht hj hx (mem_allBufs_of_machine hms).1
        (((ids_parts hs w).2.2 ms hms t ht).1) (mem_allBufCfgs_of_machine hmc).1 hk.2.1 (hC.roomPre mc hmc)
      simp only [getCompByLoc, hgm, except_map'_ok, except_bind_ok, completeTransportTask, hsw, hgtc, hout,
        newOutageStates, except_pure]
      exact ⟨_, _, rfl⟩
    · obtain ⟨_, _, e⟩ := List.mem_map.mp h
      cases e


end JSL
