import JSL.Gen.Tables

/-! Facts about the regenerated dispatch tables (re-checked by `decide` on every run). -/

namespace JSL

theorem machineHandler_idleToSetup {a b : MSt} (h : machineHandler a b = some .idleToSetup) : a = .idle ∧ b = .setup := by
  cases a <;> cases b <;> first | exact ⟨rfl, rfl⟩ | exact absurd h (by decide)
theorem machineHandler_setupToWorking {a b : MSt} (h : machineHandler a b = some .setupToWorking) :
    a = .setup ∧ b = .working := by
  cases a <;> cases b <;> first | exact ⟨rfl, rfl⟩ | exact absurd h (by decide)
theorem machineHandler_workingToOutage {a b : MSt} (h : machineHandler a b = some .workingToOutage) :
    a = .working ∧ b = .outage := by
  cases a <;> cases b <;> first | exact ⟨rfl, rfl⟩ | exact absurd h (by decide)
theorem machineHandler_outageToIdle {a b : MSt} (h : machineHandler a b = some .outageToIdle) :
    a = .outage ∧ b = .idle := by
  cases a <;> cases b <;> first | exact ⟨rfl, rfl⟩ | exact absurd h (by decide)

theorem agvHandler_pickupToTransit {a b : TSt} (h : agvHandler a b = some .pickupToTransit) :
    b = .transit ∧ (a = .pickup ∨ a = .waitingpickup) := by
  cases a <;> cases b <;> first | exact ⟨rfl, Or.inl rfl⟩ | exact ⟨rfl, Or.inr rfl⟩ | exact absurd h (by decide)
theorem agvHandler_pickupToWaiting {a b : TSt} (h : agvHandler a b = some .pickupToWaitingpickup) :
    b = .waitingpickup ∧ a = .pickup := by
  cases a <;> cases b <;> first | exact ⟨rfl, rfl⟩ | exact absurd h (by decide)
theorem agvHandler_waitingToWaiting {a b : TSt} (h : agvHandler a b = some .waitingPickupToWaitingPickup) :
    b = .waitingpickup ∧ a = .waitingpickup := by
  cases a <;> cases b <;> first | exact ⟨rfl, rfl⟩ | exact absurd h (by decide)
theorem agvHandler_outageToIdle {a b : TSt} (h : agvHandler a b = some .outageToIdle) : a = .outage ∧ b = .idle := by
  cases a <;> cases b <;> first | exact ⟨rfl, rfl⟩ | exact absurd h (by decide)
theorem agvHandler_idleToWorking {a b : TSt} (h : agvHandler a b = some .idleToWorking) : a = .idle ∧ b = .working := by
  cases a <;> cases b <;> first | exact ⟨rfl, rfl⟩ | exact absurd h (by decide)
theorem agvHandler_transitToOutage {a b : TSt} (h : agvHandler a b = some .transitToOutage) :
    b = .outage ∧ (a = .transit ∨ a = .working) := by
  cases a <;> cases b <;> first | exact ⟨rfl, Or.inl rfl⟩ | exact ⟨rfl, Or.inr rfl⟩ | exact absurd h (by decide)

end JSL
