import JSL.Inv.TotalOut

/-!
# The offer computation and the teleport filter never raise

For an instance of the class `TotClass` and a state satisfying `TotInv`:
`possibleTransitions`, `numPossibleEvents` and `filterTeleport` return.
-/

namespace JSL

variable {inst : Instance}

/-! ## generic: `filterE` and `mapM` over total functions -/

theorem filterE_ok_of_forall {α} {p : α → Except Err Bool} :
    ∀ {l : List α}, (∀ a ∈ l, ∃ b, p a = .ok b) → ∃ r, filterE p l = .ok r
  | [], _ => ⟨[], rfl⟩
  | a :: as, h => by
    obtain ⟨b, hb⟩ := h a (by simp)
    obtain ⟨r, hr⟩ := filterE_ok_of_forall (l := as) (fun x hx => h x (by simp [hx]))
    simp only [filterE, hb, hr, except_bind_ok, except_pure]
    exact ⟨_, rfl⟩

theorem mapM_ok_of_forallT {α β} {f : α → Except Err β} :
    ∀ {l : List α}, (∀ a ∈ l, ∃ b, f a = .ok b) → ∃ r, l.mapM f = .ok r
  | [], _ => ⟨[], by simp [List.mapM_nil]⟩
  | a :: as, h => by
    obtain ⟨b, hb⟩ := h a (by simp)
    obtain ⟨r, hr⟩ := mapM_ok_of_forallT (l := as) (fun x hx => h x (by simp [hx]))
    rw [List.mapM_cons]
    simp only [hb, hr, except_bind_ok, except_pure]
    exact ⟨_, rfl⟩

theorem except_bind_totalT {α β} {x : Except Err α} {f : α → Except Err β} (hx : ∃ a, x = .ok a)
    (hf : ∀ a, x = .ok a → ∃ b, f a = .ok b) : ∃ b, (x >>= f) = .ok b := by
  obtain ⟨a, ha⟩ := hx
  obtain ⟨b, hb⟩ := hf a ha
  exact ⟨b, by rw [ha]; exact hb⟩

/-! ## operation records -/

/-- the machine an operation record of the state is routed to exists in the state -/
theorem machine_of_op (w : WF inst) {s : State} (hs : Shape inst s) {j : JobState} (hj : j ∈ s.jobs)
    {o : OpState} (ho : o ∈ j.ops) : ∃ m ∈ s.machines, m.id = o.machine ∧ getMachine s.machines o.machine = .ok m := by
  obtain ⟨oc, _, hoc, hm⟩ := getOpCfg_of_mem w hs hj ho
  obtain ⟨jc, hjc, hocj⟩ := List.mem_flatMap.mp hoc
  obtain ⟨mc, hmc, hid⟩ := w.opMachine jc hjc oc hocj
  have : mc.id ∈ s.machines.map (·.id) := by rw [hs.machineIds]; exact List.mem_map.mpr ⟨mc, hmc, rfl⟩
  obtain ⟨m, hmm, e⟩ := List.mem_map.mp this
  have e' : m.id = o.machine := by rw [e, hid, hm]
  refine ⟨m, hmm, e', ?_⟩
  rw [← e']
  exact getMachine_of_mem (hs.machNodup w) hmm

theorem nextNotDone_of_idleT {j : JobState} {o : OpState} (ho : o ∈ j.ops) (hi : o.st = .idle) :
    ∃ op, j.nextNotDone = .ok op ∧ op ∈ j.ops := by
  unfold JobState.nextNotDone JobState.nextNotDone?
  cases hf : j.ops.find? (fun x => x.st != .done) with
  | none =>
    have := List.find?_eq_none.mp hf o ho
    simp [hi] at this
  | some op => exact ⟨op, rfl, List.mem_of_find?_eq_some hf⟩

theorem nextIdle_mem {j : JobState} {o : OpState} (h : j.nextIdle? = some o) : o ∈ j.ops ∧ o.st = .idle := by
  unfold JobState.nextIdle? at h
  exact ⟨List.mem_of_find?_eq_some h, by simpa using List.find?_some h⟩

/-- a job that is not running and not finished has an idle record -/
theorem nextIdle_of_not_allDone {now : Int} {j : JobState} (hok : OpsOK now none j.ops) (hr : j.running = false)
    (hd : j.allDone = false) : ∃ o, j.nextIdle? = some o := by
  unfold JobState.allDone at hd
  have : ∃ o ∈ j.ops, o.st ≠ .done := by
    apply Classical.byContradiction
    intro hno
    have : j.ops.all (·.st == .done) = true := by
      apply List.all_eq_true.mpr
      intro o ho
      apply Classical.byContradiction
      intro hn
      exact hno ⟨o, ho, by simpa using hn⟩
    rw [this] at hd; cases hd
  obtain ⟨o, ho, hnd⟩ := this
  have hnt := (OpsOK_mem _ _ hok o ho).2.2
  have hnp : o.st ≠ .processing := by
    intro e
    unfold JobState.running at hr
    have : j.ops.any (·.st == .processing) = true := List.any_eq_true.mpr ⟨o, ho, by simp [e]⟩
    rw [hr] at this; cases this
  have hi : o.st = .idle := by
    cases h : o.st <;> simp_all
  unfold JobState.nextIdle?
  cases hf : j.ops.find? (fun x => x.st == .idle) with
  | none =>
    have := List.find?_eq_none.mp hf o ho
    simp [hi] at this
  | some o' => exact ⟨o', rfl⟩

/-! ## `actionPossible` -/

theorem nextOpFree_split {j : JobState} (h : j.nextOpFree = true) : j.running = false ∧ ∃ o, j.nextIdle? = some o := by
  unfold JobState.nextOpFree at h
  unfold JobState.nextIdle?
  simp only [Bool.and_eq_true, Bool.not_eq_true', List.any_eq_true] at h
  obtain ⟨h1, x, hx, hp⟩ := h
  refine ⟨h1, ?_⟩
  cases hf : j.ops.find? (fun x => x.st == .idle) with
  | none => exact absurd hp (by simpa using List.find?_eq_none.mp hf x hx)
  | some o => exact ⟨o, rfl⟩

theorem actionPossible_totalT (w : WF inst) (C : TotClass inst) {s : State} (hV : TotInv inst s) {j : JobState}
    (hj : j ∈ s.jobs) : ∃ b, actionPossible inst s j = .ok b := by
  have hs := hV.struct.shape
  unfold actionPossible
  by_cases hfree : j.nextOpFree = true
  · obtain ⟨hrun, o, ho⟩ := nextOpFree_split hfree
    obtain ⟨hom, hoi⟩ := nextIdle_mem ho
    obtain ⟨op, hnn, hopm⟩ := nextNotDone_of_idleT hom hoi
    obtain ⟨m, _, _, hgm⟩ := machine_of_op w hs hj hopm
    cases ht0 : inst.transports with
    | nil => exact absurd ht0 C.agvOnly.ne
    | cons t0 ts =>
      have hty : t0.type = .agv := C.agvOnly.agv t0 (by rw [ht0]; simp)
      simp only [hfree, hty, hnn, hgm, jobAtMachine, bind, Except.bind, pure, Except.pure]
      have hne : (TrType.agv == TrType.teleporter) = false := by decide
      simp only [hne, Bool.not_true, Bool.false_eq_true, if_false]
      split <;> exact ⟨_, rfl⟩
  · simp only [hfree, bind, Except.bind, pure, Except.pure]
    exact ⟨_, rfl⟩

/-! ## `possibleTransports` -/

theorem possibleTransports_totalT {s : State} (hs : Shape inst s) : ∃ ts, possibleTransports inst s = .ok ts := by
  unfold possibleTransports
  apply except_bind_totalT
  · apply mapM_ok_of_forallT
    intro t ht
    have : t.id ∈ inst.transports.map (·.id) := by rw [← hs.transportIds]; exact List.mem_map.mpr ⟨t, ht, rfl⟩
    obtain ⟨tc, htc, e⟩ := List.mem_map.mp this
    obtain ⟨tc', htc'⟩ := findE_of_exists (p := fun (c : TransportCfg) => c.id == t.id) .invalidKey htc (by simp [e])
    rw [htc']
    exact ⟨_, rfl⟩
  · intro l _
    exact ⟨_, rfl⟩

/-! ## `transportable` -/

theorem transportable_totalT (w : WF inst) {s : State} (hs : Shape inst s) (hS : SchedInv s) {j : JobState}
    (hj : j ∈ s.jobs) (hr : j.running = false) : ∃ b, transportable inst s j = .ok b := by
  unfold transportable
  by_cases hd : jobDone inst j = true
  · simp only [hd, bind, Except.bind, pure, Except.pure]
    exact ⟨_, rfl⟩
  · by_cases hall : j.allDone = true
    · simp only [hd, hall, bind, Except.bind, pure, Except.pure]
      exact ⟨_, rfl⟩
    · have hall' : j.allDone = false := by simpa using hall
      obtain ⟨o, ho⟩ := nextIdle_of_not_allDone (hS.ops j hj) hr hall'
      obtain ⟨hom, hoi⟩ := nextIdle_mem ho
      obtain ⟨op, hnn, _⟩ := nextNotDone_of_idleT hom hoi
      obtain ⟨m, _, _, hgm⟩ := machine_of_op w hs hj hom
      simp only [hd, hall, ho, hgm, jobAtMachine, hnn, bind, Except.bind, pure, Except.pure]
      cases (m.pre.id == j.loc) <;> exact ⟨_, rfl⟩

/-! ## `readyForPickup` -/

/-- `is_job_ready_for_pickup_from_postbuffer` returns for every job of the state: the job is stored
in the buffer its location names, so its position is found -/
theorem readyForPickup_located_total (w : WF inst) {s : State} (hI : StructInv inst s) {j : JobState}
    (hj : j ∈ s.jobs) : ∃ b, readyForPickup inst s j = .ok b := by
  have hs := hI.shape
  have hst : j.id ∈ storeAt s j.loc := hI.cons.located (j.id, j.loc) (List.mem_map.mpr ⟨j, hj, rfl⟩)
  obtain ⟨b, hb, hbid, hbs⟩ := storeAt_mem hst
  have hin : j.id ∈ b.store := by rw [← hbs]; exact hst
  obtain ⟨bc, _, _, hgc⟩ := getBufCfg_of_state w hs hb
  have hgs := getBufState_of_mem w hs hb
  rw [hbid] at hgc hgs
  unfold readyForPickup
  simp only [hgs, hgc, except_bind_ok]
  cases hidx : b.store.idxOf? j.id with
  | none => exact absurd hin (List.idxOf?_eq_none_iff.mp hidx)
  | some q => exact ⟨_, rfl⟩

/-! ## the dispatch offers -/

theorem possibleTransportTransitions_totalT (w : WF inst) {s : State} (hV : TotInv inst s) (cfg : SMConfig) :
    ∃ pt, possibleTransportTransitions inst cfg s = .ok pt := by
  have hs := hV.struct.shape
  obtain ⟨ts, hts⟩ := possibleTransports_totalT (inst := inst) hs
  obtain ⟨idle, hidle⟩ := filterE_ok_of_forall (p := transportable inst s) (l := s.jobs.filter (!·.running))
    (fun j hj => by
      obtain ⟨hj1, hj2⟩ := List.mem_filter.mp hj
      exact transportable_totalT w hs hV.sched hj1 (by simpa using hj2))
  have hidleMem : ∀ j ∈ idle, j ∈ s.jobs := fun j hj => (List.mem_filter.mp (filterE_ok hidle j hj).1).1
  have hlon : ∃ lonely, earlyFilter inst cfg s ((s.jobs.filter (·.running) ++ idle).filter
      fun j => !(s.transports.filterMap (·.job)).contains j.id) = .ok lonely := by
    unfold earlyFilter
    by_cases he : cfg.allowEarly = true
    · rw [if_pos he]; exact ⟨_, rfl⟩
    · rw [if_neg he]
      apply filterE_ok_of_forall
      intro j hj
      have hjs : j ∈ s.jobs := by
        rcases List.mem_append.mp (List.mem_filter.mp hj).1 with h | h
        · exact (List.mem_filter.mp h).1
        · exact hidleMem j h
      exact readyForPickup_located_total w hV.struct hjs
  obtain ⟨lonely, hlonely⟩ := hlon
  unfold possibleTransportTransitions
  simp only [hts, hidle, hlonely, except_bind_ok, except_pure]
  exact ⟨_, rfl⟩

/-! ## the offers -/

theorem possibleJobs_totalT (w : WF inst) (C : TotClass inst) {s : State} (hV : TotInv inst s) :
    ∃ pj, possibleJobs inst s = .ok pj :=
  filterE_ok_of_forall (fun _ hj => actionPossible_totalT w C hV hj)

theorem possibleTransitions_totalT (w : WF inst) (C : TotClass inst) {s : State} (hV : TotInv inst s) (cfg : SMConfig) :
    ∃ p, possibleTransitions inst cfg s = .ok p := by
  obtain ⟨pj, hpj⟩ := possibleJobs_totalT w C hV
  obtain ⟨pt, hpt⟩ := possibleTransportTransitions_totalT w hV cfg
  unfold possibleTransitions
  rw [hpj, hpt]
  simp only [except_bind_ok]
  apply except_bind_totalT
  · apply mapM_ok_of_forallT
    intro j hj
    have hap := (filterE_ok hpj j hj).2
    have hfree : j.nextOpFree = true := by
      unfold actionPossible at hap
      cases hf : j.nextOpFree with
      | true => rfl
      | false => simp [hf] at hap
    obtain ⟨_, o, ho⟩ := nextOpFree_split hfree
    simp only [ho, except_pure]
    exact ⟨_, rfl⟩
  · intro mt _
    exact ⟨_, rfl⟩

theorem numPossibleEvents_totalT (w : WF inst) (C : TotClass inst) {s : State} (hV : TotInv inst s) (cfg : SMConfig) :
    ∃ n, numPossibleEvents inst cfg s = .ok n := by
  obtain ⟨pj, hpj⟩ := possibleJobs_totalT w C hV
  obtain ⟨pt, hpt⟩ := possibleTransportTransitions_totalT w hV cfg
  unfold numPossibleEvents
  simp only [hpj, hpt, except_bind_ok, except_pure]
  exact ⟨_, rfl⟩

/-! ## the travel time of an offer -/

theorem machineCfg_of_op (w : WF inst) {s : State} (hs : Shape inst s) {j : JobState} (hj : j ∈ s.jobs)
    {o : OpState} (ho : o ∈ j.ops) : ∃ mc ∈ inst.machines, mc.id = o.machine := by
  obtain ⟨oc, _, hoc, hm⟩ := getOpCfg_of_mem w hs hj ho
  obtain ⟨jc, hjc, hocj⟩ := List.mem_flatMap.mp hoc
  obtain ⟨mc, hmc, hid⟩ := w.opMachine jc hjc oc hocj
  exact ⟨mc, hmc, by rw [hid, hm]⟩

theorem noOpIdle_false_of_idle {j : JobState} {o : OpState} (ho : o ∈ j.ops) (hi : o.st = .idle) :
    j.noOpIdle = false := by
  unfold JobState.noOpIdle
  cases h : j.ops.all (·.st != .idle) with
  | false => rfl
  | true =>
    have := List.all_eq_true.mp h o ho
    simp [hi] at this

theorem nextIdle_of_not_noOpIdleT {j : JobState} (h : j.noOpIdle = false) : ∃ o, j.nextIdle? = some o := by
  unfold JobState.nextIdle?
  cases hf : j.ops.find? (fun x => x.st == .idle) with
  | some o => exact ⟨o, rfl⟩
  | none =>
    exfalso
    have hn := List.find?_eq_none.mp hf
    have : j.noOpIdle = true := by
      unfold JobState.noOpIdle
      apply List.all_eq_true.mpr
      intro x hx
      simpa using hn x hx
    rw [this] at h; cases h

theorem firstOutput_mem_stands {o : Nat} (h : firstOutput inst = .ok o) : Loc.b o ∈ stands inst := by
  unfold stands
  apply List.mem_append.mpr; right
  unfold firstOutput at h
  cases hob : outputBuffers inst with
  | nil => simp [hob] at h
  | cons b bs => simp [hob] at h; simp [h]

theorem machine_mem_stands {mc : MachineCfg} (h : mc ∈ inst.machines) : Loc.m mc.id ∈ stands inst := by
  unfold stands
  exact List.mem_append.mpr (Or.inl (List.mem_map.mpr ⟨mc, h, rfl⟩))

theorem machine_mem_sources {mc : MachineCfg} (h : mc ∈ inst.machines) : Loc.m mc.id ∈ sources inst := by
  unfold sources
  exact List.mem_append.mpr (Or.inl (List.mem_map.mpr ⟨mc, h, rfl⟩))

/-- where the job is taken to, as `travelTimeForTransport` computes it -/
def ttNxt (inst : Instance) (j : JobState) : Except Err Loc :=
  if j.noOpIdle then (firstOutput inst).map Loc.b
  else match j.nextIdle? with
    | some o => pure (Loc.m o.machine) | none => throw .typeError

/-- where the job lies, as `travelTimeForTransport` computes it -/
def ttCur (bc : BufCfg) (j : JobState) : Except Err Loc :=
  match bc.parent with
  | some (.m mid) => pure (Loc.m mid)
  | some (.b n) => pure (Loc.b n)
  | some (.t _) => throw .notImplemented
  | none => pure (Loc.b j.loc)

theorem travelTime_factored (orc : Oracle) (inst : Instance) (r : Rng) (s : State) (jid : Option Nat) :
    travelTimeForTransport orc inst r s jid = (do
      let j ← getJobOpt s.jobs jid
      let bc ← getBufCfg (allBufCfgs inst) j.loc
      let nxt ← ttNxt inst j
      let cur ← ttCur bc j
      if cur == nxt then pure 0 else
      match travelCfg inst cur nxt with
      | some c => pure (c.cur orc r)
      | none => throw .notImplemented) := by
  unfold travelTimeForTransport ttNxt
  cases getJobOpt s.jobs jid with
  | error e => rfl
  | ok j =>
    simp only [except_bind_ok]
    cases getBufCfg (allBufCfgs inst) j.loc with
    | error e => rfl
    | ok bc =>
      simp only [except_bind_ok]
      by_cases h : j.noOpIdle = true
      · simp only [h, if_true]
        rfl
      · simp only [h]
        cases j.nextIdle? with
        | none => rfl
        | some o => rfl

/-- the drop-off place of a job of the state is computed, and it is one of `stands` -/
theorem nxt_total (w : WF inst) (C : TotClass inst) {s : State} (hs : Shape inst s) {j : JobState} (hj : j ∈ s.jobs) :
    ∃ nxt, ttNxt inst j = .ok nxt ∧
      nxt ∈ stands inst ∧ (j.noOpIdle = false → nxt.isBuf = false) := by
  unfold ttNxt
  by_cases hn : j.noOpIdle = true
  · obtain ⟨o, ho⟩ := C.tables.output
    refine ⟨Loc.b o, by simp [hn, ho], firstOutput_mem_stands ho, fun h => by rw [hn] at h; cases h⟩
  · have hn' : j.noOpIdle = false := by simpa using hn
    obtain ⟨o, ho⟩ := nextIdle_of_not_noOpIdleT hn'
    obtain ⟨mc, hmc, hid⟩ := machineCfg_of_op w hs hj (nextIdle_mem ho).1
    refine ⟨Loc.m o.machine, by simp [hn', ho], by rw [← hid]; exact machine_mem_stands hmc, fun _ => rfl⟩

/-- the travel time of a machine start on offer: the job lies in front of the machine -/
theorem travelTime_machine_offer (w : WF inst) (C : TotClass inst) {s : State} (hV : TotInv inst s) {j : JobState}
    (hj : j ∈ s.jobs) {o : OpState} (hap : actionPossible inst s j = .ok true) (hn : j.nextIdle? = some o)
    (orc : Oracle) (r : Rng) : travelTimeForTransport orc inst r s (some j.id) = .ok 0 := by
  have hs := hV.struct.shape
  obtain ⟨m, hgm, _, hloc, _⟩ := actionPossible_facts hV.sched hj hap hn
  obtain ⟨hm, hmid⟩ := getMachine_ok hgm
  obtain ⟨mc, hmc, hk⟩ := hs.machine_cfg hm
  simp only [mKey, mcKey, Prod.mk.injEq] at hk
  have hget := findE_of_mem (key := fun (y : BufCfg) => y.id) w.bufNodup (mem_allBufCfgs_of_machine hmc).1 Err.invalidValue
  have hget' : getBufCfg (allBufCfgs inst) j.loc = .ok mc.pre := by
    rw [← hloc, hk.2.1]; exact hget
  have hpar := (C.parents.machine mc hmc).1
  have hno := noOpIdle_false_of_idle (nextIdle_mem hn).1 (nextIdle_mem hn).2
  have hgj : getJobOpt s.jobs (some j.id) = .ok j := getJob_of_mem (hs.jobsNodup w) hj
  have hid : mc.id = o.machine := by rw [← hk.1, hmid]
  unfold travelTimeForTransport
  simp [hgj, hget', hpar, hno, hn, hid]

/-- the travel time of a dispatch on offer -/
theorem travelTime_dispatch_offer (w : WF inst) (C : TotClass inst) {s : State} (hV : TotInv inst s) {j : JobState}
    (hj : j ∈ s.jobs) (hfree : ∀ x ∈ s.transports, x.job ≠ some j.id)
    (hkind : j.running = true ∨ transportable inst s j = .ok true)
    (hnpre : ∀ m ∈ s.machines, j.id ∉ m.pre.store) (orc : Oracle) (r : Rng) :
    ∃ t, travelTimeForTransport orc inst r s (some j.id) = .ok t := by
  have hs := hV.struct.shape
  obtain ⟨bc, hbc, hpick, hid⟩ := offered_job_buffer w hV.struct hV.full hj hfree hkind hnpre
  obtain ⟨nxt, hnxt, hst, hnb⟩ := nxt_total w C hs hj
  have hgj : getJobOpt s.jobs (some j.id) = .ok j := getJob_of_mem (hs.jobsNodup w) hj
  -- where the job lies
  have hcur : ∃ cur, ttCur bc j = .ok cur ∧ cur ∈ sources inst ∧
      (cur.isBuf = true → nxt.isBuf = false) := by
    unfold ttCur
    unfold pickupBufs at hpick
    rcases List.mem_append.mp hpick with h | h
    · obtain ⟨hb, hrole⟩ := List.mem_filter.mp h
      have hpar := C.parents.standalone bc hb
      refine ⟨Loc.b j.loc, by simp [hpar], ?_, fun _ => ?_⟩
      · unfold sources
        apply List.mem_append.mpr; right
        exact List.mem_map.mpr ⟨bc, h, by rw [hid]⟩
      · apply hnb
        apply hV.place.inputIdle j hj
        unfold nonOutIds
        exact List.mem_map.mpr ⟨bc, h, hid⟩
    · obtain ⟨mc, hmc, hin⟩ := List.mem_flatMap.mp h
      simp only [List.mem_cons, List.not_mem_nil, or_false] at hin
      have hpar : bc.parent = some (Comp.m mc.id) := by
        rcases hin with e | e
        · rw [e]; exact (C.parents.machine mc hmc).2.1
        · rw [e]; exact (C.parents.machine mc hmc).2.2
      refine ⟨Loc.m mc.id, by simp [hpar], machine_mem_sources hmc, fun h => by simp [Loc.isBuf] at h⟩
  obtain ⟨cur, hcure, hsrc, hbb⟩ := hcur
  rw [travelTime_factored]
  simp only [hgj, hbc, except_bind_ok, hnxt, hcure]
  by_cases heq : (cur == nxt) = true
  · simp only [heq, if_true]; exact ⟨_, rfl⟩
  · simp only [heq]
    rcases C.routes cur hsrc nxt hst with ⟨h1, h2⟩ | h
    · rw [hbb h1] at h2; cases h2
    · obtain ⟨c, hc⟩ := Option.isSome_iff_exists.mp h
      simp only [hc]
      exact ⟨_, rfl⟩

/-! ## `filterTeleport` -/

theorem filterTeleport_totalT (w : WF inst) (C : TotClass inst) {s : State} (hV : TotInv inst s) {cfg : SMConfig}
    {poss : List Transition} (hp : possibleTransitions inst cfg s = .ok poss) (orc : Oracle) (r : Rng) :
    ∃ tele, filterTeleport orc inst r s poss = .ok tele := by
  unfold filterTeleport
  apply except_bind_totalT
  · apply filterE_ok_of_forall
    intro x hx
    have : ∃ t, travelTimeForTransport orc inst r s x.job = .ok t := by
      rcases offer_cases hp x hx with ⟨j, hj, o, hap, hn, rfl⟩ | ⟨pt, hpt, hin⟩
      · exact ⟨_, travelTime_machine_offer w C hV hj hap hn orc r⟩
      · obtain ⟨t, ht, tc, j, hj, rfl, hst, htc, hty, hfree, hkind⟩ := dispatch_offer_facts hpt x hin
        exact travelTime_dispatch_offer w C hV hj hfree hkind
          (offers_not_in_pre w hV.struct hV.sched hV.full.route hp _ hx rfl j.id rfl) orc r
    obtain ⟨t, ht⟩ := this
    rw [ht]
    exact ⟨_, rfl⟩
  · intro l _
    exact ⟨_, rfl⟩

end JSL
