import JSL.Inv.FuelMeasure

/-!
# One applied transition and the measure `fbM`

* `fb_wait_not_late` – after `_get_waiting_time` has been read, the AGV is not behind the machine
  that holds the job it claimed (it waits exactly until the recorded end of the operation);
* `fb_step` – a transition that is neither a machine start nor a dispatch does not raise `fbM`, and
  lowers it unless it is a `WAITINGPICKUP → WAITINGPICKUP` of an AGV that is not behind.
-/

namespace JSL

variable {orc : Oracle} {inst : Instance}

/-- taking a job out of a buffer of a machine keeps the machine's stage and `occupied_till`, and the
internal store does not grow -/
theorem fb_pick_machine_keep {ms ms' : MachineState} {i x : Nat} {bss : BSS} {bs : BufState}
    (hne : ms.pre.id ≠ ms.buffer.id ∧ ms.pre.id ≠ ms.post.id ∧ ms.buffer.id ≠ ms.post.id)
    (hb : bufOfMachine ms i = .ok bs) (h : replaceBufInMachine ms (bs.without x bss) = .ok ms') :
    ms'.id = ms.id ∧ ms'.st = ms.st ∧ ms'.occ = ms.occ ∧ ∀ y ∈ ms'.buffer.store, y ∈ ms.buffer.store := by
  obtain ⟨_, hcase⟩ := bufOfMachine_ok hb
  unfold replaceBufInMachine at h
  simp only [BufState.without_id] at h
  rcases hcase with rfl | rfl | rfl
  · simp at h; subst h; exact ⟨rfl, rfl, rfl, fun y hy => hy⟩
  · have e1 : (ms.buffer.id == ms.pre.id) = false := by simpa using fun e => hne.1 e.symm
    simp [e1] at h; subst h
    refine ⟨rfl, rfl, rfl, ?_⟩
    intro y hy
    simp only [BufState.without_store] at hy
    exact (List.mem_filter.mp hy).1
  · have e1 : (ms.post.id == ms.pre.id) = false := by simpa using fun e => hne.2.1 e.symm
    have e2 : (ms.post.id == ms.buffer.id) = false := by simpa using fun e => hne.2.2 e.symm
    simp [e1, e2] at h; subst h
    exact ⟨rfl, rfl, rfl, fun y hy => hy⟩

/-- **after `_get_waiting_time` the AGV is not behind**: if the job it claimed lies in the internal
buffer of a machine, the time it now waits until is the machine's `occupied_till` -/
theorem fb_wait_not_late (w : WF inst) (P : Parents inst) {s : State} (hI : StructInv inst s) (hS : SchedInv s)
    {t0 : TransportState} {tr : Transition} (hjob : tr.job = t0.job) {occ : Occ}
    (hocc : getWaitingTime inst s tr = .ok occ) : fbLate s.machines (t0.toWaiting occ) = false := by
  have hs := hI.shape
  have hjn := hs.jobsNodup w
  cases hl : fbLate s.machines (t0.toWaiting occ) with
  | false => rfl
  | true =>
    exfalso
    unfold fbLate at hl
    simp only [Bool.and_eq_true, List.any_eq_true] at hl
    obtain ⟨_, m, hm, hf⟩ := hl
    simp only [TransportState.toWaiting] at hf
    cases hj : t0.job with
    | none => simp [hj] at hf
    | some x =>
      cases occ with
      | none => simp [hj] at hf
      | dep a b c => simp [hj] at hf
      | «at» e' =>
        cases hmo : m.occ with
        | none => simp [hj, hmo] at hf
        | some e =>
          simp only [hj, hmo, Bool.and_eq_true, List.contains_iff_mem, decide_eq_true_eq] at hf
          obtain ⟨hx, hlt⟩ := hf
          have hbusy : m.st ≠ .idle := by
            intro hidle; rw [hS.idleEmpty m hm hidle] at hx; cases hx
          obtain ⟨j, hjm, hstore, op, hop, _, hstop, _⟩ := hS.busyHolds m hm hbusy
          rw [hstore] at hx
          have hxj : x = j.id := by simpa using hx
          subst hxj
          have hgj : getJobOpt s.jobs tr.job = .ok j := by rw [hjob, hj]; exact getJob_of_mem hjn hjm
          have hbuf := (mem_allBufs_of_machine hm).2.1
          have hloc : j.loc = m.buffer.id :=
            job_of_store hI.cons hjm (by rw [storeAt_of_mem (hs.bufNodup w) hbuf, hstore]; simp) hjn
          obtain ⟨mc, hmc, hk⟩ := hs.machine_cfg hm
          simp only [mKey, mcKey, Prod.mk.injEq] at hk
          have hget : getBufCfg (allBufCfgs inst) j.loc = .ok mc.buf := by
            have := findE_of_mem (key := fun (y : BufCfg) => y.id) w.bufNodup (mem_allBufCfgs_of_machine hmc).2.1
              Err.invalidValue
            rw [hloc, hk.2.2.1]; exact this
          have hpar := (P.machine mc hmc).2.1
          have hgm : getMachine s.machines mc.id = .ok m := by
            rw [← hk.1]; exact getMachine_of_mem (hs.machNodup w) hm
          have hnot : m.post.store.contains j.id = false := by
            cases hc : m.post.store.contains j.id with
            | false => rfl
            | true =>
              exfalso
              have hin2 : j.id ∈ m.post.store := List.contains_iff_mem.mp hc
              have hpost := (mem_allBufs_of_machine hm).2.2
              have hloc2 : j.loc = m.post.id :=
                job_of_store hI.cons hjm (by rw [storeAt_of_mem (hs.bufNodup w) hpost]; exact hin2) hjn
              exact (machine_buf_ids_ne hs w hm).2.2 (by rw [← hloc, hloc2])
          unfold getWaitingTime at hocc
          simp only [hgj, hget, except_bind_ok, hpar, hgm, hnot, Bool.false_eq_true, if_false, waitProcessing, hop] at hocc
          rw [hstop, hmo] at hocc
          simp at hocc
          omega

/-- the handler an AGV transition of a well-aimed batch runs reads the job the AGV claimed -/
theorem fb_aim_job {s : State} (htn : (s.transports.map (·.id)).Nodup) {tr : Transition} (haim : Aim inst s tr)
    {t0 : TransportState} (ht0 : t0 ∈ s.transports) (hc : tr.comp = .t t0.id)
    (hst : t0.st = .pickup ∨ t0.st = .waitingpickup) (hn : tr.new = .t .waitingpickup) : tr.job = t0.job := by
  obtain ⟨t, ht, hid, ns, hd, hn', hah, _, hw, _⟩ := haim.agv t0.id hc
  have : t = t0 := eq_of_mem_of_key_eq (key := fun (y : TransportState) => y.id) htn ht ht0 hid
  subst this
  rw [hn] at hn'
  injection hn' with hn'
  subst hn'
  apply hw
  rcases hst with e | e <;> rw [e] at hah <;> simp [agvHandler] at hah <;> subst hah <;> simp

/-- **one applied transition**: neither a machine start nor a dispatch.  The measure does not go up;
it goes down unless the transition is a `WAITINGPICKUP → WAITINGPICKUP` of an AGV that is not behind. -/
theorem fb_step (w : WF inst) (P : Parents inst) {s s' : State} {r r' : Rng} {tr : Transition}
    (hI : StructInv inst s) (hS : SchedInv s)
    (hu : ∀ t1 ∈ s.transports, ∀ t2 ∈ s.transports, ∀ x, t1.job = some x → t2.job = some x → t1.id = t2.id)
    (haim : Aim inst s tr) (hns : tr.new ≠ .m .setup)
    (hnd : tr.new ≠ .t .working) (h : applyTransition orc inst s r tr = .ok (s', r')) :
    fbM s' ≤ fbM s ∧
      ((∀ tid, tr.comp = .t tid → tr.new = .t .waitingpickup → ∀ t0 ∈ s.transports, t0.id = tid →
          t0.st = .waitingpickup → fbLate s.machines t0 = true) → fbM s' + 1 ≤ fbM s) := by
  have hs := hI.shape
  have hmn := hs.machNodup w
  have htn := hs.trNodup w
  cases hc : tr.comp with
  | b bid => exact (apply_not_buffer hc h).elim
  | m mid =>
    have key : fbM s' + 1 ≤ fbM s := by
      obtain ⟨m0, hm0, _, hstep⟩ := mach_step_cases hc h
      have hnuOf : ∀ (M : MachineState), M.id = m0.id → m0.st ≠ .idle → (∀ x ∈ M.buffer.store, x ∈ m0.buffer.store) →
          s'.machines = (s.replaceMachine M).machines → s'.transports = s.transports → fbNu s' ≤ fbNu s + 1 := by
        intro M hid hbusy hsub hM hT
        obtain ⟨j, _, hstore, _⟩ := hS.busyHolds m0 hm0 hbusy
        exact fbNu_machine hmn htn hm0 hid hM hT (jid := j.id)
          (fun x hx => by have := hsub x hx; rw [hstore] at this; simpa using this) hu
      cases hstep with
      | start _ hn _ => exact absurd hn hns
      | work hst _ hh =>
        obtain ⟨j, op, oc, d, _, _, _, _, _, _, _, _, hs'⟩ := setupToWorking_spec hh
        exact fbM_machine (S := s') (M := m0.toWorking (s.time + d)) hmn hm0 (by rfl) (by subst hs'; rfl)
          (by subst hs'; rfl) (by simp [MachineState.toWorking, hst, stageM])
          (hnuOf (m0.toWorking (s.time + d)) (by rfl) (by rw [hst]; decide) (fun x hx => hx) (by subst hs'; rfl) (by subst hs'; rfl))
      | out hst _ hh =>
        obtain ⟨mc, outs, j, op, _, _, _, _, _, _, hs'⟩ := workingToOutage_spec hh
        exact fbM_machine (S := s') (M := m0.toOutage outs (s.time + occupiedFor outs)) hmn hm0 (by rfl)
          (by subst hs'; rfl) (by subst hs'; rfl) (by simp [MachineState.toOutage, hst, stageM])
          (hnuOf (m0.toOutage outs (s.time + occupiedFor outs)) (by rfl) (by rw [hst]; decide) (fun x hx => hx) (by subst hs'; rfl) (by subst hs'; rfl))
      | idle hst _ hh =>
        obtain ⟨j, op, mc, rest, bss1, bss2, _, _, _, _, _, _, _, hs'⟩ := outageToIdle_spec hh
        exact fbM_machine (S := s') (M := m0.toIdle j.id bss1 bss2) hmn hm0 (by rfl) (by subst hs'; rfl)
          (by subst hs'; rfl) (by simp [MachineState.toIdle, hst, stageM])
          (hnuOf (m0.toIdle j.id bss1 bss2) (by rfl) (by rw [hst]; decide)
            (fun x hx => by
              simp only [MachineState.toIdle, BufState.without_store] at hx
              exact (List.mem_filter.mp hx).1) (by subst hs'; rfl) (by subst hs'; rfl))
    exact ⟨by omega, fun _ => key⟩
  | t tid =>
    obtain ⟨t0, ht0, hid0, hstep⟩ := agv_step_cases hc h
    have same : ∀ t, fbLate s.machines t = true → fbLate s.machines t = true := fun _ h => h
    cases hstep with
    | dispatch _ hn _ => exact absurd hn hnd
    | wait1 hst hn hh =>
      obtain ⟨occ, hocc, _, _, hs'⟩ := pickupToWaiting_spec hh
      have hjob := fb_aim_job htn haim ht0 (by rw [hc, hid0]) (Or.inl hst) hn
      have hnl := fb_wait_not_late w P hI hS (t0 := t0) hjob hocc
      have := fbM_transport (S := s') (T := t0.toWaiting occ) htn ht0 (by rfl) (by subst hs'; rfl)
        (by subst hs'; rfl) (by subst hs'; exact same)
      have e : s'.machines = s.machines := by subst hs'; rfl
      rw [e, hnl, hst] at this
      have e2 : fbStageT (t0.toWaiting occ).st = 3 := rfl
      have e3 : fbStageT TSt.pickup = 4 := rfl
      rw [e2, e3, Bool.toNat_false] at this
      exact ⟨by omega, fun _ => by omega⟩
    | wait2 hst hn hh =>
      obtain ⟨occ, hocc, _, hs'⟩ := waitingToWaiting_spec hh
      have hjob := fb_aim_job htn haim ht0 (by rw [hc, hid0]) (Or.inr hst) hn
      have hnl := fb_wait_not_late w P hI hS (t0 := t0) hjob hocc
      have := fbM_transport (S := s') (T := t0.toWaiting occ) htn ht0 (by rfl) (by subst hs'; rfl)
        (by subst hs'; rfl) (by subst hs'; exact same)
      have e : s'.machines = s.machines := by subst hs'; rfl
      rw [e, hnl, hst] at this
      have e2 : fbStageT (t0.toWaiting occ).st = 3 := rfl
      have e3 : fbStageT TSt.waitingpickup = 3 := rfl
      rw [e2, e3, Bool.toNat_false] at this
      refine ⟨by omega, fun hl => ?_⟩
      have hl' := hl tid rfl hn t0 ht0 hid0 hst
      rw [hl', Bool.toNat_true] at this
      omega
    | pick hst _ hh =>
      obtain ⟨j2, src, dst, tt, bss1, bss2, _, _, _, _, _, hcase⟩ := pickupToTransit_spec hh
      have hT : fbLate s'.machines (t0.toTransit (s.time + tt) j2.id bss2) = false := by
        simp [fbLate, TransportState.toTransit]
      have h3 : 3 ≤ fbStageT t0.st := by rcases hst with e | e <;> rw [e] <;> simp [fbStageT]
      rcases hcase with ⟨fb, _, _, _, _, _, hs'⟩ | ⟨mid, ms, bs, ms', _, _, hms, _, hbuf, _, hrep, hs'⟩
      · have := fbM_transport (S := s') (T := t0.toTransit (s.time + tt) j2.id bss2) htn ht0 (by rfl)
          (by subst hs'; rfl) (by subst hs'; rfl) (by subst hs'; exact same)
        have e2 : fbStageT (t0.toTransit (s.time + tt) j2.id bss2).st = 2 := rfl
        rw [hT, e2, Bool.toNat_false] at this
        exact ⟨by omega, fun _ => by omega⟩
      · obtain ⟨k1, k2, k3, k4⟩ := fb_pick_machine_keep (machine_buf_ids_ne hs w hms) hbuf hrep
        obtain ⟨hM1, hM2⟩ := fb_machines_keep (S := s') hmn hms k1 k2 k3 k4 (by subst hs'; rfl)
        have := fbM_transport (S := s') (T := t0.toTransit (s.time + tt) j2.id bss2) htn ht0 (by rfl)
          (by subst hs'; rfl) hM1 hM2
        have e2 : fbStageT (t0.toTransit (s.time + tt) j2.id bss2).st = 2 := rfl
        rw [hT, e2, Bool.toNat_false] at this
        exact ⟨by omega, fun _ => by omega⟩
    | deliver hst _ hh =>
      obtain ⟨j2, cur, pick, drop, tc, outs, bss1, bss2, _, _, _, _, _, _, _, hcase⟩ := transitToOutage_spec hh
      have hT : fbLate s'.machines (t0.toOutage j2.id bss1 outs (s.time + occupiedFor outs) drop) = false := by
        simp [fbLate, TransportState.toOutage]
      have h3 : 2 ≤ fbStageT t0.st := by rcases hst with e | e <;> rw [e] <;> simp [fbStageT]
      rcases hcase with ⟨mid, ms, _, hms, _, _, hs'⟩ | ⟨bid, b, _, _, _, _, hs'⟩
      · obtain ⟨hM1, hM2⟩ := fb_machines_keep (S := s') (ms' := ms.withPre j2.id bss2) hmn hms (by rfl) (by rfl) (by rfl)
          (fun y hy => hy) (by subst hs'; rfl)
        have := fbM_transport (S := s') (T := t0.toOutage j2.id bss1 outs (s.time + occupiedFor outs) drop) htn ht0
          (by rfl) (by subst hs'; rfl) hM1 hM2
        have e2 : fbStageT (t0.toOutage j2.id bss1 outs (s.time + occupiedFor outs) drop).st = 1 := rfl
        rw [hT, e2, Bool.toNat_false] at this
        exact ⟨by omega, fun _ => by omega⟩
      · have := fbM_transport (S := s') (T := t0.toOutage j2.id bss1 outs (s.time + occupiedFor outs) drop) htn ht0
          (by rfl) (by subst hs'; rfl) (by subst hs'; rfl) (by subst hs'; exact same)
        have e2 : fbStageT (t0.toOutage j2.id bss1 outs (s.time + occupiedFor outs) drop).st = 1 := rfl
        rw [hT, e2, Bool.toNat_false] at this
        exact ⟨by omega, fun _ => by omega⟩
    | release hst _ hh =>
      obtain ⟨_, hs'⟩ := agvOutageToIdle_spec hh
      have hT : fbLate s'.machines t0.toIdle = false := by simp [fbLate, TransportState.toIdle]
      have := fbM_transport (S := s') (T := t0.toIdle) htn ht0 (by rfl) (by subst hs'; rfl) (by subst hs'; rfl)
        (by subst hs'; exact same)
      have e2 : fbStageT t0.toIdle.st = 0 := rfl
      have e3 : fbStageT TSt.outage = 1 := rfl
      rw [hT, hst, e2, e3, Bool.toNat_false] at this
      exact ⟨by omega, fun _ => by omega⟩

end JSL
