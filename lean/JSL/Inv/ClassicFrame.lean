import JSL.Inv.ClassicRoom
import JSL.Inv.ClassicInv
import JSL.Inv.ClassicTotalDefs
import JSL.Inv.ClassicMachTotal
import JSL.Inv.ClassicAgvTotalA

/-!
# Frames of enabled transitions, the batch guard `EnGS` is kept, and the stage measure

* `apply_frame` – what one enabled transition (not a machine start) leaves untouched (`EnFrame`);
* `enGS_step` – after the first transition of a batch the rest of the batch is still enabled;
* `stage` – a measure that every enabled transition other than a machine start or a dispatch
  lowers by one.
-/

namespace JSL

variable {orc : Oracle} {inst : Instance}

/-! ## point updates of the component lists -/

theorem frame_replaceMachine {s : State} (hnd : (s.machines.map (·.id)).Nodup) {m0 m0' : MachineState}
    (hm0 : m0 ∈ s.machines) (hid : m0'.id = m0.id) {m : MachineState} (hm : m ∈ s.machines)
    (h : m.id ≠ m0.id ∨ (m0'.st = m0.st ∧ m0'.buffer.store = m0.buffer.store ∧ m0'.occ = m0.occ)) :
    ∃ m' ∈ (s.replaceMachine m0').machines,
      m'.id = m.id ∧ m'.st = m.st ∧ m'.buffer.store = m.buffer.store ∧ m'.occ = m.occ := by
  by_cases e : m.id = m0.id
  · have : m = m0 := eq_of_mem_of_key_eq (key := fun (y : MachineState) => y.id) hnd hm hm0 e
    subst this
    rcases h with h | h
    · exact absurd e h
    · exact ⟨m0', (mem_replaceMachine hnd hm hid m0').mpr (Or.inl rfl), hid, h.1, h.2.1, h.2.2⟩
  · exact ⟨m, (mem_replaceMachine hnd hm0 hid m).mpr (Or.inr ⟨hm, e⟩), rfl, rfl, rfl, rfl⟩

theorem frame_replaceJob {s : State} (hnd : (s.jobs.map (·.id)).Nodup) {j0 J : JobState}
    (hj0 : j0 ∈ s.jobs) (hid : J.id = j0.id) {j : JobState} (hj : j ∈ s.jobs) :
    ∃ j' ∈ (s.replaceJob J).jobs, j'.id = j.id ∧ (some j0.id ≠ some j.id → j' = j) := by
  by_cases e : j.id = j0.id
  · refine ⟨J, (mem_replaceJob hnd hj0 hid J).mpr (Or.inl rfl), by rw [hid, e], ?_⟩
    intro h; exact absurd (by rw [e]) h
  · exact ⟨j, (mem_replaceJob hnd hj0 hid j).mpr (Or.inr ⟨hj, e⟩), rfl, fun _ => rfl⟩

theorem frame_replaceTransport {s : State} (hnd : (s.transports.map (·.id)).Nodup) {t0 T : TransportState}
    (ht0 : t0 ∈ s.transports) (hid : T.id = t0.id) {t : TransportState} (ht : t ∈ s.transports)
    (hne : t.id ≠ t0.id) : t ∈ (s.replaceTransport T).transports :=
  (mem_replaceTransport hnd ht0 hid t).mpr (Or.inr ⟨ht, hne⟩)

theorem back_replaceTransport {s : State} (hnd : (s.transports.map (·.id)).Nodup) {t0 T : TransportState}
    (ht0 : t0 ∈ s.transports) (hid : T.id = t0.id) {t' : TransportState}
    (ht' : t' ∈ (s.replaceTransport T).transports) : t' = T ∨ t' ∈ s.transports := by
  rcases (mem_replaceTransport hnd ht0 hid t').mp ht' with h | h
  · exact Or.inl h
  · exact Or.inr h.1

/-- machines untouched -/
theorem frame_machines_same {s s' : State} (h : s'.machines = s.machines) {m : MachineState} (hm : m ∈ s.machines) :
    ∃ m' ∈ s'.machines, m'.id = m.id ∧ m'.st = m.st ∧ m'.buffer.store = m.buffer.store ∧ m'.occ = m.occ :=
  ⟨m, h ▸ hm, rfl, rfl, rfl, rfl⟩

/-- jobs untouched -/
theorem frame_jobs_same {s s' : State} (h : s'.jobs = s.jobs) (a : Transition) {j : JobState} (hj : j ∈ s.jobs) :
    ∃ j' ∈ s'.jobs, j'.id = j.id ∧ (a.job ≠ some j.id → j' = j) :=
  ⟨j, h ▸ hj, rfl, fun _ => rfl⟩

/-! ## pickup places are not internal buffers -/

theorem pickupPlace_ne_internal (w : WF inst) {s : State} (hs : Shape inst s) {l : Nat}
    (hl : l ∈ pickupPlaces inst) {m : MachineState} (hm : m ∈ s.machines) : l ≠ m.buffer.id := by
  unfold pickupPlaces at hl
  rcases List.mem_append.mp hl with h | h
  · obtain ⟨c, hc, rfl⟩ := List.mem_map.mp h
    have hc' := (List.mem_filter.mp hc).1
    have : c.id ∈ s.buffers.map (·.id) := by rw [hs.buffers]; exact List.mem_map.mpr ⟨c, hc', rfl⟩
    obtain ⟨b, hb, e⟩ := List.mem_map.mp this
    rw [← e]
    exact ((ids_parts hs w).1 b hb m hm).2.1
  · have e : s.machines.map (·.post.id) = inst.machines.map (·.post.id) := by
      have := congrArg (List.map fun k : Nat × Nat × Nat × Nat => k.2.2.2) hs.machines
      simpa [List.map_map, Function.comp_def, mKey, mcKey] using this
    rw [← e] at h
    obtain ⟨m2, hm2, rfl⟩ := List.mem_map.mp h
    exact fun e' => (internal_ne_pre_post hs w hm hm2).2 e'.symm

/-! ## the frame of one enabled transition -/

theorem replaceBufInMachine_keep {ms ms' : MachineState} {b : BufState} (hne : b.id ≠ ms.buffer.id)
    (h : replaceBufInMachine ms b = .ok ms') :
    ms'.id = ms.id ∧ ms'.st = ms.st ∧ ms'.buffer.store = ms.buffer.store ∧ ms'.occ = ms.occ := by
  unfold replaceBufInMachine at h
  split at h
  · simp at h; subst h; exact ⟨rfl, rfl, rfl, rfl⟩
  · split at h
    · rename_i h1; simp at h1; exact absurd h1 hne
    · split at h
      · simp at h; subst h; exact ⟨rfl, rfl, rfl, rfl⟩
      · simp at h

theorem replaceBufInMachine_st {ms ms' : MachineState} {b : BufState}
    (h : replaceBufInMachine ms b = .ok ms') : ms'.id = ms.id ∧ ms'.st = ms.st := by
  unfold replaceBufInMachine at h
  split at h
  · simp at h; subst h; exact ⟨rfl, rfl⟩
  · split at h
    · simp at h; subst h; exact ⟨rfl, rfl⟩
    · split at h
      · simp at h; subst h; exact ⟨rfl, rfl⟩
      · simp at h

/-- `apply_frame` with the one fact about claims it needs spelled out: the job a waiting AGV has
claimed lies at a pickup place (`CInv.claimed`) – otherwise the pickup could take the job out of the
internal buffer of a machine. -/
theorem apply_frame_of_claimed (w : WF inst) {s s' : State} {r r' : Rng} {a : Transition} (hI : StructInv inst s)
    (hcl : ∀ t ∈ s.transports, t.st = .pickup ∨ t.st = .waitingpickup →
      ∃ j ∈ s.jobs, t.job = some j.id ∧ j.loc ∈ pickupPlaces inst)
    (hE : En inst s a) (hns : a.new ≠ .m .setup) (h : applyTransition orc inst s r a = .ok (s', r')) :
    EnFrame s s' a := by
  have hs := hI.shape
  have hmn := hs.machNodup w
  have hjn := hs.jobsNodup w
  have htn := hs.trNodup w
  cases hE with
  | start tr hn => exact absurd hn hns
  | mWork m x hm hst hstore =>
    obtain ⟨m0, hm0, hid0, hstep⟩ := mach_step_cases (mid := m.id) rfl h
    have e0 : m0 = m := eq_of_mem_of_key_eq (key := fun (y : MachineState) => y.id) hmn hm0 hm hid0
    subst e0
    cases hstep with
    | start _ hn _ => cases hn
    | out _ hn _ => cases hn
    | idle _ hn _ => cases hn
    | work _ _ hh =>
      obtain ⟨j, op, oc, d, hj, htj, _, _, _, _, _, _, rfl⟩ := setupToWorking_spec hh
      simp only at htj
      refine ⟨?_, fun t ht _ => ht, ?_, fun t' ht' x hx => Or.inl ⟨t', ht', hx⟩⟩
      · intro m1 hm1 hne
        exact frame_replaceMachine (s := s.replaceJob _) hmn hm0 (by rfl) hm1 (Or.inl fun e => hne (by simp [e]))
      · intro j1 hj1
        rw [htj]
        exact frame_replaceJob hjn hj (by rfl) hj1
  | mOut m x hm hst hstore =>
    obtain ⟨m0, hm0, hid0, hstep⟩ := mach_step_cases (mid := m.id) rfl h
    have e0 : m0 = m := eq_of_mem_of_key_eq (key := fun (y : MachineState) => y.id) hmn hm0 hm hid0
    subst e0
    cases hstep with
    | start _ hn _ => cases hn
    | work _ hn _ => cases hn
    | idle _ hn _ => cases hn
    | out _ _ hh =>
      obtain ⟨mc, outs, j, op, _, _, _, hj, htj, _, rfl⟩ := workingToOutage_spec hh
      simp only at htj
      refine ⟨?_, fun t ht _ => ht, ?_, fun t' ht' x hx => Or.inl ⟨t', ht', hx⟩⟩
      · intro m1 hm1 hne
        exact frame_replaceMachine hmn hm0 (by rfl) hm1 (Or.inl fun e => hne (by simp [e]))
      · intro j1 hj1
        rw [htj]
        exact frame_replaceJob (s := s.replaceMachine _) hjn hj (by rfl) hj1
  | mIdle m x hm hst hstore =>
    obtain ⟨m0, hm0, hid0, hstep⟩ := mach_step_cases (mid := m.id) rfl h
    have e0 : m0 = m := eq_of_mem_of_key_eq (key := fun (y : MachineState) => y.id) hmn hm0 hm hid0
    subst e0
    cases hstep with
    | start _ hn _ => cases hn
    | work _ hn _ => cases hn
    | out _ hn _ => cases hn
    | idle _ _ hh =>
      obtain ⟨j, op, mc, rest, bss1, bss2, hst0, hj, _, _, _, _, _, rfl⟩ := outageToIdle_spec hh
      rw [hstore] at hst0
      simp at hst0
      obtain ⟨hx, _⟩ := hst0
      refine ⟨?_, fun t ht _ => ht, ?_, fun t' ht' x hx => Or.inl ⟨t', ht', hx⟩⟩
      · intro m1 hm1 hne
        exact frame_replaceMachine (s := s.replaceJob _) hmn hm0 (by rfl) hm1 (Or.inl fun e => hne (by simp [e]))
      · intro j1 hj1
        show ∃ j' ∈ _, j'.id = j1.id ∧ (some x ≠ some j1.id → j' = j1)
        rw [hx]
        exact frame_replaceJob hjn hj (by rfl) hj1
  | dispatch t j ht hst hj hloc hfree =>
    obtain ⟨t0, ht0, hid0, hstep⟩ := agv_step_cases (tid := t.id) rfl h
    have e0 : t0 = t := eq_of_mem_of_key_eq (key := fun (y : TransportState) => y.id) htn ht0 ht hid0
    subst e0
    cases hstep with
    | wait1 _ hn _ => cases hn
    | wait2 _ hn _ => cases hn
    | pick _ hn _ => cases hn
    | deliver _ hn _ => cases hn
    | release _ hn _ => cases hn
    | dispatch _ _ hh =>
      obtain ⟨j2, cur, target, src, bc, c, hj2, htj, _, _, _, _, _, _, _, rfl⟩ := idleToWorking_spec hh
      simp only at htj
      refine ⟨fun m hm _ => frame_machines_same rfl hm, ?_, fun j1 hj1 => frame_jobs_same rfl _ hj1, ?_⟩
      · intro t1 ht1 hne
        exact frame_replaceTransport htn ht0 (by rfl) ht1 (fun e => hne (by simp [e]))
      · intro t' ht' x hx
        rcases back_replaceTransport htn ht0 (by rfl) ht' with rfl | ht'
        · simp only [TransportState.toPickup] at hx
          exact Or.inr ⟨rfl, by simp only; rw [htj, hx]⟩
        · exact Or.inl ⟨t', ht', hx⟩
  | wait t j ht hst hj htjob =>
    obtain ⟨t0, ht0, hid0, hstep⟩ := agv_step_cases (tid := t.id) rfl h
    have e0 : t0 = t := eq_of_mem_of_key_eq (key := fun (y : TransportState) => y.id) htn ht0 ht hid0
    subst e0
    have key : ∀ occ, s' = s.replaceTransport (t0.toWaiting occ) → EnFrame s s' ⟨.t t0.id, .t .waitingpickup, some j.id⟩ := by
      rintro occ rfl
      refine ⟨fun m hm _ => frame_machines_same rfl hm, ?_, fun j1 hj1 => frame_jobs_same rfl _ hj1, ?_⟩
      · intro t1 ht1 hne
        exact frame_replaceTransport htn ht0 (by rfl) ht1 (fun e => hne (by simp [e]))
      · intro t' ht' x hx
        rcases back_replaceTransport htn ht0 (by rfl) ht' with rfl | ht'
        · exact Or.inl ⟨t0, ht0, hx⟩
        · exact Or.inl ⟨t', ht', hx⟩
    cases hstep with
    | dispatch _ hn _ => cases hn
    | pick _ hn _ => cases hn
    | deliver _ hn _ => cases hn
    | release _ hn _ => cases hn
    | wait1 _ _ hh =>
      obtain ⟨occ, _, _, _, e⟩ := pickupToWaiting_spec hh
      exact key occ e
    | wait2 _ _ hh =>
      obtain ⟨occ, _, _, e⟩ := waitingToWaiting_spec hh
      exact key occ e
  | pick t j ht hst hj htjob =>
    obtain ⟨t0, ht0, hid0, hstep⟩ := agv_step_cases (tid := t.id) rfl h
    have e0 : t0 = t := eq_of_mem_of_key_eq (key := fun (y : TransportState) => y.id) htn ht0 ht hid0
    subst e0
    cases hstep with
    | dispatch _ hn _ => cases hn
    | wait1 _ hn _ => cases hn
    | wait2 _ hn _ => cases hn
    | deliver _ hn _ => cases hn
    | release _ hn _ => cases hn
    | pick _ _ hh =>
      obtain ⟨j2, src, dst, tt, bss1, bss2, hj2, htj, _, _, _, hcase⟩ := pickupToTransit_spec hh
      simp only at htj
      -- the job of the transition is the claimed one, which lies at a pickup place
      obtain ⟨j3, hj3, hc3, hloc3⟩ := hcl t0 ht0 (Or.inr hst)
      have e23 : j2 = j3 := by
        apply eq_of_mem_of_key_eq (key := fun (y : JobState) => y.id) hjn hj2 hj3
        have : some j2.id = some j3.id := by rw [← htj, ← hc3, htjob]
        simpa using this
      subst e23
      have hclaims : ∀ T : TransportState, T.id = t0.id → T.job = t0.job → ∀ S : State, S.transports = s.transports →
          ∀ t' ∈ (S.replaceTransport T).transports, ∀ x, t'.job = some x →
          (∃ t ∈ s.transports, t.job = some x) ∨
            ((⟨.t t0.id, .t .transit, some j.id⟩ : Transition).new = .t .working ∧
             (⟨.t t0.id, .t .transit, some j.id⟩ : Transition).job = some x) := by
        intro T hT hTj S hS t' ht' x hx
        have htn' : (S.transports.map (·.id)).Nodup := by rw [hS]; exact htn
        rcases back_replaceTransport htn' (hS ▸ ht0) hT ht' with rfl | ht'
        · exact Or.inl ⟨t0, ht0, by rw [← hTj]; exact hx⟩
        · exact Or.inl ⟨t', hS ▸ ht', hx⟩
      rcases hcase with ⟨fb, _, _, _, _, _, rfl⟩ | ⟨mid, ms, bs, ms', _, _, hms, _, hbs, _, hrep, rfl⟩
      · refine ⟨fun m hm _ => frame_machines_same rfl hm, ?_, ?_, hclaims _ (by rfl) (by rfl) _ (by rfl)⟩
        · intro t1 ht1 hne
          exact frame_replaceTransport (s := (s.replaceBuffer _).replaceJob _) htn ht0 (by rfl) ht1 (fun e => hne (by simp [e]))
        · intro j1 hj1
          rw [htj]
          exact frame_replaceJob (s := s.replaceBuffer _) hjn hj2 (by rfl) hj1
      · have hbid : (bs.without j2.id bss1).id ≠ ms.buffer.id := by
          rw [BufState.without_id, (bufOfMachine_ok hbs).1]
          exact pickupPlace_ne_internal w hs hloc3 hms
        have hk := replaceBufInMachine_keep hbid hrep
        refine ⟨?_, ?_, ?_, hclaims _ (by rfl) (by rfl) _ (by rfl)⟩
        · intro m1 hm1 _
          exact frame_replaceMachine hmn hms hk.1 hm1 (Or.inr hk.2)
        · intro t1 ht1 hne
          exact frame_replaceTransport (s := (s.replaceMachine _).replaceJob _) htn ht0 (by rfl) ht1 (fun e => hne (by simp [e]))
        · intro j1 hj1
          rw [htj]
          exact frame_replaceJob (s := s.replaceMachine _) hjn hj2 (by rfl) hj1
  | deliver t j ht hst hj hstore =>
    obtain ⟨t0, ht0, hid0, hstep⟩ := agv_step_cases (tid := t.id) rfl h
    have e0 : t0 = t := eq_of_mem_of_key_eq (key := fun (y : TransportState) => y.id) htn ht0 ht hid0
    subst e0
    cases hstep with
    | dispatch _ hn _ => cases hn
    | wait1 _ hn _ => cases hn
    | wait2 _ hn _ => cases hn
    | pick _ hn _ => cases hn
    | release _ hn _ => cases hn
    | deliver _ _ hh =>
      obtain ⟨j2, cur, pick, drop, tc, outs, bss1, bss2, hj2, htj, _, _, _, _, _, hcase⟩ := transitToOutage_spec hh
      simp only at htj
      rcases hcase with ⟨mid, ms, _, hms, _, _, rfl⟩ | ⟨bid, b, _, _, _, _, rfl⟩
      · refine ⟨?_, ?_, ?_, ?_⟩
        · intro m1 hm1 _
          exact frame_replaceMachine (s := (s.replaceJob _).replaceTransport _) hmn hms (by rfl) hm1
            (Or.inr ⟨rfl, rfl, rfl⟩)
        · intro t1 ht1 hne
          exact frame_replaceTransport (s := s.replaceJob _) htn ht0 (by rfl) ht1 (fun e => hne (by simp [e]))
        · intro j1 hj1
          rw [htj]
          exact frame_replaceJob hjn hj2 (by rfl) hj1
        · intro t' ht' x hx
          rcases back_replaceTransport (s := s.replaceJob _) htn ht0 (by rfl) ht' with rfl | ht'
          · simp [TransportState.toOutage] at hx
          · exact Or.inl ⟨t', ht', hx⟩
      · refine ⟨fun m hm _ => frame_machines_same rfl hm, ?_, ?_, ?_⟩
        · intro t1 ht1 hne
          exact frame_replaceTransport (s := s.replaceJob _) htn ht0 (by rfl) ht1 (fun e => hne (by simp [e]))
        · intro j1 hj1
          rw [htj]
          exact frame_replaceJob hjn hj2 (by rfl) hj1
        · intro t' ht' x hx
          rcases back_replaceTransport (s := s.replaceJob _) htn ht0 (by rfl) ht' with rfl | ht'
          · simp [TransportState.toOutage] at hx
          · exact Or.inl ⟨t', ht', hx⟩
  | release t ht hst =>
    obtain ⟨t0, ht0, hid0, hstep⟩ := agv_step_cases (tid := t.id) rfl h
    have e0 : t0 = t := eq_of_mem_of_key_eq (key := fun (y : TransportState) => y.id) htn ht0 ht hid0
    subst e0
    cases hstep with
    | dispatch _ hn _ => cases hn
    | wait1 _ hn _ => cases hn
    | wait2 _ hn _ => cases hn
    | pick _ hn _ => cases hn
    | deliver _ hn _ => cases hn
    | release _ _ hh =>
      obtain ⟨_, rfl⟩ := agvOutageToIdle_spec hh
      refine ⟨fun m hm _ => frame_machines_same rfl hm, ?_, fun j1 hj1 => frame_jobs_same rfl _ hj1, ?_⟩
      · intro t1 ht1 hne
        exact frame_replaceTransport htn ht0 (by rfl) ht1 (fun e => hne (by simp [e]))
      · intro t' ht' x hx
        rcases back_replaceTransport htn ht0 (by rfl) ht' with rfl | ht'
        · exact Or.inl ⟨t0, ht0, hx⟩
        · exact Or.inl ⟨t', ht', hx⟩

/-- **(1)** what one enabled transition (not a machine start) leaves untouched.  `CInv` is needed
for one fact only (`CInv.claimed`, see `apply_frame_of_claimed`). -/
theorem apply_frame (w : WF inst) {s s' : State} {r r' : Rng} {a : Transition} (hI : StructInv inst s)
    (hC : CInv inst s) (hE : En inst s a) (hns : a.new ≠ .m .setup)
    (h : applyTransition orc inst s r a = .ok (s', r')) : EnFrame s s' a :=
  apply_frame_of_claimed w hI hC.claimed hE hns h

/-! ## the batch guard is kept -/

/-- the job of an enabled transition (not a machine start) is not a job that lies at a pickup place
and is claimed by nobody – unless the transition is itself the dispatch for that job -/
theorem en_job_ne (w : WF inst) {s : State} {a : Transition} (hI : StructInv inst s) (hA : AgvFull inst s)
    (hE : En inst s a) (hns : a.new ≠ .m .setup) (hnd : a.new ≠ .t .working) {j : JobState} (hj : j ∈ s.jobs)
    (hloc : j.loc ∈ pickupPlaces inst) (hfree : ∀ t ∈ s.transports, t.job ≠ some j.id) : a.job ≠ some j.id := by
  have hs := hI.shape
  have hmach : ∀ m ∈ s.machines, ∀ x, m.buffer.store = [x] → some x ≠ some j.id := by
    intro m hm x hst e
    simp at e; subst e
    have hin : j.id ∈ storeAt s m.buffer.id := by
      rw [(pre_storeAt w hs hm).2, hst]; simp
    have := job_of_store hI.cons hj hin (hs.jobsNodup w)
    exact pickupPlace_ne_internal w hs hloc hm this
  cases hE with
  | start tr hn => exact absurd hn hns
  | mWork m x hm hst hstore => exact hmach m hm x hstore
  | mOut m x hm hst hstore => exact hmach m hm x hstore
  | mIdle m x hm hst hstore => exact hmach m hm x hstore
  | dispatch t j2 ht hst hj2 hloc2 hfree2 => exact absurd rfl hnd
  | wait t j2 ht hst hj2 htjob =>
    intro e; simp only at e
    exact hfree t ht (by rw [htjob, e])
  | pick t j2 ht hst hj2 htjob =>
    intro e; simp only at e
    exact hfree t ht (by rw [htjob, e])
  | deliver t j2 ht hst hj2 hstore =>
    intro e; simp only at e
    have := hA.route.transitOwn t ht hst j2.id (by rw [hstore]; simp)
    exact hfree t ht (by rw [this, e])
  | release t ht hst => intro e; cases e

/-- an enabled transition of the rest of the batch is still enabled after a step with frame -/
theorem en_of_frame {s s' : State} {a b : Transition} (F : EnFrame s s' a) (hab : Apart a b)
    (hjob : ∀ t j, b = ⟨.t t, .t .working, some j.id⟩ → j ∈ s.jobs → j.loc ∈ pickupPlaces inst →
      (∀ t' ∈ s.transports, t'.job ≠ some j.id) → a.job ≠ some j.id)
    (hE : En inst s b) : En inst s' b := by
  cases hE with
  | start tr hn => exact .start _ hn
  | mWork m x hm hst hstore =>
    obtain ⟨m', hm', e1, e2, e3, _⟩ := F.machines m hm hab.1
    rw [← e1]
    exact .mWork m' x hm' (by rw [e2, hst]) (by rw [e3, hstore])
  | mOut m x hm hst hstore =>
    obtain ⟨m', hm', e1, e2, e3, _⟩ := F.machines m hm hab.1
    rw [← e1]
    exact .mOut m' x hm' (by rw [e2, hst]) (by rw [e3, hstore])
  | mIdle m x hm hst hstore =>
    obtain ⟨m', hm', e1, e2, e3, _⟩ := F.machines m hm hab.1
    rw [← e1]
    exact .mIdle m' x hm' (by rw [e2, hst]) (by rw [e3, hstore])
  | dispatch t j ht hst hj hloc hfree =>
    have ht' := F.transports t ht hab.1
    have hne := hjob t.id j rfl hj hloc hfree
    obtain ⟨j', hj', _, e2⟩ := F.jobs j hj
    have := e2 hne; subst this
    refine .dispatch t j' ht' hst hj' hloc ?_
    intro t' h' e
    rcases F.claims t' h' j'.id e with ⟨t0, ht0, e0⟩ | ⟨hn, e0⟩
    · exact hfree t0 ht0 e0
    · exact hab.2 hn rfl e0
  | wait t j ht hst hj htjob =>
    have ht' := F.transports t ht hab.1
    obtain ⟨j', hj', e1, _⟩ := F.jobs j hj
    rw [← e1]
    exact .wait t j' ht' hst hj' (by rw [e1]; exact htjob)
  | pick t j ht hst hj htjob =>
    have ht' := F.transports t ht hab.1
    obtain ⟨j', hj', e1, _⟩ := F.jobs j hj
    rw [← e1]
    exact .pick t j' ht' hst hj' (by rw [e1]; exact htjob)
  | deliver t j ht hst hj hstore =>
    have ht' := F.transports t ht hab.1
    obtain ⟨j', hj', e1, _⟩ := F.jobs j hj
    rw [← e1]
    exact .deliver t j' ht' hst hj' (by rw [e1]; exact hstore)
  | release t ht hst => exact .release t (F.transports t ht hab.1) hst

/-- `enGS_step` with the one fact of `CInv` it needs (`CInv.claimed`) spelled out -/
theorem enGS_step_of_claimed (w : WF inst) {s s' : State} {r r' : Rng} {a : Transition} {R : List Transition}
    (hI : StructInv inst s) (hA : AgvFull inst s)
    (hcl : ∀ t ∈ s.transports, t.st = .pickup ∨ t.st = .waitingpickup →
      ∃ j ∈ s.jobs, t.job = some j.id ∧ j.loc ∈ pickupPlaces inst)
    (hgs : EnGS inst s (a :: R))
    (h : applyTransition orc inst s r a = .ok (s', r')) : EnGS inst s' R := by
  by_cases hns : a.new = .m .setup
  · have := hgs.alone a (by simp) hns
    simp at this; subst this
    exact EnGS.nil s'
  · have hE := hgs.en a (by simp)
    have F := apply_frame_of_claimed w hI hcl hE hns h
    have hap := (List.pairwise_cons.mp hgs.apart).1
    refine ⟨?_, hgs.tail.apart, hgs.tail.alone⟩
    intro b hb
    refine en_of_frame F (hap b hb) ?_ (hgs.en b (by simp [hb]))
    intro t j hbe hj hloc hfree
    by_cases hnd : a.new = .t .working
    · have := (hap b hb).2 hnd (by rw [hbe])
      rw [hbe] at this; exact this
    · exact en_job_ne w hI hA hE hns hnd hj hloc hfree

/-- **(2)** after the first transition of a batch the rest of the batch is still enabled.  `CInv`
is needed for one fact only (`CInv.claimed`, through `apply_frame`). -/
theorem enGS_step (w : WF inst) {s s' : State} {r r' : Rng} {a : Transition} {R : List Transition}
    (hI : StructInv inst s) (hS : SchedInv s) (hA : AgvFull inst s) (hC : CInv inst s)
    (hgs : EnGS inst s (a :: R))
    (h : applyTransition orc inst s r a = .ok (s', r')) : EnGS inst s' R :=
  enGS_step_of_claimed w hI hA hC.claimed hgs h

/-! ## the stage measure -/

def stageM : MSt → Nat | .idle => 0 | .setup => 3 | .working => 2 | .outage => 1
def stageT : TSt → Nat | .idle => 0 | .working => 5 | .pickup => 4 | .waitingpickup => 3 | .transit => 2 | .outage => 1
def stage (s : State) : Nat :=
  (s.machines.map fun m => stageM m.st).sum + (s.transports.map fun t => stageT t.st).sum

theorem stage_time (s : State) (t : Int) : stage { s with time := t } = stage s := rfl

theorem sum_map_le_mul {α} (l : List α) (f : α → Nat) (c : Nat) (h : ∀ x, f x ≤ c) : (l.map f).sum ≤ c * l.length := by
  induction l with
  | nil => simp
  | cons x xs ih =>
    simp only [List.map_cons, List.sum_cons, List.length_cons]
    have := h x
    rw [Nat.mul_succ]
    omega

theorem stage_le {s : State} (hs : Shape inst s) : stage s ≤ 3 * inst.machines.length + 5 * inst.transports.length := by
  have e1 : s.machines.length = inst.machines.length := by
    have := congrArg List.length hs.machines; simpa using this
  have e2 : s.transports.length = inst.transports.length := by
    have := congrArg List.length hs.transports; simpa using this
  have h1 := sum_map_le_mul s.machines (fun m => stageM m.st) 3 (fun m => by cases m.st <;> simp [stageM])
  have h2 := sum_map_le_mul s.transports (fun t => stageT t.st) 5 (fun t => by cases t.st <;> simp [stageT])
  unfold stage
  rw [e1] at h1; rw [e2] at h2
  omega

/-- replace-by-key exchanges one summand -/
theorem sum_map_replace {α} {key : α → Nat} {l : List α} (hnd : (l.map key).Nodup) {m m' : α} (hm : m ∈ l)
    (hk : key m' = key m) (f : α → Nat) :
    ((l.map (fun y => if key y == key m' then m' else y)).map f).sum + f m = (l.map f).sum + f m' := by
  induction l with
  | nil => cases hm
  | cons x xs ih =>
    simp only [List.map_cons, List.nodup_cons, List.mem_map, not_exists, not_and] at hnd
    simp only [List.map_cons, List.sum_cons]
    rcases List.mem_cons.mp hm with rfl | hm'
    · have hid : xs.map (fun y => if key y == key m' then m' else y) = xs := by
        have : ∀ y ∈ xs, (fun y => if key y == key m' then m' else y) y = id y := by
          intro y hy
          have := hnd.1 y hy
          simp [hk, this]
        rw [List.map_congr_left this, List.map_id]
      rw [hid]
      have e : (if key m == key m' then m' else m) = m' := by simp [hk]
      rw [e]
      omega
    · have hne : key x ≠ key m' := by
        intro e
        exact hnd.1 m hm' (by rw [e, hk])
      have := ih hnd.2 hm'
      have e : (if key x == key m' then m' else x) = x := by simp [hne]
      rw [e]
      omega

theorem stage_machine {s S : State} (hnd : (s.machines.map (·.id)).Nodup) {m0 M : MachineState}
    (hm0 : m0 ∈ s.machines) (hid : M.id = m0.id) (hM : S.machines = (s.replaceMachine M).machines)
    (hT : S.transports = s.transports) : stage S + stageM m0.st = stage s + stageM M.st := by
  have := sum_map_replace (key := fun (y : MachineState) => y.id) hnd hm0 hid (fun m => stageM m.st)
  unfold stage
  rw [hM, hT]
  simp only [State.replaceMachine]
  omega

theorem stage_transport {s S : State} (hnd : (s.transports.map (·.id)).Nodup) {t0 T : TransportState}
    (ht0 : t0 ∈ s.transports) (hid : T.id = t0.id) (hM : S.machines = s.machines)
    (hT : S.transports = (s.replaceTransport T).transports) : stage S + stageT t0.st = stage s + stageT T.st := by
  have := sum_map_replace (key := fun (y : TransportState) => y.id) hnd ht0 hid (fun t => stageT t.st)
  unfold stage
  rw [hM, hT]
  simp only [State.replaceTransport]
  omega

theorem stage_both {s S : State} (hmn : (s.machines.map (·.id)).Nodup) (htn : (s.transports.map (·.id)).Nodup)
    {m0 M : MachineState} (hm0 : m0 ∈ s.machines) (hmid : M.id = m0.id) (hst : M.st = m0.st)
    {t0 T : TransportState} (ht0 : t0 ∈ s.transports) (hid : T.id = t0.id)
    (hM : S.machines = (s.replaceMachine M).machines)
    (hT : S.transports = (s.replaceTransport T).transports) : stage S + stageT t0.st = stage s + stageT T.st := by
  have h1 := sum_map_replace (key := fun (y : MachineState) => y.id) hmn hm0 hmid (fun m => stageM m.st)
  have h2 := sum_map_replace (key := fun (y : TransportState) => y.id) htn ht0 hid (fun t => stageT t.st)
  unfold stage
  rw [hM, hT]
  simp only [State.replaceMachine, State.replaceTransport]
  simp only [hst] at h1
  omega

/-- **(3)** every enabled transition other than a machine start or a dispatch lowers the stage by one -/
theorem stage_step (w : WF inst) {s s' : State} {r r' : Rng} {a : Transition} (hI : StructInv inst s)
    (hE : En inst s a) (hns : a.new ≠ .m .setup) (hnd : a.new ≠ .t .working)
    (h : applyTransition orc inst s r a = .ok (s', r')) : stage s' + 1 = stage s := by
  have hs := hI.shape
  have hmn := hs.machNodup w
  have htn := hs.trNodup w
  cases hE with
  | start tr hn => exact absurd hn hns
  | dispatch t j ht hst hj hloc hfree => exact absurd rfl hnd
  | mWork m x hm hst hstore =>
    obtain ⟨m0, hm0, hid0, hstep⟩ := mach_step_cases (mid := m.id) rfl h
    have e0 : m0 = m := eq_of_mem_of_key_eq (key := fun (y : MachineState) => y.id) hmn hm0 hm hid0
    subst e0
    cases hstep with
    | start _ hn _ => cases hn
    | out _ hn _ => cases hn
    | idle _ hn _ => cases hn
    | work _ _ hh =>
      obtain ⟨j, op, oc, d, _, _, _, _, _, _, _, _, hs'⟩ := setupToWorking_spec hh
      have := stage_machine (S := s') (M := m0.toWorking (s.time + d)) hmn hm0 (by rfl)
        (by subst hs'; rfl) (by subst hs'; rfl)
      simp [MachineState.toWorking, hst, stageM] at this
      omega
  | mOut m x hm hst hstore =>
    obtain ⟨m0, hm0, hid0, hstep⟩ := mach_step_cases (mid := m.id) rfl h
    have e0 : m0 = m := eq_of_mem_of_key_eq (key := fun (y : MachineState) => y.id) hmn hm0 hm hid0
    subst e0
    cases hstep with
    | start _ hn _ => cases hn
    | work _ hn _ => cases hn
    | idle _ hn _ => cases hn
    | out _ _ hh =>
      obtain ⟨mc, outs, j, op, _, _, _, _, _, _, hs'⟩ := workingToOutage_spec hh
      have := stage_machine (S := s') (M := m0.toOutage outs (s.time + occupiedFor outs)) hmn hm0 (by rfl)
        (by subst hs'; rfl) (by subst hs'; rfl)
      simp [MachineState.toOutage, hst, stageM] at this
      omega
  | mIdle m x hm hst hstore =>
    obtain ⟨m0, hm0, hid0, hstep⟩ := mach_step_cases (mid := m.id) rfl h
    have e0 : m0 = m := eq_of_mem_of_key_eq (key := fun (y : MachineState) => y.id) hmn hm0 hm hid0
    subst e0
    cases hstep with
    | start _ hn _ => cases hn
    | work _ hn _ => cases hn
    | out _ hn _ => cases hn
    | idle _ _ hh =>
      obtain ⟨j, op, mc, rest, bss1, bss2, _, _, _, _, _, _, _, hs'⟩ := outageToIdle_spec hh
      have := stage_machine (S := s') (M := m0.toIdle j.id bss1 bss2) hmn hm0 (by rfl)
        (by subst hs'; rfl) (by subst hs'; rfl)
      simp [MachineState.toIdle, hst, stageM] at this
      omega
  | wait t j ht hst hj htjob =>
    obtain ⟨t0, ht0, hid0, hstep⟩ := agv_step_cases (tid := t.id) rfl h
    have e0 : t0 = t := eq_of_mem_of_key_eq (key := fun (y : TransportState) => y.id) htn ht0 ht hid0
    subst e0
    have key : ∀ occ, s' = s.replaceTransport (t0.toWaiting occ) → stage s' + 1 = stage s := by
      rintro occ rfl
      have := stage_transport (S := s.replaceTransport (t0.toWaiting occ)) htn ht0 (by rfl) rfl rfl
      simp only [show (t0.toWaiting occ).st = .waitingpickup from rfl, hst, stageT] at this
      omega
    cases hstep with
    | dispatch _ hn _ => cases hn
    | pick _ hn _ => cases hn
    | deliver _ hn _ => cases hn
    | release _ hn _ => cases hn
    | wait1 _ _ hh =>
      obtain ⟨occ, _, _, _, e⟩ := pickupToWaiting_spec hh
      exact key occ e
    | wait2 _ _ hh =>
      obtain ⟨occ, _, _, e⟩ := waitingToWaiting_spec hh
      exact key occ e
  | pick t j ht hst hj htjob =>
    obtain ⟨t0, ht0, hid0, hstep⟩ := agv_step_cases (tid := t.id) rfl h
    have e0 : t0 = t := eq_of_mem_of_key_eq (key := fun (y : TransportState) => y.id) htn ht0 ht hid0
    subst e0
    cases hstep with
    | dispatch _ hn _ => cases hn
    | wait1 _ hn _ => cases hn
    | wait2 _ hn _ => cases hn
    | deliver _ hn _ => cases hn
    | release _ hn _ => cases hn
    | pick _ _ hh =>
      obtain ⟨j2, src, dst, tt, bss1, bss2, _, _, _, _, _, hcase⟩ := pickupToTransit_spec hh
      rcases hcase with ⟨fb, _, _, _, _, _, hs'⟩ | ⟨mid, ms, bs, ms', _, _, hms, _, _, _, hrep, hs'⟩
      · have := stage_transport (S := s') (T := t0.toTransit (s.time + tt) j2.id bss2)
          htn ht0 (by rfl) (by subst hs'; rfl) (by subst hs'; rfl)
        simp [TransportState.toTransit, hst, stageT] at this
        omega
      · have hk := replaceBufInMachine_st hrep
        have := stage_both (S := s') (M := ms') (T := t0.toTransit (s.time + tt) j2.id bss2)
          hmn htn hms hk.1 hk.2 ht0 (by rfl) (by subst hs'; rfl) (by subst hs'; rfl)
        simp [TransportState.toTransit, hst, stageT] at this
        omega
  | deliver t j ht hst hj hstore =>
    obtain ⟨t0, ht0, hid0, hstep⟩ := agv_step_cases (tid := t.id) rfl h
    have e0 : t0 = t := eq_of_mem_of_key_eq (key := fun (y : TransportState) => y.id) htn ht0 ht hid0
    subst e0
    cases hstep with
    | dispatch _ hn _ => cases hn
    | wait1 _ hn _ => cases hn
    | wait2 _ hn _ => cases hn
    | pick _ hn _ => cases hn
    | release _ hn _ => cases hn
    | deliver _ _ hh =>
      obtain ⟨j2, cur, pick, drop, tc, outs, bss1, bss2, _, _, _, _, _, _, _, hcase⟩ := transitToOutage_spec hh
      rcases hcase with ⟨mid, ms, _, hms, _, _, hs'⟩ | ⟨bid, b, _, _, _, _, hs'⟩
      · have := stage_both (S := s') (M := ms.withPre j2.id bss2)
          (T := t0.toOutage j2.id bss1 outs (s.time + occupiedFor outs) drop)
          hmn htn hms (by rfl) (by rfl) ht0 (by rfl) (by subst hs'; rfl) (by subst hs'; rfl)
        simp [TransportState.toOutage, hst, stageT] at this
        omega
      · have := stage_transport (S := s') (T := t0.toOutage j2.id bss1 outs (s.time + occupiedFor outs) drop)
          htn ht0 (by rfl) (by subst hs'; rfl) (by subst hs'; rfl)
        simp [TransportState.toOutage, hst, stageT] at this
        omega
  | release t ht hst =>
    obtain ⟨t0, ht0, hid0, hstep⟩ := agv_step_cases (tid := t.id) rfl h
    have e0 : t0 = t := eq_of_mem_of_key_eq (key := fun (y : TransportState) => y.id) htn ht0 ht hid0
    subst e0
    cases hstep with
    | dispatch _ hn _ => cases hn
    | wait1 _ hn _ => cases hn
    | wait2 _ hn _ => cases hn
    | pick _ hn _ => cases hn
    | deliver _ hn _ => cases hn
    | release _ _ hh =>
      obtain ⟨_, rfl⟩ := agvOutageToIdle_spec hh
      have := stage_transport (S := s.replaceTransport t0.toIdle) htn ht0 (by rfl) rfl rfl
      simp only [show t0.toIdle.st = .idle from rfl, hst, stageT] at this
      omega

end JSL
