import JSL.Inv.EnvReach

/-!
# The ordered list of applied transitions of an episode

`Calls.lean` records the applications `state.step` makes as a relation without order.  The approach
leg relates two applications of one episode (a dispatch and a later pickup), so the applications are
listed here *in order*: `procCalls` (one batch), `loopCalls` (the `while timed_transitions` loop),
`stepCalls` (one `state.step`), `mwCalls` (one `middleware.step`), `EnvRun` (an episode).  The
functions follow the code clause by clause; `…_micro` show that the post-states of the listed calls
are exactly the ghost list `micro` (the post-state of every applied transition, in order) the model
returns, so the list is *the* list of applications of the step.
-/

namespace JSL

/-- one application of a transition: the state right before, the transition, the state right after -/
structure Call where
  pre : State
  tr : Transition
  post : State
  deriving DecidableEq, Repr

variable (orc : Oracle) (inst : Instance)

/-- the applications of `process_state_transitions` on the batch `L`, in order -/
def procCalls : List Transition → State → Rng → List Call
  | [], _, _ => []
  | tr :: L, s, r =>
    match transitionValid s tr with
    | .ok true =>
      match applyTransition orc inst s r tr with
      | .ok (s1, r1) => ⟨s, tr, s1⟩ :: procCalls L s1 r1
      | .error _ => []
    | .ok false => procCalls L s r
    | .error _ => []

/-- the applications of the `while timed_transitions` loop, in order -/
def loopCalls (cfg : SMConfig) : Nat → List Transition → State → Rng → List Call
  | _, [], _, _ => []
  | 0, _ :: _, _, _ => []
  | fuel + 1, tr :: tt, s, r =>
    procCalls orc inst (tr :: tt) s r ++
      (match processTransitions orc inst (tr :: tt) s r with
       | .ok o =>
         if o.nerr > 0 then [] else
         match jumpToEvent inst cfg o.state with
         | .ok t =>
           match timedTransitions inst { o.state with time := t } with
           | .ok tt' => loopCalls cfg fuel tt' { o.state with time := t } o.rng
           | .error _ => []
         | .error _ => []
       | .error _ => [])

/-- the applications of one `state.step`, in order -/
def stepCalls (cfg : SMConfig) (fuel : Nat) (s0 : State) (r : Rng) (a : Action) : List Call :=
  procCalls orc inst (sortedByTransport a.transitions) s0 r ++
    (match processTransitions orc inst (sortedByTransport a.transitions) s0 r with
     | .ok p =>
       if p.nerr > 0 then [] else
       match runTimeMachine inst cfg p.state a.tm with
       | .ok t =>
         match timedTransitions inst { p.state with time := t },
               possibleTransitions inst cfg { p.state with time := t } with
         | .ok timed, .ok poss =>
           match filterTeleport orc inst p.rng { p.state with time := t } poss with
           | .ok tele => loopCalls orc inst cfg fuel (timed ++ tele) { p.state with time := t } p.rng
           | .error _ => []
         | _, _ => []
       | .error _ => []
     | .error _ => [])

/-- the applications of one `middleware.step`: those of the `state.step` it performs, if any -/
def mwCalls (cfg : SMConfig) (fuel : Nat) (res : SMResult) (r : Rng) : AgentAct → List Call
  | .outside => []
  | .accept =>
    match res.possible with
    | [] => []
    | tr :: _ => stepCalls orc inst cfg fuel res.state r { transitions := [tr], noOp := false, tm := .jumpToEvent }
  | .decline =>
    match res.possible with
    | [_] => stepCalls orc inst cfg fuel res.state r { noOpAction with tm := .forceJump }
    | _ => []

/-- an episode of the environment together with the list of all transitions applied so far -/
inductive EnvRun (ec : EnvCfg) (st : RewardStatic) (s0 : State) : EnvState → List Call → Prop
  | reset {r e mic} : envReset orc inst ec s0 r = .ok (e, mic) →
      EnvRun ec st s0 e (stepCalls orc inst ec.sm ec.fuel s0 r noOpAction)
  | step {e a out C} : EnvRun ec st s0 e C → envStep orc inst ec st e a = .ok out →
      EnvRun ec st s0 out.env (C ++ mwCalls orc inst ec.sm ec.fuel e.res e.rng a)

variable {orc inst}

/-! ## the lists are the ghost lists `micro` -/

theorem ap_procCalls_micro : ∀ (L : List Transition) (s : State) (r : Rng) (o : ProcOut),
    processTransitions orc inst L s r = .ok o → (procCalls orc inst L s r).map (·.post) = o.micro
  | [], s, r, o, h => by simp [processTransitions] at h; subst h; simp [procCalls]
  | tr :: L, s, r, o, h => by
    simp only [processTransitions] at h
    obtain ⟨v, hv, h⟩ := except_bind_eq_ok h
    cases v with
    | true =>
      simp only [if_true] at h
      obtain ⟨⟨s1, r1⟩, ha, h⟩ := except_bind_eq_ok h
      obtain ⟨o1, ho1, h⟩ := except_bind_eq_ok h
      simp at h; subst h
      simp only [procCalls, hv, ha, List.map_cons]
      rw [ap_procCalls_micro L s1 r1 o1 ho1]
    | false =>
      simp only [Bool.false_eq_true, if_false] at h
      obtain ⟨o1, ho1, h⟩ := except_bind_eq_ok h
      simp at h; subst h
      simp only [procCalls, hv]
      exact ap_procCalls_micro L s r o1 ho1

theorem ap_loopCalls_micro {cfg : SMConfig} : ∀ (fuel : Nat) (tt : List Transition) (s : State) (r : Rng)
    (subs mic : List State) (out : LoopOut), timedLoop orc inst cfg fuel tt s r subs mic = .ok out →
    out.micro = mic ++ (loopCalls orc inst cfg fuel tt s r).map (·.post) := by
  intro fuel
  induction fuel with
  | zero =>
    intro tt s r subs mic out h
    cases tt with
    | nil => simp [timedLoop] at h; subst h; simp [loopCalls]
    | cons a as => simp [timedLoop] at h
  | succ n ih =>
    intro tt s r subs mic out h
    cases tt with
    | nil => simp [timedLoop] at h; subst h; simp [loopCalls]
    | cons a as =>
      simp only [timedLoop] at h
      obtain ⟨o, ho, h⟩ := except_bind_eq_ok h
      have hm := ap_procCalls_micro _ _ _ _ ho
      simp only [loopCalls, ho, List.map_append, hm]
      split at h
      · rename_i hn
        simp at h; subst h
        simp [hn]
      · rename_i hn
        obtain ⟨t, ht, h⟩ := except_bind_eq_ok h
        obtain ⟨tt', htt', h⟩ := except_bind_eq_ok h
        rw [ih _ _ _ _ _ _ h]
        simp [hn, ht, htt']

theorem ap_stepCalls_micro {cfg : SMConfig} {fuel : Nat} {s0 : State} {r : Rng} {a : Action} {res : SMResult}
    {r' : Rng} {mic : List State} (h : smStep orc inst cfg fuel s0 r a = .ok (res, r', mic)) :
    (stepCalls orc inst cfg fuel s0 r a).map (·.post) = mic := by
  unfold smStep at h
  obtain ⟨p, hp, h⟩ := except_bind_eq_ok h
  have hm := ap_procCalls_micro _ _ _ _ hp
  simp only [stepCalls, hp, List.map_append, hm]
  split at h
  · rename_i hn
    simp at h
    obtain ⟨_, _, rfl⟩ := h
    simp [hn]
  · rename_i hn
    simp only at h
    obtain ⟨t, ht, h⟩ := except_bind_eq_ok h
    obtain ⟨timed, htimed, h⟩ := except_bind_eq_ok h
    obtain ⟨poss, hposs, h⟩ := except_bind_eq_ok h
    obtain ⟨tele, htele, h⟩ := except_bind_eq_ok h
    obtain ⟨out, hout, h⟩ := except_bind_eq_ok h
    have hl := ap_loopCalls_micro _ _ _ _ _ _ _ hout
    have hgoal : out.micro = mic := by
      split at h
      · simp at h; exact h.2.2
      · split at h
        · obtain ⟨e, _, h⟩ := except_bind_eq_ok h
          simp at h; exact h.2.2
        · obtain ⟨poss', _, h⟩ := except_bind_eq_ok h
          simp at h; exact h.2.2
    rw [← hgoal, hl]
    simp [hn, ht, htimed, hposs, htele]

end JSL
