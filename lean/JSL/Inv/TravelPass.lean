import JSL.Inv.Travel

/-!
# The travel invariant along every execution
-/

namespace JSL

variable {orc : Oracle} {inst : Instance}

/-- a timed delivery is created only when the arrival time has been reached, by the AGV itself -/
theorem timedTransport_outage_due {s : State} (hS : SchedInv s) {t : TransportState} (ht : t ∈ s.transports) {tr : Transition}
    (h : timedTransport inst s t = .ok (some tr)) (hn : tr.new = .t .outage) :
    tr.comp = .t t.id ∧ ∀ o, t.occ = .at o → o ≤ s.time := by
  unfold timedTransport at h
  cases hocc : t.occ with
  | none => simp [hocc] at h
  | dep b j tr' =>
    exfalso
    simp only [hocc] at h
    obtain ⟨res, _, h⟩ := except_bind_eq_ok h
    split at h
    · simp at h; subst h
      rw [hS.depWaiting t ht b j tr' hocc] at hn; cases hn
    · simp at h
  | «at» o =>
    simp only [hocc] at h
    split at h
    · rename_i hle
      refine ⟨?_, fun o' ho' => by simp at ho'; omega⟩
      cases hcr : agvTimedCreator t.st with
      | idleToPick =>
        simp only [hcr] at h
        unfold agvIdleToPickTransition at h
        obtain ⟨jid, _, h⟩ := except_bind_eq_ok h
        obtain ⟨j, _, h⟩ := except_bind_eq_ok h
        obtain ⟨rdy, _, h⟩ := except_bind_eq_ok h
        simp at h
        cases hnx : idleToPickNext t.st rdy with
        | none => simp [hnx] at h
        | some ns => simp [hnx] at h; subst h; rfl
      | pickupToDrop =>
        simp only [hcr] at h
        split at h
        · obtain ⟨js, _, h⟩ := except_bind_eq_ok h
          simp at h; subst h; rfl
        · simp at h
      | dropToIdle => simp [hcr] at h; subst h; rfl
      | raises => simp [hcr] at h
      | none => simp [hcr] at h
    · simp at h

/-- the transport part of a timed batch meets the arrival guard -/
theorem timedTransports_arr {s : State} (hS : SchedInv s) : ∀ (ts : List TransportState), (∀ t ∈ ts, t ∈ s.transports) →
    (ts.map (·.id)).Nodup → ∀ r, ts.mapM (timedTransport inst s) = .ok r →
    (∀ tr ∈ r.filterMap id, tr.new = .t .outage → ∃ t ∈ ts, tr.comp = .t t.id ∧ ∀ o, t.occ = .at o → o ≤ s.time) ∧
    (r.filterMap id).Pairwise (fun a b => b.new = .t .outage → a.comp = b.comp → a.new = .t .waitingpickup)
  | [], _, _, r, h => by simp [List.mapM_nil] at h; subst h; simp
  | t :: ts, hsub, hnd, r, h => by
    rw [List.mapM_cons] at h
    obtain ⟨x, hx, h⟩ := except_bind_eq_ok h
    obtain ⟨xs, hxs, h⟩ := except_bind_eq_ok h
    simp at h; subst h
    simp only [List.map_cons, List.nodup_cons, List.mem_map, not_exists, not_and] at hnd
    have ih := timedTransports_arr hS ts (fun y hy => hsub y (by simp [hy])) hnd.2 xs hxs
    cases x with
    | none =>
      simp only [List.filterMap_cons, id]
      exact ⟨fun tr htr hn => by
        obtain ⟨t', ht', e⟩ := ih.1 tr htr hn
        exact ⟨t', by simp [ht'], e⟩, ih.2⟩
    | some tr0 =>
      simp only [List.filterMap_cons, id]
      have h0 := timedTransport_shape hS (hsub t (by simp)) hx
      constructor
      · intro tr htr hn
        rcases List.mem_cons.mp htr with rfl | htr
        · exact ⟨t, by simp, timedTransport_outage_due hS (hsub t (by simp)) hx hn⟩
        · obtain ⟨t', ht', e⟩ := ih.1 tr htr hn
          exact ⟨t', by simp [ht'], e⟩
      · apply List.pairwise_cons.mpr
        refine ⟨?_, ih.2⟩
        intro b hb hbn hcomp
        rcases h0 with e | ⟨e, _⟩
        · exact e
        · exfalso
          obtain ⟨t', ht', ec, _⟩ := ih.1 b hb hbn
          rw [e, ec] at hcomp
          simp at hcomp
          exact hnd.1 t' ht' hcomp.symm

/-- the timed batch (followed by AGV dispatches) meets the arrival guard -/
theorem timed_arr (w : WF inst) {s : State} (hI : StructInv inst s) (hS : SchedInv s) {tt tele : List Transition}
    (htt : timedTransitions inst s = .ok tt) (htele : ∀ tr ∈ tele, tr.new = .t .working) : ArrGS s (tt ++ tele) := by
  have hs := hI.shape
  unfold timedTransitions at htt
  obtain ⟨a, ha, htt⟩ := except_bind_eq_ok htt
  obtain ⟨b, hb, htt⟩ := except_bind_eq_ok htt
  simp at htt; subst htt
  unfold timedMachineTransitions at ha
  unfold timedTransportTransitions at hb
  cases hra : s.machines.mapM (timedMachine inst s.time) with
  | error e => simp [hra] at ha
  | ok ra =>
    simp [hra] at ha; subst ha
    cases hrb : s.transports.mapM (timedTransport inst s) with
    | error e => simp [hrb] at hb
    | ok rb =>
      simp [hrb] at hb; subst hb
      have hA := timedMachines_spec (inst := inst) s.machines (fun m hm => hm) (hs.machNodup w) ra hra
      have hB := timedTransports_arr (inst := inst) hS s.transports (fun t ht => ht) (hs.trNodup w) rb hrb
      -- machine transitions and dispatches are no deliveries
      have hM : ∀ tr ∈ ra.filterMap id, ∃ ns mid, tr.new = .m ns ∧ tr.comp = .m mid := by
        intro tr htr
        obtain ⟨⟨m, _, hc, hcase⟩, _⟩ := hA.1 tr htr
        rcases hcase with ⟨ns, _, e, _⟩ | ⟨_, e, _⟩
        · exact ⟨ns, m.id, e, hc⟩
        · exact ⟨.setup, m.id, e, hc⟩
      rw [List.append_assoc]
      constructor
      · intro tr htr hn t ht hc hst o ho
        rcases List.mem_append.mp htr with h | h
        · obtain ⟨ns, _, e, _⟩ := hM tr h
          rw [e] at hn; cases hn
        · rcases List.mem_append.mp h with h | h
          · obtain ⟨t', ht', ec, hdue⟩ := hB.1 tr h hn
            rw [ec] at hc
            simp at hc
            have : t' = t := eq_of_mem_of_key_eq (key := fun (y : TransportState) => y.id) (hs.trNodup w) ht' ht hc
            subst this
            exact hdue o ho
          · rw [htele tr h] at hn; cases hn
      · apply List.pairwise_append.mpr
        refine ⟨?_, ?_, ?_⟩
        · apply List.pairwise_of_forall_mem_list
          intro x _ y hy hn
          obtain ⟨ns, _, e, _⟩ := hM y hy
          rw [e] at hn; cases hn
        · apply List.pairwise_append.mpr
          refine ⟨hB.2, ?_, ?_⟩
          · apply List.pairwise_of_forall_mem_list
            intro x _ y hy hn
            rw [htele y hy] at hn; cases hn
          · intro x _ y hy hn
            rw [htele y hy] at hn; cases hn
        · intro x hx y hy hn hcomp
          exfalso
          obtain ⟨_, mid, _, ec⟩ := hM x hx
          rcases List.mem_append.mp hy with h | h
          · obtain ⟨t', _, ec', _⟩ := hB.1 y h hn
            rw [ec, ec'] at hcomp; cases hcomp
          · rw [htele y h] at hn; cases hn

/-- the full AGV invariant together with the travel invariant -/
structure AgvTravel (inst : Instance) (s : State) : Prop where
  full : AgvFull inst s
  travel : TravelInv inst s

structure TravelGS (s : State) (L : List Transition) : Prop where
  full : FullGS s L
  arr : ArrGS s L

theorem TravelInv.advance {s : State} (h : TravelInv inst s) {t : Int} (hle : s.time ≤ t) :
    TravelInv inst { s with time := t } := by
  intro j hj
  exact (h j hj).keep hle (fun m hm => ⟨m, hm, rfl⟩) (fun x hx _ => ⟨x, hx, rfl, rfl⟩)

theorem TravelInv.of_time {s : State} {t : Int} (h : TravelInv inst { s with time := t }) (hle : t ≤ s.time) :
    TravelInv inst s := by
  intro j hj
  exact (h j hj).keep hle (fun m hm => ⟨m, hm, rfl⟩) (fun x hx _ => ⟨x, hx, rfl, rfl⟩)

/-- at rest nothing is finished: the travel invariant holds vacuously -/
theorem TravelInv.of_rest {s : State} (h : restB s = true) : TravelInv inst s := by
  simp only [restB, Bool.and_eq_true, List.all_eq_true, beq_iff_eq] at h
  obtain ⟨⟨_, hj⟩, _⟩ := h
  intro j hj'
  constructor
  · intro a b hadj ha
    rw [hj j hj' a (adjL_mem hadj).1] at ha; cases ha
  · intro a b hadj ha
    rw [hj j hj' a (adjL_mem hadj).1] at ha; cases ha

/-- **The travel pass.** -/
def TravelPass (orc : Oracle) (inst : Instance) (cfg : SMConfig) (w : WF inst) : Pass orc inst cfg where
  P := AgvTravel inst
  GS := TravelGS
  Adm := AdmOffer inst cfg
  tail := fun h => ⟨(FullPass orc inst cfg w).tail h.full, h.arr.tail⟩
  step := fun hI hS hP hv hsafe hfresh hgs ha => by
    obtain ⟨h1, h2⟩ := (FullPass orc inst cfg w).step hI hS hP.full hv hsafe hfresh hgs.full ha
    obtain ⟨h3, h4⟩ := applyTransition_travel w hI hS hP.full hP.travel hv hsafe hgs.full hgs.arr ha
    exact ⟨⟨h1, h3⟩, ⟨h2, h4⟩⟩
  advance := fun hI hS hP hle hp => ⟨(FullPass orc inst cfg w).advance hI hS hP.full hle hp, hP.travel.advance hle⟩
  timed := fun hI hS hP htt hposs htele =>
    ⟨(FullPass orc inst cfg w).timed hI hS hP.full htt hposs htele, timed_arr w hI hS htt (filterTeleport_shape hposs htele)⟩
  timedOnly := fun hI hS hP htt =>
    ⟨(FullPass orc inst cfg w).timedOnly hI hS hP.full htt, by simpa using timed_arr w hI hS (tele := []) htt (by simp)⟩
  action := fun {s a} hI hS hP hadm => by
    refine ⟨(FullPass orc inst cfg w).action hI hS hP.full hadm, ?_⟩
    have hsh : ∀ tr ∈ sortedByTransport a.transitions, tr.new ≠ .t .outage := by
      intro tr htr hn
      have hm := mem_sortedByTransport htr
      rcases hadm with e | ⟨poss, hposs, tr0, hp, e⟩
      · rw [e] at hm; cases hm
      · rw [e] at hm; simp at hm; subst hm
        rcases offers_offerShaped hposs tr hp with e' | e' <;> rw [e'] at hn <;> cases hn
    refine ⟨fun tr htr hn => absurd hn (hsh tr htr), ?_⟩
    apply List.pairwise_of_forall_mem_list
    intro x _ y hy hn
    exact absurd hn (hsh y hy)

/-- the clause of the travel invariant that does not mention the clock: a started operation
started no earlier than its predecessor's end plus the travel time -/
def TravelStart (inst : Instance) (s : State) : Prop :=
  ∀ j ∈ s.jobs, ∀ a b, AdjL j.ops a b → a.st = .done → ∀ e, a.stop = some e → ∀ d, detTravel inst a b d →
    b.st ≠ .idle → ∀ x, b.start = some x → e + d ≤ x

theorem TravelInv.toStart {s : State} (h : TravelInv inst s) : TravelStart inst s :=
  fun j hj => (h j hj).start

theorem occursF_travel {cfg : SMConfig} {s0 σ : State} (hst : Start orc inst s0) (h : OccursF orc inst cfg s0 σ) :
    AgvTravel inst σ := by
  obtain ⟨w, _⟩ := initOKB_sound hst.init
  have nn := nonnegB_sound hst.samples hst.nonneg
  induction h with
  | init => exact ⟨AgvFull.of_rest hst.rest hst.placed, TravelInv.of_rest hst.rest⟩
  | result hprev ha hc hstep hnd ih =>
    obtain ⟨_, hI, hS⟩ := occursA_inv hst hprev.toC.toA
    exact ((TravelPass orc inst cfg w).smStep w nn hI hS ih ha hc hstep).2.2.2 hnd
  | sub hprev ha hc hstep hσ ih =>
    obtain ⟨_, hI, hS⟩ := occursA_inv hst hprev.toC.toA
    exact ((TravelPass orc inst cfg w).smStep w nn hI hS ih ha hc hstep).2.1 _ hσ
  | micro hprev ha hc hstep hσ ih =>
    obtain ⟨_, hI, hS⟩ := occursA_inv hst hprev.toC.toA
    exact ((TravelPass orc inst cfg w).smStep w nn hI hS ih ha hc hstep).1 _ hσ

/-- the state a step returns (its clock possibly stamped with the makespan) -/
theorem final_travel {cfg : SMConfig} {s0 s : State} (hst : Start orc inst s0) (h : OccursF orc inst cfg s0 s)
    {a : Action} (ha : Admissible a) (hc : AdmOffer inst cfg s a) {fuel : Nat} {r r' : Rng}
    {res : SMResult} {mic : List State} (hstep : smStep orc inst cfg fuel s r a = .ok (res, r', mic)) :
    TravelStart inst res.state := by
  obtain ⟨w, hI, hS⟩ := occursA_inv hst h.toC.toA
  have nn := nonnegB_sound hst.samples hst.nonneg
  obtain ⟨t, ht⟩ := ((TravelPass orc inst cfg w).smStep w nn hI hS (occursF_travel hst h) ha hc hstep).2.2.1
  exact fun j hj => (ht.travel j hj).start

end JSL
