import JSL.Model.Roomy
import JSL.Inv.Applies
import JSL.Inv.ProgressPass
import JSL.Inv.OutageInv

/-!
# C05 for a class of instances: definitions

The `Prop` versions of the guards of `JSL/Model/Roomy.lean`, the further invariants the totality
proof needs (`OutShape`, `AgvShape`, `JobPlace`), the bundle `TotInv` of everything that holds in
every state of every episode of an instance of the class, and `Aim`: what a transition of a batch
has to know about the state it is applied in for its handler not to raise.
-/

namespace JSL

variable {orc : Oracle} {inst : Instance}

/-! ## the class -/

structure Roomy (inst : Instance) : Prop where
  out : ∀ b rest, outputBuffers inst = b :: rest → (inst.jobs.length : Int) ≤ b.cap
  pre : ∀ mc ∈ inst.machines, (inst.jobs.length : Int) ≤ mc.pre.cap
  post : ∀ mc ∈ inst.machines, (inst.jobs.length : Int) ≤ mc.post.cap
  buf : ∀ mc ∈ inst.machines, 1 ≤ mc.buf.cap
  agv : ∀ tc ∈ inst.transports, 1 ≤ tc.buf.cap

structure Parents (inst : Instance) : Prop where
  standalone : ∀ b ∈ inst.buffers, b.parent = none
  machine : ∀ mc ∈ inst.machines, mc.pre.parent = some (Comp.m mc.id) ∧ mc.buf.parent = some (Comp.m mc.id) ∧
    mc.post.parent = some (Comp.m mc.id)

structure AgvOnly (inst : Instance) : Prop where
  ne : inst.transports ≠ []
  agv : ∀ tc ∈ inst.transports, tc.type = .agv

def Routes (inst : Instance) : Prop :=
  ∀ a ∈ sources inst, ∀ b ∈ stands inst, (a.isBuf = true ∧ b.isBuf = true) ∨ (travelCfg inst a b).isSome = true

def JobsHaveOps (inst : Instance) : Prop := ∀ j ∈ inst.jobs, j.ops ≠ []

/-- every configured outage has a record -/
def OutCover (cfgs : List OutageCfg) (sts : List OutageState) : Prop := ∀ oc ∈ cfgs, ∃ o ∈ sts, o.id = oc.id

structure OutShape (inst : Instance) (s : State) : Prop where
  mach : ∀ m ∈ s.machines, ∀ mc ∈ inst.machines, mc.id = m.id → OutCover mc.outages m.outages
  agv : ∀ t ∈ s.transports, ∀ tc ∈ inst.transports, tc.id = t.id → OutCover tc.outages t.outages

/-- the static part of the class -/
structure TotClass (inst : Instance) : Prop where
  tables : TablesTotal inst
  roomy : Roomy inst
  parents : Parents inst
  agvOnly : AgvOnly inst
  routes : Routes inst
  jobsOps : JobsHaveOps inst
  flex : FlexInst inst

theorem roomyB_sound (h : roomyTotB inst = true) : Roomy inst := by
  simp only [roomyTotB, Bool.and_eq_true, List.all_eq_true, decide_eq_true_eq] at h
  obtain ⟨⟨h1, h2⟩, h3⟩ := h
  refine ⟨?_, fun mc hmc => (h2 mc hmc).1.1, fun mc hmc => (h2 mc hmc).1.2, fun mc hmc => (h2 mc hmc).2, h3⟩
  intro b rest e
  rw [e] at h1
  simpa using h1

theorem parentsB_sound (h : parentsTotB inst = true) : Parents inst := by
  simp only [parentsTotB, Bool.and_eq_true, List.all_eq_true, beq_iff_eq] at h
  exact ⟨h.1, fun mc hmc => ⟨(h.2 mc hmc).1.1, (h.2 mc hmc).1.2, (h.2 mc hmc).2⟩⟩

theorem agvOnlyB_sound (h : agvOnlyB inst = true) : AgvOnly inst := by
  simp only [agvOnlyB, Bool.and_eq_true, List.all_eq_true, beq_iff_eq, Bool.not_eq_true', List.isEmpty_eq_false_iff] at h
  exact ⟨h.1, h.2⟩

theorem routesB_sound (h : routesB inst = true) : Routes inst := by
  simp only [routesB, List.all_eq_true, Bool.or_eq_true, Bool.and_eq_true] at h
  exact h

theorem jobsHaveOpsB_sound (h : jobsHaveOpsB inst = true) : JobsHaveOps inst := by
  simp only [jobsHaveOpsB, List.all_eq_true, Bool.not_eq_true', List.isEmpty_eq_false_iff] at h
  exact h

theorem outCoverB_sound {cfgs : List OutageCfg} {sts : List OutageState} (h : outCoverB cfgs sts = true) :
    OutCover cfgs sts := by
  simp only [outCoverB, List.all_eq_true, List.any_eq_true, beq_iff_eq] at h
  exact h

theorem outShapeB_sound {s : State} (h : outShapeB inst s = true) : OutShape inst s := by
  simp only [outShapeB, Bool.and_eq_true, List.all_eq_true, Bool.or_eq_true, bne_iff_ne, ne_eq] at h
  constructor
  · intro m hm mc hmc hid
    rcases h.1 m hm mc hmc with e | e
    · exact absurd hid e
    · exact outCoverB_sound e
  · intro t ht tc htc hid
    rcases h.2 t ht tc htc with e | e
    · exact absurd hid e
    · exact outCoverB_sound e

theorem totalInstB_sound (h : totalInstB inst = true) : TotClass inst := by
  simp only [totalInstB, Bool.and_eq_true] at h
  obtain ⟨⟨⟨⟨⟨⟨h1, h2⟩, h3⟩, h4⟩, h5⟩, h6⟩, h7⟩ := h
  exact ⟨tablesTotalB_sound h1, roomyB_sound h2, parentsB_sound h3, agvOnlyB_sound h4, routesB_sound h5,
    jobsHaveOpsB_sound h6, flexInstB_sound h7⟩

/-! ## further invariants -/

/-- the AGVs: never in the state WORKING, an AGV on its way to / waiting for a pickup has claimed a
job, `occupied_till` is never a time dependency and is a time for every AGV that is not idle -/
structure AgvShape (s : State) : Prop where
  noWorking : ∀ t ∈ s.transports, t.st ≠ .working
  busyClaims : ∀ t ∈ s.transports, t.st = .pickup ∨ t.st = .waitingpickup → ∃ x, t.job = some x
  noDep : ∀ t ∈ s.transports, ∀ b j tr, t.occ ≠ .dep b j tr
  occSet : ∀ t ∈ s.transports, t.st ≠ .idle → ∃ e, t.occ = .at e

/-- ids of the stand-alone buffers that are not output buffers -/
def nonOutIds (inst : Instance) : List Nat := (inst.buffers.filter (·.role != .output)).map (·.id)

/-- where jobs are: a job that lies in a stand-alone non-output buffer has an idle operation (it has
not been touched); a job claimed by an AGV does not lie in an output buffer -/
structure JobPlace (inst : Instance) (s : State) : Prop where
  inputIdle : ∀ j ∈ s.jobs, j.loc ∈ nonOutIds inst → j.noOpIdle = false
  claimNotOut : ∀ t ∈ s.transports, ∀ x, t.job = some x → ∀ j ∈ s.jobs, j.id = x → j.loc ∉ outputIds inst

/-- everything that holds in every state of every episode of an instance of the class -/
structure TotInv (inst : Instance) (s : State) : Prop where
  struct : StructInv inst s
  sched : SchedInv s
  full : AgvFull inst s
  ready : Ready inst s
  out : OutageInv s
  outShape : OutShape inst s
  shape : AgvShape s
  place : JobPlace inst s

/-! ## what a transition of a batch knows about the state it is applied in -/

structure Aim (inst : Instance) (s : State) (tr : Transition) : Prop where
  /-- a machine transition addresses a machine, names a job, and the job lies where the handler
  will look for it -/
  mach : ∀ mid, tr.comp = .m mid → ∃ m ∈ s.machines, m.id = mid ∧ ∃ ns x, tr.new = .m ns ∧ tr.job = some x ∧
      (ns = .setup → x ∈ m.pre.store) ∧ (ns = .working ∨ ns = .outage → x ∈ m.buffer.store)
  /-- an AGV transition addresses an AGV for whose state there is a handler; a dispatch names a job
  that is not in an output buffer, a pickup / wait transition the job the AGV claimed, a delivery
  the job the AGV carries -/
  agv : ∀ tid, tr.comp = .t tid → ∃ t ∈ s.transports, t.id = tid ∧ ∃ ns h, tr.new = .t ns ∧
      agvHandler t.st ns = some h ∧
      (h = .idleToWorking → ∃ x, tr.job = some x ∧ (∃ j ∈ s.jobs, j.id = x) ∧
          ∀ j ∈ s.jobs, j.id = x → j.loc ∉ outputIds inst) ∧
      (h = .pickupToWaitingpickup ∨ h = .waitingPickupToWaitingPickup ∨ h = .pickupToTransit → tr.job = t.job) ∧
      (h = .transitToOutage → ∃ x, tr.job = some x ∧ x ∈ t.buffer.store)
  notBuf : ∀ bid, tr.comp ≠ .b bid

/-- a dispatch of the batch is for a job nobody has claimed (`ClaimGS.free` for one transition) -/
def Unclaimed (s : State) (tr : Transition) : Prop :=
  tr.new = .t .working → ∀ x, tr.job = some x → ∀ t ∈ s.transports, t.job ≠ some x

end JSL
