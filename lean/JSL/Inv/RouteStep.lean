import JSL.Inv.Route

/-!
# The route invariant and its preservation
-/

namespace JSL

variable {orc : Oracle} {inst : Instance}

structure RouteInv (inst : Instance) (s : State) : Prop where
  /-- the job an AGV carries is the job it claimed -/
  transitOwn : ∀ t ∈ s.transports, t.st = .transit → ∀ x ∈ t.buffer.store, t.job = some x
  /-- a claiming AGV is routed to where its job has to go next -/
  route : ∀ t ∈ s.transports, ∀ x, t.job = some x → ∀ j ∈ s.jobs, j.id = x →
    ∃ cur pick drop, t.loc = .route cur pick drop ∧ dropOK inst j JobState.nextIdle? drop
  /-- a job waiting in a pre-buffer is claimed by nobody -/
  preUnclaimed : ∀ m ∈ s.machines, ∀ x ∈ m.pre.store, ∀ t ∈ s.transports, t.job ≠ some x
  /-- a job waiting in a pre-buffer waits for its next operation on that machine -/
  preNext : ∀ m ∈ s.machines, ∀ x ∈ m.pre.store, ∀ j ∈ s.jobs, j.id = x → ∃ op, j.nextIdle? = some op ∧ op.machine = m.id
  /-- a job in an output buffer is finished -/
  delivered : ∀ j ∈ s.jobs, j.loc ∈ outputIds inst → ∀ o ∈ j.ops, o.st = .done

structure RouteGS (s : State) (L : List Transition) : Prop where
  notPre : ∀ tr ∈ L, tr.new = .t .working → ∀ x, tr.job = some x → ∀ m ∈ s.machines, x ∉ m.pre.store
  own : ∀ tr ∈ L, tr.new = .t .transit → ∀ t ∈ s.transports, tr.comp = .t t.id → tr.job = t.job
  order : L.Pairwise (fun a b => b.new = .t .transit → a.comp = b.comp → a.new = .t .waitingpickup)

theorem RouteGS.tail {s : State} {tr : Transition} {R : List Transition} (h : RouteGS s (tr :: R)) : RouteGS s R :=
  ⟨fun t ht => h.notPre t (by simp [ht]), fun t ht => h.own t (by simp [ht]), (List.pairwise_cons.mp h.order).2⟩

theorem dropOK_congr {j J' : JobState} (h1 : J'.nextIdle? = j.nextIdle?) (h2 : J'.noOpIdle = j.noOpIdle) (d : Loc) :
    dropOK inst J' JobState.nextIdle? d ↔ dropOK inst j JobState.nextIdle? d := by
  unfold dropOK; rw [h1, h2]

theorem outputIds_sub {s : State} (hs : Shape inst s) {i : Nat} (h : i ∈ outputIds inst) : ∃ b ∈ s.buffers, b.id = i := by
  unfold outputIds outputBuffers at h
  obtain ⟨c, hc, rfl⟩ := List.mem_map.mp h
  have hc' := (List.mem_filter.mp hc).1
  have : c.id ∈ s.buffers.map (·.id) := by rw [hs.buffers]; exact List.mem_map.mpr ⟨c, hc', rfl⟩
  obtain ⟨b, hb, e⟩ := List.mem_map.mp this
  exact ⟨b, hb, e⟩

theorem machine_buf_not_output (w : WF inst) {s : State} (hs : Shape inst s) {m : MachineState} (hm : m ∈ s.machines) :
    m.pre.id ∉ outputIds inst ∧ m.buffer.id ∉ outputIds inst ∧ m.post.id ∉ outputIds inst := by
  have hp := (ids_parts hs w).1
  refine ⟨?_, ?_, ?_⟩ <;> intro h <;> obtain ⟨b, hb, e⟩ := outputIds_sub hs h
  · exact (hp b hb m hm).1 e
  · exact (hp b hb m hm).2.1 e
  · exact (hp b hb m hm).2.2 e

theorem transport_buf_not_output (w : WF inst) {s : State} (hs : Shape inst s) {t : TransportState} (ht : t ∈ s.transports) :
    t.buffer.id ∉ outputIds inst := by
  intro h
  obtain ⟨b, hb, e⟩ := outputIds_sub hs h
  exact (ids_parts hs w).2.1 b hb t ht e

theorem pre_storeAt (w : WF inst) {s : State} (hs : Shape inst s) {m : MachineState} (hm : m ∈ s.machines) :
    storeAt s m.pre.id = m.pre.store ∧ storeAt s m.buffer.id = m.buffer.store :=
  ⟨storeAt_of_mem (hs.bufNodup w) (mem_allBufs_of_machine hm).1, storeAt_of_mem (hs.bufNodup w) (mem_allBufs_of_machine hm).2.1⟩

theorem transport_storeAt (w : WF inst) {s : State} (hs : Shape inst s) {t : TransportState} (ht : t ∈ s.transports) :
    storeAt s t.buffer.id = t.buffer.store := storeAt_of_mem (hs.bufNodup w) (mem_allBufs_of_transport ht)

/-- machine transitions keep the route invariant -/
theorem machine_route (w : WF inst) {s s' : State} {m0 : MachineState} (hI : StructInv inst s) (hS : SchedInv s)
    (hR : RouteInv inst s) (hm0 : m0 ∈ s.machines) (he : MachEffectR s s' m0) : RouteInv inst s' := by
  have hs := hI.shape
  have hjn := hs.jobsNodup w
  obtain ⟨j, hj, J', hJid, hjobs, hcase⟩ := he.job
  have htr := he.transports
  have hmemJ : ∀ x, x ∈ s'.jobs ↔ (x = J' ∨ (x ∈ s.jobs ∧ x.id ≠ j.id)) := by
    intro x; rw [hjobs]; exact mem_replaceJob hjn hj hJid x
  -- the machines of the new state have pre-buffers contained in the old ones
  have hmach : ∀ m' ∈ s'.machines, ∃ m ∈ s.machines, m.id = m'.id ∧ ∀ x ∈ m'.pre.store, x ∈ m.pre.store := by
    rcases hcase with ⟨_, _, h⟩ | ⟨_, _, _, _, h⟩
    · intro m' hm'; obtain ⟨m, hm, e1, e2, _⟩ := h m' hm'; exact ⟨m, hm, e1, e2⟩
    · exact h
  constructor
  · intro t ht; exact hR.transitOwn t (htr ▸ ht)
  · intro t ht x hx j' hj' hid
    have ht' : t ∈ s.transports := htr ▸ ht
    rcases (hmemJ j').mp hj' with rfl | ⟨hj0, _⟩
    · rcases hcase with ⟨hpre, _, _⟩ | ⟨_, h1, h2, _, _⟩
      · exact absurd (by rw [← hid, hJid] at hx; exact hx) (hR.preUnclaimed m0 hm0 j.id hpre t ht')
      · obtain ⟨cur, pick, drop, e1, e2⟩ := hR.route t ht' x hx j hj (by rw [← hid, hJid])
        exact ⟨cur, pick, drop, e1, (dropOK_congr h1 h2 drop).mpr e2⟩
    · exact hR.route t ht' x hx j' hj0 hid
  · intro m' hm' x hx t ht
    obtain ⟨m, hm, _, hsub⟩ := hmach m' hm'
    exact hR.preUnclaimed m hm x (hsub x hx) t (htr ▸ ht)
  · intro m' hm' x hx j' hj' hid
    obtain ⟨m, hm, hmid, hsub⟩ := hmach m' hm'
    rcases (hmemJ j').mp hj' with rfl | ⟨hj0, _⟩
    · have hxj : x = j.id := by rw [← hid, hJid]
      rcases hcase with ⟨hpre, _, h⟩ | ⟨_, h1, _, _, _⟩
      · exfalso
        obtain ⟨m2, hm2, e1, e2, e3⟩ := h m' hm'
        by_cases hsame : m'.id = m0.id
        · exact e3 hsame (hxj ▸ hx)
        · -- the job would be in the pre-buffers of two machines
          have h1 : j.id ∈ storeAt s m2.pre.id := by rw [(pre_storeAt w hs hm2).1]; exact e2 x hx |> (hxj ▸ ·)
          have h2 : j.id ∈ storeAt s m0.pre.id := by rw [(pre_storeAt w hs hm0).1]; exact hpre
          have := unique_store hI.cons hjn h1 h2
          exact machines_bufs_ne hs w hm2 hm0 (by rw [e1]; exact hsame) _ (by simp) _ (by simp) this
      · obtain ⟨op, e1, e2⟩ := hR.preNext m hm x (hsub x hx) j hj hxj.symm
        exact ⟨op, by rw [h1]; exact e1, by rw [e2, hmid]⟩
    · obtain ⟨op, e1, e2⟩ := hR.preNext m hm x (hsub x hx) j' hj0 hid
      exact ⟨op, e1, by rw [e2, hmid]⟩
  · intro j' hj' hloc
    rcases (hmemJ j').mp hj' with rfl | ⟨hj0, _⟩
    · exfalso
      have hno := machine_buf_not_output w hs hm0
      rcases hcase with ⟨_, hl, _⟩ | ⟨hin, _, _, hl, _⟩
      · rw [hl] at hloc; exact hno.2.1 hloc
      · rcases hl with hl | hl
        · have : j.loc = m0.buffer.id :=
            job_of_store hI.cons hj (by rw [(pre_storeAt w hs hm0).2]; exact hin) hjn
          rw [hl, this] at hloc; exact hno.2.1 hloc
        · rw [hl] at hloc; exact hno.2.2 hloc
    · exact hR.delivered j' hj0 hloc


theorem dropOK_at (j : JobState) (l : Nat) (d : Loc) :
    dropOK inst (j.at l) JobState.nextIdle? d ↔ dropOK inst j JobState.nextIdle? d := Iff.rfl

/-- AGV transitions keep the route invariant -/
theorem agv_route (w : WF inst) {s s' : State} {tr : Transition} {t0 t' : TransportState} (hI : StructInv inst s)
    (hS : SchedInv s) (hA : AgvInv s) (hR : RouteInv inst s) (ht0 : t0 ∈ s.transports) (hid' : t'.id = t0.id)
    (hcomp : tr.comp = .t t0.id)
    (htrs : s'.transports = (s.replaceTransport t').transports) (he : AgvEffectR inst s s' tr t0 t')
    (hfree : tr.new = .t .working → ∀ x, tr.job = some x → ∀ t ∈ s.transports, t.job ≠ some x)
    (hnotPre : tr.new = .t .working → ∀ x, tr.job = some x → ∀ m ∈ s.machines, x ∉ m.pre.store)
    (hown : tr.new = .t .transit → ∀ t ∈ s.transports, tr.comp = .t t.id → tr.job = t.job) :
    RouteInv inst s' := by
  have hs := hI.shape
  have hjn := hs.jobsNodup w
  have htn := hs.trNodup w
  have hmemT : ∀ x, x ∈ s'.transports ↔ (x = t' ∨ (x ∈ s.transports ∧ x.id ≠ t0.id)) := by
    intro x; rw [htrs]; exact mem_replaceTransport htn ht0 hid' x
  cases he with
  | dispatch j cur pick drop hnew h1 h2 h3 h4 h5 hj htj hdrop hjobs hmach =>
    constructor
    · intro t ht hst x hx
      rcases (hmemT t).mp ht with rfl | ⟨ht', _⟩
      · rw [h2] at hst; cases hst
      · exact hR.transitOwn t ht' hst x hx
    · intro t ht x hx j' hj' hid
      rw [hjobs] at hj'
      rcases (hmemT t).mp ht with rfl | ⟨ht', _⟩
      · rw [h3] at hx; simp at hx; subst hx
        have : j' = j := eq_of_mem_of_key_eq (key := fun (y : JobState) => y.id) hjn hj' hj hid
        subst this
        exact ⟨cur, pick, drop, h4, hdrop⟩
      · exact hR.route t ht' x hx j' hj' hid
    · intro m hm x hx t ht
      rw [hmach] at hm
      rcases (hmemT t).mp ht with rfl | ⟨ht', _⟩
      · rw [h3]; intro e; simp at e; subst e
        exact hnotPre hnew j.id htj m hm hx
      · exact hR.preUnclaimed m hm x hx t ht'
    · intro m hm x hx j' hj' hid
      rw [hmach] at hm; rw [hjobs] at hj'
      exact hR.preNext m hm x hx j' hj' hid
    · intro j' hj' hloc
      rw [hjobs] at hj'
      exact hR.delivered j' hj' hloc
  | keep h1 h2 h3 h4 h5 hjobs hmach =>
    constructor
    · intro t ht hst x hx
      rcases (hmemT t).mp ht with rfl | ⟨ht', _⟩
      · exact absurd hst h2
      · exact hR.transitOwn t ht' hst x hx
    · intro t ht x hx j' hj' hid
      rw [hjobs] at hj'
      rcases (hmemT t).mp ht with rfl | ⟨ht', _⟩
      · rw [h3] at hx; rw [h4]; exact hR.route t0 ht0 x hx j' hj' hid
      · exact hR.route t ht' x hx j' hj' hid
    · intro m hm x hx t ht
      rw [hmach] at hm
      rcases (hmemT t).mp ht with rfl | ⟨ht', _⟩
      · rw [h3]; exact hR.preUnclaimed m hm x hx t0 ht0
      · exact hR.preUnclaimed m hm x hx t ht'
    · intro m hm x hx j' hj' hid
      rw [hmach] at hm; rw [hjobs] at hj'
      exact hR.preNext m hm x hx j' hj' hid
    · intro j' hj' hloc
      rw [hjobs] at hj'
      exact hR.delivered j' hj' hloc
  | pickup j hnew h1 h2 h3 h4 h5 hj htj hjobs hmach =>
    have hmemJ : ∀ x, x ∈ s'.jobs ↔ (x = j.at t0.buffer.id ∨ (x ∈ s.jobs ∧ x.id ≠ j.id)) := by
      intro x; rw [hjobs]; exact mem_replaceJob (j' := j.at t0.buffer.id) hjn hj rfl x
    have hempty : t0.buffer.store = [] := hA.empty t0 ht0 (by rcases h1 with e | e <;> rw [e] <;> simp)
    have hclaim : t0.job = some j.id := by rw [← hown hnew t0 ht0 hcomp]; exact htj
    constructor
    · intro t ht hst x hx
      rcases (hmemT t).mp ht with rfl | ⟨ht', _⟩
      · rw [h5, hempty] at hx; simp at hx; subst hx
        rw [h3]; exact hclaim
      · exact hR.transitOwn t ht' hst x hx
    · intro t ht x hx j' hj' hid
      have key : ∀ t1 ∈ s.transports, t1.job = some x → ∃ cur pick drop, t1.loc = .route cur pick drop ∧
          dropOK inst j' JobState.nextIdle? drop := by
        intro t1 ht1 hx1
        rcases (hmemJ j').mp hj' with rfl | ⟨hj0, _⟩
        · obtain ⟨cur, pick, drop, e1, e2⟩ := hR.route t1 ht1 x hx1 j hj hid
          exact ⟨cur, pick, drop, e1, (dropOK_at j _ drop).mpr e2⟩
        · exact hR.route t1 ht1 x hx1 j' hj0 hid
      rcases (hmemT t).mp ht with rfl | ⟨ht', _⟩
      · rw [h3] at hx; rw [h4]; exact key t0 ht0 hx
      · exact key t ht' hx
    · intro m' hm' x hx t ht
      obtain ⟨m, hm, _, hsub⟩ := hmach m' hm'
      rcases (hmemT t).mp ht with rfl | ⟨ht', _⟩
      · rw [h3]; exact hR.preUnclaimed m hm x (hsub x hx) t0 ht0
      · exact hR.preUnclaimed m hm x (hsub x hx) t ht'
    · intro m' hm' x hx j' hj' hid
      obtain ⟨m, hm, hmid, hsub⟩ := hmach m' hm'
      rcases (hmemJ j').mp hj' with rfl | ⟨hj0, _⟩
      · obtain ⟨op, e1, e2⟩ := hR.preNext m hm x (hsub x hx) j hj hid
        exact ⟨op, e1, by rw [e2, hmid]⟩
      · obtain ⟨op, e1, e2⟩ := hR.preNext m hm x (hsub x hx) j' hj0 hid
        exact ⟨op, e1, by rw [e2, hmid]⟩
    · intro j' hj' hloc
      rcases (hmemJ j').mp hj' with rfl | ⟨hj0, _⟩
      · exact absurd hloc (transport_buf_not_output w hs ht0)
      · exact hR.delivered j' hj0 hloc
  | deliverM j cur pick ms bss hnew h1 h2 h3 hloc hms hj hin hjobs hmach =>
    have hmemJ : ∀ x, x ∈ s'.jobs ↔ (x = j.at ms.pre.id ∨ (x ∈ s.jobs ∧ x.id ≠ j.id)) := by
      intro x; rw [hjobs]; exact mem_replaceJob (j' := j.at ms.pre.id) hjn hj rfl x
    have hmemM : ∀ x, x ∈ s'.machines ↔ (x = ms.withPre j.id bss ∨ (x ∈ s.machines ∧ x.id ≠ ms.id)) := by
      intro x; rw [hmach]; exact mem_replaceMachine (m' := ms.withPre j.id bss) (hs.machNodup w) hms rfl x
    have hst0 : t0.st = .transit := by
      rcases h1 with e | e
      · exact e
      · have := hA.empty t0 ht0 (by rw [e]; simp); rw [this] at hin; cases hin
    have hclaim : t0.job = some j.id := hR.transitOwn t0 ht0 hst0 j.id hin
    have hothers : ∀ t ∈ s.transports, t.id ≠ t0.id → t.job ≠ some j.id :=
      fun t ht hne e => hne (hA.unique t ht t0 ht0 j.id e hclaim)
    obtain ⟨cur', pick', drop', el, edrop⟩ := hR.route t0 ht0 j.id hclaim j hj rfl
    rw [hloc] at el
    simp at el
    obtain ⟨_, _, rfl⟩ := el
    constructor
    · intro t ht hst x hx
      rcases (hmemT t).mp ht with rfl | ⟨ht', _⟩
      · rw [h2] at hst; cases hst
      · exact hR.transitOwn t ht' hst x hx
    · intro t ht x hx j' hj' hid
      rcases (hmemT t).mp ht with rfl | ⟨ht', hne⟩
      · rw [h3] at hx; cases hx
      · rcases (hmemJ j').mp hj' with rfl | ⟨hj0, _⟩
        · have hxj : j.id = x := hid
          exact absurd (by rw [hxj]; exact hx) (hothers t ht' hne)
        · exact hR.route t ht' x hx j' hj0 hid
    · intro m' hm' x hx t ht
      have hcl : ∀ t1 ∈ s.transports, t ∈ s'.transports → (t = t' ∨ (t = t1 ∧ t1.id ≠ t0.id)) → True := fun _ _ _ _ => trivial
      rcases (hmemM m').mp hm' with rfl | ⟨hm0, _⟩
      · simp only [MachineState.withPre, BufState.withBack_store, List.mem_append, List.mem_singleton] at hx
        rcases (hmemT t).mp ht with rfl | ⟨ht', hne⟩
        · rw [h3]; simp
        · rcases hx with hx | rfl
          · exact hR.preUnclaimed ms hms x hx t ht'
          · exact hothers t ht' hne
      · rcases (hmemT t).mp ht with rfl | ⟨ht', _⟩
        · rw [h3]; simp
        · exact hR.preUnclaimed m' hm0 x hx t ht'
    · intro m' hm' x hx j' hj' hid
      rcases (hmemM m').mp hm' with rfl | ⟨hm0, _⟩
      · simp only [MachineState.withPre, BufState.withBack_store, List.mem_append, List.mem_singleton] at hx
        rcases (hmemJ j').mp hj' with rfl | ⟨hj0, hne⟩
        · -- the delivered job: its next idle operation is on this machine
          rcases edrop with ⟨_, o, _, e⟩ | ⟨_, op, e1, e2⟩
          · cases e
          · simp at e2
            exact ⟨op, e1, e2.symm⟩
        · rcases hx with hx | rfl
          · exact hR.preNext ms hms x hx j' hj0 hid
          · exact absurd hid hne
      · rcases (hmemJ j').mp hj' with rfl | ⟨hj0, _⟩
        · exact absurd hclaim (hR.preUnclaimed m' hm0 x hx t0 ht0 |> fun h => by rw [← hid] at h; exact h)
        · exact hR.preNext m' hm0 x hx j' hj0 hid
    · intro j' hj' hloc'
      rcases (hmemJ j').mp hj' with rfl | ⟨hj0, _⟩
      · exact absurd hloc' (machine_buf_not_output w hs hms).1
      · exact hR.delivered j' hj0 hloc'
  | deliverB j cur pick b bss hnew h1 h2 h3 hloc hb hj hin hjobs hmach hbufs =>
    have hmemJ : ∀ x, x ∈ s'.jobs ↔ (x = j.at b.id ∨ (x ∈ s.jobs ∧ x.id ≠ j.id)) := by
      intro x; rw [hjobs]; exact mem_replaceJob (j' := j.at b.id) hjn hj rfl x
    have hst0 : t0.st = .transit := by
      rcases h1 with e | e
      · exact e
      · have := hA.empty t0 ht0 (by rw [e]; simp); rw [this] at hin; cases hin
    have hclaim : t0.job = some j.id := hR.transitOwn t0 ht0 hst0 j.id hin
    have hothers : ∀ t ∈ s.transports, t.id ≠ t0.id → t.job ≠ some j.id :=
      fun t ht hne e => hne (hA.unique t ht t0 ht0 j.id e hclaim)
    obtain ⟨cur', pick', drop', el, edrop⟩ := hR.route t0 ht0 j.id hclaim j hj rfl
    rw [hloc] at el
    simp at el
    obtain ⟨_, _, rfl⟩ := el
    constructor
    · intro t ht hst x hx
      rcases (hmemT t).mp ht with rfl | ⟨ht', _⟩
      · rw [h2] at hst; cases hst
      · exact hR.transitOwn t ht' hst x hx
    · intro t ht x hx j' hj' hid
      rcases (hmemT t).mp ht with rfl | ⟨ht', hne⟩
      · rw [h3] at hx; cases hx
      · rcases (hmemJ j').mp hj' with rfl | ⟨hj0, _⟩
        · have hxj : j.id = x := hid
          exact absurd (by rw [hxj]; exact hx) (hothers t ht' hne)
        · exact hR.route t ht' x hx j' hj0 hid
    · intro m hm x hx t ht
      rw [hmach] at hm
      rcases (hmemT t).mp ht with rfl | ⟨ht', _⟩
      · rw [h3]; simp
      · exact hR.preUnclaimed m hm x hx t ht'
    · intro m hm x hx j' hj' hid
      rw [hmach] at hm
      rcases (hmemJ j').mp hj' with rfl | ⟨hj0, _⟩
      · exact absurd hclaim (hR.preUnclaimed m hm x hx t0 ht0 |> fun h => by rw [← hid] at h; exact h)
      · exact hR.preNext m hm x hx j' hj0 hid
    · intro j' hj' hloc' o ho
      rcases (hmemJ j').mp hj' with rfl | ⟨hj0, _⟩
      · -- delivered to a standalone buffer: the route was computed when no operation was idle
        have ho' : o ∈ j.ops := ho
        rcases edrop with ⟨hno, _⟩ | ⟨_, op, _, e⟩
        · have hm := OpsOK_mem _ _ (hS.ops j hj) o ho'
          have hnidle : o.st ≠ .idle := by
            unfold JobState.noOpIdle at hno
            have := List.all_eq_true.mp hno o ho'
            simpa using this
          have hnproc : o.st ≠ .processing := by
            intro hp
            obtain ⟨m, hm', _, _, hst⟩ := hS.procOnBusy j hj o ho' hp
            have h1' : j.id ∈ storeAt s m.buffer.id := by rw [(pre_storeAt w hs hm').2, hst]; simp
            have h2' : j.id ∈ storeAt s t0.buffer.id := by rw [transport_storeAt w hs ht0]; exact hin
            have := unique_store hI.cons hjn h1' h2'
            exact (ids_parts hs w).2.2 m hm' t0 ht0 |>.2.1 this
          cases hst : o.st with
          | idle => exact absurd hst hnidle
          | processing => exact absurd hst hnproc
          | transport => exact absurd hst hm.2.2
          | done => rfl
        · cases e
      · exact hR.delivered j' hj0 hloc' o ho


/-- the route guard of the rest of a batch survives an AGV transition -/
theorem agv_routeGS (w : WF inst) {s s' : State} {tr : Transition} {R : List Transition} {t0 t' : TransportState}
    (hI : StructInv inst s) (hA : AgvInv s) (hR : RouteInv inst s) (ht0 : t0 ∈ s.transports) (hid' : t'.id = t0.id)
    (hcomp : tr.comp = .t t0.id) (htrs : s'.transports = (s.replaceTransport t').transports)
    (he : AgvEffectR inst s s' tr t0 t') (hcl : ClaimGS s (tr :: R)) (hgs : RouteGS s (tr :: R)) : RouteGS s' R := by
  have hs := hI.shape
  have htn := hs.trNodup w
  have hmemT : ∀ x, x ∈ s'.transports ↔ (x = t' ∨ (x ∈ s.transports ∧ x.id ≠ t0.id)) := by
    intro x; rw [htrs]; exact mem_replaceTransport htn ht0 hid' x
  have hord := (List.pairwise_cons.mp hgs.order).1
  -- `own` for the other AGVs, and for this one when its claim is kept
  have own_of : (t'.job = t0.job ∨ ∀ b ∈ R, b.new = .t .transit → b.comp ≠ .t t0.id) →
      ∀ b ∈ R, b.new = .t .transit → ∀ t ∈ s'.transports, b.comp = .t t.id → b.job = t.job := by
    intro hk b hb hn t ht hc
    rcases (hmemT t).mp ht with rfl | ⟨ht', _⟩
    · rcases hk with e | e
      · rw [e]; exact hgs.own b (by simp [hb]) hn t0 ht0 (by rw [hc, hid'])
      · exact absurd (by rw [hc, hid']) (e b hb hn)
    · exact hgs.own b (by simp [hb]) hn t ht' hc
  -- when this transition is not a "keep waiting" one, no later pickup belongs to the same AGV
  have no_later : tr.new ≠ .t .waitingpickup → ∀ b ∈ R, b.new = .t .transit → b.comp ≠ .t t0.id := by
    intro hne b hb hn hc
    exact hne (hord b hb hn (by rw [hcomp, hc]))
  cases he with
  | dispatch j cur pick drop hnew h1 h2 h3 h4 h5 hj htj hdrop hjobs hmach =>
    refine ⟨?_, own_of (Or.inr (no_later (by rw [hnew]; simp))), (List.pairwise_cons.mp hgs.order).2⟩
    intro b hb hn x hx m hm
    exact hgs.notPre b (by simp [hb]) hn x hx m (hmach ▸ hm)
  | keep h1 h2 h3 h4 h5 hjobs hmach =>
    refine ⟨?_, own_of (Or.inl h3), (List.pairwise_cons.mp hgs.order).2⟩
    intro b hb hn x hx m hm
    exact hgs.notPre b (by simp [hb]) hn x hx m (hmach ▸ hm)
  | pickup j hnew h1 h2 h3 h4 h5 hj htj hjobs hmach =>
    refine ⟨?_, own_of (Or.inl h3), (List.pairwise_cons.mp hgs.order).2⟩
    intro b hb hn x hx m' hm' hin
    obtain ⟨m, hm, _, hsub⟩ := hmach m' hm'
    exact hgs.notPre b (by simp [hb]) hn x hx m hm (hsub x hin)
  | deliverM j cur pick ms bss hnew h1 h2 h3 hloc hms hj hin hjobs hmach =>
    have hst0 : t0.st = .transit := by
      rcases h1 with e | e
      · exact e
      · have := hA.empty t0 ht0 (by rw [e]; simp); rw [this] at hin; cases hin
    have hclaim : t0.job = some j.id := hR.transitOwn t0 ht0 hst0 j.id hin
    refine ⟨?_, own_of (Or.inr (no_later (by rw [hnew]; simp))), (List.pairwise_cons.mp hgs.order).2⟩
    intro b hb hn x hx m' hm' hin'
    rw [hmach] at hm'
    rcases (mem_replaceMachine (m' := ms.withPre j.id bss) (hs.machNodup w) hms rfl m').mp hm' with rfl | ⟨hm0, _⟩
    · simp only [MachineState.withPre, BufState.withBack_store, List.mem_append, List.mem_singleton] at hin'
      rcases hin' with h | rfl
      · exact hgs.notPre b (by simp [hb]) hn x hx ms hms h
      · exact hcl.free b (by simp [hb]) hn j.id hx t0 ht0 hclaim
    · exact hgs.notPre b (by simp [hb]) hn x hx m' hm0 hin'
  | deliverB j cur pick b0 bss hnew h1 h2 h3 hloc hb0 hj hin hjobs hmach hbufs =>
    refine ⟨?_, own_of (Or.inr (no_later (by rw [hnew]; simp))), (List.pairwise_cons.mp hgs.order).2⟩
    intro b hb hn x hx m hm
    exact hgs.notPre b (by simp [hb]) hn x hx m (hmach ▸ hm)

/-- the full AGV invariant: holding, claims and routes -/
structure AgvFull (inst : Instance) (s : State) : Prop where
  agv : AgvInv s
  route : RouteInv inst s

structure FullGS (s : State) (L : List Transition) : Prop where
  claim : ClaimGS s L
  route : RouteGS s L

/-- **one transition keeps the full AGV invariant** and the guards of the rest of the batch -/
theorem applyTransition_full (w : WF inst) {s s' : State} {r r' : Rng} {tr : Transition} {R : List Transition}
    (hI : StructInv inst s) (hS : SchedInv s) (hP : AgvFull inst s) (hv : transitionValid s tr = .ok true)
    (hsafe : Safe s (tr :: R)) (hgs : FullGS s (tr :: R)) (h : applyTransition orc inst s r tr = .ok (s', r')) :
    AgvFull inst s' ∧ FullGS s' R := by
  obtain ⟨hA', hC'⟩ := applyTransition_agv w hI hS hP.agv hv hgs.claim h
  cases hc : tr.comp with
  | b bid =>
    unfold applyTransition at h
    simp only [hc] at h
    obtain ⟨_, _, h⟩ := except_bind_eq_ok h
    simp at h
  | m mid =>
    obtain ⟨m0, hm0, _, he⟩ := mach_effectR w hI hS hsafe.guard hc h
    refine ⟨⟨hA', machine_route w hI hS hP.route hm0 he⟩, hC', ?_⟩
    obtain ⟨j, hj, J', hJid, hjobs, hcase⟩ := he.job
    have hmach : ∀ m' ∈ s'.machines, ∃ m ∈ s.machines, m.id = m'.id ∧ ∀ x ∈ m'.pre.store, x ∈ m.pre.store := by
      rcases hcase with ⟨_, _, h'⟩ | ⟨_, _, _, _, h'⟩
      · intro m' hm'; obtain ⟨m, hm, e1, e2, _⟩ := h' m' hm'; exact ⟨m, hm, e1, e2⟩
      · exact h'
    refine ⟨?_, ?_, (List.pairwise_cons.mp hgs.route.order).2⟩
    · intro b hb hn x hx m' hm' hin
      obtain ⟨m, hm, _, hsub⟩ := hmach m' hm'
      exact hgs.route.notPre b (by simp [hb]) hn x hx m hm (hsub x hin)
    · intro b hb hn t ht hcb
      exact hgs.route.own b (by simp [hb]) hn t (he.transports ▸ ht) hcb
  | t tid =>
    obtain ⟨t0, t', ht0, hid0, hid', htrs, he⟩ := agv_effectR w hI hc h
    have hcomp : tr.comp = .t t0.id := by rw [hc, hid0]
    refine ⟨⟨hA', ?_⟩, hC', agv_routeGS w hI hP.agv hP.route ht0 hid' hcomp htrs he hgs.claim hgs.route⟩
    exact agv_route w hI hS hP.agv hP.route ht0 hid' hcomp htrs he
      (fun hn x hx => hgs.claim.free tr (by simp) hn x hx)
      (fun hn x hx => hgs.route.notPre tr (by simp) hn x hx)
      (fun hn => hgs.route.own tr (by simp) hn)

end JSL
