import JSL.Inv.Reach

/-!
# Feasibility of the recorded schedule, derived from the invariants
-/

namespace JSL

variable {inst : Instance}

/-- the records of one job: DONE* · PROCESSING? · IDLE*, each started record has start ≤ end and
starts no earlier than its predecessor ended -/
def OrderedOps : Option Int → List OpState → Prop
  | _, [] => True
  | prev, o :: os =>
    match o.st with
    | .done => ∃ a b, o.start = some a ∧ o.stop = some b ∧ a ≤ b ∧ (∀ p, prev = some p → p ≤ a) ∧
                 OrderedOps (some b) os
    | .processing => ∃ a b, o.start = some a ∧ o.stop = some b ∧ a ≤ b ∧ (∀ p, prev = some p → p ≤ a) ∧ allIdle os
    | .idle => allIdle os
    | .transport => False

theorem OpsOK.ordered {now : Int} : ∀ (l : List OpState) (prev : Option Int), OpsOK now prev l → OrderedOps prev l
  | [], _, _ => trivial
  | o :: os, prev, h => by
    cases hst : o.st with
    | done =>
      simp only [OpsOK, hst] at h
      obtain ⟨a, b, h1, h2, h3, _, h5, h6⟩ := h
      simp only [OrderedOps, hst]
      exact ⟨a, b, h1, h2, h3, h5, OpsOK.ordered os (some b) h6⟩
    | processing =>
      simp only [OpsOK, hst] at h
      obtain ⟨a, b, h1, h2, h3, _, _, h6, h7⟩ := h
      simp only [OrderedOps, hst]
      exact ⟨a, b, h1, h2, h3, h6, h7⟩
    | idle => simp only [OpsOK, hst] at h; simp only [OrderedOps, hst]; exact h
    | transport => simp [OpsOK, hst] at h

/-- **A feasible job-shop schedule**: the operations recorded for every job are those the instance
specifies, on the specified machines, in the specified order; within a job they run in order
without overlapping; and no machine runs two operations at overlapping times. -/
structure Feasible (inst : Instance) (s : State) : Prop where
  specified : s.jobs.map jKey = inst.jobs.map jcKey
  inOrder : ∀ j ∈ s.jobs, OrderedOps none j.ops
  machineExclusive : ∀ j₁ ∈ s.jobs, ∀ o₁ ∈ j₁.ops, ∀ j₂ ∈ s.jobs, ∀ o₂ ∈ j₂.ops,
    o₁.machine = o₂.machine → o₁.st ≠ .idle → o₂.st ≠ .idle → (o₁.job, o₁.idx) ≠ (o₂.job, o₂.idx) →
    Disjoint2 o₁ o₂

theorem feasible_of_inv (w : WF inst) {s : State} (hI : StructInv inst s) (hS : SchedInv s) : Feasible inst s where
  specified := hI.shape.jobs
  inOrder j hj := (hS.ops j hj).ordered
  machineExclusive j₁ hj₁ o₁ ho₁ j₂ hj₂ o₂ ho₂ hm hn₁ hn₂ hne := by
    have m1 := OpsOK_mem _ _ (hS.ops j₁ hj₁) o₁ ho₁
    have m2 := OpsOK_mem _ _ (hS.ops j₂ hj₂) o₂ ho₂
    cases hs1 : o₁.st with
    | idle => exact absurd hs1 hn₁
    | transport => exact absurd hs1 m1.2.2
    | done =>
      cases hs2 : o₂.st with
      | idle => exact absurd hs2 hn₂
      | transport => exact absurd hs2 m2.2.2
      | done => exact hS.doneDisjoint j₁ hj₁ o₁ ho₁ j₂ hj₂ o₂ ho₂ hm hs1 hs2 hne
      | processing =>
        intro a₁ b₁ a₂ b₂ _ h2 h3 _
        exact Or.inl (hS.doneBeforeProc j₁ hj₁ o₁ ho₁ j₂ hj₂ o₂ ho₂ hm hs1 hs2 b₁ a₂ h2 h3)
    | processing =>
      cases hs2 : o₂.st with
      | idle => exact absurd hs2 hn₂
      | transport => exact absurd hs2 m2.2.2
      | done =>
        intro a₁ b₁ a₂ b₂ h1 _ _ h4
        exact Or.inr (hS.doneBeforeProc j₂ hj₂ o₂ ho₂ j₁ hj₁ o₁ ho₁ hm.symm hs2 hs1 b₂ a₁ h4 h1)
      | processing =>
        -- two running records on one machine: the machine holds one job, a job runs one record
        exfalso
        obtain ⟨ma, hma, ea, _, sa⟩ := hS.procOnBusy j₁ hj₁ o₁ ho₁ hs1
        obtain ⟨mb, hmb, eb, _, sb⟩ := hS.procOnBusy j₂ hj₂ o₂ ho₂ hs2
        have : ma = mb := eq_of_mem_of_key_eq (key := fun (y : MachineState) => y.id) (hI.shape.machNodup w) hma hmb
          (by rw [ea, eb, hm])
        subst this
        rw [sa] at sb; simp at sb
        have : j₁ = j₂ := eq_of_mem_of_key_eq (key := fun (y : JobState) => y.id) (hI.shape.jobsNodup w) hj₁ hj₂ sb
        subst this
        have := OpsOK_one_processing _ _ (hS.ops j₁ hj₁) o₁ ho₁ o₂ ho₂ hs1 hs2
        exact hne (by rw [this])

theorem Feasible.of_time {s : State} {t : Int} (h : Feasible inst { s with time := t }) : Feasible inst s :=
  ⟨h.specified, h.inOrder, h.machineExclusive⟩

end JSL
