import JSL.Inv.ShiftDefs

/-!
# Translation of simulated time: `manipulate.py` and the machine handlers
-/

namespace JSL
variable (δ : Int)

theorem shiftOp_mk (job idx : Nat) (a b : Int) (mach : Nat) (st : OSt) :
    ({ job := job, idx := idx, start := some (a + δ), stop := some (b + δ), machine := mach, st := st } : OpState) =
      shiftOp δ { job := job, idx := idx, start := some a, stop := some b, machine := mach, st := st } := rfl

theorem beginMachineSetup_shift (orc : Oracle) (inst : Instance) (now : Int) (r : Rng) (j : JobState) (m : MachineState) :
    beginMachineSetup orc inst (now + δ) r (shiftJob δ j) (shiftMachine δ m) =
      (beginMachineSetup orc inst now r j m).map (fun p => (shiftJob δ p.1, shiftMachine δ p.2.1, p.2.2)) := by
  unfold beginMachineSetup
  rw [shiftJob_nextNotDone]
  ecase j.nextNotDone with op
  simp only [shiftOp_job, shiftOp_idx, shiftMachine_id, shiftMachine_tool, shiftMachine_pre, shiftMachine_buffer]
  ecase getOpCfg inst op.job op.idx with oc
  ecase getMachineCfg inst.machines m.id with mc
  ecase setupDuration orc r mc m.tool oc.tool with p
  obtain ⟨sd, r1⟩ := p
  simp only [Int.add_right_comm now δ sd, shiftOp_mk, shiftJob_replaceOp, shiftJob_id]
  ecase removeFromBuffer m.pre (j.replaceOp _).id with pre
  rw [putInBuffer_shift]
  ecase putInBuffer m.buffer mc.buf (j.replaceOp _) with q
  rfl

theorem beginNext_shift (orc : Oracle) (inst : Instance) (now : Int) (r : Rng) (j : JobState) (m : MachineState) :
    beginNextJobOnMachine orc inst (now + δ) r (shiftJob δ j) (shiftMachine δ m) =
      (beginNextJobOnMachine orc inst now r j m).map (fun p => (shiftJob δ p.1, shiftMachine δ p.2.1, p.2.2)) := by
  unfold beginNextJobOnMachine
  rw [shiftJob_nextNotDone]
  ecase j.nextNotDone with op
  simp only [shiftOp_job, shiftOp_idx, shiftMachine_id]
  ecase getOpCfg inst op.job op.idx with oc
  simp only [Int.add_right_comm now δ _, shiftOp_mk, shiftJob_replaceOp]
  rfl

theorem beginMachineOutage_shift (now : Int) (j : JobState) (m : MachineState) (occFor : Int) (outs : List OutageState) :
    beginMachineOutage (now + δ) (shiftJob δ j) (shiftMachine δ m) occFor outs =
      (beginMachineOutage now j m occFor outs).map (fun p => (shiftJob δ p.1, shiftMachine δ p.2)) := by
  unfold beginMachineOutage
  simp only [shiftJob_processingOpt]
  cases j.processing? with
  | none => rfl
  | some op =>
    simp only [Option.map_some, except_pure, except_map'_ok, Int.add_right_comm now δ _]
    rw [← shiftJob_replaceOp]
    rfl

theorem completeActiveOperation_shift (inst : Instance) (now : Int) (jobs : List JobState) (m : MachineState) :
    completeActiveOperation inst (now + δ) (jobs.map (shiftJob δ)) (shiftMachine δ m) =
      (completeActiveOperation inst now jobs m).map (fun p => (shiftJob δ p.1, shiftMachine δ p.2)) := by
  unfold completeActiveOperation
  simp only [shiftMachine_buffer, shiftMachine_id, shiftMachine_post, shiftMachine_outages]
  cases m.buffer.store with
  | nil => rfl
  | cons jid _ =>
    simp only [except_pure, except_bind_ok]
    rw [getJob_shift]
    ecase getJob jobs jid with j
    simp only [shiftJob_processingOpt]
    cases j.processing? with
    | none => rfl
    | some op =>
      simp only [Option.map_some]
      have e : ({ shiftOp δ op with stop := some (now + δ), st := .done } : OpState) =
          shiftOp δ { op with stop := some now, st := .done } := rfl
      rw [e, shiftJob_replaceOp]
      simp only [shiftJob_id]
      ecase removeFromBuffer m.buffer (j.replaceOp _).id with buf
      ecase getMachineCfg inst.machines m.id with mc
      rw [putInBuffer_shift]
      ecase putInBuffer m.post mc.post (j.replaceOp _) with q
      rfl

theorem getCompByLoc_shift (s : State) (l : Loc) :
    getCompByLoc (shiftState δ s) l = (getCompByLoc s l).map (shiftTarget δ) := by
  cases l with
  | m n =>
    simp only [getCompByLoc, shiftState_machines, getMachine_shift]
    ecase getMachine s.machines n with m
    rfl
  | b n =>
    simp only [getCompByLoc, shiftState_buffers]
    ecase getBufState s.buffers n with b
    rfl

variable {inst : Instance}

theorem completeTransportTask_shift (hno : NoOutages inst) (orc : Oracle) (now : Int) (r : Rng)
    (j : JobState) (t : TransportState) (drop : Loc) (target : Target) :
    completeTransportTask orc inst (now + δ) r (shiftJob δ j) (shiftTransport δ t) drop (shiftTarget δ target) =
      (completeTransportTask orc inst now r j t drop target).map
        (fun p => (shiftJob δ p.1, shiftTransport δ p.2.1, shiftTarget δ p.2.2.1, p.2.2.2)) := by
  unfold completeTransportTask
  simp only [shiftTransport_buffer, shiftTransport_id, shiftTransport_outages]
  cases target with
  | machine mm =>
    simp only [shiftTarget, shiftMachine_pre]
    rw [switchBuffer_shift]
    ecase switchBuffer inst t.buffer mm.pre j with p
    cases h2 : getTransportCfg inst.transports t.id with
    | error e => rfl
    | ok tc =>
      simp only [except_bind_ok]
      rw [hno.2 tc (getTransportCfg_ok h2).1]
      simp only [newOutageStates, except_pure, except_bind_ok, except_map'_ok, Int.add_right_comm now δ _]
      rfl
  | buffer b =>
    simp only [shiftTarget]
    rw [switchBuffer_shift]
    ecase switchBuffer inst t.buffer b j with p
    cases h2 : getTransportCfg inst.transports t.id with
    | error e => rfl
    | ok tc =>
      simp only [except_bind_ok]
      rw [hno.2 tc (getTransportCfg_ok h2).1]
      simp only [newOutageStates, except_pure, except_bind_ok, except_map'_ok, Int.add_right_comm now δ _]
      rfl

theorem idleToSetup_shift (orc : Oracle) (s : State) (r : Rng) (tr : Transition) (m : MachineState) :
    handleMachineIdleToSetup orc inst (shiftState δ s) r tr (shiftMachine δ m) =
      (handleMachineIdleToSetup orc inst s r tr m).map (fun p => (shiftState δ p.1, p.2)) := by
  unfold handleMachineIdleToSetup
  cases tr.job with
  | none => rfl
  | some jid =>
    simp only [except_pure, except_bind_ok, shiftState_jobs, getJob_shift, shiftState_time]
    ecase getJob s.jobs jid with j
    simp only [shiftJob_id, shiftMachine_pre]
    isplit
    · rw [beginMachineSetup_shift]
      ecase beginMachineSetup orc inst s.time r j m with q
      simp only [replaceJob_shift, replaceMachine_shift] <;> rfl

theorem setupToWorking_shift (orc : Oracle) (s : State) (r : Rng) (tr : Transition) (m : MachineState) :
    handleMachineSetupToWorking orc inst (shiftState δ s) r tr (shiftMachine δ m) =
      (handleMachineSetupToWorking orc inst s r tr m).map (fun p => (shiftState δ p.1, p.2)) := by
  unfold handleMachineSetupToWorking
  cases tr.job with
  | none => rfl
  | some jid =>
    simp only [except_pure, except_bind_ok, shiftState_jobs, getJob_shift, shiftState_time]
    ecase getJob s.jobs jid with j
    simp only [shiftJob_id, shiftMachine_buffer]
    isplit
    · rw [beginNext_shift]
      ecase beginNextJobOnMachine orc inst s.time r j m with q
      simp only [replaceJob_shift, replaceMachine_shift] <;> rfl

theorem workingToOutage_shift (hno : NoOutages inst) (orc : Oracle) (s : State) (r : Rng) (tr : Transition)
    (m : MachineState) :
    handleMachineWorkingToOutage orc inst (shiftState δ s) r tr (shiftMachine δ m) =
      (handleMachineWorkingToOutage orc inst s r tr m).map (fun p => (shiftState δ p.1, p.2)) := by
  unfold handleMachineWorkingToOutage
  simp only [shiftMachine_id, shiftMachine_outages, shiftState_time, shiftState_jobs, getJobOpt_shift]
  cases h1 : getMachineCfg inst.machines m.id with
  | error e => rfl
  | ok mc =>
    simp only [except_bind_ok]
    rw [hno.1 mc (getMachineCfg_ok h1).1]
    simp only [newOutageStates, except_pure, except_bind_ok]
    ecase getJobOpt s.jobs tr.job with j
    rw [beginMachineOutage_shift]
    ecase beginMachineOutage s.time j m (occupiedFor []) [] with q
    simp only [replaceJob_shift, replaceMachine_shift] <;> rfl

theorem outageToIdle_shift (s : State) (r : Rng) (m : MachineState) :
    handleMachineOutageToIdle inst (shiftState δ s) r (shiftMachine δ m) =
      (handleMachineOutageToIdle inst s r m).map (fun p => (shiftState δ p.1, p.2)) := by
  unfold handleMachineOutageToIdle
  simp only [shiftState_time, shiftState_jobs]
  rw [completeActiveOperation_shift]
  ecase completeActiveOperation inst s.time s.jobs m with q
  simp only [replaceJob_shift, replaceMachine_shift] <;> rfl

theorem machineTransition_shift (hno : NoOutages inst) (orc : Oracle) (s : State) (r : Rng) (tr : Transition)
    (mid : Nat) :
    handleMachineTransition orc inst (shiftState δ s) r tr mid =
      (handleMachineTransition orc inst s r tr mid).map (fun p => (shiftState δ p.1, p.2)) := by
  unfold handleMachineTransition
  simp only [shiftState_machines, getMachine_shift]
  ecase getMachine s.machines mid with m
  simp only [shiftMachine_st]
  ecase machineHandlerOf m.st tr.new with h
  cases h with
  | idleToSetup => exact idleToSetup_shift δ orc s r tr m
  | setupToWorking => exact setupToWorking_shift δ orc s r tr m
  | workingToOutage => exact workingToOutage_shift δ hno orc s r tr m
  | outageToIdle => exact outageToIdle_shift δ s r m
end JSL
