import JSL.Inv.ObsRead
import JSL.Inv.OpsLemmas
import JSL.Inv.EnvReach

/-!
# C14 — the arrays of `OperationArrayObservation.make` and the offer triple lie in `Box(0, 1)`

The declared Gymnasium space of the operation-array factories is `Box(0, 1)` for
`operation_state`, `job_locations` and `current_transition`.

* `opArray_operation_state_in_unit` – under the schedule invariant (a processing record has
  `start ≤ now ≤ stop`) every entry of `operation_state` lies in `[0, 1]`;
  `opArray_operation_state_env` – so it does at every environment state in which the agent has a
  decision, and `opArray_operation_state_env_all` at *every* environment state of an episode
  (a terminated state has all records done, entries `1`).
* `opArray_job_locations_in_unit` – `job_locations ⊆ [0, 1]` **provided** every location is at most
  `opArrayMaxBuf inst` as a number.  That proviso is not a consequence of the invariants: buffer ids
  need not be `0 … maxBuf`.  `opArray_job_location_gt_one` / `opArray_job_locations_exceed_witness`
  show the entry is `> 1` as soon as a location exceeds the divisor (recorded finding);
  `structInv_loc_le_maxBuf` shows the proviso *does* follow from `StructInv` when the configured
  buffer ids are `0 … maxBuf` in some order.
* `currentTransition_in_unit` – the offer triple: `(1, 1, 1)` when done; otherwise
  `0 ≤ index/length < 1`, type code `∈ {0, 33/100, 66/100}`, and `job/n ∈ [0, 1]` provided the job
  number of the head offer is `≤ n` (`currentTransition_job_gt_one`: otherwise it is `> 1`).
-/

namespace JSL

/-! ## helpers -/

theorem forall2_mem_right {α β} {R : α → β → Prop} {l : List α} {r : List β}
    (h : List.Forall₂ R l r) : ∀ b ∈ r, ∃ a ∈ l, R a b := by
  induction h with
  | nil => intro b hb; cases hb
  | cons hab _ ih =>
    intro b hb
    rcases List.mem_cons.mp hb with rfl | hb
    · exact ⟨_, List.mem_cons_self, hab⟩
    · obtain ⟨a, ha, hr⟩ := ih b hb
      exact ⟨a, List.mem_cons_of_mem _ ha, hr⟩

/-! ## `operation_state` -/

/-- one entry: under `start ≤ now ≤ stop` for a processing record the entry lies in `[0, 1]` -/
theorem opEntry_in_unit {time : Int} {o : OpState} {v : Rat} (hr : OpEntryRead time o v)
    (hp : o.st = .processing →
      ∃ a b, o.start = some a ∧ o.stop = some b ∧ a ≤ b ∧ a ≤ time ∧ time ≤ b) :
    0 ≤ v ∧ v ≤ 1 := by
  obtain ⟨hi, hd, hpr, hnt⟩ := hr
  cases hst : o.st with
  | idle => rw [hi hst]; exact ⟨le_refl _, zero_le_one⟩
  | done => rw [hd hst]; exact ⟨zero_le_one, le_refl _⟩
  | processing =>
    obtain ⟨a, b, ha, hb, hne, rfl⟩ := hpr hst
    obtain ⟨a', b', ha', hb', hab, hat, htb⟩ := hp hst
    rw [ha] at ha'
    rw [hb] at hb'
    cases ha'
    cases hb'
    have hpos : (0 : Int) < b - a := by omega
    have h0 : (0 : Int) ≤ time - a := by omega
    have h1 : time - a ≤ b - a := by omega
    have hposq : (0 : Rat) < ((b - a : Int) : Rat) := Int.cast_pos.mpr hpos
    have h0q : (0 : Rat) ≤ ((time - a : Int) : Rat) := by exact_mod_cast h0
    have h1q : ((time - a : Int) : Rat) ≤ ((b - a : Int) : Rat) := Int.cast_le.mpr h1
    exact ⟨div_nonneg h0q (le_of_lt hposq), (div_le_one hposq).mpr h1q⟩
  | transport => exact absurd hst hnt

/-- `operation_state ⊆ [0, 1]` from the bare fact used: every processing record has
`start ≤ now ≤ stop` -/
theorem opArray_operation_state_in_unit_of (inst : Instance) (s : State) (ops locs : List Rat)
    (hproc : ∀ j ∈ s.jobs, ∀ o ∈ j.ops, o.st = .processing →
      ∃ a b, o.start = some a ∧ o.stop = some b ∧ a ≤ b ∧ a ≤ s.time ∧ s.time ≤ b)
    (h : opArrayObs inst s = .ok (ops, locs)) :
    (∀ v ∈ ops, 0 ≤ v ∧ v ≤ 1) ∧ ops.length = (s.jobs.flatMap (·.ops)).length := by
  obtain ⟨hlen, hall⟩ := opArray_ops_read inst s ops locs h
  refine ⟨?_, hlen⟩
  intro v hv
  obtain ⟨o, ho, hr⟩ := forall2_mem_right hall v hv
  obtain ⟨j, hj, hoj⟩ := List.mem_flatMap.mp ho
  exact opEntry_in_unit hr (hproc j hj o hoj)

theorem SchedInv.processing_window {s : State} (hS : SchedInv s) :
    ∀ j ∈ s.jobs, ∀ o ∈ j.ops, o.st = .processing →
      ∃ a b, o.start = some a ∧ o.stop = some b ∧ a ≤ b ∧ a ≤ s.time ∧ s.time ≤ b :=
  fun j hj o ho hst => (OpsOK_mem j.ops none (hS.ops j hj) o ho).2.1 hst

/-- **`operation_state` lies in `Box(0, 1)`** under the schedule invariant, one entry per operation
record. -/
theorem opArray_operation_state_in_unit (inst : Instance) (s : State) (ops locs : List Rat)
    (hS : SchedInv s) (h : opArrayObs inst s = .ok (ops, locs)) :
    (∀ v ∈ ops, 0 ≤ v ∧ v ≤ 1) ∧ ops.length = (s.jobs.flatMap (·.ops)).length :=
  opArray_operation_state_in_unit_of inst s ops locs hS.processing_window h

/-- a state all of whose records are done (a terminated episode): every entry is `1` -/
theorem opArray_operation_state_all_done (inst : Instance) (s : State) (ops locs : List Rat)
    (hdone : ∀ j ∈ s.jobs, ∀ o ∈ j.ops, o.st = .done)
    (h : opArrayObs inst s = .ok (ops, locs)) :
    (∀ v ∈ ops, v = 1) ∧ ops.length = (s.jobs.flatMap (·.ops)).length := by
  obtain ⟨hlen, hall⟩ := opArray_ops_read inst s ops locs h
  refine ⟨?_, hlen⟩
  intro v hv
  obtain ⟨o, ho, hr⟩ := forall2_mem_right hall v hv
  obtain ⟨j, hj, hoj⟩ := List.mem_flatMap.mp ho
  exact hr.2.1 (hdone j hj o hoj)

theorem opArray_operation_state_all_done_in_unit (inst : Instance) (s : State) (ops locs : List Rat)
    (hdone : ∀ j ∈ s.jobs, ∀ o ∈ j.ops, o.st = .done)
    (h : opArrayObs inst s = .ok (ops, locs)) : ∀ v ∈ ops, 0 ≤ v ∧ v ≤ 1 := by
  intro v hv
  rw [(opArray_operation_state_all_done inst s ops locs hdone h).1 v hv]
  exact ⟨zero_le_one, le_refl _⟩

/-- the hypothesis on processing records cannot be dropped: a record in process whose planned end
lies in the past (here start 0, stop 1, clock 3) yields the entry `3 > 1` -/
theorem opArray_operation_state_exceed_witness :
    let inst : Instance := { jobs := [], travel := [], machines := [], buffers := [], transports := [] }
    let o : OpState := { job := 0, idx := 0, start := some 0, stop := some 1, machine := 0, st := .processing }
    let s : State := { jobs := [{ id := 0, ops := [o], loc := 0 }], time := 3, machines := [],
                       transports := [], buffers := [] }
    ∀ ops locs, opArrayObs inst s = .ok (ops, locs) → ∃ v ∈ ops, 1 < v := by
  intro inst o s ops locs h
  obtain ⟨v, hv, hr⟩ := opArray_ops_read_at inst s ops locs h 0 o rfl
  refine ⟨v, List.mem_of_getElem? hv, ?_⟩
  obtain ⟨a, b, ha, hb, _, rfl⟩ := hr.2.2.1 rfl
  cases ha
  cases hb
  norm_num [s]

/-! ## `job_locations` -/

/-- one entry: `loc / maxBuf ∈ [0, 1]` when `loc ≤ maxBuf ≠ 0` -/
theorem locEntry_in_unit {loc : Nat} {m : Int} (hm : m ≠ 0) (hle : (loc : Int) ≤ m) :
    0 ≤ (loc : Rat) / (m : Rat) ∧ (loc : Rat) / (m : Rat) ≤ 1 := by
  have hpos : (0 : Int) < m := by omega
  have hposq : (0 : Rat) < (m : Rat) := Int.cast_pos.mpr hpos
  have h0q : (0 : Rat) ≤ (loc : Rat) := Nat.cast_nonneg loc
  have h1q : (loc : Rat) ≤ (m : Rat) := by exact_mod_cast hle
  exact ⟨div_nonneg h0q (le_of_lt hposq), (div_le_one hposq).mpr h1q⟩

/-- one entry, the other way round: `loc / maxBuf > 1` when `0 < maxBuf < loc` -/
theorem locEntry_gt_one {loc : Nat} {m : Int} (hpos : 0 < m) (hlt : m < (loc : Int)) :
    1 < (loc : Rat) / (m : Rat) := by
  have hposq : (0 : Rat) < (m : Rat) := Int.cast_pos.mpr hpos
  have h1q : (m : Rat) < (loc : Rat) := by exact_mod_cast hlt
  exact (one_lt_div hposq).mpr h1q

/-- **`job_locations` lies in `Box(0, 1)`** provided every job's location is, as a number, at most
the divisor `opArrayMaxBuf inst`; one entry per job. -/
theorem opArray_job_locations_in_unit (inst : Instance) (s : State) (ops locs : List Rat)
    (h : opArrayObs inst s = .ok (ops, locs))
    (hloc : ∀ j ∈ s.jobs, (j.loc : Int) ≤ opArrayMaxBuf inst) :
    (∀ v ∈ locs, 0 ≤ v ∧ v ≤ 1) ∧ locs.length = s.jobs.length := by
  have p := (opArrayObs_parts h).2
  refine ⟨?_, p.length_eq.symm⟩
  intro v hv
  obtain ⟨j, hj, hz, rfl⟩ := forall2_mem_right p v hv
  exact locEntry_in_unit hz (hloc j hj)

/-- **The proviso is needed** (recorded finding): a job whose location exceeds a positive divisor
has an entry `> 1`, outside the declared `Box(0, 1)`. -/
theorem opArray_job_location_gt_one (inst : Instance) (s : State) (ops locs : List Rat)
    (h : opArrayObs inst s = .ok (ops, locs)) (i : Nat) (j : JobState) (hj : s.jobs[i]? = some j)
    (hpos : 0 < opArrayMaxBuf inst) (hgt : opArrayMaxBuf inst < (j.loc : Int)) :
    ∃ v, locs[i]? = some v ∧ 1 < v :=
  ⟨_, (opArray_locs_read_at inst s ops locs h i j hj).1, locEntry_gt_one hpos hgt⟩

/-- with a positive divisor the proviso is *equivalent* to the bound -/
theorem opArray_job_locations_in_unit_iff (inst : Instance) (s : State) (ops locs : List Rat)
    (h : opArrayObs inst s = .ok (ops, locs)) (hpos : 0 < opArrayMaxBuf inst) :
    (∀ v ∈ locs, 0 ≤ v ∧ v ≤ 1) ↔ ∀ j ∈ s.jobs, (j.loc : Int) ≤ opArrayMaxBuf inst := by
  constructor
  · intro hall j hj
    rcases lt_or_ge (opArrayMaxBuf inst) (j.loc : Int) with hgt | hle
    · obtain ⟨i, hi, hget⟩ := List.getElem_of_mem hj
      have hget' : s.jobs[i]? = some j := by simp [hi, hget]
      obtain ⟨v, hv, h1⟩ := opArray_job_location_gt_one inst s ops locs h i j hget' hpos hgt
      exact absurd (hall v (List.mem_of_getElem? hv)).2 (not_le.mpr h1)
    · exact hle
  · intro hloc
    exact (opArray_job_locations_in_unit inst s ops locs h hloc).1

/-- a concrete tiny instance: two standalone buffers (divisor `2 - 1 = 1`), one job located in the
buffer with id `5`: the factory returns `job_locations = [5]`, outside `Box(0, 1)` -/
theorem opArray_job_locations_exceed_witness :
    let inst : Instance := { jobs := [], travel := [], machines := [],
                             buffers := [default, { (default : BufCfg) with id := 5 }], transports := [] }
    let s : State := { jobs := [{ id := 0, ops := [], loc := 5 }], time := 0, machines := [],
                       transports := [], buffers := [default, { (default : BufState) with id := 5, store := [0] }] }
    opArrayMaxBuf inst = 1 ∧ (∃ j ∈ s.jobs, opArrayMaxBuf inst < (j.loc : Int)) ∧
    ∃ ops locs, opArrayObs inst s = .ok (ops, locs) ∧ ∃ v ∈ locs, 1 < v := by
  intro inst s
  refine ⟨by decide, ⟨_, List.mem_cons_self, by decide⟩, [], [(5 : Rat) / ((1 : Int) : Rat)], ?_, ?_⟩
  · rfl
  · exact ⟨_, List.mem_cons_self, by norm_num⟩

/-! ### when the proviso holds -/

theorem flatMap_triple_length {α β} (f g k : α → β) (l : List α) :
    (l.flatMap fun m => [f m, g m, k m]).length = l.length * 3 := by
  induction l with
  | nil => rfl
  | cons a as ih =>
    simp only [List.flatMap_cons, List.length_append, List.length_cons, List.length_nil, ih]
    omega

/-- the number of configured buffers is the number the factory computes -/
theorem allBufCfgs_length (inst : Instance) :
    (allBufCfgs inst).length = inst.buffers.length + inst.machines.length * 3 + inst.transports.length := by
  unfold allBufCfgs
  rw [List.length_append, List.length_append, flatMap_triple_length, List.length_map]

theorem opArrayMaxBuf_eq (inst : Instance) :
    opArrayMaxBuf inst = ((allBufCfgs inst).length : Int) - 1 := by
  rw [allBufCfgs_length]
  rfl

/-- every job is located in a configured buffer -/
theorem StructInv.loc_mem_bufIds {inst : Instance} {s : State} (hI : StructInv inst s) {j : JobState}
    (hj : j ∈ s.jobs) : j.loc ∈ (allBufCfgs inst).map (·.id) := by
  have h1 : j.id ∈ storeAt s j.loc := hI.cons.located (j.id, j.loc) (List.mem_map.mpr ⟨j, hj, rfl⟩)
  obtain ⟨b, hb, hbi, _⟩ := storeAt_mem h1
  rw [← hI.shape.bufIds]
  exact List.mem_map.mpr ⟨b, hb, hbi⟩

/-- **the proviso follows from the structural invariant when the buffer ids are `0 … maxBuf`** (in
any order): every location is then `≤ opArrayMaxBuf inst` -/
theorem structInv_loc_le_maxBuf {inst : Instance} {s : State} (hI : StructInv inst s)
    (hids : ((allBufCfgs inst).map (·.id)).Perm (List.range (allBufCfgs inst).length)) :
    ∀ j ∈ s.jobs, (j.loc : Int) ≤ opArrayMaxBuf inst := by
  intro j hj
  have hlt : j.loc < (allBufCfgs inst).length := List.mem_range.mp (hids.subset (hI.loc_mem_bufIds hj))
  rw [opArrayMaxBuf_eq]
  omega

/-- `job_locations ⊆ [0, 1]` for a state satisfying the structural invariant of an instance whose
buffer ids are `0 … maxBuf` -/
theorem opArray_job_locations_in_unit_of_struct {inst : Instance} {s : State} (hI : StructInv inst s)
    (hids : ((allBufCfgs inst).map (·.id)).Perm (List.range (allBufCfgs inst).length))
    (ops locs : List Rat) (h : opArrayObs inst s = .ok (ops, locs)) :
    (∀ v ∈ locs, 0 ≤ v ∧ v ≤ 1) ∧ locs.length = s.jobs.length :=
  opArray_job_locations_in_unit inst s ops locs h (structInv_loc_le_maxBuf hI hids)

/-! ## `current_transition` -/

/-- the list of components the offer index refers to -/
def offerComps (inst : Instance) : List Comp :=
  inst.machines.map (fun m => Comp.m m.id) ++ inst.transports.map (fun t => Comp.t t.id)

/-- the job number encoded for an offer: the job's number, or `n` for "no job" -/
def offerJobNum (n : Nat) (tr : Transition) : Nat :=
  match tr.job with | some j => j | none => n

/-- the type code of an offer's component (numerator over 100) -/
def offerCode (tr : Transition) : Nat :=
  match tr.comp with | .m _ => typeCode100 0 | .t _ => typeCode100 1 | .b _ => typeCode100 2

theorem currentTransition_done (inst : Instance) (n : Nat) (res : SMResult) :
    currentTransition inst n res true = .ok (1, 1, 1) := rfl

/-- the reading of the triple for a pending offer -/
theorem currentTransition_parts {inst : Instance} {n : Nat} {res : SMResult} {a b c : Rat}
    (h : currentTransition inst n res false = .ok (a, b, c)) :
    ∃ tr rest idx, res.possible = tr :: rest ∧ n ≠ 0 ∧
      (offerComps inst).idxOf? tr.comp = some idx ∧ idx < (offerComps inst).length ∧
      a = (idx : Rat) / ((offerComps inst).length : Rat) ∧
      b = (offerJobNum n tr : Rat) / (n : Rat) ∧
      c = (offerCode tr : Rat) / 100 := by
  unfold currentTransition at h
  cases hp : res.possible with
  | nil => simp [hp] at h
  | cons tr rest =>
    simp only [hp, Bool.false_eq_true, if_false, bind, Except.bind, pure, Except.pure] at h
    by_cases hn : n = 0
    · simp [hn] at h
    · simp only [hn, if_false] at h
      cases hi : (inst.machines.map (fun m => Comp.m m.id) ++
          inst.transports.map (fun t => Comp.t t.id)).idxOf? tr.comp with
      | none => simp [hi] at h
      | some i =>
        simp only [hi, Except.ok.injEq, Prod.mk.injEq] at h
        obtain ⟨h1, h2, h3⟩ := h
        have hlt := (List.idxOf?_eq_some_iff.mp hi).1
        exact ⟨tr, rest, i, rfl, hn, hi, hlt, h1.symm, h2.symm, h3.symm⟩

theorem typeCode100_le (k : Nat) : typeCode100 k ≤ 66 := by
  unfold typeCode100
  split <;> omega

theorem offerCode_le (tr : Transition) : offerCode tr ≤ 100 := by
  unfold offerCode
  split
  · exact Nat.le_trans (typeCode100_le 0) (by omega)
  · exact Nat.le_trans (typeCode100_le 1) (by omega)
  · exact Nat.le_trans (typeCode100_le 2) (by omega)

theorem offerCode_values (tr : Transition) : offerCode tr = 0 ∨ offerCode tr = 33 ∨ offerCode tr = 66 := by
  unfold offerCode
  split
  · exact Or.inl rfl
  · exact Or.inr (Or.inl rfl)
  · exact Or.inr (Or.inr rfl)

theorem natDiv_in_unit {k m : Nat} (hm : 0 < m) (hle : k ≤ m) :
    0 ≤ (k : Rat) / (m : Rat) ∧ (k : Rat) / (m : Rat) ≤ 1 := by
  have hposq : (0 : Rat) < (m : Rat) := Nat.cast_pos.mpr hm
  have h1q : (k : Rat) ≤ (m : Rat) := Nat.cast_le.mpr hle
  exact ⟨div_nonneg (Nat.cast_nonneg k) (le_of_lt hposq), (div_le_one hposq).mpr h1q⟩

/-- **the offer triple, pending offer**: `0 ≤ a < 1` and `0 ≤ c ≤ 1` always; `0 ≤ b`, and `b ≤ 1`
provided the job number of the head offer is at most `n` -/
theorem currentTransition_offer_in_unit (inst : Instance) (n : Nat) (res : SMResult) (a b c : Rat)
    (h : currentTransition inst n res false = .ok (a, b, c)) :
    ∃ tr rest, res.possible = tr :: rest ∧
      (0 ≤ a ∧ a < 1) ∧ 0 ≤ b ∧ (0 ≤ c ∧ c ≤ 1) ∧
      (c = 0 ∨ c = 33 / 100 ∨ c = 66 / 100) ∧
      ((∀ j, tr.job = some j → j ≤ n) → b ≤ 1) := by
  obtain ⟨tr, rest, idx, hp, hn, _, hlt, rfl, rfl, rfl⟩ := currentTransition_parts h
  have hnpos : 0 < n := Nat.pos_of_ne_zero hn
  have hnq : (0 : Rat) < (n : Rat) := Nat.cast_pos.mpr hnpos
  have hlpos : (0 : Rat) < ((offerComps inst).length : Rat) := Nat.cast_pos.mpr (by omega)
  refine ⟨tr, rest, hp, ⟨div_nonneg (Nat.cast_nonneg _) (le_of_lt hlpos), ?_⟩,
    div_nonneg (Nat.cast_nonneg _) (le_of_lt hnq), ?_, ?_, ?_⟩
  · exact (div_lt_one hlpos).mpr (Nat.cast_lt.mpr hlt)
  · have := natDiv_in_unit (k := offerCode tr) (m := 100) (by omega) (offerCode_le tr)
    simpa using this
  · rcases offerCode_values tr with e | e | e <;> rw [e]
    · left; simp
    · right; left; norm_num
    · right; right; norm_num
  · intro hj
    have hle : offerJobNum n tr ≤ n := by
      unfold offerJobNum
      cases e : tr.job with
      | none => exact Nat.le_refl _
      | some j => exact hj j e
    exact (natDiv_in_unit hnpos hle).2

/-- **`current_transition` lies in `Box(0, 1)`**: `(1, 1, 1)` when done; for a pending offer,
provided the job number of the head offer is at most the divisor `n`. -/
theorem currentTransition_in_unit (inst : Instance) (n : Nat) (res : SMResult) (done : Bool)
    (a b c : Rat) (h : currentTransition inst n res done = .ok (a, b, c))
    (hj : ∀ tr rest, res.possible = tr :: rest → ∀ j, tr.job = some j → j ≤ n) :
    (0 ≤ a ∧ a ≤ 1) ∧ (0 ≤ b ∧ b ≤ 1) ∧ (0 ≤ c ∧ c ≤ 1) ∧
    (done = true → a = 1 ∧ b = 1 ∧ c = 1) ∧ (done = false → a < 1) := by
  cases done with
  | true =>
    rw [currentTransition_done] at h
    simp only [Except.ok.injEq, Prod.mk.injEq] at h
    obtain ⟨rfl, rfl, rfl⟩ := h
    exact ⟨⟨zero_le_one, le_refl _⟩, ⟨zero_le_one, le_refl _⟩, ⟨zero_le_one, le_refl _⟩,
      fun _ => ⟨rfl, rfl, rfl⟩, fun hf => (by cases hf)⟩
  | false =>
    obtain ⟨tr, rest, hp, ha, hb0, hc, _, hb1⟩ := currentTransition_offer_in_unit inst n res a b c h
    exact ⟨⟨ha.1, le_of_lt ha.2⟩, ⟨hb0, hb1 (hj tr rest hp)⟩, hc, fun hf => (by cases hf), fun _ => ha.2⟩

/-- the proviso on the job number is needed: an offer for a job numbered above `n` is encoded by
a value `> 1` -/
theorem currentTransition_job_gt_one (inst : Instance) (n : Nat) (res : SMResult) (a b c : Rat)
    (h : currentTransition inst n res false = .ok (a, b, c)) (tr : Transition) (rest : List Transition)
    (hp : res.possible = tr :: rest) (j : Nat) (hj : tr.job = some j) (hgt : n < j) : 1 < b := by
  obtain ⟨tr', rest', idx, hp', hn, _, _, _, rfl, _⟩ := currentTransition_parts h
  rw [hp] at hp'
  simp only [List.cons.injEq] at hp'
  obtain ⟨rfl, _⟩ := hp'
  have hnq : (0 : Rat) < (n : Rat) := Nat.cast_pos.mpr (Nat.pos_of_ne_zero hn)
  have e : offerJobNum n tr = j := by simp [offerJobNum, hj]
  rw [e]
  exact (one_lt_div hnq).mpr (Nat.cast_lt.mpr hgt)

/-! ## environment level -/

variable {orc : Oracle} {inst : Instance}

/-- **`operation_state ⊆ [0, 1]` at every environment state in which the agent has a decision** -/
theorem opArray_operation_state_env {ec : EnvCfg} {st : RewardStatic} {s0 : State}
    (hst : Start orc inst s0) {e : EnvState} (he : EnvReach orc inst ec st s0 e)
    (hne : e.res.possible ≠ []) (ops locs : List Rat)
    (h : opArrayObs inst e.res.state = .ok (ops, locs)) :
    (∀ v ∈ ops, 0 ≤ v ∧ v ≤ 1) ∧ ops.length = (e.res.state.jobs.flatMap (·.ops)).length := by
  have hl := ((envReach_inv hst he).live hne).1
  obtain ⟨_, _, hS⟩ := occursA_inv hst hl
  exact opArray_operation_state_in_unit inst e.res.state ops locs hS h

/-- `job_locations ⊆ [0, 1]` at every environment state, for an instance whose buffer ids are
`0 … maxBuf` in some order -/
theorem opArray_job_locations_env {ec : EnvCfg} {st : RewardStatic} {s0 : State}
    (hst : Start orc inst s0) {e : EnvState} (he : EnvReach orc inst ec st s0 e)
    (hids : ((allBufCfgs inst).map (·.id)).Perm (List.range (allBufCfgs inst).length))
    (ops locs : List Rat) (h : opArrayObs inst e.res.state = .ok (ops, locs)) :
    (∀ v ∈ locs, 0 ≤ v ∧ v ≤ 1) ∧ locs.length = e.res.state.jobs.length :=
  opArray_job_locations_in_unit_of_struct (envReach_inv hst he).struct hids ops locs h

/-- a state in which every job is delivered has all records done -/
theorem isDone_all_done {s : State} (hR : RouteInv inst s) (hd : isDone inst s = true) :
    ∀ j ∈ s.jobs, ∀ o ∈ j.ops, o.st = .done := by
  intro j hj
  unfold isDone at hd
  rw [List.all_eq_true] at hd
  exact hR.delivered j hj (List.contains_iff_mem.mp (hd j hj))

/-- `operation_state` is all ones at an environment state in which every job is delivered -/
theorem opArray_operation_state_env_terminated {ec : EnvCfg} {st : RewardStatic} {s0 : State}
    (hst : Start orc inst s0) {e : EnvState} (he : EnvReach orc inst ec st s0 e)
    (hd : isDone inst e.res.state = true) (ops locs : List Rat)
    (h : opArrayObs inst e.res.state = .ok (ops, locs)) :
    (∀ v ∈ ops, v = 1) ∧ ops.length = (e.res.state.jobs.flatMap (·.ops)).length :=
  opArray_operation_state_all_done inst e.res.state ops locs
    (isDone_all_done (envReach_inv hst he).full.route hd) h

/-! ### every environment state, with or without a decision -/

/-- a state-machine step from an admissibly reached state returns a state that is admissibly
reached or has every job delivered -/
theorem smStep_live_or_done {cfg : SMConfig} {s0 s : State} (hA : OccursA orc inst cfg s0 s)
    {a : Action} (ha : Admissible a) {fuel : Nat} {r r' : Rng} {res : SMResult} {mic : List State}
    (hstep : smStep orc inst cfg fuel s r a = .ok (res, r', mic)) :
    OccursA orc inst cfg s0 res.state ∨ isDone inst res.state = true := by
  rcases (smStep_spec hstep).2 with h1 | h1 | h1
  · left; rw [h1.2.2.1]; exact hA
  · right; exact h1.2.2.2
  · left; exact OccursA.result hA ha hstep h1.2.1

theorem envReset_live_or_done {ec : EnvCfg} {s0 : State} {r : Rng} {e : EnvState} {mic : List State}
    (h : envReset orc inst ec s0 r = .ok (e, mic)) :
    OccursA orc inst ec.sm s0 e.res.state ∨ isDone inst e.res.state = true := by
  unfold envReset mwReset at h
  obtain ⟨⟨res, mw, r', mic'⟩, h1, h⟩ := except_bind_eq_ok h
  obtain ⟨⟨res', r'', mic''⟩, h2, h1⟩ := except_bind_eq_ok h1
  simp at h1 h
  obtain ⟨rfl, rfl, rfl, rfl⟩ := h1
  obtain ⟨rfl, rfl⟩ := h
  exact smStep_live_or_done OccursA.init admissible_noOp h2

theorem envStep_live_or_done {ec : EnvCfg} {st : RewardStatic} {s0 : State} {e : EnvState}
    (hi : ResInv orc inst ec.sm s0 e.res)
    (hP : OccursA orc inst ec.sm s0 e.res.state ∨ isDone inst e.res.state = true)
    {a : AgentAct} {out : StepOut} (h : envStep orc inst ec st e a = .ok out) :
    OccursA orc inst ec.sm s0 out.env.res.state ∨ isDone inst out.env.res.state = true := by
  unfold envStep at h
  split at h
  · simp at h
  · obtain ⟨⟨res', mw, r, mic⟩, hm, h⟩ := except_bind_eq_ok h
    simp only at h
    obtain ⟨⟨rew, cnt⟩, _, h⟩ := except_bind_eq_ok h
    simp at h; subst h
    have key : OccursA orc inst ec.sm s0 res'.state ∨ isDone inst res'.state = true := by
      rcases mwStep_cases hm with ⟨o, o', rest, _, hp, e1, _⟩ | ⟨act, hsub, hk, hs⟩
      · simp only at e1
        rw [e1]; exact hP
      · have hne : e.res.possible ≠ [] := by
          rcases hk with ⟨_, _, _, h⟩ | ⟨_, _, _, h⟩
          · exact h
          · intro h0; rw [h0] at h; simp at h
        have hl := hi.live hne
        have ha : Admissible act := by
          refine ⟨fun tr htr => hl.2 tr ?_, ?_⟩
          · have := hsub tr htr
            cases hp : e.res.possible with
            | nil => rw [hp] at this; simp at this
            | cons x xs => rw [hp] at this; simp at this; rw [this]; simp
          · rcases hk with ⟨_, h, _⟩ | ⟨_, h, _⟩ <;> rw [h] <;> simp
        exact smStep_live_or_done hl.1 ha hs
    by_cases hsuc : res'.success = true
    · simp only [hsuc, if_true]; exact key
    · simp only [hsuc]
      exact hP

theorem envReach_live_or_done {ec : EnvCfg} {st : RewardStatic} {s0 : State} (hst : Start orc inst s0)
    {e : EnvState} (h : EnvReach orc inst ec st s0 e) :
    OccursA orc inst ec.sm s0 e.res.state ∨ isDone inst e.res.state = true := by
  induction h with
  | reset h => exact envReset_live_or_done h
  | step he h ih => exact envStep_live_or_done (envReach_inv hst he) ih h

/-- **`operation_state ⊆ [0, 1]` at every environment state of every episode** (whether or not the
agent has a decision there): the state is admissibly reached, hence satisfies the schedule
invariant, or every job is delivered and every entry is `1`. -/
theorem opArray_operation_state_env_all {ec : EnvCfg} {st : RewardStatic} {s0 : State}
    (hst : Start orc inst s0) {e : EnvState} (he : EnvReach orc inst ec st s0 e)
    (ops locs : List Rat) (h : opArrayObs inst e.res.state = .ok (ops, locs)) :
    (∀ v ∈ ops, 0 ≤ v ∧ v ≤ 1) ∧ ops.length = (e.res.state.jobs.flatMap (·.ops)).length := by
  rcases envReach_live_or_done hst he with hl | hd
  · obtain ⟨_, _, hS⟩ := occursA_inv hst hl
    exact opArray_operation_state_in_unit inst e.res.state ops locs hS h
  · have hdone := isDone_all_done (envReach_inv hst he).full.route hd
    exact ⟨opArray_operation_state_all_done_in_unit inst e.res.state ops locs hdone h,
      (opArray_ops_read inst e.res.state ops locs h).1⟩

end JSL
