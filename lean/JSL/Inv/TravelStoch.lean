import JSL.Inv.EnvReach

/-!
# Travel with a stochastic travel time

`Travel.lean` / `TravelPass.lean` treat travel entries that are constants.  Here the entry from the
machine of an operation `a` to the machine of its successor `b` is a stochastic object `sid`: at
pickup the handler calls `update()` and reads the value, i.e. `orc sid (r sid + 1)` – a sample with
index `k ≥ 1`.  Once `b` has started, it started at the end of `a` plus that sample or later; before
that the job lies in the post-buffer of `a`'s machine, or on an AGV that arrives no earlier than the
end of `a` plus a sample, or in the pre-buffer of `b`'s machine at a time no earlier than that.
-/

namespace JSL

variable {orc : Oracle} {inst : Instance}

/-- the travel entry from the machine of `a` to the machine of `b` is the stochastic object `sid` -/
def stochTravel (inst : Instance) (a b : OpState) (sid : Nat) : Prop :=
  travelCfg inst (.m a.machine) (.m b.machine) = some (.stoch sid)

structure JobOKS (orc : Oracle) (inst : Instance) (s : State) (j : JobState) : Prop where
  start : ∀ a b, AdjL j.ops a b → a.st = .done → ∀ e, a.stop = some e → ∀ sid, stochTravel inst a b sid →
    b.st ≠ .idle → ∀ x, b.start = some x → ∃ k, 1 ≤ k ∧ e + orc sid k ≤ x
  wait : ∀ a b, AdjL j.ops a b → a.st = .done → ∀ e, a.stop = some e → ∀ sid, stochTravel inst a b sid → b.st = .idle →
    (∃ m ∈ s.machines, m.id = a.machine ∧ j.loc = m.post.id) ∨
    (∃ t ∈ s.transports, j.loc = t.buffer.id ∧ ∃ o, t.occ = .at o ∧ ∃ k, 1 ≤ k ∧ e + orc sid k ≤ o) ∨
    (∃ m ∈ s.machines, m.id = b.machine ∧ j.loc = m.pre.id ∧ ∃ k, 1 ≤ k ∧ e + orc sid k ≤ s.time)

def TravelInvS (orc : Oracle) (inst : Instance) (s : State) : Prop := ∀ j ∈ s.jobs, JobOKS orc inst s j

/-! ## one job -/

/-- a job none of whose data changed keeps its clauses when machines keep their keys, the clock
does not go back, and the AGV it may lie on keeps its arrival time -/
theorem JobOKS.keep {s s' : State} {j : JobState} (h : JobOKS orc inst s j) (htime : s.time ≤ s'.time)
    (hm : ∀ m ∈ s.machines, ∃ m' ∈ s'.machines, mKey m' = mKey m)
    (ht : ∀ t ∈ s.transports, j.loc = t.buffer.id → ∃ t' ∈ s'.transports, t'.buffer.id = t.buffer.id ∧ t'.occ = t.occ) :
    JobOKS orc inst s' j := by
  refine ⟨h.start, ?_⟩
  intro a b hadj ha e he sid hd hb
  rcases h.wait a b hadj ha e he sid hd hb with ⟨m, hm', e1, e2⟩ | ⟨t, ht', e1, o, e2, e3⟩ | ⟨m, hm', e1, e2, k, hk1, e3⟩
  · obtain ⟨m', hm'', k⟩ := hm m hm'
    simp only [mKey, Prod.mk.injEq] at k
    exact Or.inl ⟨m', hm'', by rw [k.1, e1], by rw [k.2.2.2, e2]⟩
  · obtain ⟨t', ht'', k1, k2⟩ := ht t ht' e1
    exact Or.inr (Or.inl ⟨t', ht'', by rw [k1, e1], o, by rw [k2, e2], e3⟩)
  · obtain ⟨m', hm'', kk⟩ := hm m hm'
    simp only [mKey, Prod.mk.injEq] at kk
    exact Or.inr (Or.inr ⟨m', hm'', by rw [kk.1, e1], by rw [kk.2.1, e2], k, hk1, by omega⟩)

/-- the record of the job's next operation is replaced by one in progress (start of setup, start
of processing, extension by an outage) -/
theorem JobOKS.replace_proc (w : WF inst) {s s' : State} (hI : StructInv inst s) {j J' : JobState} {target rec : OpState}
    (hj : j ∈ s.jobs) (hops : OpsOK s.time none j.ops) (h : JobOKS orc inst s j)
    (htm : target ∈ j.ops) (hkey : rec.job = target.job ∧ rec.idx = target.idx) (hmach : rec.machine = target.machine)
    (hst : rec.st = .processing)
    (hstart : ∀ x, rec.start = some x → x = s.time ∨ (target.st = .processing ∧ target.start = some x))
    (hnext : j.nextNotDone? = some target ∨ target.st = .processing)
    (hpre : target.st = .idle → ∃ m0 ∈ s.machines, j.loc = m0.pre.id)
    (hJ : J'.ops = (j.replaceOp rec).ops) : JobOKS orc inst s' J' := by
  have hs := hI.shape
  -- the map replaces exactly `target`
  have hf : ∀ x ∈ j.ops, (if (x.job == rec.job && x.idx == rec.idx) = true then rec else x) = rec ∧ x = target ∨
      (if (x.job == rec.job && x.idx == rec.idx) = true then rec else x) = x ∧ ¬ (x.job = rec.job ∧ x.idx = rec.idx) := by
    intro x hx
    by_cases hk : x.job = rec.job ∧ x.idx = rec.idx
    · left
      refine ⟨by simp [hk.1, hk.2], ?_⟩
      exact key_unique_in_job w hI hj hx htm ⟨by rw [hk.1, hkey.1], by rw [hk.2, hkey.2]⟩
    · right
      refine ⟨?_, hk⟩
      have : (x.job == rec.job && x.idx == rec.idx) = false := by
        simp only [Bool.and_eq_false_iff, beq_eq_false_iff_ne]
        by_cases h1 : x.job = rec.job
        · right; intro h2; exact hk ⟨h1, h2⟩
        · left; exact h1
      simp [this]
  constructor
  · intro a' b' hadj ha' e he sid hd hb' x hx
    rw [hJ] at hadj
    obtain ⟨a, b, hab, rfl, rfl⟩ := adjL_map hadj
    obtain ⟨hma, hmb⟩ := adjL_mem hab
    rcases hf a hma with ⟨e1, _⟩ | ⟨e1, _⟩
    · rw [e1, hst] at ha'; cases ha'
    · rw [e1] at ha' he hd
      rcases hf b hmb with ⟨e2, rfl⟩ | ⟨e2, _⟩
      · rw [e2] at hx hd
        have hd' : stochTravel inst a b sid := by unfold stochTravel at hd ⊢; rw [← hmach]; exact hd
        have hfacts := OpsOK_mem _ _ hops b hmb
        cases hbs : b.st with
        | idle =>
          obtain ⟨m0, hm0, hloc⟩ := hpre hbs
          rcases h.wait a b hab ha' e he sid hd' hbs with ⟨m, hm, _, e2'⟩ | ⟨t, ht, e1', _⟩ | ⟨m, hm, _, _, k, hk1, e3⟩
          · have : m = m0 := machine_of_buf_id w hs hm hm0 (x := j.loc) (Or.inr (Or.inr e2')) (Or.inl hloc)
            subst this
            exact absurd (hloc.symm.trans e2') (machine_buf_ids_ne hs w hm).2.1
          · exact absurd (hloc.symm.trans e1') ((ids_parts hs w).2.2 m0 hm0 t ht).1
          · rcases hstart x hx with rfl | ⟨hp, _⟩
            · exact ⟨k, hk1, e3⟩
            · rw [hbs] at hp; cases hp
        | processing =>
          obtain ⟨x0, y0, hx0, _, _, hle, _⟩ := hfacts.2.1 hbs
          obtain ⟨k, hk1, this⟩ := h.start a b hab ha' e he sid hd' (by rw [hbs]; simp) x0 hx0
          refine ⟨k, hk1, ?_⟩
          rcases hstart x hx with rfl | ⟨_, hx'⟩
          · omega
          · rw [hx0] at hx'; simp at hx'; omega
        | done =>
          obtain ⟨x0, y0, hx0, _, h1, h2⟩ := hfacts.1 hbs
          obtain ⟨k, hk1, this⟩ := h.start a b hab ha' e he sid hd' (by rw [hbs]; simp) x0 hx0
          refine ⟨k, hk1, ?_⟩
          rcases hstart x hx with rfl | ⟨hp, _⟩
          · omega
          · rw [hbs] at hp; cases hp
        | transport => exact absurd hbs hfacts.2.2
      · rw [e2] at hb' hx hd
        exact h.start a b hab ha' e he sid hd hb' x hx
  · intro a' b' hadj ha' e he sid hd hb'
    rw [hJ] at hadj
    obtain ⟨a, b, hab, rfl, rfl⟩ := adjL_map hadj
    obtain ⟨hma, hmb⟩ := adjL_mem hab
    exfalso
    rcases hf a hma with ⟨e1, _⟩ | ⟨e1, _⟩
    · rw [e1, hst] at ha'; cases ha'
    · rw [e1] at ha'
      rcases hf b hmb with ⟨e2, _⟩ | ⟨e2, hnk⟩
      · rw [e2, hst] at hb'; cases hb'
      · rw [e2] at hb'
        obtain ⟨hnp, _, hfind⟩ := OpsOK_adj_done_idle hops hab ha' hb'
        rcases hnext with hn | hn
        · unfold JobState.nextNotDone? at hn
          rw [hfind] at hn
          simp at hn; subst hn
          exact hnk ⟨hkey.1.symm, hkey.2.symm⟩
        · exact hnp target htm hn

/-- the record in progress is finished now and the job put into the post-buffer of its machine -/
theorem JobOKS.replace_done (w : WF inst) {s s' : State} (hI : StructInv inst s) {j J' : JobState} {target : OpState}
    (hj : j ∈ s.jobs) (hops : OpsOK s.time none j.ops) (h : JobOKS orc inst s j)
    (htm : target ∈ j.ops) (htp : target.st = .processing)
    (hJ : J'.ops = (j.replaceOp { target with stop := some s.time, st := .done }).ops)
    (hloc : ∃ m' ∈ s'.machines, m'.id = target.machine ∧ J'.loc = m'.post.id) : JobOKS orc inst s' J' := by
  have hf : ∀ x ∈ j.ops,
      (if (x.job == target.job && x.idx == target.idx) = true then { target with stop := some s.time, st := .done } else x) =
          { target with stop := some s.time, st := .done } ∧ x = target ∨
      (if (x.job == target.job && x.idx == target.idx) = true then { target with stop := some s.time, st := .done } else x) = x ∧
          x ≠ target := by
    intro x hx
    by_cases hk : x.job = target.job ∧ x.idx = target.idx
    · left
      exact ⟨by simp [hk.1, hk.2], key_unique_in_job w hI hj hx htm hk⟩
    · right
      refine ⟨?_, fun e => hk (by rw [e]; exact ⟨rfl, rfl⟩)⟩
      have : (x.job == target.job && x.idx == target.idx) = false := by
        simp only [Bool.and_eq_false_iff, beq_eq_false_iff_ne]
        by_cases h1 : x.job = target.job
        · right; intro h2; exact hk ⟨h1, h2⟩
        · left; exact h1
      simp [this]
  have hnd := hI.shape.ops_key_nodup w hj
  constructor
  · intro a' b' hadj ha' e he sid hd hb' x hx
    rw [hJ] at hadj
    simp only [JobState.replaceOp] at hadj
    obtain ⟨a, b, hab, rfl, rfl⟩ := adjL_map hadj
    obtain ⟨hma, hmb⟩ := adjL_mem hab
    rcases hf a hma with ⟨e1, rfl⟩ | ⟨e1, hne⟩
    · -- the finished record is followed by an idle one
      exfalso
      have hbi := OpsOK_adj_proc_idle hops hab htp
      rcases hf b hmb with ⟨_, rfl⟩ | ⟨e2, _⟩
      · exact adjL_key_ne hab hnd ⟨rfl, rfl⟩
      · rw [e2] at hb'; exact hb' hbi
    · rw [e1] at ha' he hd
      rcases hf b hmb with ⟨e2, rfl⟩ | ⟨e2, _⟩
      · rw [e2] at hx hd
        exact h.start a b hab ha' e he sid hd (by rw [htp]; simp) x hx
      · rw [e2] at hb' hx hd
        exact h.start a b hab ha' e he sid hd hb' x hx
  · intro a' b' hadj ha' e he sid hd hb'
    rw [hJ] at hadj
    simp only [JobState.replaceOp] at hadj
    obtain ⟨a, b, hab, rfl, rfl⟩ := adjL_map hadj
    obtain ⟨hma, hmb⟩ := adjL_mem hab
    rcases hf a hma with ⟨e1, rfl⟩ | ⟨e1, _⟩
    · obtain ⟨m', hm', e1', e2'⟩ := hloc
      exact Or.inl ⟨m', hm', by rw [e1, e1'], e2'⟩
    · exfalso
      rw [e1] at ha'
      rcases hf b hmb with ⟨e2, _⟩ | ⟨e2, _⟩
      · rw [e2] at hb'; cases hb'
      · rw [e2] at hb'
        exact (OpsOK_adj_done_idle hops hab ha' hb').1 target htm htp

/-- `update()` then `.time` of a stochastic travel entry: the next sample -/
theorem travelTime_stoch {r r' : Rng} {m1 m2 sid : Nat} {tt : Int}
    (hd : travelCfg inst (.m m1) (.m m2) = some (.stoch sid))
    (htt : travelTimeFromSpec orc inst r (.m m1) (.m m2) = .ok (tt, r')) : tt = orc sid (r sid + 1) := by
  unfold travelTimeFromSpec at htt
  simp only [hd, TimeCfg.updRead, except_pure, Except.ok.injEq, Prod.mk.injEq] at htt
  exact htt.1.symm

/-- the job is picked up: it lies on the AGV now, which arrives after the sample drawn now -/
theorem JobOKS.pickup (w : WF inst) {s s' : State} (hI : StructInv inst s) (hP : AgvFull inst s) {j : JobState}
    {t0 t' : TransportState} (hj : j ∈ s.jobs) (hops : OpsOK s.time none j.ops) (h : JobOKS orc inst s j)
    (ht0 : t0 ∈ s.transports) (hst : t0.st ≠ .transit) (hclaim : t0.job = some j.id)
    {src dst : Loc} {tt : Int} {r r' : Rng}
    (hsrc : (∃ fb ∈ s.buffers, fb.id = j.loc) ∨
      (∃ ms ∈ s.machines, src = .m ms.id ∧ (j.loc = ms.pre.id ∨ j.loc = ms.buffer.id ∨ j.loc = ms.post.id)))
    (hdst : dropOK inst j JobState.nextNotDone? dst)
    (htt : travelTimeFromSpec orc inst r src dst = .ok (tt, r'))
    (ht' : t' ∈ s'.transports) (hb : t'.buffer.id = t0.buffer.id) (hocc : t'.occ = .at (s.time + tt)) :
    JobOKS orc inst s' (j.at t0.buffer.id) := by
  have hs := hI.shape
  refine ⟨h.start, ?_⟩
  intro a b hadj ha e he sid hd hbi
  have hadj' : AdjL j.ops a b := hadj
  obtain ⟨_, _, hfind⟩ := OpsOK_adj_done_idle hops hadj' ha hbi
  have hle : e ≤ s.time := by
    obtain ⟨x0, y0, _, hy0, _, h2⟩ := (OpsOK_mem _ _ hops a (adjL_mem hadj').1).1 ha
    rw [he] at hy0; simp at hy0; omega
  rcases h.wait a b hadj' ha e he sid hd hbi with ⟨m, hm, e1, e2⟩ | ⟨t, ht, e1, _⟩ | ⟨m, hm, _, e2, _⟩
  · -- in the post-buffer of `a`'s machine: the source is that machine, the destination `b`'s
    have hsrc' : src = .m a.machine := by
      rcases hsrc with ⟨fb, hfb, e3⟩ | ⟨ms, hms, e3, e4⟩
      · exact absurd (e3.trans e2) ((ids_parts hs w).1 fb hfb m hm).2.2
      · have : ms = m := machine_of_buf_id w hs hms hm (x := j.loc) e4 (Or.inr (Or.inr e2))
        rw [e3, this, e1]
    have hdst' : dst = .m b.machine := by
      rcases hdst with ⟨hno, _⟩ | ⟨_, op, hop, e3⟩
      · exfalso
        unfold JobState.noOpIdle at hno
        have := List.all_eq_true.mp hno b (adjL_mem hadj').2
        rw [hbi] at this; simp at this
      · unfold JobState.nextNotDone? at hop
        rw [hfind] at hop
        simp at hop; subst hop; exact e3
    have : tt = orc sid (r sid + 1) := by
      rw [hsrc', hdst'] at htt
      exact travelTime_stoch hd htt
    exact Or.inr (Or.inl ⟨t', ht', by simp [JobState.at, hb], s.time + tt, hocc, r sid + 1, Nat.le_add_left 1 _, by omega⟩)
  · exfalso
    obtain ⟨h1, h2⟩ := carrier_claims w hI hP hj ht e1
    have hid := hP.agv.unique t ht t0 ht0 j.id h2 hclaim
    have : t = t0 := eq_of_mem_of_key_eq (key := fun (y : TransportState) => y.id) (hs.trNodup w) ht ht0 hid
    rw [this] at h1; exact hst h1
  · exfalso
    have hin := loc_in_store w hI hj (mem_allBufs_of_machine hm).1 e2
    exact hP.route.preUnclaimed m hm j.id hin t0 ht0 hclaim

/-- the job is delivered into the pre-buffer of the machine of its next operation -/
theorem JobOKS.deliver (w : WF inst) {s s' : State} (hI : StructInv inst s) (hP : AgvFull inst s) {j : JobState}
    {t0 : TransportState} {ms ms' : MachineState} (hj : j ∈ s.jobs) (hops : OpsOK s.time none j.ops) (h : JobOKS orc inst s j)
    (ht0 : t0 ∈ s.transports) (hin : j.id ∈ t0.buffer.store) (hms : ms ∈ s.machines)
    {cur : Loc} {pick : Nat} (hloc : t0.loc = .route cur pick (.m ms.id))
    (hdue : ∀ o, t0.occ = .at o → o ≤ s.time)
    (hms' : ms' ∈ s'.machines) (hk : mKey ms' = mKey ms) (htime : s.time ≤ s'.time) :
    JobOKS orc inst s' (j.at ms.pre.id) := by
  have hs := hI.shape
  refine ⟨h.start, ?_⟩
  intro a b hadj ha e he sid hd hbi
  have hadj' : AdjL j.ops a b := hadj
  obtain ⟨_, hfind, _⟩ := OpsOK_adj_done_idle hops hadj' ha hbi
  have hjl := stored_loc w hI hj (mem_allBufs_of_transport ht0) hin
  obtain ⟨hst0, hown0⟩ := carrier_claims w hI hP hj ht0 hjl
  simp only [mKey, Prod.mk.injEq] at hk
  -- the destination is the machine of `b`
  have hmb : ms.id = b.machine := by
    obtain ⟨c, p, dr, e1, hdrop⟩ := hP.route.route t0 ht0 j.id hown0 j hj rfl
    rw [hloc] at e1
    simp only [TLoc.route.injEq] at e1
    rcases hdrop with ⟨_, o, _, e3⟩ | ⟨_, op, hop, e3⟩
    · rw [← e1.2.2] at e3; cases e3
    · unfold JobState.nextIdle? at hop
      rw [hfind] at hop
      simp at hop; subst hop
      rw [← e1.2.2] at e3
      simpa using e3
  rcases h.wait a b hadj' ha e he sid hd hbi with ⟨m, hm, _, e2⟩ | ⟨t, ht, e1, o, e2, k, hk1, e3⟩ | ⟨m, hm, _, e2, _⟩
  · exact absurd (e2.symm.trans hjl) ((ids_parts hs w).2.2 m hm t0 ht0).2.2
  · obtain ⟨_, h2⟩ := carrier_claims w hI hP hj ht e1
    have hid := hP.agv.unique t ht t0 ht0 j.id h2 hown0
    have : t = t0 := eq_of_mem_of_key_eq (key := fun (y : TransportState) => y.id) (hs.trNodup w) ht ht0 hid
    subst this
    have := hdue o e2
    exact Or.inr (Or.inr ⟨ms', hms', by rw [hk.1, hmb], by simp [JobState.at, hk.2.1], k, hk1, by omega⟩)
  · exact absurd (e2.symm.trans hjl) ((ids_parts hs w).2.2 m hm t0 ht0).1

/-- a job delivered to an output buffer has no idle operation: nothing to wait for -/
theorem JobOKS.deliver_out {s s' : State} {j : JobState} (h : JobOKS orc inst s j) (hno : j.noOpIdle = true) (l : Nat) :
    JobOKS orc inst s' (j.at l) := by
  refine ⟨h.start, ?_⟩
  intro a b hadj _ _ _ _ _ hbi
  exfalso
  have hadj' : AdjL j.ops a b := hadj
  unfold JobState.noOpIdle at hno
  have := List.all_eq_true.mp hno b (adjL_mem hadj').2
  rw [hbi] at this; simp at this

/-! ## one transition -/

/-- **One transition keeps the stochastic travel invariant** and the arrival guard of the rest of
the batch. -/
theorem applyTransition_travelS (w : WF inst) {s s' : State} {r r' : Rng} {tr : Transition} {R : List Transition}
    (hI : StructInv inst s) (hS : SchedInv s) (hP : AgvFull inst s) (hT : TravelInvS orc inst s)
    (hv : transitionValid s tr = .ok true) (hsafe : Safe s (tr :: R)) (hgs : FullGS s (tr :: R)) (harr : ArrGS s (tr :: R))
    (h : applyTransition orc inst s r tr = .ok (s', r')) : TravelInvS orc inst s' ∧ ArrGS s' R := by
  have hI' := applyTransition_struct w hI hv h
  have htime := applyTransition_time h
  have hs := hI.shape
  have hjn := hs.jobsNodup w
  have hmt : ∀ m ∈ s.machines, ∃ m' ∈ s'.machines, mKey m' = mKey m := fun m hm => machine_transfer hs hI'.shape hm
  have h0 := h
  cases hc : tr.comp with
  | b bid =>
    unfold applyTransition at h
    simp only [hc] at h
    obtain ⟨_, _, h⟩ := except_bind_eq_ok h
    simp at h
  | m mid =>
    have htr := (machine_effect w hI hc h0).2.1
    refine ⟨?_, ?_⟩
    · -- all jobs but one are untouched
      have keep : ∀ j' ∈ s.jobs, JobOKS orc inst s' j' := fun j' hj' =>
        (hT j' hj').keep (by omega) hmt (fun t ht _ => ⟨t, by rw [htr]; exact ht, rfl, rfl⟩)
      have one : ∀ (j J' : JobState), j ∈ s.jobs → J'.id = j.id → s'.jobs = (s.replaceJob J').jobs → JobOKS orc inst s' J' →
          TravelInvS orc inst s' := by
        intro j J' hj hid hjobs hJ j' hj'
        rw [hjobs] at hj'
        rcases (mem_replaceJob hjn hj hid j').mp hj' with rfl | ⟨hj0, _⟩
        · exact hJ
        · exact keep j' hj0
      unfold applyTransition at h
      unfold transitionValid at hv
      simp only [hc] at h hv
      obtain ⟨m0, hm0, h⟩ := except_bind_eq_ok h
      obtain ⟨mv, hmv, hv⟩ := except_bind_eq_ok hv
      rw [hm0] at hmv; simp at hmv; subst hmv
      unfold handleMachineTransition at h
      obtain ⟨m, hm, h⟩ := except_bind_eq_ok h
      rw [hm0] at hm; simp at hm; subst hm
      have hmem := getMachine_ok hm0
      obtain ⟨hd, hh, h⟩ := except_bind_eq_ok h
      unfold machineHandlerOf at hh
      cases hn : tr.new with
      | t ns => simp [hn] at hh
      | m ns =>
        simp only [hn] at hh
        cases hmh : machineHandler m0.st ns with
        | none => simp [hmh] at hh
        | some hd' =>
          simp [hmh] at hh; subst hh
          cases hd' with
          | idleToSetup =>
            have hst := machineHandler_idleToSetup hmh
            obtain ⟨j, op, oc, mc, sd, b1, b2, hj, htj, hjpre, hnn, _, hocj, hoci, _, _, _, _, rfl⟩ := idleToSetup_spec h
            have hmach := valid_machine_job hjn hv (by simp [hst.1]) (by simp [hst.1]) j hj htj op hnn
            have hopm : op ∈ j.ops := (find?_mem_ops hnn).1
            have hjl := stored_loc w hI hj (mem_allBufs_of_machine hmem.1).1 hjpre
            apply one j ((j.replaceOp (opRec oc s.time (s.time + sd) m0.id)).at m0.buffer.id) hj rfl rfl
            exact (hT j hj).replace_proc w hI hj (hS.ops j hj) hopm ⟨by simp [opRec, hocj], by simp [opRec, hoci]⟩
              (by simp [opRec, hmach]) (by simp [opRec]) (fun x hx => Or.inl (by simpa [opRec] using hx.symm)) (Or.inl hnn)
              (fun _ => ⟨m0, hmem.1, hjl⟩) rfl
          | setupToWorking =>
            have hst := machineHandler_setupToWorking hmh
            obtain ⟨j, op, oc, d, hj, htj, hjin, hnn, _, hocj, hoci, _, rfl⟩ := setupToWorking_spec h
            have hmach := valid_machine_job hjn hv (by simp [hst.1]) (by simp [hst.1]) j hj htj op hnn
            have hopm : op ∈ j.ops := (find?_mem_ops hnn).1
            have hbusy : m0.st ≠ .idle := by rw [hst.1]; simp
            obtain ⟨_, op0, hp0, _, _, _⟩ := busy_job hI hS w hmem.1 hbusy hj hjin
            have hop0 : op0 = op := by
              have := nextNotDone_of_processing (hS.ops j hj) hp0
              rw [hnn] at this; simpa using this.symm
            subst hop0
            obtain ⟨_, _, _, _, hpst⟩ := processing?_split' hp0
            apply one j (j.replaceOp (opRec oc s.time (s.time + d) m0.id)) hj rfl rfl
            exact (hT j hj).replace_proc w hI hj (hS.ops j hj) hopm ⟨by simp [opRec, hocj], by simp [opRec, hoci]⟩
              (by simp [opRec, hmach]) (by simp [opRec]) (fun x hx => Or.inl (by simpa [opRec] using hx.symm)) (Or.inl hnn)
              (fun hi => by rw [hpst] at hi; cases hi) rfl
          | workingToOutage =>
            obtain ⟨mc, outs, j, op, _, _, _, hj, htj, hp, rfl⟩ := workingToOutage_spec h
            obtain ⟨_, _, hl, _, hpst⟩ := processing?_split' hp
            have hopm : op ∈ j.ops := by rw [hl]; simp
            apply one j (j.replaceOp { op with stop := some (s.time + occupiedFor outs) }) hj rfl rfl
            exact (hT j hj).replace_proc (rec := { op with stop := some (s.time + occupiedFor outs) }) w hI hj (hS.ops j hj) hopm
              ⟨rfl, rfl⟩ rfl (by simp [hpst])
              (fun x hx => Or.inr ⟨hpst, hx⟩) (Or.inr hpst) (fun hi => by rw [hpst] at hi; cases hi) rfl
          | outageToIdle =>
            obtain ⟨j, op, mc, rest, b1, b2, hstore, hj, hp, _, _, _, _, rfl⟩ := outageToIdle_spec h
            have hst := machineHandler_outageToIdle hmh
            have hjin : j.id ∈ m0.buffer.store := by rw [hstore]; simp
            have hbusy : m0.st ≠ .idle := by rw [hst.1]; simp
            obtain ⟨_, op0, hp0, hm0', _, _⟩ := busy_job hI hS w hmem.1 hbusy hj hjin
            rw [hp] at hp0; simp at hp0; subst hp0
            obtain ⟨_, _, hl, _, hpst⟩ := processing?_split' hp
            have hopm : op ∈ j.ops := by rw [hl]; simp
            obtain ⟨m', hm', hk⟩ := hmt m0 hmem.1
            simp only [mKey, Prod.mk.injEq] at hk
            apply one j ((j.replaceOp { op with stop := some s.time, st := .done }).at m0.post.id) hj rfl rfl
            exact (hT j hj).replace_done w hI hj (hS.ops j hj) hopm hpst rfl
              ⟨m', hm', by rw [hk.1, hm0'], by simp [JobState.at, hk.2.2.2]⟩
    · refine ⟨?_, harr.tail.order⟩
      intro b hb hn t ht hcb hst o ho
      rw [htr] at ht; rw [htime]
      exact harr.due b (by simp [hb]) hn t ht hcb hst o ho
  | t tid =>
    obtain ⟨t0, t', ht0, hid0, hid', hbid, htr, hwait, heff⟩ := agv_effectT hc h0
    have htn := hs.trNodup w
    have ht'mem : t' ∈ s'.transports := by
      rw [htr]; exact (mem_replaceTransport htn ht0 hid' t').mpr (Or.inl rfl)
    -- an AGV other than the acting one is untouched
    have other : ∀ t ∈ s.transports, t.id ≠ t0.id → t ∈ s'.transports := by
      intro t ht hne
      rw [htr]; exact (mem_replaceTransport htn ht0 hid' t).mpr (Or.inr ⟨ht, hne⟩)
    -- a job not lying on the acting AGV keeps its clauses
    have keep : ∀ j' ∈ s.jobs, j'.loc ≠ t0.buffer.id → JobOKS orc inst s' j' := by
      intro j' hj' hne
      refine (hT j' hj').keep (by omega) hmt ?_
      intro t ht hl
      by_cases e : t.id = t0.id
      · have : t = t0 := eq_of_mem_of_key_eq (key := fun (y : TransportState) => y.id) htn ht ht0 e
        subst this; exact absurd hl hne
      · exact ⟨t, other t ht e, rfl, rfl⟩
    refine ⟨?_, ?_⟩
    · cases heff with
      | still hst0 _ hjobs =>
        intro j' hj'
        rw [hjobs] at hj'
        apply keep j' hj'
        intro hl
        exact hst0 (carrier_claims w hI hP hj' ht0 hl).1
      | pickup j src dst tt r1 hn hst0 hj htj hdrop htt hsrc hocc hjobs =>
        have hclaim : t0.job = some j.id := by
          have := hgs.route.own tr (by simp) hn t0 ht0 (by rw [hc, hid0])
          rw [← this]; exact htj
        intro j' hj'
        rw [hjobs] at hj'
        rcases (mem_replaceJob hjn hj (by simp [JobState.at]) j').mp hj' with rfl | ⟨hj0, _⟩
        · exact (hT j hj).pickup w hI hP hj (hS.ops j hj) ht0 hst0 hclaim hsrc hdrop htt ht'mem hbid hocc
        · apply keep j' hj0
          intro hl
          exact hst0 (carrier_claims w hI hP hj0 ht0 hl).1
      | deliverM j cur pick ms hn hloc hms hj hin hjobs =>
        have hjl := stored_loc w hI hj (mem_allBufs_of_transport ht0) hin
        obtain ⟨hst0, hown0⟩ := carrier_claims w hI hP hj ht0 hjl
        obtain ⟨ms', hms', hk⟩ := hmt ms hms
        intro j' hj'
        rw [hjobs] at hj'
        rcases (mem_replaceJob hjn hj (by simp [JobState.at]) j').mp hj' with rfl | ⟨hj0, hne⟩
        · exact (hT j hj).deliver w hI hP hj (hS.ops j hj) ht0 hin hms hloc
            (fun o ho => harr.due tr (by simp) hn t0 ht0 (by rw [hc, hid0]) hst0 o ho) hms' hk (by omega)
        · apply keep j' hj0
          intro hl
          have := (carrier_claims w hI hP hj0 ht0 hl).2
          rw [hown0] at this
          simp at this
          exact hne this.symm
      | deliverB j cur pick b hn hloc hj hin hjobs =>
        have hjl := stored_loc w hI hj (mem_allBufs_of_transport ht0) hin
        obtain ⟨hst0, hown0⟩ := carrier_claims w hI hP hj ht0 hjl
        have hno : j.noOpIdle = true := by
          obtain ⟨c, p, dr, e1, hdrop⟩ := hP.route.route t0 ht0 j.id hown0 j hj rfl
          rw [hloc] at e1
          simp only [TLoc.route.injEq] at e1
          rcases hdrop with ⟨hno, _⟩ | ⟨_, op, _, e3⟩
          · exact hno
          · rw [← e1.2.2] at e3; cases e3
        intro j' hj'
        rw [hjobs] at hj'
        rcases (mem_replaceJob hjn hj (by simp [JobState.at]) j').mp hj' with rfl | ⟨hj0, hne⟩
        · exact (hT j hj).deliver_out hno _
        · apply keep j' hj0
          intro hl
          have := (carrier_claims w hI hP hj0 ht0 hl).2
          rw [hown0] at this
          simp at this
          exact hne this.symm
    · refine ⟨?_, harr.tail.order⟩
      intro b hb hn t ht hcb hst o ho
      rw [htime]
      rw [htr] at ht
      rcases (mem_replaceTransport htn ht0 hid' t).mp ht with rfl | ⟨ht1, hne⟩
      · -- the acting AGV: only a "keep waiting" may precede its delivery in the batch
        exfalso
        have hord := (List.pairwise_cons.mp harr.order).1 b hb hn (by rw [hc, hcb, hid', hid0])
        exact hwait hord hst
      · exact harr.due b (by simp [hb]) hn t ht1 hcb hst o ho

/-! ## the pass -/

/-- the full AGV invariant together with the stochastic travel invariant -/
structure AgvTravelS (orc : Oracle) (inst : Instance) (s : State) : Prop where
  full : AgvFull inst s
  travel : TravelInvS orc inst s

theorem TravelInvS.advance {s : State} (h : TravelInvS orc inst s) {t : Int} (hle : s.time ≤ t) :
    TravelInvS orc inst { s with time := t } := by
  intro j hj
  exact (h j hj).keep hle (fun m hm => ⟨m, hm, rfl⟩) (fun x hx _ => ⟨x, hx, rfl, rfl⟩)

theorem TravelInvS.of_time {s : State} {t : Int} (h : TravelInvS orc inst { s with time := t }) (hle : t ≤ s.time) :
    TravelInvS orc inst s := by
  intro j hj
  exact (h j hj).keep hle (fun m hm => ⟨m, hm, rfl⟩) (fun x hx _ => ⟨x, hx, rfl, rfl⟩)

/-- at rest nothing is finished: the invariant holds vacuously -/
theorem TravelInvS.of_rest {s : State} (h : restB s = true) : TravelInvS orc inst s := by
  simp only [restB, Bool.and_eq_true, List.all_eq_true, beq_iff_eq] at h
  obtain ⟨⟨_, hj⟩, _⟩ := h
  intro j hj'
  constructor
  · intro a b hadj ha
    rw [hj j hj' a (adjL_mem hadj).1] at ha; cases ha
  · intro a b hadj ha
    rw [hj j hj' a (adjL_mem hadj).1] at ha; cases ha

/-- **The stochastic travel pass.** -/
def TravelStochPass (orc : Oracle) (inst : Instance) (cfg : SMConfig) (w : WF inst) : Pass orc inst cfg where
  P := AgvTravelS orc inst
  GS := TravelGS
  Adm := AdmOffer inst cfg
  tail := fun h => ⟨(FullPass orc inst cfg w).tail h.full, h.arr.tail⟩
  step := fun hI hS hP hv hsafe hfresh hgs ha => by
    obtain ⟨h1, h2⟩ := (FullPass orc inst cfg w).step hI hS hP.full hv hsafe hfresh hgs.full ha
    obtain ⟨h3, h4⟩ := applyTransition_travelS w hI hS hP.full hP.travel hv hsafe hgs.full hgs.arr ha
    exact ⟨⟨h1, h3⟩, ⟨h2, h4⟩⟩
  advance := fun hI hS hP hle hp => ⟨(FullPass orc inst cfg w).advance hI hS hP.full hle hp, hP.travel.advance hle⟩
  timed := fun hI hS hP htt hposs htele =>
    ⟨(FullPass orc inst cfg w).timed hI hS hP.full htt hposs htele, timed_arr w hI hS htt (filterTeleport_shape hposs htele)⟩
  timedOnly := fun hI hS hP htt =>
    ⟨(FullPass orc inst cfg w).timedOnly hI hS hP.full htt, by simpa using timed_arr w hI hS (tele := []) htt (by simp)⟩
  action := fun {s a} hI hS hP hadm => by
    refine ⟨(FullPass orc inst cfg w).action hI hS hP.full hadm, ?_⟩
    have hsh : ∀ tr ∈ sortedByTransport a.transitions, tr.new ≠ .t .outage := by
      intro tr htr hn
      have hm := mem_sortedByTransport htr
      rcases hadm with e | ⟨poss, hposs, tr0, hp, e⟩
      · rw [e] at hm; cases hm
      · rw [e] at hm; simp at hm; subst hm
        rcases offers_offerShaped hposs tr hp with e' | e' <;> rw [e'] at hn <;> cases hn
    refine ⟨fun tr htr hn => absurd hn (hsh tr htr), ?_⟩
    apply List.pairwise_of_forall_mem_list
    intro x _ y hy hn
    exact absurd hn (hsh y hy)

/-- the clause of the invariant that does not mention the clock: a started operation started no
earlier than its predecessor's end plus a sample (of index ≥ 1) of the travel time -/
def TravelStartS (orc : Oracle) (inst : Instance) (s : State) : Prop :=
  ∀ j ∈ s.jobs, ∀ a b, AdjL j.ops a b → a.st = .done → ∀ e, a.stop = some e → ∀ sid, stochTravel inst a b sid →
    b.st ≠ .idle → ∀ x, b.start = some x → ∃ k, 1 ≤ k ∧ e + orc sid k ≤ x

theorem TravelInvS.toStart {s : State} (h : TravelInvS orc inst s) : TravelStartS orc inst s :=
  fun j hj => (h j hj).start

theorem occursF_travelS {cfg : SMConfig} {s0 σ : State} (hst : Start orc inst s0) (h : OccursF orc inst cfg s0 σ) :
    AgvTravelS orc inst σ := by
  obtain ⟨w, _⟩ := initOKB_sound hst.init
  have nn := nonnegB_sound hst.samples hst.nonneg
  induction h with
  | init => exact ⟨AgvFull.of_rest hst.rest hst.placed, TravelInvS.of_rest hst.rest⟩
  | result hprev ha hc hstep hnd ih =>
    obtain ⟨_, hI, hS⟩ := occursA_inv hst hprev.toC.toA
    exact ((TravelStochPass orc inst cfg w).smStep w nn hI hS ih ha hc hstep).2.2.2 hnd
  | sub hprev ha hc hstep hσ ih =>
    obtain ⟨_, hI, hS⟩ := occursA_inv hst hprev.toC.toA
    exact ((TravelStochPass orc inst cfg w).smStep w nn hI hS ih ha hc hstep).2.1 _ hσ
  | micro hprev ha hc hstep hσ ih =>
    obtain ⟨_, hI, hS⟩ := occursA_inv hst hprev.toC.toA
    exact ((TravelStochPass orc inst cfg w).smStep w nn hI hS ih ha hc hstep).1 _ hσ

/-- the state a step returns (its clock possibly stamped with the makespan) -/
theorem final_travelS {cfg : SMConfig} {s0 s : State} (hst : Start orc inst s0) (h : OccursF orc inst cfg s0 s)
    {a : Action} (ha : Admissible a) (hc : AdmOffer inst cfg s a) {fuel : Nat} {r r' : Rng}
    {res : SMResult} {mic : List State} (hstep : smStep orc inst cfg fuel s r a = .ok (res, r', mic)) :
    TravelStartS orc inst res.state := by
  obtain ⟨w, hI, hS⟩ := occursA_inv hst h.toC.toA
  have nn := nonnegB_sound hst.samples hst.nonneg
  obtain ⟨t, ht⟩ := ((TravelStochPass orc inst cfg w).smStep w nn hI hS (occursF_travelS hst h) ha hc hstep).2.2.1
  exact fun j hj => (ht.travel j hj).start

/-! ## along the episodes of the environment -/

/-- what is carried for a result the environment holds -/
structure ResTravelS (orc : Oracle) (inst : Instance) (res : SMResult) : Prop where
  travel : TravelStartS orc inst res.state
  subsTravel : ∀ σ ∈ res.subStates, TravelStartS orc inst σ

/-- one state-machine step from a state of an execution whose actions are offers -/
theorem smStep_resTravelS {cfg : SMConfig} {s0 s : State} (hst : Start orc inst s0) (hF : OccursF orc inst cfg s0 s)
    {a : Action} (ha : Admissible a) (hadm : AdmOffer inst cfg s a) {fuel : Nat} {r r' : Rng}
    {res : SMResult} {mic : List State} (hstep : smStep orc inst cfg fuel s r a = .ok (res, r', mic)) :
    ResTravelS orc inst res ∧ ∀ σ ∈ mic, TravelStartS orc inst σ :=
  ⟨⟨final_travelS hst hF ha hadm hstep,
      fun _ hσ => (occursF_travelS hst (OccursF.sub hF ha hadm hstep hσ)).travel.toStart⟩,
    fun _ hσ => (occursF_travelS hst (OccursF.micro hF ha hadm hstep hσ)).travel.toStart⟩

theorem envReset_travelS {ec : EnvCfg} {s0 : State} (hst : Start orc inst s0) {r : Rng} {e : EnvState} {mic : List State}
    (h : envReset orc inst ec s0 r = .ok (e, mic)) :
    ResTravelS orc inst e.res ∧ ∀ σ ∈ mic, TravelStartS orc inst σ := by
  unfold envReset mwReset at h
  obtain ⟨⟨res, mw, r', mic'⟩, h1, h⟩ := except_bind_eq_ok h
  obtain ⟨⟨res', r'', mic''⟩, h2, h1⟩ := except_bind_eq_ok h1
  simp at h1 h
  obtain ⟨rfl, rfl, rfl, rfl⟩ := h1
  obtain ⟨rfl, rfl⟩ := h
  exact smStep_resTravelS (cfg := ec.sm) hst OccursF.init admissible_noOp (Or.inl rfl) h2

theorem envStep_travelS {ec : EnvCfg} {st : RewardStatic} {s0 : State} (hst : Start orc inst s0) {e : EnvState}
    (hi : ResInv orc inst ec.sm s0 e.res) (hd : ResTravelS orc inst e.res) {a : AgentAct} {out : StepOut}
    (h : envStep orc inst ec st e a = .ok out) :
    ResTravelS orc inst out.env.res ∧ ∀ σ ∈ out.micro, TravelStartS orc inst σ := by
  unfold envStep at h
  split at h
  · simp at h
  · obtain ⟨⟨res', mw, r, mic⟩, hm, h⟩ := except_bind_eq_ok h
    simp only at h
    obtain ⟨⟨rew, cnt⟩, _, h⟩ := except_bind_eq_ok h
    simp at h; subst h
    have key : ResTravelS orc inst res' ∧ ∀ σ ∈ mic, TravelStartS orc inst σ := by
      rcases mwStep_cases hm with ⟨o, o', rest, _, hp, e1, e2, _, _, _, e6, _⟩ | ⟨act, hsub, hk, hs⟩
      · simp only at e1 e2 e6
        refine ⟨⟨by rw [e1]; exact hd.travel, by rw [e2]; exact hd.subsTravel⟩, ?_⟩
        rw [e6]; intro σ hσ; cases hσ
      · have hne : e.res.possible ≠ [] := by
          rcases hk with ⟨_, _, _, h⟩ | ⟨_, _, _, h⟩
          · exact h
          · intro h0; rw [h0] at h; simp at h
        have hl := hi.live hne
        have ha : Admissible act := by
          refine ⟨fun tr htr => hl.2 tr ?_, ?_⟩
          · have := hsub tr htr
            cases hp : e.res.possible with
            | nil => rw [hp] at this; simp at this
            | cons x xs => rw [hp] at this; simp at this; rw [this]; simp
          · rcases hk with ⟨_, h, _⟩ | ⟨_, h, _⟩ <;> rw [h] <;> simp
        have hadm : AdmOffer inst ec.sm e.res.state act := by
          obtain ⟨poss, hposs, hsub⟩ := hi.offersFrom hne
          rcases hk with ⟨_, _, ht, _⟩ | ⟨_, _, ht, _⟩
          · right
            cases hp : e.res.possible with
            | nil => exact absurd hp hne
            | cons x xs => exact ⟨poss, hposs, x, hsub x (by rw [hp]; simp), by rw [ht, hp]; rfl⟩
          · left; exact ht
        exact smStep_resTravelS hst (hi.liveF hne) ha hadm hs
    by_cases hsuc : res'.success = true
    · simp only [hsuc, if_true]; exact key
    · simp only [hsuc]
      exact ⟨hd, key.2⟩

theorem envReach_travelS {ec : EnvCfg} {st : RewardStatic} {s0 : State} (hst : Start orc inst s0) {e : EnvState}
    (h : EnvReach orc inst ec st s0 e) : ResTravelS orc inst e.res := by
  induction h with
  | reset h => exact (envReset_travelS hst h).1
  | step he h ih => exact (envStep_travelS hst (envReach_inv hst he) ih h).1

/-- **every exposed state**: an operation whose predecessor's machine is linked to its own by a
stochastic travel entry `sid` started no earlier than the predecessor's end plus a sample of `sid`
of index at least 1 (the value drawn by the `update()` at pickup) -/
theorem exposed_travelS {ec : EnvCfg} {st : RewardStatic} {s0 σ : State} (hst : Start orc inst s0)
    (h : Exposed orc inst ec st s0 σ) :
    ∀ j ∈ σ.jobs, ∀ a b, AdjL j.ops a b → a.st = .done → ∀ e, a.stop = some e → ∀ sid, stochTravel inst a b sid →
      b.st ≠ .idle → ∀ x, b.start = some x → ∃ k, 1 ≤ k ∧ e + orc sid k ≤ x := by
  cases h with
  | state he => exact (envReach_travelS hst he).travel
  | sub he hσ => exact (envReach_travelS hst he).subsTravel σ hσ
  | resetMicro hr hσ => exact (envReset_travelS hst hr).2 σ hσ
  | micro he hs hσ => exact (envStep_travelS hst (envReach_inv hst he) (envReach_travelS hst he) hs).2 σ hσ

end JSL
