import JSL.Inv.ShiftMachine

/-!
# Translation of simulated time: waiting times, the AGV handlers and `applyTransition`
-/

namespace JSL
variable (δ : Int) {inst : Instance}

/-- close a goal whose two sides differ by pushing the shift through `replaceTransport` -/
macro "fin_tr" : tactic =>
  `(tactic| (try simp only [except_pure, except_map'_ok]
             rw [← replaceTransport_shift]
             rfl))

theorem waitBehind_shift (s : State) (tr : Transition) (j : JobState) (ms : MachineState) (bc : BufCfg) :
    waitBehind inst (shiftState δ s) tr (shiftJob δ j) (shiftMachine δ ms) bc =
      (waitBehind inst s tr j ms bc).map (shiftOcc δ) := by
  unfold waitBehind
  simp only [shiftMachine_post, shiftState_jobs, getJob_shift, shiftState_time, shiftJob_loc, transportByJob_shift]
  ecase optE (nextJobFromBuffer ms.post bc) .invalidValue with nxt
  ecase getJob s.jobs nxt with nj
  simp only [jobDone_shift]
  isplit
  · cases transportByJob s nxt <;> rfl

theorem waitProcessing_shift (j : JobState) :
    waitProcessing (shiftJob δ j) = (waitProcessing j).map (shiftOcc δ) := by
  unfold waitProcessing
  rw [shiftJob_processingOpt]
  cases j.processing? with
  | none => rfl
  | some op => cases h : op.stop <;> simp [shiftOcc, h]

theorem getWaitingTime_shift (s : State) (tr : Transition) :
    getWaitingTime inst (shiftState δ s) tr = (getWaitingTime inst s tr).map (shiftOcc δ) := by
  unfold getWaitingTime
  simp only [shiftState_jobs, getJobOpt_shift, shiftState_time, shiftState_machines, getMachine_shift]
  ecase getJobOpt s.jobs tr.job with j
  simp only [shiftJob_loc, shiftJob_id]
  ecase getBufCfg (allBufCfgs inst) j.loc with bc
  rcases bc.parent with _ | (mid | n | n)
  · rfl
  · simp only
    ecase getMachine s.machines mid with ms
    simp only [shiftMachine_post]
    isplit
    · rw [readyForPickup_shift]
      ecase readyForPickup inst s j with b
      isplit
      · exact waitBehind_shift δ s tr j ms bc
    · exact waitProcessing_shift δ j
  · rfl
  · rfl

theorem pickupToWaiting_shift (s : State) (r : Rng) (tr : Transition) (t : TransportState) :
    handleAgvPickupToWaiting inst (shiftState δ s) r tr (shiftTransport δ t) =
      (handleAgvPickupToWaiting inst s r tr t).map (fun p => (shiftState δ p.1, p.2)) := by
  unfold handleAgvPickupToWaiting
  isplit
  · rw [getWaitingTime_shift]
    ecase getWaitingTime inst s tr with occ
    fin_tr

theorem waitingToWaiting_shift (s : State) (r : Rng) (tr : Transition) (t : TransportState) :
    handleAgvWaitingToWaiting inst (shiftState δ s) r tr (shiftTransport δ t) =
      (handleAgvWaitingToWaiting inst s r tr t).map (fun p => (shiftState δ p.1, p.2)) := by
  unfold handleAgvWaitingToWaiting
  rw [getWaitingTime_shift]
  ecase getWaitingTime inst s tr with occ
  fin_tr

theorem dropLoc_shift (j : JobState) (pick : JobState → Except Err OpState)
    (hp : pick (shiftJob δ j) = (pick j).map (shiftOp δ)) :
    dropLoc inst (shiftJob δ j) pick = dropLoc inst j pick := by
  unfold dropLoc
  rw [shiftJob_noOpIdle, hp]
  split
  · rfl
  · cases pick j <;> rfl

theorem pickupToTransit_shift (orc : Oracle) (s : State) (r : Rng) (tr : Transition) (t : TransportState) :
    handleAgvPickupToTransit orc inst (shiftState δ s) r tr (shiftTransport δ t) =
      (handleAgvPickupToTransit orc inst s r tr t).map (fun p => (shiftState δ p.1, p.2)) := by
  unfold handleAgvPickupToTransit
  cases tr.job with
  | none => rfl
  | some jid =>
    simp only [except_pure, except_bind_ok, shiftState_jobs, getJob_shift]
    ecase getJob s.jobs jid with j
    rw [dropLoc_shift δ j _ (shiftJob_nextNotDone δ j)]
    simp only [shiftJob_loc]
    ecase dropLoc inst j JobState.nextNotDone with dst
    ecase travelTimeFromSpec orc inst r
            (match machineIdOfBuffer inst.machines j.loc with | some mid => Loc.m mid | none => Loc.b j.loc) dst with q
    obtain ⟨tt, r1⟩ := q
    simp only [shiftTransport_buffer]
    split
    · rename_i bid _
      simp only [shiftState_buffers]
      ecase getBufState s.buffers bid with fb
      rw [switchBuffer_shift]
      ecase switchBuffer inst fb t.buffer j with q
      simp only [replaceBuffer_shift, shiftState_time, replaceJob_shift, Int.add_right_comm _ δ _]
      fin_tr
    · rename_i mid _
      simp only [shiftState_machines, getMachine_shift]
      ecase getMachine s.machines mid with ms
      simp only [bufOfMachine_shift]
      ecase bufOfMachine ms j.loc with bs
      rw [switchBuffer_shift]
      ecase switchBuffer inst bs t.buffer j with q
      rw [replaceBufInMachine_shift]
      ecase replaceBufInMachine ms q.1 with ms2
      simp only [replaceMachine_shift, shiftState_time, replaceJob_shift, Int.add_right_comm _ δ _]
      fin_tr

theorem idleToWorking_shift (orc : Oracle) (s : State) (r : Rng) (tr : Transition) (t : TransportState) :
    handleAgvIdleToWorking orc inst (shiftState δ s) r tr (shiftTransport δ t) =
      (handleAgvIdleToWorking orc inst s r tr t).map (fun p => (shiftState δ p.1, p.2)) := by
  unfold handleAgvIdleToWorking
  cases tr.job with
  | none => rfl
  | some jid =>
    simp only [except_pure, except_bind_ok, shiftTransport_loc]
    cases t.loc with
    | route a b c => rfl
    | «at» cur =>
      simp only [shiftState_jobs, getJob_shift]
      ecase getJob s.jobs jid with j
      rw [dropLoc_shift δ j _ (shiftJob_nextIdleE δ j)]
      simp only [shiftJob_loc, shiftJob_id]
      ecase dropLoc inst j JobState.nextIdleE with target
      ecase getBufCfg (allBufCfgs inst) j.loc with bc
      ecase pickupSource bc j.loc with src
      ecase travelNoUpdate orc inst r cur src with ttp
      simp only [shiftState_time, Int.add_right_comm _ δ _]
      fin_tr

theorem transitToOutage_shift (hno : NoOutages inst) (orc : Oracle) (s : State) (r : Rng) (tr : Transition)
    (t : TransportState) :
    handleAgvTransitToOutage orc inst (shiftState δ s) r tr (shiftTransport δ t) =
      (handleAgvTransitToOutage orc inst s r tr t).map (fun p => (shiftState δ p.1, p.2)) := by
  unfold handleAgvTransitToOutage
  cases tr.job with
  | none => rfl
  | some jid =>
    simp only [except_pure, except_bind_ok, shiftState_jobs, getJob_shift, shiftTransport_loc]
    ecase getJob s.jobs jid with j
    cases t.loc with
    | «at» l => rfl
    | route a b drop =>
      simp only [getCompByLoc_shift, shiftState_time]
      ecase getCompByLoc s drop with target
      rw [completeTransportTask_shift δ hno]
      ecase completeTransportTask orc inst s.time r j t drop target with q
      obtain ⟨j1, t1, tg, r1⟩ := q
      simp only [replaceJob_shift, replaceTransport_shift]
      cases tg with
      | machine m => simp only [shiftTarget, replaceMachine_shift]
      | buffer b => simp only [shiftTarget, replaceBuffer_shift]

theorem agvOutageToIdle_shift (s : State) (r : Rng) (t : TransportState) :
    handleAgvOutageToIdle (shiftState δ s) r (shiftTransport δ t) =
      (handleAgvOutageToIdle s r t).map (fun p => (shiftState δ p.1, p.2)) := by
  unfold handleAgvOutageToIdle
  simp only [except_pure, except_map'_ok]
  fin_tr

theorem transportTransition_shift (hno : NoOutages inst) (orc : Oracle) (s : State) (r : Rng) (tr : Transition)
    (tid : Nat) :
    handleTransportTransition orc inst (shiftState δ s) r tr tid =
      (handleTransportTransition orc inst s r tr tid).map (fun p => (shiftState δ p.1, p.2)) := by
  unfold handleTransportTransition
  simp only [shiftState_transports, getTransport_shift]
  ecase getTransport s.transports tid with t
  simp only [shiftTransport_id, shiftTransport_st]
  ecase getTransportCfg inst.transports t.id with tc
  isplit
  · ecase agvHandlerOf t.st tr.new with h
    cases h with
    | idleToWorking => exact idleToWorking_shift δ orc s r tr t
    | pickupToWaitingpickup => exact pickupToWaiting_shift δ s r tr t
    | pickupToTransit => exact pickupToTransit_shift δ orc s r tr t
    | transitToOutage => exact transitToOutage_shift δ hno orc s r tr t
    | outageToIdle => exact agvOutageToIdle_shift δ s r t
    | waitingPickupToWaitingPickup => exact waitingToWaiting_shift δ s r tr t

theorem applyTransition_shift (hno : NoOutages inst) (orc : Oracle) (s : State) (r : Rng) (tr : Transition) :
    applyTransition orc inst (shiftState δ s) r tr =
      (applyTransition orc inst s r tr).map (fun p => (shiftState δ p.1, p.2)) := by
  unfold applyTransition
  cases tr.comp with
  | m mid =>
    simp only [shiftState_machines, getMachine_shift]
    ecase getMachine s.machines mid with m
    exact machineTransition_shift δ hno orc s r tr mid
  | t tid =>
    simp only [shiftState_transports, getTransport_shift]
    ecase getTransport s.transports tid with t
    exact transportTransition_shift δ hno orc s r tr tid
  | b bid =>
    simp only [shiftState_buffers]
    ecase getBufState s.buffers bid with b
    try rfl
end JSL
