import JSL.Inv.SchedLemmas
import JSL.Inv.Outage

/-! The schedule invariant is preserved by the four machine handlers. -/

namespace JSL

variable {orc : Oracle} {inst : Instance}

theorem lookup_mem {α β} [BEq α] [LawfulBEq α] {l : List (α × β)} {k : α} {v : β} (h : l.lookup k = some v) :
    (k, v) ∈ l := by
  induction l with
  | nil => simp [List.lookup] at h
  | cons a as ih =>
    obtain ⟨a1, a2⟩ := a
    simp only [List.lookup] at h
    by_cases e : k == a1
    · simp [e] at h; simp at e; subst e; subst h; simp
    · simp [e] at h; exact List.mem_cons_of_mem _ (ih h)

/-- a job stored in a buffer that is not the internal buffer of a machine is not being processed -/
theorem not_processing_of_stored {s : State} (hI : StructInv inst s) (hS : SchedInv s) (w : WF inst)
    {j : JobState} (hj : j ∈ s.jobs) {i : Nat} (hin : j.id ∈ storeAt s i)
    (hi : ∀ m ∈ s.machines, m.buffer.id ≠ i) : ∀ o ∈ j.ops, o.st ≠ .processing := by
  intro o ho hst
  obtain ⟨m, hm, _, _, hstore⟩ := hS.procOnBusy j hj o ho hst
  have : j.id ∈ storeAt s m.buffer.id := by
    rw [storeAt_of_mem (hI.shape.bufNodup w) (mem_allBufs_of_machine hm).2.1, hstore]; simp
  exact hi m hm (unique_store hI.cons (hI.shape.jobsNodup w) this hin)

theorem idleToSetup_sched (w : WF inst) (nn : NonNeg orc inst) {s s' : State} {r r' : Rng} {tr : Transition}
    {m : MachineState} (hI : StructInv inst s) (hS : SchedInv s) (hm : m ∈ s.machines) (hidle : m.st = .idle)
    (hvalid : ∀ j ∈ s.jobs, tr.job = some j.id → ∀ op, j.nextNotDone? = some op → op.machine = m.id)
    (h : handleMachineIdleToSetup orc inst s r tr m = .ok (s', r')) : SchedInv s' := by
  obtain ⟨j, op, oc, mc, sd, bss1, bss2, hj, htj, hjin, hop, hoc, hocj, hoci, hmc, hmcid, hcap, ⟨c, hc, hsd⟩, rfl⟩ :=
    idleToSetup_spec h
  have hs := hI.shape
  have hjn := hs.jobsNodup w
  have hmn := hs.machNodup w
  have hsd0 : 0 ≤ sd := by
    have := TimeCfg.readUpd_nonneg nn.orc r c (nn.setup mc hmc _ (lookup_mem hc))
    rw [← hsd] at this; exact this
  have hpre : storeAt s m.pre.id = m.pre.store := storeAt_of_mem (hs.bufNodup w) (mem_allBufs_of_machine hm).1
  have hnoproc : ∀ o ∈ j.ops, o.st ≠ .processing :=
    not_processing_of_stored hI hS w hj (by rw [hpre]; exact hjin)
      (fun m3 hm3 => (internal_ne_pre_post hs w hm3 hm).1)
  obtain ⟨l1, l2, hops, hl1, hopnd⟩ := nextNotDone?_split hop
  have hopmem : op ∈ j.ops := by rw [hops]; simp
  have hopidle : op.st = .idle := by
    have h1 := (OpsOK_mem _ _ (hS.ops j hj) op hopmem).2.2
    have h2 := hnoproc op hopmem
    cases hst : op.st <;> simp_all
  have hl2 : allIdle l2 := OpsOK_after op hopnd l2 l1 none hl1 (hops ▸ hS.ops j hj)
  -- the new records
  have hkn := hs.ops_key_nodup w hj
  have hj'ops : ((j.replaceOp (opRec oc s.time (s.time + sd) m.id)).at m.buffer.id).ops =
      l1 ++ opRec oc s.time (s.time + sd) m.id :: l2 := by
    simp only [JobState.at_ops]
    exact replaceOp_split j l1 op _ l2 hops hkn ⟨by simp [opRec, hocj], by simp [opRec, hoci]⟩
  have hmach := hvalid j hj htj op hop
  have hmst : m.buffer.store = [] := hS.idleEmpty m hm hidle
  -- membership in the new state
  have memJ : ∀ x, x ∈ ((s.replaceJob ((j.replaceOp (opRec oc s.time (s.time + sd) m.id)).at m.buffer.id)).replaceMachine
        (m.toSetup j.id bss1 bss2 (s.time + sd) oc.tool)).jobs ↔
      (x = (j.replaceOp (opRec oc s.time (s.time + sd) m.id)).at m.buffer.id ∨ (x ∈ s.jobs ∧ x.id ≠ j.id)) := by
    intro x; rw [replaceMachine_jobs]; exact mem_replaceJob hjn hj (by simp) x
  have memM : ∀ y, y ∈ ((s.replaceJob ((j.replaceOp (opRec oc s.time (s.time + sd) m.id)).at m.buffer.id)).replaceMachine
        (m.toSetup j.id bss1 bss2 (s.time + sd) oc.tool)).machines ↔
      (y = m.toSetup j.id bss1 bss2 (s.time + sd) oc.tool ∨ (y ∈ s.machines ∧ y.id ≠ m.id)) := by
    intro y
    exact mem_replaceMachine (s := s.replaceJob _) hmn hm (by simp [MachineState.toSetup]) y
  -- old done records survive, new done records are old
  have doneOld : ∀ x, x ∈ ((s.replaceJob ((j.replaceOp (opRec oc s.time (s.time + sd) m.id)).at m.buffer.id)).replaceMachine
        (m.toSetup j.id bss1 bss2 (s.time + sd) oc.tool)).jobs → ∀ o ∈ x.ops, o.st = .done →
      ∃ x0 ∈ s.jobs, o ∈ x0.ops := by
    intro x hx o ho hst
    rcases (memJ x).mp hx with rfl | ⟨hx0, _⟩
    · rw [hj'ops] at ho
      rcases List.mem_append.mp ho with ho | ho
      · exact ⟨j, hj, by rw [hops]; simp [ho]⟩
      · rcases List.mem_cons.mp ho with rfl | ho
        · simp [opRec] at hst
        · exact absurd (hl2 o ho) (by rw [hst]; simp)
    · exact ⟨x, hx0, ho⟩
  refine {
    idleEmpty := ?_, busyHolds := ?_, procOnBusy := ?_, ops := ?_, doneBeforeProc := ?_, doneDisjoint := ?_,
    agvPending := ?_, freeNoClaim := hS.freeNoClaim, depWaiting := hS.depWaiting }
  · intro y hy hyst
    rcases (memM y).mp hy with rfl | ⟨hy0, _⟩
    · simp [MachineState.toSetup] at hyst
    · exact hS.idleEmpty y hy0 hyst
  · intro y hy hyst
    rcases (memM y).mp hy with rfl | ⟨hy0, hyne⟩
    · refine ⟨_, (memJ _).mpr (Or.inl rfl), by simp [MachineState.toSetup, hmst], opRec oc s.time (s.time + sd) m.id,
        processing?_split hj'ops hl1 (by simp [opRec]), by simp [opRec, MachineState.toSetup],
        by simp [opRec, MachineState.toSetup], by simp [MachineState.toSetup]⟩
    · obtain ⟨j2, hj2, hst2, op2, hp2, h3, h4, h5⟩ := hS.busyHolds y hy0 hyst
      have hne : j2.id ≠ j.id := by
        intro e
        have : j2 = j := eq_of_mem_of_key_eq (key := fun (z : JobState) => z.id) hjn hj2 hj e
        subst this
        obtain ⟨_, _, hl, _, hpr⟩ := processing?_split' hp2
        exact hnoproc op2 (by rw [hl]; simp) hpr
      exact ⟨j2, (memJ j2).mpr (Or.inr ⟨hj2, hne⟩), hst2, op2, hp2, h3, h4, h5⟩
  · intro x hx o ho hst
    rcases (memJ x).mp hx with rfl | ⟨hx0, hxne⟩
    · rw [hj'ops] at ho
      have : o = opRec oc s.time (s.time + sd) m.id := by
        rcases List.mem_append.mp ho with ho | ho
        · exact absurd (hl1 o ho) (by rw [hst]; simp)
        · rcases List.mem_cons.mp ho with rfl | ho
          · rfl
          · exact absurd (hl2 o ho) (by rw [hst]; simp)
      subst this
      exact ⟨_, (memM _).mpr (Or.inl rfl), by simp [opRec, MachineState.toSetup], by simp [MachineState.toSetup],
        by simp [MachineState.toSetup, hmst]⟩
    · obtain ⟨m3, hm3, h1, h2, h3⟩ := hS.procOnBusy x hx0 o ho hst
      have hne : m3.id ≠ m.id := by
        intro e
        have : m3 = m := eq_of_mem_of_key_eq (key := fun (z : MachineState) => z.id) hmn hm3 hm e
        subst this; exact h2 hidle
      exact ⟨m3, (memM m3).mpr (Or.inr ⟨hm3, hne⟩), h1, h2, h3⟩
  · intro x hx
    simp only [replaceMachine_time, replaceJob_time]
    rcases (memJ x).mp hx with rfl | ⟨hx0, _⟩
    · rw [hj'ops]
      have := hS.ops j hj
      rw [hops] at this
      exact OpsOK_start (b := s.time + sd) (by omega) _ (by simp [opRec]) (by simp [opRec]) (by simp [opRec]) op hopnd l2
        l1 none hl1 (by simp) this
    · exact hS.ops x hx0
  · intro j1 hj1 o1 ho1 j2 hj2 o2 ho2 hmm hd hp b1 a2 hb1 ha2
    obtain ⟨x1, hx1, hox1⟩ := doneOld j1 hj1 o1 ho1 hd
    rcases (memJ j2).mp hj2 with rfl | ⟨hj20, _⟩
    · rw [hj'ops] at ho2
      have : o2 = opRec oc s.time (s.time + sd) m.id := by
        rcases List.mem_append.mp ho2 with ho | ho
        · exact absurd (hl1 o2 ho) (by rw [hp]; simp)
        · rcases List.mem_cons.mp ho with rfl | ho
          · rfl
          · exact absurd (hl2 o2 ho) (by rw [hp]; simp)
      subst this
      simp [opRec] at ha2; subst ha2
      obtain ⟨a, b, _, hb, _, hle⟩ := (OpsOK_mem _ _ (hS.ops x1 hx1) o1 hox1).1 hd
      rw [hb] at hb1; simp at hb1; subst hb1; exact hle
    · exact hS.doneBeforeProc x1 hx1 o1 hox1 j2 hj20 o2 ho2 hmm hd hp b1 a2 hb1 ha2
  · intro j1 hj1 o1 ho1 j2 hj2 o2 ho2 hmm hd1 hd2 hne
    obtain ⟨x1, hx1, hox1⟩ := doneOld j1 hj1 o1 ho1 hd1
    obtain ⟨x2, hx2, hox2⟩ := doneOld j2 hj2 o2 ho2 hd2
    exact hS.doneDisjoint x1 hx1 o1 hox1 x2 hx2 o2 hox2 hmm hd1 hd2 hne
  · intro t ht hst o ho
    exact hS.agvPending t ht hst o ho

/-- in a well-ordered list the running operation is the first not-done one -/
theorem nextNotDone_of_processing {now : Int} {j : JobState} {op0 : OpState} (hok : OpsOK now none j.ops)
    (hp : j.processing? = some op0) : j.nextNotDone? = some op0 := by
  obtain ⟨l1, l2, hl, _, hst⟩ := processing?_split' hp
  have hd := OpsOK_prefix_done op0 (by rw [hst]; simp) l2 l1 none (hl ▸ hok)
  unfold JobState.nextNotDone?
  rw [hl, List.find?_append]
  have : l1.find? (fun o => o.st != OSt.done) = none := by
    apply List.find?_eq_none.mpr
    intro x hx; simp [hd x hx]
  simp [this, hst]

/-- the job held by a busy machine -/
theorem busy_job {s : State} (hI : StructInv inst s) (hS : SchedInv s) (w : WF inst) {m : MachineState}
    (hm : m ∈ s.machines) (hb : m.st ≠ .idle) {j : JobState} (hj : j ∈ s.jobs) (hin : j.id ∈ m.buffer.store) :
    m.buffer.store = [j.id] ∧ ∃ op, j.processing? = some op ∧ op.machine = m.id ∧ op.stop = m.occ ∧ m.occ ≠ none := by
  obtain ⟨j0, hj0, hst, op, h1, h2, h3, h4⟩ := hS.busyHolds m hm hb
  rw [hst] at hin; simp at hin
  have : j0 = j := eq_of_mem_of_key_eq (key := fun (z : JobState) => z.id) (hI.shape.jobsNodup w) hj0 hj hin.symm
  subst this
  exact ⟨hst, op, h1, h2, h3, h4⟩

/-- jobs held by different machines are different -/
theorem other_machine_other_job {s : State} (hI : StructInv inst s) (w : WF inst) {m y : MachineState}
    (hm : m ∈ s.machines) (hy : y ∈ s.machines) (hne : y.id ≠ m.id) {a b : Nat}
    (ha : m.buffer.store = [a]) (hb : y.buffer.store = [b]) : b ≠ a := by
  intro e; subst e
  have hs := hI.shape
  have h1 : b ∈ storeAt s m.buffer.id := by
    rw [storeAt_of_mem (hs.bufNodup w) (mem_allBufs_of_machine hm).2.1, ha]; simp
  have h2 : b ∈ storeAt s y.buffer.id := by
    rw [storeAt_of_mem (hs.bufNodup w) (mem_allBufs_of_machine hy).2.1, hb]; simp
  have := unique_store hI.cons (hs.jobsNodup w) h1 h2
  exact machines_bufs_ne hs w hy hm hne _ (by simp) _ (by simp) this.symm

theorem mem_flatMap_ops {oc : OpCfg} (h : oc ∈ inst.jobs.flatMap (·.ops)) : ∃ jc ∈ inst.jobs, oc ∈ jc.ops := by
  simpa [List.mem_flatMap] using h

theorem setupToWorking_sched (w : WF inst) (nn : NonNeg orc inst) {s s' : State} {r r' : Rng} {tr : Transition}
    {m : MachineState} (hI : StructInv inst s) (hS : SchedInv s) (hm : m ∈ s.machines) (hst : m.st = .setup)
    (h : handleMachineSetupToWorking orc inst s r tr m = .ok (s', r')) : SchedInv s' := by
  obtain ⟨j, op, oc, d, hj, htj, hjin, hop, hoc, hocj, hoci, hd, rfl⟩ := setupToWorking_spec h
  have hs := hI.shape
  have hjn := hs.jobsNodup w
  have hmn := hs.machNodup w
  have hbusy : m.st ≠ .idle := by rw [hst]; simp
  obtain ⟨hstore, op0, hp0, hm0, hstop0, _⟩ := busy_job hI hS w hm hbusy hj hjin
  have hop0 : op = op0 := by
    have := nextNotDone_of_processing (hS.ops j hj) hp0
    rw [hop] at this; simpa using this
  subst hop0
  have hd0 : 0 ≤ d := by
    obtain ⟨jc, hjc, hocm⟩ := mem_flatMap_ops hoc
    have := TimeCfg.updRead_nonneg nn.orc r oc.dur (nn.ops jc hjc oc hocm)
    rw [← hd] at this; exact this
  obtain ⟨l1, l2, hops, hl1, hopnd⟩ := nextNotDone?_split hop
  have hopst : op.st = .processing := by
    obtain ⟨_, _, _, _, h⟩ := processing?_split' hp0; exact h
  have hl2 : allIdle l2 := OpsOK_after op hopnd l2 l1 none hl1 (hops ▸ hS.ops j hj)
  have hkn := hs.ops_key_nodup w hj
  have hj'ops : (j.replaceOp (opRec oc s.time (s.time + d) m.id)).ops = l1 ++ opRec oc s.time (s.time + d) m.id :: l2 :=
    replaceOp_split j l1 op _ l2 hops hkn ⟨by simp [opRec, hocj], by simp [opRec, hoci]⟩
  have memJ : ∀ x, x ∈ ((s.replaceJob (j.replaceOp (opRec oc s.time (s.time + d) m.id))).replaceMachine
        (m.toWorking (s.time + d))).jobs ↔
      (x = j.replaceOp (opRec oc s.time (s.time + d) m.id) ∨ (x ∈ s.jobs ∧ x.id ≠ j.id)) := by
    intro x; rw [replaceMachine_jobs]; exact mem_replaceJob hjn hj (by simp) x
  have memM : ∀ y, y ∈ ((s.replaceJob (j.replaceOp (opRec oc s.time (s.time + d) m.id))).replaceMachine
        (m.toWorking (s.time + d))).machines ↔ (y = m.toWorking (s.time + d) ∨ (y ∈ s.machines ∧ y.id ≠ m.id)) := by
    intro y
    exact mem_replaceMachine (s := s.replaceJob _) hmn hm (by simp [MachineState.toWorking]) y
  have doneOld : ∀ x, x ∈ ((s.replaceJob (j.replaceOp (opRec oc s.time (s.time + d) m.id))).replaceMachine
        (m.toWorking (s.time + d))).jobs → ∀ o ∈ x.ops, o.st = .done → ∃ x0 ∈ s.jobs, o ∈ x0.ops := by
    intro x hx o ho hst'
    rcases (memJ x).mp hx with rfl | ⟨hx0, _⟩
    · rw [hj'ops] at ho
      rcases List.mem_append.mp ho with ho | ho
      · exact ⟨j, hj, by rw [hops]; simp [ho]⟩
      · rcases List.mem_cons.mp ho with rfl | ho
        · simp [opRec] at hst'
        · exact absurd (hl2 o ho) (by rw [hst']; simp)
    · exact ⟨x, hx0, ho⟩
  have procNew : ∀ o, o ∈ l1 ++ opRec oc s.time (s.time + d) m.id :: l2 → o.st = .processing →
      o = opRec oc s.time (s.time + d) m.id := by
    intro o ho hp
    rcases List.mem_append.mp ho with ho | ho
    · exact absurd (hl1 o ho) (by rw [hp]; simp)
    · rcases List.mem_cons.mp ho with rfl | ho
      · rfl
      · exact absurd (hl2 o ho) (by rw [hp]; simp)
  refine {
    idleEmpty := ?_, busyHolds := ?_, procOnBusy := ?_, ops := ?_, doneBeforeProc := ?_, doneDisjoint := ?_,
    agvPending := ?_, freeNoClaim := hS.freeNoClaim, depWaiting := hS.depWaiting }
  · intro y hy hyst
    rcases (memM y).mp hy with rfl | ⟨hy0, _⟩
    · simp [MachineState.toWorking] at hyst
    · exact hS.idleEmpty y hy0 hyst
  · intro y hy hyst
    rcases (memM y).mp hy with rfl | ⟨hy0, hyne⟩
    · refine ⟨_, (memJ _).mpr (Or.inl rfl), by simp [MachineState.toWorking, hstore], opRec oc s.time (s.time + d) m.id,
        processing?_split hj'ops hl1 (by simp [opRec]), by simp [opRec, MachineState.toWorking],
        by simp [opRec, MachineState.toWorking], by simp [MachineState.toWorking]⟩
    · obtain ⟨j2, hj2, hst2, op2, hp2, h3, h4, h5⟩ := hS.busyHolds y hy0 hyst
      have hne : j2.id ≠ j.id := other_machine_other_job hI w hm hy0 hyne hstore hst2
      exact ⟨j2, (memJ j2).mpr (Or.inr ⟨hj2, hne⟩), hst2, op2, hp2, h3, h4, h5⟩
  · intro x hx o ho hp
    rcases (memJ x).mp hx with rfl | ⟨hx0, hxne⟩
    · rw [hj'ops] at ho
      have := procNew o ho hp
      subst this
      exact ⟨_, (memM _).mpr (Or.inl rfl), by simp [opRec, MachineState.toWorking], by simp [MachineState.toWorking],
        by simp [MachineState.toWorking, hstore]⟩
    · obtain ⟨m3, hm3, h1, h2, h3⟩ := hS.procOnBusy x hx0 o ho hp
      have hne : m3.id ≠ m.id := by
        intro e
        have : m3 = m := eq_of_mem_of_key_eq (key := fun (z : MachineState) => z.id) hmn hm3 hm e
        subst this; rw [hstore] at h3; simp at h3; exact hxne h3.symm
      exact ⟨m3, (memM m3).mpr (Or.inr ⟨hm3, hne⟩), h1, h2, h3⟩
  · intro x hx
    simp only [replaceMachine_time, replaceJob_time]
    rcases (memJ x).mp hx with rfl | ⟨hx0, _⟩
    · rw [hj'ops]
      have := hS.ops j hj
      rw [hops] at this
      exact OpsOK_start (b := s.time + d) (by omega) _ (by simp [opRec]) (by simp [opRec]) (by simp [opRec]) op hopnd l2
        l1 none hl1 (by simp) this
    · exact hS.ops x hx0
  · intro j1 hj1 o1 ho1 j2 hj2 o2 ho2 hmm hd1 hp b1 a2 hb1 ha2
    obtain ⟨x1, hx1, hox1⟩ := doneOld j1 hj1 o1 ho1 hd1
    rcases (memJ j2).mp hj2 with rfl | ⟨hj20, _⟩
    · rw [hj'ops] at ho2
      have := procNew o2 ho2 hp
      subst this
      simp [opRec] at ha2; subst ha2
      obtain ⟨a, b, _, hb, _, hle⟩ := (OpsOK_mem _ _ (hS.ops x1 hx1) o1 hox1).1 hd1
      rw [hb] at hb1; simp at hb1; subst hb1; exact hle
    · exact hS.doneBeforeProc x1 hx1 o1 hox1 j2 hj20 o2 ho2 hmm hd1 hp b1 a2 hb1 ha2
  · intro j1 hj1 o1 ho1 j2 hj2 o2 ho2 hmm hd1 hd2 hne
    obtain ⟨x1, hx1, hox1⟩ := doneOld j1 hj1 o1 ho1 hd1
    obtain ⟨x2, hx2, hox2⟩ := doneOld j2 hj2 o2 ho2 hd2
    exact hS.doneDisjoint x1 hx1 o1 hox1 x2 hx2 o2 hox2 hmm hd1 hd2 hne
  · intro t ht hst' o ho
    exact hS.agvPending t ht hst' o ho

theorem workingToOutage_sched (w : WF inst) (nn : NonNeg orc inst) {s s' : State} {r r' : Rng} {tr : Transition}
    {m : MachineState} (hI : StructInv inst s) (hS : SchedInv s) (hm : m ∈ s.machines) (hst : m.st = .working)
    (hown : ∀ x, tr.job = some x → x ∈ m.buffer.store)
    (h : handleMachineWorkingToOutage orc inst s r tr m = .ok (s', r')) : SchedInv s' := by
  obtain ⟨mc, outs, j, op, hmc, hmcid, hout, hj, htj, hp, rfl⟩ := workingToOutage_spec h
  have hs := hI.shape
  have hjn := hs.jobsNodup w
  have hmn := hs.machNodup w
  have hbusy : m.st ≠ .idle := by rw [hst]; simp
  obtain ⟨hstore, op0, hp0, hm0, hstop0, _⟩ := busy_job hI hS w hm hbusy hj (hown _ htj)
  have : op0 = op := by rw [hp] at hp0; simpa using hp0.symm
  subst this
  have hocc : 0 ≤ occupiedFor outs := occupiedFor_new_nonneg nn.orc (nn.mout mc hmc) hout
  obtain ⟨l1, l2, hops, _, hopst⟩ := processing?_split' hp
  have hl1 : ∀ x ∈ l1, x.st = .done := OpsOK_prefix_done op0 (by rw [hopst]; simp) l2 l1 none (hops ▸ hS.ops j hj)
  have hl2 : allIdle l2 := OpsOK_after op0 (by rw [hopst]; simp) l2 l1 none hl1 (hops ▸ hS.ops j hj)
  have hkn := hs.ops_key_nodup w hj
  have hj'ops : (j.replaceOp { op0 with stop := some (s.time + occupiedFor outs) }).ops =
      l1 ++ { op0 with stop := some (s.time + occupiedFor outs) } :: l2 :=
    replaceOp_split j l1 op0 _ l2 hops hkn ⟨rfl, rfl⟩
  have memJ : ∀ x, x ∈ ((s.replaceMachine (m.toOutage outs (s.time + occupiedFor outs))).replaceJob
        (j.replaceOp { op0 with stop := some (s.time + occupiedFor outs) })).jobs ↔
      (x = j.replaceOp { op0 with stop := some (s.time + occupiedFor outs) } ∨ (x ∈ s.jobs ∧ x.id ≠ j.id)) := by
    intro x; exact mem_replaceJob (s := s.replaceMachine _) hjn hj (by simp) x
  have memM : ∀ y, y ∈ ((s.replaceMachine (m.toOutage outs (s.time + occupiedFor outs))).replaceJob
        (j.replaceOp { op0 with stop := some (s.time + occupiedFor outs) })).machines ↔
      (y = m.toOutage outs (s.time + occupiedFor outs) ∨ (y ∈ s.machines ∧ y.id ≠ m.id)) := by
    intro y; rw [replaceJob_machines]
    exact mem_replaceMachine hmn hm (by simp [MachineState.toOutage]) y
  have doneOld : ∀ x, x ∈ ((s.replaceMachine (m.toOutage outs (s.time + occupiedFor outs))).replaceJob
        (j.replaceOp { op0 with stop := some (s.time + occupiedFor outs) })).jobs → ∀ o ∈ x.ops, o.st = .done →
      ∃ x0 ∈ s.jobs, o ∈ x0.ops := by
    intro x hx o ho hst'
    rcases (memJ x).mp hx with rfl | ⟨hx0, _⟩
    · rw [hj'ops] at ho
      rcases List.mem_append.mp ho with ho | ho
      · exact ⟨j, hj, by rw [hops]; simp [ho]⟩
      · rcases List.mem_cons.mp ho with rfl | ho
        · simp [hopst] at hst'
        · exact absurd (hl2 o ho) (by rw [hst']; simp)
    · exact ⟨x, hx0, ho⟩
  have procNew : ∀ o, o ∈ l1 ++ { op0 with stop := some (s.time + occupiedFor outs) } :: l2 → o.st = .processing →
      o = { op0 with stop := some (s.time + occupiedFor outs) } := by
    intro o ho hp'
    rcases List.mem_append.mp ho with ho | ho
    · exact absurd (hl1 o ho) (by rw [hp']; simp)
    · rcases List.mem_cons.mp ho with rfl | ho
      · rfl
      · exact absurd (hl2 o ho) (by rw [hp']; simp)
  refine {
    idleEmpty := ?_, busyHolds := ?_, procOnBusy := ?_, ops := ?_, doneBeforeProc := ?_, doneDisjoint := ?_,
    agvPending := ?_, freeNoClaim := hS.freeNoClaim, depWaiting := hS.depWaiting }
  · intro y hy hyst
    rcases (memM y).mp hy with rfl | ⟨hy0, _⟩
    · simp [MachineState.toOutage] at hyst
    · exact hS.idleEmpty y hy0 hyst
  · intro y hy hyst
    rcases (memM y).mp hy with rfl | ⟨hy0, hyne⟩
    · refine ⟨_, (memJ _).mpr (Or.inl rfl), by simp [MachineState.toOutage, hstore], _,
        processing?_split hj'ops hl1 (by simp [hopst]), by simp [MachineState.toOutage, hm0],
        by simp [MachineState.toOutage], by simp [MachineState.toOutage]⟩
    · obtain ⟨j2, hj2, hst2, op2, hp2, h3, h4, h5⟩ := hS.busyHolds y hy0 hyst
      have hne : j2.id ≠ j.id := other_machine_other_job hI w hm hy0 hyne hstore hst2
      exact ⟨j2, (memJ j2).mpr (Or.inr ⟨hj2, hne⟩), hst2, op2, hp2, h3, h4, h5⟩
  · intro x hx o ho hp'
    rcases (memJ x).mp hx with rfl | ⟨hx0, hxne⟩
    · rw [hj'ops] at ho
      have := procNew o ho hp'
      subst this
      exact ⟨_, (memM _).mpr (Or.inl rfl), by simp [MachineState.toOutage, hm0], by simp [MachineState.toOutage],
        by simp [MachineState.toOutage, hstore]⟩
    · obtain ⟨m3, hm3, h1, h2, h3⟩ := hS.procOnBusy x hx0 o ho hp'
      have hne : m3.id ≠ m.id := by
        intro e
        have : m3 = m := eq_of_mem_of_key_eq (key := fun (z : MachineState) => z.id) hmn hm3 hm e
        subst this; rw [hstore] at h3; simp at h3; exact hxne h3.symm
      exact ⟨m3, (memM m3).mpr (Or.inr ⟨hm3, hne⟩), h1, h2, h3⟩
  · intro x hx
    simp only [replaceMachine_time, replaceJob_time]
    rcases (memJ x).mp hx with rfl | ⟨hx0, _⟩
    · rw [hj'ops]
      have := hS.ops j hj
      rw [hops] at this
      exact OpsOK_extend (b' := s.time + occupiedFor outs) (by omega) op0 hopst l2 l1 none hl1 this
    · exact hS.ops x hx0
  · intro j1 hj1 o1 ho1 j2 hj2 o2 ho2 hmm hd1 hp' b1 a2 hb1 ha2
    obtain ⟨x1, hx1, hox1⟩ := doneOld j1 hj1 o1 ho1 hd1
    rcases (memJ j2).mp hj2 with rfl | ⟨hj20, _⟩
    · rw [hj'ops] at ho2
      have := procNew o2 ho2 hp'
      subst this
      exact hS.doneBeforeProc x1 hx1 o1 hox1 j hj op0 (by rw [hops]; simp) hmm hd1 hopst b1 a2 hb1 ha2
    · exact hS.doneBeforeProc x1 hx1 o1 hox1 j2 hj20 o2 ho2 hmm hd1 hp' b1 a2 hb1 ha2
  · intro j1 hj1 o1 ho1 j2 hj2 o2 ho2 hmm hd1 hd2 hne
    obtain ⟨x1, hx1, hox1⟩ := doneOld j1 hj1 o1 ho1 hd1
    obtain ⟨x2, hx2, hox2⟩ := doneOld j2 hj2 o2 ho2 hd2
    exact hS.doneDisjoint x1 hx1 o1 hox1 x2 hx2 o2 hox2 hmm hd1 hd2 hne
  · intro t ht hst' o ho
    exact hS.agvPending t ht hst' o ho

theorem outageToIdle_sched (w : WF inst) {s s' : State} {r r' : Rng}
    {m : MachineState} (hI : StructInv inst s) (hS : SchedInv s) (hm : m ∈ s.machines) (hst : m.st = .outage)
    (h : handleMachineOutageToIdle inst s r m = .ok (s', r')) : SchedInv s' := by
  obtain ⟨j, op, mc, rest, bss1, bss2, hstore0, hj, hp, hmc, hmcid, hcap, _, rfl⟩ := outageToIdle_spec h
  have hs := hI.shape
  have hjn := hs.jobsNodup w
  have hmn := hs.machNodup w
  have hbusy : m.st ≠ .idle := by rw [hst]; simp
  obtain ⟨hstore, op0, hp0, hm0, hstop0, _⟩ := busy_job hI hS w hm hbusy hj (by rw [hstore0]; simp)
  have : op0 = op := by rw [hp] at hp0; simpa using hp0.symm
  subst this
  obtain ⟨l1, l2, hops, _, hopst⟩ := processing?_split' hp
  have hl1 : ∀ x ∈ l1, x.st = .done := OpsOK_prefix_done op0 (by rw [hopst]; simp) l2 l1 none (hops ▸ hS.ops j hj)
  have hl2 : allIdle l2 := OpsOK_after op0 (by rw [hopst]; simp) l2 l1 none hl1 (hops ▸ hS.ops j hj)
  have hkn := hs.ops_key_nodup w hj
  have hopmem : op0 ∈ j.ops := by rw [hops]; simp
  have hj'ops : ((j.replaceOp { op0 with stop := some s.time, st := .done }).at m.post.id).ops =
      l1 ++ { op0 with stop := some s.time, st := .done } :: l2 := by
    simp only [JobState.at_ops]
    exact replaceOp_split j l1 op0 _ l2 hops hkn ⟨rfl, rfl⟩
  have memJ : ∀ x, x ∈ ((s.replaceJob ((j.replaceOp { op0 with stop := some s.time, st := .done }).at m.post.id)).replaceMachine
        (m.toIdle j.id bss1 bss2)).jobs ↔
      (x = (j.replaceOp { op0 with stop := some s.time, st := .done }).at m.post.id ∨ (x ∈ s.jobs ∧ x.id ≠ j.id)) := by
    intro x; rw [replaceMachine_jobs]; exact mem_replaceJob hjn hj (by simp) x
  have memM : ∀ y, y ∈ ((s.replaceJob ((j.replaceOp { op0 with stop := some s.time, st := .done }).at m.post.id)).replaceMachine
        (m.toIdle j.id bss1 bss2)).machines ↔ (y = m.toIdle j.id bss1 bss2 ∨ (y ∈ s.machines ∧ y.id ≠ m.id)) := by
    intro y
    exact mem_replaceMachine (s := s.replaceJob _) hmn hm (by simp [MachineState.toIdle]) y
  -- every operation record of the new state is an old record, except the finished one
  have opOld : ∀ x, x ∈ ((s.replaceJob ((j.replaceOp { op0 with stop := some s.time, st := .done }).at m.post.id)).replaceMachine
        (m.toIdle j.id bss1 bss2)).jobs → ∀ o ∈ x.ops,
      o = { op0 with stop := some s.time, st := .done } ∨ (∃ x0 ∈ s.jobs, o ∈ x0.ops ∧ (x0.id = j.id → o.st ≠ .processing)) := by
    intro x hx o ho
    rcases (memJ x).mp hx with rfl | ⟨hx0, hxne⟩
    · rw [hj'ops] at ho
      rcases List.mem_append.mp ho with ho | ho
      · exact Or.inr ⟨j, hj, by rw [hops]; simp [ho], fun _ => by rw [hl1 o ho]; simp⟩
      · rcases List.mem_cons.mp ho with rfl | ho
        · exact Or.inl rfl
        · exact Or.inr ⟨j, hj, by rw [hops]; simp [ho], fun _ => by rw [hl2 o ho]; simp⟩
    · exact Or.inr ⟨x, hx0, ho, fun e => absurd e hxne⟩
  -- a processing operation on machine m belongs to job j
  have procOnM : ∀ x0 ∈ s.jobs, ∀ o ∈ x0.ops, o.st = .processing → o.machine = m.id → x0.id = j.id := by
    intro x0 hx0 o ho hpr hmid
    obtain ⟨m3, hm3, h1, _, h3⟩ := hS.procOnBusy x0 hx0 o ho hpr
    have : m3 = m := eq_of_mem_of_key_eq (key := fun (z : MachineState) => z.id) hmn hm3 hm (by rw [h1, hmid])
    subst this
    rw [hstore] at h3; simpa using h3.symm
  obtain ⟨a0, b0, ha0, hb0, _, hale, _⟩ := (OpsOK_mem _ _ (hS.ops j hj) op0 hopmem).2.1 hopst
  refine {
    idleEmpty := ?_, busyHolds := ?_, procOnBusy := ?_, ops := ?_, doneBeforeProc := ?_, doneDisjoint := ?_,
    agvPending := ?_, freeNoClaim := hS.freeNoClaim, depWaiting := hS.depWaiting }
  · intro y hy hyst
    rcases (memM y).mp hy with rfl | ⟨hy0, _⟩
    · simp [MachineState.toIdle, hstore]
    · exact hS.idleEmpty y hy0 hyst
  · intro y hy hyst
    rcases (memM y).mp hy with rfl | ⟨hy0, hyne⟩
    · simp [MachineState.toIdle] at hyst
    · obtain ⟨j2, hj2, hst2, op2, hp2, h3, h4, h5⟩ := hS.busyHolds y hy0 hyst
      have hne : j2.id ≠ j.id := other_machine_other_job hI w hm hy0 hyne hstore hst2
      exact ⟨j2, (memJ j2).mpr (Or.inr ⟨hj2, hne⟩), hst2, op2, hp2, h3, h4, h5⟩
  · intro x hx o ho hpr
    rcases (memJ x).mp hx with rfl | ⟨hx0, hxne⟩
    · rw [hj'ops] at ho
      rcases List.mem_append.mp ho with ho | ho
      · exact absurd (hl1 o ho) (by rw [hpr]; simp)
      · rcases List.mem_cons.mp ho with rfl | ho
        · simp at hpr
        · exact absurd (hl2 o ho) (by rw [hpr]; simp)
    · obtain ⟨m3, hm3, h1, h2, h3⟩ := hS.procOnBusy x hx0 o ho hpr
      have hne : m3.id ≠ m.id := by
        intro e
        have : m3 = m := eq_of_mem_of_key_eq (key := fun (z : MachineState) => z.id) hmn hm3 hm e
        subst this; rw [hstore] at h3; simp at h3; exact hxne h3.symm
      exact ⟨m3, (memM m3).mpr (Or.inr ⟨hm3, hne⟩), h1, h2, h3⟩
  · intro x hx
    simp only [replaceMachine_time, replaceJob_time]
    rcases (memJ x).mp hx with rfl | ⟨hx0, _⟩
    · rw [hj'ops]
      have := hS.ops j hj
      rw [hops] at this
      exact OpsOK_finish op0 hopst l2 l1 none hl1 this
    · exact hS.ops x hx0
  · intro j1 hj1 o1 ho1 j2 hj2 o2 ho2 hmm hd1 hpr b1 a2 hb1 ha2
    rcases opOld j2 hj2 o2 ho2 with rfl | ⟨x2, hx2, hox2, hnp2⟩
    · simp at hpr
    · rcases opOld j1 hj1 o1 ho1 with rfl | ⟨x1, hx1, hox1, _⟩
      · -- the freshly finished record against a running one on the same machine: impossible
        have : x2.id = j.id := procOnM x2 hx2 o2 hox2 hpr (by rw [← hmm]; exact hm0)
        exact absurd hpr (hnp2 this)
      · exact hS.doneBeforeProc x1 hx1 o1 hox1 x2 hx2 o2 hox2 hmm hd1 hpr b1 a2 hb1 ha2
  · intro j1 hj1 o1 ho1 j2 hj2 o2 ho2 hmm hd1 hd2 hne
    rcases opOld j1 hj1 o1 ho1 with rfl | ⟨x1, hx1, hox1, _⟩ <;>
      rcases opOld j2 hj2 o2 ho2 with rfl | ⟨x2, hx2, hox2, _⟩
    · exact absurd rfl hne
    · -- new done [a0, now] vs old done o2 on the same machine: o2 ended before op0 started
      intro a1 b1 a2 b2 h1 h2 h3 h4
      simp at h1 h2
      have := hS.doneBeforeProc x2 hx2 o2 hox2 j hj op0 hopmem hmm.symm hd2 hopst b2 a0 h4 ha0
      right; rw [ha0] at h1; simp at h1; omega
    · intro a1 b1 a2 b2 h1 h2 h3 h4
      simp at h3 h4
      have := hS.doneBeforeProc x1 hx1 o1 hox1 j hj op0 hopmem hmm hd1 hopst b1 a0 h2 ha0
      left; rw [ha0] at h3; simp at h3; omega
    · exact hS.doneDisjoint x1 hx1 o1 hox1 x2 hx2 o2 hox2 hmm hd1 hd2 hne
  · intro t ht hst' o ho
    exact hS.agvPending t ht hst' o ho

end JSL
