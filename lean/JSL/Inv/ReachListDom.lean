import JSL.Inv.ReachList

/-!
# List schedules dominate feasible schedules (C06, reachability side; model independent)

For a feasible schedule `T` of an instance with positive durations there is an order `π` whose list
schedule starts every operation no later than `T` does (`dominated_of_feasT`).  The order is built
greedily: as long as operations are left, the unplaced operation with the least `T`-start is the
next operation of its job (its job predecessors start strictly earlier), and placing it keeps the
list starts below the `T`-starts, because everything placed before it on its machine or in its job
starts no later in `T`, hence – `T` being feasible and durations positive – ends before it starts.
-/

namespace JSL

variable {inst : Instance}

/-! ## the number of unplaced operations -/

def remaining (inst : Instance) (ls : LS) : Nat := (inst.jobs.map fun jc => jc.ops.length - ls.cnt jc.id).sum

theorem rl_sum_map_le {α} (f g : α → Nat) : ∀ (l : List α), (∀ a ∈ l, g a ≤ f a) → (l.map g).sum ≤ (l.map f).sum
  | [], _ => Nat.le_refl _
  | x :: xs, h => by
    have h1 := h x (by simp)
    have h2 := rl_sum_map_le f g xs (fun a ha => h a (by simp [ha]))
    simp only [List.map_cons, List.sum_cons]
    omega

theorem rl_sum_map_lt {α} (f g : α → Nat) : ∀ (l : List α), (∀ a ∈ l, g a ≤ f a) → (∃ a ∈ l, g a < f a) →
    (l.map g).sum < (l.map f).sum
  | [], _, ⟨_, ha, _⟩ => by cases ha
  | x :: xs, h, ⟨a, ha, hlt⟩ => by
    have h1 := h x (by simp)
    have hxs : ∀ a ∈ xs, g a ≤ f a := fun a ha => h a (by simp [ha])
    simp only [List.map_cons, List.sum_cons]
    rcases List.mem_cons.mp ha with rfl | ha'
    · have := rl_sum_map_le f g xs hxs
      omega
    · have := rl_sum_map_lt f g xs hxs ⟨a, ha', hlt⟩
      omega

theorem remaining_place {ls : LS} {jc : JobCfg} (hjc : jc ∈ inst.jobs) (hlt : ls.cnt jc.id < jc.ops.length)
    (oc : OpCfg) : remaining inst (lsPlace ls jc.id oc) < remaining inst ls := by
  unfold remaining
  apply rl_sum_map_lt
  · intro a _
    simp only [lsPlace]
    split <;> omega
  · refine ⟨jc, hjc, ?_⟩
    simp only [lsPlace, if_true]
    omega

theorem exists_min {α} (f : α → Int) : ∀ (l : List α), l ≠ [] → ∃ x ∈ l, ∀ y ∈ l, f x ≤ f y
  | [], h => absurd rfl h
  | [x], _ => ⟨x, by simp, fun y hy => by simp at hy; subst hy; exact Int.le_refl _⟩
  | x :: x' :: xs, _ => by
    obtain ⟨m, hm, hmin⟩ := exists_min f (x' :: xs) (by simp)
    by_cases hx : f x ≤ f m
    · refine ⟨x, by simp, ?_⟩
      intro y hy
      rcases List.mem_cons.mp hy with rfl | hy'
      · exact Int.le_refl _
      · exact Int.le_trans hx (hmin y hy')
    · refine ⟨m, List.mem_cons_of_mem _ hm, ?_⟩
      intro y hy
      rcases List.mem_cons.mp hy with rfl | hy'
      · omega
      · exact hmin y hy'

theorem exists_min_unplaced (T : Nat → Nat → Int) (ls : LS) (h : ∃ oc, Unplaced inst ls oc) :
    ∃ m, Unplaced inst ls m ∧ ∀ y, Unplaced inst ls y → T m.job m.idx ≤ T y.job y.idx := by
  classical
  obtain ⟨oc, hoc⟩ := h
  have hU : ∀ x, x ∈ (allOps inst).filter (fun x => decide (Unplaced inst ls x)) ↔ Unplaced inst ls x := by
    intro x
    simp only [List.mem_filter, decide_eq_true_eq]
    exact ⟨fun h => h.2, fun h => ⟨h.mem, h⟩⟩
  obtain ⟨m, hm, hmin⟩ := exists_min (fun x : OpCfg => T x.job x.idx)
      ((allOps inst).filter (fun x => decide (Unplaced inst ls x))) (by
    intro e
    have := (hU oc).mpr hoc
    rw [e] at this
    cases this)
  exact ⟨m, (hU m).mp hm, fun y hy => hmin y ((hU y).mpr hy)⟩

/-! ## one greedy step -/

/-- the unplaced operation with the least `T`-start is the next operation of its job -/
theorem min_unplaced_next (hposd : ∀ oc ∈ allOps inst, 0 < oc.d) {T : Nat → Nat → Int} (hT : FeasT inst T) {ls : LS}
    {m : OpCfg} (hm : Unplaced inst ls m) (hmin : ∀ y, Unplaced inst ls y → T m.job m.idx ≤ T y.job y.idx) :
    ∃ jc ∈ inst.jobs, jc.ops[ls.cnt jc.id]? = some m := by
  obtain ⟨jc, hjc, k, hk, hmk⟩ := hm
  refine ⟨jc, hjc, ?_⟩
  by_cases e : k = ls.cnt jc.id
  · rw [← e]; exact hmk
  · exfalso
    have hklen := (List.getElem?_eq_some_iff.mp hmk).1
    have hlt : ls.cnt jc.id < jc.ops.length := by omega
    have ha : jc.ops[ls.cnt jc.id]? = some jc.ops[ls.cnt jc.id] := List.getElem?_eq_getElem hlt
    have hua : Unplaced inst ls jc.ops[ls.cnt jc.id] := ⟨jc, hjc, ls.cnt jc.id, Nat.le_refl _, ha⟩
    have h1 := hT.before_pos (fun oc hoc => Int.le_of_lt (hposd oc hoc)) hjc ha hmk (by omega)
    have h2 := hmin _ hua
    have h3 := hposd _ hua.mem
    omega

/-- what is kept by placing the unplaced operation with the least `T`-start -/
theorem dom_place (w : WF inst) (hposd : ∀ oc ∈ allOps inst, 0 < oc.d) {T : Nat → Nat → Int} (hT : FeasT inst T)
    {ls : LS} (hI : LInv inst ls)
    (hdom : ∀ x, Placed inst ls x → ls.st x.job x.idx ≤ T x.job x.idx)
    (hdc : ∀ x y, Placed inst ls x → Unplaced inst ls y → T x.job x.idx ≤ T y.job y.idx)
    {jc : JobCfg} (hjc : jc ∈ inst.jobs) {m : OpCfg} (hoc : jc.ops[ls.cnt jc.id]? = some m)
    (hmin : ∀ y, Unplaced inst ls y → T m.job m.idx ≤ T y.job y.idx) :
    (∀ x, Placed inst (lsPlace ls jc.id m) x → (lsPlace ls jc.id m).st x.job x.idx ≤ T x.job x.idx) ∧
    (∀ x y, Placed inst (lsPlace ls jc.id m) x → Unplaced inst (lsPlace ls jc.id m) y →
      T x.job x.idx ≤ T y.job y.idx) := by
  have hnn : ∀ oc ∈ allOps inst, 0 ≤ oc.d := fun oc hoc => Int.le_of_lt (hposd oc hoc)
  have hmm : m ∈ jc.ops := List.mem_of_getElem? hoc
  have hma : m ∈ allOps inst := mem_allOps hjc hmm
  have hmu : Unplaced inst ls m := ⟨jc, hjc, ls.cnt jc.id, Nat.le_refl _, hoc⟩
  have hjob : m.job = jc.id := w.opJob jc hjc m hmm
  constructor
  · intro x hx
    rcases placed_place w hjc hoc hx with h | rfl
    · rw [st_old w hjc hoc h]; exact hdom x h
    · rw [st_new w hjc hoc]
      have h0 := hT.nonneg x hma
      have hj : ls.jend jc.id ≤ T x.job x.idx := by
        rcases hI.jal jc.id with e | ⟨a, hpa, haj, e⟩
        · omega
        · obtain ⟨jc', hjc', k', hk', ha⟩ := hpa
          have := job_unique w hjc' hjc (by rw [← w.opJob jc' hjc' a (List.mem_of_getElem? ha), haj])
          subst this
          have h1 := hT.before_pos hnn hjc' ha hoc hk'
          have h2 := hdom a ⟨jc', hjc', k', hk', ha⟩
          omega
      have hmch : ls.mend x.machine ≤ T x.job x.idx := by
        rcases hI.mal x.machine with e | ⟨a, hpa, ham, e⟩
        · omega
        · have hne := placed_ne w hjc hoc hpa
          have hne' : (a.job, a.idx) ≠ (x.job, x.idx) := by
            intro e'
            have := Prod.mk.inj e'
            exact hne ⟨by rw [this.1, hjob], this.2⟩
          have h1 := hT.excl a hpa.mem x hma ham hne'
          have h2 := hdc a x hpa hmu
          have h3 := hdom a hpa
          have h4 := hposd x hma
          omega
      omega
  · intro x y hx hy
    have hy' := unplaced_place jc.id hy
    rcases placed_place w hjc hoc hx with h | rfl
    · exact hdc x y h hy'
    · exact hmin y hy'

/-! ## the greedy order -/

theorem dom_extend (w : WF inst) (hposd : ∀ oc ∈ allOps inst, 0 < oc.d) {T : Nat → Nat → Int} (hT : FeasT inst T) :
    ∀ (n : Nat) (π0 : List Nat), remaining inst (lsRun inst π0) ≤ n →
      (∀ jc ∈ inst.jobs, π0.count jc.id = (lsRun inst π0).cnt jc.id) →
      (∀ x, Placed inst (lsRun inst π0) x → (lsRun inst π0).st x.job x.idx ≤ T x.job x.idx) →
      (∀ x y, Placed inst (lsRun inst π0) x → Unplaced inst (lsRun inst π0) y → T x.job x.idx ≤ T y.job y.idx) →
      ∃ π, ValidOrder inst π ∧ ∀ oc ∈ allOps inst, listStarts inst π oc.job oc.idx ≤ T oc.job oc.idx := by
  have hnn : ∀ oc ∈ allOps inst, 0 ≤ oc.d := fun oc hoc => Int.le_of_lt (hposd oc hoc)
  intro n
  induction n with
  | zero =>
    intro π0 hrem hcnt hdom hdc
    have hI := LInv.run w hnn π0
    by_cases hU : ∃ oc, Unplaced inst (lsRun inst π0) oc
    · exfalso
      obtain ⟨m, hm, hmin⟩ := exists_min_unplaced T _ hU
      obtain ⟨jc, hjc, hoc⟩ := min_unplaced_next hposd hT hm hmin
      have := remaining_place hjc (List.getElem?_eq_some_iff.mp hoc).1 m
      omega
    · refine ⟨π0, ?_, ?_⟩
      · intro jc hjc
        rw [hcnt jc hjc]
        have h1 := hI.cntLe jc hjc
        by_cases hlt : (lsRun inst π0).cnt jc.id < jc.ops.length
        · exact absurd ⟨_, jc, hjc, _, Nat.le_refl _, List.getElem?_eq_getElem hlt⟩ hU
        · omega
      · intro oc hoc
        rcases placed_or_unplaced (lsRun inst π0) hoc with h | h
        · exact hdom oc h
        · exact absurd ⟨oc, h⟩ hU
  | succ n ih =>
    intro π0 hrem hcnt hdom hdc
    have hI := LInv.run w hnn π0
    by_cases hU : ∃ oc, Unplaced inst (lsRun inst π0) oc
    · obtain ⟨m, hm, hmin⟩ := exists_min_unplaced T _ hU
      obtain ⟨jc, hjc, hoc⟩ := min_unplaced_next hposd hT hm hmin
      have hr := remaining_place hjc (List.getElem?_eq_some_iff.mp hoc).1 m
      have e : lsRun inst (π0 ++ [jc.id]) = lsPlace (lsRun inst π0) jc.id m := by
        rw [lsRun_concat]
        unfold lsStep
        rw [findJob_mem w hjc]
        simp only [hoc]
      obtain ⟨h1, h2⟩ := dom_place w hposd hT hI hdom hdc hjc hoc hmin
      apply ih (π0 ++ [jc.id])
      · rw [e]; omega
      · intro jc' hjc'
        rw [e, List.count_append, hcnt jc' hjc']
        simp only [lsPlace, List.count_singleton]
        by_cases e' : jc'.id = jc.id
        · simp [e']
        · have : (jc.id == jc'.id) = false := by simpa using fun h => e' h.symm
          simp [e', this]
      · rw [e]; exact h1
      · rw [e]; exact h2
    · refine ⟨π0, ?_, ?_⟩
      · intro jc hjc
        rw [hcnt jc hjc]
        have h1 := hI.cntLe jc hjc
        by_cases hlt : (lsRun inst π0).cnt jc.id < jc.ops.length
        · exact absurd ⟨_, jc, hjc, _, Nat.le_refl _, List.getElem?_eq_getElem hlt⟩ hU
        · omega
      · intro oc hoc
        rcases placed_or_unplaced (lsRun inst π0) hoc with h | h
        · exact hdom oc h
        · exact absurd ⟨oc, h⟩ hU

/-- **Domination, abstract form**: for a feasible schedule `T` of an instance with positive durations
there is a valid order whose list schedule starts every operation no later than `T`. -/
theorem dominated_of_feasT (w : WF inst) (hposd : ∀ oc ∈ allOps inst, 0 < oc.d) {T : Nat → Nat → Int}
    (hT : FeasT inst T) :
    ∃ π, ValidOrder inst π ∧ ∀ oc ∈ allOps inst, listStarts inst π oc.job oc.idx ≤ T oc.job oc.idx := by
  have hno : ∀ oc, ¬ Placed inst (lsRun inst []) oc := by
    intro oc ⟨_, _, k, hk, _⟩
    simp [lsRun, LS.init] at hk
  apply dom_extend w hposd hT (remaining inst (lsRun inst [])) [] (Nat.le_refl _)
  · intro jc _; simp [lsRun, LS.init]
  · intro x hx; exact absurd hx (hno x)
  · intro x y hx; exact absurd hx (hno x)

end JSL
