import JSL.Inv.TimeMachine
import JSL.Inv.Outage
import JSL.Lib.StepSpec

/-!
# The clock of a finished episode is the end of the last finished operation
-/

namespace JSL

variable {orc : Oracle} {inst : Instance}

def Stamped (s : State) : Prop :=
  ∀ j ∈ s.jobs, ∀ o ∈ j.ops, o.st = .done → ∀ b, o.stop = some b → b ≤ s.time

theorem lastDoneEnd_bound {s : State} {x : Option Int} (h : lastDoneEnd s = .ok x) :
    Stamped (match x with | some e => { s with time := e } | none => s) := by
  unfold lastDoneEnd at h
  obtain ⟨ends, hm, h⟩ := except_bind_eq_ok h
  obtain ⟨hm1, _⟩ := mapM_ok_mem hm
  intro j hj o ho hd b hb
  have hmem : o ∈ (s.jobs.flatMap (·.ops)).filter (·.st == .done) := by
    cases x <;> exact List.mem_filter.mpr ⟨List.mem_flatMap.mpr ⟨j, hj, ho⟩, by simp [hd]⟩
  have hb' : ∃ y ∈ ends, b = y := by
    obtain ⟨y, hy, e⟩ := hm1 o (by cases x <;> exact hmem)
    refine ⟨y, hy, ?_⟩
    have hb2 : o.stop = some b := by cases x <;> exact hb
    rw [hb2] at e
    simpa [pure, Except.pure] using e
  obtain ⟨y, hy, rfl⟩ := hb'
  cases ends with
  | nil => cases hy
  | cons e es =>
    simp [pure, Except.pure] at h
    subst h
    show b ≤ es.foldl max e
    rcases List.mem_cons.mp hy with rfl | hy
    · exact foldl_max_ge es b
    · exact foldl_max_ge_mem es e b hy

/-- a step that reports `done` leaves the clock at or after the end of every finished operation -/
theorem smStep_done_stamp {cfg : SMConfig} {fuel : Nat} {s0 : State}
    {r : Rng} {a : Action} {res : SMResult} {r' : Rng} {mic : List State}
    (h : smStep orc inst cfg fuel s0 r a = .ok (res, r', mic)) (hd : res.done = true) : Stamped res.state := by
  unfold smStep at h
  simp only [bind, Except.bind, pure, Except.pure] at h
  repeat' split at h
  all_goals first
    | (simp at h; done)
    | (simp only [Except.ok.injEq, Prod.mk.injEq] at h
       obtain ⟨rfl, rfl, rfl⟩ := h
       first
         | (simp at hd; done)
         | (rename_i hl _; exact lastDoneEnd_bound hl)
         | (rename_i hl; exact lastDoneEnd_bound hl))

end JSL
