import JSL.Inv.RoutePass

/-!
# Travel: an operation never starts before its predecessor's end plus the travel time

`TravelInv`: for two consecutive operations `a`, `b` of a job, `a` finished at `e`, with a
constant travel time `d` configured from `a`'s machine to `b`'s machine: once `b` has started, it
started at `e + d` or later; before that, the job lies in the post-buffer of `a`'s machine, or on an
AGV that arrives no earlier than `e + d`, or in the pre-buffer of `b`'s machine at a time no earlier
than `e + d`.
-/

namespace JSL

variable {orc : Oracle} {inst : Instance}

/-- `a` and `b` are consecutive records of the list -/
def AdjL (l : List OpState) (a b : OpState) : Prop := ∃ l1 l2, l = l1 ++ a :: b :: l2

def detTravel (inst : Instance) (a b : OpState) (d : Int) : Prop :=
  travelCfg inst (.m a.machine) (.m b.machine) = some (.det d)

structure JobOK (inst : Instance) (s : State) (j : JobState) : Prop where
  start : ∀ a b, AdjL j.ops a b → a.st = .done → ∀ e, a.stop = some e → ∀ d, detTravel inst a b d →
    b.st ≠ .idle → ∀ x, b.start = some x → e + d ≤ x
  wait : ∀ a b, AdjL j.ops a b → a.st = .done → ∀ e, a.stop = some e → ∀ d, detTravel inst a b d → b.st = .idle →
    (∃ m ∈ s.machines, m.id = a.machine ∧ j.loc = m.post.id) ∨
    (∃ t ∈ s.transports, j.loc = t.buffer.id ∧ ∃ o, t.occ = .at o ∧ e + d ≤ o) ∨
    (∃ m ∈ s.machines, m.id = b.machine ∧ j.loc = m.pre.id ∧ e + d ≤ s.time)

def TravelInv (inst : Instance) (s : State) : Prop := ∀ j ∈ s.jobs, JobOK inst s j

/-! ## lists -/

theorem adjL_map {f : OpState → OpState} {l : List OpState} {a' b' : OpState} (h : AdjL (l.map f) a' b') :
    ∃ a b, AdjL l a b ∧ a' = f a ∧ b' = f b := by
  obtain ⟨l1', l2', e⟩ := h
  obtain ⟨l1, r, rfl, _, hr⟩ := List.map_eq_append_iff.mp e
  obtain ⟨a, r1, rfl, ha, hr1⟩ := List.map_eq_cons_iff.mp hr
  obtain ⟨b, r2, rfl, hb, _⟩ := List.map_eq_cons_iff.mp hr1
  exact ⟨a, b, ⟨l1, r2, rfl⟩, ha.symm, hb.symm⟩

theorem adjL_mem {l : List OpState} {a b : OpState} (h : AdjL l a b) : a ∈ l ∧ b ∈ l := by
  obtain ⟨l1, l2, rfl⟩ := h; simp

/-- before a finished record everything is finished -/
theorem OpsOK_split_done {now : Int} : ∀ (l1 : List OpState) (prev : Option Int) (a : OpState) (rest : List OpState),
    OpsOK now prev (l1 ++ a :: rest) → a.st = .done → (∀ x ∈ l1, x.st = .done) ∧ ∃ p, OpsOK now p (a :: rest)
  | [], prev, a, rest, h, _ => ⟨by simp, prev, h⟩
  | o :: os, prev, a, rest, h, ha => by
    cases hst : o.st with
    | done =>
      simp only [List.cons_append, OpsOK, hst] at h
      obtain ⟨_, b, _, _, _, _, _, h6⟩ := h
      obtain ⟨h1, h2⟩ := OpsOK_split_done os (some b) a rest h6 ha
      exact ⟨fun x hx => by rcases List.mem_cons.mp hx with rfl | hx; exact hst; exact h1 x hx, h2⟩
    | processing =>
      simp only [List.cons_append, OpsOK, hst] at h
      obtain ⟨_, _, _, _, _, _, _, _, hi⟩ := h
      have := hi a (by simp)
      rw [ha] at this; cases this
    | idle =>
      simp only [List.cons_append, OpsOK, hst] at h
      have := h a (by simp)
      rw [ha] at this; cases this
    | transport =>
      simp only [List.cons_append, OpsOK, hst] at h

/-- a finished record followed by an idle one: nothing of the job is in progress, and the idle
record is both the next idle and the next unfinished one -/
theorem OpsOK_adj_done_idle {now : Int} {l : List OpState} (h : OpsOK now none l) {a b : OpState} (hadj : AdjL l a b)
    (ha : a.st = .done) (hb : b.st = .idle) :
    (∀ o ∈ l, o.st ≠ .processing) ∧ l.find? (·.st == .idle) = some b ∧ l.find? (·.st != .done) = some b := by
  obtain ⟨l1, l2, rfl⟩ := hadj
  obtain ⟨h1, p, h2⟩ := OpsOK_split_done l1 none a (b :: l2) h ha
  simp only [OpsOK, ha] at h2
  obtain ⟨_, e, _, _, _, _, _, h3⟩ := h2
  simp only [OpsOK, hb] at h3
  refine ⟨?_, ?_, ?_⟩
  · intro o ho
    simp only [List.mem_append, List.mem_cons] at ho
    rcases ho with ho | rfl | rfl | ho
    · rw [h1 o ho]; simp
    · rw [ha]; simp
    · rw [hb]; simp
    · rw [h3 o ho]; simp
  · rw [List.find?_append]
    have : l1.find? (·.st == .idle) = none := by
      apply List.find?_eq_none.mpr; intro x hx; rw [h1 x hx]; simp
    rw [this]; simp [List.find?_cons, ha, hb]
  · rw [List.find?_append]
    have : l1.find? (·.st != .done) = none := by
      apply List.find?_eq_none.mpr; intro x hx; rw [h1 x hx]; simp
    rw [this]; simp [List.find?_cons, ha, hb]

/-- a finished record followed by an unfinished one: that one is the next unfinished record -/
theorem OpsOK_adj_done_next {now : Int} {l : List OpState} (h : OpsOK now none l) {a b : OpState} (hadj : AdjL l a b)
    (ha : a.st = .done) (hb : b.st ≠ .done) : l.find? (·.st != .done) = some b := by
  obtain ⟨l1, l2, rfl⟩ := hadj
  obtain ⟨h1, _, _⟩ := OpsOK_split_done l1 none a (b :: l2) h ha
  rw [List.find?_append]
  have : l1.find? (·.st != .done) = none := by
    apply List.find?_eq_none.mpr; intro x hx; rw [h1 x hx]; simp
  rw [this]; simp [List.find?_cons, ha, hb]

/-- the buffers of two machines of a state have different ids -/
theorem flatMap_nodup_owner {α β} {f : α → List β} : ∀ {l : List α}, (l.flatMap f).Nodup →
    ∀ {a b : α}, a ∈ l → b ∈ l → ∀ x, x ∈ f a → x ∈ f b → a = b
  | [], _, _, _, ha, _, _, _, _ => by cases ha
  | m :: ms, hnd, a, b, ha, hb, x, hxa, hxb => by
    simp only [List.flatMap_cons] at hnd
    obtain ⟨_, h2, h3⟩ := List.nodup_append.mp hnd
    rcases List.mem_cons.mp ha with rfl | ha'
    · rcases List.mem_cons.mp hb with rfl | hb'
      · rfl
      · exact absurd rfl (h3 x hxa x (List.mem_flatMap.mpr ⟨b, hb', hxb⟩))
    · rcases List.mem_cons.mp hb with rfl | hb'
      · exact absurd rfl (h3 x hxb x (List.mem_flatMap.mpr ⟨a, ha', hxa⟩))
      · exact flatMap_nodup_owner h2 ha' hb' x hxa hxb

theorem machine_of_buf_id (w : WF inst) {s : State} (hs : Shape inst s) {m1 m2 : MachineState}
    (h1 : m1 ∈ s.machines) (h2 : m2 ∈ s.machines) {x : Nat}
    (hx1 : x = m1.pre.id ∨ x = m1.buffer.id ∨ x = m1.post.id) (hx2 : x = m2.pre.id ∨ x = m2.buffer.id ∨ x = m2.post.id) :
    m1 = m2 := by
  have hnd := hs.bufNodup w
  unfold allBufStates at hnd
  simp only [List.map_append, List.map_flatMap] at hnd
  have h := (List.nodup_append.mp (List.nodup_append.mp hnd).1).2.1
  apply flatMap_nodup_owner h h1 h2 x
  · simp only [List.map_cons, List.map_nil, List.mem_cons, List.not_mem_nil, or_false]; exact hx1
  · simp only [List.map_cons, List.map_nil, List.mem_cons, List.not_mem_nil, or_false]; exact hx2

theorem machine_transfer {s s' : State} (hs : Shape inst s) (hs' : Shape inst s') {m : MachineState} (hm : m ∈ s.machines) :
    ∃ m' ∈ s'.machines, mKey m' = mKey m := by
  have e : s.machines.map mKey = s'.machines.map mKey := by rw [hs.machines, hs'.machines]
  obtain ⟨m', hm', e'⟩ := mem_of_map_eq e hm
  exact ⟨m', hm', e'.symm⟩

/-! ## one job -/

/-- a job none of whose data changed keeps its clauses when machines keep their keys, the clock
does not go back, and the AGV it may lie on keeps its arrival time -/
theorem JobOK.keep {s s' : State} {j : JobState} (h : JobOK inst s j) (htime : s.time ≤ s'.time)
    (hm : ∀ m ∈ s.machines, ∃ m' ∈ s'.machines, mKey m' = mKey m)
    (ht : ∀ t ∈ s.transports, j.loc = t.buffer.id → ∃ t' ∈ s'.transports, t'.buffer.id = t.buffer.id ∧ t'.occ = t.occ) :
    JobOK inst s' j := by
  refine ⟨h.start, ?_⟩
  intro a b hadj ha e he d hd hb
  rcases h.wait a b hadj ha e he d hd hb with ⟨m, hm', e1, e2⟩ | ⟨t, ht', e1, o, e2, e3⟩ | ⟨m, hm', e1, e2, e3⟩
  · obtain ⟨m', hm'', k⟩ := hm m hm'
    simp only [mKey, Prod.mk.injEq] at k
    exact Or.inl ⟨m', hm'', by rw [k.1, e1], by rw [k.2.2.2, e2]⟩
  · obtain ⟨t', ht'', k1, k2⟩ := ht t ht' e1
    exact Or.inr (Or.inl ⟨t', ht'', by rw [k1, e1], o, by rw [k2, e2], e3⟩)
  · obtain ⟨m', hm'', k⟩ := hm m hm'
    simp only [mKey, Prod.mk.injEq] at k
    exact Or.inr (Or.inr ⟨m', hm'', by rw [k.1, e1], by rw [k.2.1, e2], by omega⟩)

theorem adjL_key_ne {l : List OpState} {a b : OpState} (h : AdjL l a b) (hnd : (l.map (fun o => (o.job, o.idx))).Nodup) :
    ¬ (a.job = b.job ∧ a.idx = b.idx) := by
  obtain ⟨l1, l2, rfl⟩ := h
  simp only [List.map_append, List.map_cons] at hnd
  have h2 := (List.nodup_append.mp hnd).2.1
  have h3 := (List.nodup_cons.mp h2).1
  intro hk
  apply h3
  simp [hk.1, hk.2]

/-- the record of the job's next operation is replaced by one in progress (start of setup, start
of processing, extension by an outage) -/
theorem JobOK.replace_proc (w : WF inst) {s s' : State} (hI : StructInv inst s) {j J' : JobState} {target rec : OpState}
    (hj : j ∈ s.jobs) (hops : OpsOK s.time none j.ops) (h : JobOK inst s j)
    (htm : target ∈ j.ops) (hkey : rec.job = target.job ∧ rec.idx = target.idx) (hmach : rec.machine = target.machine)
    (hst : rec.st = .processing)
    (hstart : ∀ x, rec.start = some x → x = s.time ∨ (target.st = .processing ∧ target.start = some x))
    (hnext : j.nextNotDone? = some target ∨ target.st = .processing)
    (hpre : target.st = .idle → ∃ m0 ∈ s.machines, j.loc = m0.pre.id)
    (hJ : J'.ops = (j.replaceOp rec).ops) : JobOK inst s' J' := by
  have hs := hI.shape
  -- the map replaces exactly `target`
  have hf : ∀ x ∈ j.ops, (if (x.job == rec.job && x.idx == rec.idx) = true then rec else x) = rec ∧ x = target ∨
      (if (x.job == rec.job && x.idx == rec.idx) = true then rec else x) = x ∧ ¬ (x.job = rec.job ∧ x.idx = rec.idx) := by
    intro x hx
    by_cases hk : x.job = rec.job ∧ x.idx = rec.idx
    · left
      refine ⟨by simp [hk.1, hk.2], ?_⟩
      exact key_unique_in_job w hI hj hx htm ⟨by rw [hk.1, hkey.1], by rw [hk.2, hkey.2]⟩
    · right
      refine ⟨?_, hk⟩
      have : (x.job == rec.job && x.idx == rec.idx) = false := by
        simp only [Bool.and_eq_false_iff, beq_eq_false_iff_ne]
        by_cases h1 : x.job = rec.job
        · right; intro h2; exact hk ⟨h1, h2⟩
        · left; exact h1
      simp [this]
  constructor
  · intro a' b' hadj ha' e he d hd hb' x hx
    rw [hJ] at hadj
    obtain ⟨a, b, hab, rfl, rfl⟩ := adjL_map hadj
    obtain ⟨hma, hmb⟩ := adjL_mem hab
    rcases hf a hma with ⟨e1, _⟩ | ⟨e1, _⟩
    · rw [e1, hst] at ha'; cases ha'
    · rw [e1] at ha' he hd
      rcases hf b hmb with ⟨e2, rfl⟩ | ⟨e2, _⟩
      · rw [e2] at hx hd
        have hd' : detTravel inst a b d := by unfold detTravel at hd ⊢; rw [← hmach]; exact hd
        have hfacts := OpsOK_mem _ _ hops b hmb
        cases hbs : b.st with
        | idle =>
          obtain ⟨m0, hm0, hloc⟩ := hpre hbs
          rcases h.wait a b hab ha' e he d hd' hbs with ⟨m, hm, _, e2'⟩ | ⟨t, ht, e1', _⟩ | ⟨m, hm, _, _, e3⟩
          · have : m = m0 := machine_of_buf_id w hs hm hm0 (x := j.loc) (Or.inr (Or.inr e2')) (Or.inl hloc)
            subst this
            exact absurd (hloc.symm.trans e2') (machine_buf_ids_ne hs w hm).2.1
          · exact absurd (hloc.symm.trans e1') ((ids_parts hs w).2.2 m0 hm0 t ht).1
          · rcases hstart x hx with rfl | ⟨hp, _⟩
            · exact e3
            · rw [hbs] at hp; cases hp
        | processing =>
          obtain ⟨x0, y0, hx0, _, _, hle, _⟩ := hfacts.2.1 hbs
          have := h.start a b hab ha' e he d hd' (by rw [hbs]; simp) x0 hx0
          rcases hstart x hx with rfl | ⟨_, hx'⟩
          · omega
          · rw [hx0] at hx'; simp at hx'; omega
        | done =>
          obtain ⟨x0, y0, hx0, _, h1, h2⟩ := hfacts.1 hbs
          have := h.start a b hab ha' e he d hd' (by rw [hbs]; simp) x0 hx0
          rcases hstart x hx with rfl | ⟨hp, _⟩
          · omega
          · rw [hbs] at hp; cases hp
        | transport => exact absurd hbs hfacts.2.2
      · rw [e2] at hb' hx hd
        exact h.start a b hab ha' e he d hd hb' x hx
  · intro a' b' hadj ha' e he d hd hb'
    rw [hJ] at hadj
    obtain ⟨a, b, hab, rfl, rfl⟩ := adjL_map hadj
    obtain ⟨hma, hmb⟩ := adjL_mem hab
    exfalso
    rcases hf a hma with ⟨e1, _⟩ | ⟨e1, _⟩
    · rw [e1, hst] at ha'; cases ha'
    · rw [e1] at ha'
      rcases hf b hmb with ⟨e2, _⟩ | ⟨e2, hnk⟩
      · rw [e2, hst] at hb'; cases hb'
      · rw [e2] at hb'
        obtain ⟨hnp, _, hfind⟩ := OpsOK_adj_done_idle hops hab ha' hb'
        rcases hnext with hn | hn
        · unfold JobState.nextNotDone? at hn
          rw [hfind] at hn
          simp at hn; subst hn
          exact hnk ⟨hkey.1.symm, hkey.2.symm⟩
        · exact hnp target htm hn

/-- after a record in progress only idle records follow -/
theorem OpsOK_adj_proc_idle {now : Int} {l : List OpState} (h : OpsOK now none l) {a b : OpState} (hadj : AdjL l a b)
    (ha : a.st = .processing) : b.st = .idle := by
  obtain ⟨l1, l2, rfl⟩ := hadj
  have h1 := OpsOK_prefix_done a (by rw [ha]; simp) (b :: l2) l1 none h
  have h2 := OpsOK_after a (by rw [ha]; simp) (b :: l2) l1 none h1 h
  exact h2 b (by simp)

/-- the record in progress is finished now and the job put into the post-buffer of its machine -/
theorem JobOK.replace_done (w : WF inst) {s s' : State} (hI : StructInv inst s) {j J' : JobState} {target : OpState}
    (hj : j ∈ s.jobs) (hops : OpsOK s.time none j.ops) (h : JobOK inst s j)
    (htm : target ∈ j.ops) (htp : target.st = .processing)
    (hJ : J'.ops = (j.replaceOp { target with stop := some s.time, st := .done }).ops)
    (hloc : ∃ m' ∈ s'.machines, m'.id = target.machine ∧ J'.loc = m'.post.id) : JobOK inst s' J' := by
  have hf : ∀ x ∈ j.ops,
      (if (x.job == target.job && x.idx == target.idx) = true then { target with stop := some s.time, st := .done } else x) =
          { target with stop := some s.time, st := .done } ∧ x = target ∨
      (if (x.job == target.job && x.idx == target.idx) = true then { target with stop := some s.time, st := .done } else x) = x ∧
          x ≠ target := by
    intro x hx
    by_cases hk : x.job = target.job ∧ x.idx = target.idx
    · left
      exact ⟨by simp [hk.1, hk.2], key_unique_in_job w hI hj hx htm hk⟩
    · right
      refine ⟨?_, fun e => hk (by rw [e]; exact ⟨rfl, rfl⟩)⟩
      have : (x.job == target.job && x.idx == target.idx) = false := by
        simp only [Bool.and_eq_false_iff, beq_eq_false_iff_ne]
        by_cases h1 : x.job = target.job
        · right; intro h2; exact hk ⟨h1, h2⟩
        · left; exact h1
      simp [this]
  have hnd := hI.shape.ops_key_nodup w hj
  constructor
  · intro a' b' hadj ha' e he d hd hb' x hx
    rw [hJ] at hadj
    simp only [JobState.replaceOp] at hadj
    obtain ⟨a, b, hab, rfl, rfl⟩ := adjL_map hadj
    obtain ⟨hma, hmb⟩ := adjL_mem hab
    rcases hf a hma with ⟨e1, rfl⟩ | ⟨e1, hne⟩
    · -- the finished record is followed by an idle one
      exfalso
      have hbi := OpsOK_adj_proc_idle hops hab htp
      rcases hf b hmb with ⟨_, rfl⟩ | ⟨e2, _⟩
      · exact adjL_key_ne hab hnd ⟨rfl, rfl⟩
      · rw [e2] at hb'; exact hb' hbi
    · rw [e1] at ha' he hd
      rcases hf b hmb with ⟨e2, rfl⟩ | ⟨e2, _⟩
      · rw [e2] at hx hd
        exact h.start a b hab ha' e he d hd (by rw [htp]; simp) x hx
      · rw [e2] at hb' hx hd
        exact h.start a b hab ha' e he d hd hb' x hx
  · intro a' b' hadj ha' e he d hd hb'
    rw [hJ] at hadj
    simp only [JobState.replaceOp] at hadj
    obtain ⟨a, b, hab, rfl, rfl⟩ := adjL_map hadj
    obtain ⟨hma, hmb⟩ := adjL_mem hab
    rcases hf a hma with ⟨e1, rfl⟩ | ⟨e1, _⟩
    · obtain ⟨m', hm', e1', e2'⟩ := hloc
      exact Or.inl ⟨m', hm', by rw [e1, e1'], e2'⟩
    · exfalso
      rw [e1] at ha'
      rcases hf b hmb with ⟨e2, _⟩ | ⟨e2, _⟩
      · rw [e2] at hb'; cases hb'
      · rw [e2] at hb'
        exact (OpsOK_adj_done_idle hops hab ha' hb').1 target htm htp

/-! ## where a job is -/

theorem loc_in_store (w : WF inst) {s : State} (hI : StructInv inst s) {j : JobState} (hj : j ∈ s.jobs) {b : BufState}
    (hb : b ∈ allBufStates s) (h : j.loc = b.id) : j.id ∈ b.store := by
  have := hI.cons.located (j.id, j.loc) (List.mem_map.mpr ⟨j, hj, rfl⟩)
  simp only at this
  rw [h, storeAt_of_mem (hI.shape.bufNodup w) hb] at this
  exact this

theorem stored_loc (w : WF inst) {s : State} (hI : StructInv inst s) {j : JobState} (hj : j ∈ s.jobs) {b : BufState}
    (hb : b ∈ allBufStates s) (h : j.id ∈ b.store) : j.loc = b.id := by
  have hst : j.id ∈ storeAt s b.id := by rw [storeAt_of_mem (hI.shape.bufNodup w) hb]; exact h
  have := hI.cons.stored b.id j.id hst
  obtain ⟨j', hj', e⟩ := List.mem_map.mp this
  simp only [Prod.mk.injEq] at e
  have : j' = j := eq_of_mem_of_key_eq (key := fun (y : JobState) => y.id) (hI.shape.jobsNodup w) hj' hj e.1
  rw [← this]; exact e.2

/-- the AGV in whose buffer a job lies is in transit and has claimed it -/
theorem carrier_claims (w : WF inst) {s : State} (hI : StructInv inst s) (hP : AgvFull inst s) {j : JobState} (hj : j ∈ s.jobs)
    {t : TransportState} (ht : t ∈ s.transports) (h : j.loc = t.buffer.id) : t.st = .transit ∧ t.job = some j.id := by
  have hin := loc_in_store w hI hj (mem_allBufs_of_transport ht) h
  have hst : t.st = .transit := by
    apply Classical.byContradiction
    intro hne
    have := hP.agv.empty t ht hne
    rw [this] at hin; cases hin
  exact ⟨hst, hP.route.transitOwn t ht hst j.id hin⟩

/-- the job is picked up: it lies on the AGV now, which arrives after the travel time -/
theorem JobOK.pickup (w : WF inst) {s s' : State} (hI : StructInv inst s) (hP : AgvFull inst s) {j : JobState}
    {t0 t' : TransportState} (hj : j ∈ s.jobs) (hops : OpsOK s.time none j.ops) (h : JobOK inst s j)
    (ht0 : t0 ∈ s.transports) (hst : t0.st ≠ .transit) (hclaim : t0.job = some j.id)
    {src dst : Loc} {tt : Int} {r r' : Rng}
    (hsrc : (∃ fb ∈ s.buffers, fb.id = j.loc) ∨
      (∃ ms ∈ s.machines, src = .m ms.id ∧ (j.loc = ms.pre.id ∨ j.loc = ms.buffer.id ∨ j.loc = ms.post.id)))
    (hdst : dropOK inst j JobState.nextNotDone? dst)
    (htt : travelTimeFromSpec orc inst r src dst = .ok (tt, r'))
    (ht' : t' ∈ s'.transports) (hb : t'.buffer.id = t0.buffer.id) (hocc : t'.occ = .at (s.time + tt)) :
    JobOK inst s' (j.at t0.buffer.id) := by
  have hs := hI.shape
  refine ⟨h.start, ?_⟩
  intro a b hadj ha e he d hd hbi
  have hadj' : AdjL j.ops a b := hadj
  obtain ⟨_, _, hfind⟩ := OpsOK_adj_done_idle hops hadj' ha hbi
  have hle : e ≤ s.time := by
    obtain ⟨x0, y0, _, hy0, _, h2⟩ := (OpsOK_mem _ _ hops a (adjL_mem hadj').1).1 ha
    rw [he] at hy0; simp at hy0; omega
  rcases h.wait a b hadj' ha e he d hd hbi with ⟨m, hm, e1, e2⟩ | ⟨t, ht, e1, _⟩ | ⟨m, hm, _, e2, _⟩
  · -- in the post-buffer of `a`'s machine: the source is that machine, the destination `b`'s
    have hsrc' : src = .m a.machine := by
      rcases hsrc with ⟨fb, hfb, e3⟩ | ⟨ms, hms, e3, e4⟩
      · exact absurd (e3.trans e2) ((ids_parts hs w).1 fb hfb m hm).2.2
      · have : ms = m := machine_of_buf_id w hs hms hm (x := j.loc) e4 (Or.inr (Or.inr e2))
        rw [e3, this, e1]
    have hdst' : dst = .m b.machine := by
      rcases hdst with ⟨hno, _⟩ | ⟨_, op, hop, e3⟩
      · exfalso
        unfold JobState.noOpIdle at hno
        have := List.all_eq_true.mp hno b (adjL_mem hadj').2
        rw [hbi] at this; simp at this
      · unfold JobState.nextNotDone? at hop
        rw [hfind] at hop
        simp at hop; subst hop; exact e3
    have : tt = d := by
      rw [hsrc', hdst'] at htt
      unfold travelTimeFromSpec at htt
      unfold detTravel at hd
      simp only [hd, TimeCfg.updRead, except_pure, Except.ok.injEq, Prod.mk.injEq] at htt
      exact htt.1.symm
    exact Or.inr (Or.inl ⟨t', ht', by simp [JobState.at, hb], s.time + tt, hocc, by omega⟩)
  · exfalso
    obtain ⟨h1, h2⟩ := carrier_claims w hI hP hj ht e1
    have hid := hP.agv.unique t ht t0 ht0 j.id h2 hclaim
    have : t = t0 := eq_of_mem_of_key_eq (key := fun (y : TransportState) => y.id) (hs.trNodup w) ht ht0 hid
    rw [this] at h1; exact hst h1
  · exfalso
    have hin := loc_in_store w hI hj (mem_allBufs_of_machine hm).1 e2
    exact hP.route.preUnclaimed m hm j.id hin t0 ht0 hclaim

/-- the job is delivered into the pre-buffer of the machine of its next operation -/
theorem JobOK.deliver (w : WF inst) {s s' : State} (hI : StructInv inst s) (hP : AgvFull inst s) {j : JobState}
    {t0 : TransportState} {ms ms' : MachineState} (hj : j ∈ s.jobs) (hops : OpsOK s.time none j.ops) (h : JobOK inst s j)
    (ht0 : t0 ∈ s.transports) (hin : j.id ∈ t0.buffer.store) (hms : ms ∈ s.machines)
    {cur : Loc} {pick : Nat} (hloc : t0.loc = .route cur pick (.m ms.id))
    (hdue : ∀ o, t0.occ = .at o → o ≤ s.time)
    (hms' : ms' ∈ s'.machines) (hk : mKey ms' = mKey ms) (htime : s.time ≤ s'.time) :
    JobOK inst s' (j.at ms.pre.id) := by
  have hs := hI.shape
  refine ⟨h.start, ?_⟩
  intro a b hadj ha e he d hd hbi
  have hadj' : AdjL j.ops a b := hadj
  obtain ⟨_, hfind, _⟩ := OpsOK_adj_done_idle hops hadj' ha hbi
  have hjl := stored_loc w hI hj (mem_allBufs_of_transport ht0) hin
  obtain ⟨hst0, hown0⟩ := carrier_claims w hI hP hj ht0 hjl
  simp only [mKey, Prod.mk.injEq] at hk
  -- the destination is the machine of `b`
  have hmb : ms.id = b.machine := by
    obtain ⟨c, p, dr, e1, hdrop⟩ := hP.route.route t0 ht0 j.id hown0 j hj rfl
    rw [hloc] at e1
    simp only [TLoc.route.injEq] at e1
    rcases hdrop with ⟨_, o, _, e3⟩ | ⟨_, op, hop, e3⟩
    · rw [← e1.2.2] at e3; cases e3
    · unfold JobState.nextIdle? at hop
      rw [hfind] at hop
      simp at hop; subst hop
      rw [← e1.2.2] at e3
      simpa using e3
  rcases h.wait a b hadj' ha e he d hd hbi with ⟨m, hm, _, e2⟩ | ⟨t, ht, e1, o, e2, e3⟩ | ⟨m, hm, _, e2, _⟩
  · exact absurd (e2.symm.trans hjl) ((ids_parts hs w).2.2 m hm t0 ht0).2.2
  · obtain ⟨_, h2⟩ := carrier_claims w hI hP hj ht e1
    have hid := hP.agv.unique t ht t0 ht0 j.id h2 hown0
    have : t = t0 := eq_of_mem_of_key_eq (key := fun (y : TransportState) => y.id) (hs.trNodup w) ht ht0 hid
    subst this
    have := hdue o e2
    exact Or.inr (Or.inr ⟨ms', hms', by rw [hk.1, hmb], by simp [JobState.at, hk.2.1], by omega⟩)
  · exact absurd (e2.symm.trans hjl) ((ids_parts hs w).2.2 m hm t0 ht0).1

/-- a job delivered to an output buffer has no idle operation: nothing to wait for -/
theorem JobOK.deliver_out {s s' : State} {j : JobState} (h : JobOK inst s j) (hno : j.noOpIdle = true) (l : Nat) :
    JobOK inst s' (j.at l) := by
  refine ⟨h.start, ?_⟩
  intro a b hadj _ _ _ _ _ hbi
  exfalso
  have hadj' : AdjL j.ops a b := hadj
  unfold JobState.noOpIdle at hno
  have := List.all_eq_true.mp hno b (adjL_mem hadj').2
  rw [hbi] at this; simp at this

/-! ## one transition -/

/-- batch side condition: a delivery is due, and nothing earlier in the batch sends the same AGV off -/
structure ArrGS (s : State) (L : List Transition) : Prop where
  due : ∀ tr ∈ L, tr.new = .t .outage → ∀ t ∈ s.transports, tr.comp = .t t.id → t.st = .transit →
    ∀ o, t.occ = .at o → o ≤ s.time
  order : L.Pairwise (fun a b => b.new = .t .outage → a.comp = b.comp → a.new = .t .waitingpickup)

theorem ArrGS.tail {s : State} {tr : Transition} {R : List Transition} (h : ArrGS s (tr :: R)) : ArrGS s R :=
  ⟨fun t ht => h.due t (by simp [ht]), (List.pairwise_cons.mp h.order).2⟩

/-- what one AGV transition does, in enough detail for the travel invariant -/
inductive AgvEffectT (orc : Oracle) (inst : Instance) (s s' : State) (r : Rng) (tr : Transition) (t0 t' : TransportState) : Prop
  | still : t0.st ≠ .transit → t'.st ≠ .transit → s'.jobs = s.jobs → AgvEffectT orc inst s s' r tr t0 t'
  | pickup (j : JobState) (src dst : Loc) (tt : Int) (r1 : Rng) : tr.new = .t .transit → t0.st ≠ .transit →
      j ∈ s.jobs → tr.job = some j.id → dropOK inst j JobState.nextNotDone? dst →
      travelTimeFromSpec orc inst r src dst = .ok (tt, r1) →
      ((∃ fb ∈ s.buffers, fb.id = j.loc) ∨
        (∃ ms ∈ s.machines, src = .m ms.id ∧ (j.loc = ms.pre.id ∨ j.loc = ms.buffer.id ∨ j.loc = ms.post.id))) →
      t'.occ = .at (s.time + tt) → s'.jobs = (s.replaceJob (j.at t0.buffer.id)).jobs → AgvEffectT orc inst s s' r tr t0 t'
  | deliverM (j : JobState) (cur : Loc) (pick : Nat) (ms : MachineState) : tr.new = .t .outage →
      t0.loc = .route cur pick (.m ms.id) → ms ∈ s.machines → j ∈ s.jobs → j.id ∈ t0.buffer.store →
      s'.jobs = (s.replaceJob (j.at ms.pre.id)).jobs → AgvEffectT orc inst s s' r tr t0 t'
  | deliverB (j : JobState) (cur : Loc) (pick : Nat) (b : BufState) : tr.new = .t .outage →
      t0.loc = .route cur pick (.b b.id) → j ∈ s.jobs → j.id ∈ t0.buffer.store →
      s'.jobs = (s.replaceJob (j.at b.id)).jobs → AgvEffectT orc inst s s' r tr t0 t'

theorem agv_effectT {s s' : State} {r r' : Rng} {tr : Transition} {tid : Nat}
    (hc : tr.comp = .t tid) (h : applyTransition orc inst s r tr = .ok (s', r')) :
    ∃ t0 t', t0 ∈ s.transports ∧ t0.id = tid ∧ t'.id = t0.id ∧ t'.buffer.id = t0.buffer.id ∧
      s'.transports = (s.replaceTransport t').transports ∧
      (tr.new = .t .waitingpickup → t'.st ≠ .transit) ∧ AgvEffectT orc inst s s' r tr t0 t' := by
  unfold applyTransition at h
  simp only [hc] at h
  obtain ⟨t0, ht0, h⟩ := except_bind_eq_ok h
  unfold handleTransportTransition at h
  obtain ⟨t, ht, h⟩ := except_bind_eq_ok h
  rw [ht0] at ht; simp at ht; subst ht
  have hmem := getTransport_ok ht0
  obtain ⟨tc, _, h⟩ := except_bind_eq_ok h
  split at h
  · simp at h
  · obtain ⟨hd, hh, h⟩ := except_bind_eq_ok h
    unfold agvHandlerOf at hh
    cases hn : tr.new with
    | m ns => simp [hn] at hh
    | t ns =>
      simp only [hn] at hh
      cases hah : agvHandler t0.st ns with
      | none => simp [hah] at hh
      | some hd' =>
        simp [hah] at hh; subst hh
        cases hd' with
        | idleToWorking =>
          have hst := agvHandler_idleToWorking hah
          obtain ⟨j, cur, target, src, bc, c, _, _, _, _, _, _, _, _, _, rfl⟩ := idleToWorking_spec h
          exact ⟨t0, t0.toPickup cur bc.id target (s.time + c.cur orc r) j.id, hmem.1, hmem.2, rfl, rfl, rfl,
            (fun _ => by simp [TransportState.toPickup]), .still (by rw [hst.1]; simp) (by simp [TransportState.toPickup]) rfl⟩
        | pickupToWaitingpickup =>
          have hst := agvHandler_pickupToWaiting hah
          obtain ⟨occ, _, _, _, rfl⟩ := pickupToWaiting_spec h
          exact ⟨t0, t0.toWaiting occ, hmem.1, hmem.2, rfl, rfl, rfl, (fun _ => by simp [TransportState.toWaiting]),
            .still (by rw [hst.2]; simp) (by simp [TransportState.toWaiting]) rfl⟩
        | waitingPickupToWaitingPickup =>
          have hst := agvHandler_waitingToWaiting hah
          obtain ⟨occ, _, _, rfl⟩ := waitingToWaiting_spec h
          exact ⟨t0, t0.toWaiting occ, hmem.1, hmem.2, rfl, rfl, rfl, (fun _ => by simp [TransportState.toWaiting]),
            .still (by rw [hst.2]; simp) (by simp [TransportState.toWaiting]) rfl⟩
        | outageToIdle =>
          have hst := agvHandler_outageToIdle hah
          obtain ⟨_, rfl⟩ := agvOutageToIdle_spec h
          exact ⟨t0, t0.toIdle, hmem.1, hmem.2, rfl, rfl, rfl, (fun _ => by simp [TransportState.toIdle]),
            .still (by rw [hst.1]; simp) (by simp [TransportState.toIdle]) rfl⟩
        | pickupToTransit =>
          have hst := agvHandler_pickupToTransit hah
          have hnt : t0.st ≠ .transit := by rcases hst.2 with e | e <;> rw [e] <;> simp
          obtain ⟨j, src, dst, tt, bss1, bss2, hj, htj, hdrop, htt, _, hcase⟩ := pickupToTransit_spec h
          refine ⟨t0, t0.toTransit (s.time + tt) j.id bss2, hmem.1, hmem.2, rfl, rfl, ?_,
            (fun e => by rw [hst.1] at e; cases e), ?_⟩
          · rcases hcase with ⟨fb, _, _, _, _, _, rfl⟩ | ⟨mid, ms, bs, ms', _, _, _, _, _, _, _, rfl⟩ <;> rfl
          · rcases hcase with ⟨fb, _, _, hfb, hfid, _, rfl⟩ | ⟨mid, ms, bs, ms', e1, _, hms, e2, hbs, _, _, rfl⟩
            · exact .pickup j src dst tt r' (by rw [hn, hst.1]) hnt hj htj hdrop htt (Or.inl ⟨fb, hfb, hfid⟩) rfl rfl
            · refine .pickup j src dst tt r' (by rw [hn, hst.1]) hnt hj htj hdrop htt (Or.inr ⟨ms, hms, by rw [e1, e2], ?_⟩) rfl rfl
              obtain ⟨hid, hwhich⟩ := bufOfMachine_ok hbs
              rcases hwhich with rfl | rfl | rfl
              · exact Or.inl hid.symm
              · exact Or.inr (Or.inl hid.symm)
              · exact Or.inr (Or.inr hid.symm)
        | transitToOutage =>
          have hst := agvHandler_transitToOutage hah
          obtain ⟨j, cur, pick, drop, tc, outs, bss1, bss2, hj, _, hloc, hin, _, _, _, hcase⟩ := transitToOutage_spec h
          refine ⟨t0, t0.toOutage j.id bss1 outs (s.time + occupiedFor outs) drop, hmem.1, hmem.2, rfl, rfl, ?_,
            (fun e => by rw [hst.1] at e; cases e), ?_⟩
          · rcases hcase with ⟨mid, ms, _, _, _, _, rfl⟩ | ⟨bid, b, _, _, _, _, rfl⟩ <;> rfl
          · rcases hcase with ⟨mid, ms, e1, hms, e2, _, rfl⟩ | ⟨bid, b, e1, hb, e2, _, rfl⟩
            · subst e2
              exact .deliverM j cur pick ms (by rw [hn, hst.1]) (by rw [hloc, e1]) hms hj hin rfl
            · subst e2
              exact .deliverB j cur pick b (by rw [hn, hst.1]) (by rw [hloc, e1]) hj hin rfl

/-- **One transition keeps the travel invariant** and the arrival guard of the rest of the batch. -/
theorem applyTransition_travel (w : WF inst) {s s' : State} {r r' : Rng} {tr : Transition} {R : List Transition}
    (hI : StructInv inst s) (hS : SchedInv s) (hP : AgvFull inst s) (hT : TravelInv inst s)
    (hv : transitionValid s tr = .ok true) (hsafe : Safe s (tr :: R)) (hgs : FullGS s (tr :: R)) (harr : ArrGS s (tr :: R))
    (h : applyTransition orc inst s r tr = .ok (s', r')) : TravelInv inst s' ∧ ArrGS s' R := by
  have hI' := applyTransition_struct w hI hv h
  have htime := applyTransition_time h
  have hs := hI.shape
  have hjn := hs.jobsNodup w
  have hmt : ∀ m ∈ s.machines, ∃ m' ∈ s'.machines, mKey m' = mKey m := fun m hm => machine_transfer hs hI'.shape hm
  have h0 := h
  cases hc : tr.comp with
  | b bid =>
    unfold applyTransition at h
    simp only [hc] at h
    obtain ⟨_, _, h⟩ := except_bind_eq_ok h
    simp at h
  | m mid =>
    have htr := (machine_effect w hI hc h0).2.1
    refine ⟨?_, ?_⟩
    · -- all jobs but one are untouched
      have keep : ∀ j' ∈ s.jobs, JobOK inst s' j' := fun j' hj' =>
        (hT j' hj').keep (by omega) hmt (fun t ht _ => ⟨t, by rw [htr]; exact ht, rfl, rfl⟩)
      have one : ∀ (j J' : JobState), j ∈ s.jobs → J'.id = j.id → s'.jobs = (s.replaceJob J').jobs → JobOK inst s' J' →
          TravelInv inst s' := by
        intro j J' hj hid hjobs hJ j' hj'
        rw [hjobs] at hj'
        rcases (mem_replaceJob hjn hj hid j').mp hj' with rfl | ⟨hj0, _⟩
        · exact hJ
        · exact keep j' hj0
      unfold applyTransition at h
      unfold transitionValid at hv
      simp only [hc] at h hv
      obtain ⟨m0, hm0, h⟩ := except_bind_eq_ok h
      obtain ⟨mv, hmv, hv⟩ := except_bind_eq_ok hv
      rw [hm0] at hmv; simp at hmv; subst hmv
      unfold handleMachineTransition at h
      obtain ⟨m, hm, h⟩ := except_bind_eq_ok h
      rw [hm0] at hm; simp at hm; subst hm
      have hmem := getMachine_ok hm0
      obtain ⟨hd, hh, h⟩ := except_bind_eq_ok h
      unfold machineHandlerOf at hh
      cases hn : tr.new with
      | t ns => simp [hn] at hh
      | m ns =>
        simp only [hn] at hh
        cases hmh : machineHandler m0.st ns with
        | none => simp [hmh] at hh
        | some hd' =>
          simp [hmh] at hh; subst hh
          cases hd' with
          | idleToSetup =>
            have hst := machineHandler_idleToSetup hmh
            obtain ⟨j, op, oc, mc, sd, b1, b2, hj, htj, hjpre, hnn, _, hocj, hoci, _, _, _, _, rfl⟩ := idleToSetup_spec h
            have hmach := valid_machine_job hjn hv (by simp [hst.1]) (by simp [hst.1]) j hj htj op hnn
            have hopm : op ∈ j.ops := (find?_mem_ops hnn).1
            have hjl := stored_loc w hI hj (mem_allBufs_of_machine hmem.1).1 hjpre
            apply one j ((j.replaceOp (opRec oc s.time (s.time + sd) m0.id)).at m0.buffer.id) hj rfl rfl
            exact (hT j hj).replace_proc w hI hj (hS.ops j hj) hopm ⟨by simp [opRec, hocj], by simp [opRec, hoci]⟩
              (by simp [opRec, hmach]) (by simp [opRec]) (fun x hx => Or.inl (by simpa [opRec] using hx.symm)) (Or.inl hnn)
              (fun _ => ⟨m0, hmem.1, hjl⟩) rfl
          | setupToWorking =>
            have hst := machineHandler_setupToWorking hmh
            obtain ⟨j, op, oc, d, hj, htj, hjin, hnn, _, hocj, hoci, _, rfl⟩ := setupToWorking_spec h
            have hmach := valid_machine_job hjn hv (by simp [hst.1]) (by simp [hst.1]) j hj htj op hnn
            have hopm : op ∈ j.ops := (find?_mem_ops hnn).1
            have hbusy : m0.st ≠ .idle := by rw [hst.1]; simp
            obtain ⟨_, op0, hp0, _, _, _⟩ := busy_job hI hS w hmem.1 hbusy hj hjin
            have hop0 : op0 = op := by
              have := nextNotDone_of_processing (hS.ops j hj) hp0
              rw [hnn] at this; simpa using this.symm
            subst hop0
            obtain ⟨_, _, _, _, hpst⟩ := processing?_split' hp0
            apply one j (j.replaceOp (opRec oc s.time (s.time + d) m0.id)) hj rfl rfl
            exact (hT j hj).replace_proc w hI hj (hS.ops j hj) hopm ⟨by simp [opRec, hocj], by simp [opRec, hoci]⟩
              (by simp [opRec, hmach]) (by simp [opRec]) (fun x hx => Or.inl (by simpa [opRec] using hx.symm)) (Or.inl hnn)
              (fun hi => by rw [hpst] at hi; cases hi) rfl
          | workingToOutage =>
            obtain ⟨mc, outs, j, op, _, _, _, hj, htj, hp, rfl⟩ := workingToOutage_spec h
            obtain ⟨_, _, hl, _, hpst⟩ := processing?_split' hp
            have hopm : op ∈ j.ops := by rw [hl]; simp
            apply one j (j.replaceOp { op with stop := some (s.time + occupiedFor outs) }) hj rfl rfl
            exact (hT j hj).replace_proc (rec := { op with stop := some (s.time + occupiedFor outs) }) w hI hj (hS.ops j hj) hopm
              ⟨rfl, rfl⟩ rfl (by simp [hpst])
              (fun x hx => Or.inr ⟨hpst, hx⟩) (Or.inr hpst) (fun hi => by rw [hpst] at hi; cases hi) rfl
          | outageToIdle =>
            obtain ⟨j, op, mc, rest, b1, b2, hstore, hj, hp, _, _, _, _, rfl⟩ := outageToIdle_spec h
            have hst := machineHandler_outageToIdle hmh
            have hjin : j.id ∈ m0.buffer.store := by rw [hstore]; simp
            have hbusy : m0.st ≠ .idle := by rw [hst.1]; simp
            obtain ⟨_, op0, hp0, hm0', _, _⟩ := busy_job hI hS w hmem.1 hbusy hj hjin
            rw [hp] at hp0; simp at hp0; subst hp0
            obtain ⟨_, _, hl, _, hpst⟩ := processing?_split' hp
            have hopm : op ∈ j.ops := by rw [hl]; simp
            obtain ⟨m', hm', hk⟩ := hmt m0 hmem.1
            simp only [mKey, Prod.mk.injEq] at hk
            apply one j ((j.replaceOp { op with stop := some s.time, st := .done }).at m0.post.id) hj rfl rfl
            exact (hT j hj).replace_done w hI hj (hS.ops j hj) hopm hpst rfl
              ⟨m', hm', by rw [hk.1, hm0'], by simp [JobState.at, hk.2.2.2]⟩
    · refine ⟨?_, harr.tail.order⟩
      intro b hb hn t ht hcb hst o ho
      rw [htr] at ht; rw [htime]
      exact harr.due b (by simp [hb]) hn t ht hcb hst o ho
  | t tid =>
    obtain ⟨t0, t', ht0, hid0, hid', hbid, htr, hwait, heff⟩ := agv_effectT hc h0
    have htn := hs.trNodup w
    have ht'mem : t' ∈ s'.transports := by
      rw [htr]; exact (mem_replaceTransport htn ht0 hid' t').mpr (Or.inl rfl)
    -- an AGV other than the acting one is untouched
    have other : ∀ t ∈ s.transports, t.id ≠ t0.id → t ∈ s'.transports := by
      intro t ht hne
      rw [htr]; exact (mem_replaceTransport htn ht0 hid' t).mpr (Or.inr ⟨ht, hne⟩)
    -- a job not lying on the acting AGV keeps its clauses
    have keep : ∀ j' ∈ s.jobs, j'.loc ≠ t0.buffer.id → JobOK inst s' j' := by
      intro j' hj' hne
      refine (hT j' hj').keep (by omega) hmt ?_
      intro t ht hl
      by_cases e : t.id = t0.id
      · have : t = t0 := eq_of_mem_of_key_eq (key := fun (y : TransportState) => y.id) htn ht ht0 e
        subst this; exact absurd hl hne
      · exact ⟨t, other t ht e, rfl, rfl⟩
    refine ⟨?_, ?_⟩
    · cases heff with
      | still hst0 _ hjobs =>
        intro j' hj'
        rw [hjobs] at hj'
        apply keep j' hj'
        intro hl
        exact hst0 (carrier_claims w hI hP hj' ht0 hl).1
      | pickup j src dst tt r1 hn hst0 hj htj hdrop htt hsrc hocc hjobs =>
        have hclaim : t0.job = some j.id := by
          have := hgs.route.own tr (by simp) hn t0 ht0 (by rw [hc, hid0])
          rw [← this]; exact htj
        intro j' hj'
        rw [hjobs] at hj'
        rcases (mem_replaceJob hjn hj (by simp [JobState.at]) j').mp hj' with rfl | ⟨hj0, _⟩
        · exact (hT j hj).pickup w hI hP hj (hS.ops j hj) ht0 hst0 hclaim hsrc hdrop htt ht'mem hbid hocc
        · apply keep j' hj0
          intro hl
          exact hst0 (carrier_claims w hI hP hj0 ht0 hl).1
      | deliverM j cur pick ms hn hloc hms hj hin hjobs =>
        have hjl := stored_loc w hI hj (mem_allBufs_of_transport ht0) hin
        obtain ⟨hst0, hown0⟩ := carrier_claims w hI hP hj ht0 hjl
        obtain ⟨ms', hms', hk⟩ := hmt ms hms
        intro j' hj'
        rw [hjobs] at hj'
        rcases (mem_replaceJob hjn hj (by simp [JobState.at]) j').mp hj' with rfl | ⟨hj0, hne⟩
        · exact (hT j hj).deliver w hI hP hj (hS.ops j hj) ht0 hin hms hloc
            (fun o ho => harr.due tr (by simp) hn t0 ht0 (by rw [hc, hid0]) hst0 o ho) hms' hk (by omega)
        · apply keep j' hj0
          intro hl
          have := (carrier_claims w hI hP hj0 ht0 hl).2
          rw [hown0] at this
          simp at this
          exact hne this.symm
      | deliverB j cur pick b hn hloc hj hin hjobs =>
        have hjl := stored_loc w hI hj (mem_allBufs_of_transport ht0) hin
        obtain ⟨hst0, hown0⟩ := carrier_claims w hI hP hj ht0 hjl
        have hno : j.noOpIdle = true := by
          obtain ⟨c, p, dr, e1, hdrop⟩ := hP.route.route t0 ht0 j.id hown0 j hj rfl
          rw [hloc] at e1
          simp only [TLoc.route.injEq] at e1
          rcases hdrop with ⟨hno, _⟩ | ⟨_, op, _, e3⟩
          · exact hno
          · rw [← e1.2.2] at e3; cases e3
        intro j' hj'
        rw [hjobs] at hj'
        rcases (mem_replaceJob hjn hj (by simp [JobState.at]) j').mp hj' with rfl | ⟨hj0, hne⟩
        · exact (hT j hj).deliver_out hno _
        · apply keep j' hj0
          intro hl
          have := (carrier_claims w hI hP hj0 ht0 hl).2
          rw [hown0] at this
          simp at this
          exact hne this.symm
    · refine ⟨?_, harr.tail.order⟩
      intro b hb hn t ht hcb hst o ho
      rw [htime]
      rw [htr] at ht
      rcases (mem_replaceTransport htn ht0 hid' t).mp ht with rfl | ⟨ht1, hne⟩
      · -- the acting AGV: only a "keep waiting" may precede its delivery in the batch
        exfalso
        have hord := (List.pairwise_cons.mp harr.order).1 b hb hn (by rw [hc, hcb, hid', hid0])
        exact hwait hord hst
      · exact harr.due b (by simp [hb]) hn t ht1 hcb hst o ho

end JSL
