import JSL.Inv.RoutePass

/-!
# Travel: an operation never starts before its predecessor's end plus the travel time

`TravelInv`: for two consecutive operations `a`, `b` of a job, `a` finished at `e`, with a
constant travel time `d` configured from `a`'s machine to `b`'s machine: once `b` has started, it
started at `e + d` or later; before that, the job lies in the post-buffer of `a`'s machine, or on an
AGV that arrives no earlier than `e + d`, or in the pre-buffer of `b`'s machine at a time no earlier
than `e + d`.
-/

namespace JSL

variable {orc : Oracle} {inst : Instance}

/-- `a` and `b` are consecutive records of the list -/
def AdjL (l : List OpState) (a b : OpState) : Prop := ∃ l1 l2, l = l1 ++ a :: b :: l2

def detTravel (inst : Instance) (a b : OpState) (d : Int) : Prop :=
  travelCfg inst (.m a.machine) (.m b.machine) = some (.det d)

structure JobOK (inst : Instance) (s : State) (j : JobState) : Prop where
  start : ∀ a b, AdjL j.ops a b → a.st = .done → ∀ e, a.stop = some e → ∀ d, detTravel inst a b d →
    b.st ≠ .idle → ∀ x, b.start = some x → e + d ≤ x
  wait : ∀ a b, AdjL j.ops a b → a.st = .done → ∀ e, a.stop = some e → ∀ d, detTravel inst a b d → b.st = .idle →
    (∃ m ∈ s.machines, m.id = a.machine ∧ j.loc = m.post.id) ∨
    (∃ t ∈ s.transports, j.loc = t.buffer.id ∧ ∃ o, t.occ = .at o ∧ e + d ≤ o) ∨
    (∃ m ∈ s.machines, m.id = b.machine ∧ j.loc = m.pre.id ∧ e + d ≤ s.time)

def TravelInv (inst : Instance) (s : State) : Prop := ∀ j ∈ s.jobs, JobOK inst s j

/-! ## lists -/

theorem adjL_map {f : OpState → OpState} {l : List OpState} {a' b' : OpState} (h : AdjL (l.map f) a' b') :
    ∃ a b, AdjL l a b ∧ a' = f a ∧ b' = f b := by
  obtain ⟨l1', l2', e⟩ := h
  obtain ⟨l1, r, rfl, _, hr⟩ := List.map_eq_append_iff.mp e
  obtain ⟨a, r1, rfl, ha, hr1⟩ := List.map_eq_cons_iff.mp hr
  obtain ⟨b, r2, rfl, hb, _⟩ := List.map_eq_cons_iff.mp hr1
  exact ⟨a, b, ⟨l1, r2, rfl⟩, ha.symm, hb.symm⟩

theorem adjL_mem {l : List OpState} {a b : OpState} (h : AdjL l a b) : a ∈ l ∧ b ∈ l := by
  obtain ⟨l1, l2, rfl⟩ := h; simp

/-- before a finished record everything is finished -/
theorem OpsOK_split_done {now : Int} : ∀ (l1 : List OpState) (prev : Option Int) (a : OpState) (rest : List OpState),
    OpsOK now prev (l1 ++ a :: rest) → a.st = .done → (∀ x ∈ l1, x.st = .done) ∧ ∃ p, OpsOK now p (a :: rest)
  | [], prev, a, rest, h, _ => ⟨by simp, prev, h⟩
  | o :: os, prev, a, rest, h, ha => by
    cases hst : o.st with
    | done =>
      simp only [List.cons_append, OpsOK, hst] at h
      obtain ⟨_, b, _, _, _, _, _, h6⟩ := h
      obtain ⟨h1, h2⟩ := OpsOK_split_done os (some b) a rest h6 ha
      exact ⟨fun x hx => by rcases List.mem_cons.mp hx with rfl | hx; exact hst; exact h1 x hx, h2⟩
    | processing =>
      simp only [List.cons_append, OpsOK, hst] at h
      obtain ⟨_, _, _, _, _, _, _, _, hi⟩ := h
      have := hi a (by simp)
      rw [ha] at this; cases this
    | idle =>
      simp only [List.cons_append, OpsOK, hst] at h
      have := h a (by simp)
      rw [ha] at this; cases this
    | transport =>
      simp only [List.cons_append, OpsOK, hst] at h

/-- a finished record followed by an idle one: nothing of the job is in progress, and the idle
record is both the next idle and the next unfinished one -/
theorem OpsOK_adj_done_idle {now : Int} {l : List OpState} (h : OpsOK now none l) {a b : OpState} (hadj : AdjL l a b)
    (ha : a.st = .done) (hb : b.st = .idle) :
    (∀ o ∈ l, o.st ≠ .processing) ∧ l.find? (·.st == .idle) = some b ∧ l.find? (·.st != .done) = some b := by
  obtain ⟨l1, l2, rfl⟩ := hadj
  obtain ⟨h1, p, h2⟩ := OpsOK_split_done l1 none a (b :: l2) h ha
  simp only [OpsOK, ha] at h2
  obtain ⟨_, e, _, _, _, _, _, h3⟩ := h2
  simp only [OpsOK, hb] at h3
  refine ⟨?_, ?_, ?_⟩
  · intro o ho
    simp only [List.mem_append, List.mem_cons] at ho
    rcases ho with ho | rfl | rfl | ho
    · rw [h1 o ho]; simp
    · rw [ha]; simp
    · rw [hb]; simp
    · rw [h3 o ho]; simp
  · rw [List.find?_append]
    have : l1.find? (·.st == .idle) = none := by
      apply List.find?_eq_none.mpr; intro x hx; rw [h1 x hx]; simp
    rw [this]; simp [List.find?_cons, ha, hb]
  · rw [List.find?_append]
    have : l1.find? (·.st != .done) = none := by
      apply List.find?_eq_none.mpr; intro x hx; rw [h1 x hx]; simp
    rw [this]; simp [List.find?_cons, ha, hb]

/-- a finished record followed by an unfinished one: that one is the next unfinished record -/
theorem OpsOK_adj_done_next {now : Int} {l : List OpState} (h : OpsOK now none l) {a b : OpState} (hadj : AdjL l a b)
    (ha : a.st = .done) (hb : b.st ≠ .done) : l.find? (·.st != .done) = some b := by
  obtain ⟨l1, l2, rfl⟩ := hadj
  obtain ⟨h1, _, _⟩ := OpsOK_split_done l1 none a (b :: l2) h ha
  rw [List.find?_append]
  have : l1.find? (·.st != .done) = none := by
    apply List.find?_eq_none.mpr; intro x hx; rw [h1 x hx]; simp
  rw [this]; simp [List.find?_cons, ha, hb]

/-- the buffers of two machines of a state have different ids -/
theorem flatMap_nodup_owner {α β} {f : α → List β} : ∀ {l : List α}, (l.flatMap f).Nodup →
    ∀ {a b : α}, a ∈ l → b ∈ l → ∀ x, x ∈ f a → x ∈ f b → a = b
  | [], _, _, _, ha, _, _, _, _ => by cases ha
  | m :: ms, hnd, a, b, ha, hb, x, hxa, hxb => by
    simp only [List.flatMap_cons] at hnd
    obtain ⟨_, h2, h3⟩ := List.nodup_append.mp hnd
    rcases List.mem_cons.mp ha with rfl | ha'
    · rcases List.mem_cons.mp hb with rfl | hb'
      · rfl
      · exact absurd rfl (h3 x hxa x (List.mem_flatMap.mpr ⟨b, hb', hxb⟩))
    · rcases List.mem_cons.mp hb with rfl | hb'
      · exact absurd rfl (h3 x hxb x (List.mem_flatMap.mpr ⟨a, ha', hxa⟩))
      · exact flatMap_nodup_owner h2 ha' hb' x hxa hxb

theorem machine_of_buf_id (w : WF inst) {s : State} (hs : Shape inst s) {m1 m2 : MachineState}
    (h1 : m1 ∈ s.machines) (h2 : m2 ∈ s.machines) {x : Nat}
    (hx1 : x = m1.pre.id ∨ x = m1.buffer.id ∨ x = m1.post.id) (hx2 : x = m2.pre.id ∨ x = m2.buffer.id ∨ x = m2.post.id) :
    m1 = m2 := by
  have hnd := hs.bufNodup w
  unfold allBufStates at hnd
  simp only [List.map_append, List.map_flatMap] at hnd
  have h := (List.nodup_append.mp (List.nodup_append.mp hnd).1).2.1
  apply flatMap_nodup_owner h h1 h2 x
  · simp only [List.map_cons, List.map_nil, List.mem_cons, List.not_mem_nil, or_false]; exact hx1
  · simp only [List.map_cons, List.map_nil, List.mem_cons, List.not_mem_nil, or_false]; exact hx2

theorem machine_transfer {s s' : State} (hs : Shape inst s) (hs' : Shape inst s') {m : MachineState} (hm : m ∈ s.machines) :
    ∃ m' ∈ s'.machines, mKey m' = mKey m := by
  have e : s.machines.map mKey = s'.machines.map mKey := by rw [hs.machines, hs'.machines]
  obtain ⟨m', hm', e'⟩ := mem_of_map_eq e hm
  exact ⟨m', hm', e'.symm⟩

/-! ## one job -/

/-- a job none of whose data changed keeps its clauses when machines keep their keys, the clock
does not go back, and the AGV it may lie on keeps its arrival time -/
theorem JobOK.keep {s s' : State} {j : JobState} (h : JobOK inst s j) (htime : s.time ≤ s'.time)
    (hm : ∀ m ∈ s.machines, ∃ m' ∈ s'.machines, mKey m' = mKey m)
    (ht : ∀ t ∈ s.transports, j.loc = t.buffer.id → ∃ t' ∈ s'.transports, t'.buffer.id = t.buffer.id ∧ t'.occ = t.occ) :
    JobOK inst s' j := by
  refine ⟨h.start, ?_⟩
  intro a b hadj ha e he d hd hb
  rcases h.wait a b hadj ha e he d hd hb with ⟨m, hm', e1, e2⟩ | ⟨t, ht', e1, o, e2, e3⟩ | ⟨m, hm', e1, e2, e3⟩
  · obtain ⟨m', hm'', k⟩ := hm m hm'
    simp only [mKey, Prod.mk.injEq] at k
    exact Or.inl ⟨m', hm'', by rw [k.1, e1], by rw [k.2.2.2, e2]⟩
  · obtain ⟨t', ht'', k1, k2⟩ := ht t ht' e1
    exact Or.inr (Or.inl ⟨t', ht'', by rw [k1, e1], o, by rw [k2, e2], e3⟩)
  · obtain ⟨m', hm'', k⟩ := hm m hm'
    simp only [mKey, Prod.mk.injEq] at k
    exact Or.inr (Or.inr ⟨m', hm'', by rw [k.1, e1], by rw [k.2.1, e2], by omega⟩)

theorem adjL_key_ne {l : List OpState} {a b : OpState} (h : AdjL l a b) (hnd : (l.map (fun o => (o.job, o.idx))).Nodup) :
    ¬ (a.job = b.job ∧ a.idx = b.idx) := by
  obtain ⟨l1, l2, rfl⟩ := h
  simp only [List.map_append, List.map_cons] at hnd
  have h2 := (List.nodup_append.mp hnd).2.1
  have h3 := (List.nodup_cons.mp h2).1
  intro hk
  apply h3
  simp [hk.1, hk.2]

/-- the record of the job's next operation is replaced by one in progress (start of setup, start
of processing, extension by an outage) -/
theorem JobOK.replace_proc (w : WF inst) {s s' : State} (hI : StructInv inst s) {j J' : JobState} {target rec : OpState}
    (hj : j ∈ s.jobs) (hops : OpsOK s.time none j.ops) (h : JobOK inst s j)
    (htm : target ∈ j.ops) (hkey : rec.job = target.job ∧ rec.idx = target.idx) (hmach : rec.machine = target.machine)
    (hst : rec.st = .processing)
    (hstart : ∀ x, rec.start = some x → x = s.time ∨ (target.st = .processing ∧ target.start = some x))
    (hnext : j.nextNotDone? = some target ∨ target.st = .processing)
    (hpre : target.st = .idle → ∃ m0 ∈ s.machines, j.loc = m0.pre.id)
    (hJ : J'.ops = (j.replaceOp rec).ops) : JobOK inst s' J' := by
  have hs := hI.shape
  -- the map replaces exactly `target`
  have hf : ∀ x ∈ j.ops, (if (x.job == rec.job && x.idx == rec.idx) = true then rec else x) = rec ∧ x = target ∨
      (if (x.job == rec.job && x.idx == rec.idx) = true then rec else x) = x ∧ ¬ (x.job = rec.job ∧ x.idx = rec.idx) := by
    intro x hx
    by_cases hk : x.job = rec.job ∧ x.idx = rec.idx
    · left
      refine ⟨by simp [hk.1, hk.2], ?_⟩
      exact key_unique_in_job w hI hj hx htm ⟨by rw [hk.1, hkey.1], by rw [hk.2, hkey.2]⟩
    · right
      refine ⟨?_, hk⟩
      have : (x.job == rec.job && x.idx == rec.idx) = false := by
        simp only [Bool.and_eq_false_iff, beq_eq_false_iff_ne]
        by_cases h1 : x.job = rec.job
        · right; intro h2; exact hk ⟨h1, h2⟩
        · left; exact h1
      simp [this]
  constructor
  · intro a' b' hadj ha' e he d hd hb' x hx
    rw [hJ] at hadj
    obtain ⟨a, b, hab, rfl, rfl⟩ := adjL_map hadj
    obtain ⟨hma, hmb⟩ := adjL_mem hab
    rcases hf a hma with ⟨e1, _⟩ | ⟨e1, _⟩
    · rw [e1, hst] at ha'; cases ha'
    · rw [e1] at ha' he hd
      rcases hf b hmb with ⟨e2, rfl⟩ | ⟨e2, _⟩
      · rw [e2] at hx hd
        have hd' : detTravel inst a b d := by unfold detTravel at hd ⊢; rw [← hmach]; exact hd
        have hfacts := OpsOK_mem _ _ hops b hmb
        cases hbs : b.st with
        | idle =>
          obtain ⟨m0, hm0, hloc⟩ := hpre hbs
          rcases h.wait a b hab ha' e he d hd' hbs with ⟨m, hm, _, e2'⟩ | ⟨t, ht, e1', _⟩ | ⟨m, hm, _, _, e3⟩
          · have : m = m0 := machine_of_buf_id w hs hm hm0 (x := j.loc) (Or.inr (Or.inr e2')) (Or.inl hloc)
            subst this
            exact absurd (hloc.symm.trans e2') (machine_buf_ids_ne hs w hm).2.1
          · exact absurd (hloc.symm.trans e1') ((ids_parts hs w).2.2 m0 hm0 t ht).1
          · rcases hstart x hx with rfl | ⟨hp, _⟩
            · exact e3
            · rw [hbs] at hp; cases hp
        | processing =>
          obtain ⟨x0, y0, hx0, _, _, hle, _⟩ := hfacts.2.1 hbs
          have := h.start a b hab ha' e he d hd' (by rw [hbs]; simp) x0 hx0
          rcases hstart x hx with rfl | ⟨_, hx'⟩
          · omega
          · rw [hx0] at hx'; simp at hx'; omega
        | done =>
          obtain ⟨x0, y0, hx0, _, h1, h2⟩ := hfacts.1 hbs
          have := h.start a b hab ha' e he d hd' (by rw [hbs]; simp) x0 hx0
          rcases hstart x hx with rfl | ⟨hp, _⟩
          · omega
          · rw [hbs] at hp; cases hp
        | transport => exact absurd hbs hfacts.2.2
      · rw [e2] at hb' hx hd
        exact h.start a b hab ha' e he d hd hb' x hx
  · intro a' b' hadj ha' e he d hd hb'
    rw [hJ] at hadj
    obtain ⟨a, b, hab, rfl, rfl⟩ := adjL_map hadj
    obtain ⟨hma, hmb⟩ := adjL_mem hab
    exfalso
    rcases hf a hma with ⟨e1, _⟩ | ⟨e1, _⟩
    · rw [e1, hst] at ha'; cases ha'
    · rw [e1] at ha'
      rcases hf b hmb with ⟨e2, _⟩ | ⟨e2, hnk⟩
      · rw [e2, hst] at hb'; cases hb'
      · rw [e2] at hb'
        obtain ⟨hnp, _, hfind⟩ := OpsOK_adj_done_idle hops hab ha' hb'
        rcases hnext with hn | hn
        · unfold JobState.nextNotDone? at hn
          rw [hfind] at hn
          simp at hn; subst hn
          exact hnk ⟨hkey.1.symm, hkey.2.symm⟩
        · exact hnp target htm hn

end JSL
