import JSL.Inv.ClassicBatch
import JSL.Inv.ClassicInvE
import JSL.Inv.ClassicTotalDefsR

/-!
# Classic instances, early dispatch included: the batches the code builds are enabled

For a classic instance run with ANY configuration (`allowEarly` true or false), in a state with the
structural, the schedule and the bundled (`BundleE`) invariants:

* `dispatch_offer_enE`, `offer_enE` – every offer is enabled (`EnE`): a dispatch on offer is for an
  unclaimed job that is `Pickable` (at a pickup place, or running in a machine);
* `timed_enGSE`, `timedOnly_enGSE` – the timed batch (followed by the teleports) meets `EnGSE`;
* `action_enGSE` – so does what the middleware submits (nothing, or one offer);
* `rwE_timed` – a non-empty timed batch is not made of up-to-date re-waits (`RWE`) only.

`timed_noStart`, `tele_noStart` of `ClassicBatch.lean` hold for any configuration and are used as they are.
-/

namespace JSL

variable {orc : Oracle} {inst : Instance}

/-! ## where a job on offer for a dispatch lies -/

/-- an internal buffer of the instance is the internal buffer of a machine of the state -/
theorem internal_stateE {s : State} (hs : Shape inst s) {l : Nat} (hl : l ∈ internalIds inst) :
    ∃ m ∈ s.machines, m.buffer.id = l := by
  unfold internalIds at hl
  obtain ⟨mc, hmc, rfl⟩ := List.mem_map.mp hl
  obtain ⟨m, hm, hk⟩ := mem_of_map_eq hs.machines.symm hmc
  simp only [mKey, mcKey, Prod.mk.injEq] at hk
  exact ⟨m, hm, hk.2.2.1.symm⟩

/-- the internal buffer of a machine of the state is an internal buffer of the instance -/
theorem internalIds_of_machineE {s : State} (hs : Shape inst s) {m : MachineState} (hm : m ∈ s.machines) :
    m.buffer.id ∈ internalIds inst := by
  obtain ⟨mc, hmc, hk⟩ := hs.machine_cfg hm
  simp only [mKey, mcKey, Prod.mk.injEq] at hk
  unfold internalIds
  exact List.mem_map.mpr ⟨mc, hmc, hk.2.2.1.symm⟩

/-- a running or transportable job waits in no pre-buffer -/
theorem offered_not_preE (w : WF inst) {s : State} (hI : StructInv inst s) (hS : SchedInv s) (hR : RouteInv inst s)
    {j : JobState} (hj : j ∈ s.jobs) (hkind : j.running = true ∨ transportable inst s j = .ok true) :
    ∀ m ∈ s.machines, j.id ∉ m.pre.store := by
  have hs := hI.shape
  have hjn := hs.jobsNodup w
  intro m hm hin
  have hst : j.id ∈ storeAt s m.pre.id := by rw [(pre_storeAt w hs hm).1]; exact hin
  rcases hkind with hr | htp
  · unfold JobState.running at hr
    obtain ⟨o, ho, hst'⟩ := List.any_eq_true.mp hr
    obtain ⟨m2, hm2, _, _, hstore⟩ := hS.procOnBusy j hj o ho (by simpa using hst')
    have h2 : j.id ∈ storeAt s m2.buffer.id := by rw [(pre_storeAt w hs hm2).2, hstore]; simp
    have := unique_store hI.cons hjn h2 hst
    exact (internal_ne_pre_post hs w hm2 hm).1 this
  · obtain ⟨op', e1, e2⟩ := hR.preNext m hm j.id hin j hj rfl
    have hloc : j.loc = m.pre.id := job_of_store hI.cons hj hst hjn
    unfold transportable at htp
    simp only [bind, Except.bind, pure, Except.pure] at htp
    split at htp
    · simp at htp
    · split at htp
      · rename_i hall
        have hmem := List.mem_of_find?_eq_some e1
        have hidle' : op'.st = .idle := by simpa using List.find?_some e1
        unfold JobState.allDone at hall
        have := List.all_eq_true.mp hall op' hmem
        rw [hidle'] at this; simp at this
      · simp only [e1] at htp
        cases hgm : getMachine s.machines op'.machine with
        | error e => simp [hgm] at htp
        | ok m3 =>
          simp only [hgm] at htp
          have hm3 := getMachine_ok hgm
          have : m3 = m := eq_of_mem_of_key_eq (key := fun (y : MachineState) => y.id) (hs.machNodup w) hm3.1 hm
            (by rw [hm3.2, e2])
          subst this
          unfold jobAtMachine at htp
          simp only [bind, Except.bind, pure, Except.pure] at htp
          cases hnn : j.nextNotDone with
          | error e => simp [hnn] at htp
          | ok o2 => simp [hnn, hloc] at htp

/-- **an unclaimed job that is running or transportable is `Pickable`**: it lies at a pickup place or in
the internal buffer of a machine -/
theorem pickable_of_offeredE (w : WF inst) {s : State} (hI : StructInv inst s) (hS : SchedInv s)
    (hA : AgvFull inst s) {j : JobState} (hj : j ∈ s.jobs) (hfree : ∀ x ∈ s.transports, x.job ≠ some j.id)
    (hkind : j.running = true ∨ transportable inst s j = .ok true) : Pickable inst j := by
  have hs := hI.shape
  obtain ⟨b, hb, hbid, hin⟩ := job_buffer_b hI hj
  rcases (mem_allBufs s b).mp hb with hb1 | ⟨m, hm, rfl | rfl | rfl⟩ | ⟨t, ht, rfl⟩
  · -- a standalone buffer: not an output buffer
    left
    have : b.id ∈ inst.buffers.map (·.id) := by rw [← hs.buffers]; exact List.mem_map.mpr ⟨b, hb1, rfl⟩
    obtain ⟨bc, hbc, e⟩ := List.mem_map.mp this
    unfold pickupPlaces
    apply List.mem_append.mpr; left
    refine List.mem_map.mpr ⟨bc, List.mem_filter.mpr ⟨hbc, ?_⟩, by rw [e, hbid]⟩
    cases hrole : (bc.role == BufRole.output) with
    | false => simp [bne, hrole]
    | true =>
      exfalso
      apply not_offered_in_output hA.route hj ?_ hkind
      rw [← hbid, ← e]
      unfold outputIds outputBuffers
      exact List.mem_map.mpr ⟨bc, List.mem_filter.mpr ⟨hbc, hrole⟩, rfl⟩
  · -- a pre-buffer: impossible
    exact absurd hin (offered_not_preE w hI hS hA.route hj hkind m hm)
  · -- the internal buffer of a machine
    right
    rw [← hbid]; exact internalIds_of_machineE hs hm
  · -- a post-buffer
    left
    unfold pickupPlaces
    apply List.mem_append.mpr; right
    rw [← hbid, ← hs.postIds]
    exact List.mem_map.mpr ⟨m, hm, rfl⟩
  · -- on an AGV: the job would be claimed
    exfalso
    by_cases htr : t.st = .transit
    · exact hfree t ht (hA.route.transitOwn t ht htr j.id hin)
    · rw [hA.agv.empty t ht htr] at hin
      cases hin

/-! ## offers -/

set_option linter.unusedVariables false in
/-- a dispatch on offer is enabled -/
theorem dispatch_offer_enE (w : WF inst) (hC : Classic inst) {cfg : SMConfig} {s : State}
    (hI : StructInv inst s) (hS : SchedInv s) (hB : BundleE inst s) {pt : List Transition}
    (hpt : possibleTransportTransitions inst cfg s = .ok pt) : ∀ tr ∈ pt, EnE inst s tr := by
  intro tr htr
  obtain ⟨t, ht, tc, j, hj, rfl, hst, _, _, hfree, hkind⟩ := dispatch_offer_facts hpt _ htr
  exact EnE.dispatch t j ht hst hj (pickable_of_offeredE w hI hS hB.full hj hfree hkind) hfree

/-- so is every offer -/
theorem offer_enE (w : WF inst) (hC : Classic inst) {cfg : SMConfig} {s : State}
    (hI : StructInv inst s) (hS : SchedInv s) (hB : BundleE inst s) {poss : List Transition}
    (hp : possibleTransitions inst cfg s = .ok poss) : ∀ tr ∈ poss, EnE inst s tr := by
  intro tr htr
  rcases offer_cases hp tr htr with ⟨j, _, o, _, _, rfl⟩ | ⟨pt, hpt, hin⟩
  · exact EnE.start _ rfl
  · exact dispatch_offer_enE w hC hI hS hB hpt tr hin

/-! ## the timed batch, component by component -/

/-- what is known about a member of the timed batch of a classic instance -/
structure TimedEnE (inst : Instance) (s : State) (tr : Transition) : Prop where
  en : EnE inst s tr
  noDispatch : tr.new ≠ .t .working
  noStart : tr.new ≠ .m .setup
  comp : (∃ mid, tr.comp = .m mid) ∨ ∃ t ∈ s.transports, tr.comp = .t t.id ∧ t.st ≠ .idle

/-- the timed transition of a machine: SETUP → WORKING, WORKING → OUTAGE or OUTAGE → IDLE with the job it holds -/
theorem timedMachine_enE (w : WF inst) (hC : Classic inst) {s : State} (hI : StructInv inst s) (hS : SchedInv s)
    {m : MachineState} (hm : m ∈ s.machines) {tr : Transition} (h : timedMachine inst s.time m = .ok (some tr)) :
    TimedEnE inst s tr ∧ tr.comp = .m m.id := by
  have hs := hI.shape
  have hns := timedMachine_no_setup w hs (preFlex_of_classic hC) hm h
  obtain ⟨⟨m', hm', hc, hcase⟩, hcm⟩ := timedMachine_spec hm h
  rcases hcase with ⟨ns, hnext, hnew, hjob⟩ | ⟨_, hnew, _⟩
  · have hbusy : m'.st ≠ .idle := by
      intro e; rw [e] at hnext; simp [machineTimedNext] at hnext
    obtain ⟨j, hj, hst, _⟩ := hS.busyHolds m' hm' hbusy
    rw [hst] at hjob
    simp only [List.head?_cons] at hjob
    have : tr = ⟨.m m'.id, .m ns, some j.id⟩ := by
      cases tr; simp only at hc hnew hjob; rw [hc, hnew, hjob]
    subst this
    refine ⟨⟨?_, by simp, hns, Or.inl ⟨_, rfl⟩⟩, hcm⟩
    cases hst' : m'.st with
    | idle => exact absurd hst' hbusy
    | setup =>
      rw [hst'] at hnext; simp only [machineTimedNext, Option.some.injEq] at hnext; subst hnext
      exact EnE.mWork m' j.id hm' hst' hst
    | working =>
      rw [hst'] at hnext; simp only [machineTimedNext, Option.some.injEq] at hnext; subst hnext
      exact EnE.mOut m' j.id hm' hst' hst
    | outage =>
      rw [hst'] at hnext; simp only [machineTimedNext, Option.some.injEq] at hnext; subst hnext
      exact EnE.mIdle m' j.id hm' hst' hst
  · exact absurd hnew hns

/-- a `Pickable` job that is ready for pickup lies at a pickup place -/
theorem pickupPlace_of_readyE (w : WF inst) {s : State} (hI : StructInv inst s) (hS : SchedInv s)
    {j : JobState} (hj : j ∈ s.jobs) (hp : Pickable inst j) (hrdy : readyForPickup inst s j = .ok true) :
    j.loc ∈ pickupPlaces inst := by
  rcases hp with h | h
  · exact h
  · exfalso
    obtain ⟨m, hm, e⟩ := internal_stateE hI.shape h
    exact ((ready_facts w hI hS hj hrdy).1 m hm).1 e

set_option linter.unusedVariables false in
/-- the timed transition of an AGV -/
theorem timedTransport_enE (w : WF inst) (hC : Classic inst) {s : State} (hI : StructInv inst s) (hS : SchedInv s)
    (hB : BundleE inst s) {t : TransportState} (ht : t ∈ s.transports) {tr : Transition}
    (h : timedTransport inst s t = .ok (some tr)) : TimedEnE inst s tr ∧ tr.comp = .t t.id := by
  have hs := hI.shape
  have hjn := hs.jobsNodup w
  have claim : ∀ {jid : Nat} {j : JobState}, optE t.job .transportJob = .ok jid → getJob s.jobs jid = .ok j →
      j ∈ s.jobs ∧ t.job = some j.id := by
    intro jid j h1 h2
    have hj' := getJob_ok h2
    refine ⟨hj'.1, ?_⟩
    cases htj : t.job with
    | none => simp [htj, optE] at h1
    | some x => simp [htj, optE] at h1; rw [hj'.2, h1]
  unfold timedTransport at h
  cases hocc : t.occ with
  | none => simp [hocc] at h
  | dep b j tr' => exact absurd hocc (hB.cinv.noDep t ht b j tr')
  | «at» o =>
    simp only [hocc] at h
    split at h
    · cases hst : t.st with
      | idle => simp [hst, agvTimedCreator] at h
      | working => exact absurd hst (hB.cinv.noWorking t ht)
      | pickup =>
        simp only [hst, agvTimedCreator] at h
        unfold agvIdleToPickTransition at h
        obtain ⟨jid, hjid, h⟩ := except_bind_eq_ok h
        obtain ⟨j, hj, h⟩ := except_bind_eq_ok h
        obtain ⟨rdy, hrdy, h⟩ := except_bind_eq_ok h
        obtain ⟨hjm, htj⟩ := claim hjid hj
        rw [hst] at h
        have : tr = ⟨.t t.id, .t .waitingpickup, some j.id⟩ := by
          cases rdy <;> simp [idleToPickNext] at h <;> exact h.symm
        subst this
        exact ⟨⟨EnE.wait t j ht hst hjm htj, by simp, by simp, Or.inr ⟨t, ht, rfl, by simp [hst]⟩⟩, rfl⟩
      | waitingpickup =>
        simp only [hst, agvTimedCreator] at h
        unfold agvIdleToPickTransition at h
        obtain ⟨jid, hjid, h⟩ := except_bind_eq_ok h
        obtain ⟨j, hj, h⟩ := except_bind_eq_ok h
        obtain ⟨rdy, hrdy, h⟩ := except_bind_eq_ok h
        obtain ⟨hjm, htj⟩ := claim hjid hj
        obtain ⟨j', hj', htj', hpk⟩ := hB.cinv.claimed t ht (Or.inr hst)
        have : j' = j := eq_of_mem_of_key_eq (key := fun (y : JobState) => y.id) hjn hj' hjm
          (by rw [htj] at htj'; simpa using htj'.symm)
        subst this
        rw [hst] at h
        cases rdy with
        | true =>
          have : tr = ⟨.t t.id, .t .transit, some j'.id⟩ := by
            simp [idleToPickNext] at h; exact h.symm
          subst this
          exact ⟨⟨EnE.pick t j' ht hst hjm htj (pickupPlace_of_readyE w hI hS hj' hpk hrdy), by simp, by simp,
            Or.inr ⟨t, ht, rfl, by simp [hst]⟩⟩, rfl⟩
        | false =>
          have : tr = ⟨.t t.id, .t .waitingpickup, some j'.id⟩ := by
            simp [idleToPickNext] at h; exact h.symm
          subst this
          exact ⟨⟨EnE.rewait t j' ht hst hjm htj, by simp, by simp, Or.inr ⟨t, ht, rfl, by simp [hst]⟩⟩, rfl⟩
      | transit =>
        simp only [hst, agvTimedCreator] at h
        split at h
        · rename_i x hstore
          obtain ⟨js, hjs, h⟩ := except_bind_eq_ok h
          have hjs' := getJob_ok hjs
          simp at h; subst h
          exact ⟨⟨EnE.deliver t js ht hst hjs'.1 (by rw [hstore, hjs'.2]), by simp, by simp,
            Or.inr ⟨t, ht, rfl, by simp [hst]⟩⟩, rfl⟩
        · simp at h
      | outage =>
        simp [hst, agvTimedCreator] at h; subst h
        exact ⟨⟨EnE.release t ht hst, by simp, by simp, Or.inr ⟨t, ht, rfl, by simp [hst]⟩⟩, rfl⟩
    · simp at h

/-! ## the timed batch -/

/-- the two halves of the timed batch -/
theorem timed_splitE {s : State} {tt : List Transition} (htt : timedTransitions inst s = .ok tt) :
    ∃ ra rb, s.machines.mapM (timedMachine inst s.time) = .ok ra ∧ s.transports.mapM (timedTransport inst s) = .ok rb ∧
      tt = ra.filterMap id ++ rb.filterMap id := by
  unfold timedTransitions at htt
  obtain ⟨a, ha, htt⟩ := except_bind_eq_ok htt
  obtain ⟨b, hb, htt⟩ := except_bind_eq_ok htt
  simp at htt; subst htt
  unfold timedMachineTransitions at ha
  unfold timedTransportTransitions at hb
  cases hra : s.machines.mapM (timedMachine inst s.time) with
  | error e => simp [hra] at ha
  | ok ra =>
    simp [hra] at ha; subst ha
    cases hrb : s.transports.mapM (timedTransport inst s) with
    | error e => simp [hrb] at hb
    | ok rb =>
      simp [hrb] at hb; subst hb
      exact ⟨ra, rb, rfl, rfl, rfl⟩

/-- the timed batch of a classic instance: every member is enabled, none is a dispatch or a machine start, and
the components are pairwise different -/
theorem timed_coreE (w : WF inst) (hC : Classic inst) {s : State} (hI : StructInv inst s) (hS : SchedInv s)
    (hB : BundleE inst s) {tt : List Transition} (htt : timedTransitions inst s = .ok tt) :
    (∀ tr ∈ tt, TimedEnE inst s tr) ∧ tt.Pairwise (fun a b => a.comp ≠ b.comp) := by
  have hs := hI.shape
  obtain ⟨ra, rb, hra, hrb, rfl⟩ := timed_splitE htt
  have hA : ∀ tr ∈ ra.filterMap id, TimedEnE inst s tr ∧ ∃ m ∈ s.machines, tr.comp = .m m.id := by
    intro tr htr
    obtain ⟨x, hx, e⟩ := List.mem_filterMap.mp htr
    simp at e; subst e
    obtain ⟨m, hm, e⟩ := (mapM_ok_mem hra).2 _ hx
    have := timedMachine_enE w hC hI hS hm e
    exact ⟨this.1, m, hm, this.2⟩
  have hT : ∀ tr ∈ rb.filterMap id, TimedEnE inst s tr ∧ ∃ t ∈ s.transports, tr.comp = .t t.id := by
    intro tr htr
    obtain ⟨x, hx, e⟩ := List.mem_filterMap.mp htr
    simp at e; subst e
    obtain ⟨t, ht, e⟩ := (mapM_ok_mem hrb).2 _ hx
    have := timedTransport_enE w hC hI hS hB ht e
    exact ⟨this.1, t, ht, this.2⟩
  have hAp : (ra.filterMap id).Pairwise (fun a b => a.comp ≠ b.comp) := by
    apply mapM_filterMap_pairwise _ _ hra
    have : s.machines.Pairwise (fun x y => x.id ≠ y.id) := List.pairwise_map.mp (hs.machNodup w)
    apply this.imp_of_mem
    intro x y hx hy hne a b ha hb
    rw [(timedMachine_enE w hC hI hS hx ha).2, (timedMachine_enE w hC hI hS hy hb).2]
    intro e
    exact hne (by simpa using e)
  have hTp : (rb.filterMap id).Pairwise (fun a b => a.comp ≠ b.comp) := by
    apply mapM_filterMap_pairwise _ _ hrb
    have : s.transports.Pairwise (fun x y => x.id ≠ y.id) := List.pairwise_map.mp (hs.trNodup w)
    apply this.imp_of_mem
    intro x y hx hy hne a b ha hb
    rw [(timedTransport_enE w hC hI hS hB hx ha).2, (timedTransport_enE w hC hI hS hB hy hb).2]
    intro e
    exact hne (by simpa using e)
  constructor
  · intro tr htr
    rcases List.mem_append.mp htr with h | h
    · exact (hA tr h).1
    · exact (hT tr h).1
  · apply List.pairwise_append.mpr
    refine ⟨hAp, hTp, ?_⟩
    intro a ha b hb
    obtain ⟨_, m, _, e1⟩ := hA a ha
    obtain ⟨_, t, _, e2⟩ := hT b hb
    rw [e1, e2]; simp

theorem timed_enGSE (w : WF inst) (hC : Classic inst) {cfg : SMConfig} {s : State}
    (hI : StructInv inst s) (hS : SchedInv s) (hB : BundleE inst s) {tt poss tele : List Transition} {r : Rng}
    (htt : timedTransitions inst s = .ok tt) (hp : possibleTransitions inst cfg s = .ok poss)
    (hte : filterTeleport orc inst r s poss = .ok tele) : EnGSE inst s (tt ++ tele) := by
  have hs := hI.shape
  obtain ⟨hen, hpw⟩ := timed_coreE w hC hI hS hB htt
  obtain ⟨hsub, htp⟩ := tele_facts hte
  have hnew := filterTeleport_shape hp hte
  -- a teleport addresses an idle AGV
  have hidle : ∀ tr ∈ tele, ∃ t ∈ s.transports, tr.comp = .t t.id ∧ t.st = .idle := by
    intro tr htr
    rcases offer_cases hp tr (hsub tr htr) with ⟨j, _, o, _, _, e⟩ | ⟨pt, hpt, hin⟩
    · have := hnew tr htr; rw [e] at this; simp at this
    · obtain ⟨t, ht, j, _, e, hst, _⟩ := possibleTransport_facts hpt tr hin
      exact ⟨t, ht, by rw [e], hst⟩
  refine ⟨?_, ?_, ?_⟩
  · intro tr htr
    rcases List.mem_append.mp htr with h | h
    · exact (hen tr h).en
    · exact offer_enE w hC hI hS hB hp tr (hsub tr h)
  · apply List.pairwise_append.mpr
    refine ⟨?_, ?_, ?_⟩
    · apply hpw.imp_of_mem
      intro a b ha _ hne
      exact ⟨hne, fun hn => absurd hn (hen a ha).noDispatch⟩
    · exact htp.imp (fun {a b} hab => ⟨hab.1, fun _ _ => hab.2⟩)
    · intro a ha b hb
      refine ⟨?_, fun hn => absurd hn (hen a ha).noDispatch⟩
      obtain ⟨t', ht', ec, hst'⟩ := hidle b hb
      rcases (hen a ha).comp with ⟨mid, e⟩ | ⟨t, ht, e, hst⟩
      · rw [e, ec]; simp
      · rw [e, ec]
        intro e'
        have : t = t' := eq_of_mem_of_key_eq (key := fun (y : TransportState) => y.id) (hs.trNodup w) ht ht'
          (by simpa using e')
        subst this
        exact hst hst'
  · intro tr htr hn
    exfalso
    rcases List.mem_append.mp htr with h | h
    · exact (hen tr h).noStart hn
    · rw [hnew tr h] at hn; simp at hn

theorem timedOnly_enGSE (w : WF inst) (hC : Classic inst) {s : State}
    (hI : StructInv inst s) (hS : SchedInv s) (hB : BundleE inst s) {tt : List Transition}
    (htt : timedTransitions inst s = .ok tt) : EnGSE inst s tt := by
  obtain ⟨hen, hpw⟩ := timed_coreE w hC hI hS hB htt
  refine ⟨fun tr htr => (hen tr htr).en, ?_, fun tr htr hn => absurd hn (hen tr htr).noStart⟩
  apply hpw.imp_of_mem
  intro a b ha _ hne
  exact ⟨hne, fun hn => absurd hn (hen a ha).noDispatch⟩

theorem action_enGSE (w : WF inst) (hC : Classic inst) {cfg : SMConfig} {s : State}
    (hI : StructInv inst s) (hS : SchedInv s) (hB : BundleE inst s) {a : Action} (hadm : AdmOffer inst cfg s a) :
    EnGSE inst s (sortedByTransport a.transitions) := by
  rcases hadm with e | ⟨poss, hposs, tr, hp, e⟩
  · rw [e, sortedByTransport_nil]; exact EnGSE.nil s
  · rw [e, sortedByTransport_single]
    refine ⟨?_, List.pairwise_singleton _ _, fun _ _ _ => by simp⟩
    intro t ht
    simp at ht; subst ht
    exact offer_enE w hC hI hS hB hposs t hp

/-- no member of the timed batch is a dispatch (for `TotalHypR.noDispatchTimed`-style uses under the bundle) -/
theorem timed_noDispatchE (w : WF inst) (hC : Classic inst) {s : State} (hI : StructInv inst s) (hS : SchedInv s)
    (hB : BundleE inst s) {tt : List Transition} (htt : timedTransitions inst s = .ok tt) :
    ∀ tr ∈ tt, tr.new ≠ .t .working :=
  fun tr htr => ((timed_coreE w hC hI hS hB htt).1 tr htr).noDispatch

/-! ## a non-empty timed batch is not made of up-to-date re-waits only -/

/-- what a re-wait produced by the timed-transition builder says about its AGV -/
theorem timedTransport_rewaitE {s : State} {t : TransportState}
    (hnd : ∀ b j tr, t.occ ≠ .dep b j tr) (hst : t.st = .waitingpickup) {tr : Transition}
    (h : timedTransport inst s t = .ok (some tr)) (hnew : tr.new = .t .waitingpickup) :
    ∃ o j, t.occ = .at o ∧ o ≤ s.time ∧ j ∈ s.jobs ∧ t.job = some j.id ∧ readyForPickup inst s j = .ok false := by
  unfold timedTransport at h
  cases hocc : t.occ with
  | none => simp [hocc] at h
  | dep b j tr' => exact absurd hocc (hnd b j tr')
  | «at» o =>
    simp only [hocc] at h
    split at h
    · rename_i hle
      simp only [hst, agvTimedCreator] at h
      unfold agvIdleToPickTransition at h
      obtain ⟨jid, hjid, h⟩ := except_bind_eq_ok h
      obtain ⟨j, hj, h⟩ := except_bind_eq_ok h
      obtain ⟨rdy, hrdy, h⟩ := except_bind_eq_ok h
      have hj' := getJob_ok hj
      have htj : t.job = some j.id := by
        cases htj : t.job with
        | none => simp [htj, optE] at hjid
        | some x => simp [htj, optE] at hjid; rw [hj'.2, hjid]
      rw [hst] at h
      cases rdy with
      | true =>
        simp [idleToPickNext] at h
        rw [← h] at hnew; simp at hnew
      | false => exact ⟨o, j, rfl, hle, hj'.1, htj, hrdy⟩
    · simp at h

/-- a due busy machine contributes a transition to the timed batch -/
theorem timedMachine_dueE {s : State} {m : MachineState} (hbusy : m.st ≠ .idle) {o : Int} (hocc : m.occ = some o)
    (hle : o ≤ s.time) {x : Nat} (hstore : m.buffer.store = [x]) :
    ∃ ns, timedMachine inst s.time m = .ok (some ⟨.m m.id, .m ns, some x⟩) := by
  unfold timedMachine
  have hd : dueAt m.occ s.time = true := by simp [dueAt, hocc, hle]
  cases hst : m.st with
  | idle => exact absurd hst hbusy
  | setup => exact ⟨.working, by simp [hd, machineTimedNext, hstore]⟩
  | working => exact ⟨.outage, by simp [hd, machineTimedNext, hstore]⟩
  | outage => exact ⟨.idle, by simp [hd, machineTimedNext, hstore]⟩

/-- **a non-empty timed batch contains a transition that is not an up-to-date re-wait** -/
theorem rwE_timed (w : WF inst) (hC : Classic inst) {s : State} (hI : StructInv inst s) (hS : SchedInv s)
    (hB : BundleE inst s) {tt : List Transition} (htt : timedTransitions inst s = .ok tt) (hne : tt ≠ []) :
    ∃ tr ∈ tt, ¬ RWE s tr := by
  have hs := hI.shape
  have hjn := hs.jobsNodup w
  apply Classical.byContradiction
  intro hall
  have hall' : ∀ tr ∈ tt, RWE s tr := by
    intro tr htr
    apply Classical.byContradiction
    intro hn
    exact hall ⟨tr, htr, hn⟩
  obtain ⟨ra, rb, hra, hrb, rfl⟩ := timed_splitE htt
  -- take a member
  obtain ⟨tr0, htr0⟩ := List.exists_mem_of_ne_nil _ hne
  obtain ⟨t, ht, hcomp, hst, hnew, hstale⟩ := hall' tr0 htr0
  -- it was built for the AGV `t`
  have hbuilt : timedTransport inst s t = .ok (some tr0) := by
    rcases List.mem_append.mp htr0 with h | h
    · exfalso
      obtain ⟨x, hx, e⟩ := List.mem_filterMap.mp h
      simp at e; subst e
      obtain ⟨m, hm, e⟩ := (mapM_ok_mem hra).2 _ hx
      have := (timedMachine_spec hm e).2
      rw [hcomp] at this; simp at this
    · obtain ⟨x, hx, e⟩ := List.mem_filterMap.mp h
      simp at e; subst e
      obtain ⟨t', ht', e⟩ := (mapM_ok_mem hrb).2 _ hx
      have hc := (timedTransport_enE w hC hI hS hB ht' e).2
      rw [hcomp] at hc
      have : t' = t := eq_of_mem_of_key_eq (key := fun (y : TransportState) => y.id) (hs.trNodup w) ht' ht
        (by simpa using hc.symm)
      subst this
      exact e
  obtain ⟨o, j, hocc, hle, hj, htj, hrdy⟩ := timedTransport_rewaitE (hB.cinv.noDep t ht) hst hbuilt hnew
  -- the claimed job lies in the internal buffer of a machine
  obtain ⟨j', hj', htj', hpk⟩ := hB.cinv.claimed t ht (Or.inr hst)
  have : j' = j := eq_of_mem_of_key_eq (key := fun (y : JobState) => y.id) hjn hj' hj
    (by rw [htj] at htj'; simpa using htj'.symm)
  subst this
  rcases hpk with hpl | hint
  · rw [ready_of_pickupPlace w hC hI hj' hpl] at hrdy
    cases hrdy
  · obtain ⟨m, hm, hmid⟩ := internal_stateE hs hint
    have hin : j'.id ∈ m.buffer.store := by
      rw [← (pre_storeAt w hs hm).2, hmid]
      exact hI.cons.located (j'.id, j'.loc) (List.mem_map.mpr ⟨j', hj', rfl⟩)
    have hbusy : m.st ≠ .idle := by
      intro e
      rw [hS.idleEmpty m hm e] at hin; cases hin
    obtain ⟨j2, hj2, hstore, op, hp, _, hstop, _⟩ := hS.busyHolds m hm hbusy
    have : j2 = j' := by
      rw [hstore] at hin
      exact eq_of_mem_of_key_eq (key := fun (y : JobState) => y.id) hjn hj2 hj' (by simp at hin; exact hin.symm)
    subst this
    -- the processing record ends at `o`: the waiting time is up to date
    have hop := find?_mem_ops hp
    have hstopo : op.stop = some o := by
      unfold staleB at hstale
      simp only [hst, htj, hocc, beq_self_eq_true, Bool.true_and] at hstale
      have h1 := List.any_eq_false.mp hstale j2 hj2
      simp only [beq_self_eq_true, Bool.true_and] at h1
      have h2 := List.any_eq_false.mp (Bool.eq_false_iff.mpr h1) op hop.1
      have h3 : (op.st == OSt.processing) = true := hop.2
      simp only [h3, Bool.true_and] at h2
      simpa using h2
    have hmocc : m.occ = some o := by rw [← hstop, hstopo]
    -- so the machine is due and contributes a machine transition
    obtain ⟨ns, hns⟩ := timedMachine_dueE (inst := inst) hbusy hmocc hle hstore
    obtain ⟨y, hy, e⟩ := (mapM_ok_mem hra).1 m hm
    rw [hns] at e
    injection e with e
    have hmem : (⟨.m m.id, .m ns, some j2.id⟩ : Transition) ∈ ra.filterMap id ++ rb.filterMap id := by
      apply List.mem_append.mpr; left
      exact List.mem_filterMap.mpr ⟨_, hy, by rw [← e]; rfl⟩
    obtain ⟨t2, _, hc2, _⟩ := hall' _ hmem
    simp at hc2

end JSL
