import JSL.Inv.SchedSmStep
import JSL.Inv.Dur

/-!
# Admissible executions

`OccursA` are the states of executions in which every action is admissible (transitions shaped
like offers: machine → SETUP, AGV → WORKING – in particular everything the environment, the
middleware and the teleport mechanism submit; time machine `jump_to_event` or
`force_jump_to_event`) and stepping continues only from results that are not done (as the
environment does).
-/

namespace JSL

variable {orc : Oracle} {inst : Instance}

theorem restB_sound {s : State} (h : restB s = true) : SchedInv s := by
  simp only [restB, Bool.and_eq_true, List.all_eq_true, beq_iff_eq, List.isEmpty_iff, Option.isNone_iff_eq_none] at h
  obtain ⟨⟨hm, hj⟩, ht⟩ := h
  have noproc : ∀ j ∈ s.jobs, ∀ o ∈ j.ops, o.st ≠ .processing := fun j hj' o ho => by rw [hj j hj' o ho]; simp
  have nodone : ∀ j ∈ s.jobs, ∀ o ∈ j.ops, o.st ≠ .done := fun j hj' o ho => by rw [hj j hj' o ho]; simp
  exact {
    idleEmpty := fun m hm' _ => (hm m hm').2
    busyHolds := fun m hm' hb => absurd (hm m hm').1 hb
    procOnBusy := fun j hj' o ho hp => absurd hp (noproc j hj' o ho)
    ops := fun j hj' => OpsOK_allIdle _ _ _ (hj j hj')
    doneBeforeProc := fun j₁ h₁ o₁ ho₁ _ _ _ _ _ hd => absurd hd (nodone j₁ h₁ o₁ ho₁)
    doneDisjoint := fun j₁ h₁ o₁ ho₁ _ _ _ _ _ hd => absurd hd (nodone j₁ h₁ o₁ ho₁)
    agvPending := fun t ht' hb => absurd (ht t ht').1.1.1 hb
    freeNoClaim := fun t ht' _ => (ht t ht').1.1.2
    depWaiting := fun t ht' b j tr ho => by
      have := (ht t ht').1.2; rw [ho] at this; simp at this }

theorem TimeCfg.nonnegB_sound {c : TimeCfg} (h : c.nonnegB = true) : ∀ t, c = .det t → 0 ≤ t := by
  intro t e; subst e; simpa [TimeCfg.nonnegB] using h

theorem nonnegB_sound (horc : ∀ sid k, 0 ≤ orc sid k) (h : nonnegB inst = true) : NonNeg orc inst := by
  simp only [nonnegB, Bool.and_eq_true, List.all_eq_true] at h
  obtain ⟨⟨⟨h1, h2⟩, h3⟩, h4⟩ := h
  exact {
    orc := horc
    ops := fun j hj o ho => TimeCfg.nonnegB_sound (h1 j hj o ho)
    setup := fun m hm e he => TimeCfg.nonnegB_sound ((h2 m hm).1 e he)
    travel := fun e he => TimeCfg.nonnegB_sound (h3 e he)
    mout := fun m hm o ho => TimeCfg.nonnegB_sound ((h2 m hm).2 o ho)
    tout := fun t ht o ho => TimeCfg.nonnegB_sound (h4 t ht o ho) }

inductive OccursA (orc : Oracle) (inst : Instance) (cfg : SMConfig) (s0 : State) : State → Prop
  | init : OccursA orc inst cfg s0 s0
  | result {s res r a r' mic fuel} : OccursA orc inst cfg s0 s → Admissible a →
      smStep orc inst cfg fuel s r a = .ok (res, r', mic) → res.done = false → OccursA orc inst cfg s0 res.state
  | sub {s res r a r' mic fuel σ} : OccursA orc inst cfg s0 s → Admissible a →
      smStep orc inst cfg fuel s r a = .ok (res, r', mic) → σ ∈ res.subStates → OccursA orc inst cfg s0 σ
  | micro {s res r a r' mic fuel σ} : OccursA orc inst cfg s0 s → Admissible a →
      smStep orc inst cfg fuel s r a = .ok (res, r', mic) → σ ∈ mic → OccursA orc inst cfg s0 σ

/-- the guard of the schedule theorems: well-formed instance, admissible initial state at rest,
non-negative configured times and samples -/
structure Start (orc : Oracle) (inst : Instance) (s0 : State) : Prop where
  init : initOKB inst s0 = true
  rest : restB s0 = true
  placed : placedB inst s0 = true
  nonneg : nonnegB inst = true
  samples : ∀ sid k, 0 ≤ orc sid k

theorem occursA_inv {cfg : SMConfig} {s0 σ : State} (hst : Start orc inst s0) (h : OccursA orc inst cfg s0 σ) :
    WF inst ∧ StructInv inst σ ∧ SchedInv σ := by
  obtain ⟨w, hI0⟩ := initOKB_sound hst.init
  have nn := nonnegB_sound hst.samples hst.nonneg
  refine ⟨w, ?_⟩
  induction h with
  | init => exact ⟨hI0, restB_sound hst.rest⟩
  | result _ ha hstep hnd ih => exact ⟨(smStep_struct w ih.1 hstep).1, (smStep_sched w nn ih.1 ih.2 ha hstep).2.2.2 hnd⟩
  | sub _ ha hstep hσ ih => exact ⟨(smStep_struct w ih.1 hstep).2.1 _ hσ, (smStep_sched w nn ih.1 ih.2 ha hstep).2.1 _ hσ⟩
  | micro _ ha hstep hσ ih => exact ⟨(smStep_struct w ih.1 hstep).2.2 _ hσ, (smStep_sched w nn ih.1 ih.2 ha hstep).1 _ hσ⟩

/-- the state a step returns when the shop is done: the invariants hold up to the final makespan
stamp of the clock -/
theorem final_inv {cfg : SMConfig} {s0 s : State} (hst : Start orc inst s0) (h : OccursA orc inst cfg s0 s)
    {a : Action} (ha : Admissible a) {fuel : Nat} {r r' : Rng} {res : SMResult} {mic : List State}
    (hstep : smStep orc inst cfg fuel s r a = .ok (res, r', mic)) :
    StructInv inst res.state ∧ ∃ t, SchedInv { res.state with time := t } := by
  obtain ⟨w, hI, hS⟩ := occursA_inv hst h
  have nn := nonnegB_sound hst.samples hst.nonneg
  exact ⟨(smStep_struct w hI hstep).1, (smStep_sched w nn hI hS ha hstep).2.2.1⟩


/-- a further invariant (a `Pass`) holds along every admissible execution it is admissible for -/
theorem occursA_pass {cfg : SMConfig} (ps : Pass orc inst cfg) {s0 σ : State} (hst : Start orc inst s0)
    (h0 : ps.P s0) (hadm : ∀ s a, Admissible a → ps.Adm s a) (h : OccursA orc inst cfg s0 σ) : ps.P σ := by
  obtain ⟨w, _⟩ := initOKB_sound hst.init
  have nn := nonnegB_sound hst.samples hst.nonneg
  induction h with
  | init => exact h0
  | result hprev ha hstep hnd ih =>
    obtain ⟨_, hI, hS⟩ := occursA_inv hst hprev
    exact (ps.smStep w nn hI hS ih ha (hadm _ _ ha) hstep).2.2.2 hnd
  | sub hprev ha hstep hσ ih =>
    obtain ⟨_, hI, hS⟩ := occursA_inv hst hprev
    exact (ps.smStep w nn hI hS ih ha (hadm _ _ ha) hstep).2.1 _ hσ
  | micro hprev ha hstep hσ ih =>
    obtain ⟨_, hI, hS⟩ := occursA_inv hst hprev
    exact (ps.smStep w nn hI hS ih ha (hadm _ _ ha) hstep).1 _ hσ

/-- the duration invariant along every admissible execution -/
theorem occursA_dur {cfg : SMConfig} {s0 σ : State} (hst : Start orc inst s0) (h : OccursA orc inst cfg s0 σ) :
    DurInv inst σ := by
  obtain ⟨w, _⟩ := initOKB_sound hst.init
  have nn := nonnegB_sound hst.samples hst.nonneg
  exact occursA_pass (DurPass orc inst cfg w nn) hst (DurInv.of_rest hst.rest) (fun _ _ ha => ha.shaped) h

theorem final_dur {cfg : SMConfig} {s0 s : State} (hst : Start orc inst s0) (h : OccursA orc inst cfg s0 s)
    {a : Action} (ha : Admissible a) {fuel : Nat} {r r' : Rng} {res : SMResult} {mic : List State}
    (hstep : smStep orc inst cfg fuel s r a = .ok (res, r', mic)) : DurInv inst res.state := by
  obtain ⟨w, hI, hS⟩ := occursA_inv hst h
  have nn := nonnegB_sound hst.samples hst.nonneg
  obtain ⟨t, ht⟩ := ((DurPass orc inst cfg w nn).smStep w nn hI hS (occursA_dur hst h) ha ha.shaped hstep).2.2.1
  exact DurInv.of_time ht

end JSL
