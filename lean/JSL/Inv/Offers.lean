import JSL.Inv.Reach

/-!
# What the offers promise
-/

namespace JSL

variable {orc : Oracle} {inst : Instance}

/-- looking up a member of a list with unique keys by its key finds that member -/
theorem findE_of_mem {α} {key : α → Nat} {l : List α} (hnd : (l.map key).Nodup) {a : α} (ha : a ∈ l) (e : Err) :
    findE (fun x => key x == key a) l e = .ok a := by
  unfold findE
  cases hf : l.find? (fun x => key x == key a) with
  | none =>
    have := List.find?_eq_none.mp hf a ha
    simp at this
  | some b =>
    have hb := List.mem_of_find?_eq_some hf
    have hk : key b = key a := by simpa using List.find?_some hf
    rw [eq_of_mem_of_key_eq hnd hb ha hk]

theorem getJob_of_mem {l : List JobState} (hnd : (l.map (·.id)).Nodup) {j : JobState} (hj : j ∈ l) :
    getJob l j.id = .ok j := findE_of_mem (key := fun (y : JobState) => y.id) hnd hj _

theorem getMachine_of_mem {l : List MachineState} (hnd : (l.map (·.id)).Nodup) {m : MachineState} (hm : m ∈ l) :
    getMachine l m.id = .ok m := findE_of_mem (key := fun (y : MachineState) => y.id) hnd hm _

theorem getTransport_of_mem {l : List TransportState} (hnd : (l.map (·.id)).Nodup) {t : TransportState} (ht : t ∈ l) :
    getTransport l t.id = .ok t := findE_of_mem (key := fun (y : TransportState) => y.id) hnd ht _

/-- in a well-ordered job that is not running the first not-done record is the first idle one -/
theorem nextNotDone_eq_nextIdle {now : Int} {j : JobState} (hok : OpsOK now none j.ops) (hr : j.running = false) :
    j.nextNotDone? = j.nextIdle? := by
  unfold JobState.nextNotDone? JobState.nextIdle?
  have key : ∀ o ∈ j.ops, (o.st != OSt.done) = (o.st == OSt.idle) := ?_
  · generalize j.ops = l at key
    induction l with
    | nil => rfl
    | cons a as ih =>
      simp only [List.find?_cons, key a (by simp)]
      rw [ih (fun o ho => key o (by simp [ho]))]
  intro o ho
  have hm := OpsOK_mem _ _ hok o ho
  have hnp : o.st ≠ .processing := by
    intro e
    have : j.running = true := by
      unfold JobState.running
      exact List.any_eq_true.mpr ⟨o, ho, by simp [e]⟩
    rw [hr] at this; cases this
  cases hst : o.st with
  | idle => simp
  | done => simp
  | processing => exact absurd hst hnp
  | transport => exact absurd hst hm.2.2

/-- **Every offered transition passes validation** in the state it is offered in. -/
theorem offers_valid (w : WF inst) {cfg : SMConfig} {s : State} (hI : StructInv inst s) (hS : SchedInv s)
    {poss : List Transition} (h : possibleTransitions inst cfg s = .ok poss) :
    ∀ tr ∈ poss, transitionValid s tr = .ok true := by
  have hjn := hI.shape.jobsNodup w
  have hmn := hI.shape.machNodup w
  have htn := hI.shape.trNodup w
  unfold possibleTransitions at h
  obtain ⟨pj, hpj, h⟩ := except_bind_eq_ok h
  obtain ⟨pt, hpt, h⟩ := except_bind_eq_ok h
  obtain ⟨mt, hmt, h⟩ := except_bind_eq_ok h
  simp at h; subst h
  intro tr htr
  rcases List.mem_append.mp htr with h | h
  · obtain ⟨j, hjm, e⟩ := (mapM_ok_mem hmt).2 tr h
    unfold possibleJobs at hpj
    obtain ⟨hj, hap⟩ := filterE_ok hpj j hjm
    cases hn : j.nextIdle? with
    | none => simp [hn] at e
    | some o =>
      simp [hn] at e; subst e
      unfold actionPossible at hap
      simp only [bind, Except.bind, pure, Except.pure] at hap
      split at hap
      · simp at hap
      · rename_i hfree
        have hfree' : j.running = false := by
          simp [JobState.nextOpFree] at hfree; exact hfree.1
        cases ht0 : inst.transports with
        | nil => simp [ht0] at hap
        | cons t0 ts =>
          simp only [ht0] at hap
          split at hap
          · simp at hap
          · have hnn : j.nextNotDone? = some o := by rw [nextNotDone_eq_nextIdle (hS.ops j hj) hfree', hn]
            have hnn' : j.nextNotDone = .ok o := by simp [JobState.nextNotDone, hnn]
            simp only [hnn'] at hap
            cases hgm : getMachine s.machines o.machine with
            | error e => simp [hgm] at hap
            | ok m =>
              simp only [hgm] at hap
              have hmm := getMachine_ok hgm
              cases hjm : jobAtMachine j m with
              | error e => simp [hjm] at hap
              | ok b =>
                simp only [hjm] at hap
                cases b with
                | false => simp at hap
                | true =>
                  simp at hap
                  simp only [transitionValid, hgm, bind, Except.bind, machineTransitionValid, machineAllowed, hap]
                  simp [machineValid, machineJobCheck, getJob_of_mem hjn hj, hnn', hmm.2, pure, Except.pure, bind, Except.bind]
  · unfold possibleTransportTransitions at hpt
    obtain ⟨ts, hts, hpt⟩ := except_bind_eq_ok hpt
    obtain ⟨idle, _, hpt⟩ := except_bind_eq_ok hpt
    simp only at hpt
    obtain ⟨lonely, _, hpt⟩ := except_bind_eq_ok hpt
    simp at hpt; subst hpt
    simp only [List.mem_flatMap, List.mem_map] at h
    obtain ⟨t, ht, j, _, rfl⟩ := h
    unfold possibleTransports at hts
    obtain ⟨l, hl, hts⟩ := except_bind_eq_ok hts
    simp at hts; subst hts
    obtain ⟨x, hx, e⟩ := List.mem_filterMap.mp ht
    simp at e; subst e
    obtain ⟨t', ht', e⟩ := (mapM_ok_mem hl).2 _ hx
    obtain ⟨tc, _, e⟩ := except_bind_eq_ok e
    simp at e
    obtain ⟨hcond, rfl⟩ := e
    simp only [transitionValid, getTransport_of_mem htn ht', bind, Except.bind, pure, Except.pure,
      transportTransitionValid]
    rw [hcond.1]; rfl

/-- what a dispatch on offer promises -/
theorem possibleTransport_facts {cfg : SMConfig} {s : State} {pt : List Transition}
    (h : possibleTransportTransitions inst cfg s = .ok pt) :
    ∀ tr ∈ pt, ∃ t ∈ s.transports, ∃ j ∈ s.jobs, tr = { comp := .t t.id, new := .t .working, job := some j.id } ∧
      t.st = .idle ∧ (∀ x ∈ s.transports, x.job ≠ some j.id) ∧
      (cfg.allowEarly = false → readyForPickup inst s j = .ok true) := by
  unfold possibleTransportTransitions at h
  obtain ⟨ts, hts, h⟩ := except_bind_eq_ok h
  obtain ⟨idle, hidle, h⟩ := except_bind_eq_ok h
  simp only at h
  obtain ⟨lonely, hlonely, h⟩ := except_bind_eq_ok h
  simp at h; subst h
  intro tr htr
  simp only [List.mem_flatMap, List.mem_map] at htr
  obtain ⟨t, ht, j, hj, rfl⟩ := htr
  -- the AGV
  unfold possibleTransports at hts
  obtain ⟨l, hl, hts⟩ := except_bind_eq_ok hts
  simp at hts; subst hts
  obtain ⟨x, hx, e⟩ := List.mem_filterMap.mp ht
  simp at e; subst e
  obtain ⟨t', ht', e⟩ := (mapM_ok_mem hl).2 _ hx
  obtain ⟨tc, _, e⟩ := except_bind_eq_ok e
  simp at e
  obtain ⟨hcond, rfl⟩ := e
  -- the job
  have hjl : j ∈ (s.jobs.filter (·.running) ++ idle).filter (fun j => !(s.transports.filterMap (·.job)).contains j.id) ∧
      (cfg.allowEarly = false → readyForPickup inst s j = .ok true) := by
    unfold earlyFilter at hlonely
    by_cases he : cfg.allowEarly = true
    · rw [if_pos he] at hlonely
      injection hlonely with h'
      rw [← h'] at hj
      exact ⟨hj, fun h0 => by rw [he] at h0; cases h0⟩
    · rw [if_neg he] at hlonely
      have := filterE_ok hlonely j hj
      exact ⟨this.1, fun _ => this.2⟩
  obtain ⟨hjm, hunc⟩ := List.mem_filter.mp hjl.1
  have hjs : j ∈ s.jobs := by
    rcases List.mem_append.mp hjm with h1 | h1
    · exact (List.mem_filter.mp h1).1
    · exact (List.mem_filter.mp (filterE_ok hidle j h1).1).1
  refine ⟨t', ht', j, hjs, rfl, hcond.1, ?_, hjl.2⟩
  intro x hx hxj
  have : (s.transports.filterMap (·.job)).contains j.id = true := by
    apply List.contains_iff_mem.mpr
    exact List.mem_filterMap.mpr ⟨x, hx, hxj⟩
  rw [this] at hunc
  simp at hunc

end JSL
