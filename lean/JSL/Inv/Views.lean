import JSL.Inv.Spec

/-!
# View-based formulation of the structural invariants and generic preservation lemmas

`ConservedV` speaks about `storeAt` (content of a buffer by id) and `locs` (job id, location)
only.  `Moved` is the effect every job-moving handler has on those views, `Same` the effect of the
others; conservation and capacity are preserved by both, proved once here.
-/

namespace JSL

def locs (s : State) : List (Nat × Nat) := s.jobs.map fun j => (j.id, j.loc)

theorem locs_replaceJob (s : State) (j' : JobState) :
    locs (s.replaceJob j') = (locs s).map fun p => if p.1 == j'.id then (j'.id, j'.loc) else p := by
  simp only [locs, State.replaceJob, List.map_map]
  apply List.map_congr_left
  intro x _
  by_cases h : x.id = j'.id <;> simp [h]

theorem locs_replaceJob_same {s : State} (hnd : (s.jobs.map (·.id)).Nodup) {j j' : JobState} (hj : j ∈ s.jobs)
    (hid : j'.id = j.id) (hloc : j'.loc = j.loc) : locs (s.replaceJob j') = locs s := by
  have := map_replace (key := fun (y : JobState) => y.id) hnd hj hid (fun y => (y.id, y.loc)) (by simp [hid, hloc])
  simpa [locs, State.replaceJob] using this

@[simp] theorem locs_replaceMachine (s : State) (m : MachineState) : locs (s.replaceMachine m) = locs s := rfl
@[simp] theorem locs_replaceTransport (s : State) (t : TransportState) : locs (s.replaceTransport t) = locs s := rfl
@[simp] theorem locs_replaceBuffer (s : State) (b : BufState) : locs (s.replaceBuffer b) = locs s := rfl

theorem locs_fst (s : State) : (locs s).map Prod.fst = s.jobs.map (·.id) := by
  simp [locs, List.map_map, Function.comp_def]

/-- conservation through the views: what is stored is located there, what is located somewhere is
stored there, nothing is stored twice -/
structure ConservedV (s : State) : Prop where
  stored : ∀ i x, x ∈ storeAt s i → (x, i) ∈ locs s
  located : ∀ p ∈ locs s, p.1 ∈ storeAt s p.2
  nodup : ∀ i, (storeAt s i).Nodup

/-- capacity through the store view -/
def CapV (inst : Instance) (s : State) : Prop :=
  ∀ c ∈ allBufCfgs inst, ((storeAt s c.id).length : Int) ≤ c.cap

/-- nothing moved -/
structure Same (s s' : State) : Prop where
  store : ∀ i, storeAt s' i = storeAt s i
  locs : locs s' = locs s

/-- job `jid` moved from buffer `a` to the back of buffer `b` -/
structure Moved (s s' : State) (jid a b : Nat) : Prop where
  ne : a ≠ b
  was : (jid, a) ∈ locs s
  storeA : storeAt s' a = (storeAt s a).filter (· != jid)
  storeB : storeAt s' b = storeAt s b ++ [jid]
  storeO : ∀ i, i ≠ a → i ≠ b → storeAt s' i = storeAt s i
  locs : locs s' = (locs s).map fun p => if p.1 == jid then (jid, b) else p

theorem unique_loc {s : State} (hnd : (s.jobs.map (·.id)).Nodup) {x a b : Nat}
    (ha : (x, a) ∈ locs s) (hb : (x, b) ∈ locs s) : a = b := by
  have h := eq_of_mem_of_key_eq (key := fun (p : Nat × Nat) => p.1) (by rw [← locs_fst] at hnd; exact hnd) ha hb rfl
  exact (Prod.mk.inj h).2

theorem Same.conserved {s s' : State} (h : Same s s') (c : ConservedV s) : ConservedV s' where
  stored i x hx := by rw [h.locs]; rw [h.store] at hx; exact c.stored i x hx
  located p hp := by rw [h.locs] at hp; rw [h.store]; exact c.located p hp
  nodup i := by rw [h.store]; exact c.nodup i

theorem Same.cap {inst : Instance} {s s' : State} (h : Same s s') (c : CapV inst s) : CapV inst s' := by
  intro cfg hc; rw [h.store]; exact c cfg hc

theorem Moved.conserved {s s' : State} {jid a b : Nat} (h : Moved s s' jid a b)
    (hnd : (s.jobs.map (·.id)).Nodup) (c : ConservedV s) : ConservedV s' where
  stored i x hx := by
    rw [h.locs]
    by_cases hia : i = a
    · subst hia
      rw [h.storeA] at hx
      simp at hx
      have := c.stored _ _ hx.1
      exact List.mem_map.mpr ⟨(x, i), this, by simp [hx.2]⟩
    · by_cases hib : i = b
      · subst hib
        rw [h.storeB] at hx
        rcases List.mem_append.mp hx with hx | hx
        · have hl := c.stored _ _ hx
          have : x ≠ jid := by
            rintro rfl
            exact hia (unique_loc hnd hl h.was)
          exact List.mem_map.mpr ⟨(x, i), hl, by simp [this]⟩
        · simp at hx; subst hx
          exact List.mem_map.mpr ⟨(x, a), h.was, by simp⟩
      · rw [h.storeO i hia hib] at hx
        have hl := c.stored _ _ hx
        have : x ≠ jid := by
          rintro rfl
          exact hia (unique_loc hnd hl h.was)
        exact List.mem_map.mpr ⟨(x, i), hl, by simp [this]⟩
  located p hp := by
    rw [h.locs] at hp
    obtain ⟨q, hq, rfl⟩ := List.mem_map.mp hp
    by_cases hqj : q.1 = jid
    · simp [hqj, h.storeB]
    · simp only [beq_iff_eq, hqj, if_false]
      have hl := c.located q hq
      by_cases hqa : q.2 = a
      · rw [hqa, h.storeA]; rw [hqa] at hl; simp [hl, hqj]
      · by_cases hqb : q.2 = b
        · rw [hqb, h.storeB]; rw [hqb] at hl; simp [hl]
        · rw [h.storeO _ hqa hqb]; exact hl
  nodup i := by
    by_cases hia : i = a
    · subst hia; rw [h.storeA]; exact (c.nodup _).filter _
    · by_cases hib : i = b
      · subst hib
        rw [h.storeB]
        rw [List.nodup_append]
        refine ⟨c.nodup _, by simp, ?_⟩
        intro x hx y hy hxy
        simp at hy; subst hy; subst hxy
        exact hia (unique_loc hnd (c.stored _ _ hx) h.was)
      · rw [h.storeO i hia hib]; exact c.nodup i

theorem Moved.cap {inst : Instance} {s s' : State} {jid a b : Nat} (h : Moved s s' jid a b)
    (hroom : ∀ c ∈ allBufCfgs inst, c.id = b → ((storeAt s b).length : Int) < c.cap)
    (c : CapV inst s) : CapV inst s' := by
  intro cfg hc
  by_cases hia : cfg.id = a
  · rw [hia, h.storeA]
    have := c cfg hc
    rw [hia] at this
    have hle := List.length_filter_le (· != jid) (storeAt s a)
    omega
  · by_cases hib : cfg.id = b
    · rw [hib, h.storeB]
      have := hroom cfg hc hib
      simp; omega
    · rw [h.storeO _ hia hib]; exact c cfg hc

end JSL
