import JSL.Inv.Progress
import JSL.Props.Example

/-!
# `NoDep` along every episode of an instance with unordered buffers, and progress of the environment

With only FLEX buffers `_get_waiting_time` always returns a fixed time (a stored job is ready, a
job still on its machine has a recorded end), so no AGV is ever parked on a time dependency.
-/

namespace JSL

variable {orc : Oracle} {inst : Instance}

/-- with unordered buffers the waiting time of an AGV is always a fixed time -/
theorem getWaitingTime_at (w : WF inst) (hF : FlexInst inst) {s : State} (hI : StructInv inst s) (hS : SchedInv s)
    {tr : Transition} {occ : Occ} (h : getWaitingTime inst s tr = .ok occ) : ∃ e, occ = .at e := by
  have hs := hI.shape
  unfold getWaitingTime at h
  obtain ⟨j, hj, h⟩ := except_bind_eq_ok h
  have hj' := getJobOpt_ok hj
  obtain ⟨bc, _, h⟩ := except_bind_eq_ok h
  cases hp : bc.parent with
  | none => simp [hp] at h; exact ⟨_, h.symm⟩
  | some p =>
    cases p with
    | t n => simp [hp] at h
    | b n => simp [hp] at h
    | m mid =>
      simp only [hp] at h
      obtain ⟨ms, hms, h⟩ := except_bind_eq_ok h
      have hm := (getMachine_ok hms).1
      split at h
      · rename_i hc
        have hin : j.id ∈ ms.post.store := List.contains_iff_mem.mp hc
        have hpost := (mem_allBufs_of_machine hm).2.2
        have hloc : j.loc = ms.post.id :=
          job_of_store hI.cons hj'.1 (by rw [storeAt_of_mem (hs.bufNodup w) hpost]; exact hin) (hs.jobsNodup w)
        have hr := readyForPickup_flex w hF hs hpost hloc hin (kind_of_post hs hm)
        obtain ⟨rdy, hrdy, h⟩ := except_bind_eq_ok h
        rw [hr] at hrdy
        injection hrdy with hrdy
        subst hrdy
        simp at h
        exact ⟨_, h.symm⟩
      · unfold waitProcessing at h
        cases hpr : j.processing? with
        | none => simp [hpr] at h
        | some op =>
          simp [hpr] at h
          obtain ⟨_, _, hl, _, hst⟩ := processing?_split' hpr
          obtain ⟨a, b, _, hb, _⟩ := (OpsOK_mem _ _ (hS.ops j hj'.1) op (by rw [hl]; simp)).2.1 hst
          rw [hb] at h; simp at h
          exact ⟨_, h.symm⟩

/-- what an AGV transition does to the `occupied_till` of its AGV -/
theorem agv_occ_effect (w : WF inst) (hF : FlexInst inst) {s s' : State} {r r' : Rng} {tr : Transition} {tid : Nat}
    (hI : StructInv inst s) (hS : SchedInv s) (hc : tr.comp = .t tid)
    (h : applyTransition orc inst s r tr = .ok (s', r')) :
    ∃ t0 t', t0 ∈ s.transports ∧ t'.id = t0.id ∧ s'.transports = (s.replaceTransport t').transports ∧
      (t'.st ≠ .idle → ∃ e, t'.occ = .at e) := by
  unfold applyTransition at h
  simp only [hc] at h
  obtain ⟨t0, ht0, h⟩ := except_bind_eq_ok h
  unfold handleTransportTransition at h
  obtain ⟨t, ht, h⟩ := except_bind_eq_ok h
  rw [ht0] at ht; simp at ht; subst ht
  have hmem := getTransport_ok ht0
  obtain ⟨tc, _, h⟩ := except_bind_eq_ok h
  split at h
  · simp at h
  · obtain ⟨hd, hh, h⟩ := except_bind_eq_ok h
    cases hd with
    | idleToWorking =>
      obtain ⟨j, cur, target, src, bc, c, _, _, _, _, _, _, _, _, _, rfl⟩ := idleToWorking_spec h
      exact ⟨t0, t0.toPickup cur bc.id target (s.time + c.cur orc r) j.id, hmem.1, rfl, rfl, fun _ => ⟨_, rfl⟩⟩
    | pickupToWaitingpickup =>
      obtain ⟨occ, hocc, _, _, rfl⟩ := pickupToWaiting_spec h
      exact ⟨t0, t0.toWaiting occ, hmem.1, rfl, rfl, fun _ => getWaitingTime_at w hF hI hS hocc⟩
    | waitingPickupToWaitingPickup =>
      obtain ⟨occ, hocc, _, rfl⟩ := waitingToWaiting_spec h
      exact ⟨t0, t0.toWaiting occ, hmem.1, rfl, rfl, fun _ => getWaitingTime_at w hF hI hS hocc⟩
    | outageToIdle =>
      obtain ⟨_, rfl⟩ := agvOutageToIdle_spec h
      exact ⟨t0, t0.toIdle, hmem.1, rfl, rfl, fun hne => absurd rfl hne⟩
    | pickupToTransit =>
      obtain ⟨j, src, dst, tt, bss1, bss2, _, _, _, _, _, hcase⟩ := pickupToTransit_spec h
      refine ⟨t0, t0.toTransit (s.time + tt) j.id bss2, hmem.1, rfl, ?_, fun _ => ⟨_, rfl⟩⟩
      rcases hcase with ⟨fb, _, _, _, _, _, rfl⟩ | ⟨mid, ms, bs, ms', _, _, _, _, _, _, _, rfl⟩ <;> rfl
    | transitToOutage =>
      obtain ⟨j, cur, pick, drop, tc, outs, bss1, bss2, _, _, _, _, _, _, _, hcase⟩ := transitToOutage_spec h
      refine ⟨t0, t0.toOutage j.id bss1 outs (s.time + occupiedFor outs) drop, hmem.1, rfl, ?_, fun _ => ⟨_, rfl⟩⟩
      rcases hcase with ⟨mid, ms, _, _, _, _, rfl⟩ | ⟨bid, b, _, _, _, _, rfl⟩ <;> rfl

/-- **one transition keeps `NoDep`** in an instance with unordered buffers -/
theorem applyTransition_noDep (w : WF inst) (hF : FlexInst inst) {s s' : State} {r r' : Rng} {tr : Transition}
    (hI : StructInv inst s) (hS : SchedInv s) (hN : NoDep s)
    (h : applyTransition orc inst s r tr = .ok (s', r')) : NoDep s' := by
  cases hc : tr.comp with
  | b bid =>
    unfold applyTransition at h
    simp only [hc] at h
    obtain ⟨_, _, h⟩ := except_bind_eq_ok h
    simp at h
  | m mid =>
    have := (machine_effect w hI hc h).2.1
    intro t ht
    rw [this] at ht
    exact hN t ht
  | t tid =>
    obtain ⟨t0, t', ht0, hid, htr, hocc⟩ := agv_occ_effect w hF hI hS hc h
    intro x hx
    rw [htr] at hx
    rcases (mem_replaceTransport (hI.shape.trNodup w) ht0 hid x).mp hx with rfl | ⟨hx0, _⟩
    · exact hocc
    · exact hN x hx0

theorem NoDep.of_rest {s : State} (h : restB s = true) : NoDep s := by
  simp only [restB, Bool.and_eq_true, List.all_eq_true, beq_iff_eq, List.isEmpty_iff, Option.isNone_iff_eq_none] at h
  obtain ⟨_, ht⟩ := h
  intro t ht' hb
  exact absurd (ht t ht').1.1.1 hb

/-- **The progress pass**: the full AGV invariant together with `NoDep`. -/
def ProgressPass (orc : Oracle) (inst : Instance) (cfg : SMConfig) (w : WF inst) (hF : FlexInst inst) :
    Pass orc inst cfg where
  P := fun s => AgvFull inst s ∧ NoDep s
  GS := FullGS
  Adm := AdmOffer inst cfg
  tail := fun h => (FullPass orc inst cfg w).tail h
  step := fun hI hS hP hv hsafe hfresh hgs ha =>
    ⟨⟨((FullPass orc inst cfg w).step hI hS hP.1 hv hsafe hfresh hgs ha).1, applyTransition_noDep w hF hI hS hP.2 ha⟩,
     ((FullPass orc inst cfg w).step hI hS hP.1 hv hsafe hfresh hgs ha).2⟩
  advance := fun hI hS hP hle hpg => ⟨(FullPass orc inst cfg w).advance hI hS hP.1 hle hpg, hP.2⟩
  timed := fun hI hS hP htt hposs htele => (FullPass orc inst cfg w).timed hI hS hP.1 htt hposs htele
  timedOnly := fun hI hS hP htt => (FullPass orc inst cfg w).timedOnly hI hS hP.1 htt
  action := fun hI hS hP hadm => (FullPass orc inst cfg w).action hI hS hP.1 hadm

/-- the full AGV invariant and `NoDep` along every execution the environment produces -/
theorem occursF_progress {cfg : SMConfig} {s0 σ : State} (hst : Start orc inst s0) (hF : FlexInst inst)
    (h : OccursF orc inst cfg s0 σ) : AgvFull inst σ ∧ NoDep σ := by
  obtain ⟨w, _⟩ := initOKB_sound hst.init
  have nn := nonnegB_sound hst.samples hst.nonneg
  induction h with
  | init => exact ⟨AgvFull.of_rest hst.rest hst.placed, NoDep.of_rest hst.rest⟩
  | result hprev ha hc hstep hnd ih =>
    obtain ⟨_, hI, hS⟩ := occursA_inv hst hprev.toC.toA
    exact ((ProgressPass orc inst cfg w hF).smStep w nn hI hS ih ha hc hstep).2.2.2 hnd
  | sub hprev ha hc hstep hσ ih =>
    obtain ⟨_, hI, hS⟩ := occursA_inv hst hprev.toC.toA
    exact ((ProgressPass orc inst cfg w hF).smStep w nn hI hS ih ha hc hstep).2.1 _ hσ
  | micro hprev ha hc hstep hσ ih =>
    obtain ⟨_, hI, hS⟩ := occursA_inv hst hprev.toC.toA
    exact ((ProgressPass orc inst cfg w hF).smStep w nn hI hS ih ha hc hstep).1 _ hσ

/-! ## no "zero offers although not done" -/

/-- a state that, unless it is finished, has an offer -/
def Offers (inst : Instance) (cfg : SMConfig) (s : State) : Prop :=
  isDone inst s = false → ∀ poss, possibleTransitions inst cfg s = .ok poss → poss ≠ []

theorem poss_ne_of_count {cfg : SMConfig} {s : State} {n : Nat} (hn : numPossibleEvents inst cfg s = .ok n) (hpos : 0 < n)
    {poss : List Transition} (hp : possibleTransitions inst cfg s = .ok poss) : poss ≠ [] := by
  unfold numPossibleEvents at hn
  obtain ⟨pt, hpt, hn⟩ := except_bind_eq_ok hn
  obtain ⟨pj, hpj, hn⟩ := except_bind_eq_ok hn
  simp at hn; subst hn
  unfold possibleTransitions at hp
  obtain ⟨pj', hpj', hp⟩ := except_bind_eq_ok hp
  obtain ⟨pt', hpt', hp⟩ := except_bind_eq_ok hp
  obtain ⟨mt, hmt, hp⟩ := except_bind_eq_ok hp
  simp at hp; subst hp
  rw [hpj] at hpj'; injection hpj' with e1; subst e1
  rw [hpt] at hpt'; injection hpt' with e2; subst e2
  intro e
  obtain ⟨e1, e2⟩ := List.append_eq_nil_iff.mp e
  subst e2
  cases pj with
  | nil => simp at hpos
  | cons j rest =>
    obtain ⟨y, hy, _⟩ := (mapM_ok_mem hmt).1 j (by simp)
    rw [e1] at hy; cases hy

/-- a forced jump from a state in which something is pending lands on an instant at which
something is due -/
theorem not_quiet_after_forceJump (w : WF inst) {s : State} (hI : StructInv inst s) (hS : SchedInv s)
    (hp : Pending s) {t : Int} (h : forceJump s = .ok t) : ¬ Quiet inst { s with time := t } := by
  intro hq
  rcases forceJump_pending hS hp h with ⟨j, hj, o, ho, hst, hstop⟩ | ⟨x, hx, hb, ho⟩
  · obtain ⟨m, hm, _, hbusy, hstore⟩ := hS.procOnBusy j hj o ho hst
    obtain ⟨_, op, hpr, _, hocc, _⟩ := busy_job hI hS w hm hbusy hj (by rw [hstore]; simp)
    obtain ⟨_, _, hl, _, hpst⟩ := processing?_split' hpr
    have hopm : op ∈ j.ops := by rw [hl]; simp
    have : o = op := OpsOK_one_processing _ _ (hS.ops j hj) o ho op hopm hst hpst
    subst this
    have hd := hq.machine (s := { s with time := t }) hm hbusy (by rw [hstore]; simp)
    rw [← hocc, hstop] at hd
    simp [dueAt] at hd
  · have := hq.transport (s := { s with time := t }) hx hb ho
    simp at this

/-- after an admissible time machine, if nothing is due, there is an offer (unless finished) -/
theorem offers_after_jump (w : WF inst) (hF : FlexInst inst) (hA : HasAgv inst) {cfg : SMConfig} {s : State}
    (hI : StructInv inst s) (hS : SchedInv s) (hP : AgvFull inst s) (hN : NoDep s) {tm : TimeMachine}
    (htm : tm ≠ .jumpByOne) {t : Int} (ht : runTimeMachine inst cfg s tm = .ok t)
    (hq : Quiet inst { s with time := t }) : Offers inst cfg { s with time := t } := by
  intro hnd poss hposs
  rw [possibleTransitions_time] at hposs
  have hnd' : isDone inst s = false := hnd
  rcases progress_state w hF hA hI hS hP hN hnd' hposs with h | hpend
  · exact h
  · cases tm with
    | jumpByOne => exact absurd rfl htm
    | forceJump =>
      simp [runTimeMachine] at ht
      exact absurd hq (not_quiet_after_forceJump w hI hS hpend ht)
    | jumpToEvent =>
      simp only [runTimeMachine, jumpToEvent] at ht
      obtain ⟨n, hn, ht⟩ := except_bind_eq_ok ht
      split at ht
      · rename_i hpos
        exact poss_ne_of_count hn hpos hposs
      · exact absurd hq (not_quiet_after_forceJump w hI hS hpend ht)

/-- the `while timed_transitions` loop: when it ends without failure in a state that is not
finished, that state has an offer -/
theorem timedLoop_offers (w : WF inst) (nn : NonNeg orc inst) (hF : FlexInst inst) (hA : HasAgv inst) {cfg : SMConfig} :
    ∀ (fuel : Nat) (tt : List Transition) (s : State) (r : Rng) (subs mic : List State) (out : LoopOut),
      StructInv inst s → SchedInv s → (AgvFull inst s ∧ NoDep s) → Safe s tt → Fresh tt → FullGS s tt →
      (tt = [] → Offers inst cfg s) →
      timedLoop orc inst cfg fuel tt s r subs mic = .ok out → out.failed = false → Offers inst cfg out.state := by
  intro fuel
  induction fuel with
  | zero =>
    intro tt s r subs mic out _ _ _ _ _ _ hg h _
    cases tt with
    | nil => simp [timedLoop] at h; subst h; exact hg rfl
    | cons a as => simp [timedLoop] at h
  | succ n ih =>
    intro tt s r subs mic out hI hS hP hsafe hfresh hgs hg h hnf
    cases tt with
    | nil => simp [timedLoop] at h; subst h; exact hg rfl
    | cons a as =>
      simp only [timedLoop] at h
      obtain ⟨o, ho, h⟩ := except_bind_eq_ok h
      have hp := processTransitions_sched w nn _ _ _ _ hI hS hsafe hfresh ho
      have hpI := processTransitions_struct w _ _ _ _ hI ho
      have hpP := (ProgressPass orc inst cfg w hF).process w nn _ _ _ _ hI hS hP hsafe hfresh hgs ho
      split at h
      · simp at h; subst h; simp at hnf
      · obtain ⟨t, ht, h⟩ := except_bind_eq_ok h
        obtain ⟨tt', htt', h⟩ := except_bind_eq_ok h
        have hadv := jumpToEvent_spec hp.1 ht
        have hS' := hp.1.advance hadv.1 hadv.2
        have hI' := hpI.1.time t
        have hP' := (ProgressPass orc inst cfg w hF).advance hpI.1 hp.1 hpP.1 hadv.1 hadv.2
        have hsf := timed_batch_safe w (tele := []) hI' hS' htt' (by simp)
        simp only [List.append_nil] at hsf
        refine ih _ _ _ _ _ _ hI' hS' hP' hsf.1 hsf.2
          ((ProgressPass orc inst cfg w hF).timedOnly hI' hS' hP' htt') ?_ h hnf
        intro e
        subst e
        exact offers_after_jump w hF hA hpI.1 hp.1 hpP.1.1 hpP.1.2 (tm := .jumpToEvent) (by simp)
          (by simpa [runTimeMachine] using ht) htt'

/-- **`state.step` never returns "zero offers although not done"** for an instance with unordered
buffers and an AGV: a successful step that does not finish the shop returns at least one offer. -/
theorem smStep_offers (w : WF inst) (nn : NonNeg orc inst) (hF : FlexInst inst) (hA : HasAgv inst) {cfg : SMConfig}
    {fuel : Nat} {s0 : State} {r : Rng} {a : Action} {res : SMResult} {r' : Rng} {mic : List State}
    (hI : StructInv inst s0) (hS : SchedInv s0) (hP : AgvFull inst s0 ∧ NoDep s0) (ha : Admissible a)
    (hadm : AdmOffer inst cfg s0 a) (h : smStep orc inst cfg fuel s0 r a = .ok (res, r', mic)) :
    res.success = true → res.done = false → res.possible ≠ [] := by
  unfold smStep at h
  obtain ⟨p, hp, h⟩ := except_bind_eq_ok h
  have hsf := offerShaped_safe (s := s0) (L := sortedByTransport a.transitions)
    (fun tr htr => ha.shaped tr (mem_sortedByTransport htr))
  have hp' := processTransitions_sched w nn _ _ _ _ hI hS hsf.1 hsf.2 hp
  have hpI := processTransitions_struct w _ _ _ _ hI hp
  have hpP := (ProgressPass orc inst cfg w hF).process w nn _ _ _ _ hI hS hP hsf.1 hsf.2
    ((ProgressPass orc inst cfg w hF).action hI hS hP hadm) hp
  split at h
  · simp at h
    obtain ⟨rfl, _, rfl⟩ := h
    simp
  · simp only at h
    obtain ⟨t, ht, h⟩ := except_bind_eq_ok h
    obtain ⟨timed, htimed, h⟩ := except_bind_eq_ok h
    obtain ⟨poss, hposs, h⟩ := except_bind_eq_ok h
    obtain ⟨tele, htele, h⟩ := except_bind_eq_ok h
    obtain ⟨out, hout, h⟩ := except_bind_eq_ok h
    have hadv := runTimeMachine_spec hp'.1 ha.tm ht
    have hS1 := hp'.1.advance hadv.1 hadv.2
    have hI1 := hpI.1.time t
    have hP1 := (ProgressPass orc inst cfg w hF).advance hpI.1 hp'.1 hpP.1 hadv.1 hadv.2
    have hbatch := timed_batch_safe w hI1 hS1 htimed (filterTeleport_shape hposs htele)
    have hg : timed ++ tele = [] → Offers inst cfg { p.state with time := t } := by
      intro e
      have : timed = [] := (List.append_eq_nil_iff.mp e).1
      subst this
      exact offers_after_jump w hF hA hpI.1 hp'.1 hpP.1.1 hpP.1.2 ha.tm ht htimed
    have hl := timedLoop_offers w nn hF hA _ _ _ _ _ _ _ hI1 hS1 hP1 hbatch.1 hbatch.2
      ((ProgressPass orc inst cfg w hF).timed hI1 hS1 hP1 htimed hposs htele) hg hout
    split at h
    · simp at h
      obtain ⟨rfl, _, rfl⟩ := h
      simp
    · rename_i hnf
      split at h
      · obtain ⟨e, _, h⟩ := except_bind_eq_ok h
        simp at h
        obtain ⟨rfl, _, rfl⟩ := h
        simp
      · rename_i hnd
        obtain ⟨poss', hposs', h⟩ := except_bind_eq_ok h
        simp at h
        obtain ⟨rfl, _, rfl⟩ := h
        intro _ _
        exact hl (by simpa using hnf) (by simpa using hnd) poss' hposs'

/-! ## the environment -/

/-- one state-machine step of the environment from a state of an episode -/
theorem smStep_good {cfg : SMConfig} {s0 s : State} (hst : Start orc inst s0) (hF : FlexInst inst) (hA : HasAgv inst)
    (hO : OccursF orc inst cfg s0 s) {a : Action} (ha : Admissible a) (hadm : AdmOffer inst cfg s a)
    {fuel : Nat} {r r' : Rng} {res : SMResult} {mic : List State}
    (hstep : smStep orc inst cfg fuel s r a = .ok (res, r', mic)) :
    (isDone inst res.state = false → OccursF orc inst cfg s0 res.state) ∧
    (res.success = true → isDone inst res.state = false → res.possible ≠ []) := by
  obtain ⟨w, hI, hS⟩ := occursA_inv hst hO.toC.toA
  have nn := nonnegB_sound hst.samples hst.nonneg
  have hP := occursF_progress hst hF hO
  have hoff := smStep_offers w nn hF hA hI hS hP ha hadm hstep
  rcases (smStep_spec hstep).2 with h1 | h1 | h1
  · refine ⟨fun _ => by rw [h1.2.2.1]; exact hO, fun hs => ?_⟩
    rw [h1.1] at hs; cases hs
  · refine ⟨fun hd => ?_, fun _ hd => ?_⟩ <;> (rw [h1.2.2.2] at hd; cases hd)
  · exact ⟨fun _ => OccursF.result hO ha hadm hstep h1.2.1, fun hs _ => hoff hs h1.2.1⟩

/-- what holds of every environment state of an episode of an instance with unordered buffers -/
structure EnvGood (orc : Oracle) (inst : Instance) (cfg : SMConfig) (s0 : State) (res : SMResult) : Prop where
  /-- the state held, unless finished, is a state of an execution the invariants are proved along -/
  occ : isDone inst res.state = false → OccursF orc inst cfg s0 res.state
  /-- a successful result that is not finished holds at least one offer -/
  offers : res.success = true → isDone inst res.state = false → res.possible ≠ []

theorem envReset_good {ec : EnvCfg} {s0 : State} (hst : Start orc inst s0) (hF : FlexInst inst) (hA : HasAgv inst)
    {r : Rng} {e : EnvState} {mic : List State} (h : envReset orc inst ec s0 r = .ok (e, mic)) :
    EnvGood orc inst ec.sm s0 e.res := by
  unfold envReset mwReset at h
  obtain ⟨⟨res, mw, r', mic'⟩, h1, h⟩ := except_bind_eq_ok h
  obtain ⟨⟨res', r'', mic''⟩, h2, h1⟩ := except_bind_eq_ok h1
  simp at h1 h
  obtain ⟨rfl, rfl, rfl, rfl⟩ := h1
  obtain ⟨rfl, rfl⟩ := h
  have := smStep_good hst hF hA OccursF.init admissible_noOp (Or.inl rfl) h2
  exact ⟨this.1, this.2⟩

theorem envStep_good {ec : EnvCfg} {st : RewardStatic} {s0 : State} (hst : Start orc inst s0) (hF : FlexInst inst)
    (hA : HasAgv inst) {e : EnvState} (hi : ResInv orc inst ec.sm s0 e.res) (hg : EnvGood orc inst ec.sm s0 e.res)
    {a : AgentAct} {out : StepOut} (h : envStep orc inst ec st e a = .ok out) :
    EnvGood orc inst ec.sm s0 out.env.res := by
  unfold envStep at h
  split at h
  · simp at h
  · obtain ⟨⟨res', mw, r, mic⟩, hm, h⟩ := except_bind_eq_ok h
    simp only at h
    obtain ⟨⟨rew, cnt⟩, _, h⟩ := except_bind_eq_ok h
    simp at h; subst h
    have key : EnvGood orc inst ec.sm s0 res' := by
      rcases mwStep_cases hm with ⟨o, o', rest, _, hp, e1, _, e3, _, _, _, _⟩ | ⟨act, hsub, hk, hs⟩
      · simp only at e1 e3
        refine ⟨fun hd => ?_, fun _ _ => ?_⟩
        · rw [e1] at hd ⊢; exact hg.occ hd
        · rw [e3]; simp
      · have hne : e.res.possible ≠ [] := by
          rcases hk with ⟨_, _, _, h⟩ | ⟨_, _, _, h⟩
          · exact h
          · intro h0; rw [h0] at h; simp at h
        have hl := hi.live hne
        have ha : Admissible act := by
          refine ⟨fun tr htr => hl.2 tr ?_, ?_⟩
          · have := hsub tr htr
            cases hp : e.res.possible with
            | nil => rw [hp] at this; simp at this
            | cons x xs => rw [hp] at this; simp at this; rw [this]; simp
          · rcases hk with ⟨_, h, _⟩ | ⟨_, h, _⟩ <;> rw [h] <;> simp
        have hadm : AdmOffer inst ec.sm e.res.state act := by
          obtain ⟨poss, hposs, hsub⟩ := hi.offersFrom hne
          rcases hk with ⟨_, _, ht, _⟩ | ⟨_, _, ht, _⟩
          · right
            cases hp : e.res.possible with
            | nil => exact absurd hp hne
            | cons x xs => exact ⟨poss, hposs, x, hsub x (by rw [hp]; simp), by rw [ht, hp]; rfl⟩
          · left; exact ht
        have := smStep_good hst hF hA (hi.liveF hne) ha hadm hs
        exact ⟨this.1, this.2⟩
    by_cases hsuc : res'.success = true
    · simp only [hsuc, if_true]; exact key
    · simp only [hsuc]
      exact hg

theorem envReach_good {ec : EnvCfg} {st : RewardStatic} {s0 : State} (hst : Start orc inst s0) (hF : FlexInst inst)
    (hA : HasAgv inst) {e : EnvState} (h : EnvReach orc inst ec st s0 e) : EnvGood orc inst ec.sm s0 e.res := by
  induction h with
  | reset h => exact envReset_good hst hF hA h
  | step hprev h ih => exact envStep_good hst hF hA (envReach_inv hst hprev) ih h

/-- **Progress of the environment (state form)**: in every state the environment holds during an
episode of an instance with unordered buffers and an AGV, unless the shop is finished, a transition
is on offer or something is pending. -/
theorem env_progress {ec : EnvCfg} {st : RewardStatic} {s0 : State} (hst : Start orc inst s0)
    (hF : flexInstB inst = true) (hA : hasAgvB inst = true) {e : EnvState} (h : EnvReach orc inst ec st s0 e)
    (hnd : isDone inst e.res.state = false) {poss : List Transition}
    (hposs : possibleTransitions inst ec.sm e.res.state = .ok poss) : poss ≠ [] ∨ Pending e.res.state := by
  have hF' := flexInstB_sound hF
  have hO := (envReach_good hst hF' (hasAgvB_sound hA) h).occ hnd
  obtain ⟨w, hI, hS⟩ := occursA_inv hst hO.toC.toA
  have hP := occursF_progress hst hF' hO
  exact progress_state w hF' (hasAgvB_sound hA) hI hS hP.1 hP.2 hnd hposs

/-- **No "zero offers although not done"**: every environment state of an episode of an instance
with unordered buffers and an AGV whose result is successful and whose shop is not finished holds
at least one offer. -/
theorem env_offers {ec : EnvCfg} {st : RewardStatic} {s0 : State} (hst : Start orc inst s0)
    (hF : flexInstB inst = true) (hA : hasAgvB inst = true) {e : EnvState} (h : EnvReach orc inst ec st s0 e)
    (hs : e.res.success = true) (hnd : isDone inst e.res.state = false) : e.res.possible ≠ [] :=
  (envReach_good hst (flexInstB_sound hF) (hasAgvB_sound hA) h).offers hs hnd

/-! ## non-vacuity, and why an AGV is required -/

namespace ExP

def orc0 : Oracle := fun _ _ => 0

theorem start_ex : Start orc0 Ex.inst Ex.s0 :=
  ⟨by decide, by decide, by decide, by decide, fun _ _ => Int.le_refl 0⟩

/-- the example instance (2 jobs × 2 machines, one AGV, FLEX buffers) meets the two guards -/
example : flexInstB Ex.inst = true ∧ hasAgvB Ex.inst = true := by decide

/-- so none of its episodes ever holds a successful, unfinished result without offers -/
example {ec : EnvCfg} {st : RewardStatic} {e : EnvState} (h : EnvReach orc0 Ex.inst ec st Ex.s0 e)
    (hs : e.res.success = true) (hnd : isDone Ex.inst e.res.state = false) : e.res.possible ≠ [] :=
  env_offers start_ex (by decide) (by decide) h hs hnd

/-- the same shop with a conveyor instead of the AGV -/
def instC : Instance :=
  { Ex.inst with transports := [{ id := 0, type := .conveyor, outages := [], buf := Ex.bc 6 1 .component (some (.t 0)) }] }

def okNil : Except Err (List Transition) → Bool
  | .ok [] => true
  | _ => false

theorem okNil_sound {x : Except Err (List Transition)} (h : okNil x = true) : x = .ok [] := by
  unfold okNil at h
  split at h
  · rfl
  · cases h

/-- **`HasAgv` is needed**: with unordered buffers but no AGV the initial state (which satisfies every
guard of `Start`) is not finished, offers nothing and has nothing pending -/
theorem no_agv_stuck : initOKB instC Ex.s0 = true ∧ restB Ex.s0 = true ∧ placedB instC Ex.s0 = true ∧
    flexInstB instC = true ∧ hasAgvB instC = false ∧ isDone instC Ex.s0 = false ∧
    possibleTransitions instC { allowEarly := true } Ex.s0 = .ok [] ∧
    possibleTransitions instC { allowEarly := false } Ex.s0 = .ok [] ∧ ¬ Pending Ex.s0 := by
  refine ⟨by decide, by decide, by decide, by decide, by decide, by decide, okNil_sound (by decide),
    okNil_sound (by decide), ?_⟩
  rintro (⟨j, hj, o, ho, hst, _⟩ | ⟨t, ht, hb, _⟩)
  · simp [Ex.s0, Ex.op] at hj
    rcases hj with rfl | rfl <;> simp at ho <;> rcases ho with rfl | rfl <;> simp at hst
  · simp [Ex.s0] at ht
    subst ht
    simp at hb

end ExP

end JSL
