import JSL.Inv.SetupSep
import JSL.Inv.EnvPass

/-!
# Setup separation with a stochastic setup time

`Setup*.lean` treat entries of a machine's setup matrix that are constants.  Here the entry at
`(tool of the predecessor, tool of the operation)` is a stochastic object `sid`: when the machine
accepts the operation (`IDLE → SETUP`) the handler reads the value and only then calls `update()`
(`TimeCfg.readUpd`), i.e. the value is `orc sid (r sid)` – a sample whose index may be 0 (the value
the object was created with).  The clauses mirror those of `SetupInv` with the constant replaced by
some sample `orc sid k`; the tool clauses (`mounted`, `mountedIdle`) are those of `SetupInv`, which
is carried along.
-/

namespace JSL

variable {orc : Oracle} {inst : Instance}

/-- the machine `mid` has the stochastic object `sid` configured as setup time for changing from the
tool of `p`'s operation to the tool of `b`'s operation (matrix read as `(from, to)`) -/
def stochSetup (inst : Instance) (mid : Nat) (p b : OpState) (sid : Nat) : Prop :=
  ∃ mc ∈ inst.machines, mc.id = mid ∧ ∃ tp tb, toolOf inst p = some tp ∧ toolOf inst b = some tb ∧
    mc.setup.lookup (tp, tb) = some (.stoch sid)

/-- `p` ends before `b` starts, by at least a sample of the setup time `tool p → tool b` -/
def SepS (orc : Oracle) (inst : Instance) (mid : Nat) (p b : OpState) : Prop :=
  tE p ≤ tS b ∧ ∀ sid, stochSetup inst mid p b sid → ∃ k, tE p + orc sid k ≤ tS b

/-- while `b` is being set up: its interval is exactly a sample of the setup time `tool p → tool b` -/
def SetupExactS (orc : Oracle) (inst : Instance) (mid : Nat) (p b : OpState) : Prop :=
  tE p ≤ tS b ∧ ∀ sid, stochSetup inst mid p b sid → ∃ k, tE b = tS b + orc sid k

/-- what is known about one machine -/
structure MachOKS (orc : Oracle) (inst : Instance) (R : List OpState) (m : MachineState) : Prop where
  setup : m.st = .setup → ∀ b, ProcOn R m.id b → ∀ a, DoneOn R m.id a →
    ∃ p, DoneOn R m.id p ∧ NotBefore a p ∧ SetupExactS orc inst m.id p b
  work : (m.st = .working ∨ m.st = .outage) → ∀ b, ProcOn R m.id b → ∀ a, DoneOn R m.id a →
    ∃ p, DoneOn R m.id p ∧ NotBefore a p ∧ SepS orc inst m.id p b

/-- finished records on one machine: every finished `b` is separated from its predecessor -/
def ChainS (orc : Oracle) (inst : Instance) (R : List OpState) : Prop :=
  ∀ b a, b ∈ R → a ∈ R → b.st = .done → a.st = .done → a.machine = b.machine → a ≠ b →
    tE b ≤ tS a ∨ ∃ p, DoneOn R b.machine p ∧ p ≠ b ∧ NotBefore a p ∧ SepS orc inst b.machine p b

structure SetupInvS (orc : Oracle) (inst : Instance) (s : State) : Prop where
  mach : ∀ m ∈ s.machines, MachOKS orc inst (recs s) m
  chain : ChainS orc inst (recs s)

/-! ## congruence -/

theorem stochSetup_congr {mid : Nat} {p b b' : OpState} (h1 : b'.job = b.job) (h2 : b'.idx = b.idx) {sid : Nat} :
    stochSetup inst mid p b' sid ↔ stochSetup inst mid p b sid := by
  unfold stochSetup; rw [toolOf_congr h1 h2]

/-- a machine whose records and phase did not change keeps its clauses -/
theorem MachOKS.congr {R R' : List OpState} {m m' : MachineState} (h : MachOKS orc inst R m)
    (hR : ∀ x, x.machine = m.id → (x ∈ R' ↔ x ∈ R)) (hid : m'.id = m.id) (hst : m'.st = m.st) :
    MachOKS orc inst R' m' := by
  have hd : ∀ {a}, DoneOn R' m'.id a → DoneOn R m.id a := fun ha =>
    ⟨(hR _ (by rw [ha.mach, hid])).mp ha.mem, by rw [ha.mach, hid], ha.st⟩
  have hd' : ∀ {a}, DoneOn R m.id a → DoneOn R' m'.id a := fun ha =>
    ⟨(hR _ ha.mach).mpr ha.mem, by rw [ha.mach, hid], ha.st⟩
  have hp : ∀ {a}, ProcOn R' m'.id a → ProcOn R m.id a := fun ha =>
    ⟨(hR _ (by rw [ha.mach, hid])).mp ha.mem, by rw [ha.mach, hid], ha.st⟩
  constructor
  · intro hs b hb a ha
    obtain ⟨p, h1, h2, h3⟩ := h.setup (by rw [← hst]; exact hs) b (hp hb) a (hd ha)
    exact ⟨p, hd' h1, h2, by rw [hid]; exact h3⟩
  · intro hs b hb a ha
    obtain ⟨p, h1, h2, h3⟩ := h.work (by rw [← hst]; exact hs) b (hp hb) a (hd ha)
    exact ⟨p, hd' h1, h2, by rw [hid]; exact h3⟩

/-- the chain of finished records only depends on the finished records -/
theorem ChainS.congr {R R' : List OpState} (h : ChainS orc inst R) (hR : ∀ x, x.st = .done → (x ∈ R' ↔ x ∈ R)) :
    ChainS orc inst R' := by
  intro b a hb ha hbs has hm hne
  rcases h b a ((hR b hbs).mp hb) ((hR a has).mp ha) hbs has hm hne with h1 | ⟨p, hp, h2, h3, h4⟩
  · exact Or.inl h1
  · exact Or.inr ⟨p, ⟨(hR p hp.st).mpr hp.mem, hp.mach, hp.st⟩, h2, h3, h4⟩

/-- same records, machines with the same id / phase: the invariant carries over -/
theorem SetupInvS.transfer {s s' : State} (h : SetupInvS orc inst s) (hR : ∀ x, x ∈ recs s' ↔ x ∈ recs s)
    (hm : ∀ m' ∈ s'.machines, ∃ m ∈ s.machines, m'.id = m.id ∧ m'.st = m.st ∧ m'.tool = m.tool) :
    SetupInvS orc inst s' := by
  constructor
  · intro m' hm'
    obtain ⟨m, hm0, e1, e2, _⟩ := hm m' hm'
    exact (h.mach m hm0).congr (fun x _ => hR x) e1 e2
  · exact h.chain.congr (fun x _ => hR x)

theorem SetupInvS.advance {s : State} (h : SetupInvS orc inst s) (t : Int) : SetupInvS orc inst { s with time := t } :=
  h.transfer (fun _ => Iff.rfl) (fun m hm => ⟨m, hm, rfl, rfl, rfl⟩)

theorem SetupInvS.of_time {s : State} {t : Int} (h : SetupInvS orc inst { s with time := t }) : SetupInvS orc inst s :=
  h.transfer (fun _ => Iff.rfl) (fun m hm => ⟨m, hm, rfl, rfl, rfl⟩)

/-- at rest nothing has started -/
theorem SetupInvS.of_rest {s : State} (h : restB s = true) : SetupInvS orc inst s := by
  simp only [restB, Bool.and_eq_true, List.all_eq_true, beq_iff_eq] at h
  obtain ⟨⟨_, hj⟩, _⟩ := h
  have idle : ∀ x ∈ recs s, x.st = .idle := by
    intro x hx
    obtain ⟨j, hj', hx'⟩ := mem_recs.mp hx
    exact hj j hj' x hx'
  constructor
  · intro m _
    constructor
    · intro _ b hb; have := idle b hb.mem; rw [hb.st] at this; cases this
    · intro _ b hb; have := idle b hb.mem; rw [hb.st] at this; cases this
  · intro b a hb _ hbs
    have := idle b hb; rw [hbs] at this; cases this

/-! ## the four machine handlers -/

variable {s s' : State} {m0 M' : MachineState} {target rec : OpState}

/-- the machines other than the acting one keep their clauses -/
theorem RecStep.invS (w : WF inst) (hI : StructInv inst s) (hP : SetupInvS orc inst s) (h : RecStep s s' m0 M' target rec)
    (hM : MachOKS orc inst (recs s') M') (hC : ChainS orc inst (recs s')) : SetupInvS orc inst s' := by
  refine ⟨?_, hC⟩
  intro m1 hm1
  rw [h.machines] at hm1
  rcases (mem_replaceMachine (hI.shape.machNodup w) h.hm0 h.mid m1).mp hm1 with rfl | ⟨hm1', hne⟩
  · exact hM
  · refine (hP.mach m1 hm1').congr ?_ rfl rfl
    intro x hx
    rw [h.rmem x]
    constructor
    · rintro (rfl | ⟨hx', _⟩)
      · exact absurd (hx.symm.trans h.recm) hne
      · exact hx'
    · intro hx'
      refine Or.inr ⟨hx', ?_⟩
      rintro rfl
      exact hne (hx.symm.trans h.tgm)

/-- `.time` then `update()` of a stochastic object: the current sample -/
theorem readUpd_stoch {c : TimeCfg} {sid : Nat} (r : Rng) (h : c = .stoch sid) :
    (c.readUpd orc r).1 = orc sid (r sid) := by
  subst h; rfl

/-- IDLE → SETUP: the accepted record spans exactly the sample read now of the setup time from the
tool of the last finished operation -/
theorem setup_step_acceptS (w : WF inst) (hI : StructInv inst s) (hS : SchedInv s) (hP : SetupInv inst s)
    (hPS : SetupInvS orc inst s)
    (h : RecStep s s' m0 M' target rec) (hst0 : m0.st = .idle) (hst' : M'.st = .setup) (htd : target.st ≠ .done)
    (hrs : rec.st = .processing) (hrS : tS rec = s.time) {tl : Nat}
    (hrt : toolOf inst rec = some tl) {mc : MachineCfg} (hmc : mc ∈ inst.machines) (hmcid : mc.id = m0.id)
    {c : TimeCfg} (hc : mc.setup.lookup (m0.tool, tl) = some c) {sd : Int} {r r' : Rng}
    (hsd : (sd, r') = c.readUpd orc r) (hrE : tE rec = s.time + sd) : SetupInvS orc inst s' := by
  have hrd : rec.st ≠ .done := by rw [hrs]; simp
  refine h.invS w hI hPS ?_ (hPS.chain.congr (h.done_same htd hrd))
  have hold := hP.mach m0 h.hm0
  constructor
  · intro _ b hb a ha
    have hbe := h.proc_is_rec w hI hS (Or.inl hst0) hb
    subst hbe
    rw [h.mid] at ha ⊢
    obtain ⟨p, hp, hnb, htp⟩ := hold.mountedIdle hst0 a (h.done_old hrd ha)
    refine ⟨p, h.done_new htd hp, hnb, ?_, ?_⟩
    · rw [hrS]; exact (done_times hS hp.mem hp.st).2.2.2
    · rintro sid ⟨mc', hmc', hid', tp, tb, e1, e2, e3⟩
      have : mc' = mc := eq_of_mem_of_key_eq (key := fun (y : MachineCfg) => y.id) w.machNodup hmc' hmc (by rw [hid', hmcid])
      subst this
      rw [htp] at e1; rw [hrt] at e2
      simp only [Option.some.injEq] at e1 e2
      subst e1 e2
      rw [hc] at e3
      simp only [Option.some.injEq] at e3
      have : sd = orc sid (r sid) := by
        have := congrArg Prod.fst hsd
        simp only at this
        rw [this, readUpd_stoch r e3]
      exact ⟨r sid, by rw [hrE, hrS, this]⟩
  · intro hw; rw [hst'] at hw; rcases hw with hw | hw <;> cases hw

/-- SETUP → WORKING (due): processing starts at least the sample after the predecessor ended -/
theorem setup_step_beginS (w : WF inst) (hI : StructInv inst s) (hS : SchedInv s) (hPS : SetupInvS orc inst s)
    (h : RecStep s s' m0 M' target rec) (hst0 : m0.st = .setup) (hst' : M'.st = .working)
    (htp : target.st = .processing) (hrs : rec.st = .processing) (hrS : tS rec = s.time)
    (hdue : tE target ≤ s.time) : SetupInvS orc inst s' := by
  have hrd : rec.st ≠ .done := by rw [hrs]; simp
  have htd : target.st ≠ .done := by rw [htp]; simp
  refine h.invS w hI hPS ?_ (hPS.chain.congr (h.done_same htd hrd))
  have hold := hPS.mach m0 h.hm0
  have htproc : ProcOn (recs s) m0.id target := ⟨h.tmem, h.tgm, htp⟩
  constructor
  · intro hs; rw [hst'] at hs; cases hs
  · intro _ b hb a ha
    have hbe := h.proc_is_rec w hI hS (Or.inr htp) hb
    subst hbe
    rw [h.mid] at ha ⊢
    obtain ⟨p, hp, hnb, hle, hex⟩ := hold.setup hst0 target htproc a (h.done_old hrd ha)
    refine ⟨p, h.done_new htd hp, hnb, ?_, ?_⟩
    · rw [hrS]; exact (done_times hS hp.mem hp.st).2.2.2
    · intro sid hd
      obtain ⟨k, hk⟩ := hex sid ((stochSetup_congr h.key.1 h.key.2).mp hd)
      exact ⟨k, by rw [hrS]; omega⟩

/-- WORKING → OUTAGE: the start of the record in progress does not change -/
theorem setup_step_extendS (w : WF inst) (hI : StructInv inst s) (hS : SchedInv s) (hPS : SetupInvS orc inst s)
    (h : RecStep s s' m0 M' target rec) (hst0 : m0.st = .working) (hst' : M'.st = .outage)
    (htp : target.st = .processing) (hrs : rec.st = .processing) (hrS : tS rec = tS target) : SetupInvS orc inst s' := by
  have hrd : rec.st ≠ .done := by rw [hrs]; simp
  have htd : target.st ≠ .done := by rw [htp]; simp
  refine h.invS w hI hPS ?_ (hPS.chain.congr (h.done_same htd hrd))
  have hold := hPS.mach m0 h.hm0
  have htproc : ProcOn (recs s) m0.id target := ⟨h.tmem, h.tgm, htp⟩
  constructor
  · intro hs; rw [hst'] at hs; cases hs
  · intro _ b hb a ha
    have hbe := h.proc_is_rec w hI hS (Or.inr htp) hb
    subst hbe
    rw [h.mid] at ha ⊢
    obtain ⟨p, hp, hnb, hle, hsep⟩ := hold.work (Or.inl hst0) target htproc a (h.done_old hrd ha)
    refine ⟨p, h.done_new htd hp, hnb, by rw [hrS]; exact hle, ?_⟩
    intro sid hd
    rw [hrS]; exact hsep sid ((stochSetup_congr h.key.1 h.key.2).mp hd)

/-- OUTAGE → IDLE: the finished record joins the chain -/
theorem setup_step_finishS (w : WF inst) (hI : StructInv inst s) (hS : SchedInv s) (hPS : SetupInvS orc inst s)
    (h : RecStep s s' m0 M' target rec) (hst0 : m0.st = .outage) (hst' : M'.st = .idle)
    (htp : target.st = .processing) (hrs : rec.st = .done) (hrS : tS rec = tS target) : SetupInvS orc inst s' := by
  have htd : target.st ≠ .done := by rw [htp]; simp
  have hold := hPS.mach m0 h.hm0
  have htproc : ProcOn (recs s) m0.id target := ⟨h.tmem, h.tgm, htp⟩
  -- an old finished record on the machine ended before the finishing record started
  have before : ∀ a, a ∈ recs s → a.st = .done → a.machine = m0.id → tE a ≤ tS rec := by
    intro a ha has ham
    rw [hrS]
    exact done_before_proc hS ha h.tmem (by rw [ham, h.tgm]) has htp
  have sepc : ∀ {p : OpState}, SepS orc inst m0.id p target → SepS orc inst m0.id p rec := by
    rintro p ⟨hle, hsep⟩
    refine ⟨by rw [hrS]; exact hle, ?_⟩
    intro sid hd
    rw [hrS]; exact hsep sid ((stochSetup_congr h.key.1 h.key.2).mp hd)
  refine h.invS w hI hPS ?_ ?_
  · constructor
    · intro hs; rw [hst'] at hs; cases hs
    · intro hw; rw [hst'] at hw; rcases hw with hw | hw <;> cases hw
  · intro b a hb ha hbs has hm hne
    rcases (h.rmem b).mp hb with rfl | ⟨hb0, hbt⟩
    · -- the record that has just finished
      rcases (h.rmem a).mp ha with rfl | ⟨ha0, _⟩
      · exact absurd rfl hne
      · right
        rw [h.recm] at hm ⊢
        obtain ⟨p, hp, hnb, hsep⟩ := hold.work (Or.inr hst0) target htproc a ⟨ha0, hm, has⟩
        refine ⟨p, h.done_new htd hp, ?_, hnb, sepc hsep⟩
        intro e
        have := rec_not_old w hI h.tmem h.key hp.mem e
        rw [this] at hp
        exact htd hp.st
    · rcases (h.rmem a).mp ha with rfl | ⟨ha0, _⟩
      · left
        exact before b hb0 hbs (by rw [← hm, h.recm])
      · rcases hPS.chain b a hb0 ha0 hbs has hm hne with h1 | ⟨p, hp, h2, h3, h4⟩
        · exact Or.inl h1
        · exact Or.inr ⟨p, h.done_new htd hp, h2, h3, h4⟩

/-! ## one transition -/

/-- **one transition keeps the stochastic setup invariant** (given the constant one, which supplies
the mounted tool) -/
theorem applyTransition_setupS (w : WF inst) {s s' : State} {r r' : Rng} {tr : Transition}
    {R : List Transition} (hI : StructInv inst s) (hS : SchedInv s) (hP : SetupInv inst s) (hPS : SetupInvS orc inst s)
    (hv : transitionValid s tr = .ok true) (hsafe : Safe s (tr :: R)) (hgs : DueW s (tr :: R))
    (h : applyTransition orc inst s r tr = .ok (s', r')) : SetupInvS orc inst s' := by
  have hs := hI.shape
  have hjn := hs.jobsNodup w
  have hI' := applyTransition_struct w hI hv h
  have hg := hsafe.guard
  have h0 := h
  unfold applyTransition at h
  unfold transitionValid at hv
  cases hc : tr.comp with
  | t tid => exact hPS.transfer (agv_recs w hI hI' hc h0) (agv_tool w hI hc h0)
  | b bid =>
    simp only [hc] at h
    obtain ⟨_, _, h⟩ := except_bind_eq_ok h
    simp at h
  | m mid =>
    simp only [hc] at h hv
    obtain ⟨m0, hm0, h⟩ := except_bind_eq_ok h
    obtain ⟨mv, hmv, hv⟩ := except_bind_eq_ok hv
    rw [hm0] at hmv; simp at hmv; subst hmv
    unfold handleMachineTransition at h
    obtain ⟨m, hm, h⟩ := except_bind_eq_ok h
    rw [hm0] at hm; simp at hm; subst hm
    have hmem := getMachine_ok hm0
    obtain ⟨hd, hh, h⟩ := except_bind_eq_ok h
    unfold machineHandlerOf at hh
    cases hn : tr.new with
    | t ns => simp [hn] at hh
    | m ns =>
      simp only [hn] at hh
      cases hmh : machineHandler m0.st ns with
      | none => simp [hmh] at hh
      | some hd' =>
        simp [hmh] at hh; subst hh
        cases hd' with
        | idleToSetup =>
          have hst := machineHandler_idleToSetup hmh
          obtain ⟨j, op, oc, mc, sd, b1, b2, hj, htj, _, hnn, hoc, hocj, hoci, hmc, hmcid, _, ⟨c, hcl, hsd⟩, rfl⟩ :=
            idleToSetup_spec h
          have hmach := valid_machine_job hjn hv (by simp [hst.1]) (by simp [hst.1]) j hj htj op hnn
          have hopm := find?_mem_ops hnn
          have hstep : RecStep s _ m0 (m0.toSetup j.id b1 b2 (s.time + sd) oc.tool) op (opRec oc s.time (s.time + sd) m0.id) :=
            RecStep.mk_of w hI (J' := (j.replaceOp (opRec oc s.time (s.time + sd) m0.id)).at m0.buffer.id)
              (s' := (s.replaceJob ((j.replaceOp (opRec oc s.time (s.time + sd) m0.id)).at m0.buffer.id)).replaceMachine
                (m0.toSetup j.id b1 b2 (s.time + sd) oc.tool)) hj hmem.1 hopm.1
              ⟨by simp [opRec, hocj], by simp [opRec, hoci]⟩ rfl rfl (by simp [MachineState.toSetup]) rfl rfl
              (by simp [opRec]) hmach
          exact setup_step_acceptS w hI hS hP hPS hstep hst.1 (by simp [MachineState.toSetup]) (by simpa using hopm.2)
            (by simp [opRec]) (by simp [tS, opRec]) (tl := oc.tool)
            (toolOf_of_cfg w hoc (by simp [opRec]) (by simp [opRec])) hmc hmcid hcl hsd (by simp [tE, opRec])
        | setupToWorking =>
          have hst := machineHandler_setupToWorking hmh
          obtain ⟨j, op, oc, d, hj, _, hjin, hnn, _, hocj, hoci, _, rfl⟩ := setupToWorking_spec h
          have hbusy : m0.st ≠ .idle := by rw [hst.1]; simp
          obtain ⟨_, op0, hp0, hmach0, hstop0, _⟩ := busy_job hI hS w hmem.1 hbusy hj hjin
          have hop0 : op0 = op := by
            have := nextNotDone_of_processing (hS.ops j hj) hp0
            rw [hnn] at this; simpa using this.symm
          subst hop0
          obtain ⟨_, _, hl, _, hpst⟩ := processing?_split' hp0
          have hopm : op0 ∈ j.ops := by rw [hl]; simp
          have hdue := hgs.due tr (by simp) mid hc (by rw [hn, hst.2]) m0 hmem.1 hmem.2
          have hdue' : tE op0 ≤ s.time := by
            unfold tE; rw [hstop0]
            cases hocc : m0.occ with
            | none => rw [hocc] at hdue; simp [dueAt] at hdue
            | some o => rw [hocc] at hdue; simpa [dueAt] using hdue
          have hstep : RecStep s _ m0 (m0.toWorking (s.time + d)) op0 (opRec oc s.time (s.time + d) m0.id) :=
            RecStep.mk_of w hI (J' := j.replaceOp (opRec oc s.time (s.time + d) m0.id))
              (s' := (s.replaceJob (j.replaceOp (opRec oc s.time (s.time + d) m0.id))).replaceMachine
                (m0.toWorking (s.time + d))) hj hmem.1 hopm
              ⟨by simp [opRec, hocj], by simp [opRec, hoci]⟩ rfl rfl (by simp [MachineState.toWorking]) rfl rfl
              (by simp [opRec]) hmach0
          exact setup_step_beginS w hI hS hPS hstep hst.1 (by simp [MachineState.toWorking])
            hpst (by simp [opRec]) (by simp [tS, opRec]) hdue'
        | workingToOutage =>
          have hst := machineHandler_workingToOutage hmh
          obtain ⟨mc, outs, j, op, _, _, _, hj, htj, hp, rfl⟩ := workingToOutage_spec h
          have hbusy : m0.st ≠ .idle := by rw [hst.1]; simp
          have hjin : j.id ∈ m0.buffer.store := hg.ownJob mid hc (by rw [hn, hst.2]) m0 hmem.1 hmem.2 j.id htj
          obtain ⟨_, op0, hp0, hmach0, _, _⟩ := busy_job hI hS w hmem.1 hbusy hj hjin
          have : op0 = op := by rw [hp] at hp0; simpa using hp0.symm
          subst this
          obtain ⟨_, _, hl, _, hpst⟩ := processing?_split' hp
          have hopm : op0 ∈ j.ops := by rw [hl]; simp
          have hstep : RecStep s _ m0 (m0.toOutage outs (s.time + occupiedFor outs)) op0
              { op0 with stop := some (s.time + occupiedFor outs) } :=
            RecStep.mk_of w hI (J' := j.replaceOp { op0 with stop := some (s.time + occupiedFor outs) })
              (s' := (s.replaceMachine (m0.toOutage outs (s.time + occupiedFor outs))).replaceJob
                (j.replaceOp { op0 with stop := some (s.time + occupiedFor outs) })) hj hmem.1 hopm
              ⟨rfl, rfl⟩ rfl rfl (by simp [MachineState.toOutage]) rfl rfl hmach0 hmach0
          exact setup_step_extendS w hI hS hPS hstep hst.1 (by simp [MachineState.toOutage])
            hpst (by simp [hpst]) (by simp [tS])
        | outageToIdle =>
          have hst := machineHandler_outageToIdle hmh
          obtain ⟨j, op, mc, rest, b1, b2, hstore, hj, hp, _, _, _, _, rfl⟩ := outageToIdle_spec h
          have hbusy : m0.st ≠ .idle := by rw [hst.1]; simp
          have hjin : j.id ∈ m0.buffer.store := by rw [hstore]; simp
          obtain ⟨_, op0, hp0, hmach0, _, _⟩ := busy_job hI hS w hmem.1 hbusy hj hjin
          have : op0 = op := by rw [hp] at hp0; simpa using hp0.symm
          subst this
          obtain ⟨_, _, hl, _, hpst⟩ := processing?_split' hp
          have hopm : op0 ∈ j.ops := by rw [hl]; simp
          have hstep : RecStep s _ m0 (m0.toIdle j.id b1 b2) op0 { op0 with stop := some s.time, st := .done } :=
            RecStep.mk_of w hI (J' := (j.replaceOp { op0 with stop := some s.time, st := .done }).at m0.post.id)
              (s' := (s.replaceJob ((j.replaceOp { op0 with stop := some s.time, st := .done }).at m0.post.id)).replaceMachine
                (m0.toIdle j.id b1 b2)) hj hmem.1 hopm
              ⟨rfl, rfl⟩ rfl rfl (by simp [MachineState.toIdle]) rfl rfl hmach0 hmach0
          exact setup_step_finishS w hI hS hPS hstep hst.1 (by simp [MachineState.toIdle])
            hpst rfl (by simp [tS])

/-! ## the pass -/

/-- the constant setup invariant together with the stochastic one -/
structure SetupBoth (orc : Oracle) (inst : Instance) (s : State) : Prop where
  det : SetupInv inst s
  stoch : SetupInvS orc inst s

/-- **The stochastic setup pass.** -/
def SetupStochPass (orc : Oracle) (inst : Instance) (cfg : SMConfig) (w : WF inst) : Pass orc inst cfg where
  P := SetupBoth orc inst
  GS := DueW
  Adm := fun _ a => ∀ tr ∈ a.transitions, OfferShaped tr
  tail := fun h => h.tail
  step := fun hI hS hP hv hsafe _ hgs ha => by
    obtain ⟨h1, h2⟩ := applyTransition_setup w hI hS hP.det hv hsafe hgs ha
    exact ⟨⟨h1, applyTransition_setupS w hI hS hP.det hP.stoch hv hsafe hgs ha⟩, h2⟩
  advance := fun _ _ hP _ _ => ⟨hP.det.advance _, hP.stoch.advance _⟩
  timed := fun hI hS _ htt hposs htele => timed_dueW w hI hS htt (filterTeleport_shape hposs htele)
  timedOnly := fun hI hS _ htt => by simpa using timed_dueW w hI hS (tele := []) htt (by simp)
  action := fun {s a} _ _ _ hadm => by
    have hsh : ∀ tr ∈ sortedByTransport a.transitions, ¬ (tr.new = .m .working) := by
      intro tr htr hn
      rcases hadm tr (mem_sortedByTransport htr) with e | e <;> rw [e] at hn <;> simp at hn
    refine ⟨fun tr htr mid _ hn => absurd hn (hsh tr htr), ?_⟩
    apply List.pairwise_of_forall_mem_list
    intro a _ b hb mid _ hn
    exact absurd hn (hsh b hb)

/-- the stochastic setup invariant along every admissible execution -/
theorem occursA_setupS {cfg : SMConfig} {s0 σ : State} (hst : Start orc inst s0) (h : OccursA orc inst cfg s0 σ) :
    SetupInvS orc inst σ := by
  obtain ⟨w, _⟩ := initOKB_sound hst.init
  exact (occursA_pass (SetupStochPass orc inst cfg w) hst ⟨SetupInv.of_rest hst.rest, SetupInvS.of_rest hst.rest⟩
    (fun _ _ ha => ha.shaped) h).stoch

/-- the state a step returns (its clock possibly stamped with the makespan) -/
theorem final_setupS {cfg : SMConfig} {s0 s : State} (hst : Start orc inst s0) (h : OccursA orc inst cfg s0 s)
    {a : Action} (ha : Admissible a) {fuel : Nat} {r r' : Rng} {res : SMResult} {mic : List State}
    (hstep : smStep orc inst cfg fuel s r a = .ok (res, r', mic)) : SetupInvS orc inst res.state := by
  obtain ⟨w, hI, hS⟩ := occursA_inv hst h
  have nn := nonnegB_sound hst.samples hst.nonneg
  have hP : SetupBoth orc inst s :=
    occursA_pass (SetupStochPass orc inst cfg w) hst ⟨SetupInv.of_rest hst.rest, SetupInvS.of_rest hst.rest⟩
      (fun _ _ ha => ha.shaped) h
  obtain ⟨t, ht⟩ := ((SetupStochPass orc inst cfg w).smStep w nn hI hS hP ha ha.shaped hstep).2.2.1
  exact SetupInvS.of_time ht.stoch

/-- **Every exposed state satisfies the stochastic setup invariant.** -/
theorem exposed_setupS {ec : EnvCfg} {st : RewardStatic} {s0 σ : State} (hst : Start orc inst s0)
    (h : Exposed orc inst ec st s0 σ) : SetupInvS orc inst σ := by
  obtain ⟨w, _⟩ := initOKB_sound hst.init
  obtain ⟨t, ht⟩ := exposed_pass (SetupStochPass orc inst ec.sm w) hst
    ⟨SetupInv.of_rest hst.rest, SetupInvS.of_rest hst.rest⟩ (fun _ _ ha => ha.shaped) h
  exact SetupInvS.of_time ht.stoch

/-! ## reading the invariant -/

/-- **Consecutive operations on one machine are separated by a sample of the setup time.**  In every
state an episode exposes: `a` and `b` are finished operations of one machine, `a` ended no later
than `b` started (one of the two has positive length), no third finished operation of that machine
lies between them, and the machine's setup matrix has the stochastic object `sid` at
`(tool of a, tool of b)`.  Then `b` started at `a.stop + orc sid k` or later for some sample index `k`. -/
theorem setup_separatesS {ec : EnvCfg} {st : RewardStatic} {s0 σ : State} (hst : Start orc inst s0)
    (h : Exposed orc inst ec st s0 σ)
    {ja jb : JobState} (hja : ja ∈ σ.jobs) (hjb : jb ∈ σ.jobs) {a b : OpState} (ha : a ∈ ja.ops) (hb : b ∈ jb.ops)
    (hda : a.st = .done) (hdb : b.st = .done) (hm : a.machine = b.machine)
    {sa ea sb eb : Int} (hsa : a.start = some sa) (hea : a.stop = some ea) (hsb : b.start = some sb) (heb : b.stop = some eb)
    (hab : ea ≤ sb) (hpos : sa < ea ∨ sb < eb)
    (hnone : ∀ jc ∈ σ.jobs, ∀ c ∈ jc.ops, c.st = .done → c.machine = b.machine → c ≠ a → c ≠ b →
      ∀ sc ec', c.start = some sc → c.stop = some ec' → ¬ (ea ≤ sc ∧ ec' ≤ sb))
    {mc : MachineCfg} (hmc : mc ∈ inst.machines) (hmcid : mc.id = b.machine)
    {ta tb : Nat} (hta : toolOf inst a = some ta) (htb : toolOf inst b = some tb)
    {sid : Nat} (hd : mc.setup.lookup (ta, tb) = some (.stoch sid)) : ∃ k, ea + orc sid k ≤ sb := by
  obtain ⟨_, _, t, hS⟩ := exposed_inv hst h
  have hP := exposed_setupS hst h
  have haR : a ∈ recs σ := mem_recs.mpr ⟨ja, hja, ha⟩
  have hbR : b ∈ recs σ := mem_recs.mpr ⟨jb, hjb, hb⟩
  have hta' := done_times (s := { σ with time := t }) hS haR hda
  have htb' := done_times (s := { σ with time := t }) hS hbR hdb
  have e1 := tS_of hsa; have e2 := tE_of hea; have e3 := tS_of hsb; have e4 := tE_of heb
  have hne : a ≠ b := by
    intro e; subst e
    omega
  rcases hP.chain b a hbR haR hdb hda hm hne with h1 | ⟨p, hp, hpb, hnb, hsep⟩
  · omega
  · by_cases hpa : p = a
    · subst hpa
      obtain ⟨k, hk⟩ := hsep.2 sid ⟨mc, hmc, hmcid, ta, tb, hta, htb, hd⟩
      exact ⟨k, by omega⟩
    · exfalso
      rcases hnb with e | hle
      · exact hpa e
      · obtain ⟨jc, hjc, hpc⟩ := mem_recs.mp hp.mem
        have htp := done_times (s := { σ with time := t }) hS hp.mem hp.st
        refine hnone jc hjc p hpc hp.st hp.mach hpa hpb (tS p) (tE p) htp.1 htp.2.1 ⟨by omega, ?_⟩
        have := hsep.1
        omega

/-- the operation in progress on a WORKING / OUTAGE machine started at least a sample of the setup
time after the last finished operation of that machine ended -/
theorem setup_separates_runningS {ec : EnvCfg} {st : RewardStatic} {s0 σ : State} (hst : Start orc inst s0)
    (h : Exposed orc inst ec st s0 σ) {m : MachineState} (hm : m ∈ σ.machines) (hms : m.st = .working ∨ m.st = .outage)
    {b p : OpState} (hb : ProcOn (recs σ) m.id b) (hp : LastDoneOn σ m.id p) :
    tE p ≤ tS b ∧ ∀ sid, stochSetup inst m.id p b sid → ∃ k, tE p + orc sid k ≤ tS b :=
  hp.pick (Φ := fun q => SepS orc inst m.id q b) (((exposed_setupS hst h).mach m hm).work hms b hb p hp.1)

/-- **During SETUP** the record of the accepted operation spans exactly a sample of the stochastic
entry of the machine's matrix at `(tool of the last finished operation, tool of the accepted
operation)`, and the machine is occupied until the end of that interval. -/
theorem setup_intervalS {ec : EnvCfg} {st : RewardStatic} {s0 σ : State} (hst : Start orc inst s0)
    (h : Exposed orc inst ec st s0 σ) {m : MachineState} (hm : m ∈ σ.machines) (hms : m.st = .setup)
    {b p : OpState} (hb : ProcOn (recs σ) m.id b) (hp : LastDoneOn σ m.id p) {sid : Nat}
    (hd : stochSetup inst m.id p b sid) :
    ∃ k, tE p ≤ tS b ∧ b.start = some (tS b) ∧ b.stop = some (tS b + orc sid k) ∧ m.occ = some (tS b + orc sid k) := by
  obtain ⟨w, hI, t, hS⟩ := exposed_inv hst h
  have hex : SetupExactS orc inst m.id p b :=
    hp.pick (Φ := fun q => SetupExactS orc inst m.id q b) (((exposed_setupS hst h).mach m hm).setup hms b hb p hp.1)
  have htb := proc_times (s := { σ with time := t }) hS hb.mem hb.st
  obtain ⟨k, hE⟩ := hex.2 sid hd
  have hbusy : m.st ≠ .idle := by rw [hms]; simp
  obtain ⟨j, hj, _, op, hop, hopm, hops, _⟩ := hS.busyHolds m hm hbusy
  obtain ⟨_, _, hl, _, hpst⟩ := processing?_split' hop
  have hopR : op ∈ recs σ := mem_recs.mpr ⟨j, hj, by rw [hl]; simp⟩
  have : op = b := proc_unique (s := { σ with time := t }) w (hI.time t) hS hopR hb.mem (by rw [hopm, hb.mach]) hpst hb.st
  subst this
  refine ⟨k, hex.1, htb.1, by rw [← hE]; exact htb.2.1, by rw [← hops, ← hE]; exact htb.2.1⟩

end JSL
