import JSL.Inv.ClassicTotalDefs
import JSL.Inv.ClassicMachTotal
import JSL.Inv.ClassicAgvTotalA
import JSL.Inv.ClassicAgvTotalB

/-!
# One applied transition keeps the classic invariant

`cinv_step`: for a classic instance, every enabled transition (`En`) that applies keeps `CInv`
(settledness: AGVs and machines in SETUP / OUTAGE are due now, claimed jobs lie at pickup places,
jobs in standalone non-output buffers are fresh, setup records have start = end).

The proof goes kind by kind (`En` has nine), each through the closed form of the handler that ran,
and field by field through three frame lemmas:

* `cinv_replaceTransport` – only one AGV record changes (dispatch, wait, release);
* `cinv_machine_step`     – one job record and one machine record change (the four machine kinds);
* `cinv_agv_move`         – one job is relocated, one AGV record changes, machines keep state and
                            `occupied_till` (pickup, delivery).
-/

namespace JSL

variable {orc : Oracle} {inst : Instance}

/-! ## replace-by-id: membership (the directions that need no side condition) -/

theorem cs_mem_repl {α} {key : α → Nat} {l : List α} {m' x : α}
    (hx : x ∈ l.map (fun y => if key y == key m' then m' else y)) : x = m' ∨ (x ∈ l ∧ key x ≠ key m') := by
  obtain ⟨y, hy, rfl⟩ := List.mem_map.mp hx
  by_cases h : key y = key m'
  · left; simp [h]
  · right; simp [h]; exact hy

theorem cs_mem_repl_keep {α} {key : α → Nat} {l : List α} {m' x : α} (hx : x ∈ l) (hne : key x ≠ key m') :
    x ∈ l.map (fun y => if key y == key m' then m' else y) :=
  List.mem_map.mpr ⟨x, hx, by simp [hne]⟩

theorem cs_mem_replaceJob {s : State} {J x : JobState} (hx : x ∈ (s.replaceJob J).jobs) :
    x = J ∨ (x ∈ s.jobs ∧ x.id ≠ J.id) := cs_mem_repl (key := fun (y : JobState) => y.id) hx

theorem cs_mem_replaceMachine {s : State} {M x : MachineState} (hx : x ∈ (s.replaceMachine M).machines) :
    x = M ∨ (x ∈ s.machines ∧ x.id ≠ M.id) := cs_mem_repl (key := fun (y : MachineState) => y.id) hx

theorem cs_mem_replaceTransport {s : State} {T x : TransportState} (hx : x ∈ (s.replaceTransport T).transports) :
    x = T ∨ (x ∈ s.transports ∧ x.id ≠ T.id) := cs_mem_repl (key := fun (y : TransportState) => y.id) hx

theorem cs_keep_replaceJob {s : State} {J x : JobState} (hx : x ∈ s.jobs) (hne : x.id ≠ J.id) :
    x ∈ (s.replaceJob J).jobs := cs_mem_repl_keep (key := fun (y : JobState) => y.id) hx hne

theorem cs_mem_replaceOp {j : JobState} {o' o : OpState} (ho : o ∈ (j.replaceOp o').ops) : o ∈ j.ops ∨ o = o' := by
  unfold JobState.replaceOp at ho
  obtain ⟨y, hy, rfl⟩ := List.mem_map.mp ho
  by_cases h : (y.job == o'.job && y.idx == o'.idx) = true
  · right; simp [h]
  · left; simp [h]; exact hy

theorem cs_lookup_mem {α β} [BEq α] [LawfulBEq α] {k : α} {v : β} : ∀ {l : List (α × β)}, l.lookup k = some v → (k, v) ∈ l
  | [], h => by simp at h
  | (a, b) :: l, h => by
    by_cases e : k == a
    · simp [List.lookup, e] at h
      have : k = a := by simpa using e
      subst this; subst h; simp
    · simp [List.lookup, e] at h
      exact List.mem_cons_of_mem _ (cs_lookup_mem h)

/-! ## places and buffer ids -/

theorem cs_loc_m_mem {s : State} (hs : Shape inst s) {m : MachineState} (hm : m ∈ s.machines) :
    Loc.m m.id ∈ locsOf inst := by
  obtain ⟨mc, hmc, hk⟩ := mem_of_map_eq hs.machineIds hm
  unfold locsOf
  exact List.mem_append.mpr (Or.inl (List.mem_map.mpr ⟨mc, hmc, by rw [hk]⟩))

theorem cs_loc_b_mem {s : State} (hs : Shape inst s) {b : BufState} (hb : b ∈ s.buffers) :
    Loc.b b.id ∈ locsOf inst := by
  obtain ⟨bc, hbc, hk⟩ := mem_of_map_eq hs.buffers hb
  unfold locsOf
  exact List.mem_append.mpr (Or.inr (List.mem_map.mpr ⟨bc, hbc, by rw [hk]⟩))

/-- the buffers of a machine are no standalone buffers -/
theorem cs_machine_not_standalone (w : WF inst) {s : State} (hs : Shape inst s) {m : MachineState} (hm : m ∈ s.machines) :
    m.pre.id ∉ inst.buffers.map (·.id) ∧ m.buffer.id ∉ inst.buffers.map (·.id) ∧
      m.post.id ∉ inst.buffers.map (·.id) := by
  have hp := (ids_parts hs w).1
  rw [← hs.buffers]
  refine ⟨?_, ?_, ?_⟩ <;> intro h <;> obtain ⟨b, hb, e⟩ := List.mem_map.mp h
  · exact (hp b hb m hm).1 e
  · exact (hp b hb m hm).2.1 e
  · exact (hp b hb m hm).2.2 e

/-- the buffer of an AGV is no standalone buffer -/
theorem cs_transport_not_standalone (w : WF inst) {s : State} (hs : Shape inst s) {t : TransportState}
    (ht : t ∈ s.transports) : t.buffer.id ∉ inst.buffers.map (·.id) := by
  rw [← hs.buffers]
  intro h
  obtain ⟨b, hb, e⟩ := List.mem_map.mp h
  exact (ids_parts hs w).2.1 b hb t ht e

/-- pre-buffers and internal buffers are no pickup places -/
theorem cs_machine_not_pickup (w : WF inst) {s : State} (hs : Shape inst s) {m : MachineState} (hm : m ∈ s.machines) :
    m.pre.id ∉ pickupPlaces inst ∧ m.buffer.id ∉ pickupPlaces inst := by
  have hns := cs_machine_not_standalone w hs hm
  have sub : ∀ i, i ∈ (inst.buffers.filter (·.role != .output)).map (·.id) → i ∈ inst.buffers.map (·.id) := by
    intro i hi
    obtain ⟨b, hb, e⟩ := List.mem_map.mp hi
    exact List.mem_map.mpr ⟨b, (List.mem_filter.mp hb).1, e⟩
  have post : ∀ i, i ∈ inst.machines.map (·.post.id) → ∃ m2 ∈ s.machines, m2.post.id = i := by
    intro i hi
    obtain ⟨mc, hmc, e⟩ := List.mem_map.mp hi
    obtain ⟨m2, hm2, hk⟩ := mem_of_map_eq hs.machines.symm hmc
    simp only [mKey, mcKey, Prod.mk.injEq] at hk
    exact ⟨m2, hm2, by rw [← hk.2.2.2, e]⟩
  unfold pickupPlaces
  constructor
  · intro h
    rcases List.mem_append.mp h with h | h
    · exact hns.1 (sub _ h)
    · obtain ⟨m2, hm2, e⟩ := post _ h
      by_cases hid : m.id = m2.id
      · have : m = m2 := eq_of_mem_of_key_eq (key := fun (y : MachineState) => y.id) (hs.machNodup w) hm hm2 hid
        subst this
        exact (machine_buf_ids_ne hs w hm).2.1 e.symm
      · exact machines_bufs_ne hs w hm hm2 hid _ (by simp) _ (by simp) e.symm
  · intro h
    rcases List.mem_append.mp h with h | h
    · exact hns.2.1 (sub _ h)
    · obtain ⟨m2, hm2, e⟩ := post _ h
      exact (internal_ne_pre_post hs w hm hm2).2 e.symm

/-- the post-buffer of a machine is a pickup place -/
theorem cs_post_pickup {s : State} (hs : Shape inst s) {m : MachineState} (hm : m ∈ s.machines) :
    m.post.id ∈ pickupPlaces inst := by
  obtain ⟨mc, hmc, hk⟩ := mem_of_map_eq hs.machines hm
  simp only [mKey, mcKey, Prod.mk.injEq] at hk
  unfold pickupPlaces
  exact List.mem_append.mpr (Or.inr (List.mem_map.mpr ⟨mc, hmc, hk.2.2.2.symm⟩))

/-- where a stored job lies -/
theorem cs_loc_of_store (w : WF inst) {s : State} (hI : StructInv inst s) {j : JobState} (hj : j ∈ s.jobs)
    {b : BufState} (hb : b ∈ allBufStates s) (hin : j.id ∈ b.store) : j.loc = b.id :=
  job_of_store hI.cons hj (by rw [storeAt_of_mem (hI.shape.bufNodup w) hb]; exact hin) (hI.shape.jobsNodup w)

/-! ## the per-AGV part of `CInv` -/

structure TGood (inst : Instance) (s : State) (t : TransportState) : Prop where
  noDep : ∀ b j tr, t.occ ≠ .dep b j tr
  noWorking : t.st ≠ .working
  claimed : t.st = .pickup ∨ t.st = .waitingpickup →
    ∃ j ∈ s.jobs, t.job = some j.id ∧ j.loc ∈ pickupPlaces inst
  due : t.st ≠ .idle → ∃ c, t.occ = .at c ∧ c ≤ s.time
  parked : t.st = .idle ∨ t.st = .outage → ∃ l, t.loc = .at l ∧ l ∈ locsOf inst

theorem CInv.tgood {s : State} (h : CInv inst s) {t : TransportState} (ht : t ∈ s.transports) : TGood inst s t :=
  ⟨h.noDep t ht, h.noWorking t ht, h.claimed t ht, h.agvDue t ht, h.parked t ht⟩

/-- an AGV record that is good in `s` is good in `s'` when the clock is the same and the job it claims (lying at
a pickup place) is still a job lying at a pickup place -/
theorem TGood.frame {s s' : State} {t : TransportState} (h : TGood inst s t) (htime : s'.time = s.time)
    (hjobs : ∀ j ∈ s.jobs, t.job = some j.id → j.loc ∈ pickupPlaces inst →
      ∃ j' ∈ s'.jobs, j'.id = j.id ∧ j'.loc ∈ pickupPlaces inst) : TGood inst s' t := by
  refine ⟨h.noDep, h.noWorking, ?_, ?_, h.parked⟩
  · intro hst
    obtain ⟨j, hj, e, hl⟩ := h.claimed hst
    obtain ⟨j', hj', e', hl'⟩ := hjobs j hj e hl
    exact ⟨j', hj', by rw [e, e'], hl'⟩
  · intro hst
    obtain ⟨c, e, hle⟩ := h.due hst
    exact ⟨c, e, by rw [htime]; exact hle⟩

/-! ## three frame lemmas -/

/-- only one AGV record changes -/
theorem cinv_replaceTransport {s : State} (hc : CInv inst s) {t' : TransportState} (hg : TGood inst s t') :
    CInv inst (s.replaceTransport t') := by
  have key : ∀ t ∈ (s.replaceTransport t').transports, TGood inst s t := by
    intro t ht
    rcases cs_mem_replaceTransport ht with rfl | ⟨ht', _⟩
    · exact hg
    · exact hc.tgood ht'
  exact ⟨fun t ht => (key t ht).noDep, fun t ht => (key t ht).noWorking, fun t ht => (key t ht).claimed,
    fun t ht => (key t ht).due, fun t ht => (key t ht).parked, hc.fresh, hc.machDue, hc.setupRec⟩

/-- one job record (`j ↦ J`) and one machine record (`m ↦ M`) change; the job does not lie at a pickup place
before, and lies in no standalone buffer after -/
theorem cinv_machine_step (w : WF inst) {s s' : State} (hs : Shape inst s) (hS : SchedInv s) (hc : CInv inst s)
    {j J : JobState} {m M : MachineState} (hj : j ∈ s.jobs) (hm : m ∈ s.machines) (hJid : J.id = j.id)
    (hMid : M.id = m.id) (htime : s'.time = s.time) (htr : s'.transports = s.transports)
    (hjobs : s'.jobs = (s.replaceJob J).jobs) (hmach : s'.machines = (s.replaceMachine M).machines)
    (hloc : j.loc ∉ pickupPlaces inst) (hJloc : J.loc ∉ inst.buffers.map (·.id))
    (hdue : M.st = .setup ∨ M.st = .outage → ∃ c, M.occ = some c ∧ c ≤ s.time)
    (hops : ∀ o ∈ J.ops, o ∈ j.ops ∨ o.machine = m.id ∨ o.st ≠ .processing)
    (hnew : M.st = .setup → m.st = .idle ∧ ∀ o ∈ J.ops, o ∈ j.ops ∨ o.start = o.stop) :
    CInv inst s' := by
  have hjn := hs.jobsNodup w
  have hmn := hs.machNodup w
  have key : ∀ t ∈ s'.transports, TGood inst s' t := by
    intro t ht
    rw [htr] at ht
    refine (hc.tgood ht).frame htime ?_
    intro j0 hj0 _ hl
    have hne : j0.id ≠ J.id := by
      intro e
      have : j0 = j := eq_of_mem_of_key_eq (key := fun (y : JobState) => y.id) hjn hj0 hj (by rw [e, hJid])
      subst this
      exact hloc hl
    exact ⟨j0, by rw [hjobs]; exact cs_keep_replaceJob hj0 hne, rfl, hl⟩
  -- a processing record on machine `m` while `m` is idle: impossible
  have idle_no_proc : m.st = .idle → ∀ j0 ∈ s.jobs, ∀ o ∈ j0.ops, o.st = .processing → o.machine = m.id → False := by
    intro hidle j0 hj0 o ho hp hmm
    obtain ⟨m2, hm2, hid2, hbusy, _⟩ := hS.procOnBusy j0 hj0 o ho hp
    have : m2 = m := eq_of_mem_of_key_eq (key := fun (y : MachineState) => y.id) hmn hm2 hm (by rw [hid2, hmm])
    subst this
    exact hbusy hidle
  refine ⟨fun t ht => (key t ht).noDep, fun t ht => (key t ht).noWorking, fun t ht => (key t ht).claimed,
    fun t ht => (key t ht).due, fun t ht => (key t ht).parked, ?_, ?_, ?_⟩
  · intro j' hj' h1 h2
    rw [hjobs] at hj'
    rcases cs_mem_replaceJob hj' with rfl | ⟨hj0, _⟩
    · exact absurd h1 hJloc
    · exact hc.fresh j' hj0 h1 h2
  · intro m' hm' hst
    rw [hmach] at hm'
    rw [htime]
    rcases cs_mem_replaceMachine hm' with rfl | ⟨hm0, _⟩
    · exact hdue hst
    · exact hc.machDue m' hm0 hst
  · intro m' hm' hst j' hj' o ho hp hmm
    rw [hmach] at hm'
    rw [hjobs] at hj'
    rcases cs_mem_replaceMachine hm' with rfl | ⟨hm0, hne⟩
    · obtain ⟨hidle, hJ⟩ := hnew hst
      rw [hMid] at hmm
      rcases cs_mem_replaceJob hj' with rfl | ⟨hj0, _⟩
      · rcases hJ o ho with ho' | e
        · exact (idle_no_proc hidle j hj o ho' hp hmm).elim
        · exact e
      · exact (idle_no_proc hidle j' hj0 o ho hp hmm).elim
    · rcases cs_mem_replaceJob hj' with rfl | ⟨hj0, _⟩
      · rcases hops o ho with ho' | e | e
        · exact hc.setupRec m' hm0 hst j hj o ho' hp hmm
        · exact absurd (by rw [← hmm, e, hMid]) hne
        · exact absurd hp e
      · exact hc.setupRec m' hm0 hst j' hj0 o ho hp hmm

/-- one job `j`, claimed by AGV `t`, is relocated to `l` (not a standalone buffer, or an output buffer), the record of
`t` changes, machines keep their state and `occupied_till` -/
theorem cinv_agv_move {s s' : State} (hA : AgvInv s) (hc : CInv inst s)
    {j : JobState} {t t' : TransportState} {l : Nat} (hj : j ∈ s.jobs) (ht : t ∈ s.transports)
    (hclaim : t.job = some j.id) (hid : t'.id = t.id) (htime : s'.time = s.time)
    (hjobs : s'.jobs = (s.replaceJob (j.at l)).jobs) (htrs : s'.transports = (s.replaceTransport t').transports)
    (hmach : ∀ m' ∈ s'.machines, ∃ m ∈ s.machines, m.id = m'.id ∧ m.st = m'.st ∧ m.occ = m'.occ)
    (hl : l ∈ inst.buffers.map (·.id) → l ∈ outputIds inst) (hgood : TGood inst s' t') : CInv inst s' := by
  have key : ∀ t2 ∈ s'.transports, TGood inst s' t2 := by
    intro t2 ht2
    rw [htrs] at ht2
    rcases cs_mem_replaceTransport ht2 with rfl | ⟨ht2', hne⟩
    · exact hgood
    · refine (hc.tgood ht2').frame htime ?_
      intro j0 hj0 e hloc
      have hne' : j0.id ≠ (j.at l).id := by
        intro e'
        simp only [JobState.at_id] at e'
        exact hne (by rw [hid]; exact hA.unique t2 ht2' t ht j.id (by rw [e, e']) hclaim)
      exact ⟨j0, by rw [hjobs]; exact cs_keep_replaceJob hj0 hne', rfl, hloc⟩
  -- every job of `s'` has the records of a job of `s`
  have hrec : ∀ j' ∈ s'.jobs, ∃ j0 ∈ s.jobs, j'.ops = j0.ops := by
    intro j' hj'
    rw [hjobs] at hj'
    rcases cs_mem_replaceJob hj' with rfl | ⟨hj0, _⟩
    · exact ⟨j, hj, rfl⟩
    · exact ⟨j', hj0, rfl⟩
  refine ⟨fun t ht => (key t ht).noDep, fun t ht => (key t ht).noWorking, fun t ht => (key t ht).claimed,
    fun t ht => (key t ht).due, fun t ht => (key t ht).parked, ?_, ?_, ?_⟩
  · intro j' hj' h1 h2
    rw [hjobs] at hj'
    rcases cs_mem_replaceJob hj' with rfl | ⟨hj0, _⟩
    · exact absurd (hl h1) h2
    · exact hc.fresh j' hj0 h1 h2
  · intro m' hm' hst
    obtain ⟨m, hm, _, e1, e2⟩ := hmach m' hm'
    rw [← e1] at hst
    rw [← e2, htime]
    exact hc.machDue m hm hst
  · intro m' hm' hst j' hj' o ho hp hmm
    obtain ⟨m, hm, e0, e1, _⟩ := hmach m' hm'
    obtain ⟨j0, hj0, e⟩ := hrec j' hj'
    exact hc.setupRec m hm (by rw [e1]; exact hst) j0 hj0 o (by rw [← e]; exact ho) hp (by rw [hmm, e0])


/-! ## the machine kinds -/

/-- a machine start (IDLE → SETUP) -/
theorem cinv_start_machine (w : WF inst) (hC : Classic inst) {s s' : State} {r r' : Rng} {a : Transition}
    (hI : StructInv inst s) (hS : SchedInv s) (hB : Bundle inst s) {m : MachineState} (hm : m ∈ s.machines)
    (hst : m.st = .idle) (h : handleMachineIdleToSetup orc inst s r a m = .ok (s', r')) : CInv inst s' := by
  have hs := hI.shape
  obtain ⟨j, op, oc, mc, sd, bss1, bss2, hj, _, hin, _, _, _, _, hmc, _, _, ⟨c, hlk, hsd⟩, rfl⟩ := idleToSetup_spec h
  have hc0 : c = .det 0 := hC.setup0 mc hmc _ (cs_lookup_mem hlk)
  have hsd0 : sd = 0 := by
    rw [hc0] at hsd
    simp only [TimeCfg.readUpd, Prod.mk.injEq] at hsd
    exact hsd.1
  subst hsd0
  have hloc : j.loc = m.pre.id := cs_loc_of_store w hI hj (mem_allBufs_of_machine hm).1 hin
  refine cinv_machine_step w hs hS hB.cinv (j := j) (m := m)
    (J := (j.replaceOp (opRec oc s.time (s.time + 0) m.id)).at m.buffer.id)
    (M := m.toSetup j.id bss1 bss2 (s.time + 0) oc.tool) hj hm rfl rfl rfl rfl rfl rfl ?_ ?_ ?_ ?_ ?_
  · rw [hloc]; exact (cs_machine_not_pickup w hs hm).1
  · exact (cs_machine_not_standalone w hs hm).2.1
  · intro _
    exact ⟨s.time + 0, rfl, by omega⟩
  · intro o ho
    rcases cs_mem_replaceOp ho with ho' | rfl
    · exact Or.inl ho'
    · exact Or.inr (Or.inl rfl)
  · intro _
    refine ⟨hst, ?_⟩
    intro o ho
    rcases cs_mem_replaceOp ho with ho' | rfl
    · exact Or.inl ho'
    · right; simp [opRec]

/-- SETUP → WORKING -/
theorem cinv_mWork (w : WF inst) {s s' : State} {r r' : Rng} {a : Transition}
    (hI : StructInv inst s) (hS : SchedInv s) (hB : Bundle inst s) {m : MachineState} (hm : m ∈ s.machines)
    (h : handleMachineSetupToWorking orc inst s r a m = .ok (s', r')) : CInv inst s' := by
  have hs := hI.shape
  obtain ⟨j, op, oc, d, hj, _, hin, _, _, _, _, _, rfl⟩ := setupToWorking_spec h
  have hloc : j.loc = m.buffer.id := cs_loc_of_store w hI hj (mem_allBufs_of_machine hm).2.1 hin
  refine cinv_machine_step w hs hS hB.cinv (j := j) (m := m)
    (J := j.replaceOp (opRec oc s.time (s.time + d) m.id)) (M := m.toWorking (s.time + d))
    hj hm rfl rfl rfl rfl rfl rfl ?_ ?_ ?_ ?_ ?_
  · rw [hloc]; exact (cs_machine_not_pickup w hs hm).2
  · show j.loc ∉ _
    rw [hloc]; exact (cs_machine_not_standalone w hs hm).2.1
  · intro h; rcases h with h | h <;> cases h
  · intro o ho
    rcases cs_mem_replaceOp ho with ho' | rfl
    · exact Or.inl ho'
    · exact Or.inr (Or.inl rfl)
  · intro h; cases h

/-- WORKING → OUTAGE -/
theorem cinv_mOut (w : WF inst) (hC : Classic inst) {s s' : State} {r r' : Rng} {a : Transition}
    (hI : StructInv inst s) (hS : SchedInv s) (hB : Bundle inst s) {m : MachineState} (hm : m ∈ s.machines)
    (hst : m.st = .working) {x : Nat} (hx : m.buffer.store = [x]) (hjob : a.job = some x)
    (h : handleMachineWorkingToOutage orc inst s r a m = .ok (s', r')) : CInv inst s' := by
  have hs := hI.shape
  obtain ⟨_, j, op, hj, htj, hp, rfl⟩ := workingToOutage_classic hC h
  have hjx : j.id = x := by rw [hjob] at htj; simpa using htj.symm
  obtain ⟨j0, hj0, hid0, _, op0, hp0, _, hmach0, _, _⟩ := busy_running w hI hS hm (by rw [hst]; simp) hx
  have : j0 = j := eq_of_mem_of_key_eq (key := fun (y : JobState) => y.id) (hs.jobsNodup w) hj0 hj (by rw [hid0, hjx])
  subst this
  have : op0 = op := by rw [hp0] at hp; simpa using hp
  subst this
  have hin : j0.id ∈ m.buffer.store := by rw [hx, hjx]; simp
  have hloc : j0.loc = m.buffer.id := cs_loc_of_store w hI hj (mem_allBufs_of_machine hm).2.1 hin
  refine cinv_machine_step w hs hS hB.cinv (j := j0) (m := m)
    (J := j0.replaceOp { op0 with stop := some s.time }) (M := m.toOutage [] s.time) hj hm rfl rfl rfl rfl rfl rfl
    ?_ ?_ ?_ ?_ ?_
  · rw [hloc]; exact (cs_machine_not_pickup w hs hm).2
  · show j0.loc ∉ _
    rw [hloc]; exact (cs_machine_not_standalone w hs hm).2.1
  · intro _
    exact ⟨s.time, rfl, Int.le_refl _⟩
  · intro o ho
    rcases cs_mem_replaceOp ho with ho' | rfl
    · exact Or.inl ho'
    · exact Or.inr (Or.inl hmach0)
  · intro h; cases h

/-- OUTAGE → IDLE of a machine -/
theorem cinv_mIdle (w : WF inst) {s s' : State} {r r' : Rng}
    (hI : StructInv inst s) (hS : SchedInv s) (hB : Bundle inst s) {m : MachineState} (hm : m ∈ s.machines)
    (h : handleMachineOutageToIdle inst s r m = .ok (s', r')) : CInv inst s' := by
  have hs := hI.shape
  obtain ⟨j, op, mc, rest, bss1, bss2, hstore, hj, _, _, _, _, _, rfl⟩ := outageToIdle_spec h
  have hin : j.id ∈ m.buffer.store := by rw [hstore]; simp
  have hloc : j.loc = m.buffer.id := cs_loc_of_store w hI hj (mem_allBufs_of_machine hm).2.1 hin
  refine cinv_machine_step w hs hS hB.cinv (j := j) (m := m)
    (J := (j.replaceOp { op with stop := some s.time, st := .done }).at m.post.id) (M := m.toIdle j.id bss1 bss2)
    hj hm rfl rfl rfl rfl rfl rfl ?_ ?_ ?_ ?_ ?_
  · rw [hloc]; exact (cs_machine_not_pickup w hs hm).2
  · exact (cs_machine_not_standalone w hs hm).2.2
  · intro h; rcases h with h | h <;> cases h
  · intro o ho
    rcases cs_mem_replaceOp ho with ho' | rfl
    · exact Or.inl ho'
    · exact Or.inr (Or.inr (by simp))
  · intro h; cases h

/-! ## the AGV kinds -/

/-- dispatch (IDLE → PICKUP) -/
theorem cinv_dispatch (w : WF inst) (hC : Classic inst) {s s' : State} {r r' : Rng}
    (hI : StructInv inst s) (hB : Bundle inst s) {t : TransportState} (ht : t ∈ s.transports) (hst : t.st = .idle)
    {j : JobState} (hj : j ∈ s.jobs) (hloc : j.loc ∈ pickupPlaces inst)
    (h : applyTransition orc inst s r ⟨.t t.id, .t .working, some j.id⟩ = .ok (s', r')) : CInv inst s' := by
  obtain ⟨l, hl, hlo⟩ := hB.cinv.parked t ht (Or.inl hst)
  obtain ⟨d, _, happ⟩ := dispatch_result (orc := orc) w hC hI ht hst hl hlo hj hloc r
  rw [happ] at h
  simp only [Except.ok.injEq, Prod.mk.injEq] at h
  obtain ⟨rfl, _⟩ := h
  refine cinv_replaceTransport hB.cinv ⟨?_, ?_, ?_, ?_, ?_⟩
  · intro b x tr; simp
  · simp
  · intro _; exact ⟨j, hj, rfl, hloc⟩
  · intro _; exact ⟨s.time, rfl, Int.le_refl _⟩
  · intro h; rcases h with h | h <;> cases h

/-- PICKUP → WAITINGPICKUP -/
theorem cinv_wait (w : WF inst) (hC : Classic inst) {s s' : State} {r r' : Rng}
    (hI : StructInv inst s) (hS : SchedInv s) (hB : Bundle inst s) {t : TransportState} (ht : t ∈ s.transports)
    (hst : t.st = .pickup) {j : JobState} (hj : j ∈ s.jobs) (hjob : t.job = some j.id)
    (h : applyTransition orc inst s r ⟨.t t.id, .t .waitingpickup, some j.id⟩ = .ok (s', r')) : CInv inst s' := by
  obtain ⟨j0, hj0, e0, hloc0⟩ := hB.cinv.claimed t ht (Or.inl hst)
  have : j0 = j := eq_of_mem_of_key_eq (key := fun (y : JobState) => y.id) (hI.shape.jobsNodup w) hj0 hj
    (by rw [hjob] at e0; simpa using e0.symm)
  subst this
  have happ := pickupToWaiting_result (orc := orc) w hC hI hS ht hst hj hloc0 r
  rw [happ] at h
  simp only [Except.ok.injEq, Prod.mk.injEq] at h
  obtain ⟨rfl, _⟩ := h
  refine cinv_replaceTransport hB.cinv ⟨?_, ?_, ?_, ?_, ?_⟩
  · intro b x tr; simp
  · simp
  · intro _; exact ⟨j0, hj, hjob, hloc0⟩
  · intro _; exact ⟨s.time, rfl, Int.le_refl _⟩
  · intro h; rcases h with h | h <;> cases h

/-- OUTAGE → IDLE of an AGV -/
theorem cinv_release (w : WF inst) (hC : Classic inst) {s s' : State} {r r' : Rng}
    (hI : StructInv inst s) (hB : Bundle inst s) {t : TransportState} (ht : t ∈ s.transports) (hst : t.st = .outage)
    (h : applyTransition orc inst s r ⟨.t t.id, .t .idle, none⟩ = .ok (s', r')) : CInv inst s' := by
  have happ := agvToIdle_result (orc := orc) w hC hI ht hst r
  rw [happ] at h
  simp only [Except.ok.injEq, Prod.mk.injEq] at h
  obtain ⟨rfl, _⟩ := h
  refine cinv_replaceTransport hB.cinv ⟨?_, ?_, ?_, ?_, ?_⟩
  · exact hB.cinv.noDep t ht
  · simp
  · intro h; rcases h with h | h <;> cases h
  · intro h; exact absurd rfl h
  · intro _; exact hB.cinv.parked t ht (Or.inr hst)

/-- a successful loaded-run lookup between two places of the shop costs nothing -/
theorem cs_travel_zero (hC : Classic inst) {src dst : Loc} (hs : src ∈ locsOf inst) (hd : dst ∈ locsOf inst)
    {r r' : Rng} {tt : Int} (h : travelTimeFromSpec orc inst r src dst = .ok (tt, r')) : tt = 0 := by
  have h0 := hC.travel0 src hs dst hd
  unfold travelTimeFromSpec at h
  cases src <;> cases dst <;> simp_all [TimeCfg.updRead]

theorem cs_replaceBuf_keep {ms ms' : MachineState} {b : BufState} (h : replaceBufInMachine ms b = .ok ms') :
    ms'.id = ms.id ∧ ms'.st = ms.st ∧ ms'.occ = ms.occ := by
  unfold replaceBufInMachine at h
  split at h
  · simp at h; subst h; exact ⟨rfl, rfl, rfl⟩
  · split at h
    · simp at h; subst h; exact ⟨rfl, rfl, rfl⟩
    · split at h
      · simp at h; subst h; exact ⟨rfl, rfl, rfl⟩
      · simp at h

/-- where a job is dropped is a place of the shop -/
theorem cs_drop_place (w : WF inst) {s : State} (hs : Shape inst s) {j : JobState} (hj : j ∈ s.jobs)
    {pick : JobState → Option OpState} (hpick : ∀ o, pick j = some o → o ∈ j.ops) {dst : Loc}
    (h : dropOK inst j pick dst) : dst ∈ locsOf inst := by
  rcases h with ⟨_, o, ho, rfl⟩ | ⟨_, op, hop, rfl⟩
  · exact (firstOutput_place ho).1
  · exact op_machine_mem_locs w hs hj (hpick op hop)

/-- (PICKUP | WAITINGPICKUP) → TRANSIT -/
theorem cinv_pick (w : WF inst) (hC : Classic inst) {s s' : State} {r r' : Rng} {a : Transition}
    (hI : StructInv inst s) (hB : Bundle inst s) {t : TransportState} (ht : t ∈ s.transports)
    {j : JobState} (hj : j ∈ s.jobs) (hjob : t.job = some j.id) (haj : a.job = some j.id)
    (h : handleAgvPickupToTransit orc inst s r a t = .ok (s', r')) : CInv inst s' := by
  have hs := hI.shape
  obtain ⟨j', src, dst, tt, bss1, bss2, hj', htj, hdrop, htt, _, hcase⟩ := pickupToTransit_spec h
  have : j' = j := eq_of_mem_of_key_eq (key := fun (y : JobState) => y.id) (hs.jobsNodup w) hj' hj
    (by rw [haj] at htj; simpa using htj.symm)
  subst this
  have hdl : dst ∈ locsOf inst :=
    cs_drop_place w hs hj (fun o ho => (find?_mem_ops ho).1) hdrop
  have hnst := cs_transport_not_standalone w hs ht
  -- the new record of the AGV is good once the travel time is known to be 0
  have good : ∀ s1 : State, s1.time = s.time → tt = 0 → TGood inst s1 (t.toTransit (s.time + tt) j'.id bss2) := by
    intro s1 h1 h0
    refine ⟨?_, ?_, ?_, ?_, ?_⟩
    · intro b x tr; simp [TransportState.toTransit]
    · simp [TransportState.toTransit]
    · intro h; rcases h with h | h <;> cases h
    · intro _; exact ⟨s.time + tt, rfl, by rw [h1, h0]; omega⟩
    · intro h; rcases h with h | h <;> cases h
  rcases hcase with ⟨fb, rfl, _, hfb, hfid, _, rfl⟩ | ⟨mid, ms, bs, ms', rfl, _, hms, rfl, _, _, hrep, rfl⟩
  · have hsl : Loc.b j'.loc ∈ locsOf inst := by rw [← hfid]; exact cs_loc_b_mem hs hfb
    have h0 := cs_travel_zero hC hsl hdl htt
    refine cinv_agv_move hB.full.agv hB.cinv (j := j') (t := t) (l := t.buffer.id)
      (t' := t.toTransit (s.time + tt) j'.id bss2) hj ht hjob rfl rfl rfl rfl ?_ ?_ (good _ rfl h0)
    · intro m' hm'; exact ⟨m', hm', rfl, rfl, rfl⟩
    · intro h; exact absurd h hnst
  · have hsl : Loc.m ms.id ∈ locsOf inst := cs_loc_m_mem hs hms
    have h0 := cs_travel_zero hC hsl hdl htt
    obtain ⟨e1, e2, e3⟩ := cs_replaceBuf_keep hrep
    refine cinv_agv_move hB.full.agv hB.cinv (j := j') (t := t) (l := t.buffer.id)
      (t' := t.toTransit (s.time + tt) j'.id bss2) hj ht hjob rfl rfl rfl rfl ?_ ?_ (good _ rfl h0)
    · intro m' hm'
      rcases cs_mem_replaceMachine hm' with rfl | ⟨hm0, _⟩
      · exact ⟨ms, hms, e1.symm, e2.symm, e3.symm⟩
      · exact ⟨m', hm0, rfl, rfl, rfl⟩
    · intro h; exact absurd h hnst

/-- TRANSIT → OUTAGE (delivery) -/
theorem cinv_deliver (w : WF inst) (hC : Classic inst) {s s' : State} {r r' : Rng} {a : Transition}
    (hI : StructInv inst s) (hB : Bundle inst s) {t : TransportState} (ht : t ∈ s.transports) (hst : t.st = .transit)
    {j : JobState} (hj : j ∈ s.jobs) (hstore : t.buffer.store = [j.id]) (haj : a.job = some j.id)
    (h : handleAgvTransitToOutage orc inst s r a t = .ok (s', r')) : CInv inst s' := by
  have hs := hI.shape
  obtain ⟨j', cur, pick, drop, tc, outs, bss1, bss2, hj', htj, hloc, _, htc, _, hno, hcase⟩ := transitToOutage_spec h
  have : j' = j := eq_of_mem_of_key_eq (key := fun (y : JobState) => y.id) (hs.jobsNodup w) hj' hj
    (by rw [haj] at htj; simpa using htj.symm)
  subst this
  rw [hC.noOutT tc htc, newOutageStates_nil] at hno
  simp only [Except.ok.injEq, Prod.mk.injEq] at hno
  obtain ⟨rfl, _⟩ := hno
  have hclaim : t.job = some j'.id := hB.full.route.transitOwn t ht hst j'.id (by rw [hstore]; simp)
  obtain ⟨cur', pick', drop', hloc', hdrop⟩ := hB.full.route.route t ht j'.id hclaim j' hj rfl
  rw [hloc] at hloc'
  simp only [TLoc.route.injEq] at hloc'
  obtain ⟨_, _, rfl⟩ := hloc'
  have good : ∀ s1 : State, s1.time = s.time → drop ∈ locsOf inst →
      TGood inst s1 (t.toOutage j'.id bss1 [] (s.time + occupiedFor []) drop) := by
    intro s1 h1 hd
    refine ⟨?_, ?_, ?_, ?_, ?_⟩
    · intro b x tr; simp [TransportState.toOutage]
    · simp [TransportState.toOutage]
    · intro h; rcases h with h | h <;> cases h
    · intro _; exact ⟨s.time + occupiedFor [], rfl, by rw [h1, occupiedFor_nil]; omega⟩
    · intro _; exact ⟨drop, rfl, hd⟩
  rcases hcase with ⟨mid, ms, rfl, hms, rfl, _, rfl⟩ | ⟨bid, b, rfl, hb, rfl, _, rfl⟩
  · refine cinv_agv_move hB.full.agv hB.cinv (j := j') (t := t) (l := ms.pre.id)
      (t' := t.toOutage j'.id bss1 [] (s.time + occupiedFor []) (.m ms.id)) hj ht hclaim rfl rfl rfl rfl ?_ ?_
      (good _ rfl (cs_loc_m_mem hs hms))
    · intro m' hm'
      rcases cs_mem_replaceMachine hm' with rfl | ⟨hm0, _⟩
      · exact ⟨ms, hms, rfl, rfl, rfl⟩
      · exact ⟨m', hm0, rfl, rfl, rfl⟩
    · intro h; exact absurd h (cs_machine_not_standalone w hs hms).1
  · refine cinv_agv_move hB.full.agv hB.cinv (j := j') (t := t) (l := b.id)
      (t' := t.toOutage j'.id bss1 [] (s.time + occupiedFor []) (.b b.id)) hj ht hclaim rfl rfl rfl rfl ?_ ?_
      (good _ rfl (cs_loc_b_mem hs hb))
    · intro m' hm'; exact ⟨m', hm', rfl, rfl, rfl⟩
    · intro _
      rcases hdrop with ⟨_, o, ho, e⟩ | ⟨_, op, _, e⟩
      · simp only [Loc.b.injEq] at e
        rw [e]; exact (firstOutput_place ho).2.1
      · cases e

/-! ## the step -/

/-- **one applied transition keeps the classic invariant** -/
theorem cinv_step (w : WF inst) (hC : Classic inst) {s s' : State} {r r' : Rng} {a : Transition}
    (hI : StructInv inst s) (hS : SchedInv s) (hB : Bundle inst s) (hE : En inst s a)
    (hv : transitionValid s a = .ok true) (h : applyTransition orc inst s r a = .ok (s', r')) : CInv inst s' := by
  have hs := hI.shape
  have hmn := hs.machNodup w
  have htn := hs.trNodup w
  cases hE with
  | start tr hn =>
    cases hc : a.comp with
    | b bid => exact (apply_not_buffer hc h).elim
    | t tid =>
      obtain ⟨t0, _, _, hstep⟩ := agv_step_cases hc h
      cases hstep <;> simp_all
    | m mid =>
      obtain ⟨m0, hm0, _, hstep⟩ := mach_step_cases hc h
      cases hstep with
      | start hst _ hh => exact cinv_start_machine w hC hI hS hB hm0 hst hh
      | work _ hn' _ => rw [hn] at hn'; cases hn'
      | out _ hn' _ => rw [hn] at hn'; cases hn'
      | idle _ hn' _ => rw [hn] at hn'; cases hn'
  | mWork m x hm hst hx =>
    obtain ⟨m0, hm0, hid, hstep⟩ := mach_step_cases (mid := m.id) rfl h
    have : m0 = m := eq_of_mem_of_key_eq (key := fun (y : MachineState) => y.id) hmn hm0 hm hid
    subst this
    cases hstep with
    | start _ hn' _ => cases hn'
    | work _ _ hh => exact cinv_mWork w hI hS hB hm0 hh
    | out _ hn' _ => cases hn'
    | idle _ hn' _ => cases hn'
  | mOut m x hm hst hx =>
    obtain ⟨m0, hm0, hid, hstep⟩ := mach_step_cases (mid := m.id) rfl h
    have : m0 = m := eq_of_mem_of_key_eq (key := fun (y : MachineState) => y.id) hmn hm0 hm hid
    subst this
    cases hstep with
    | start _ hn' _ => cases hn'
    | work _ hn' _ => cases hn'
    | out _ _ hh => exact cinv_mOut w hC hI hS hB hm0 hst hx rfl hh
    | idle _ hn' _ => cases hn'
  | mIdle m x hm hst hx =>
    obtain ⟨m0, hm0, hid, hstep⟩ := mach_step_cases (mid := m.id) rfl h
    have : m0 = m := eq_of_mem_of_key_eq (key := fun (y : MachineState) => y.id) hmn hm0 hm hid
    subst this
    cases hstep with
    | start _ hn' _ => cases hn'
    | work _ hn' _ => cases hn'
    | out _ hn' _ => cases hn'
    | idle _ _ hh => exact cinv_mIdle w hI hS hB hm0 hh
  | dispatch t j ht hst hj hloc _ => exact cinv_dispatch w hC hI hB ht hst hj hloc h
  | wait t j ht hst hj hjob => exact cinv_wait w hC hI hS hB ht hst hj hjob h
  | pick t j ht hst hj hjob =>
    obtain ⟨t0, ht0, hid, hstep⟩ := agv_step_cases (tid := t.id) rfl h
    have : t0 = t := eq_of_mem_of_key_eq (key := fun (y : TransportState) => y.id) htn ht0 ht hid
    subst this
    cases hstep with
    | dispatch _ hn' _ => cases hn'
    | wait1 _ hn' _ => cases hn'
    | wait2 _ hn' _ => cases hn'
    | pick _ _ hh => exact cinv_pick w hC hI hB ht0 hj hjob rfl hh
    | deliver _ hn' _ => cases hn'
    | release _ hn' _ => cases hn'
  | deliver t j ht hst hj hstore =>
    obtain ⟨t0, ht0, hid, hstep⟩ := agv_step_cases (tid := t.id) rfl h
    have : t0 = t := eq_of_mem_of_key_eq (key := fun (y : TransportState) => y.id) htn ht0 ht hid
    subst this
    cases hstep with
    | dispatch _ hn' _ => cases hn'
    | wait1 _ hn' _ => cases hn'
    | wait2 _ hn' _ => cases hn'
    | pick _ hn' _ => cases hn'
    | deliver _ _ hh => exact cinv_deliver w hC hI hB ht0 hst hj hstore rfl hh
    | release _ hn' _ => cases hn'
  | release t ht hst => exact cinv_release w hC hI hB ht hst h

end JSL
