import JSL.Inv.FuelStep

/-!
# The first transition of a timed batch lowers the measure

`create_timed_transitions` lists the machine transitions first.  So if the first transition of the
batch built from a state is a `WAITINGPICKUP → WAITINGPICKUP` of an AGV, no machine is due in that
state; the job the AGV claimed is not ready, so (unordered buffers) it lies in the internal buffer of
a machine – which is occupied beyond the current time, while the AGV is due: the AGV is behind
(`fb_head`).
-/

namespace JSL

variable {orc : Oracle} {inst : Instance}

/-- a busy machine that creates no timed transition is occupied beyond the current time -/
theorem fb_not_due {m : MachineState} {now : Int} (hbusy : m.st ≠ .idle) {e : Int} (hocc : m.occ = some e)
    (h : timedMachine inst now m = .ok none) : now < e := by
  apply Classical.byContradiction
  intro hn
  have hdue : dueAt m.occ now = true := by
    rw [hocc]; simp only [dueAt, decide_eq_true_eq]; omega
  unfold timedMachine at h
  rw [hdue] at h
  simp only [if_true] at h
  cases hst : m.st with
  | idle => exact hbusy hst
  | setup =>
    rw [hst] at h
    simp only [machineTimedNext] at h
    cases hs : m.buffer.store <;> simp [hs] at h
  | working =>
    rw [hst] at h
    simp only [machineTimedNext] at h
    cases hs : m.buffer.store <;> simp [hs] at h
  | outage =>
    rw [hst] at h
    simp only [machineTimedNext] at h
    cases hs : m.buffer.store <;> simp [hs] at h

/-- what a `WAITINGPICKUP → WAITINGPICKUP` created for an AGV says: the AGV is due and the job it
claimed is not ready -/
theorem fb_selfloop_facts {s : State} {t : TransportState} {tr : Transition} (hst : t.st = .waitingpickup)
    (hnd : ∀ b j tr', t.occ ≠ .dep b j tr') (hn : tr.new = .t .waitingpickup) (h : timedTransport inst s t = .ok (some tr)) :
    ∃ o, t.occ = .at o ∧ o ≤ s.time ∧ ∃ j ∈ s.jobs, t.job = some j.id ∧ readyForPickup inst s j = .ok false := by
  unfold timedTransport at h
  cases hocc : t.occ with
  | none => simp [hocc] at h
  | dep b j tr' => exact absurd hocc (hnd b j tr')
  | «at» o =>
    simp only [hocc] at h
    split at h
    · rename_i hle
      simp only [hst, agvTimedCreator] at h
      unfold agvIdleToPickTransition at h
      obtain ⟨jid, hjid, h⟩ := except_bind_eq_ok h
      obtain ⟨j, hj, h⟩ := except_bind_eq_ok h
      obtain ⟨rdy, hrdy, h⟩ := except_bind_eq_ok h
      have hjj := getJob_ok hj
      have htj : t.job = some j.id := by
        unfold optE at hjid
        cases htj : t.job with
        | none => simp [htj] at hjid
        | some x => simp [htj] at hjid; subst hjid; simp [hjj.2]
      cases rdy with
      | true =>
        have hnx : idleToPickNext t.st true = some .transit := by rw [hst]; rfl
        simp [hnx] at h; subst h
        simp at hn
      | false => exact ⟨o, rfl, hle, j, hjj.1, htj, hrdy⟩
    · simp at h

/-- **the head of a timed batch**: if it is a `WAITINGPICKUP → WAITINGPICKUP`, its AGV is behind -/
theorem fb_head (w : WF inst) (C : TotClass inst) {s : State} (hV : TotInv inst s) {a : Transition}
    {rest : List Transition} (htt : timedTransitions inst s = .ok (a :: rest)) :
    ∀ tid, a.comp = .t tid → a.new = .t .waitingpickup → ∀ t0 ∈ s.transports, t0.id = tid →
      t0.st = .waitingpickup → fbLate s.machines t0 = true := by
  intro tid hc hn t0 ht0 hid hst
  have hI := hV.struct
  have hs := hI.shape
  have hjn := hs.jobsNodup w
  unfold timedTransitions at htt
  obtain ⟨ma, hma, htt⟩ := except_bind_eq_ok htt
  obtain ⟨tb, htb, htt⟩ := except_bind_eq_ok htt
  simp at htt
  unfold timedMachineTransitions at hma
  unfold timedTransportTransitions at htb
  cases hra : s.machines.mapM (timedMachine inst s.time) with
  | error e => simp [hra] at hma
  | ok ra =>
    simp [hra] at hma; subst hma
    cases hrb : s.transports.mapM (timedTransport inst s) with
    | error e => simp [hrb] at htb
    | ok rb =>
      simp [hrb] at htb; subst htb
      have hA := timedMachines_spec (inst := inst) s.machines (fun m hm => hm) (hs.machNodup w) ra hra
      -- no machine transition in the batch
      have hnil : ra.filterMap id = [] := by
        cases hl : ra.filterMap id with
        | nil => rfl
        | cons x xs =>
          exfalso
          rw [hl] at htt
          simp at htt
          obtain ⟨_, m, _, e⟩ := hA.1 x (by rw [hl]; simp)
          rw [htt.1, hc] at e
          cases e
      rw [hnil] at htt
      simp at htt
      have hmem : a ∈ rb.filterMap id := by rw [htt]; simp
      obtain ⟨t, ht, hcre⟩ := mapM_filterMap_mem hrb hmem
      have hcomp := (timedTransport_aim hV.shape ht hcre).1
      have : t = t0 := by
        apply eq_of_mem_of_key_eq (key := fun (y : TransportState) => y.id) (hs.trNodup w) ht ht0
        rw [hc] at hcomp
        injection hcomp with hcomp
        rw [← hcomp, hid]
      subst this
      obtain ⟨o, hocc, hle, j, hj, htj, hrdy⟩ := fb_selfloop_facts hst (hV.shape.noDep t ht) hn hcre
      obtain ⟨bc, _, hbcid, hcase⟩ := claimed_job_place w hV ht (by rw [hst]; decide) hj htj
      rcases hcase with hb | ⟨mc, hmc, m, hm, hmid, hcase⟩
      · -- a stand-alone buffer: the job would be ready
        exfalso
        have : bc.id ∈ s.buffers.map (·.id) := by rw [hs.buffers]; exact List.mem_map.mpr ⟨bc, hb, rfl⟩
        obtain ⟨b, hbm, hbid⟩ := List.mem_map.mp this
        have hball : b ∈ allBufStates s := by simp only [mem_allBufs]; exact Or.inl hbm
        have hloc : j.loc = b.id := by rw [hbid, hbcid]
        have hin : j.id ∈ b.store := by
          have h1 := hI.cons.located (j.id, j.loc) (List.mem_map.mpr ⟨j, hj, rfl⟩)
          simp only at h1
          rw [hloc, storeAt_of_mem (hs.bufNodup w) hball] at h1
          exact h1
        have := readyForPickup_flex w C.flex hs hball hloc hin (kind_of_buffer hs hbm)
        rw [this] at hrdy
        cases hrdy
      · rcases hcase with ⟨_, hloc, hin⟩ | ⟨_, hloc, hin⟩
        · -- the internal buffer of a machine that is not due
          have hbusy : m.st ≠ .idle := by
            intro hidle
            rw [hV.sched.idleEmpty m hm hidle] at hin
            cases hin
          obtain ⟨_, _, _, _, _, _, _, hne⟩ := hV.sched.busyHolds m hm hbusy
          cases hmo : m.occ with
          | none => exact absurd hmo hne
          | some e =>
            obtain ⟨y, hy, hym⟩ := (mapM_ok_mem hra).1 m hm
            have hnone : y = none := by
              cases y with
              | none => rfl
              | some x =>
                have : x ∈ ra.filterMap id := List.mem_filterMap.mpr ⟨some x, hy, rfl⟩
                rw [hnil] at this
                cases this
            subst hnone
            have hlt := fb_not_due hbusy hmo hym
            exact fbLate_intro hst hm htj hocc hmo hin (by omega)
        · -- a post-buffer: the job would be ready
          exfalso
          have hpost := (mem_allBufs_of_machine hm).2.2
          have := readyForPickup_flex w C.flex hs hpost hloc hin (kind_of_post hs hm)
          rw [this] at hrdy
          cases hrdy

end JSL
