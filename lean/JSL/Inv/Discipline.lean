import JSL.Inv.DiscGuard
import JSL.Inv.Calls

/-!
# C08 (second half): release discipline of the ordered buffers

For **every transition that is applied** in any episode of the environment (`EnvCall`: the calls of
`applyTransition` made by `reset` and by every `step`; at the state-machine level: the calls of any
`state.step` started from a state of an `OccursF` execution with nothing or the one transition on
offer, while nothing is due):

* (A) a pickup (→ TRANSIT) takes its job out of a post-buffer or stand-alone buffer, and if that
  buffer is FIFO or DUMMY the job is the **first** element of the buffer in the state right before
  the application (`Released.agv`, `disc_agv_takes_front`).  Nothing is claimed for LIFO
  post-buffers: there the property is false in the code (a same-instant completion may append a
  newer job between creation and application of the pickup).
* (B) a machine start (IDLE → SETUP) takes, out of the pre-buffer of the idle machine, the job
  `get_next_job_from_buffer` names – the first for FIFO/DUMMY, the **last for LIFO** – whether the
  transition is a timed one or an offer accepted by the agent (`Released.machine`,
  `disc_machine_takes_release_job`).  Offers never compete with the discipline: when offers are
  computed nothing is due, so every idle machine with a non-empty pre-buffer has a FLEX pre-buffer
  (`quiet_idle_pre_flex`).
* (C) whatever moves, moves to the **back** of the buffer it arrives in, and every other job keeps
  its place (`StoreEff`, `disc_arrivals_join_back`; this holds for every successful
  `applyTransition` on a state satisfying the structural invariants, offered or not).
-/

namespace JSL

variable {orc : Oracle} {inst : Instance}

/-- what is proved about one applied transition `tr : s ⟶ s'` -/
structure Released (inst : Instance) (s : State) (tr : Transition) (s' : State) : Prop where
  /-- (C) nothing moves, or one job moves to the back of another buffer -/
  eff : StoreEff s s' tr
  /-- (A) AGV side -/
  agv : tr.new = .t .transit →
    ∃ t ∈ s.transports, ∃ x i, tr.comp = .t t.id ∧ tr.job = some x ∧ pickupBufferKind inst i = true ∧
      MovedS s s' x i t.buffer.id ∧ (FrontAt inst i → storeAt s i = x :: storeAt s' i)
  /-- (B) machine side -/
  machine : tr.new = .m .setup →
    ∃ m ∈ s.machines, ∃ x, tr.comp = .m m.id ∧ m.st = .idle ∧ tr.job = some x ∧ x ∈ m.pre.store ∧
      storeAt s m.pre.id = m.pre.store ∧ MovedS s s' x m.pre.id m.buffer.id ∧
      ∀ bc ∈ allBufCfgs inst, bc.id = m.pre.id → nextJobFromBuffer m.pre bc = some x ∨ releaseSel bc.type = .none

/-- the batch guard of the discipline pass -/
structure DiscGS (inst : Instance) (s : State) (L : List Transition) : Prop where
  full : FullGS s L
  pick : PickGS inst s L
  start : StartGS inst s L

/-- what the environment submits: nothing, or the one transition on offer while nothing is due -/
def AdmQuiet (inst : Instance) (cfg : SMConfig) (s : State) (a : Action) : Prop :=
  AdmOffer inst cfg s a ∧ (a.transitions = [] ∨ Quiet inst s)

/-- **The discipline pass**: the full AGV invariant with the pickup and machine-start guards, and
the release statement about every application. -/
def DiscPass (orc : Oracle) (inst : Instance) (cfg : SMConfig) (w : WF inst) : RelPass orc inst cfg where
  P := AgvFull inst
  GS := DiscGS inst
  Adm := AdmQuiet inst cfg
  tail := fun h => ⟨(FullPass orc inst cfg w).tail h.full, h.pick.tail, h.start.tail⟩
  step := fun hI hS hP hv hsafe hfresh hgs ha => by
    have h1 := (FullPass orc inst cfg w).step hI hS hP hv hsafe hfresh hgs.full ha
    have he := applyTransition_store w hI ha
    exact ⟨h1.1, h1.2, pick_step w hI he hgs.pick,
      start_step (fun mid hc => (machine_effect w hI hc ha).1) hgs.start⟩
  advance := fun hI hS hP hle hpe => (FullPass orc inst cfg w).advance hI hS hP hle hpe
  timed := fun {s tt poss tele r} hI hS hP htt hposs htele => by
    have hf : FullGS s (tt ++ tele) := (FullPass orc inst cfg w).timed hI hS hP htt hposs htele
    have hsh := filterTeleport_shape hposs htele
    exact ⟨hf, timed_pick w hS hP.agv htt hsh hf.route, timed_start w hI htt hS hsh⟩
  timedOnly := fun {s tt} hI hS hP htt => by
    have hf : FullGS s tt := (FullPass orc inst cfg w).timedOnly hI hS hP htt
    have hr : RouteGS s (tt ++ []) := by simpa using hf.route
    have h1 := timed_pick w (tele := []) hS hP.agv htt (by simp) hr
    have h2 := timed_start w (tele := []) hI htt hS (by simp)
    simp only [List.append_nil] at h1 h2
    exact ⟨hf, h1, h2⟩
  action := fun {s a} hI hS hP hadm => by
    have hf : FullGS s (sortedByTransport a.transitions) := (FullPass orc inst cfg w).action hI hS hP hadm.1
    refine ⟨hf, ?_, ?_⟩
    · rcases hadm.1 with e | ⟨poss, hposs, tr, hp, e⟩
      · rw [e, sortedByTransport_nil]; exact PickGS.nil
      · rw [e, sortedByTransport_single]
        apply pick_of_no_transit
        intro t ht hn
        simp at ht; subst ht
        rcases offers_offerShaped hposs t hp with e' | e' <;> rw [e'] at hn <;> cases hn
    · rcases hadm.1 with e | ⟨poss, hposs, tr, hp, e⟩
      · rw [e, sortedByTransport_nil]; exact StartGS.nil
      · rw [e, sortedByTransport_single]
        rcases hadm.2 with e' | hq
        · rw [e] at e'; cases e'
        · exact quiet_start w hq tr
  Rel := Released inst
  rel := fun {s s' r r' tr R} hI _ _ _ _ _ hgs ha => by
    have he := applyTransition_store w hI ha
    refine ⟨he, fun hn => pick_rel w hI he hgs.pick hn, fun hn => ?_⟩
    obtain ⟨m, hm, x, h1, h2, h3, h4, h5, h6⟩ := start_rel he hgs.start hn
    exact ⟨m, hm, x, h1, h2, h3, h4, store_pre hI.shape w hm, h5, h6⟩

/-! ## state-machine level -/

/-- **Release discipline for every application of a `state.step`** started from a state of an
execution in which every action is empty or the one transition on offer, with such an action,
while nothing is due (or with the empty action). -/
theorem occursF_released {cfg : SMConfig} {s0 s : State} (hst : Start orc inst s0) (h : OccursF orc inst cfg s0 s)
    {a : Action} (ha : Admissible a) (hadm : AdmOffer inst cfg s a) (hq : a.transitions = [] ∨ Quiet inst s)
    {fuel : Nat} {r : Rng} {σ σ' : State} {x : Transition} (hc : StepCall orc inst cfg fuel s r a σ x σ') :
    Released inst σ x σ' := by
  obtain ⟨w, hI, hS⟩ := occursA_inv hst h.toC.toA
  have nn := nonnegB_sound hst.samples hst.nonneg
  exact (DiscPass orc inst cfg w).stepCall w nn hI hS (occursF_full hst h) ha ⟨hadm, hq⟩ hc

/-- when nothing is due – in particular whenever offers are computed – every idle machine with a
non-empty pre-buffer has a FLEX pre-buffer: an offer never competes with the release order -/
theorem quiet_idle_pre_flex (w : WF inst) {s : State} (hq : Quiet inst s) {m : MachineState} (hm : m ∈ s.machines)
    (hidle : m.st = .idle) (hne : m.pre.store ≠ []) : ∀ bc ∈ allBufCfgs inst, bc.id = m.pre.id → bc.type = .flex := by
  intro bc hbc hid
  cases hl : m.pre.store with
  | nil => exact absurd hl hne
  | cons a as =>
    let tr0 : Transition := { comp := .m m.id, new := .m .setup, job := some a }
    have h := (quiet_start w hq tr0).next tr0 (by simp) rfl m hm rfl hidle a rfl (by rw [hl]; simp) bc hbc hid
    rcases h with h | h
    · exfalso
      have hpc : getBufCfg (allBufCfgs inst) m.pre.id = .ok bc := by
        unfold getBufCfg findE
        cases hf : (allBufCfgs inst).find? (fun b => b.id == m.pre.id) with
        | none =>
          have := List.find?_eq_none.mp hf bc hbc
          simp [hid] at this
        | some c =>
          have hc := List.mem_of_find?_eq_some hf
          have hp := List.find?_some hf
          simp at hp
          have : c = bc := eq_of_mem_of_key_eq (key := fun (y : BufCfg) => y.id) w.bufNodup hc hbc (by rw [hp, hid])
          rw [this]
      have hnone := hq.parts.1 m hm
      unfold timedMachine at hnone
      have hn0 : (if dueAt m.occ s.time = true then machineTimedNext m.st else none) = none := by
        rw [hidle]; split <;> rfl
      rw [hn0] at hnone
      simp only [hidle, beq_self_eq_true, if_true] at hnone
      unfold machineSetupTransition at hnone
      rw [if_pos (by rw [hl]; simp), hpc] at hnone
      simp [h] at hnone
    · revert h; cases bc.type <;> simp [releaseSel]

/-! ## environment level -/

/-- the action the middleware submits to the state machine for an agent action (when it submits
one): the head offer with `jump_to_event`, or – declining the only offer – nothing with a forced jump -/
def MwSubmits (res : SMResult) (a : AgentAct) (act : Action) : Prop :=
  (a = .accept ∧ act.tm = .jumpToEvent ∧ act.transitions = res.possible.take 1 ∧ res.possible ≠ []) ∨
  (a = .decline ∧ act.tm = .forceJump ∧ act.transitions = [] ∧ res.possible.length = 1)

/-- **every transition applied during an episode**: by the `state.step` of `reset`, or by the
`state.step` the middleware runs for an agent action on a reachable environment state -/
inductive EnvCall (orc : Oracle) (inst : Instance) (ec : EnvCfg) (st : RewardStatic) (s0 : State) :
    State → Transition → State → Prop
  | reset {r σ x σ'} : StepCall orc inst ec.sm ec.fuel s0 r noOpAction σ x σ' → EnvCall orc inst ec st s0 σ x σ'
  | step {e a act σ x σ'} : EnvReach orc inst ec st s0 e → MwSubmits e.res a act →
      StepCall orc inst ec.sm ec.fuel e.res.state e.rng act σ x σ' → EnvCall orc inst ec st s0 σ x σ'

/-- the post-state of every transition applied inside `reset` is the post-state of an `EnvCall` -/
theorem envCall_of_reset_micro {ec : EnvCfg} {st : RewardStatic} {s0 : State} {r : Rng} {e : EnvState}
    {mic : List State} (h : envReset orc inst ec s0 r = .ok (e, mic)) :
    ∀ σ' ∈ mic, ∃ σ x, EnvCall orc inst ec st s0 σ x σ' := by
  unfold envReset mwReset at h
  obtain ⟨⟨res, mw, r', mic'⟩, h1, h⟩ := except_bind_eq_ok h
  obtain ⟨⟨res', r'', mic''⟩, h2, h1⟩ := except_bind_eq_ok h1
  simp at h1 h
  obtain ⟨rfl, rfl, rfl, rfl⟩ := h1
  obtain ⟨rfl, rfl⟩ := h
  intro σ' hσ
  obtain ⟨σ, x, hc⟩ := stepCall_of_micro h2 σ' hσ
  exact ⟨σ, x, .reset hc⟩

/-- the post-state of every transition applied inside a `step` is the post-state of an `EnvCall` -/
theorem envCall_of_step_micro {ec : EnvCfg} {st : RewardStatic} {s0 : State} {e : EnvState}
    (he : EnvReach orc inst ec st s0 e) {a : AgentAct} {out : StepOut} (h : envStep orc inst ec st e a = .ok out) :
    ∀ σ' ∈ out.micro, ∃ σ x, EnvCall orc inst ec st s0 σ x σ' := by
  unfold envStep at h
  split at h
  · simp at h
  · obtain ⟨⟨res', mw, r, mic⟩, hm, h⟩ := except_bind_eq_ok h
    simp only at h
    obtain ⟨⟨rew, cnt⟩, _, h⟩ := except_bind_eq_ok h
    simp at h; subst h
    intro σ' hσ
    simp only at hσ
    rcases mwStep_cases hm with ⟨_, _, _, _, _, _, _, _, _, _, e6, _⟩ | ⟨act, _, hk, hs⟩
    · simp only at e6; rw [e6] at hσ; cases hσ
    · obtain ⟨σ, x, hc⟩ := stepCall_of_micro hs σ' hσ
      exact ⟨σ, x, .step he hk hc⟩

/-- **Release discipline along every episode.** -/
theorem envCall_released {ec : EnvCfg} {st : RewardStatic} {s0 : State} (hst : Start orc inst s0)
    {σ σ' : State} {x : Transition} (hc : EnvCall orc inst ec st s0 σ x σ') : Released inst σ x σ' := by
  cases hc with
  | reset hc => exact occursF_released hst OccursF.init admissible_noOp (Or.inl rfl) (Or.inl rfl) hc
  | @step e a act _ _ _ he hk hc =>
    have hi := envReach_inv hst he
    have hne : e.res.possible ≠ [] := by
      rcases hk with ⟨_, _, _, h⟩ | ⟨_, _, _, h⟩
      · exact h
      · intro h0; rw [h0] at h; simp at h
    have hl := hi.live hne
    have hsub : ∀ tr ∈ act.transitions, tr ∈ e.res.possible := by
      intro tr htr
      rcases hk with ⟨_, _, ht, _⟩ | ⟨_, _, ht, _⟩
      · rw [ht] at htr; exact List.mem_of_mem_take htr
      · rw [ht] at htr; cases htr
    have ha : Admissible act := by
      refine ⟨fun tr htr => hl.2 tr (hsub tr htr), ?_⟩
      rcases hk with ⟨_, h, _⟩ | ⟨_, h, _⟩ <;> rw [h] <;> simp
    have hadm : AdmOffer inst ec.sm e.res.state act := by
      obtain ⟨poss, hposs, hsub'⟩ := hi.offersFrom hne
      rcases hk with ⟨_, _, ht, _⟩ | ⟨_, _, ht, _⟩
      · right
        cases hp : e.res.possible with
        | nil => exact absurd hp hne
        | cons y ys => exact ⟨poss, hposs, y, hsub' y (by rw [hp]; simp), by rw [ht, hp]; rfl⟩
      · left; exact ht
    exact occursF_released hst (hi.liveF hne) ha hadm (Or.inr (hi.quiet hne)) hc

/-! ## the three parts in plain terms -/

theorem StoreEff.moved_or_same {s s' : State} {tr : Transition} (h : StoreEff s s' tr) :
    (∀ i, storeAt s' i = storeAt s i) ∨ ∃ x a b, MovedS s s' x a b := by
  cases h with
  | same _ _ h => exact Or.inl h
  | start m x _ _ _ _ _ _ h => exact Or.inr ⟨x, _, _, h⟩
  | finish m x _ _ _ _ h => exact Or.inr ⟨x, _, _, h⟩
  | pickup t x a _ _ _ _ h => exact Or.inr ⟨x, _, _, h⟩
  | deliver t x b _ _ _ _ h => exact Or.inr ⟨x, _, _, h⟩

/-- **(C) Arriving jobs join at the back.**  A successfully applied transition – any transition, on
any state satisfying the structural invariants (every state of every execution does) – either
leaves all buffer contents as they are, or takes exactly one job `x` out of one buffer `a` (the
others keep their order) and appends it at the back of another buffer `b`; no other buffer changes. -/
theorem disc_arrivals_join_back (w : WF inst) {s s' : State} {r r' : Rng} {tr : Transition}
    (hI : StructInv inst s) (h : applyTransition orc inst s r tr = .ok (s', r')) :
    (∀ i, storeAt s' i = storeAt s i) ∨
    ∃ x a b, a ≠ b ∧ x ∈ storeAt s a ∧ storeAt s' a = (storeAt s a).filter (· != x) ∧
      storeAt s' b = storeAt s b ++ [x] ∧ ∀ i, i ≠ a → i ≠ b → storeAt s' i = storeAt s i := by
  rcases (applyTransition_store w hI h).moved_or_same with h | ⟨x, a, b, h⟩
  · exact Or.inl h
  · exact Or.inr ⟨x, a, b, h.ne, h.was, h.storeA, h.storeB, h.storeO⟩

/-- (C) for the transitions applied during an episode -/
theorem disc_env_arrivals_join_back {ec : EnvCfg} {st : RewardStatic} {s0 : State} (hst : Start orc inst s0)
    {σ σ' : State} {tr : Transition} (hc : EnvCall orc inst ec st s0 σ tr σ') :
    (∀ i, storeAt σ' i = storeAt σ i) ∨
    ∃ x a b, a ≠ b ∧ x ∈ storeAt σ a ∧ storeAt σ' a = (storeAt σ a).filter (· != x) ∧
      storeAt σ' b = storeAt σ b ++ [x] ∧ ∀ i, i ≠ a → i ≠ b → storeAt σ' i = storeAt σ i := by
  rcases (envCall_released hst hc).eff.moved_or_same with h | ⟨x, a, b, h⟩
  · exact Or.inl h
  · exact Or.inr ⟨x, a, b, h.ne, h.was, h.storeA, h.storeB, h.storeO⟩

/-- **(A) A FIFO/DUMMY buffer releases only its oldest job to an AGV.**  Whenever a transition into
TRANSIT is applied during an episode, to the state `σ` with result `σ'`, it belongs to an AGV `t`
of `σ` and names a job `x` that sits in a post-buffer or stand-alone buffer `i`; the job leaves `i`
for the back of the AGV's buffer; and if `i` is configured FIFO or DUMMY, `x` is the first element
of `i` in `σ` – the content of `i` right before the application is `x` followed by its content
right after. -/
theorem disc_agv_takes_front {ec : EnvCfg} {st : RewardStatic} {s0 : State} (hst : Start orc inst s0)
    {σ σ' : State} {tr : Transition} (hc : EnvCall orc inst ec st s0 σ tr σ') (hn : tr.new = .t .transit) :
    ∃ t ∈ σ.transports, ∃ x i, tr.comp = .t t.id ∧ tr.job = some x ∧ pickupBufferKind inst i = true ∧
      x ∈ storeAt σ i ∧ storeAt σ' i = (storeAt σ i).filter (· != x) ∧
      storeAt σ' t.buffer.id = storeAt σ t.buffer.id ++ [x] ∧
      ∀ bc ∈ allBufCfgs inst, bc.id = i → (bc.type = .fifo ∨ bc.type = .dummy) → storeAt σ i = x :: storeAt σ' i := by
  obtain ⟨t, ht, x, i, h1, h2, h3, hmv, hf⟩ := (envCall_released hst hc).agv hn
  refine ⟨t, ht, x, i, h1, h2, h3, hmv.was, hmv.storeA, hmv.storeB, ?_⟩
  intro bc hbc hid hty
  apply hf
  exact ⟨bc, hbc, hid, by rcases hty with e | e <;> rw [e] <;> rfl⟩

/-- **(B) A machine takes the release job of its pre-buffer.**  Whenever IDLE → SETUP is applied
during an episode – created by the timed mechanism or accepted by the agent – it belongs to an
idle machine `m` of `σ` and names a job `x` of its pre-buffer, which leaves the pre-buffer; if the
pre-buffer is configured FIFO or DUMMY, `x` is its first element in `σ`, if LIFO its last. -/
theorem disc_machine_takes_release_job {ec : EnvCfg} {st : RewardStatic} {s0 : State} (hst : Start orc inst s0)
    {σ σ' : State} {tr : Transition} (hc : EnvCall orc inst ec st s0 σ tr σ') (hn : tr.new = .m .setup) :
    ∃ m ∈ σ.machines, ∃ x, tr.comp = .m m.id ∧ m.st = .idle ∧ tr.job = some x ∧ x ∈ m.pre.store ∧
      storeAt σ m.pre.id = m.pre.store ∧ storeAt σ' m.pre.id = m.pre.store.filter (· != x) ∧
      storeAt σ' m.buffer.id = storeAt σ m.buffer.id ++ [x] ∧
      ∀ bc ∈ allBufCfgs inst, bc.id = m.pre.id →
        ((bc.type = .fifo ∨ bc.type = .dummy) → m.pre.store.head? = some x) ∧
        (bc.type = .lifo → m.pre.store.getLast? = some x) := by
  obtain ⟨m, hm, x, h1, h2, h3, h4, h5, hmv, hnx⟩ := (envCall_released hst hc).machine hn
  refine ⟨m, hm, x, h1, h2, h3, h4, h5, by rw [hmv.storeA, h5], hmv.storeB, ?_⟩
  intro bc hbc hid
  have := hnx bc hbc hid
  unfold nextJobFromBuffer at this
  constructor
  · intro hty
    rcases hty with e | e <;> rw [e] at this <;> simpa [releaseSel] using this
  · intro e
    rw [e] at this
    simpa [releaseSel] using this

end JSL
