import JSL.Inv.TotalMachine
import JSL.Inv.TotalAgvA
import JSL.Inv.TotalAgvB

/-!
# A validated, well-aimed transition is applied without an exception

Assembly of the handler lemmas (`TotalMachine`, `TotalAgvA`, `TotalAgvB`): in a state with the
invariants `TotInv` of an instance of the class `TotClass`, `apply_transition` does not raise for a
transition that passed validation, is well-aimed (`Aim`) and – if it is a dispatch – names a job
nobody has claimed (`Unclaimed`).
-/

namespace JSL

variable {inst : Instance}

theorem agv_applies (w : WF inst) (C : TotClass inst) {s : State} (hV : TotInv inst s) {tr : Transition}
    (ha : Aim inst s tr) (hu : Unclaimed s tr) {tid : Nat} (hc : tr.comp = .t tid) (orc : Oracle) (r : Rng) :
    ∃ s' r', applyTransition orc inst s r tr = .ok (s', r') := by
  have hs := hV.struct.shape
  obtain ⟨t, ht, htid, ns, hd, hn, hah, hdisp, hwait, hdel⟩ := ha.agv tid hc
  have hgt : getTransport s.transports tid = .ok t := by
    rw [← htid]; exact getTransport_of_mem (hs.trNodup w) ht
  obtain ⟨tc, hgtc, htc, _⟩ := AgvB.getTransportCfg_of_mem w hs ht
  have hty := C.agvOnly.agv tc htc
  have key : ∃ out, (match hd with
      | .idleToWorking => handleAgvIdleToWorking orc inst s r tr t
      | .pickupToWaitingpickup => handleAgvPickupToWaiting inst s r tr t
      | .pickupToTransit => handleAgvPickupToTransit orc inst s r tr t
      | .transitToOutage => handleAgvTransitToOutage orc inst s r tr t
      | .outageToIdle => handleAgvOutageToIdle s r t
      | .waitingPickupToWaitingPickup => handleAgvWaitingToWaiting inst s r tr t) = .ok out := by
    cases hd with
    | idleToWorking =>
      have hst := agvHandler_idleToWorking hah
      obtain ⟨x, hx, ⟨j, hj, hjid⟩, hall⟩ := hdisp rfl
      subst hjid
      have hnew : tr.new = .t .working := by rw [hn, hst.2]
      exact agv_dispatch_applies w C hV ht hst.1 hj hx (hall j hj rfl) (hu hnew j.id hx) orc r
    | pickupToWaitingpickup =>
      have hst := agvHandler_pickupToWaiting hah
      exact (agv_toWaiting_applies w C hV ht (Or.inl hst.2) (hwait (Or.inl rfl)) r).1
    | waitingPickupToWaitingPickup =>
      have hst := agvHandler_waitingToWaiting hah
      exact (agv_toWaiting_applies w C hV ht (Or.inr hst.2) (hwait (Or.inr (Or.inl rfl))) r).2
    | pickupToTransit =>
      have hst := agvHandler_pickupToTransit hah
      exact agv_pickup_applies w C hV ht hst.2 (hwait (Or.inr (Or.inr rfl))) orc r
    | transitToOutage =>
      have hst := agvHandler_transitToOutage hah
      obtain ⟨x, hx, hin⟩ := hdel rfl
      have htr : t.st = .transit := by
        rcases hst.2 with e | e
        · exact e
        · exact absurd e (hV.shape.noWorking t ht)
      exact agv_deliver_applies w C hV ht htr hx hin orc r
    | outageToIdle => exact ⟨_, rfl⟩
  obtain ⟨⟨s', r'⟩, hk⟩ := key
  refine ⟨s', r', ?_⟩
  simp only [applyTransition, hc, hgt, except_bind_ok, handleTransportTransition, hgtc, hty, trTypeHandled,
    Bool.not_true, Bool.false_eq_true, if_false, agvHandlerOf, hn, hah, except_pure]
  exact hk

/-- **`apply_transition` does not raise** -/
theorem applies_total (w : WF inst) (C : TotClass inst) {s : State} (hV : TotInv inst s) {tr : Transition}
    (ha : Aim inst s tr) (hu : Unclaimed s tr) (hv : transitionValid s tr = .ok true) (orc : Oracle) (r : Rng) :
    ∃ s' r', applyTransition orc inst s r tr = .ok (s', r') := by
  cases hc : tr.comp with
  | m mid => exact machine_applies w C hV ha hc hv orc r
  | t tid => exact agv_applies w C hV ha hu hc orc r
  | b bid => exact absurd hc (ha.notBuf bid)

end JSL
