import JSL.Inv.OutageInv
import JSL.Inv.EnvPass

/-!
# Remembered outage ends lie in the past

`OutageInv` says that records of a component that is not in OUTAGE are inactive.  The release
(OUTAGE → IDLE) replaces `active a e` by `inactive (some e)`: the end is remembered.  A release is
only ever created by the timed mechanism when the component's `occupied_till` has been reached, and
that instant is the end of the longest active outage; hence every remembered end is an instant
that has passed – in particular the "time since the outage was last active" the next sampling
computes from it is never negative.

This needs a side condition on the batches (a release is due, nothing earlier in the batch strikes
the same component): `DueGS` of `Dur.lean` for machines, `RelGS` below for AGVs.
-/

namespace JSL

variable {orc : Oracle} {inst : Instance}

/-- every remembered end is at most `now` -/
def PastEnds (now : Int) (l : List OutageState) : Prop := ∀ o ∈ l, ∀ e, o.st = .inactive (some e) → e ≤ now

theorem PastEnds.mono {now t : Int} {l : List OutageState} (h : PastEnds now l) (hle : now ≤ t) : PastEnds t l :=
  fun o ho e he => Int.le_trans (h o ho e he) hle

/-- the remembered ends of the component a transition addresses -/
theorem OutEffect.past {now : Int} {Cfg : List OutageCfg → Prop} {wasOut isOut isRel isStr : Prop} {occAt : Int → Prop}
    {old new : List OutageState} (h : OutEffect orc now Cfg wasOut isOut isRel isStr occAt old new)
    (hn : ∀ sid k, 0 ≤ orc sid k) (hd : ∀ c, Cfg c → ∀ o ∈ c, ∀ t, o.dur = .det t → 0 ≤ t)
    (hold : PastEnds now old)
    (hrel : wasOut → isRel → ∀ o ∈ old, ∀ x y, o.st = .active x y → y ≤ now) : PastEnds now new := by
  cases h with
  | keep _ _ e => subst e; exact hold
  | release h1 _ h3 e =>
    subst e
    intro o ho e he
    obtain ⟨o0, ho0, rfl⟩ := List.mem_map.mp ho
    unfold releaseOutage at he
    cases hst : o0.st with
    | active x y =>
      simp [hst] at he
      subst he
      exact hrel h1 h3 o0 ho0 x y hst
    | inactive l =>
      simp [hst] at he
      exact hold o0 ho0 e (by rw [hst, he])
  | strike cfgs r r' hc _ _ hnew _ =>
    intro o ho e he
    rcases (newOutageStates_spec hn cfgs r r' new (hd cfgs hc) hnew).2 o ho with ⟨l, _, hmem⟩ | ⟨d, _, hact⟩
    · exact hold o hmem e he
    · rw [hact] at he; cases he

/-! ## the batch side condition for AGVs -/

/-- a release of an AGV is due, and nothing earlier in the batch strikes the same AGV -/
structure RelGS (s : State) (L : List Transition) : Prop where
  due : ∀ tr ∈ L, tr.new = .t .idle → ∀ t ∈ s.transports, tr.comp = .t t.id → t.st = .outage →
    ∀ o, t.occ = .at o → o ≤ s.time
  order : L.Pairwise (fun a b => b.new = .t .idle → a.comp = b.comp → a.new = .t .waitingpickup)

theorem RelGS.tail {s : State} {tr : Transition} {R : List Transition} (h : RelGS s (tr :: R)) : RelGS s R :=
  ⟨fun t ht => h.due t (by simp [ht]), (List.pairwise_cons.mp h.order).2⟩

/-- the guard survives an applied transition -/
theorem RelGS.step (w : WF inst) {s s' : State} {r r' : Rng} {tr : Transition} {R : List Transition}
    (hI : StructInv inst s) (hgs : RelGS s (tr :: R))
    (h : applyTransition orc inst s r tr = .ok (s', r')) : RelGS s' R := by
  refine ⟨?_, (List.pairwise_cons.mp hgs.order).2⟩
  intro b hb hn t' ht' hcb hst o ho
  rw [applyTransition_time h]
  cases hc : tr.comp with
  | b bid =>
    unfold applyTransition at h
    simp only [hc] at h
    obtain ⟨_, _, h⟩ := except_bind_eq_ok h
    simp at h
  | m mid =>
    obtain ⟨_, _, _, _, _, _, htr, _⟩ := machine_out_effect hc h
    rw [htr] at ht'
    exact hgs.due b (by simp [hb]) hn t' ht' hcb hst o ho
  | t tid =>
    obtain ⟨t0, ht0, T', hid0, hid, htr, _, heff⟩ := agv_out_effect w hI hc h
    rw [htr] at ht'
    rcases (mem_replaceTransport (hI.shape.trNodup w) ht0 hid t').mp ht' with rfl | ⟨ht0', _⟩
    · exfalso
      have hnew : tr.new = .t .waitingpickup :=
        (List.pairwise_cons.mp hgs.order).1 b hb hn (by rw [hc, hcb, hid, hid0])
      cases heff with
      | keep _ h2 _ => exact h2 hst
      | release _ h2 _ _ => exact h2 hst
      | strike _ _ _ _ _ h3 _ _ => rw [hnew] at h3; cases h3
    · exact hgs.due b (by simp [hb]) hn t' ht0' hcb hst o ho

/-- the machine guard of `Dur.lean` survives an applied transition -/
theorem DueGS.step (w : WF inst) {s s' : State} {r r' : Rng} {tr : Transition} {R : List Transition}
    (hI : StructInv inst s) (hgs : DueGS s (tr :: R))
    (h : applyTransition orc inst s r tr = .ok (s', r')) : DueGS s' R := by
  refine ⟨?_, (List.pairwise_cons.mp hgs.once).2⟩
  intro t ht mid hc hn m' hm' hid
  have hne : tr.comp ≠ .m mid := (List.pairwise_cons.mp hgs.once).1 t ht mid hc hn
  rw [applyTransition_time h]
  cases hc0 : tr.comp with
  | m mid0 =>
    have := (machine_effect w hI hc0 h).1 m' hm' (by intro e; apply hne; rw [hc0, ← e, hid])
    exact hgs.due t (by simp [ht]) mid hc hn m' this hid
  | t tid =>
    obtain ⟨m, hm, e1, _, e3⟩ := (agv_effect w hI hc0 h).1 m' hm'
    rw [← e3]
    exact hgs.due t (by simp [ht]) mid hc hn m hm (by rw [e1, hid])
  | b bid =>
    unfold applyTransition at h
    simp only [hc0] at h
    obtain ⟨_, _, h⟩ := except_bind_eq_ok h
    simp at h

/-- a timed release is created only when the AGV's `occupied_till` has been reached, by the AGV itself -/
theorem timedTransport_idle_due {s : State} (hS : SchedInv s) {t : TransportState} (ht : t ∈ s.transports) {tr : Transition}
    (h : timedTransport inst s t = .ok (some tr)) (hn : tr.new = .t .idle) :
    tr.comp = .t t.id ∧ ∀ o, t.occ = .at o → o ≤ s.time := by
  unfold timedTransport at h
  cases hocc : t.occ with
  | none => simp [hocc] at h
  | dep b j tr' =>
    exfalso
    simp only [hocc] at h
    obtain ⟨res, _, h⟩ := except_bind_eq_ok h
    split at h
    · simp at h; subst h
      rw [hS.depWaiting t ht b j tr' hocc] at hn; cases hn
    · simp at h
  | «at» o =>
    simp only [hocc] at h
    split at h
    · rename_i hle
      refine ⟨?_, fun o' ho' => by simp at ho'; omega⟩
      cases hcr : agvTimedCreator t.st with
      | idleToPick =>
        simp only [hcr] at h
        unfold agvIdleToPickTransition at h
        obtain ⟨jid, _, h⟩ := except_bind_eq_ok h
        obtain ⟨j, _, h⟩ := except_bind_eq_ok h
        obtain ⟨rdy, _, h⟩ := except_bind_eq_ok h
        simp at h
        cases hnx : idleToPickNext t.st rdy with
        | none => simp [hnx] at h
        | some ns => simp [hnx] at h; subst h; rfl
      | pickupToDrop =>
        simp only [hcr] at h
        split at h
        · obtain ⟨js, _, h⟩ := except_bind_eq_ok h
          simp at h; subst h; rfl
        · simp at h
      | dropToIdle => simp [hcr] at h; subst h; rfl
      | raises => simp [hcr] at h
      | none => simp [hcr] at h
    · simp at h

/-- the transport part of a timed batch meets the release guard -/
theorem timedTransports_rel {s : State} (hS : SchedInv s) : ∀ (ts : List TransportState), (∀ t ∈ ts, t ∈ s.transports) →
    (ts.map (·.id)).Nodup → ∀ r, ts.mapM (timedTransport inst s) = .ok r →
    (∀ tr ∈ r.filterMap id, tr.new = .t .idle → ∃ t ∈ ts, tr.comp = .t t.id ∧ ∀ o, t.occ = .at o → o ≤ s.time) ∧
    (r.filterMap id).Pairwise (fun a b => b.new = .t .idle → a.comp = b.comp → a.new = .t .waitingpickup)
  | [], _, _, r, h => by simp [List.mapM_nil] at h; subst h; simp
  | t :: ts, hsub, hnd, r, h => by
    rw [List.mapM_cons] at h
    obtain ⟨x, hx, h⟩ := except_bind_eq_ok h
    obtain ⟨xs, hxs, h⟩ := except_bind_eq_ok h
    simp at h; subst h
    simp only [List.map_cons, List.nodup_cons, List.mem_map, not_exists, not_and] at hnd
    have ih := timedTransports_rel hS ts (fun y hy => hsub y (by simp [hy])) hnd.2 xs hxs
    cases x with
    | none =>
      simp only [List.filterMap_cons, id]
      exact ⟨fun tr htr hn => by
        obtain ⟨t', ht', e⟩ := ih.1 tr htr hn
        exact ⟨t', by simp [ht'], e⟩, ih.2⟩
    | some tr0 =>
      simp only [List.filterMap_cons, id]
      have h0 := timedTransport_shape hS (hsub t (by simp)) hx
      constructor
      · intro tr htr hn
        rcases List.mem_cons.mp htr with rfl | htr
        · exact ⟨t, by simp, timedTransport_idle_due hS (hsub t (by simp)) hx hn⟩
        · obtain ⟨t', ht', e⟩ := ih.1 tr htr hn
          exact ⟨t', by simp [ht'], e⟩
      · apply List.pairwise_cons.mpr
        refine ⟨?_, ih.2⟩
        intro b hb hbn hcomp
        rcases h0 with e | ⟨e, _⟩
        · exact e
        · exfalso
          obtain ⟨t', ht', ec, _⟩ := ih.1 b hb hbn
          rw [e, ec] at hcomp
          simp at hcomp
          exact hnd.1 t' ht' hcomp.symm

/-- the timed batch (followed by AGV dispatches) meets the release guard -/
theorem timed_rel (w : WF inst) {s : State} (hI : StructInv inst s) (hS : SchedInv s) {tt tele : List Transition}
    (htt : timedTransitions inst s = .ok tt) (htele : ∀ tr ∈ tele, tr.new = .t .working) : RelGS s (tt ++ tele) := by
  have hs := hI.shape
  unfold timedTransitions at htt
  obtain ⟨a, ha, htt⟩ := except_bind_eq_ok htt
  obtain ⟨b, hb, htt⟩ := except_bind_eq_ok htt
  simp at htt; subst htt
  unfold timedMachineTransitions at ha
  unfold timedTransportTransitions at hb
  cases hra : s.machines.mapM (timedMachine inst s.time) with
  | error e => simp [hra] at ha
  | ok ra =>
    simp [hra] at ha; subst ha
    cases hrb : s.transports.mapM (timedTransport inst s) with
    | error e => simp [hrb] at hb
    | ok rb =>
      simp [hrb] at hb; subst hb
      have hA := timedMachines_spec (inst := inst) s.machines (fun m hm => hm) (hs.machNodup w) ra hra
      have hB := timedTransports_rel (inst := inst) hS s.transports (fun t ht => ht) (hs.trNodup w) rb hrb
      -- machine transitions and dispatches are no AGV releases
      have hM : ∀ tr ∈ ra.filterMap id, ∃ ns mid, tr.new = .m ns ∧ tr.comp = .m mid := by
        intro tr htr
        obtain ⟨⟨m, _, hc, hcase⟩, _⟩ := hA.1 tr htr
        rcases hcase with ⟨ns, _, e, _⟩ | ⟨_, e, _⟩
        · exact ⟨ns, m.id, e, hc⟩
        · exact ⟨.setup, m.id, e, hc⟩
      rw [List.append_assoc]
      constructor
      · intro tr htr hn t ht hc hst o ho
        rcases List.mem_append.mp htr with h | h
        · obtain ⟨ns, _, e, _⟩ := hM tr h
          rw [e] at hn; cases hn
        · rcases List.mem_append.mp h with h | h
          · obtain ⟨t', ht', ec, hdue⟩ := hB.1 tr h hn
            rw [ec] at hc
            simp at hc
            have : t' = t := eq_of_mem_of_key_eq (key := fun (y : TransportState) => y.id) (hs.trNodup w) ht' ht hc
            subst this
            exact hdue o ho
          · rw [htele tr h] at hn; cases hn
      · apply List.pairwise_append.mpr
        refine ⟨?_, ?_, ?_⟩
        · apply List.pairwise_of_forall_mem_list
          intro x _ y hy hn
          obtain ⟨ns, _, e, _⟩ := hM y hy
          rw [e] at hn; cases hn
        · apply List.pairwise_append.mpr
          refine ⟨hB.2, ?_, ?_⟩
          · apply List.pairwise_of_forall_mem_list
            intro x _ y hy hn
            rw [htele y hy] at hn; cases hn
          · intro x _ y hy hn
            rw [htele y hy] at hn; cases hn
        · intro x hx y hy hn hcomp
          exfalso
          obtain ⟨_, mid, _, ec⟩ := hM x hx
          rcases List.mem_append.mp hy with h | h
          · obtain ⟨t', _, ec', _⟩ := hB.1 y h hn
            rw [ec, ec'] at hcomp; cases hcomp
          · rw [htele y h] at hn; cases hn

/-! ## the invariant -/

/-- the outage invariant, and every remembered end of every component is an instant that has passed -/
structure OutagePast (s : State) : Prop where
  inv : OutageInv s
  mach : ∀ m ∈ s.machines, PastEnds s.time m.outages
  agv : ∀ t ∈ s.transports, PastEnds s.time t.outages

structure PastGS (s : State) (L : List Transition) : Prop where
  mach : DueGS s L
  agv : RelGS s L

/-- **one transition keeps it** -/
theorem applyTransition_past (w : WF inst) (nn : NonNeg orc inst) {s s' : State} {r r' : Rng} {tr : Transition}
    {R : List Transition} (hI : StructInv inst s) (hP : OutagePast s) (hgs : PastGS s (tr :: R))
    (h : applyTransition orc inst s r tr = .ok (s', r')) : OutagePast s' := by
  have htime := applyTransition_time h
  have hinv := applyTransition_outage w nn hI hP.inv h
  cases hc : tr.comp with
  | b bid =>
    unfold applyTransition at h
    simp only [hc] at h
    obtain ⟨_, _, h⟩ := except_bind_eq_ok h
    simp at h
  | m mid =>
    obtain ⟨m0, hm0, M', hid0, hid, hmach, htr, heff⟩ := machine_out_effect hc h
    have hnew : PastEnds s.time M'.outages := by
      apply heff.past nn.orc (mout_cfg nn) (hP.mach m0 hm0)
      intro hwas hrel o ho x y hact
      obtain ⟨a, hocc, _, hstruck⟩ := hP.inv.machOut m0 hm0 hwas
      have hdue := hgs.mach.due tr (by simp) mid hc (Or.inr hrel) m0 hm0 hid0
      rw [hocc] at hdue
      simp [dueAt] at hdue
      have := (hstruck.2 o ho x y hact).2.2
      omega
    refine ⟨hinv, ?_, ?_⟩
    · intro m hm
      rw [hmach] at hm
      rw [htime]
      rcases (mem_replaceMachine (hI.shape.machNodup w) hm0 hid m).mp hm with rfl | ⟨hm', _⟩
      · exact hnew
      · exact hP.mach m hm'
    · intro t ht
      rw [htr] at ht
      rw [htime]
      exact hP.agv t ht
  | t tid =>
    obtain ⟨t0, ht0, T', hid0, hid, htr, hmach, heff⟩ := agv_out_effect w hI hc h
    have hnew : PastEnds s.time T'.outages := by
      apply heff.past nn.orc (tout_cfg nn) (hP.agv t0 ht0)
      intro hwas hrel o ho x y hact
      obtain ⟨a, hocc, _, hstruck⟩ := hP.inv.agvOut t0 ht0 hwas
      have hdue := hgs.agv.due tr (by simp) hrel t0 ht0 (by rw [hc, hid0]) hwas _ hocc
      have := (hstruck.2 o ho x y hact).2.2
      omega
    refine ⟨hinv, ?_, ?_⟩
    · intro m' hm'
      obtain ⟨m, hm, _, _, e3⟩ := hmach m' hm'
      rw [← e3, htime]
      exact hP.mach m hm
    · intro t ht
      rw [htr] at ht
      rw [htime]
      rcases (mem_replaceTransport (hI.shape.trNodup w) ht0 hid t).mp ht with rfl | ⟨ht', _⟩
      · exact hnew
      · exact hP.agv t ht'

theorem OutagePast.advance {s : State} {t : Int} (h : OutagePast s) (hle : s.time ≤ t) :
    OutagePast { s with time := t } :=
  ⟨h.inv.advance hle, fun m hm => (h.mach m hm).mono hle, fun x hx => (h.agv x hx).mono hle⟩

/-- **The pass.** -/
def OutagePastPass (orc : Oracle) (inst : Instance) (cfg : SMConfig) (w : WF inst) (nn : NonNeg orc inst) :
    Pass orc inst cfg where
  P := OutagePast
  GS := PastGS
  Adm := fun _ a => ∀ tr ∈ a.transitions, OfferShaped tr
  tail := fun h => ⟨h.mach.tail, h.agv.tail⟩
  step := fun hI _ hP _ _ _ hgs ha =>
    ⟨applyTransition_past w nn hI hP hgs ha, ⟨hgs.mach.step w hI ha, hgs.agv.step w hI ha⟩⟩
  advance := fun _ _ hP hle _ => hP.advance hle
  timed := fun hI hS _ htt hposs htele =>
    ⟨timed_due w hI hS htt (filterTeleport_shape hposs htele), timed_rel w hI hS htt (filterTeleport_shape hposs htele)⟩
  timedOnly := fun hI hS _ htt =>
    ⟨by simpa using timed_due w hI hS (tele := []) htt (by simp),
     by simpa using timed_rel w hI hS (tele := []) htt (by simp)⟩
  action := fun {s a} _ _ _ hadm => by
    have hsh : ∀ tr ∈ sortedByTransport a.transitions, tr.new = .m .setup ∨ tr.new = .t .working :=
      fun tr htr => hadm tr (mem_sortedByTransport htr)
    refine ⟨⟨?_, ?_⟩, ⟨?_, ?_⟩⟩
    · intro tr htr mid _ hn
      rcases hsh tr htr with e | e <;> rw [e] at hn <;> simp at hn
    · apply List.pairwise_of_forall_mem_list
      intro x _ y hy mid _ hn
      rcases hsh y hy with e | e <;> rw [e] at hn <;> simp at hn
    · intro tr htr hn
      rcases hsh tr htr with e | e <;> rw [e] at hn <;> cases hn
    · apply List.pairwise_of_forall_mem_list
      intro x _ y hy hn
      rcases hsh y hy with e | e <;> rw [e] at hn <;> cases hn

/-! ## the initial state -/

theorem OutagePast.of_rest {s : State} (hr : restB s = true) (h0 : outRestB s = true) (h1 : outPastB s = true) :
    OutagePast s := by
  simp only [outPastB, Bool.and_eq_true, List.all_eq_true] at h1
  refine ⟨OutageInv.of_rest hr h0, ?_, ?_⟩
  · intro m hm o ho e he
    have := h1.1 m hm o ho
    rw [he] at this
    simpa [OutSt.pastB] using this
  · intro t ht o ho e he
    have := h1.2 t ht o ho
    rw [he] at this
    simpa [OutSt.pastB] using this

/-! ## along executions and episodes -/

theorem occursA_outagePast {cfg : SMConfig} {s0 σ : State} (hst : Start orc inst s0) (h0 : outRestB s0 = true)
    (h1 : outPastB s0 = true) (h : OccursA orc inst cfg s0 σ) : OutagePast σ := by
  obtain ⟨w, _⟩ := initOKB_sound hst.init
  have nn := nonnegB_sound hst.samples hst.nonneg
  exact occursA_pass (OutagePastPass orc inst cfg w nn) hst (OutagePast.of_rest hst.rest h0 h1) (fun _ _ ha => ha.shaped) h

/-- the time since an inactive record was last active, as the next sampling computes it, is never
negative (given a clock that is not negative, for records that were never active) -/
theorem OutagePast.since_nonneg {s : State} (h : OutagePast s) (hclock : 0 ≤ s.time) :
    (∀ m ∈ s.machines, ∀ o ∈ m.outages, ∀ d, outageSince s.time o.st = .ok d → 0 ≤ d) ∧
    (∀ t ∈ s.transports, ∀ o ∈ t.outages, ∀ d, outageSince s.time o.st = .ok d → 0 ≤ d) := by
  have key : ∀ l, PastEnds s.time l → ∀ o ∈ l, ∀ d, outageSince s.time o.st = .ok d → 0 ≤ d := by
    intro l hl o ho d hd
    cases hst : o.st with
    | active a b => rw [hst] at hd; simp [outageSince] at hd
    | inactive x =>
      cases x with
      | none => rw [hst] at hd; simp [outageSince] at hd; cases hd; omega
      | some e =>
        have := hl o ho e hst
        rw [hst] at hd; simp [outageSince] at hd; cases hd; omega
  exact ⟨fun m hm => key _ (h.mach m hm), fun t ht => key _ (h.agv t ht)⟩

/-- **every exposed state**: up to the final stamp of the clock, the outage invariant holds and every
remembered end is an instant that has passed -/
theorem exposed_outagePast {ec : EnvCfg} {st : RewardStatic} {s0 σ : State} (hst : Start orc inst s0)
    (h0 : outRestB s0 = true) (h1 : outPastB s0 = true) (h : Exposed orc inst ec st s0 σ) :
    ∃ t, OutagePast { σ with time := t } := by
  obtain ⟨w, _⟩ := initOKB_sound hst.init
  have nn := nonnegB_sound hst.samples hst.nonneg
  exact exposed_pass (OutagePastPass orc inst ec.sm w nn) hst (OutagePast.of_rest hst.rest h0 h1)
    (fun _ _ ha => ha.shaped) h

end JSL
