import JSL.Inv.SchedAgv
import JSL.Inv.Tables

/-!
# The schedule invariant along `applyTransition`, the time machines, `processTransitions`,
the timed loop and `smStep`
-/

namespace JSL

variable {orc : Oracle} {inst : Instance}

/-- Side conditions on an applied transition that the handlers themselves do not re-check:
a WORKING→OUTAGE transition names the job the machine holds, and a →TRANSIT (pickup) transition
names a job that is not being processed.  Transitions created by `create_timed_transitions` have
these properties in the state they were created from (`timed_guard` below); offered transitions
are never of these two kinds. -/
structure Guard (s : State) (tr : Transition) : Prop where
  ownJob : ∀ mid, tr.comp = .m mid → tr.new = .m .outage → ∀ m ∈ s.machines, m.id = mid →
    ∀ x, tr.job = some x → x ∈ m.buffer.store
  notProcessing : ∀ tid, tr.comp = .t tid → tr.new = .t .transit → ∀ j ∈ s.jobs, tr.job = some j.id →
    ∀ o ∈ j.ops, o.st ≠ .processing

theorem applyTransition_sched (w : WF inst) (nn : NonNeg orc inst) {s s' : State} {r r' : Rng} {tr : Transition}
    (hI : StructInv inst s) (hS : SchedInv s) (hv : transitionValid s tr = .ok true) (hg : Guard s tr)
    (h : applyTransition orc inst s r tr = .ok (s', r')) : SchedInv s' := by
  unfold applyTransition at h
  unfold transitionValid at hv
  cases hc : tr.comp with
  | m mid =>
    simp only [hc] at h hv
    obtain ⟨m0, hm0, h⟩ := except_bind_eq_ok h
    obtain ⟨mv, hmv, hv⟩ := except_bind_eq_ok hv
    rw [hm0] at hmv; simp at hmv; subst hmv
    unfold handleMachineTransition at h
    obtain ⟨m, hm, h⟩ := except_bind_eq_ok h
    rw [hm0] at hm; simp at hm; subst hm
    have hmem := getMachine_ok hm0
    obtain ⟨hd, hh, h⟩ := except_bind_eq_ok h
    unfold machineHandlerOf at hh
    cases hn : tr.new with
    | t ns => simp [hn] at hh
    | m ns =>
      simp only [hn] at hh
      cases hmh : machineHandler m0.st ns with
      | none => simp [hmh] at hh
      | some hd' =>
        simp [hmh] at hh; subst hh
        have hnd := hI.shape.jobsNodup w
        cases hd' with
        | idleToSetup =>
          have hst := machineHandler_idleToSetup hmh
          exact idleToSetup_sched w nn hI hS hmem.1 hst.1
            (valid_machine_job hnd hv (by simp [hst.1]) (by simp [hst.1])) h
        | setupToWorking =>
          have hst := machineHandler_setupToWorking hmh
          exact setupToWorking_sched w nn hI hS hmem.1 hst.1 h
        | workingToOutage =>
          have hst := machineHandler_workingToOutage hmh
          exact workingToOutage_sched w nn hI hS hmem.1 hst.1
            (hg.ownJob mid hc (by rw [hn, hst.2]) m0 hmem.1 hmem.2) h
        | outageToIdle =>
          have hst := machineHandler_outageToIdle hmh
          exact outageToIdle_sched w hI hS hmem.1 hst.1 h
  | t tid =>
    simp only [hc] at h
    obtain ⟨t0, ht0, h⟩ := except_bind_eq_ok h
    unfold handleTransportTransition at h
    obtain ⟨t, ht, h⟩ := except_bind_eq_ok h
    rw [ht0] at ht; simp at ht; subst ht
    have hmem := (getTransport_ok ht0).1
    obtain ⟨tc, _, h⟩ := except_bind_eq_ok h
    split at h
    · simp at h
    · obtain ⟨hd, hh, h⟩ := except_bind_eq_ok h
      unfold agvHandlerOf at hh
      cases hn : tr.new with
      | m ns => simp [hn] at hh
      | t ns =>
        simp only [hn] at hh
        cases hah : agvHandler t0.st ns with
        | none => simp [hah] at hh
        | some hd' =>
          simp [hah] at hh; subst hh
          cases hd' with
          | idleToWorking => exact idleToWorking_sched w nn hI hS hmem h
          | pickupToWaitingpickup =>
            have hns := (agvHandler_pickupToWaiting hah).1
            exact pickupToWaiting_sched w hI hS hmem (by rw [hn, hns]) h
          | pickupToTransit =>
            have hns := (agvHandler_pickupToTransit hah).1
            exact pickupToTransit_sched w nn hI hS hmem
              (fun j hj htj => hg.notProcessing tid hc (by rw [hn, hns]) j hj htj) h
          | transitToOutage => exact transitToOutage_sched w nn hI hS hmem h
          | outageToIdle =>
            have hst := (agvHandler_outageToIdle hah).1
            exact agvOutageToIdle_sched w hI hS hmem hst h
          | waitingPickupToWaitingPickup =>
            have hns := (agvHandler_waitingToWaiting hah).1
            exact waitingToWaiting_sched w hI hS hmem (by rw [hn, hns]) h
  | b bid =>
    simp only [hc] at h
    obtain ⟨_, _, h⟩ := except_bind_eq_ok h
    simp at h

end JSL
