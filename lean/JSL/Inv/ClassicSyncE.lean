import JSL.Inv.ClassicSync
import JSL.Inv.ClassicInvE

/-!
# The state stays in step with a target schedule – early dispatch

The lemmas of `ClassicSync` for the invariant `CInvE` / `BundleE` / `EnE`.  Only the two fields `machDue` and
`setupRec` of the classic invariant are used, so the proofs are factored through `_core` versions that take these
two facts as explicit hypotheses:

* `rec_step_core`, `rec_stepE` – a transition that is not a machine start changes no start of a record that has
  left `IDLE` and takes no record out of `IDLE`;
* `sync_step_core`, `sync_stepE` – hence it keeps `SyncL`;
* `sync_jump_core`, `sync_jumpE` – the forced jump keeps `SyncL` when no startable operation is due now or earlier.

(`sync_start` of `ClassicSync` needs no invariant and is used as it is.)
-/

namespace JSL

variable {orc : Oracle} {inst : Instance}

/-! ## (1) one transition that is not a machine start -/

/-- a transition that is not a machine start changes no start of a record that has left IDLE and takes no record
out of IDLE -/
theorem rec_step_core (w : WF inst) {s s' : State} {r r' : Rng} {a : Transition}
    (hI : StructInv inst s) (hS : SchedInv s)
    (hMD : ∀ m ∈ s.machines, m.st = .setup ∨ m.st = .outage → ∃ c, m.occ = some c ∧ c ≤ s.time)
    (hSR : ∀ m ∈ s.machines, m.st = .setup → ∀ j ∈ s.jobs, ∀ o ∈ j.ops, o.st = .processing →
      o.machine = m.id → o.start = o.stop)
    (hns : a.new ≠ .m .setup)
    (h : applyTransition orc inst s r a = .ok (s', r')) :
    ∀ j' ∈ s'.jobs, ∀ o' ∈ j'.ops, ∃ j ∈ s.jobs, j.id = j'.id ∧ ∃ o ∈ j.ops, o.job = o'.job ∧ o.idx = o'.idx ∧
      (o'.st = .idle ↔ o.st = .idle) ∧ (o.st ≠ .idle → o'.start = o.start) := by
  have hjn := hI.shape.jobsNodup w
  -- a job replaced by one whose records are those of `j.replaceOp rec`, `rec` keyed like a busy record with the
  -- same start
  have key : ∀ (j J' : JobState) (op rec : OpState), j ∈ s.jobs → J'.id = j.id → J'.ops = (j.replaceOp rec).ops →
      op ∈ j.ops → op.st ≠ .idle → rec.st ≠ .idle → rec.job = op.job → rec.idx = op.idx → rec.start = op.start →
      s'.jobs = (s.replaceJob J').jobs →
      ∀ j' ∈ s'.jobs, ∀ o' ∈ j'.ops, ∃ j ∈ s.jobs, j.id = j'.id ∧ ∃ o ∈ j.ops, o.job = o'.job ∧ o.idx = o'.idx ∧
        (o'.st = .idle ↔ o.st = .idle) ∧ (o.st ≠ .idle → o'.start = o.start) := by
    intro j J' op rec hj hid hops hop hopn hrecn hk1 hk2 hst hjobs j' hj' o' ho'
    rw [hjobs] at hj'
    rcases (mem_replaceJob hjn hj hid j').mp hj' with rfl | ⟨hj0, _⟩
    · rw [hops] at ho'
      rcases mem_replaceOp.mp ho' with ⟨rfl, _⟩ | ⟨ho0, _⟩
      · exact ⟨j, hj, hid.symm, op, hop, hk1.symm, hk2.symm, ⟨fun e => absurd e hrecn, fun e => absurd e hopn⟩,
          fun _ => hst⟩
      · exact ⟨j, hj, hid.symm, o', ho0, rfl, rfl, Iff.rfl, fun _ => rfl⟩
    · exact ⟨j', hj0, rfl, o', ho', rfl, rfl, Iff.rfl, fun _ => rfl⟩
  cases hc : a.comp with
  | t tid =>
    obtain ⟨_, hj⟩ := agv_effect w hI hc h
    intro j' hj' o' ho'
    obtain ⟨j, hj0, e1, e2⟩ := hj j' hj'
    exact ⟨j, hj0, e1, o', by rw [e2]; exact ho', rfl, rfl, Iff.rfl, fun _ => rfl⟩
  | b bid => exact (apply_not_buffer hc h).elim
  | m mid =>
    obtain ⟨m0, hm0, _, hstep⟩ := mach_step_cases hc h
    cases hstep with
    | start _ hn _ => exact absurd hn hns
    | work hst _ hh =>
      obtain ⟨j, op, oc, d, hj, _, hin, hnn, _, hk1, hk2, _, rfl⟩ := setupToWorking_spec hh
      obtain ⟨_, op0, hp0, hm0id, hstop0, _⟩ := busy_job hI hS w hm0 (by rw [hst]; simp) hj hin
      have hnn0 := nextNotDone_of_processing (hS.ops j hj) hp0
      have : op0 = op := by rw [hnn] at hnn0; simpa using hnn0.symm
      subst this
      obtain ⟨_, _, hl, _, hpr⟩ := processing?_split' hp0
      have hmem : op0 ∈ j.ops := by rw [hl]; simp
      -- the running record started now
      obtain ⟨c, hocc, hcle⟩ := hMD m0 hm0 (Or.inl hst)
      have hss := hSR m0 hm0 hst j hj op0 hmem hpr hm0id
      obtain ⟨a0, b0, ha0, hb0, _, hale, hble⟩ := (OpsOK_mem _ _ (hS.ops j hj) op0 hmem).2.1 hpr
      have hstart : op0.start = some s.time := by
        have e1 : some b0 = some c := by rw [← hb0, hstop0, hocc]
        have e2 : some a0 = some b0 := by rw [← ha0, ← hb0, hss]
        simp at e1 e2
        rw [ha0]; congr 1; omega
      exact key j (j.replaceOp (opRec oc s.time (s.time + d) m0.id)) op0 (opRec oc s.time (s.time + d) m0.id) hj rfl rfl
        hmem (by rw [hpr]; simp) (by simp [opRec]) hk1 hk2 (by rw [hstart]; rfl) rfl
    | out _ _ hh =>
      obtain ⟨mc, outs, j, op, _, _, _, hj, _, hp, rfl⟩ := workingToOutage_spec hh
      obtain ⟨_, _, hl, _, hpr⟩ := processing?_split' hp
      exact key j (j.replaceOp { op with stop := some (s.time + occupiedFor outs) }) op
        { op with stop := some (s.time + occupiedFor outs) } hj rfl rfl (by rw [hl]; simp) (by rw [hpr]; simp)
        (by rw [hpr]; simp) rfl rfl rfl rfl
    | idle _ _ hh =>
      obtain ⟨j, op, mc, rest, b1, b2, _, hj, hp, _, _, _, _, rfl⟩ := outageToIdle_spec hh
      obtain ⟨_, _, hl, _, hpr⟩ := processing?_split' hp
      exact key j ((j.replaceOp { op with stop := some s.time, st := .done }).at m0.post.id) op
        { op with stop := some s.time, st := .done } hj rfl rfl (by rw [hl]; simp) (by rw [hpr]; simp) (by simp)
        rfl rfl rfl rfl

theorem rec_stepE (w : WF inst) (hC : Classic inst) {s s' : State} {r r' : Rng} {a : Transition}
    (hI : StructInv inst s) (hS : SchedInv s) (hB : BundleE inst s) (hE : EnE inst s a) (hns : a.new ≠ .m .setup)
    (h : applyTransition orc inst s r a = .ok (s', r')) :
    ∀ j' ∈ s'.jobs, ∀ o' ∈ j'.ops, ∃ j ∈ s.jobs, j.id = j'.id ∧ ∃ o ∈ j.ops, o.job = o'.job ∧ o.idx = o'.idx ∧
      (o'.st = .idle ↔ o.st = .idle) ∧ (o.st ≠ .idle → o'.start = o.start) :=
  rec_step_core w hI hS hB.cinv.machDue hB.cinv.setupRec hns h

/-! ## (2) … keeps the state in step -/

theorem sync_step_core (w : WF inst) {S : Nat → Nat → Int} {s s' : State} {r r' : Rng} {a : Transition}
    (hI : StructInv inst s) (hS : SchedInv s)
    (hMD : ∀ m ∈ s.machines, m.st = .setup ∨ m.st = .outage → ∃ c, m.occ = some c ∧ c ≤ s.time)
    (hSR : ∀ m ∈ s.machines, m.st = .setup → ∀ j ∈ s.jobs, ∀ o ∈ j.ops, o.st = .processing →
      o.machine = m.id → o.start = o.stop)
    (hns : a.new ≠ .m .setup)
    (h : applyTransition orc inst s r a = .ok (s', r')) (hQ : SyncL inst S s) : SyncL inst S s' := by
  have hrec := rec_step_core w hI hS hMD hSR hns h
  have htime := applyTransition_time h
  refine ⟨by rw [htime]; exact hQ.nonneg, ?_, ?_⟩
  · intro j' hj' o' ho' hni
    obtain ⟨j, hj, _, o, ho, k1, k2, hiff, hst⟩ := hrec j' hj' o' ho'
    have hni0 : o.st ≠ .idle := fun e => hni (hiff.mpr e)
    rw [hst hni0, hQ.started j hj o ho hni0, k1, k2]
  · intro j' hj' o' ho' hlt
    obtain ⟨j, hj, _, o, ho, k1, k2, hiff, _⟩ := hrec j' hj' o' ho'
    rw [htime, ← k1, ← k2] at hlt
    exact fun e => hQ.due j hj o ho hlt (hiff.mp e)

theorem sync_stepE (w : WF inst) (hC : Classic inst) {S : Nat → Nat → Int} {s s' : State} {r r' : Rng} {a : Transition}
    (hI : StructInv inst s) (hS : SchedInv s) (hB : BundleE inst s) (hE : EnE inst s a) (hns : a.new ≠ .m .setup)
    (h : applyTransition orc inst s r a = .ok (s', r')) (hQ : SyncL inst S s) : SyncL inst S s' :=
  sync_step_core w hI hS hB.cinv.machDue hB.cinv.setupRec hns h hQ

/-! ## (3) the forced jump -/

/-- the end of a processing record is at most target start + duration -/
theorem proc_end_le_core (hC : Classic inst) {S : Nat → Nat → Int} {s : State} (hS : SchedInv s) (hD : DurInv inst s)
    (hSR : ∀ m ∈ s.machines, m.st = .setup → ∀ j ∈ s.jobs, ∀ o ∈ j.ops, o.st = .processing → o.machine = m.id → o.start = o.stop) (hQ : SyncL inst S s) {j : JobState} (hj : j ∈ s.jobs) {o : OpState} (ho : o ∈ j.ops)
    (hst : o.st = .processing) {oc : OpCfg} (hoc : oc ∈ allOps inst) (k1 : oc.job = o.job) (k2 : oc.idx = o.idx)
    {b : Int} (hb : o.stop = some b) : b ≤ S o.job o.idx + oc.d := by
  obtain ⟨m, hm, hmid, hbusy, _⟩ := hS.procOnBusy j hj o ho hst
  obtain ⟨d, hd, hdpos⟩ := hC.posDur oc hoc
  have hocd : oc.d = d := by simp [OpCfg.d, hd]
  have hstart := hQ.started j hj o ho (by rw [hst]; simp)
  have hrun : m.st = .working ∨ m.st = .outage → b ≤ S o.job o.idx + oc.d := by
    intro hmst
    obtain ⟨a, b', ha, hb', _, heq⟩ := hD.running j hj o ho hst m hm hmid hmst d ⟨oc, hoc, k1, k2, hd⟩
    have := heq (fun mc hmc _ => hC.noOutM mc hmc)
    rw [hstart] at ha; rw [hb] at hb'
    simp at ha hb'
    omega
  cases hmst : m.st with
  | idle => exact absurd hmst hbusy
  | setup =>
    have := hSR m hm hmst j hj o ho hst hmid.symm
    rw [hstart, hb] at this
    simp at this
    omega
  | working => exact hrun (Or.inl hmst)
  | outage => exact hrun (Or.inr hmst)

/-- no idle record has its target start before the instant the forced jump lands on -/
theorem no_idle_before_core (w : WF inst) (hC : Classic inst) {S : Nat → Nat → Int} (hT : TargetOK inst S) {s : State}
    (hI : StructInv inst s) (hS : SchedInv s) (hD : DurInv inst s) 
    (hSR : ∀ m ∈ s.machines, m.st = .setup → ∀ j ∈ s.jobs, ∀ o ∈ j.ops, o.st = .processing →
      o.machine = m.id → o.start = o.stop)
    (hQ : SyncL inst S s)
    (havail : ∀ j ∈ s.jobs, j.running = false → ∀ o, j.nextIdle? = some o →
      (∀ m ∈ s.machines, m.id = o.machine → m.st = .idle) → s.time < S o.job o.idx)
    {t : Int} (hge : ∀ j ∈ s.jobs, ∀ o ∈ j.ops, o.st = .processing → ∀ b, o.stop = some b → t ≤ b) :
    ∀ (n : Nat) (j : JobState), j ∈ s.jobs → ∀ o ∈ j.ops, o.st = .idle → (S o.job o.idx).toNat = n →
      S o.job o.idx < t → False := by
  have hs := hI.shape
  have hjn := hs.jobsNodup w
  have hpos := d_pos_of_det hC.posDur
  have hnn := d_nonneg_of_det hC.posDur
  intro n
  induction n using Nat.strongRecOn with
  | _ n ih =>
    intro j hj o ho hidle hn hlt
    obtain ⟨oc, hoc, k1, k2, km⟩ := rec_cfg w hs hj ho
    have hnn0 : 0 ≤ S o.job o.idx := by rw [← k1, ← k2]; exact hT.nonneg oc hoc
    rcases Int.lt_trichotomy (S o.job o.idx) s.time with h1 | h1 | h1
    · exact hQ.due j hj o ho h1 hidle
    · -- the target start is now
      obtain ⟨l1, l2, e⟩ := List.append_of_mem ho
      have hok := hS.ops j hj
      have hdone : ∀ p ∈ l1, p.st = .done := by
        intro p hp
        obtain ⟨pc, hpc, q1, q2, hbef⟩ := earlier_before hT hnn hs hj e hp
        have hpmem : p ∈ j.ops := by rw [e]; simp [hp]
        have hpd := hpos pc hpc
        have hplt : S p.job p.idx < s.time := by omega
        have hpni := hQ.due j hj p hpmem hplt
        cases hpst : p.st with
        | idle => exact absurd hpst hpni
        | done => rfl
        | transport => exact absurd hpst (OpsOK_mem _ _ hok p hpmem).2.2
        | processing =>
          exfalso
          obtain ⟨a, b, _, hb, _⟩ := (OpsOK_mem _ _ hok p hpmem).2.1 hpst
          have h1' := proc_end_le_core hC hS hD hSR hQ hj hpmem hpst hpc q1 q2 hb
          have h2' := hge j hj p hpmem hpst b hb
          omega
      have hidle2 : allIdle l2 := OpsOK_after o (by rw [hidle]; simp) l2 l1 none hdone (e ▸ hok)
      have hnproc : ∀ x ∈ j.ops, x.st ≠ .processing := by
        intro x hx; rw [e] at hx
        rcases List.mem_append.mp hx with h | h
        · rw [hdone x h]; simp
        · rcases List.mem_cons.mp h with rfl | h
          · rw [hidle]; simp
          · rw [hidle2 x h]; simp
      have hnr : j.running = false := by
        cases hr : j.running with
        | false => rfl
        | true =>
          exfalso
          unfold JobState.running at hr
          obtain ⟨x, hx, hxs⟩ := List.any_eq_true.mp hr
          exact hnproc x hx (by simpa using hxs)
      have hni : j.nextIdle? = some o := by
        unfold JobState.nextIdle?
        rw [e, List.find?_append]
        have : l1.find? (fun o => o.st == OSt.idle) = none := by
          apply List.find?_eq_none.mpr
          intro x hx; simp [hdone x hx]
        simp [this, hidle]
      -- the machine of `o` is busy
      have hbusy : ∃ m ∈ s.machines, m.id = o.machine ∧ m.st ≠ .idle := by
        apply Classical.byContradiction
        intro hno
        have := havail j hj hnr o hni
          (fun m hm hid => Classical.byContradiction fun hne => hno ⟨m, hm, hid, hne⟩)
        omega
      obtain ⟨m, hm, hmid, hmb⟩ := hbusy
      obtain ⟨j2, hj2, _, o2, hp2, hm2, _, _⟩ := hS.busyHolds m hm hmb
      obtain ⟨ho2, hst2⟩ := find?_mem_ops hp2
      have hst2 : o2.st = .processing := by simpa using hst2
      obtain ⟨oc2, hoc2, r1, r2, rm⟩ := rec_cfg w hs hj2 ho2
      obtain ⟨a2, b2, ha2, hb2, _, hale, _⟩ := (OpsOK_mem _ _ (hS.ops j2 hj2) o2 ho2).2.1 hst2
      have hstart2 := hQ.started j2 hj2 o2 ho2 (by rw [hst2]; simp)
      have hS2 : S o2.job o2.idx ≤ s.time := by rw [hstart2] at ha2; simp at ha2; omega
      have hne : (oc2.job, oc2.idx) ≠ (oc.job, oc.idx) := by
        intro heq
        simp only [Prod.mk.injEq] at heq
        have hjj : j2.id = j.id := by
          rw [← hs.ops_job w hj2 ho2, ← hs.ops_job w hj ho, ← r1, ← k1, heq.1]
        have : j2 = j := eq_of_mem_of_key_eq (key := fun (y : JobState) => y.id) hjn hj2 hj hjj
        subst this
        exact hnproc o2 ho2 hst2
      rcases hT.excl oc2 hoc2 oc hoc (by rw [rm, km, hm2, hmid]) hne with hx | hx
      · rw [r1, r2, k1, k2] at hx
        have h1' := proc_end_le_core hC hS hD hSR hQ hj2 ho2 hst2 hoc2 r1 r2 hb2
        have h2' := hge j2 hj2 o2 ho2 hst2 b2 hb2
        omega
      · rw [r1, r2, k1, k2] at hx
        have := hpos oc hoc
        omega
    · -- the target start lies ahead: it is the end of an operation
      rcases hT.aligned oc hoc with h0 | ⟨oc', hoc', hal⟩
      · rw [k1, k2] at h0; have := hQ.nonneg; omega
      · rw [k1, k2] at hal
        have hd' := hpos oc' hoc'
        obtain ⟨j', hj', o', ho', q1, q2⟩ := cfg_rec hs hoc'
        rw [← q1, ← q2] at hal
        have hnn' : 0 ≤ S o'.job o'.idx := by rw [q1, q2]; exact hT.nonneg oc' hoc'
        cases hst' : o'.st with
        | idle => exact ih (S o'.job o'.idx).toNat (by omega) j' hj' o' ho' hst' rfl (by omega)
        | transport => exact absurd hst' (OpsOK_mem _ _ (hS.ops j' hj') o' ho').2.2
        | done =>
          obtain ⟨d, hd, _⟩ := hC.posDur oc' hoc'
          have := done_end_ge hS hD hQ hj' ho' hst' hoc' q1.symm q2.symm hd
          have : oc'.d = d := by simp [OpCfg.d, hd]
          omega
        | processing =>
          obtain ⟨a, b, _, hb, _⟩ := (OpsOK_mem _ _ (hS.ops j' hj') o' ho').2.1 hst'
          have h1' := proc_end_le_core hC hS hD hSR hQ hj' ho' hst' hoc' q1.symm q2.symm hb
          have h2' := hge j' hj' o' ho' hst' b hb
          omega

/-- **the forced jump keeps the state in step** (only the `setupRec` fact of the classic invariant is needed) -/
theorem sync_jump_core (w : WF inst) (hC : Classic inst) {S : Nat → Nat → Int} (hT : TargetOK inst S) {s : State}
    (hI : StructInv inst s) (hS : SchedInv s) (hD : DurInv inst s)
    (hSR : ∀ m ∈ s.machines, m.st = .setup → ∀ j ∈ s.jobs, ∀ o ∈ j.ops, o.st = .processing →
      o.machine = m.id → o.start = o.stop)
    (hQ : SyncL inst S s)
    (havail : ∀ j ∈ s.jobs, j.running = false → ∀ o, j.nextIdle? = some o →
      (∀ m ∈ s.machines, m.id = o.machine → m.st = .idle) → s.time < S o.job o.idx)
    {t : Int} (hf : forceJump s = .ok t) : SyncL inst S { s with time := t } := by
  obtain ⟨hle, hge, _, _⟩ := c12_jump_exact hS hf
  refine ⟨Int.le_trans hQ.nonneg hle, hQ.started, ?_⟩
  intro j hj o ho hlt hidle
  exact no_idle_before_core w hC hT hI hS hD hSR hQ havail hge _ j hj o ho hidle rfl hlt

/-- **the forced jump keeps the state in step** when no operation that could start now is due now or earlier -/
theorem sync_jumpE (w : WF inst) (hC : Classic inst) {S : Nat → Nat → Int} (hT : TargetOK inst S) {s : State}
    (hI : StructInv inst s) (hS : SchedInv s) (hD : DurInv inst s) (hP : CInvE inst s) (hQ : SyncL inst S s)
    (havail : ∀ j ∈ s.jobs, j.running = false → ∀ o, j.nextIdle? = some o →
      (∀ m ∈ s.machines, m.id = o.machine → m.st = .idle) → s.time < S o.job o.idx)
    {t : Int} (hf : forceJump s = .ok t) : SyncL inst S { s with time := t } :=
  sync_jump_core w hC hT hI hS hD hP.setupRec hQ havail hf

end JSL
