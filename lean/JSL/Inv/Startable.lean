import JSL.Inv.Offers
import JSL.Inv.Progress
import JSL.Props.Example

/-!
# The machine starts on offer are exactly the startable operations

`possibleTransitions` offers `{ comp := .m o.machine, new := .m .setup, job := some j.id }` exactly for
the jobs `j` of the state that are not running, have an idle operation `o` (the first one), whose
first not-done operation `op` is routed to a machine that exists, is idle, and in front of which
(in its pre-buffer) the job is located.  In a state satisfying the schedule invariant `op = o`
(`nextNotDone_eq_nextIdle`), so the condition speaks about `o` only; in an arbitrary state the two
may differ (a record with the status `TRANSPORT`), and the code then checks one machine and offers
another: `startable_needs_order`.
-/

namespace JSL

variable {inst : Instance}

/-- the job-side and machine-side conditions of a machine start: `o` is the first idle record,
`op` the first record that is not done, `m` the machine `op` is routed to -/
structure Startable (s : State) (j : JobState) (o op : OpState) (m : MachineState) : Prop where
  notRunning : j.running = false
  nextIdle : j.nextIdle? = some o
  nextNotDone : j.nextNotDone? = some op
  machine : getMachine s.machines op.machine = .ok m
  idle : m.st = .idle
  atPre : m.pre.id = j.loc

/-- the first transport of the instance exists and is no teleporter (otherwise
`is_action_possible` raises for every job with a free next operation) -/
def HeadTransportOK (inst : Instance) : Prop := ∃ t0 ts, inst.transports = t0 :: ts ∧ t0.type ≠ .teleporter

theorem nextOpFree_iff {j : JobState} : j.nextOpFree = true ↔ j.running = false ∧ ∃ o, j.nextIdle? = some o := by
  unfold JobState.nextOpFree JobState.nextIdle?
  constructor
  · intro h
    simp only [Bool.and_eq_true, Bool.not_eq_true', List.any_eq_true] at h
    obtain ⟨h1, x, hx, hp⟩ := h
    refine ⟨h1, ?_⟩
    cases hf : j.ops.find? (fun x => x.st == .idle) with
    | none => exact absurd hp (by simpa using List.find?_eq_none.mp hf x hx)
    | some o => exact ⟨o, rfl⟩
  · rintro ⟨h1, o, ho⟩
    simp only [Bool.and_eq_true, Bool.not_eq_true', List.any_eq_true]
    exact ⟨h1, o, List.mem_of_find?_eq_some ho, by simpa using List.find?_some ho⟩

/-- `is_action_possible` returns `True` exactly for the startable jobs -/
theorem actionPossible_true_iff {s : State} {j : JobState} :
    actionPossible inst s j = .ok true ↔
      HeadTransportOK inst ∧ ∃ o op m, Startable s j o op m := by
  constructor
  · intro hap
    unfold actionPossible at hap
    simp only [bind, Except.bind, pure, Except.pure] at hap
    split at hap
    · simp at hap
    · rename_i hfree
      have hfree' : j.nextOpFree = true := by simpa using hfree
      obtain ⟨hrun, o, ho⟩ := nextOpFree_iff.mp hfree'
      cases ht0 : inst.transports with
      | nil => simp [ht0] at hap
      | cons t0 ts =>
        simp only [ht0] at hap
        split at hap
        · simp at hap
        · rename_i htele
          cases hnn : j.nextNotDone with
          | error e => simp [hnn] at hap
          | ok op =>
            simp only [hnn] at hap
            cases hgm : getMachine s.machines op.machine with
            | error e => simp [hgm] at hap
            | ok m =>
              simp only [hgm] at hap
              cases hjm : jobAtMachine j m with
              | error e => simp [hjm] at hap
              | ok b =>
                simp only [hjm] at hap
                cases b with
                | false => simp at hap
                | true =>
                  simp at hap
                  unfold jobAtMachine at hjm
                  simp only [hnn, bind, Except.bind, pure, Except.pure] at hjm
                  have hloc : m.pre.id = j.loc := by simpa using hjm
                  have hnn' : j.nextNotDone? = some op := by
                    unfold JobState.nextNotDone at hnn
                    split at hnn
                    · rename_i x hx; simp at hnn; rw [hx, hnn]
                    · simp at hnn
                  exact ⟨⟨t0, ts, ht0, by simpa using htele⟩, o, op, m, hrun, ho, hnn', hgm, hap, hloc⟩
  · rintro ⟨⟨t0, ts, ht0, htele⟩, o, op, m, hst⟩
    have hfree : j.nextOpFree = true := nextOpFree_iff.mpr ⟨hst.notRunning, o, hst.nextIdle⟩
    have hnn : j.nextNotDone = .ok op := by simp [JobState.nextNotDone, hst.nextNotDone]
    have hjm : jobAtMachine j m = .ok true := by
      simp [jobAtMachine, hnn, hst.atPre, bind, Except.bind, pure, Except.pure]
    have htele' : (t0.type == TrType.teleporter) = false := by simpa using htele
    unfold actionPossible
    simp [hfree, ht0, htele', hnn, hst.machine, hjm, hst.idle, bind, Except.bind, pure, Except.pure]

/-- if `is_action_possible` returns at all for a job with a free next operation, the first transport
exists and is no teleporter -/
theorem headTransportOK_of_actionPossible {s : State} {j : JobState} {b : Bool}
    (hap : actionPossible inst s j = .ok b) (hfree : j.nextOpFree = true) : HeadTransportOK inst := by
  unfold actionPossible at hap
  simp only [bind, Except.bind, pure, Except.pure] at hap
  split at hap
  · rename_i h; rw [hfree] at h; simp at h
  · cases ht0 : inst.transports with
    | nil => simp [ht0] at hap
    | cons t0 ts =>
      simp only [ht0] at hap
      split at hap
      · simp at hap
      · rename_i htele
        exact ⟨t0, ts, ht0, by simpa using htele⟩

/-- the `mapM` that builds the machine offers, as a `filterMap` -/
theorem machineOffers_eq : ∀ (pj : List JobState) (mt : List Transition),
    pj.mapM (fun j => match j.nextIdle? with
      | some o => (pure ({ comp := .m o.machine, new := .m .setup, job := some j.id } : Transition) : Except Err Transition)
      | none => throw Err.typeError) = .ok mt →
    mt = pj.filterMap (fun j => j.nextIdle?.map fun o =>
        ({ comp := .m o.machine, new := .m .setup, job := some j.id } : Transition))
  | [], mt, h => by simp [List.mapM_nil] at h; subst h; rfl
  | a :: as, mt, h => by
    rw [List.mapM_cons] at h
    obtain ⟨b, hb, h⟩ := except_bind_eq_ok h
    obtain ⟨bs, hbs, h⟩ := except_bind_eq_ok h
    simp at h; subst h
    have ih := machineOffers_eq as bs hbs
    cases hn : a.nextIdle? with
    | none => simp [hn] at hb
    | some o =>
      simp [hn] at hb; subst hb
      simp [hn, ← ih]

/-- the machine part of the offers: one transition per possible job, in the order of the jobs -/
theorem possibleTransitions_split {cfg : SMConfig} {s : State} {poss : List Transition}
    (h : possibleTransitions inst cfg s = .ok poss) :
    ∃ pj pt, possibleJobs inst s = .ok pj ∧ possibleTransportTransitions inst cfg s = .ok pt ∧
      (∀ j ∈ pj, ∃ o, j.nextIdle? = some o) ∧
      poss = pj.filterMap (fun j => j.nextIdle?.map fun o =>
        ({ comp := .m o.machine, new := .m .setup, job := some j.id } : Transition)) ++ pt := by
  unfold possibleTransitions at h
  obtain ⟨pj, hpj, h⟩ := except_bind_eq_ok h
  obtain ⟨pt, hpt, h⟩ := except_bind_eq_ok h
  obtain ⟨mt, hmt, h⟩ := except_bind_eq_ok h
  simp at h; subst h
  refine ⟨pj, pt, hpj, hpt, ?_, ?_⟩
  · intro j hj
    obtain ⟨y, _, e⟩ := (mapM_ok_mem hmt).1 j hj
    cases hn : j.nextIdle? with
    | none => simp [hn] at e
    | some o => exact ⟨o, rfl⟩
  · rw [machineOffers_eq pj mt hmt]

/-- an offer is the machine start of a job that passes `is_action_possible`, or a dispatch -/
theorem offer_split_cases {cfg : SMConfig} {s : State} {poss : List Transition}
    (hp : possibleTransitions inst cfg s = .ok poss) (tr : Transition) (htr : tr ∈ poss) :
    (∃ j ∈ s.jobs, ∃ o, actionPossible inst s j = .ok true ∧ j.nextIdle? = some o ∧
        tr = { comp := .m o.machine, new := .m .setup, job := some j.id }) ∨
    (∃ pt, possibleTransportTransitions inst cfg s = .ok pt ∧ tr ∈ pt) := by
  obtain ⟨pj, pt, hpj, hpt, _, rfl⟩ := possibleTransitions_split hp
  rcases List.mem_append.mp htr with h | h
  · left
    obtain ⟨j, hjm, e⟩ := List.mem_filterMap.mp h
    unfold possibleJobs at hpj
    obtain ⟨hj, hap⟩ := filterE_ok hpj j hjm
    cases hn : j.nextIdle? with
    | none => simp [hn] at e
    | some o =>
      simp [hn] at e
      exact ⟨j, hj, o, hap, hn, e.symm⟩
  · exact Or.inr ⟨pt, hpt, h⟩

/-- **T1 (a), completeness.**  Whenever the offers are computed, every startable job is offered its
machine start. -/
theorem offers_complete {cfg : SMConfig} {s : State} {poss : List Transition}
    (h : possibleTransitions inst cfg s = .ok poss) {j : JobState} (hj : j ∈ s.jobs)
    {o op : OpState} {m : MachineState} (hst : Startable s j o op m) :
    ({ comp := .m o.machine, new := .m .setup, job := some j.id } : Transition) ∈ poss := by
  obtain ⟨pj, pt, hpj, _, _, rfl⟩ := possibleTransitions_split h
  unfold possibleJobs at hpj
  obtain ⟨b, hb⟩ := filterE_total hpj j hj
  have hhead := headTransportOK_of_actionPossible hb (nextOpFree_iff.mpr ⟨hst.notRunning, o, hst.nextIdle⟩)
  have hap : actionPossible inst s j = .ok true := actionPossible_true_iff.mpr ⟨hhead, o, op, m, hst⟩
  have hmem := filterE_mem_of_true hpj j hj hap
  apply List.mem_append_left
  exact List.mem_filterMap.mpr ⟨j, hmem, by simp [hst.nextIdle]⟩

/-- **T1 (b), soundness.**  Every offer addressed to a machine is the machine start of a startable
job of the state, for the machine of its first idle operation. -/
theorem offers_sound {cfg : SMConfig} {s : State} {poss : List Transition}
    (h : possibleTransitions inst cfg s = .ok poss) {tr : Transition} (htr : tr ∈ poss) {mid : Nat}
    (hc : tr.comp = .m mid) :
    ∃ j ∈ s.jobs, ∃ o op m, Startable s j o op m ∧ o.machine = mid ∧
      tr = { comp := .m o.machine, new := .m .setup, job := some j.id } := by
  rcases offer_split_cases h tr htr with ⟨j, hj, o, hap, hn, rfl⟩ | ⟨pt, hpt, hin⟩
  · obtain ⟨_, o', op, m, hst⟩ := actionPossible_true_iff.mp hap
    have : o' = o := by have := hst.nextIdle; rw [hn] at this; simpa using this.symm
    subst this
    exact ⟨j, hj, o', op, m, hst, by simpa using hc, rfl⟩
  · obtain ⟨t, _, j, _, rfl, _⟩ := possibleTransport_facts hpt tr hin
    simp at hc

/-- **T1, both directions**: membership of a machine start in the offers -/
theorem machine_offer_iff {cfg : SMConfig} {s : State} {poss : List Transition}
    (h : possibleTransitions inst cfg s = .ok poss) (mid jid : Nat) :
    ({ comp := .m mid, new := .m .setup, job := some jid } : Transition) ∈ poss ↔
      ∃ j ∈ s.jobs, j.id = jid ∧ ∃ o op m, Startable s j o op m ∧ o.machine = mid := by
  constructor
  · intro htr
    obtain ⟨j, hj, o, op, m, hst, hm, e⟩ := offers_sound h htr rfl
    simp at e
    exact ⟨j, hj, e.2.symm, o, op, m, hst, hm⟩
  · rintro ⟨j, hj, rfl, o, op, m, hst, rfl⟩
    exact offers_complete h hj hst

/-- every offer is addressed to a machine or to a transport; the ones addressed to a machine are
the machine starts -/
theorem offer_comp_cases {cfg : SMConfig} {s : State} {poss : List Transition}
    (h : possibleTransitions inst cfg s = .ok poss) {tr : Transition} (htr : tr ∈ poss) :
    (∃ mid jid, tr = { comp := .m mid, new := .m .setup, job := some jid }) ∨
    (∃ tid jid, tr = { comp := .t tid, new := .t .working, job := some jid }) := by
  rcases offer_split_cases h tr htr with ⟨j, _, o, _, _, rfl⟩ | ⟨pt, hpt, hin⟩
  · exact Or.inl ⟨_, _, rfl⟩
  · obtain ⟨t, _, j, _, rfl, _⟩ := possibleTransport_facts hpt tr hin
    exact Or.inr ⟨_, _, rfl⟩

/-! ## with the order of the records: one operation -/

/-- without a record of status `TRANSPORT`, in a job that is not running the first record that is
not done is the first idle one (no invariant on times needed) -/
theorem nextNotDone_eq_nextIdle_of_noTransport {j : JobState} (hnt : ∀ o ∈ j.ops, o.st ≠ .transport)
    (hr : j.running = false) : j.nextNotDone? = j.nextIdle? := by
  unfold JobState.nextNotDone? JobState.nextIdle?
  have key : ∀ o ∈ j.ops, (o.st != OSt.done) = (o.st == OSt.idle) := by
    intro o ho
    have hnp : o.st ≠ .processing := by
      intro e
      have : j.running = true := by
        unfold JobState.running
        exact List.any_eq_true.mpr ⟨o, ho, by simp [e]⟩
      rw [hr] at this; cases this
    cases hst : o.st with
    | idle => simp
    | done => simp
    | processing => exact absurd hst hnp
    | transport => exact absurd hst (hnt o ho)
  generalize j.ops = l at key
  induction l with
  | nil => rfl
  | cons a as ih =>
    simp only [List.find?_cons, key a (by simp)]
    rw [ih (fun o ho => key o (by simp [ho]))]

/-- the conditions of a machine start in terms of the one operation to be started -/
structure StartableOp (s : State) (j : JobState) (o : OpState) (m : MachineState) : Prop where
  notRunning : j.running = false
  nextIdle : j.nextIdle? = some o
  machine : getMachine s.machines o.machine = .ok m
  idle : m.st = .idle
  atPre : m.pre.id = j.loc

theorem startable_iff_op {s : State} {j : JobState} (hnt : ∀ o ∈ j.ops, o.st ≠ .transport) {o : OpState}
    {m : MachineState} : (∃ op, Startable s j o op m) ↔ StartableOp s j o m := by
  constructor
  · rintro ⟨op, h⟩
    have : op = o := by
      have e := nextNotDone_eq_nextIdle_of_noTransport hnt h.notRunning
      rw [h.nextNotDone, h.nextIdle] at e; simpa using e
    subst this
    exact ⟨h.notRunning, h.nextIdle, h.machine, h.idle, h.atPre⟩
  · intro h
    refine ⟨o, h.notRunning, h.nextIdle, ?_, h.machine, h.idle, h.atPre⟩
    rw [nextNotDone_eq_nextIdle_of_noTransport hnt h.notRunning, h.nextIdle]

theorem SchedInv.noTransport {s : State} (hS : SchedInv s) {j : JobState} (hj : j ∈ s.jobs) :
    ∀ o ∈ j.ops, o.st ≠ .transport := fun o ho => (OpsOK_mem _ _ (hS.ops j hj) o ho).2.2

/-- **T1 under the schedule invariant** (which holds in every state of every episode): a machine
start `(mid, jid)` is on offer iff job `jid` is not running, its first idle operation `o` is routed
to `mid`, that machine is idle and the job is in its pre-buffer. -/
theorem machine_offer_iff_op {cfg : SMConfig} {s : State} (hS : SchedInv s) {poss : List Transition}
    (h : possibleTransitions inst cfg s = .ok poss) (mid jid : Nat) :
    ({ comp := .m mid, new := .m .setup, job := some jid } : Transition) ∈ poss ↔
      ∃ j ∈ s.jobs, j.id = jid ∧ ∃ o m, StartableOp s j o m ∧ o.machine = mid := by
  rw [machine_offer_iff h]
  constructor
  · rintro ⟨j, hj, e, o, op, m, hst, hm⟩
    exact ⟨j, hj, e, o, m, (startable_iff_op (hS.noTransport hj)).mp ⟨op, hst⟩, hm⟩
  · rintro ⟨j, hj, e, o, m, hst, hm⟩
    obtain ⟨op, hst'⟩ := (startable_iff_op (hS.noTransport hj)).mpr hst
    exact ⟨j, hj, e, o, op, m, hst', hm⟩

/-- completeness in that form -/
theorem offers_complete_op {cfg : SMConfig} {s : State} (hS : SchedInv s) {poss : List Transition}
    (h : possibleTransitions inst cfg s = .ok poss) {j : JobState} (hj : j ∈ s.jobs)
    {o : OpState} {m : MachineState} (hst : StartableOp s j o m) :
    ({ comp := .m o.machine, new := .m .setup, job := some j.id } : Transition) ∈ poss :=
  (machine_offer_iff_op hS h o.machine j.id).mpr ⟨j, hj, rfl, o, m, hst, rfl⟩

/-- soundness in that form -/
theorem offers_sound_op {cfg : SMConfig} {s : State} (hS : SchedInv s) {poss : List Transition}
    (h : possibleTransitions inst cfg s = .ok poss) {tr : Transition} (htr : tr ∈ poss) {mid : Nat}
    (hc : tr.comp = .m mid) :
    ∃ j ∈ s.jobs, ∃ o m, StartableOp s j o m ∧ o.machine = mid ∧
      tr = { comp := .m o.machine, new := .m .setup, job := some j.id } := by
  obtain ⟨j, hj, o, op, m, hst, hm, e⟩ := offers_sound h htr hc
  exact ⟨j, hj, o, m, (startable_iff_op (hS.noTransport hj)).mp ⟨op, hst⟩, hm, e⟩

/-! ## the order of the records is needed for the one-operation form -/

namespace ExOrder

/-- `Ex.s0` with job 0 standing in the pre-buffer of machine 1 while its first record (routed to
machine 0) carries the status `TRANSPORT`: not a state of any episode -/
def s : State :=
  { Ex.s0 with
    jobs := [{ id := 0, ops := [{ Ex.op 0 0 0 with st := .transport }, Ex.op 0 1 1], loc := 3 },
             { id := 1, ops := [Ex.op 1 0 1, Ex.op 1 1 0], loc := 7 }] }

def j0 : JobState := { id := 0, ops := [{ Ex.op 0 0 0 with st := .transport }, Ex.op 0 1 1], loc := 3 }

end ExOrder

/-- **The one-operation form of T1 needs the order of the records** (`DONE* PROCESSING? IDLE*`, part
of the schedule invariant): with a record of status `TRANSPORT` in front of the first idle one, the
job is not running, its first idle operation is routed to machine 1, machine 1 is idle and the job
stands in its pre-buffer – and no machine start is offered, because `is_action_possible` looks at
the machine of the first record that is not done (machine 0). -/
theorem startable_needs_order :
    ∃ (s : State) (poss : List Transition), possibleTransitions Ex.inst { allowEarly := true } s = .ok poss ∧
      ∃ j ∈ s.jobs, ∃ o m, StartableOp s j o m ∧
        ({ comp := .m o.machine, new := .m .setup, job := some j.id } : Transition) ∉ poss := by
  refine ⟨ExOrder.s, [{ comp := .t 0, new := .t .working, job := some 1 }],
    by rfl, ExOrder.j0, by decide, Ex.op 0 1 1, Ex.ms 1 3 4 5, ⟨by decide, by decide, by rfl, by decide, by decide⟩, by decide⟩

end JSL
