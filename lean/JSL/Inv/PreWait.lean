import JSL.Inv.PreEqQ

/-!
# `_get_waiting_time` and `apply_transition` agree on `inst` and `preFlex inst`

`_get_waiting_time` reads the type of the buffer the claimed job lies in only for a job in a post-buffer; when
the job lies in a pre-buffer (it cannot: a claimed job is never in a pre-buffer, but the function is total
there) it is not in the post-buffer, and the branch that reads the type is not taken.
-/

namespace JSL

variable {orc : Oracle} {inst : Instance}

theorem pb_getWaitingTime (w : WF inst) (P : Parents inst) {s : State} (hI : StructInv inst s) (tr : Transition) :
    getWaitingTime (preFlex inst) s tr = getWaitingTime inst s tr := by
  have hs := hI.shape
  unfold getWaitingTime
  refine pb_bind_congr_ok (fun j hjob => ?_)
  have hj' := getJobOpt_ok hjob
  rcases pb_getBufCfg_rel (inst := inst) j.loc with ⟨e, h1, h2⟩ | ⟨c, c', h1, h2, hr⟩
  · simp only [h1, h2, except_bind_error]
  · simp only [h1, h2, except_bind_ok]
    rcases hr with rfl | ⟨rfl, mc, hmc, rfl⟩
    · simp only [pb_readyForPickup w hI hj'.1]
      rfl
    · simp only [eraseT_parent, (P.machine mc hmc).1]
      refine pb_bind_congr_ok (fun ms hms => ?_)
      have hm := (getMachine_ok hms).1
      have hnc : ms.post.store.contains j.id = false := by
        apply Bool.eq_false_iff.mpr
        intro hc
        have hin : j.id ∈ ms.post.store := List.contains_iff_mem.mp hc
        have hpost := (mem_allBufs_of_machine hm).2.2
        have hloc : j.loc = ms.post.id :=
          job_of_store hI.cons hj'.1 (by rw [storeAt_of_mem (hs.bufNodup w) hpost]; exact hin) (hs.jobsNodup w)
        obtain ⟨m, hm', hk⟩ := mem_of_map_eq hs.machines.symm hmc
        simp only [mKey, mcKey, Prod.mk.injEq] at hk
        have e : ms.post.id = m.pre.id := by rw [← hloc, ← (getBufCfg_ok h1).2, hk.2.1]
        have hk1 := kind_of_post hs hm
        rw [e] at hk1
        exact (not_kind_machine w hs hm').1 hk1
      simp only [hnc]
      rfl

/-- **`apply_transition` agrees on the two instances** in a state with the structural invariants -/
theorem pb_applyTransition_inv (w : WF inst) (P : Parents inst) {s : State} (hI : StructInv inst s) (tr : Transition)
    (r : Rng) : applyTransition orc (preFlex inst) s r tr = applyTransition orc inst s r tr :=
  pb_applyTransition (pb_getWaitingTime w P hI tr) r

end JSL
