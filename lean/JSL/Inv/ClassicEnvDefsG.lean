import JSL.Inv.ClassicEnvDefs

/-!
# The step interface of the steering strategy, without "every AGV is idle"

`StepIfaceG`: as `StepIface`, but instead of `settled` (every AGV idle at a decision point – false with
early dispatch) it delivers directly what the strategy needs from it: when no dispatch is on offer,
every waiting job with an idle record stands in the pre-buffer of the machine of that record.
-/

namespace JSL

structure StepIfaceG (orc : Oracle) (inst : Instance) (ec : EnvCfg) (st : RewardStatic) (s0 : State)
    (S : Nat → Nat → Int) : Prop where
  reset : ∀ r0, ∃ e0 mic, envReset orc inst ec s0 r0 = .ok (e0, mic) ∧ e0.res.success = true ∧
    SyncL inst S e0.res.state
  step : ∀ {e : EnvState}, EnvReach orc inst ec st s0 e → e.done = false → e.res.success = true → 0 ≤ e.mw.joker →
    SyncL inst S e.res.state → ∀ a, (a = .accept ∨ a = .decline) → StepOK S e a →
    ∃ out, envStep orc inst ec st e a = .ok out ∧ out.env.res.success = true ∧ out.obsRes.success = true ∧
      out.env.truncated = false ∧ out.env.mw.joker = e.mw.joker ∧
      out.env.terminated = isDone inst out.env.res.state ∧ out.env.done = isDone inst out.env.res.state ∧
      (∃ t, SyncL inst S { out.env.res.state with time := t }) ∧
      (out.env.done = false → SyncL inst S out.env.res.state)
  atPre : ∀ {e : EnvState}, EnvReach orc inst ec st s0 e → e.res.possible ≠ [] →
    ∀ pt, possibleTransportTransitions inst ec.sm e.res.state = .ok pt → pt = [] →
    ∀ j ∈ e.res.state.jobs, j.running = false → ∀ o, j.nextIdle? = some o →
      ∃ m ∈ e.res.state.machines, m.id = o.machine ∧ m.pre.id = j.loc ∧ j.id ∈ m.pre.store

end JSL
