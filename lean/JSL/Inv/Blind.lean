import JSL.Model.Env
import JSL.Lib.Except
import JSL.Lib.Lists
import JSL.Inv.Spec
import JSL.Model.Check

/-!
# An instance without stochastic elements never consults the sampled values

For an instance in which every duration, setup time, travel time, outage duration and outage
frequency is a constant, every model function that takes the oracle of sampled values and the
update counters returns the same result whatever they are, and hands the counters back unchanged.
-/

namespace JSL

def TimeCfg.isDet (c : TimeCfg) : Prop := ∃ t, c = .det t

theorem TimeCfg.isDetB_sound {c : TimeCfg} (h : c.isDetB = true) : c.isDet := by
  cases c with
  | det t => exact ⟨t, rfl⟩
  | stoch _ => cases h

/-- no stochastic element anywhere in the instance -/
structure DetInst (inst : Instance) : Prop where
  ops : ∀ j ∈ inst.jobs, ∀ o ∈ j.ops, o.dur.isDet
  setup : ∀ m ∈ inst.machines, ∀ e ∈ m.setup, e.2.isDet
  travel : ∀ e ∈ inst.travel, e.2.isDet
  mout : ∀ m ∈ inst.machines, ∀ o ∈ m.outages, o.dur.isDet ∧ o.freq.isDet
  tout : ∀ t ∈ inst.transports, ∀ o ∈ t.outages, o.dur.isDet ∧ o.freq.isDet

theorem detInstB_sound {inst : Instance} (h : detInstB inst = true) : DetInst inst := by
  simp only [detInstB, Bool.and_eq_true, List.all_eq_true] at h
  obtain ⟨⟨⟨h1, h2⟩, h3⟩, h4⟩ := h
  exact {
    ops := fun j hj o ho => TimeCfg.isDetB_sound (h1 j hj o ho)
    setup := fun m hm e he => TimeCfg.isDetB_sound ((h2 m hm).1 e he)
    travel := fun e he => TimeCfg.isDetB_sound (h3 e he)
    mout := fun m hm o ho => ⟨TimeCfg.isDetB_sound ((h2 m hm).2 o ho).1, TimeCfg.isDetB_sound ((h2 m hm).2 o ho).2⟩
    tout := fun t ht o ho => ⟨TimeCfg.isDetB_sound (h4 t ht o ho).1, TimeCfg.isDetB_sound (h4 t ht o ho).2⟩ }

variable {inst : Instance}

section
variable (orc orc' : Oracle) (r r' : Rng)

theorem shouldApply_blind {f : TimeCfg} (h : f.isDet) (since : Int) :
    shouldApply orc' r' f since = ((shouldApply orc r f since).1, r') := by
  obtain ⟨t, rfl⟩ := h; rfl

theorem sampleOutage_blind {o : OutageCfg} (h : o.dur.isDet ∧ o.freq.isDet) (now : Int) (comp : List OutageState) :
    sampleOutage orc' now comp r' o = (sampleOutage orc now comp r o).map (fun p => (p.1, r')) := by
  obtain ⟨⟨d, hd⟩, ⟨f, hf⟩⟩ := h
  unfold sampleOutage
  cases findE (fun x => x.id == o.id) comp .valueError with
  | error e => rfl
  | ok st =>
    simp only [except_bind_ok]
    cases outageSince now st.st with
    | error e => rfl
    | ok since =>
      simp only [except_bind_ok, hd, hf, shouldApply, TimeCfg.updRead]
      split <;> rfl

theorem newOutageStates_blind (now : Int) (comp : List OutageState) : ∀ (os : List OutageCfg) (r r' : Rng),
    (∀ o ∈ os, o.dur.isDet ∧ o.freq.isDet) →
    newOutageStates orc' now comp os r' = (newOutageStates orc now comp os r).map (fun p => (p.1, r'))
  | [], _, _, _ => rfl
  | o :: os, r, r', h => by
    unfold newOutageStates
    rw [sampleOutage_blind orc orc' r r' (h o (by simp))]
    cases sampleOutage orc now comp r o with
    | error e => rfl
    | ok p =>
      obtain ⟨x, r1⟩ := p
      simp only [except_map'_ok, except_bind_ok]
      rw [newOutageStates_blind now comp os r1 r' (fun o ho => h o (by simp [ho]))]
      cases newOutageStates orc now comp os r1 with
      | error e => rfl
      | ok q => rfl

theorem setupDuration_blind {mc : MachineCfg} (h : ∀ e ∈ mc.setup, e.2.isDet) (old new : Nat) :
    setupDuration orc' r' mc old new = (setupDuration orc r mc old new).map (fun p => (p.1, r')) := by
  unfold setupDuration
  cases hl : mc.setup.lookup (old, new) with
  | none => rfl
  | some c =>
    obtain ⟨t, rfl⟩ := h ((old, new), c) (by
      have := List.lookup_eq_some_iff.mp hl
      obtain ⟨l1, l2, e, _⟩ := this
      rw [e]; simp)
    rfl

theorem beginMachineSetup_blind (hd : DetInst inst) (now : Int) (j : JobState) (m : MachineState) :
    beginMachineSetup orc' inst now r' j m =
      (beginMachineSetup orc inst now r j m).map (fun p => (p.1, p.2.1, r')) := by
  unfold beginMachineSetup
  cases j.nextNotDone with
  | error e => rfl
  | ok op =>
    simp only [except_bind_ok]
    cases getOpCfg inst op.job op.idx with
    | error e => rfl
    | ok oc =>
      simp only [except_bind_ok]
      cases h3 : getMachineCfg inst.machines m.id with
      | error e => rfl
      | ok mc =>
        simp only [except_bind_ok]
        rw [setupDuration_blind orc orc' r r' (hd.setup mc (getMachineCfg_ok h3).1)]
        cases setupDuration orc r mc m.tool oc.tool with
        | error e => rfl
        | ok p =>
          obtain ⟨sd, r1⟩ := p
          simp only [except_map'_ok, except_bind_ok]
          cases removeFromBuffer m.pre (j.replaceOp _).id with
          | error e => rfl
          | ok pre =>
            simp only [except_bind_ok]
            cases putInBuffer m.buffer mc.buf (j.replaceOp _) with
            | error e => rfl
            | ok q => rfl

theorem beginNext_blind (hd : DetInst inst) (now : Int) (j : JobState) (m : MachineState) :
    beginNextJobOnMachine orc' inst now r' j m =
      (beginNextJobOnMachine orc inst now r j m).map (fun p => (p.1, p.2.1, r')) := by
  unfold beginNextJobOnMachine
  cases h1 : j.nextNotDone with
  | error e => rfl
  | ok op =>
    simp only [except_bind_ok]
    cases h2 : getOpCfg inst op.job op.idx with
    | error e => rfl
    | ok oc =>
      simp only [except_bind_ok]
      obtain ⟨jc, hjc, hoc⟩ := List.mem_flatMap.mp (getOpCfg_ok h2).1
      obtain ⟨t, ht⟩ := hd.ops jc hjc oc hoc
      simp [ht, TimeCfg.updRead]

theorem completeTransportTask_blind (hd : DetInst inst) (now : Int) (j : JobState) (t : TransportState) (drop : Loc)
    (target : Target) :
    completeTransportTask orc' inst now r' j t drop target =
      (completeTransportTask orc inst now r j t drop target).map (fun p => (p.1, p.2.1, p.2.2.1, r')) := by
  unfold completeTransportTask
  simp only
  cases switchBuffer inst t.buffer (match target with | .machine m => m.pre | .buffer b => b) j with
  | error e => rfl
  | ok p =>
    obtain ⟨tbuf, filled, j1⟩ := p
    simp only [except_bind_ok]
    cases h2 : getTransportCfg inst.transports t.id with
    | error e => rfl
    | ok tc =>
      simp only [except_bind_ok]
      rw [newOutageStates_blind orc orc' now t.outages tc.outages r r' (hd.tout tc (getTransportCfg_ok h2).1)]
      cases newOutageStates orc now t.outages tc.outages r with
      | error e => rfl
      | ok q => rfl

theorem idleToSetup_blind (hd : DetInst inst) (s : State) (tr : Transition) (m : MachineState) :
    handleMachineIdleToSetup orc' inst s r' tr m =
      (handleMachineIdleToSetup orc inst s r tr m).map (fun p => (p.1, r')) := by
  unfold handleMachineIdleToSetup
  cases tr.job with
  | none => rfl
  | some jid =>
    simp only [except_pure, except_bind_ok]
    cases getJob s.jobs jid with
    | error e => rfl
    | ok j =>
      simp only [except_bind_ok]
      split
      · rfl
      · rw [beginMachineSetup_blind orc orc' r r' hd]
        cases beginMachineSetup orc inst s.time r j m with
        | error e => rfl
        | ok q => rfl

theorem setupToWorking_blind (hd : DetInst inst) (s : State) (tr : Transition) (m : MachineState) :
    handleMachineSetupToWorking orc' inst s r' tr m =
      (handleMachineSetupToWorking orc inst s r tr m).map (fun p => (p.1, r')) := by
  unfold handleMachineSetupToWorking
  cases tr.job with
  | none => rfl
  | some jid =>
    simp only [except_pure, except_bind_ok]
    cases getJob s.jobs jid with
    | error e => rfl
    | ok j =>
      simp only [except_bind_ok]
      split
      · rfl
      · rw [beginNext_blind orc orc' r r' hd]
        cases beginNextJobOnMachine orc inst s.time r j m with
        | error e => rfl
        | ok q => rfl

theorem workingToOutage_blind (hd : DetInst inst) (s : State) (tr : Transition) (m : MachineState) :
    handleMachineWorkingToOutage orc' inst s r' tr m =
      (handleMachineWorkingToOutage orc inst s r tr m).map (fun p => (p.1, r')) := by
  unfold handleMachineWorkingToOutage
  cases h1 : getMachineCfg inst.machines m.id with
  | error e => rfl
  | ok mc =>
    simp only [except_bind_ok]
    rw [newOutageStates_blind orc orc' s.time m.outages mc.outages r r' (hd.mout mc (getMachineCfg_ok h1).1)]
    cases newOutageStates orc s.time m.outages mc.outages r with
    | error e => rfl
    | ok q =>
      obtain ⟨outs, r1⟩ := q
      simp only [except_map'_ok, except_bind_ok]
      cases getJobOpt s.jobs tr.job with
      | error e => rfl
      | ok j =>
        simp only [except_bind_ok]
        cases beginMachineOutage s.time j m (occupiedFor outs) outs with
        | error e => rfl
        | ok q => rfl

theorem machineTransition_blind (hd : DetInst inst) (s : State) (tr : Transition) (mid : Nat) :
    handleMachineTransition orc' inst s r' tr mid =
      (handleMachineTransition orc inst s r tr mid).map (fun p => (p.1, r')) := by
  unfold handleMachineTransition
  cases getMachine s.machines mid with
  | error e => rfl
  | ok m =>
    simp only [except_bind_ok]
    cases machineHandlerOf m.st tr.new with
    | error e => rfl
    | ok h =>
      simp only [except_bind_ok]
      cases h with
      | idleToSetup => exact idleToSetup_blind orc orc' r r' hd s tr m
      | setupToWorking => exact setupToWorking_blind orc orc' r r' hd s tr m
      | workingToOutage => exact workingToOutage_blind orc orc' r r' hd s tr m
      | outageToIdle =>
        simp only [handleMachineOutageToIdle]
        cases completeActiveOperation inst s.time s.jobs m with
        | error e => rfl
        | ok q => rfl

theorem travelCfg_det (hd : DetInst inst) {a b : Loc} {c : TimeCfg} (h : travelCfg inst a b = some c) : c.isDet := by
  unfold travelCfg at h
  obtain ⟨l1, l2, e, _⟩ := List.lookup_eq_some_iff.mp h
  exact hd.travel ((a, b), c) (by rw [e]; simp)

theorem travelTimeFromSpec_blind (hd : DetInst inst) (src dst : Loc) :
    travelTimeFromSpec orc' inst r' src dst = (travelTimeFromSpec orc inst r src dst).map (fun p => (p.1, r')) := by
  unfold travelTimeFromSpec
  split
  · rfl
  · cases h : travelCfg inst src dst with
    | none => rfl
    | some c => obtain ⟨t, rfl⟩ := travelCfg_det hd h; rfl

theorem travelNoUpdate_blind (hd : DetInst inst) (a b : Loc) :
    travelNoUpdate orc' inst r' a b = travelNoUpdate orc inst r a b := by
  unfold travelNoUpdate
  cases h : travelCfg inst a b with
  | none => rfl
  | some c => obtain ⟨t, rfl⟩ := travelCfg_det hd h; rfl

theorem pickupToTransit_blind (hd : DetInst inst) (s : State) (tr : Transition) (t : TransportState) :
    handleAgvPickupToTransit orc' inst s r' tr t =
      (handleAgvPickupToTransit orc inst s r tr t).map (fun p => (p.1, r')) := by
  unfold handleAgvPickupToTransit
  cases tr.job with
  | none => rfl
  | some jid =>
    simp only [except_pure, except_bind_ok]
    cases getJob s.jobs jid with
    | error e => rfl
    | ok j =>
      simp only [except_bind_ok]
      cases dropLoc inst j JobState.nextNotDone with
      | error e => rfl
      | ok dst =>
        simp only [except_bind_ok]
        rw [travelTimeFromSpec_blind orc orc' r r' hd]
        cases travelTimeFromSpec orc inst r
            (match machineIdOfBuffer inst.machines j.loc with | some mid => Loc.m mid | none => Loc.b j.loc) dst with
        | error e => rfl
        | ok q =>
          obtain ⟨tt, r1⟩ := q
          simp only [except_map'_ok, except_bind_ok]
          split
          · rename_i bid _
            cases getBufState s.buffers bid with
            | error e => rfl
            | ok fb =>
              simp only [except_bind_ok]
              cases switchBuffer inst fb t.buffer j with
              | error e => rfl
              | ok q => rfl
          · rename_i mid _
            cases getMachine s.machines mid with
            | error e => rfl
            | ok ms =>
              simp only [except_bind_ok]
              cases bufOfMachine ms j.loc with
              | error e => rfl
              | ok bs =>
                simp only [except_bind_ok]
                cases switchBuffer inst bs t.buffer j with
                | error e => rfl
                | ok q =>
                  simp only [except_bind_ok]
                  cases replaceBufInMachine ms q.1 with
                  | error e => rfl
                  | ok ms2 => rfl

theorem idleToWorking_blind (hd : DetInst inst) (s : State) (tr : Transition) (t : TransportState) :
    handleAgvIdleToWorking orc' inst s r' tr t =
      (handleAgvIdleToWorking orc inst s r tr t).map (fun p => (p.1, r')) := by
  unfold handleAgvIdleToWorking
  cases tr.job with
  | none => rfl
  | some jid =>
    simp only [except_pure, except_bind_ok]
    cases t.loc with
    | route a b c => rfl
    | «at» cur =>
      simp only [except_pure, except_bind_ok]
      cases getJob s.jobs jid with
      | error e => rfl
      | ok j =>
        simp only [except_bind_ok]
        cases dropLoc inst j JobState.nextIdleE with
        | error e => rfl
        | ok target =>
          simp only [except_bind_ok]
          cases getBufCfg (allBufCfgs inst) j.loc with
          | error e => rfl
          | ok bc =>
            simp only [except_bind_ok]
            cases pickupSource bc j.loc with
            | error e => rfl
            | ok src =>
              simp only [except_bind_ok]
              rw [travelNoUpdate_blind orc orc' r r' hd]
              cases travelNoUpdate orc inst r cur src with
              | error e => rfl
              | ok ttp => rfl

theorem transitToOutage_blind (hd : DetInst inst) (s : State) (tr : Transition) (t : TransportState) :
    handleAgvTransitToOutage orc' inst s r' tr t =
      (handleAgvTransitToOutage orc inst s r tr t).map (fun p => (p.1, r')) := by
  unfold handleAgvTransitToOutage
  cases tr.job with
  | none => rfl
  | some jid =>
    simp only [except_pure, except_bind_ok]
    cases getJob s.jobs jid with
    | error e => rfl
    | ok j =>
      simp only [except_bind_ok]
      cases t.loc with
      | «at» l => rfl
      | route a b drop =>
        simp only [except_pure, except_bind_ok]
        cases getCompByLoc s drop with
        | error e => rfl
        | ok target =>
          simp only [except_bind_ok]
          rw [completeTransportTask_blind orc orc' r r' hd]
          cases completeTransportTask orc inst s.time r j t drop target with
          | error e => rfl
          | ok q => rfl

theorem transportTransition_blind (hd : DetInst inst) (s : State) (tr : Transition) (tid : Nat) :
    handleTransportTransition orc' inst s r' tr tid =
      (handleTransportTransition orc inst s r tr tid).map (fun p => (p.1, r')) := by
  unfold handleTransportTransition
  cases getTransport s.transports tid with
  | error e => rfl
  | ok t =>
    simp only [except_bind_ok]
    cases getTransportCfg inst.transports t.id with
    | error e => rfl
    | ok tc =>
      simp only [except_bind_ok]
      split
      · rfl
      · cases agvHandlerOf t.st tr.new with
        | error e => rfl
        | ok h =>
          simp only [except_bind_ok]
          cases h with
          | idleToWorking => exact idleToWorking_blind orc orc' r r' hd s tr t
          | pickupToTransit => exact pickupToTransit_blind orc orc' r r' hd s tr t
          | transitToOutage => exact transitToOutage_blind orc orc' r r' hd s tr t
          | pickupToWaitingpickup =>
            simp only [handleAgvPickupToWaiting]
            split
            · rfl
            · cases getWaitingTime inst s tr with
              | error e => rfl
              | ok occ => rfl
          | outageToIdle => rfl
          | waitingPickupToWaitingPickup =>
            simp only [handleAgvWaitingToWaiting]
            cases getWaitingTime inst s tr with
            | error e => rfl
            | ok occ => rfl

theorem applyTransition_blind (hd : DetInst inst) (s : State) (tr : Transition) :
    applyTransition orc' inst s r' tr = (applyTransition orc inst s r tr).map (fun p => (p.1, r')) := by
  unfold applyTransition
  cases tr.comp with
  | m mid =>
    simp only
    cases getMachine s.machines mid with
    | error e => rfl
    | ok _ => exact machineTransition_blind orc orc' r r' hd s tr mid
  | t tid =>
    simp only
    cases getTransport s.transports tid with
    | error e => rfl
    | ok _ => exact transportTransition_blind orc orc' r r' hd s tr tid
  | b bid =>
    simp only
    cases getBufState s.buffers bid with
    | error e => rfl
    | ok _ => rfl

end

/-- `process_state_transitions` -/
theorem processTransitions_blind (orc orc' : Oracle) (hd : DetInst inst) : ∀ (trs : List Transition) (s : State) (r r' : Rng),
    processTransitions orc' inst trs s r' = (processTransitions orc inst trs s r).map (fun o => { o with rng := r' })
  | [], _, _, _ => rfl
  | tr :: trs, s, r, r' => by
    unfold processTransitions
    cases transitionValid s tr with
    | error e => rfl
    | ok v =>
      simp only [except_bind_ok]
      cases v with
      | true =>
        simp only [if_true]
        rw [applyTransition_blind orc orc' r r' hd]
        cases applyTransition orc inst s r tr with
        | error e => rfl
        | ok q =>
          obtain ⟨s1, r1⟩ := q
          simp only [except_map'_ok, except_bind_ok]
          rw [processTransitions_blind orc orc' hd trs s1 r1 r']
          cases processTransitions orc inst trs s1 r1 with
          | error e => rfl
          | ok o => rfl
      | false =>
        simp only [Bool.false_eq_true, if_false]
        rw [processTransitions_blind orc orc' hd trs s r r']
        cases processTransitions orc inst trs s r with
        | error e => rfl
        | ok o => rfl

theorem travelTimeForTransport_blind (orc orc' : Oracle) (r r' : Rng) (hd : DetInst inst) (s : State) (jid : Option Nat) :
    travelTimeForTransport orc' inst r' s jid = travelTimeForTransport orc inst r s jid := by
  have key : ∀ (cur nxt : Loc) (c : TimeCfg), travelCfg inst cur nxt = some c → c.cur orc' r' = c.cur orc r := by
    intro cur nxt c h
    obtain ⟨t, rfl⟩ := travelCfg_det hd h; rfl
  unfold travelTimeForTransport
  cases getJobOpt s.jobs jid with
  | error e => rfl
  | ok j =>
    simp only [except_bind_ok]
    cases getBufCfg (allBufCfgs inst) j.loc with
    | error e => rfl
    | ok bc =>
      simp only [except_bind_ok]
      have tail : ∀ (cur nxt : Loc), (if (cur == nxt) = true then (pure 0 : Except Err Int) else
            match travelCfg inst cur nxt with | some c => pure (c.cur orc' r') | none => throw .notImplemented) =
          (if (cur == nxt) = true then (pure 0 : Except Err Int) else
            match travelCfg inst cur nxt with | some c => pure (c.cur orc r) | none => throw .notImplemented) := by
        intro cur nxt
        split
        · rfl
        · cases h : travelCfg inst cur nxt with
          | none => rfl
          | some c => simp only [key cur nxt c h]
      split
      · cases firstOutput inst with
        | error e => rfl
        | ok b =>
          simp only [except_map'_ok, except_bind_ok]
          rcases bc.parent with _ | (mid | n | n)
          all_goals first | rfl | (simp only [except_pure, except_bind_ok]; exact tail _ _)
      · cases j.nextIdle? with
        | none => rfl
        | some o =>
          simp only [except_pure, except_bind_ok]
          rcases bc.parent with _ | (mid | n | n)
          all_goals first | rfl | (simp only [except_pure, except_bind_ok]; exact tail _ _)

theorem filterTeleport_blind (orc orc' : Oracle) (r r' : Rng) (hd : DetInst inst) (s : State) (poss : List Transition) :
    filterTeleport orc' inst r' s poss = filterTeleport orc inst r s poss := by
  unfold filterTeleport
  simp only [travelTimeForTransport_blind orc orc' r r' hd]

/-- the `while timed_transitions` loop -/
theorem timedLoop_blind (orc orc' : Oracle) (hd : DetInst inst) (cfg : SMConfig) : ∀ (fuel : Nat) (tt : List Transition)
    (s : State) (r r' : Rng) (subs mic : List State),
    timedLoop orc' inst cfg fuel tt s r' subs mic =
      (timedLoop orc inst cfg fuel tt s r subs mic).map (fun o => { o with rng := r' })
  | 0, [], _, _, _, _, _ => rfl
  | _ + 1, [], _, _, _, _, _ => rfl
  | 0, _ :: _, _, _, _, _, _ => rfl
  | fuel + 1, t :: ts, s, r, r', subs, mic => by
    unfold timedLoop
    rw [processTransitions_blind orc orc' hd (t :: ts) s r r']
    cases processTransitions orc inst (t :: ts) s r with
    | error e => rfl
    | ok o =>
      simp only [except_map'_ok, except_bind_ok]
      split
      · rfl
      · cases jumpToEvent inst cfg o.state with
        | error e => rfl
        | ok tm =>
          simp only [except_bind_ok]
          cases timedTransitions inst { o.state with time := tm } with
          | error e => rfl
          | ok tt2 =>
            simp only [except_bind_ok]
            exact timedLoop_blind orc orc' hd cfg fuel tt2 _ o.rng r' _ _

/-- `state.step` -/
theorem smStep_blind (orc orc' : Oracle) (r r' : Rng) (hd : DetInst inst) (cfg : SMConfig) (fuel : Nat) (s0 : State) (a : Action) :
    smStep orc' inst cfg fuel s0 r' a = (smStep orc inst cfg fuel s0 r a).map (fun p => (p.1, r', p.2.2)) := by
  unfold smStep
  rw [processTransitions_blind orc orc' hd _ s0 r r']
  cases processTransitions orc inst (sortedByTransport a.transitions) s0 r with
  | error e => rfl
  | ok p =>
    simp only [except_map'_ok, except_bind_ok]
    split
    · rfl
    · cases runTimeMachine inst cfg p.state a.tm with
      | error e => rfl
      | ok t =>
        simp only [except_bind_ok]
        cases timedTransitions inst { p.state with time := t } with
        | error e => rfl
        | ok timed =>
          simp only [except_bind_ok]
          cases possibleTransitions inst cfg { p.state with time := t } with
          | error e => rfl
          | ok poss =>
            simp only [except_bind_ok]
            rw [filterTeleport_blind orc orc' p.rng r' hd]
            cases filterTeleport orc inst p.rng { p.state with time := t } poss with
            | error e => rfl
            | ok tele =>
              simp only [except_bind_ok]
              rw [timedLoop_blind orc orc' hd cfg fuel _ _ p.rng r']
              cases timedLoop orc inst cfg fuel (timed ++ tele) { p.state with time := t } p.rng [p.state] p.micro with
              | error e => rfl
              | ok out =>
                simp only [except_map'_ok, except_bind_ok]
                split
                · rfl
                · split
                  · cases lastDoneEnd out.state with
                    | error e => rfl
                    | ok x => rfl
                  · cases possibleTransitions inst cfg out.state with
                    | error e => rfl
                    | ok poss2 => rfl

theorem mwReset_blind (orc orc' : Oracle) (r r' : Rng) (hd : DetInst inst) (cfg : SMConfig) (mc : MwCfg) (fuel : Nat) (s0 : State) :
    mwReset orc' inst cfg mc fuel s0 r' = (mwReset orc inst cfg mc fuel s0 r).map (fun p => (p.1, p.2.1, r', p.2.2.2)) := by
  unfold mwReset
  rw [smStep_blind orc orc' r r' hd]
  cases smStep orc inst cfg fuel s0 r noOpAction with
  | error e => rfl
  | ok q => rfl

theorem noOpResult_blind (orc orc' : Oracle) (r r' : Rng) (hd : DetInst inst) (cfg : SMConfig) (mc : MwCfg) (fuel : Nat)
    (res : SMResult) (m : MwState) (a : Action) :
    noOpResult orc' inst cfg mc fuel res m r' a =
      (noOpResult orc inst cfg mc fuel res m r a).map (fun p => (p.1, p.2.1, r', p.2.2.2)) := by
  unfold noOpResult
  split
  · rfl
  · simp only
    rw [smStep_blind orc orc' r r' hd]
    cases smStep orc inst cfg fuel res.state r { a with tm := .forceJump } with
    | error e => rfl
    | ok q =>
      simp only [except_map'_ok, except_bind_ok]
      split
      · split <;> rfl
      · rfl
  · rfl

theorem mwStep_blind (orc orc' : Oracle) (r r' : Rng) (hd : DetInst inst) (cfg : SMConfig) (mc : MwCfg) (fuel : Nat)
    (res : SMResult) (m : MwState) (a : AgentAct) :
    mwStep orc' inst cfg mc fuel res m r' a =
      (mwStep orc inst cfg mc fuel res m r a).map (fun p => (p.1, p.2.1, r', p.2.2.2)) := by
  unfold mwStep
  cases interpret res a with
  | error e => rfl
  | ok act =>
    simp only [except_bind_ok]
    split
    · exact noOpResult_blind orc orc' r r' hd cfg mc fuel res _ act
    · rw [smStep_blind orc orc' r r' hd]
      cases smStep orc inst cfg fuel res.state r act with
      | error e => rfl
      | ok q => rfl

/-- `env.reset` -/
theorem envReset_blind (orc orc' : Oracle) (r r' : Rng) (hd : DetInst inst) (ec : EnvCfg) (s0 : State) :
    envReset orc' inst ec s0 r' = (envReset orc inst ec s0 r).map (fun p => ({ p.1 with rng := r' }, p.2)) := by
  unfold envReset
  rw [mwReset_blind orc orc' r r' hd]
  cases mwReset orc inst ec.sm ec.mw ec.fuel s0 r with
  | error e => rfl
  | ok q => rfl

/-- `env.step` -/
theorem envStep_blind (orc orc' : Oracle) (r' : Rng) (hd : DetInst inst) (ec : EnvCfg) (st : RewardStatic) (e : EnvState)
    (a : AgentAct) :
    envStep orc' inst ec st { e with rng := r' } a =
      (envStep orc inst ec st e a).map (fun o => { o with env := { o.env with rng := r' } }) := by
  unfold envStep
  split
  · rfl
  · simp only
    rw [mwStep_blind orc orc' e.rng r' hd]
    cases mwStep orc inst ec.sm ec.mw ec.fuel e.res e.mw e.rng a with
    | error er => rfl
    | ok q =>
      obtain ⟨res', mw, r1, mic⟩ := q
      simp only [except_map'_ok, except_bind_ok]
      split
      · rename_i hs
        simp only [hs, if_true]
        cases rewardMake ec.rw st e.rwCnt res' (isDone inst res'.state) (decide (mw.joker < 0)) with
        | error er => rfl
        | ok q => rfl
      · rename_i hs
        simp only [hs]
        cases rewardMake ec.rw st e.rwCnt e.res false true with
        | error er => rfl
        | ok q => rfl

end JSL
