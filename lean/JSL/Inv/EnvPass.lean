import JSL.Inv.EnvReach

/-!
# From a pass to the episodes of the environment

`occursA_pass` carries the invariant of a `Pass` along every admissible execution.  Everything the
middleware submits is admissible, so the invariant reaches every state the environment exposes: the
post-state of every applied transition and every sub-state exactly, the state held by the
environment up to the final stamp of the clock (exactly while the result is not the final one).
Done once here for any pass whose admissibility condition follows from `Admissible`.
-/

namespace JSL

variable {orc : Oracle} {inst : Instance} {cfg : SMConfig}

/-- what is carried for a result the environment holds -/
structure ResPass (ps : Pass orc inst cfg) (res : SMResult) : Prop where
  fin : ∃ t, ps.P { res.state with time := t }
  live : res.done = false → ps.P res.state
  subs : ∀ σ ∈ res.subStates, ps.P σ

theorem smStep_resPass (ps : Pass orc inst cfg) {s0 s : State} (hst : Start orc inst s0) (h0 : ps.P s0)
    (hadm : ∀ s a, Admissible a → ps.Adm s a) (h : OccursA orc inst cfg s0 s)
    {a : Action} (ha : Admissible a) {fuel : Nat} {r r' : Rng} {res : SMResult} {mic : List State}
    (hstep : smStep orc inst cfg fuel s r a = .ok (res, r', mic)) :
    ResPass ps res ∧ ∀ σ ∈ mic, ps.P σ := by
  obtain ⟨w, hI, hS⟩ := occursA_inv hst h
  have nn := nonnegB_sound hst.samples hst.nonneg
  have hs := ps.smStep w nn hI hS (occursA_pass ps hst h0 hadm h) ha (hadm _ _ ha) hstep
  exact ⟨⟨hs.2.2.1, hs.2.2.2, hs.2.1⟩, hs.1⟩

theorem envReset_pass {ec : EnvCfg} (ps : Pass orc inst ec.sm) {s0 : State} (hst : Start orc inst s0) (h0 : ps.P s0)
    (hadm : ∀ s a, Admissible a → ps.Adm s a)
    {r : Rng} {e : EnvState} {mic : List State} (h : envReset orc inst ec s0 r = .ok (e, mic)) :
    ResPass ps e.res ∧ ∀ σ ∈ mic, ps.P σ := by
  unfold envReset mwReset at h
  obtain ⟨⟨res, mw, r', mic'⟩, h1, h⟩ := except_bind_eq_ok h
  obtain ⟨⟨res', r'', mic''⟩, h2, h1⟩ := except_bind_eq_ok h1
  simp at h1 h
  obtain ⟨rfl, rfl, rfl, rfl⟩ := h1
  obtain ⟨rfl, rfl⟩ := h
  exact smStep_resPass ps hst h0 hadm OccursA.init admissible_noOp h2

theorem envStep_pass {ec : EnvCfg} {st : RewardStatic} (ps : Pass orc inst ec.sm) {s0 : State}
    (hst : Start orc inst s0) (h0 : ps.P s0) (hadm : ∀ s a, Admissible a → ps.Adm s a) {e : EnvState}
    (hi : ResInv orc inst ec.sm s0 e.res) (hd : ResPass ps e.res) {a : AgentAct} {out : StepOut}
    (h : envStep orc inst ec st e a = .ok out) :
    ResPass ps out.env.res ∧ ∀ σ ∈ out.micro, ps.P σ := by
  unfold envStep at h
  split at h
  · simp at h
  · obtain ⟨⟨res', mw, r, mic⟩, hm, h⟩ := except_bind_eq_ok h
    simp only at h
    obtain ⟨⟨rew, cnt⟩, _, h⟩ := except_bind_eq_ok h
    simp at h; subst h
    have key : ResPass ps res' ∧ ∀ σ ∈ mic, ps.P σ := by
      rcases mwStep_cases hm with ⟨o, o', rest, _, hp, e1, e2, _, _, _, e6, _⟩ | ⟨act, hsub, hk, hs⟩
      · simp only at e1 e2 e6
        have hl := hi.live (by rw [hp]; simp)
        have hP := occursA_pass ps hst h0 hadm hl.1
        refine ⟨⟨by rw [e1]; exact ⟨e.res.state.time, hP⟩, fun _ => by rw [e1]; exact hP,
          by rw [e2]; exact hd.subs⟩, ?_⟩
        rw [e6]; intro σ hσ; cases hσ
      · have hne : e.res.possible ≠ [] := by
          rcases hk with ⟨_, _, _, h⟩ | ⟨_, _, _, h⟩
          · exact h
          · intro h0; rw [h0] at h; simp at h
        have hl := hi.live hne
        have ha : Admissible act := by
          refine ⟨fun tr htr => hl.2 tr ?_, ?_⟩
          · have := hsub tr htr
            cases hp : e.res.possible with
            | nil => rw [hp] at this; simp at this
            | cons x xs => rw [hp] at this; simp at this; rw [this]; simp
          · rcases hk with ⟨_, h, _⟩ | ⟨_, h, _⟩ <;> rw [h] <;> simp
        exact smStep_resPass ps hst h0 hadm hl.1 ha hs
    by_cases hsuc : res'.success = true
    · simp only [hsuc, if_true]; exact key
    · simp only [hsuc]
      exact ⟨hd, key.2⟩

theorem envReach_pass {ec : EnvCfg} {st : RewardStatic} (ps : Pass orc inst ec.sm) {s0 : State}
    (hst : Start orc inst s0) (h0 : ps.P s0) (hadm : ∀ s a, Admissible a → ps.Adm s a) {e : EnvState}
    (h : EnvReach orc inst ec st s0 e) : ResPass ps e.res := by
  induction h with
  | reset h => exact (envReset_pass ps hst h0 hadm h).1
  | step he h ih => exact (envStep_pass ps hst h0 hadm (envReach_inv hst he) ih h).1

/-- **every exposed state satisfies the invariant of the pass, up to the final stamp of the clock** -/
theorem exposed_pass {ec : EnvCfg} {st : RewardStatic} (ps : Pass orc inst ec.sm) {s0 σ : State}
    (hst : Start orc inst s0) (h0 : ps.P s0) (hadm : ∀ s a, Admissible a → ps.Adm s a)
    (h : Exposed orc inst ec st s0 σ) : ∃ t, ps.P { σ with time := t } := by
  cases h with
  | state he => exact (envReach_pass ps hst h0 hadm he).fin
  | sub he hσ => exact ⟨σ.time, (envReach_pass ps hst h0 hadm he).subs σ hσ⟩
  | resetMicro hr hσ => exact ⟨σ.time, (envReset_pass ps hst h0 hadm hr).2 σ hσ⟩
  | micro he hs hσ =>
    exact ⟨σ.time, (envStep_pass ps hst h0 hadm (envReach_inv hst he) (envReach_pass ps hst h0 hadm he) hs).2 σ hσ⟩

end JSL
