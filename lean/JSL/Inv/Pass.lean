import JSL.Inv.TimeStep

/-!
# Carrying a further invariant through `state.step`

The structure and schedule invariants are established.  A `Pass` is a further invariant `P`
together with a batch-level side condition `GS` (what the remaining transitions of a batch may
assume of the current state).  Given the per-transition lemma and the facts that the batches the
code builds meet `GS`, `P` holds in every state of every execution.  The plumbing through
`process_state_transitions`, the timed loop and `state.step` is done once here.
-/

namespace JSL

variable {orc : Oracle} {inst : Instance}

structure Pass (orc : Oracle) (inst : Instance) (cfg : SMConfig) where
  P : State → Prop
  GS : State → List Transition → Prop
  /-- admissibility of an action in a state, as far as this pass is concerned -/
  Adm : State → Action → Prop
  tail : ∀ {s tr R}, GS s (tr :: R) → GS s R
  step : ∀ {s s' r r' tr R}, StructInv inst s → SchedInv s → P s → transitionValid s tr = .ok true →
    Safe s (tr :: R) → Fresh (tr :: R) → GS s (tr :: R) → applyTransition orc inst s r tr = .ok (s', r') →
    P s' ∧ GS s' R
  advance : ∀ {s t}, StructInv inst s → SchedInv s → P s → s.time ≤ t → PendingGe s t → P { s with time := t }
  timed : ∀ {s tt poss tele r}, StructInv inst s → SchedInv s → P s → timedTransitions inst s = .ok tt →
    possibleTransitions inst cfg s = .ok poss → filterTeleport orc inst r s poss = .ok tele → GS s (tt ++ tele)
  timedOnly : ∀ {s tt}, StructInv inst s → SchedInv s → P s → timedTransitions inst s = .ok tt → GS s tt
  action : ∀ {s a}, StructInv inst s → SchedInv s → P s → Adm s a → GS s (sortedByTransport a.transitions)

variable {cfg : SMConfig}

theorem Pass.process (ps : Pass orc inst cfg) (w : WF inst) (nn : NonNeg orc inst) :
    ∀ (L : List Transition) (s : State) (r : Rng) (o : ProcOut), StructInv inst s → SchedInv s → ps.P s →
      Safe s L → Fresh L → ps.GS s L → processTransitions orc inst L s r = .ok o →
      ps.P o.state ∧ ∀ σ ∈ o.micro, ps.P σ := by
  intro L
  induction L with
  | nil =>
    intro s r o _ _ hP _ _ _ h
    simp [processTransitions] at h; subst h
    exact ⟨hP, by simp⟩
  | cons tr L ih =>
    intro s r o hI hS hP hsafe hfresh hgs h
    simp only [processTransitions] at h
    obtain ⟨v, hv, h⟩ := except_bind_eq_ok h
    cases v with
    | true =>
      simp only [if_true] at h
      obtain ⟨⟨s1, r1⟩, ha, h⟩ := except_bind_eq_ok h
      obtain ⟨o1, ho1, h⟩ := except_bind_eq_ok h
      simp at h; subst h
      have hI1 := applyTransition_struct w hI hv ha
      have hS1 := applyTransition_sched w nn hI hS hv hsafe.guard ha
      have hfr := applyTransition_frame w hI hS hsafe.guard ha
      have hP1 := ps.step hI hS hP hv hsafe hfresh hgs ha
      have := ih s1 r1 o1 hI1 hS1 hP1.1 (hsafe.step hfresh hfr) (List.pairwise_cons.mp hfresh).2 hP1.2 ho1
      refine ⟨this.1, ?_⟩
      intro σ hσ
      rcases List.mem_cons.mp hσ with rfl | hσ
      · exact hP1.1
      · exact this.2 σ hσ
    | false =>
      simp only [Bool.false_eq_true, if_false] at h
      obtain ⟨o1, ho1, h⟩ := except_bind_eq_ok h
      simp at h; subst h
      exact ih s r o1 hI hS hP hsafe.tail (List.pairwise_cons.mp hfresh).2 (ps.tail hgs) ho1

theorem Pass.loop (ps : Pass orc inst cfg) (w : WF inst) (nn : NonNeg orc inst) :
    ∀ (fuel : Nat) (tt : List Transition) (s : State) (r : Rng) (subs mic : List State) (out : LoopOut),
      StructInv inst s → SchedInv s → ps.P s → Safe s tt → Fresh tt → ps.GS s tt →
      (∀ σ ∈ subs, ps.P σ) → (∀ σ ∈ mic, ps.P σ) →
      timedLoop orc inst cfg fuel tt s r subs mic = .ok out →
      ps.P out.state ∧ (∀ σ ∈ out.subs, ps.P σ) ∧ (∀ σ ∈ out.micro, ps.P σ) := by
  intro fuel
  induction fuel with
  | zero =>
    intro tt s r subs mic out _ _ hP _ _ _ hsub hmic h
    cases tt with
    | nil => simp [timedLoop] at h; subst h; exact ⟨hP, hsub, hmic⟩
    | cons a as => simp [timedLoop] at h
  | succ n ih =>
    intro tt s r subs mic out hI hS hP hsafe hfresh hgs hsub hmic h
    cases tt with
    | nil => simp [timedLoop] at h; subst h; exact ⟨hP, hsub, hmic⟩
    | cons a as =>
      simp only [timedLoop] at h
      obtain ⟨o, ho, h⟩ := except_bind_eq_ok h
      have hp := processTransitions_sched w nn _ _ _ _ hI hS hsafe hfresh ho
      have hpI := processTransitions_struct w _ _ _ _ hI ho
      have hpP := ps.process w nn _ _ _ _ hI hS hP hsafe hfresh hgs ho
      have hmic' : ∀ σ ∈ mic ++ o.micro, ps.P σ := by
        intro σ hσ
        rcases List.mem_append.mp hσ with hσ | hσ
        · exact hmic σ hσ
        · exact hpP.2 σ hσ
      split at h
      · simp at h; subst h; exact ⟨hpP.1, hsub, hmic'⟩
      · obtain ⟨t, ht, h⟩ := except_bind_eq_ok h
        obtain ⟨tt', htt', h⟩ := except_bind_eq_ok h
        have hadv := jumpToEvent_spec hp.1 ht
        have hS' := hp.1.advance hadv.1 hadv.2
        have hI' := hpI.1.time t
        have hP' := ps.advance hpI.1 hp.1 hpP.1 hadv.1 hadv.2
        have hsf := timed_batch_safe w (tele := []) hI' hS' htt' (by simp)
        simp only [List.append_nil] at hsf
        apply ih _ _ _ _ _ _ hI' hS' hP' hsf.1 hsf.2 (ps.timedOnly hI' hS' hP' htt') _ hmic' h
        intro σ hσ
        rcases List.mem_append.mp hσ with hσ | hσ
        · exact hsub σ hσ
        · simp at hσ; subst hσ; exact hP'

/-- **`state.step` keeps the invariant of a pass**: in the post-state of every applied transition,
in every sub-state, and in the state the loop ends in (the returned state up to the final stamp
of the clock; the returned state itself when the shop is not done). -/
theorem Pass.smStep (ps : Pass orc inst cfg) (w : WF inst) (nn : NonNeg orc inst) {fuel : Nat} {s0 : State} {r : Rng}
    {a : Action} {res : SMResult} {r' : Rng} {mic : List State} (hI : StructInv inst s0) (hS : SchedInv s0)
    (hP : ps.P s0) (ha : Admissible a) (hadm : ps.Adm s0 a)
    (h : JSL.smStep orc inst cfg fuel s0 r a = .ok (res, r', mic)) :
    (∀ σ ∈ mic, ps.P σ) ∧ (∀ σ ∈ res.subStates, ps.P σ) ∧
      (∃ t, ps.P { res.state with time := t }) ∧ (res.done = false → ps.P res.state) := by
  unfold JSL.smStep at h
  obtain ⟨p, hp, h⟩ := except_bind_eq_ok h
  have hsf := offerShaped_safe (s := s0) (L := sortedByTransport a.transitions)
    (fun tr htr => ha.shaped tr (mem_sortedByTransport htr))
  have hp' := processTransitions_sched w nn _ _ _ _ hI hS hsf.1 hsf.2 hp
  have hpI := processTransitions_struct w _ _ _ _ hI hp
  have hpP := ps.process w nn _ _ _ _ hI hS hP hsf.1 hsf.2 (ps.action hI hS hP hadm) hp
  split at h
  · simp at h
    obtain ⟨rfl, _, rfl⟩ := h
    exact ⟨hpP.2, by simpa using hpP.1, ⟨s0.time, hP⟩, fun _ => hP⟩
  · simp only at h
    obtain ⟨t, ht, h⟩ := except_bind_eq_ok h
    obtain ⟨timed, htimed, h⟩ := except_bind_eq_ok h
    obtain ⟨poss, hposs, h⟩ := except_bind_eq_ok h
    obtain ⟨tele, htele, h⟩ := except_bind_eq_ok h
    obtain ⟨out, hout, h⟩ := except_bind_eq_ok h
    have hadv := runTimeMachine_spec hp'.1 ha.tm ht
    have hS1 := hp'.1.advance hadv.1 hadv.2
    have hI1 := hpI.1.time t
    have hP1 := ps.advance hpI.1 hp'.1 hpP.1 hadv.1 hadv.2
    have hbatch := timed_batch_safe w hI1 hS1 htimed (filterTeleport_shape hposs htele)
    have hl := ps.loop w nn _ _ _ _ _ _ _ hI1 hS1 hP1 hbatch.1 hbatch.2 (ps.timed hI1 hS1 hP1 htimed hposs htele)
      (by simpa using hpP.1) hpP.2 hout
    split at h
    · simp at h
      obtain ⟨rfl, _, rfl⟩ := h
      exact ⟨hl.2.2, hl.2.1, ⟨s0.time, hP⟩, fun _ => hP⟩
    · split at h
      · obtain ⟨e, _, h⟩ := except_bind_eq_ok h
        simp at h
        obtain ⟨rfl, _, rfl⟩ := h
        refine ⟨hl.2.2, fun σ hσ => hl.2.1 σ ((List.dropLast_sublist _).subset hσ), ⟨out.state.time, ?_⟩, by simp⟩
        cases e <;> exact hl.1
      · obtain ⟨poss', _, h⟩ := except_bind_eq_ok h
        simp at h
        obtain ⟨rfl, _, rfl⟩ := h
        exact ⟨hl.2.2, fun σ hσ => hl.2.1 σ ((List.dropLast_sublist _).subset hσ), ⟨out.state.time, hl.1⟩, fun _ => hl.1⟩

end JSL
