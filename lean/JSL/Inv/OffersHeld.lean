import JSL.Inv.Startable
import JSL.Inv.EnvReach

/-!
# The offers the environment holds are a rest of the offers of the state it holds

`ResInv.offersFrom` says the held offers are *among* the offers computed from the held state.  More
is true (and needs no hypothesis on the instance): they are a **suffix** of that list – the offers
already declined are exactly a prefix – and they are the whole list right after every state-machine
step.  With T1 this says which operations the agent can still choose at this decision point.
-/

namespace JSL

variable {orc : Oracle} {inst : Instance}

/-- the offers held are what is left of the offers of the state held after dropping a prefix -/
def OffersSuffix (inst : Instance) (cfg : SMConfig) (res : SMResult) : Prop :=
  res.possible ≠ [] → ∃ poss pre, possibleTransitions inst cfg res.state = .ok poss ∧ poss = pre ++ res.possible

theorem smStep_offersSuffix {cfg : SMConfig} {fuel : Nat} {s : State} {r : Rng} {a : Action} {res : SMResult}
    {r' : Rng} {mic : List State} (h : smStep orc inst cfg fuel s r a = .ok (res, r', mic)) :
    OffersSuffix inst cfg res := by
  intro hne
  rcases (smStep_spec h).2 with h1 | h1 | h1
  · exact absurd h1.2.2.2 hne
  · exact absurd h1.2.2.1 hne
  · exact ⟨res.possible, [], h1.2.2.2, rfl⟩

/-- right after a state-machine step the offers held are all the offers of the state held -/
theorem smStep_offers_fresh {cfg : SMConfig} {fuel : Nat} {s : State} {r : Rng} {a : Action} {res : SMResult}
    {r' : Rng} {mic : List State} (h : smStep orc inst cfg fuel s r a = .ok (res, r', mic))
    (hne : res.possible ≠ []) : possibleTransitions inst cfg res.state = .ok res.possible := by
  rcases (smStep_spec h).2 with h1 | h1 | h1
  · exact absurd h1.2.2.2 hne
  · exact absurd h1.2.2.1 hne
  · exact h1.2.2.2

theorem envReach_offersSuffix {ec : EnvCfg} {st : RewardStatic} {s0 : State} {e : EnvState}
    (h : EnvReach orc inst ec st s0 e) : OffersSuffix inst ec.sm e.res := by
  induction h with
  | reset h =>
    unfold envReset mwReset at h
    obtain ⟨⟨res, mw, r', mic'⟩, h1, h⟩ := except_bind_eq_ok h
    obtain ⟨⟨res', r'', mic''⟩, h2, h1⟩ := except_bind_eq_ok h1
    simp at h1 h
    obtain ⟨rfl, rfl, rfl, rfl⟩ := h1
    obtain ⟨rfl, rfl⟩ := h
    exact smStep_offersSuffix h2
  | @step e a out _ h ih =>
    unfold envStep at h
    split at h
    · simp at h
    · obtain ⟨⟨res', mw, r, mic⟩, hm, h⟩ := except_bind_eq_ok h
      simp only at h
      obtain ⟨⟨rew, cnt⟩, _, h⟩ := except_bind_eq_ok h
      simp at h; subst h
      have key : OffersSuffix inst ec.sm res' := by
        rcases mwStep_cases hm with ⟨o, o', rest, _, hp, e1, _, e3, _⟩ | ⟨act, _, _, hs⟩
        · simp only at e1 e3
          intro _
          obtain ⟨poss, pre, hposs, hpre⟩ := ih (by rw [hp]; simp)
          refine ⟨poss, pre ++ [o], by rw [e1]; exact hposs, ?_⟩
          rw [hpre, hp, e3]; simp
        · exact smStep_offersSuffix hs
      by_cases hsuc : res'.success = true
      · simp only [hsuc, if_true]; exact key
      · simp only [hsuc]; exact ih

/-- **T1 for the offers held.**  In every environment state of every episode, a machine start
`(mid, jid)` is among the offers held only if job `jid` is startable on `mid` in the state held; and
every startable job whose offer has not been declined since the last state-machine step is among
them: the held list is `poss` minus a prefix `pre` of declined offers. -/
theorem envReach_held_offers {ec : EnvCfg} {st : RewardStatic} {s0 : State} (hst : Start orc inst s0) {e : EnvState}
    (h : EnvReach orc inst ec st s0 e) (hne : e.res.possible ≠ []) :
    ∃ pre, possibleTransitions inst ec.sm e.res.state = .ok (pre ++ e.res.possible) ∧
      ∀ mid jid, ({ comp := .m mid, new := .m .setup, job := some jid } : Transition) ∈ pre ++ e.res.possible ↔
        ∃ j ∈ e.res.state.jobs, j.id = jid ∧ ∃ o m, StartableOp e.res.state j o m ∧ o.machine = mid := by
  obtain ⟨poss, pre, hposs, rfl⟩ := envReach_offersSuffix h hne
  obtain ⟨_, _, hS⟩ := occursA_inv hst ((envReach_inv hst h).live hne).1
  exact ⟨pre, hposs, fun mid jid => machine_offer_iff_op hS hposs mid jid⟩

end JSL
