import JSL.Inv.PreOccurs

/-!
# C11 for the wider class: a successful `state.step` ends finished or with an offer

`progress_state` (a state that is not finished has an offer or something is pending) is taken over from
`preFlex inst`: `is_action_possible` does not read the type of the pre-buffer, so a job waiting in front of
an idle machine is counted as an offer whatever the discipline.  The timed loop runs on while something is
due – with an ordered pre-buffer that includes the start of the job the discipline names – and a forced jump
lands on an instant at which something is due (`not_quiet_after_forceJump`), so the loop ends only in a
state that is finished or holds an offer.
-/

namespace JSL

variable {orc : Oracle} {inst : Instance}

theorem TotClassP.hasAgv (C : TotClassP inst) : HasAgv inst := by
  cases htr : inst.transports with
  | nil => exact absurd htr C.agvOnly.ne
  | cons tc ts => exact ⟨tc, by rw [htr]; simp, C.agvOnly.agv tc (by rw [htr]; simp)⟩

theorem pb_progress_state (w : WF inst) (C : TotClassP inst) {cfg : SMConfig} {s : State}
    (hI : StructInv inst s) (hS : SchedInv s) (hP : AgvFull inst s) (hN : NoDep s)
    (hnd : isDone inst s = false) {poss : List Transition} (hp : possibleTransitions inst cfg s = .ok poss) :
    poss ≠ [] ∨ Pending s := by
  rw [← pb_possibleTransitions w hI] at hp
  exact progress_state (pb_wf w) (pb_totClass C).flex C.hasAgv (pb_struct hI) hS (pb_full hP) hN hnd hp

/-- after an admissible time machine, if nothing is due, there is an offer (unless finished) -/
theorem pb_offers_after_jump (w : WF inst) (C : TotClassP inst) {cfg : SMConfig} {s : State}
    (hI : StructInv inst s) (hS : SchedInv s) (hP : AgvFull inst s) (hN : NoDep s) {tm : TimeMachine}
    (htm : tm ≠ .jumpByOne) {t : Int} (ht : runTimeMachine inst cfg s tm = .ok t)
    (hq : Quiet inst { s with time := t }) : Offers inst cfg { s with time := t } := by
  intro hnd poss hposs
  rw [possibleTransitions_time] at hposs
  have hnd' : isDone inst s = false := hnd
  rcases pb_progress_state w C hI hS hP hN hnd' hposs with h | hpend
  · exact h
  · cases tm with
    | jumpByOne => exact absurd rfl htm
    | forceJump =>
      simp [runTimeMachine] at ht
      exact absurd hq (not_quiet_after_forceJump w hI hS hpend ht)
    | jumpToEvent =>
      simp only [runTimeMachine, jumpToEvent] at ht
      obtain ⟨n, hn, ht⟩ := except_bind_eq_ok ht
      split at ht
      · rename_i hpos
        exact poss_ne_of_count hn hpos hposs
      · exact absurd hq (not_quiet_after_forceJump w hI hS hpend ht)

/-- the `while timed_transitions` loop: when it ends without failure in a state that is not
finished, that state has an offer -/
theorem pb_timedLoop_offers (w : WF inst) (nn : NonNeg orc inst) (C : TotClassP inst) {cfg : SMConfig} :
    ∀ (fuel : Nat) (tt : List Transition) (s : State) (r : Rng) (subs mic : List State) (out : LoopOut),
      StructInv inst s → SchedInv s → TotP inst s → Safe s tt → Fresh tt → TotGS inst s tt →
      (tt = [] → Offers inst cfg s) →
      timedLoop orc inst cfg fuel tt s r subs mic = .ok out → out.failed = false → Offers inst cfg out.state := by
  intro fuel
  induction fuel with
  | zero =>
    intro tt s r subs mic out _ _ _ _ _ _ hg h _
    cases tt with
    | nil => simp [timedLoop] at h; subst h; exact hg rfl
    | cons a as => simp [timedLoop] at h
  | succ n ih =>
    intro tt s r subs mic out hI hS hP hsafe hfresh hgs hg h hnf
    cases tt with
    | nil => simp [timedLoop] at h; subst h; exact hg rfl
    | cons a as =>
      simp only [timedLoop] at h
      obtain ⟨o, ho, h⟩ := except_bind_eq_ok h
      have hp := processTransitions_sched w nn _ _ _ _ hI hS hsafe hfresh ho
      have hpI := processTransitions_struct w _ _ _ _ hI ho
      have hpP := (TotPassP orc inst cfg w nn C).process w nn _ _ _ _ hI hS hP hsafe hfresh hgs ho
      split at h
      · simp at h; subst h; simp at hnf
      · obtain ⟨t, ht, h⟩ := except_bind_eq_ok h
        obtain ⟨tt', htt', h⟩ := except_bind_eq_ok h
        have hadv := jumpToEvent_spec hp.1 ht
        have hS' := hp.1.advance hadv.1 hadv.2
        have hI' := hpI.1.time t
        have hP' := (TotPassP orc inst cfg w nn C).advance hpI.1 hp.1 hpP.1 hadv.1 hadv.2
        have hsf := timed_batch_safe w (tele := []) hI' hS' htt' (by simp)
        simp only [List.append_nil] at hsf
        refine ih _ _ _ _ _ _ hI' hS' hP' hsf.1 hsf.2
          ((TotPassP orc inst cfg w nn C).timedOnly hI' hS' hP' htt') ?_ h hnf
        intro e
        subst e
        have hPo : TotP inst o.state := hpP.1
        exact pb_offers_after_jump w C hpI.1 hp.1 hPo.full hPo.shape.occSet (tm := .jumpToEvent) (by simp)
          (by simpa [runTimeMachine] using ht) htt'

/-- **`state.step` never returns "zero offers although not done"** in the wider class: a successful step
that does not finish the shop returns at least one offer. -/
theorem pb_smStep_offers (w : WF inst) (nn : NonNeg orc inst) (C : TotClassP inst) {cfg : SMConfig}
    {fuel : Nat} {s0 : State} {r : Rng} {a : Action} {res : SMResult} {r' : Rng} {mic : List State}
    (hI : StructInv inst s0) (hS : SchedInv s0) (hP : TotP inst s0) (ha : Admissible a)
    (hadm : AdmOffer inst cfg s0 a) (h : smStep orc inst cfg fuel s0 r a = .ok (res, r', mic)) :
    res.success = true → res.done = false → res.possible ≠ [] := by
  unfold smStep at h
  obtain ⟨p, hp, h⟩ := except_bind_eq_ok h
  have hsf := offerShaped_safe (s := s0) (L := sortedByTransport a.transitions)
    (fun tr htr => ha.shaped tr (mem_sortedByTransport htr))
  have hp' := processTransitions_sched w nn _ _ _ _ hI hS hsf.1 hsf.2 hp
  have hpI := processTransitions_struct w _ _ _ _ hI hp
  have hpP := (TotPassP orc inst cfg w nn C).process w nn _ _ _ _ hI hS hP hsf.1 hsf.2
    ((TotPassP orc inst cfg w nn C).action hI hS hP hadm) hp
  split at h
  · simp at h
    obtain ⟨rfl, _, rfl⟩ := h
    simp
  · simp only at h
    obtain ⟨t, ht, h⟩ := except_bind_eq_ok h
    obtain ⟨timed, htimed, h⟩ := except_bind_eq_ok h
    obtain ⟨poss, hposs, h⟩ := except_bind_eq_ok h
    obtain ⟨tele, htele, h⟩ := except_bind_eq_ok h
    obtain ⟨out, hout, h⟩ := except_bind_eq_ok h
    have hadv := runTimeMachine_spec hp'.1 ha.tm ht
    have hS1 := hp'.1.advance hadv.1 hadv.2
    have hI1 := hpI.1.time t
    have hP1 := (TotPassP orc inst cfg w nn C).advance hpI.1 hp'.1 hpP.1 hadv.1 hadv.2
    have hbatch := timed_batch_safe w hI1 hS1 htimed (filterTeleport_shape hposs htele)
    have hPp : TotP inst p.state := hpP.1
    have hg : timed ++ tele = [] → Offers inst cfg { p.state with time := t } := by
      intro e
      have : timed = [] := (List.append_eq_nil_iff.mp e).1
      subst this
      exact pb_offers_after_jump w C hpI.1 hp'.1 hPp.full hPp.shape.occSet ha.tm ht htimed
    have hl := pb_timedLoop_offers w nn C _ _ _ _ _ _ _ hI1 hS1 hP1 hbatch.1 hbatch.2
      ((TotPassP orc inst cfg w nn C).timed hI1 hS1 hP1 htimed hposs htele) hg hout
    split at h
    · simp at h
      obtain ⟨rfl, _, rfl⟩ := h
      simp
    · rename_i hnf
      split at h
      · obtain ⟨e, _, h⟩ := except_bind_eq_ok h
        simp at h
        obtain ⟨rfl, _, rfl⟩ := h
        simp
      · rename_i hnd
        obtain ⟨poss', hposs', h⟩ := except_bind_eq_ok h
        simp at h
        obtain ⟨rfl, _, rfl⟩ := h
        intro _ _
        exact hl (by simpa using hnf) (by simpa using hnd) poss' hposs'

/-- one state-machine step of the environment from a state of an episode -/
theorem pb_smStep_good {cfg : SMConfig} {s0 s : State} (hst : Start orc inst s0) (C : TotClassP inst) (h0 : TotP inst s0)
    (hO : OccursF orc inst cfg s0 s) {a : Action} (ha : Admissible a) (hadm : AdmOffer inst cfg s a)
    {fuel : Nat} {r r' : Rng} {res : SMResult} {mic : List State}
    (hstep : smStep orc inst cfg fuel s r a = .ok (res, r', mic)) :
    (isDone inst res.state = false → OccursF orc inst cfg s0 res.state) ∧
    (res.success = true → isDone inst res.state = false → res.possible ≠ []) := by
  obtain ⟨w, hI, hS⟩ := occursA_inv hst hO.toC.toA
  have nn := nonnegB_sound hst.samples hst.nonneg
  have hP := pb_occursF_tot hst C h0 hO
  have hoff := pb_smStep_offers w nn C hI hS hP ha hadm hstep
  rcases (smStep_spec hstep).2 with h1 | h1 | h1
  · refine ⟨fun _ => by rw [h1.2.2.1]; exact hO, fun hs => ?_⟩
    rw [h1.1] at hs; cases hs
  · refine ⟨fun hd => ?_, fun _ hd => ?_⟩ <;> (rw [h1.2.2.2] at hd; cases hd)
  · exact ⟨fun _ => OccursF.result hO ha hadm hstep h1.2.1, fun hs _ => hoff hs h1.2.1⟩

end JSL
