import JSL.Model.Classic
import JSL.Inv.Applies
import JSL.Inv.ProgressPass
import JSL.Inv.ReachTarget

/-!
# Classic instances: the propositional form of `classicInstB` and the start guard

`Classic inst` is what `classicInstB inst = true` says, field by field.  `classicStartB inst s0`
is the additional guard on the initial state: every AGV is parked at a place of the shop
(`locsOf`), and the state is `Ready` (`readyB`).
-/

namespace JSL

variable {inst : Instance}

structure Classic (inst : Instance) : Prop where
  flex : FlexInst inst
  roomB : ∀ b ∈ inst.buffers, (inst.jobs.length : Int) ≤ b.cap
  roomPre : ∀ m ∈ inst.machines, (inst.jobs.length : Int) ≤ m.pre.cap
  roomPost : ∀ m ∈ inst.machines, (inst.jobs.length : Int) ≤ m.post.cap
  roomBuf : ∀ m ∈ inst.machines, 1 ≤ m.buf.cap
  roomAgv : ∀ t ∈ inst.transports, 1 ≤ t.buf.cap
  hasAgv : HasAgv inst
  allAgv : ∀ t ∈ inst.transports, t.type = .agv
  travel0 : ∀ a ∈ locsOf inst, ∀ b ∈ locsOf inst, travelCfg inst a b = some (.det 0)
  noOutM : ∀ m ∈ inst.machines, m.outages = []
  noOutT : ∀ t ∈ inst.transports, t.outages = []
  setup0 : ∀ m ∈ inst.machines, ∀ e ∈ m.setup, e.2 = .det 0
  tables : TablesTotal inst
  parentPre : ∀ m ∈ inst.machines, m.pre.parent = some (.m m.id)
  parentBuf : ∀ m ∈ inst.machines, m.buf.parent = some (.m m.id)
  parentPost : ∀ m ∈ inst.machines, m.post.parent = some (.m m.id)
  parentB : ∀ b ∈ inst.buffers, b.parent = none
  parentT : ∀ t ∈ inst.transports, t.buf.parent = some (.t t.id)
  posDur : ∀ oc ∈ allOps inst, ∃ d, oc.dur = .det d ∧ 0 < d
  jobsNonempty : ∀ jc ∈ inst.jobs, jc.ops ≠ []

theorem classicInstB_sound (h : classicInstB inst = true) : Classic inst := by
  simp only [classicInstB, Bool.and_eq_true] at h
  obtain ⟨⟨⟨⟨⟨⟨⟨⟨⟨⟨h1, h2⟩, h3⟩, h4⟩, h5⟩, h6⟩, h7⟩, h8⟩, h9⟩, h10⟩, h11⟩ := h
  simp only [roomyB, Bool.and_eq_true, List.all_eq_true, decide_eq_true_eq] at h2
  simp only [List.all_eq_true, beq_iff_eq] at h4
  simp only [zeroTravelB, List.all_eq_true, beq_iff_eq] at h5
  simp only [noOutagesB, Bool.and_eq_true, List.all_eq_true, List.isEmpty_iff] at h6
  simp only [zeroSetupB, List.all_eq_true, beq_iff_eq] at h7
  simp only [parentsB, Bool.and_eq_true, List.all_eq_true, beq_iff_eq] at h9
  simp only [posDurB, List.all_eq_true] at h10
  simp only [List.all_eq_true, Bool.not_eq_true', List.isEmpty_eq_false_iff] at h11
  refine ⟨flexInstB_sound h1, h2.1.1, fun m hm => (h2.1.2 m hm).1.1, fun m hm => (h2.1.2 m hm).1.2,
    fun m hm => (h2.1.2 m hm).2, h2.2, hasAgvB_sound h3, h4, h5, h6.1, h6.2, h7, tablesTotalB_sound h8,
    fun m hm => (h9.1.1 m hm).1.1, fun m hm => (h9.1.1 m hm).1.2, fun m hm => (h9.1.1 m hm).2, h9.1.2, h9.2, ?_, h11⟩
  intro oc hoc
  simp only [allOps, List.mem_flatMap] at hoc
  obtain ⟨jc, hjc, hoc⟩ := hoc
  have := h10 jc hjc oc hoc
  cases hd : oc.dur with
  | det d => rw [hd] at this; exact ⟨d, rfl, by simpa using this⟩
  | stoch sid => rw [hd] at this; cases this

/-- start guard beside `Start`: AGVs parked at places of the shop, tables ready for the state -/
def classicStartB (inst : Instance) (s : State) : Bool :=
  readyB inst s &&
  s.transports.all (fun t => match t.loc with | .at l => (locsOf inst).contains l | .route .. => false) &&
  decide (s.time = 0)

/-- buffer ids a job can be picked up from: standalone buffers that are not output buffers, and
post-buffers -/
def pickupPlaces (inst : Instance) : List Nat :=
  (inst.buffers.filter (·.role != .output)).map (·.id) ++ inst.machines.map (·.post.id)

end JSL
