import JSL.Inv.SchedDefs

/-! Lemmas about `OpsOK` under the four ways handlers rewrite an operation record, and under
time advance. -/

namespace JSL

theorem OpsOK_allIdle (now : Int) (prev : Option Int) : ∀ l, allIdle l → OpsOK now prev l
  | [], _ => trivial
  | o :: os, h => by
    have ho : o.st = .idle := h o (by simp)
    simp only [OpsOK, ho]
    intro x hx; exact h x (by simp [hx])

/-- replace-by-key on a list written as a split -/
theorem map_replace_split {α} {key : α → Nat × Nat} (l1 : List α) (x x' : α) (l2 : List α)
    (hnd : ((l1 ++ x :: l2).map key).Nodup) (hk : key x' = key x) :
    (l1 ++ x :: l2).map (fun y => if key y = key x' then x' else y) = l1 ++ x' :: l2 := by
  simp only [List.map_append, List.map_cons, hk, if_true]
  rw [List.map_append, List.map_cons] at hnd
  have h1 : ∀ y ∈ l1, key y ≠ key x := by
    intro y hy
    have := (List.nodup_append.mp hnd).2.2 (key y) (List.mem_map.mpr ⟨y, hy, rfl⟩) (key x) (by simp)
    exact this
  have h2 : ∀ y ∈ l2, key y ≠ key x := by
    intro y hy he
    have := (List.nodup_cons.mp (List.nodup_append.mp hnd).2.1).1
    exact this (he ▸ List.mem_map.mpr ⟨y, hy, rfl⟩)
  congr 1
  · conv => rhs; rw [← List.map_id l1]
    apply List.map_congr_left; intro y hy; simp [h1 y hy]
  · congr 1
    conv => rhs; rw [← List.map_id l2]
    apply List.map_congr_left; intro y hy; simp [h2 y hy]

/-- `replaceOp` on a split operation list with unique `(job, idx)` keys -/
theorem replaceOp_split (j : JobState) (l1 : List OpState) (op op' : OpState) (l2 : List OpState)
    (hops : j.ops = l1 ++ op :: l2) (hnd : (j.ops.map (fun o => (o.job, o.idx))).Nodup)
    (hk : op'.job = op.job ∧ op'.idx = op.idx) : (j.replaceOp op').ops = l1 ++ op' :: l2 := by
  have := map_replace_split (key := fun (o : OpState) => (o.job, o.idx)) l1 op op' l2 (hops ▸ hnd)
    (by simp [hk.1, hk.2])
  simp only [JobState.replaceOp, hops]
  rw [← this]
  apply List.map_congr_left
  intro y _
  by_cases h : y.job = op'.job ∧ y.idx = op'.idx
  · simp [h.1, h.2]
  · have : ¬ ((y.job, y.idx) = (op'.job, op'.idx)) := by simpa using h
    have h' : ¬ ((y.job == op'.job && y.idx == op'.idx) = true) := by simpa using h
    simp [this, h']

/-- start (or restart) processing at `now`: the first not-done record is replaced by a processing
record `[now, b]` -/
theorem OpsOK_start {now b : Int} (hb : now ≤ b) (o' : OpState) (ho' : o'.st = .processing)
    (hs : o'.start = some now) (he : o'.stop = some b) (op : OpState) (hop : op.st ≠ .done) (l2 : List OpState) :
    ∀ (l1 : List OpState) (prev : Option Int), (∀ x ∈ l1, x.st = .done) → (∀ p, prev = some p → p ≤ now) →
      OpsOK now prev (l1 ++ op :: l2) → OpsOK now prev (l1 ++ o' :: l2)
  | [], prev, _, hp, h => by
    simp only [List.nil_append, OpsOK, ho'] at h ⊢
    have hidle : allIdle l2 := by
      cases hst : op.st with
      | done => exact absurd hst hop
      | processing => simp only [hst] at h; obtain ⟨_, _, _, _, _, _, _, _, hi⟩ := h; exact hi
      | idle => simp only [hst] at h; exact h
      | transport => simp [hst] at h
    exact ⟨now, b, hs, he, hb, Int.le_refl _, hb, hp, hidle⟩
  | x :: xs, prev, hd, hp, h => by
    have hx : x.st = .done := hd x (by simp)
    simp only [List.cons_append, OpsOK, hx] at h ⊢
    obtain ⟨a, c, h1, h2, h3, h4, h5, h6⟩ := h
    exact ⟨a, c, h1, h2, h3, h4, h5,
      OpsOK_start hb o' ho' hs he op hop l2 xs (some c) (fun y hy => hd y (by simp [hy]))
        (by intro p hp'; simp at hp'; subst hp'; exact h4) h6⟩

/-- extend the end of the running operation (outage) -/
theorem OpsOK_extend {now b' : Int} (hb : now ≤ b') (op : OpState) (hop : op.st = .processing) (l2 : List OpState) :
    ∀ (l1 : List OpState) (prev : Option Int), (∀ x ∈ l1, x.st = .done) →
      OpsOK now prev (l1 ++ op :: l2) → OpsOK now prev (l1 ++ { op with stop := some b' } :: l2)
  | [], prev, _, h => by
    simp only [List.nil_append, OpsOK, hop] at h ⊢
    obtain ⟨a, c, h1, h2, h3, h4, h5, h6, h7⟩ := h
    exact ⟨a, b', h1, rfl, by omega, h4, hb, h6, h7⟩
  | x :: xs, prev, hd, h => by
    have hx : x.st = .done := hd x (by simp)
    simp only [List.cons_append, OpsOK, hx] at h ⊢
    obtain ⟨a, c, h1, h2, h3, h4, h5, h6⟩ := h
    exact ⟨a, c, h1, h2, h3, h4, h5, OpsOK_extend hb op hop l2 xs (some c) (fun y hy => hd y (by simp [hy])) h6⟩

/-- finish the running operation at `now` -/
theorem OpsOK_finish {now : Int} (op : OpState) (hop : op.st = .processing) (l2 : List OpState) :
    ∀ (l1 : List OpState) (prev : Option Int), (∀ x ∈ l1, x.st = .done) →
      OpsOK now prev (l1 ++ op :: l2) → OpsOK now prev (l1 ++ { op with stop := some now, st := .done } :: l2)
  | [], prev, _, h => by
    simp only [List.nil_append, OpsOK, hop] at h ⊢
    obtain ⟨a, c, h1, h2, h3, h4, h5, h6, h7⟩ := h
    exact ⟨a, now, h1, rfl, h4, Int.le_refl _, h6, OpsOK_allIdle _ _ _ h7⟩
  | x :: xs, prev, hd, h => by
    have hx : x.st = .done := hd x (by simp)
    simp only [List.cons_append, OpsOK, hx] at h ⊢
    obtain ⟨a, c, h1, h2, h3, h4, h5, h6⟩ := h
    exact ⟨a, c, h1, h2, h3, h4, h5, OpsOK_finish op hop l2 xs (some c) (fun y hy => hd y (by simp [hy])) h6⟩

/-- time may advance up to the earliest pending end -/
theorem OpsOK_time {now now' : Int} (hle : now ≤ now') :
    ∀ (l : List OpState) (prev : Option Int),
      (∀ o ∈ l, o.st = .processing → ∀ b, o.stop = some b → now' ≤ b) → OpsOK now prev l → OpsOK now' prev l
  | [], _, _, _ => trivial
  | o :: os, prev, hp, h => by
    cases hst : o.st with
    | done =>
      simp only [OpsOK, hst] at h ⊢
      obtain ⟨a, c, h1, h2, h3, h4, h5, h6⟩ := h
      exact ⟨a, c, h1, h2, h3, by omega, h5, OpsOK_time hle os (some c) (fun x hx => hp x (by simp [hx])) h6⟩
    | processing =>
      simp only [OpsOK, hst] at h ⊢
      obtain ⟨a, c, h1, h2, h3, h4, h5, h6, h7⟩ := h
      exact ⟨a, c, h1, h2, h3, by omega, hp o (by simp) hst c h2, h6, h7⟩
    | idle => simp only [OpsOK, hst] at h ⊢; exact h
    | transport => simp [OpsOK, hst] at h

/-- time may also be set back to any instant not before the latest recorded time of the list
(used for the done-stamp, where no operation is running any more) -/
theorem OpsOK_allDone_time {now now' : Int} :
    ∀ (l : List OpState) (prev : Option Int), (∀ o ∈ l, o.st = .done) →
      (∀ o ∈ l, ∀ b, o.stop = some b → b ≤ now') → OpsOK now prev l → OpsOK now' prev l
  | [], _, _, _, _ => trivial
  | o :: os, prev, hd, hb, h => by
    have hst := hd o (by simp)
    simp only [OpsOK, hst] at h ⊢
    obtain ⟨a, c, h1, h2, h3, h4, h5, h6⟩ := h
    exact ⟨a, c, h1, h2, h3, hb o (by simp) c h2, h5,
      OpsOK_allDone_time os (some c) (fun x hx => hd x (by simp [hx])) (fun x hx => hb x (by simp [hx])) h6⟩

/-- in a well-ordered operation list everything before a running (or the first not-done)
operation is done -/
theorem OpsOK_prefix_done {now : Int} (op : OpState) (hop : op.st ≠ .idle) (l2 : List OpState) :
    ∀ (l1 : List OpState) (prev : Option Int), OpsOK now prev (l1 ++ op :: l2) → ∀ x ∈ l1, x.st = .done
  | [], _, _ => by simp
  | y :: ys, prev, h => by
    intro x hx
    cases hst : y.st with
    | done =>
      simp only [List.cons_append, OpsOK, hst] at h
      obtain ⟨a, c, _, _, _, _, _, h6⟩ := h
      rcases List.mem_cons.mp hx with rfl | hx'
      · exact hst
      · exact OpsOK_prefix_done op hop l2 ys (some c) h6 x hx'
    | processing =>
      simp only [List.cons_append, OpsOK, hst] at h
      obtain ⟨_, _, _, _, _, _, _, _, hi⟩ := h
      exact absurd (hi op (by simp)) hop
    | idle =>
      simp only [List.cons_append, OpsOK, hst] at h
      exact absurd (h op (by simp)) hop
    | transport => simp [OpsOK, hst] at h

/-- what a well-ordered list says about a member -/
theorem OpsOK_mem {now : Int} : ∀ (l : List OpState) (prev : Option Int), OpsOK now prev l → ∀ o ∈ l,
    (o.st = .done → ∃ a b, o.start = some a ∧ o.stop = some b ∧ a ≤ b ∧ b ≤ now) ∧
    (o.st = .processing → ∃ a b, o.start = some a ∧ o.stop = some b ∧ a ≤ b ∧ a ≤ now ∧ now ≤ b) ∧
    o.st ≠ .transport
  | [], _, _ => by simp
  | x :: xs, prev, h => by
    intro o ho
    cases hst : x.st with
    | done =>
      simp only [OpsOK, hst] at h
      obtain ⟨a, c, h1, h2, h3, h4, _, h6⟩ := h
      rcases List.mem_cons.mp ho with rfl | ho'
      · exact ⟨fun _ => ⟨a, c, h1, h2, h3, h4⟩, by simp [hst], by simp [hst]⟩
      · exact OpsOK_mem xs (some c) h6 o ho'
    | processing =>
      simp only [OpsOK, hst] at h
      obtain ⟨a, c, h1, h2, h3, h4, h5, _, hi⟩ := h
      rcases List.mem_cons.mp ho with rfl | ho'
      · exact ⟨by simp [hst], fun _ => ⟨a, c, h1, h2, h3, h4, h5⟩, by simp [hst]⟩
      · have := hi o ho'; simp [this]
    | idle =>
      simp only [OpsOK, hst] at h
      rcases List.mem_cons.mp ho with rfl | ho'
      · simp [hst]
      · have := h o ho'; simp [this]
    | transport => simp [OpsOK, hst] at h

/-- everything after the first not-done record is idle -/
theorem OpsOK_after {now : Int} (op : OpState) (hop : op.st ≠ .done) (l2 : List OpState) :
    ∀ (l1 : List OpState) (prev : Option Int), (∀ x ∈ l1, x.st = .done) → OpsOK now prev (l1 ++ op :: l2) → allIdle l2
  | [], prev, _, h => by
    cases hst : op.st with
    | done => exact absurd hst hop
    | processing => simp only [List.nil_append, OpsOK, hst] at h; obtain ⟨_, _, _, _, _, _, _, _, hi⟩ := h; exact hi
    | idle => simpa [OpsOK, hst] using h
    | transport => simp [OpsOK, hst] at h
  | x :: xs, prev, hd, h => by
    have hx : x.st = .done := hd x (by simp)
    simp only [List.cons_append, OpsOK, hx] at h
    obtain ⟨_, c, _, _, _, _, _, h6⟩ := h
    exact OpsOK_after op hop l2 xs (some c) (fun y hy => hd y (by simp [hy])) h6

/-- in a well-ordered job at most one record is running -/
theorem OpsOK_one_processing {now : Int} : ∀ (l : List OpState) (prev : Option Int), OpsOK now prev l →
    ∀ o₁ ∈ l, ∀ o₂ ∈ l, o₁.st = .processing → o₂.st = .processing → o₁ = o₂
  | [], _, _, _, h, _, _, _, _ => by cases h
  | x :: xs, prev, h, o₁, h₁, o₂, h₂, p₁, p₂ => by
    cases hst : x.st with
    | done =>
      simp only [OpsOK, hst] at h
      obtain ⟨_, c, _, _, _, _, _, h6⟩ := h
      have e1 : o₁ ∈ xs := by
        rcases List.mem_cons.mp h₁ with rfl | h; · rw [hst] at p₁; cases p₁
        exact h
      have e2 : o₂ ∈ xs := by
        rcases List.mem_cons.mp h₂ with rfl | h; · rw [hst] at p₂; cases p₂
        exact h
      exact OpsOK_one_processing xs (some c) h6 o₁ e1 o₂ e2 p₁ p₂
    | processing =>
      simp only [OpsOK, hst] at h
      obtain ⟨_, _, _, _, _, _, _, _, hi⟩ := h
      have e1 : o₁ = x := by
        rcases List.mem_cons.mp h₁ with rfl | h; · rfl
        exact absurd (hi o₁ h) (by rw [p₁]; simp)
      have e2 : o₂ = x := by
        rcases List.mem_cons.mp h₂ with rfl | h; · rfl
        exact absurd (hi o₂ h) (by rw [p₂]; simp)
      rw [e1, e2]
    | idle =>
      simp only [OpsOK, hst] at h
      rcases List.mem_cons.mp h₁ with rfl | h'
      · rw [hst] at p₁; cases p₁
      · exact absurd (h o₁ h') (by rw [p₁]; simp)
    | transport => simp [OpsOK, hst] at h

end JSL
