import JSL.Inv.ProgressPass

/-!
# A potential that every accepted offer decreases (C11, the step bound of the always-accept agent)

`pot inst s` = Σ over the jobs of `2 · (number of idle operation records) + (1 if the job waits
for a dispatch)`.  A job *waits for a dispatch* when it lies in no output buffer, no AGV has
claimed it, and it does not lie in the pre-buffer of the machine of its next idle operation.

* a machine start turns an idle record into a processing one: `-2`, and the job may begin to wait
  for its next dispatch: `+1`;
* a dispatch claims a waiting job: `-1`;
* a delivery releases the claim, but the job then lies in the pre-buffer of the machine of its next
  idle operation, or in an output buffer: `0`;
* no other transition changes the potential.

This file: the definitions, the bound `pot ≤ 2·numOps + numJobs`, and the effect of one
`applyTransition`.
-/

namespace JSL

variable {orc : Oracle} {inst : Instance}

/-! ## definitions -/

/-- number of operation records of a job that are idle -/
def idleCount (j : JobState) : Nat := j.ops.countP (·.st == .idle)

/-- (machine id, id of its pre-buffer) for every machine of the instance -/
def prePairs (inst : Instance) : List (Nat × Nat) := inst.machines.map fun mc => (mc.id, mc.pre.id)

/-- the job lies in the pre-buffer of the machine of its next idle operation -/
def atNextPre (inst : Instance) (j : JobState) : Bool :=
  match j.nextIdle? with
  | some op => (prePairs inst).contains (op.machine, j.loc)
  | none => false

/-- some AGV has claimed job `x` -/
def claimedB (ts : List TransportState) (x : Nat) : Bool := ts.any (·.job == some x)

/-- the job waits for a dispatch -/
def waitingB (inst : Instance) (ts : List TransportState) (j : JobState) : Bool :=
  !(outputIds inst).contains j.loc && !claimedB ts j.id && !atNextPre inst j

/-- contribution of one job -/
def jobPot (inst : Instance) (ts : List TransportState) (j : JobState) : Nat :=
  2 * idleCount j + (if waitingB inst ts j then 1 else 0)

/-- **the potential** -/
def pot (inst : Instance) (s : State) : Nat := (s.jobs.map (jobPot inst s.transports)).sum

/-- the bound: two per operation (one dispatch to its machine, one start) and one per job (the
dispatch to the output buffer) -/
def potBound (inst : Instance) : Nat := 2 * (allOps inst).length + inst.jobs.length

theorem pot_time (s : State) (t : Int) : pot inst { s with time := t } = pot inst s := rfl

/-! ## sums -/

theorem sum_map_le {α} (f' f : α → Nat) (g : α → α) : ∀ (l : List α), (∀ x ∈ l, f' (g x) ≤ f x) →
    ((l.map g).map f').sum ≤ (l.map f).sum
  | [], _ => by simp
  | a :: as, h => by
    have h1 := h a (by simp)
    have h2 := sum_map_le f' f g as (fun x hx => h x (by simp [hx]))
    simp only [List.map_cons, List.sum_cons]
    omega

theorem sum_map_lt {α} (f' f : α → Nat) (g : α → α) : ∀ (l : List α), (∀ x ∈ l, f' (g x) ≤ f x) →
    (∃ x ∈ l, f' (g x) < f x) → ((l.map g).map f').sum < (l.map f).sum
  | [], _, h => by obtain ⟨x, hx, _⟩ := h; cases hx
  | a :: as, h, hex => by
    have h1 := h a (by simp)
    have h2 := sum_map_le f' f g as (fun x hx => h x (by simp [hx]))
    simp only [List.map_cons, List.sum_cons]
    obtain ⟨x, hx, hlt⟩ := hex
    rcases List.mem_cons.mp hx with rfl | hx
    · omega
    · have h3 := sum_map_lt f' f g as (fun x hx => h x (by simp [hx])) ⟨x, hx, hlt⟩
      omega

theorem sum_pos_of_mem {α} (f : α → Nat) : ∀ (l : List α) (x : α), x ∈ l → 0 < f x → 0 < (l.map f).sum
  | [], _, h, _ => by cases h
  | a :: as, x, h, hp => by
    simp only [List.map_cons, List.sum_cons]
    rcases List.mem_cons.mp h with rfl | h
    · omega
    · have := sum_pos_of_mem f as x h hp
      omega

/-- comparing the potential of two states whose job lists correspond through `g` -/
theorem pot_le_of_map {s s' : State} (g : JobState → JobState) (hj : s'.jobs = s.jobs.map g)
    (h : ∀ x ∈ s.jobs, jobPot inst s'.transports (g x) ≤ jobPot inst s.transports x) : pot inst s' ≤ pot inst s := by
  unfold pot
  rw [hj]
  exact sum_map_le _ _ g s.jobs h

theorem pot_lt_of_map {s s' : State} (g : JobState → JobState) (hj : s'.jobs = s.jobs.map g)
    (h : ∀ x ∈ s.jobs, jobPot inst s'.transports (g x) ≤ jobPot inst s.transports x)
    (hex : ∃ x ∈ s.jobs, jobPot inst s'.transports (g x) < jobPot inst s.transports x) : pot inst s' < pot inst s := by
  unfold pot
  rw [hj]
  exact sum_map_lt _ _ g s.jobs h hex

/-- one job: fewer idle records, or as many and not newly waiting -/
theorem jobPot_le {ts ts' : List TransportState} {j j' : JobState} (h1 : idleCount j' ≤ idleCount j)
    (h2 : idleCount j' = idleCount j → waitingB inst ts' j' = true → waitingB inst ts j = true) :
    jobPot inst ts' j' ≤ jobPot inst ts j := by
  unfold jobPot
  by_cases e : idleCount j' = idleCount j
  · by_cases hw : waitingB inst ts' j' = true
    · rw [if_pos hw, if_pos (h2 e hw)]; omega
    · rw [if_neg hw]; omega
  · split <;> split <;> omega

theorem jobPot_lt_of_idle {ts ts' : List TransportState} {j j' : JobState} (h1 : idleCount j' < idleCount j) :
    jobPot inst ts' j' < jobPot inst ts j := by
  unfold jobPot
  split <;> split <;> omega

/-! ## the bound -/

theorem idleCount_le (j : JobState) : idleCount j ≤ j.ops.length := List.countP_le_length

theorem jobPot_le_len (ts : List TransportState) (j : JobState) : jobPot inst ts j ≤ 2 * j.ops.length + 1 := by
  unfold jobPot
  have := idleCount_le j
  split <;> omega

theorem sum_le_len {α} (f : α → Nat) (len : α → Nat) : ∀ (l : List α), (∀ x ∈ l, f x ≤ 2 * len x + 1) →
    (l.map f).sum ≤ 2 * (l.map len).sum + l.length
  | [], _ => by simp
  | a :: as, h => by
    have h1 := h a (by simp)
    have h2 := sum_le_len f len as (fun x hx => h x (by simp [hx]))
    simp only [List.map_cons, List.sum_cons, List.length_cons]
    omega

theorem length_flatMap_sum {α β} (f : α → List β) : ∀ (l : List α), (l.flatMap f).length = (l.map fun x => (f x).length).sum
  | [] => rfl
  | a :: as => by simp [List.flatMap_cons, length_flatMap_sum f as]

/-- **the potential is bounded by a function of the instance** -/
theorem pot_le_bound {s : State} (hs : Shape inst s) : pot inst s ≤ potBound inst := by
  have h1 : s.jobs.map (fun j => j.ops.length) = inst.jobs.map (fun jc => jc.ops.length) := by
    have := congrArg (List.map (fun k : Nat × List (Nat × Nat × Nat) => k.2.length)) hs.jobs
    simpa [List.map_map, Function.comp_def, jKey, jcKey] using this
  have h2 : s.jobs.length = inst.jobs.length := by
    have := congrArg List.length hs.jobs
    simpa using this
  have h3 := sum_le_len (jobPot inst s.transports) (fun j => j.ops.length) s.jobs
    (fun x _ => jobPot_le_len s.transports x)
  unfold pot potBound allOps
  rw [length_flatMap_sum, ← h1, ← h2]
  exact h3

end JSL

namespace JSL

variable {orc : Oracle} {inst : Instance}

/-! ## replacing a record by one that is not idle -/

theorem replace_list_idle (x : OpState) (hx : x.st ≠ .idle) : ∀ l : List OpState,
    (l.map fun o => if o.job == x.job && o.idx == x.idx then x else o).countP (·.st == .idle) ≤ l.countP (·.st == .idle) ∧
    ((l.map fun o => if o.job == x.job && o.idx == x.idx then x else o).countP (·.st == .idle) = l.countP (·.st == .idle) →
      (l.map fun o => if o.job == x.job && o.idx == x.idx then x else o).find? (·.st == .idle) = l.find? (·.st == .idle))
  | [] => by simp
  | o :: os => by
    have ih := replace_list_idle x hx os
    have e1 : (x.st == OSt.idle) = false := by simpa using hx
    by_cases hk : (o.job == x.job && o.idx == x.idx) = true
    · simp only [List.map_cons, hk, if_true, List.countP_cons, List.find?_cons, e1, Bool.false_eq_true, if_false,
        Nat.add_zero]
      by_cases ho : (o.st == OSt.idle) = true
      · simp only [ho, if_true]
        exact ⟨by omega, fun e => by omega⟩
      · have ho' : (o.st == OSt.idle) = false := by simpa using ho
        simp only [ho', Bool.false_eq_true, if_false, Nat.add_zero]
        exact ih
    · have hk2 : (o.job == x.job && o.idx == x.idx) = false := by simpa using hk
      simp only [List.map_cons, hk2, Bool.false_eq_true, if_false, List.countP_cons, List.find?_cons]
      by_cases ho : (o.st == OSt.idle) = true
      · simp only [ho, if_true]
        exact ⟨by omega, fun _ => trivial⟩
      · have ho' : (o.st == OSt.idle) = false := by simpa using ho
        simp only [ho', Bool.false_eq_true, if_false, Nat.add_zero]
        exact ih

theorem replace_list_idle_lt (x : OpState) (hx : x.st ≠ .idle) : ∀ l : List OpState,
    (∃ o ∈ l, o.st = .idle ∧ o.job = x.job ∧ o.idx = x.idx) →
    (l.map fun o => if o.job == x.job && o.idx == x.idx then x else o).countP (·.st == .idle) < l.countP (·.st == .idle)
  | [], h => by obtain ⟨o, ho, _⟩ := h; cases ho
  | o :: os, h => by
    have hle := (replace_list_idle x hx os).1
    have e1 : (x.st == OSt.idle) = false := by simpa using hx
    obtain ⟨p, hp, hst, hj, hi⟩ := h
    rcases List.mem_cons.mp hp with rfl | hp
    · have hk : (p.job == x.job && p.idx == x.idx) = true := by simp [hj, hi]
      have ho : (p.st == OSt.idle) = true := by simp [hst]
      simp only [List.map_cons, hk, if_true, List.countP_cons, e1, ho, Bool.false_eq_true, if_false]
      omega
    · have ih := replace_list_idle_lt x hx os ⟨p, hp, hst, hj, hi⟩
      by_cases hk : (o.job == x.job && o.idx == x.idx) = true
      · simp only [List.map_cons, hk, if_true, List.countP_cons, e1, Bool.false_eq_true, if_false]
        omega
      · have hk2 : (o.job == x.job && o.idx == x.idx) = false := by simpa using hk
        simp only [List.map_cons, hk2, Bool.false_eq_true, if_false, List.countP_cons]
        omega

theorem replaceOp_idle (j : JobState) (x : OpState) (hx : x.st ≠ .idle) :
    idleCount (j.replaceOp x) ≤ idleCount j ∧
    (idleCount (j.replaceOp x) = idleCount j → (j.replaceOp x).nextIdle? = j.nextIdle?) :=
  replace_list_idle x hx j.ops

theorem replaceOp_idle_lt (j : JobState) (x : OpState) (hx : x.st ≠ .idle)
    (h : ∃ o ∈ j.ops, o.st = .idle ∧ o.job = x.job ∧ o.idx = x.idx) : idleCount (j.replaceOp x) < idleCount j :=
  replace_list_idle_lt x hx j.ops h

/-! ## claims, waiting -/

theorem claimedB_iff {ts : List TransportState} {x : Nat} : claimedB ts x = true ↔ ∃ t ∈ ts, t.job = some x := by
  simp [claimedB, List.any_eq_true]

theorem atNextPre_iff {j : JobState} :
    atNextPre inst j = true ↔ ∃ op, j.nextIdle? = some op ∧ (op.machine, j.loc) ∈ prePairs inst := by
  unfold atNextPre
  cases j.nextIdle? with
  | none => simp
  | some op => simp

theorem waitingB_iff {ts : List TransportState} {j : JobState} :
    waitingB inst ts j = true ↔
      j.loc ∉ outputIds inst ∧ (∀ t ∈ ts, t.job ≠ some j.id) ∧ atNextPre inst j = false := by
  unfold waitingB
  simp only [Bool.and_eq_true, Bool.not_eq_true']
  constructor
  · rintro ⟨⟨h1, h2⟩, h3⟩
    refine ⟨fun hm => ?_, ?_, h3⟩
    · rw [List.contains_iff_mem.mpr hm] at h1; cases h1
    intro t ht e
    have : claimedB ts j.id = true := claimedB_iff.mpr ⟨t, ht, e⟩
    rw [this] at h2; cases h2
  · rintro ⟨h1, h2, h3⟩
    refine ⟨⟨?_, ?_⟩, h3⟩
    · cases hc : (outputIds inst).contains j.loc with
      | false => rfl
      | true => exact absurd (List.contains_iff_mem.mp hc) h1
    cases hc : claimedB ts j.id with
    | false => rfl
    | true =>
      obtain ⟨t, ht, e⟩ := claimedB_iff.mp hc
      exact absurd e (h2 t ht)

theorem prePairs_state {s : State} (hs : Shape inst s) : s.machines.map (fun m => (m.id, m.pre.id)) = prePairs inst := by
  have := congrArg (List.map (fun k : Nat × Nat × Nat × Nat => (k.1, k.2.1))) hs.machines
  simpa [List.map_map, Function.comp_def, mKey, mcKey, prePairs] using this

theorem mem_prePairs {s : State} (hs : Shape inst s) {a b : Nat} :
    (a, b) ∈ prePairs inst ↔ ∃ m ∈ s.machines, m.id = a ∧ m.pre.id = b := by
  rw [← prePairs_state hs]
  simp [List.mem_map]

/-- a job in the internal buffer of a machine, or on an AGV, is not at the pre-buffer of anything -/
theorem not_atNextPre_of_loc {s : State} (hs : Shape inst s) {j : JobState}
    (h : ∀ m ∈ s.machines, m.pre.id ≠ j.loc) : atNextPre inst j = false := by
  cases hc : atNextPre inst j with
  | false => rfl
  | true =>
    obtain ⟨op, _, hm⟩ := atNextPre_iff.mp hc
    obtain ⟨m, hm', _, e⟩ := (mem_prePairs hs).mp hm
    exact absurd e (h m hm')

end JSL

namespace JSL

variable {orc : Oracle} {inst : Instance}

/-! ## machine transitions -/

theorem idleCount_of_ops {j j' : JobState} (h : j'.ops = j.ops) : idleCount j' = idleCount j := by
  unfold idleCount; rw [h]

theorem nextIdle_of_ops {j j' : JobState} (h : j'.ops = j.ops) : j'.nextIdle? = j.nextIdle? := by
  unfold JobState.nextIdle?; rw [h]

theorem atNextPre_congr {j j' : JobState} (h1 : j'.nextIdle? = j.nextIdle?) (h2 : j'.loc = j.loc) :
    atNextPre inst j' = atNextPre inst j := by
  unfold atNextPre; rw [h1, h2]

theorem waitingB_congr {ts : List TransportState} {j j' : JobState} (h1 : j'.nextIdle? = j.nextIdle?)
    (h2 : j'.loc = j.loc) (h3 : j'.id = j.id) : waitingB inst ts j' = waitingB inst ts j := by
  unfold waitingB; rw [atNextPre_congr h1 h2, h2, h3]

/-- the job list after `replaceJob` as a map -/
theorem replaceJob_jobs (s : State) (J : JobState) :
    (s.replaceJob J).jobs = s.jobs.map (fun x => if x.id == J.id then J else x) := rfl

/-- a machine transition replaces one record of one job by a record that is not idle; the job
stays where it is, or leaves a pre-buffer with one idle record fewer, or leaves the internal buffer -/
theorem pot_replace_rec (w : WF inst) {s s' : State} (hI : StructInv inst s) {j J' : JobState} {rec : OpState}
    (hj : j ∈ s.jobs) (hid : J'.id = j.id) (hops : J'.ops = (j.replaceOp rec).ops) (hrec : rec.st ≠ .idle)
    (hjobs : s'.jobs = (s.replaceJob J').jobs) (htr : s'.transports = s.transports)
    (hcase : (∃ o ∈ j.ops, o.st = .idle ∧ o.job = rec.job ∧ o.idx = rec.idx) ∨ J'.loc = j.loc ∨
      (∃ m ∈ s.machines, j.loc = m.buffer.id)) :
    pot inst s' ≤ pot inst s ∧ ((∃ o ∈ j.ops, o.st = .idle ∧ o.job = rec.job ∧ o.idx = rec.idx) → pot inst s' < pot inst s) := by
  have hs := hI.shape
  have hjn := hs.jobsNodup w
  have hic : idleCount J' = idleCount (j.replaceOp rec) := idleCount_of_ops hops
  have hni : J'.nextIdle? = (j.replaceOp rec).nextIdle? := nextIdle_of_ops hops
  have hr := replaceOp_idle j rec hrec
  -- the replaced job
  have hJ : jobPot inst s.transports J' ≤ jobPot inst s.transports j := by
    rcases hcase with hex | hloc | ⟨m, hm, hloc⟩
    · exact Nat.le_of_lt (jobPot_lt_of_idle (by rw [hic]; exact replaceOp_idle_lt j rec hrec hex))
    · apply jobPot_le (by rw [hic]; exact hr.1)
      intro e hw
      rw [hic] at e
      rw [← waitingB_congr (hni.trans (hr.2 e)) hloc hid]; exact hw
    · apply jobPot_le (by rw [hic]; exact hr.1)
      intro _ hw
      obtain ⟨_, h2, _⟩ := waitingB_iff.mp hw
      apply waitingB_iff.mpr
      refine ⟨?_, fun t ht => by rw [← hid]; exact h2 t ht, ?_⟩
      · rw [hloc]; exact (machine_buf_not_output w hs hm).2.1
      · apply not_atNextPre_of_loc hs
        intro m2 hm2 e
        exact (internal_ne_pre_post hs w hm hm2).1 (by rw [e, hloc])
  have hpt : ∀ x ∈ s.jobs, jobPot inst s'.transports ((fun x => if x.id == J'.id then J' else x) x) ≤
      jobPot inst s.transports x := by
    intro x hx
    rw [htr]
    by_cases e : x.id = J'.id
    · have : x = j := eq_of_mem_of_key_eq (key := fun (y : JobState) => y.id) hjn hx hj (by rw [e, hid])
      subst this
      simp only [e, beq_self_eq_true, if_true]
      exact hJ
    · have e' : (x.id == J'.id) = false := by simpa using e
      simp only [e', Bool.false_eq_true, if_false]
      exact Nat.le_refl _
  refine ⟨pot_le_of_map _ (by rw [hjobs, replaceJob_jobs]) hpt, fun hex => ?_⟩
  refine pot_lt_of_map _ (by rw [hjobs, replaceJob_jobs]) hpt ⟨j, hj, ?_⟩
  rw [htr]
  simp only [hid, beq_self_eq_true, if_true]
  exact jobPot_lt_of_idle (by rw [hic]; exact replaceOp_idle_lt j rec hrec hex)

/-- **machine transitions do not increase the potential; a start decreases it** -/
theorem machine_pot (w : WF inst) {s s' : State} {r r' : Rng} {tr : Transition} {mid : Nat} (hI : StructInv inst s)
    (hS : SchedInv s) (hc : tr.comp = .m mid) (h : applyTransition orc inst s r tr = .ok (s', r')) :
    pot inst s' ≤ pot inst s ∧ (tr.new = .m .setup → pot inst s' < pot inst s) := by
  have hs := hI.shape
  have hjn := hs.jobsNodup w
  unfold applyTransition at h
  simp only [hc] at h
  obtain ⟨m0, hm0, h⟩ := except_bind_eq_ok h
  unfold handleMachineTransition at h
  obtain ⟨m, hm, h⟩ := except_bind_eq_ok h
  rw [hm0] at hm; simp at hm; subst hm
  have hmem := getMachine_ok hm0
  obtain ⟨hd, hh, h⟩ := except_bind_eq_ok h
  unfold machineHandlerOf at hh
  cases hn : tr.new with
  | t ns => simp [hn] at hh
  | m ns =>
    simp only [hn] at hh
    cases hmh : machineHandler m0.st ns with
    | none => simp [hmh] at hh
    | some hd' =>
      simp [hmh] at hh; subst hh
      cases hd' with
      | idleToSetup =>
        obtain ⟨j, op, oc, mc, sd, b1, b2, hj, _, hjpre, hnn, _, hocj, hoci, _, _, _, _, rfl⟩ := idleToSetup_spec h
        -- the job waits in the pre-buffer, so nothing of it runs and its next record is idle
        have hst : j.id ∈ storeAt s m0.pre.id := by rw [(pre_storeAt w hs hmem.1).1]; exact hjpre
        have hnp := not_processing_of_stored hI hS w hj hst (fun m3 hm3 => (internal_ne_pre_post hs w hm3 hmem.1).1)
        have hrun : j.running = false := by
          unfold JobState.running
          cases hr : j.ops.any (·.st == .processing) with
          | false => rfl
          | true =>
            obtain ⟨o, ho, e⟩ := List.any_eq_true.mp hr
            exact absurd (by simpa using e) (hnp o ho)
        have hni : j.nextIdle? = some op := by rw [← nextNotDone_eq_nextIdle (hS.ops j hj) hrun]; exact hnn
        have hopm : op ∈ j.ops := List.mem_of_find?_eq_some hni
        have hopi : op.st = .idle := by simpa using List.find?_some hni
        have hex : ∃ o ∈ j.ops, o.st = .idle ∧ o.job = (opRec oc s.time (s.time + sd) m0.id).job ∧
            o.idx = (opRec oc s.time (s.time + sd) m0.id).idx := ⟨op, hopm, hopi, by simp [opRec, hocj], by simp [opRec, hoci]⟩
        have := pot_replace_rec w hI (J' := (j.replaceOp (opRec oc s.time (s.time + sd) m0.id)).at m0.buffer.id)
          (rec := opRec oc s.time (s.time + sd) m0.id) (s' := (s.replaceJob ((j.replaceOp (opRec oc s.time (s.time + sd) m0.id)).at m0.buffer.id)).replaceMachine
            (m0.toSetup j.id b1 b2 (s.time + sd) oc.tool)) hj rfl rfl (by simp [opRec]) rfl rfl (Or.inl hex)
        exact ⟨this.1, fun _ => this.2 hex⟩
      | setupToWorking =>
        have hst0 := machineHandler_setupToWorking hmh
        obtain ⟨j, op, oc, d, hj, _, _, _, _, _, _, _, rfl⟩ := setupToWorking_spec h
        have := pot_replace_rec w hI (J' := j.replaceOp (opRec oc s.time (s.time + d) m0.id))
          (rec := opRec oc s.time (s.time + d) m0.id) (s' := (s.replaceJob (j.replaceOp (opRec oc s.time (s.time + d) m0.id))).replaceMachine
            (m0.toWorking (s.time + d))) hj rfl rfl (by simp [opRec]) rfl rfl (Or.inr (Or.inl rfl))
        exact ⟨this.1, fun e => by rw [hst0.2] at e; simp at e⟩
      | workingToOutage =>
        have hst0 := machineHandler_workingToOutage hmh
        obtain ⟨mc, outs, j, op, _, _, _, hj, _, hp, rfl⟩ := workingToOutage_spec h
        obtain ⟨_, _, _, _, hpst⟩ := processing?_split' hp
        have := pot_replace_rec w hI (J' := j.replaceOp { op with stop := some (s.time + occupiedFor outs) })
          (rec := { op with stop := some (s.time + occupiedFor outs) })
          (s' := (s.replaceMachine (m0.toOutage outs (s.time + occupiedFor outs))).replaceJob
            (j.replaceOp { op with stop := some (s.time + occupiedFor outs) })) hj rfl rfl (by simp [hpst]) rfl rfl (Or.inr (Or.inl rfl))
        exact ⟨this.1, fun e => by rw [hst0.2] at e; simp at e⟩
      | outageToIdle =>
        have hst0 := machineHandler_outageToIdle hmh
        obtain ⟨j, op, mc, rest, b1, b2, hstore, hj, hp, _, _, _, _, rfl⟩ := outageToIdle_spec h
        have hloc : j.loc = m0.buffer.id :=
          job_of_store hI.cons hj (by rw [(pre_storeAt w hs hmem.1).2, hstore]; simp) hjn
        have := pot_replace_rec w hI (J' := (j.replaceOp { op with stop := some s.time, st := .done }).at m0.post.id)
          (rec := { op with stop := some s.time, st := .done })
          (s' := (s.replaceJob ((j.replaceOp { op with stop := some s.time, st := .done }).at m0.post.id)).replaceMachine
            (m0.toIdle j.id b1 b2)) hj rfl rfl (by simp) rfl rfl (Or.inr (Or.inr ⟨m0, hmem.1, hloc⟩))
        exact ⟨this.1, fun e => by rw [hst0.2] at e; simp at e⟩

end JSL

namespace JSL

variable {orc : Oracle} {inst : Instance}

/-! ## AGV transitions -/

theorem firstOutput_mem {o : Nat} (h : firstOutput inst = .ok o) : o ∈ outputIds inst := by
  unfold firstOutput at h
  unfold outputIds
  cases hb : outputBuffers inst with
  | nil => simp [hb] at h
  | cons b bs => simp [hb] at h; subst h; simp

/-- who is unclaimed after a transition of AGV `t0` was unclaimed before, unless `t0` gave the claim up -/
theorem unclaimed_back {s s' : State} (htn : (s.transports.map (·.id)).Nodup) {t0 t' : TransportState}
    (ht0 : t0 ∈ s.transports) (hid' : t'.id = t0.id) (htrs : s'.transports = (s.replaceTransport t').transports)
    {x : Nat} (hk : t0.job = some x → t'.job = some x) (h : ∀ t ∈ s'.transports, t.job ≠ some x) :
    ∀ t ∈ s.transports, t.job ≠ some x := by
  have hmemT : ∀ y, y ∈ s'.transports ↔ (y = t' ∨ (y ∈ s.transports ∧ y.id ≠ t0.id)) := by
    intro y; rw [htrs]; exact mem_replaceTransport htn ht0 hid' y
  intro t ht e
  by_cases hid : t.id = t0.id
  · have : t = t0 := eq_of_mem_of_key_eq (key := fun (y : TransportState) => y.id) htn ht ht0 hid
    subst this
    exact h t' ((hmemT t').mpr (Or.inl rfl)) (hk e)
  · exact h t ((hmemT t).mpr (Or.inr ⟨ht, hid⟩)) e

theorem jobPot_le_of_waiting {ts ts' : List TransportState} {j j' : JobState} (h1 : j'.ops = j.ops)
    (h2 : waitingB inst ts' j' = true → waitingB inst ts j = true) : jobPot inst ts' j' ≤ jobPot inst ts j :=
  jobPot_le (Nat.le_of_eq (idleCount_of_ops h1)) (fun _ => h2)

/-- **AGV transitions do not increase the potential; a dispatch of a waiting job decreases it** -/
theorem agv_pot (w : WF inst) {s s' : State} {tr : Transition} {t0 t' : TransportState} (hI : StructInv inst s)
    (hS : SchedInv s) (hA : AgvInv s) (hR : RouteInv inst s) (ht0 : t0 ∈ s.transports) (hid' : t'.id = t0.id)
    (hcomp : tr.comp = .t t0.id)
    (htrs : s'.transports = (s.replaceTransport t').transports) (he : AgvEffectR inst s s' tr t0 t')
    (hown : tr.new = .t .transit → ∀ t ∈ s.transports, tr.comp = .t t.id → tr.job = t.job) :
    pot inst s' ≤ pot inst s ∧
    (tr.new = .t .working → t0.st = .idle →
      (∀ j ∈ s.jobs, tr.job = some j.id → waitingB inst s.transports j = true) → pot inst s' < pot inst s) := by
  have hs := hI.shape
  have hjn := hs.jobsNodup w
  have htn := hs.trNodup w
  have hmemT : ∀ y, y ∈ s'.transports ↔ (y = t' ∨ (y ∈ s.transports ∧ y.id ≠ t0.id)) := by
    intro y; rw [htrs]; exact mem_replaceTransport htn ht0 hid' y
  have ht' : t' ∈ s'.transports := (hmemT t').mpr (Or.inl rfl)
  -- a job that is not touched and whose claim is not given up
  have same : ∀ x : JobState, (t0.job = some x.id → t'.job = some x.id) →
      jobPot inst s'.transports x ≤ jobPot inst s.transports x := by
    intro x hk
    apply jobPot_le_of_waiting rfl
    intro hw
    obtain ⟨h1, h2, h3⟩ := waitingB_iff.mp hw
    exact waitingB_iff.mpr ⟨h1, unclaimed_back htn ht0 hid' htrs hk h2, h3⟩
  -- the job list is unchanged
  have unchanged : s'.jobs = s.jobs → (∀ x ∈ s.jobs, t0.job = some x.id → t'.job = some x.id) →
      pot inst s' ≤ pot inst s := by
    intro hjobs hk
    exact pot_le_of_map id (by rw [hjobs, List.map_id]) (fun x hx => same x (hk x hx))
  -- one job is relocated and is not waiting afterwards
  have moved : ∀ (j : JobState) (l : Nat), j ∈ s.jobs → s'.jobs = (s.replaceJob (j.at l)).jobs →
      waitingB inst s'.transports (j.at l) = false →
      (∀ x ∈ s.jobs, x.id ≠ j.id → t0.job = some x.id → t'.job = some x.id) → pot inst s' ≤ pot inst s := by
    intro j l hj hjobs hnw hk
    apply pot_le_of_map (fun x => if x.id == (j.at l).id then j.at l else x) (by rw [hjobs, replaceJob_jobs])
    intro x hx
    by_cases e : x.id = j.id
    · have : x = j := eq_of_mem_of_key_eq (key := fun (y : JobState) => y.id) hjn hx hj e
      subst this
      simp only [JobState.at_id, beq_self_eq_true, if_true]
      exact jobPot_le_of_waiting rfl (fun hw => by rw [hnw] at hw; cases hw)
    · have e' : (x.id == (j.at l).id) = false := by simpa using e
      simp only [e', Bool.false_eq_true, if_false]
      exact same x (hk x hx e)
  cases he with
  | dispatch j cur pick drop hnew h1 h2 h3 h4 h5 hj htj hdrop hjobs hmach =>
    have hnone : t0.job = none := hS.freeNoClaim t0 ht0 (Or.inl h1)
    have hk : ∀ x ∈ s.jobs, t0.job = some x.id → t'.job = some x.id := fun x _ e => by rw [hnone] at e; cases e
    refine ⟨unchanged hjobs hk, fun _ _ hwait => ?_⟩
    refine pot_lt_of_map id (by rw [hjobs, List.map_id]) (fun x hx => same x (hk x hx)) ⟨j, hj, ?_⟩
    have hw : waitingB inst s.transports j = true := hwait j hj htj
    have hnw : waitingB inst s'.transports j = false := by
      cases hc : waitingB inst s'.transports j with
      | false => rfl
      | true => exact absurd h3 ((waitingB_iff.mp hc).2.1 t' ht')
    simp only [id, jobPot, hw, hnw, if_true, Bool.false_eq_true, if_false]
    omega
  | keep h1 h2 h3 h4 h5 hjobs hmach =>
    refine ⟨unchanged hjobs (fun x _ e => by rw [h3]; exact e), fun _ hidle => ?_⟩
    rcases h1 with e1 | e1 | e1 <;> rw [hidle] at e1 <;> cases e1
  | pickup j hnew h1 h2 h3 h4 h5 hj htj hjobs hmach =>
    have hclaim : t0.job = some j.id := by rw [← hown hnew t0 ht0 hcomp]; exact htj
    refine ⟨moved j t0.buffer.id hj hjobs ?_ (fun x _ _ e => by rw [h3]; exact e), fun e => by rw [hnew] at e; simp at e⟩
    cases hc : waitingB inst s'.transports (j.at t0.buffer.id) with
    | false => rfl
    | true => exact absurd (by rw [h3]; exact hclaim) ((waitingB_iff.mp hc).2.1 t' ht')
  | deliverM j cur pick ms bss hnew h1 h2 h3 hloc hms hj hin hjobs hmach =>
    have hst0 : t0.st = .transit := by
      rcases h1 with e | e
      · exact e
      · have := hA.empty t0 ht0 (by rw [e]; simp); rw [this] at hin; cases hin
    have hclaim : t0.job = some j.id := hR.transitOwn t0 ht0 hst0 j.id hin
    obtain ⟨cur', pick', drop', el, edrop⟩ := hR.route t0 ht0 j.id hclaim j hj rfl
    rw [hloc] at el
    simp at el
    obtain ⟨_, _, rfl⟩ := el
    refine ⟨moved j ms.pre.id hj hjobs ?_ (fun x _ hne e => ?_), fun e => by rw [hnew] at e; simp at e⟩
    · -- delivered to the pre-buffer of the machine of its next idle operation
      rcases edrop with ⟨_, o, _, e⟩ | ⟨_, op, e1, e2⟩
      · cases e
      · simp at e2
        have : atNextPre inst (j.at ms.pre.id) = true :=
          atNextPre_iff.mpr ⟨op, e1, (mem_prePairs hs).mpr ⟨ms, hms, e2, rfl⟩⟩
        cases hc : waitingB inst s'.transports (j.at ms.pre.id) with
        | false => rfl
        | true => rw [(waitingB_iff.mp hc).2.2] at this; cases this
    · rw [hclaim] at e; simp at e; exact absurd e.symm hne
  | deliverB j cur pick b bss hnew h1 h2 h3 hloc hb hj hin hjobs hmach hbufs =>
    have hst0 : t0.st = .transit := by
      rcases h1 with e | e
      · exact e
      · have := hA.empty t0 ht0 (by rw [e]; simp); rw [this] at hin; cases hin
    have hclaim : t0.job = some j.id := hR.transitOwn t0 ht0 hst0 j.id hin
    obtain ⟨cur', pick', drop', el, edrop⟩ := hR.route t0 ht0 j.id hclaim j hj rfl
    rw [hloc] at el
    simp at el
    obtain ⟨_, _, rfl⟩ := el
    refine ⟨moved j b.id hj hjobs ?_ (fun x _ hne e => ?_), fun e => by rw [hnew] at e; simp at e⟩
    · -- delivered to the output buffer
      rcases edrop with ⟨_, o, e1, e2⟩ | ⟨_, op, _, e⟩
      · simp at e2
        have hout : b.id ∈ outputIds inst := by rw [e2]; exact firstOutput_mem e1
        cases hc : waitingB inst s'.transports (j.at b.id) with
        | false => rfl
        | true => exact absurd hout (waitingB_iff.mp hc).1
      · cases e
    · rw [hclaim] at e; simp at e; exact absurd e.symm hne

end JSL

namespace JSL

variable {orc : Oracle} {inst : Instance}

/-! ## one transition -/

/-- **One applied transition never increases the potential**; a machine start decreases it, and so
does the dispatch of an idle AGV to a job that waits for one. -/
theorem applyTransition_pot (w : WF inst) {s s' : State} {r r' : Rng} {tr : Transition} {R : List Transition}
    (hI : StructInv inst s) (hS : SchedInv s) (hP : AgvFull inst s) (hgs : FullGS s (tr :: R))
    (h : applyTransition orc inst s r tr = .ok (s', r')) :
    pot inst s' ≤ pot inst s ∧
    ((∃ mid, tr.comp = .m mid ∧ tr.new = .m .setup) → pot inst s' < pot inst s) ∧
    ((∃ tid, tr.comp = .t tid ∧ tr.new = .t .working) → (∀ t ∈ s.transports, tr.comp = .t t.id → t.st = .idle) →
      (∀ j ∈ s.jobs, tr.job = some j.id → waitingB inst s.transports j = true) → pot inst s' < pot inst s) := by
  cases hc : tr.comp with
  | b bid =>
    unfold applyTransition at h
    simp only [hc] at h
    obtain ⟨_, _, h⟩ := except_bind_eq_ok h
    simp at h
  | m mid =>
    have := machine_pot w hI hS hc h
    refine ⟨this.1, fun ⟨_, _, e⟩ => this.2 e, fun ⟨_, e, _⟩ => by cases e⟩
  | t tid =>
    obtain ⟨t0, t', ht0, hid0, hid', htrs, he⟩ := agv_effectR w hI hc h
    have hcomp : tr.comp = .t t0.id := by rw [hc, hid0]
    have := agv_pot w hI hS hP.agv hP.route ht0 hid' hcomp htrs he (fun hn => hgs.route.own tr (by simp) hn)
    refine ⟨this.1, ?_, ?_⟩
    · rintro ⟨_, e, _⟩; cases e
    · rintro ⟨_, _, e⟩ hidle hw
      exact this.2 e (hidle t0 ht0 (by rw [hid0])) hw

/-! ## what an offer says about the potential -/

theorem idleCount_pos_of_nextIdle {j : JobState} {o : OpState} (h : j.nextIdle? = some o) : 0 < idleCount j := by
  unfold idleCount
  unfold JobState.nextIdle? at h
  apply List.countP_pos_iff.mpr
  have h2 : o.st = OSt.idle := by simpa using List.find?_some h
  exact ⟨o, List.mem_of_find?_eq_some h, by simp [h2]⟩

/-- a job for which a dispatch is on offer lies in no output buffer -/
theorem offered_not_delivered {cfg : SMConfig} {s : State} (hR : RouteInv inst s) {pt : List Transition}
    (hpt : possibleTransportTransitions inst cfg s = .ok pt) (tr : Transition) (h1 : tr ∈ pt) :
    ∃ j ∈ s.jobs, tr.job = some j.id ∧ j.loc ∉ outputIds inst := by
  unfold possibleTransportTransitions at hpt
  obtain ⟨ts, _, hpt⟩ := except_bind_eq_ok hpt
  obtain ⟨idle, hidle, hpt⟩ := except_bind_eq_ok hpt
  simp only at hpt
  obtain ⟨lonely, hlonely, hpt⟩ := except_bind_eq_ok hpt
  simp at hpt; subst hpt
  simp only [List.mem_flatMap, List.mem_map] at h1
  obtain ⟨t, _, j, hjl, rfl⟩ := h1
  have hjmem : j ∈ s.jobs.filter (·.running) ++ idle := by
    unfold earlyFilter at hlonely
    by_cases he : cfg.allowEarly = true
    · rw [if_pos he] at hlonely
      injection hlonely with h'
      rw [← h'] at hjl
      exact (List.mem_filter.mp hjl).1
    · rw [if_neg he] at hlonely
      exact (List.mem_filter.mp (filterE_ok hlonely j hjl).1).1
  rcases List.mem_append.mp hjmem with hrun | hidl
  · obtain ⟨hj, hr⟩ := List.mem_filter.mp hrun
    refine ⟨j, hj, rfl, fun hloc => ?_⟩
    unfold JobState.running at hr
    obtain ⟨o, ho, hst'⟩ := List.any_eq_true.mp hr
    have := hR.delivered j hj hloc o ho
    rw [this] at hst'; simp at hst'
  · obtain ⟨hjf, htp⟩ := filterE_ok hidle j hidl
    have hj := (List.mem_filter.mp hjf).1
    refine ⟨j, hj, rfl, fun hloc => ?_⟩
    have hall : j.allDone = true := by
      unfold JobState.allDone
      apply List.all_eq_true.mpr
      intro o ho
      rw [hR.delivered j hj hloc o ho]; rfl
    have hd : jobDone inst j = true := by
      unfold jobDone
      rw [hall, List.contains_iff_mem.mpr hloc]; rfl
    unfold transportable at htp
    simp [hd] at htp

/-- **what an offer promises**: a machine start is for a job with an idle record, a dispatch is
for an idle AGV and a job that waits for a dispatch -/
theorem offer_facts (w : WF inst) {cfg : SMConfig} {s : State} (hI : StructInv inst s) (hS : SchedInv s)
    (hR : RouteInv inst s) {poss : List Transition} (hposs : possibleTransitions inst cfg s = .ok poss)
    (tr : Transition) (hp : tr ∈ poss) :
    ((∃ mid, tr.comp = .m mid ∧ tr.new = .m .setup) ∧ ∃ j ∈ s.jobs, 0 < idleCount j) ∨
    ((∃ tid, tr.comp = .t tid ∧ tr.new = .t .working) ∧ (∀ t ∈ s.transports, tr.comp = .t t.id → t.st = .idle) ∧
      ∃ j ∈ s.jobs, tr.job = some j.id ∧ waitingB inst s.transports j = true) := by
  have hs := hI.shape
  have hjn := hs.jobsNodup w
  have hnotpre := offers_not_in_pre w hI hS hR hposs tr hp
  have hposs0 := hposs
  unfold possibleTransitions at hposs
  obtain ⟨pj, hpj, hposs⟩ := except_bind_eq_ok hposs
  obtain ⟨pt, hpt, hposs⟩ := except_bind_eq_ok hposs
  obtain ⟨mt, hmt, hposs⟩ := except_bind_eq_ok hposs
  simp at hposs; subst hposs
  rcases List.mem_append.mp hp with h1 | h1
  · left
    obtain ⟨j, hjm, e⟩ := (mapM_ok_mem hmt).2 tr h1
    unfold possibleJobs at hpj
    have hj := (filterE_ok hpj j hjm).1
    cases hn : j.nextIdle? with
    | none => simp [hn] at e
    | some o =>
      simp [hn] at e; subst e
      exact ⟨⟨_, rfl, rfl⟩, j, hj, idleCount_pos_of_nextIdle hn⟩
  · right
    obtain ⟨t, htm, j, hj, htr, hidle, hunc, _⟩ := possibleTransport_facts hpt tr h1
    obtain ⟨j2, hj2, hjob2, hout⟩ := offered_not_delivered hR hpt tr h1
    have hjj : j2 = j := by
      apply eq_of_mem_of_key_eq (key := fun (y : JobState) => y.id) hjn hj2 hj
      rw [htr] at hjob2; simpa using hjob2.symm
    subst hjj
    refine ⟨⟨t.id, by rw [htr], by rw [htr]⟩, ?_, j2, hj, by rw [htr], ?_⟩
    · intro t2 ht2 hc
      have : t2 = t := eq_of_mem_of_key_eq (key := fun (y : TransportState) => y.id) (hs.trNodup w) ht2 htm (by
        rw [htr] at hc; simpa using hc.symm)
      rw [this]; exact hidle
    · apply waitingB_iff.mpr
      refine ⟨hout, hunc, not_atNextPre_of_loc hs ?_⟩
      intro m hm e
      have hst : j2.id ∈ storeAt s j2.loc := hI.cons.located (j2.id, j2.loc) (List.mem_map.mpr ⟨j2, hj, rfl⟩)
      rw [← e, (pre_storeAt w hs hm).1] at hst
      exact hnotpre (by rw [htr]) j2.id (by rw [htr]) m hm hst

/-- while there are offers the potential is positive -/
theorem offer_pot_pos (w : WF inst) {cfg : SMConfig} {s : State} (hI : StructInv inst s) (hS : SchedInv s)
    (hR : RouteInv inst s) {poss : List Transition} (hposs : possibleTransitions inst cfg s = .ok poss)
    (hne : poss ≠ []) : 0 < pot inst s := by
  cases poss with
  | nil => exact absurd rfl hne
  | cons tr rest =>
    rcases offer_facts w hI hS hR hposs tr (by simp) with ⟨_, j, hj, hpos⟩ | ⟨_, _, j, hj, _, hw⟩
    · exact sum_pos_of_mem _ _ j hj (by unfold jobPot; omega)
    · exact sum_pos_of_mem _ _ j hj (by unfold jobPot; rw [if_pos hw]; omega)

end JSL
