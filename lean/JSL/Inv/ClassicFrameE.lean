import JSL.Inv.ClassicFrame
import JSL.Inv.ClassicInvE
import JSL.Inv.ClassicTotalDefsR
import JSL.Inv.ClassicStep
import JSL.Inv.ClassicPass
import JSL.Inv.ClassicTotalsE

/-!
# Frames of enabled transitions with early dispatch: `EnGSE` is kept, the measure `muE`

* `apply_frameE` – what one enabled transition (not a machine start) leaves untouched (`EnFrameE`:
  like `EnFrame`, and a machine transition keeps its job `Pickable`);
* `enGSE_step` – after the first transition of a batch the rest of the batch is still enabled;
* `rwE_keep` – an up-to-date re-wait does not turn a later transition into an up-to-date re-wait;
* `muE_le`, `muE_mono`, `muE_step` – the measure `muE = 2 * stage + staleCount`.
-/

namespace JSL

variable {orc : Oracle} {inst : Instance}

/-! ## the frame of one enabled transition -/

/-- what one enabled transition (not a machine start) leaves untouched; a machine transition keeps
every job `Pickable` -/
structure EnFrameE (inst : Instance) (s s' : State) (a : Transition) : Prop where
  machines : ∀ m ∈ s.machines, a.comp ≠ .m m.id →
    ∃ m' ∈ s'.machines, m'.id = m.id ∧ m'.st = m.st ∧ m'.buffer.store = m.buffer.store ∧ m'.occ = m.occ
  transports : ∀ t ∈ s.transports, a.comp ≠ .t t.id → t ∈ s'.transports
  jobs : ∀ j ∈ s.jobs, ∃ j' ∈ s'.jobs, j'.id = j.id ∧ (a.job ≠ some j.id → j' = j) ∧
    ((∃ mid, a.comp = .m mid) → Pickable inst j → Pickable inst j')
  claims : ∀ t' ∈ s'.transports, ∀ x, t'.job = some x →
    (∃ t ∈ s.transports, t.job = some x) ∨ (a.new = .t .working ∧ a.job = some x)

theorem frame_replaceJobE {s : State} (hnd : (s.jobs.map (·.id)).Nodup) {j0 J : JobState}
    (hj0 : j0 ∈ s.jobs) (hid : J.id = j0.id) (hP : Pickable inst j0 → Pickable inst J) {j : JobState} (hj : j ∈ s.jobs) :
    ∃ j' ∈ (s.replaceJob J).jobs, j'.id = j.id ∧ (some j0.id ≠ some j.id → j' = j) ∧
      (Pickable inst j → Pickable inst j') := by
  by_cases e : j.id = j0.id
  · have : j = j0 := eq_of_mem_of_key_eq (key := fun (y : JobState) => y.id) hnd hj hj0 e
    subst this
    refine ⟨J, (mem_replaceJob hnd hj0 hid J).mpr (Or.inl rfl), hid, ?_, hP⟩
    intro h; exact absurd rfl h
  · exact ⟨j, (mem_replaceJob hnd hj0 hid j).mpr (Or.inr ⟨hj, e⟩), rfl, fun _ => rfl, fun h => h⟩

/-- jobs untouched -/
theorem frame_jobs_sameE {s s' : State} (h : s'.jobs = s.jobs) (a : Transition) {j : JobState} (hj : j ∈ s.jobs) :
    ∃ j' ∈ s'.jobs, j'.id = j.id ∧ (a.job ≠ some j.id → j' = j) ∧
      ((∃ mid, a.comp = .m mid) → Pickable inst j → Pickable inst j') :=
  ⟨j, h ▸ hj, rfl, fun _ => rfl, fun _ h => h⟩

/-- an AGV transition: the part of the frame about jobs follows from the old form -/
theorem frame_jobs_agvE {s' : State} {a : Transition} {tid : Nat} (hc : a.comp = .t tid) {j : JobState}
    (h : ∃ j' ∈ s'.jobs, j'.id = j.id ∧ (a.job ≠ some j.id → j' = j)) :
    ∃ j' ∈ s'.jobs, j'.id = j.id ∧ (a.job ≠ some j.id → j' = j) ∧
      ((∃ mid, a.comp = .m mid) → Pickable inst j → Pickable inst j') := by
  obtain ⟨j', h1, h2, h3⟩ := h
  refine ⟨j', h1, h2, h3, ?_⟩
  rintro ⟨mid, hm⟩
  rw [hc] at hm; cases hm

theorem pickable_of_loc {j J : JobState} (h : J.loc = j.loc) : Pickable inst j → Pickable inst J := by
  unfold Pickable; rw [h]; exact id

/-- the frame of one enabled transition (early dispatch included) -/
theorem apply_frameE (w : WF inst) {s s' : State} {r r' : Rng} {a : Transition} (hI : StructInv inst s)
    (hE : EnE inst s a) (hns : a.new ≠ .m .setup) (h : applyTransition orc inst s r a = .ok (s', r')) :
    EnFrameE inst s s' a := by
  have hs := hI.shape
  have hmn := hs.machNodup w
  have hjn := hs.jobsNodup w
  have htn := hs.trNodup w
  -- PICKUP → WAITINGPICKUP and WAITINGPICKUP → WAITINGPICKUP: only the record of the AGV changes
  have waitKey : ∀ (t0 : TransportState) (x : Nat), t0 ∈ s.transports → ∀ occ,
      s' = s.replaceTransport (t0.toWaiting occ) → EnFrameE inst s s' ⟨.t t0.id, .t .waitingpickup, some x⟩ := by
    rintro t0 x ht0 occ rfl
    refine ⟨fun m hm _ => frame_machines_same rfl hm, ?_, fun j1 hj1 => frame_jobs_sameE rfl _ hj1, ?_⟩
    · intro t1 ht1 hne
      exact frame_replaceTransport htn ht0 (by rfl) ht1 (fun e => hne (by simp [e]))
    · intro t' ht' x hx
      rcases back_replaceTransport htn ht0 (by rfl) ht' with rfl | ht'
      · exact Or.inl ⟨t0, ht0, hx⟩
      · exact Or.inl ⟨t', ht', hx⟩
  cases hE with
  | start tr hn => exact absurd hn hns
  | mWork m x hm hst hstore =>
    obtain ⟨m0, hm0, hid0, hstep⟩ := mach_step_cases (mid := m.id) rfl h
    have e0 : m0 = m := eq_of_mem_of_key_eq (key := fun (y : MachineState) => y.id) hmn hm0 hm hid0
    subst e0
    cases hstep with
    | start _ hn _ => cases hn
    | out _ hn _ => cases hn
    | idle _ hn _ => cases hn
    | work _ _ hh =>
      obtain ⟨j, op, oc, d, hj, htj, _, _, _, _, _, _, rfl⟩ := setupToWorking_spec hh
      simp only at htj
      refine ⟨?_, fun t ht _ => ht, ?_, fun t' ht' x hx => Or.inl ⟨t', ht', hx⟩⟩
      · intro m1 hm1 hne
        exact frame_replaceMachine (s := s.replaceJob _) hmn hm0 (by rfl) hm1 (Or.inl fun e => hne (by simp [e]))
      · intro j1 hj1
        rw [htj]
        obtain ⟨j', h1, h2, h3, h4⟩ := frame_replaceJobE (inst := inst) hjn hj
          (J := j.replaceOp (opRec oc s.time (s.time + d) m0.id)) (by rfl) (pickable_of_loc rfl) hj1
        exact ⟨j', h1, h2, h3, fun _ => h4⟩
  | mOut m x hm hst hstore =>
    obtain ⟨m0, hm0, hid0, hstep⟩ := mach_step_cases (mid := m.id) rfl h
    have e0 : m0 = m := eq_of_mem_of_key_eq (key := fun (y : MachineState) => y.id) hmn hm0 hm hid0
    subst e0
    cases hstep with
    | start _ hn _ => cases hn
    | work _ hn _ => cases hn
    | idle _ hn _ => cases hn
    | out _ _ hh =>
      obtain ⟨mc, outs, j, op, _, _, _, hj, htj, _, rfl⟩ := workingToOutage_spec hh
      simp only at htj
      refine ⟨?_, fun t ht _ => ht, ?_, fun t' ht' x hx => Or.inl ⟨t', ht', hx⟩⟩
      · intro m1 hm1 hne
        exact frame_replaceMachine hmn hm0 (by rfl) hm1 (Or.inl fun e => hne (by simp [e]))
      · intro j1 hj1
        rw [htj]
        obtain ⟨j', h1, h2, h3, h4⟩ := frame_replaceJobE (inst := inst) (s := s.replaceMachine _) hjn hj
          (J := j.replaceOp { op with stop := some (s.time + occupiedFor outs) }) (by rfl) (pickable_of_loc rfl) hj1
        exact ⟨j', h1, h2, h3, fun _ => h4⟩
  | mIdle m x hm hst hstore =>
    obtain ⟨m0, hm0, hid0, hstep⟩ := mach_step_cases (mid := m.id) rfl h
    have e0 : m0 = m := eq_of_mem_of_key_eq (key := fun (y : MachineState) => y.id) hmn hm0 hm hid0
    subst e0
    cases hstep with
    | start _ hn _ => cases hn
    | work _ hn _ => cases hn
    | out _ hn _ => cases hn
    | idle _ _ hh =>
      obtain ⟨j, op, mc, rest, bss1, bss2, hst0, hj, _, _, _, _, _, rfl⟩ := outageToIdle_spec hh
      rw [hstore] at hst0
      simp at hst0
      obtain ⟨hx, _⟩ := hst0
      refine ⟨?_, fun t ht _ => ht, ?_, fun t' ht' x hx => Or.inl ⟨t', ht', hx⟩⟩
      · intro m1 hm1 hne
        exact frame_replaceMachine (s := s.replaceJob _) hmn hm0 (by rfl) hm1 (Or.inl fun e => hne (by simp [e]))
      · intro j1 hj1
        show ∃ j' ∈ _, j'.id = j1.id ∧ (some x ≠ some j1.id → j' = j1) ∧ _
        rw [hx]
        have hpost : Pickable inst ((j.replaceOp { op with stop := some s.time, st := .done }).at m0.post.id) :=
          Or.inl (cs_post_pickup hs hm0)
        obtain ⟨j', h1, h2, h3, h4⟩ := frame_replaceJobE (inst := inst) hjn hj
          (J := (j.replaceOp { op with stop := some s.time, st := .done }).at m0.post.id) (by rfl) (fun _ => hpost) hj1
        exact ⟨j', h1, h2, h3, fun _ => h4⟩
  | dispatch t j ht hst hj hloc hfree =>
    obtain ⟨t0, ht0, hid0, hstep⟩ := agv_step_cases (tid := t.id) rfl h
    have e0 : t0 = t := eq_of_mem_of_key_eq (key := fun (y : TransportState) => y.id) htn ht0 ht hid0
    subst e0
    cases hstep with
    | wait1 _ hn _ => cases hn
    | wait2 _ hn _ => cases hn
    | pick _ hn _ => cases hn
    | deliver _ hn _ => cases hn
    | release _ hn _ => cases hn
    | dispatch _ _ hh =>
      obtain ⟨j2, cur, target, src, bc, c, hj2, htj, _, _, _, _, _, _, _, rfl⟩ := idleToWorking_spec hh
      simp only at htj
      refine ⟨fun m hm _ => frame_machines_same rfl hm, ?_, fun j1 hj1 => frame_jobs_sameE rfl _ hj1, ?_⟩
      · intro t1 ht1 hne
        exact frame_replaceTransport htn ht0 (by rfl) ht1 (fun e => hne (by simp [e]))
      · intro t' ht' x hx
        rcases back_replaceTransport htn ht0 (by rfl) ht' with rfl | ht'
        · simp only [TransportState.toPickup] at hx
          exact Or.inr ⟨rfl, by simp only; rw [htj, hx]⟩
        · exact Or.inl ⟨t', ht', hx⟩
  | wait t j ht hst hj htjob =>
    obtain ⟨t0, ht0, hid0, hstep⟩ := agv_step_cases (tid := t.id) rfl h
    have e0 : t0 = t := eq_of_mem_of_key_eq (key := fun (y : TransportState) => y.id) htn ht0 ht hid0
    subst e0
    cases hstep with
    | dispatch _ hn _ => cases hn
    | pick _ hn _ => cases hn
    | deliver _ hn _ => cases hn
    | release _ hn _ => cases hn
    | wait1 _ _ hh =>
      obtain ⟨occ, _, _, _, e⟩ := pickupToWaiting_spec hh
      exact waitKey t0 j.id ht0 occ e
    | wait2 _ _ hh =>
      obtain ⟨occ, _, _, e⟩ := waitingToWaiting_spec hh
      exact waitKey t0 j.id ht0 occ e
  | rewait t j ht hst hj htjob =>
    obtain ⟨t0, ht0, hid0, hstep⟩ := agv_step_cases (tid := t.id) rfl h
    have e0 : t0 = t := eq_of_mem_of_key_eq (key := fun (y : TransportState) => y.id) htn ht0 ht hid0
    subst e0
    cases hstep with
    | dispatch _ hn _ => cases hn
    | pick _ hn _ => cases hn
    | deliver _ hn _ => cases hn
    | release _ hn _ => cases hn
    | wait1 _ _ hh =>
      obtain ⟨occ, _, _, _, e⟩ := pickupToWaiting_spec hh
      exact waitKey t0 j.id ht0 occ e
    | wait2 _ _ hh =>
      obtain ⟨occ, _, _, e⟩ := waitingToWaiting_spec hh
      exact waitKey t0 j.id ht0 occ e
  | pick t j ht hst hj htjob hloc3 =>
    obtain ⟨t0, ht0, hid0, hstep⟩ := agv_step_cases (tid := t.id) rfl h
    have e0 : t0 = t := eq_of_mem_of_key_eq (key := fun (y : TransportState) => y.id) htn ht0 ht hid0
    subst e0
    cases hstep with
    | dispatch _ hn _ => cases hn
    | wait1 _ hn _ => cases hn
    | wait2 _ hn _ => cases hn
    | deliver _ hn _ => cases hn
    | release _ hn _ => cases hn
    | pick _ _ hh =>
      obtain ⟨j2, src, dst, tt, bss1, bss2, hj2, htj, _, _, _, hcase⟩ := pickupToTransit_spec hh
      simp only at htj
      have e23 : j2 = j := by
        apply eq_of_mem_of_key_eq (key := fun (y : JobState) => y.id) hjn hj2 hj
        simpa using htj.symm
      subst e23
      have hclaims : ∀ T : TransportState, T.id = t0.id → T.job = t0.job → ∀ S : State, S.transports = s.transports →
          ∀ t' ∈ (S.replaceTransport T).transports, ∀ x, t'.job = some x →
          (∃ t ∈ s.transports, t.job = some x) ∨
            ((⟨.t t0.id, .t .transit, some j2.id⟩ : Transition).new = .t .working ∧
             (⟨.t t0.id, .t .transit, some j2.id⟩ : Transition).job = some x) := by
        intro T hT hTj S hS t' ht' x hx
        have htn' : (S.transports.map (·.id)).Nodup := by rw [hS]; exact htn
        rcases back_replaceTransport htn' (hS ▸ ht0) hT ht' with rfl | ht'
        · exact Or.inl ⟨t0, ht0, by rw [← hTj]; exact hx⟩
        · exact Or.inl ⟨t', hS ▸ ht', hx⟩
      rcases hcase with ⟨fb, _, _, _, _, _, rfl⟩ | ⟨mid, ms, bs, ms', _, _, hms, _, hbs, _, hrep, rfl⟩
      · refine ⟨fun m hm _ => frame_machines_same rfl hm, ?_, ?_, hclaims _ (by rfl) (by rfl) _ (by rfl)⟩
        · intro t1 ht1 hne
          exact frame_replaceTransport (s := (s.replaceBuffer _).replaceJob _) htn ht0 (by rfl) ht1 (fun e => hne (by simp [e]))
        · intro j1 hj1
          exact frame_jobs_agvE (tid := t0.id) rfl (frame_replaceJob (s := s.replaceBuffer _) hjn hj2 (by rfl) hj1)
      · have hbid : (bs.without j2.id bss1).id ≠ ms.buffer.id := by
          rw [BufState.without_id, (bufOfMachine_ok hbs).1]
          exact pickupPlace_ne_internal w hs hloc3 hms
        have hk := replaceBufInMachine_keep hbid hrep
        refine ⟨?_, ?_, ?_, hclaims _ (by rfl) (by rfl) _ (by rfl)⟩
        · intro m1 hm1 _
          exact frame_replaceMachine hmn hms hk.1 hm1 (Or.inr hk.2)
        · intro t1 ht1 hne
          exact frame_replaceTransport (s := (s.replaceMachine _).replaceJob _) htn ht0 (by rfl) ht1 (fun e => hne (by simp [e]))
        · intro j1 hj1
          exact frame_jobs_agvE (tid := t0.id) rfl (frame_replaceJob (s := s.replaceMachine _) hjn hj2 (by rfl) hj1)
  | deliver t j ht hst hj hstore =>
    obtain ⟨t0, ht0, hid0, hstep⟩ := agv_step_cases (tid := t.id) rfl h
    have e0 : t0 = t := eq_of_mem_of_key_eq (key := fun (y : TransportState) => y.id) htn ht0 ht hid0
    subst e0
    cases hstep with
    | dispatch _ hn _ => cases hn
    | wait1 _ hn _ => cases hn
    | wait2 _ hn _ => cases hn
    | pick _ hn _ => cases hn
    | release _ hn _ => cases hn
    | deliver _ _ hh =>
      obtain ⟨j2, cur, pick, drop, tc, outs, bss1, bss2, hj2, htj, _, _, _, _, _, hcase⟩ := transitToOutage_spec hh
      simp only at htj
      rcases hcase with ⟨mid, ms, _, hms, _, _, rfl⟩ | ⟨bid, b, _, _, _, _, rfl⟩
      · refine ⟨?_, ?_, ?_, ?_⟩
        · intro m1 hm1 _
          exact frame_replaceMachine (s := (s.replaceJob _).replaceTransport _) hmn hms (by rfl) hm1
            (Or.inr ⟨rfl, rfl, rfl⟩)
        · intro t1 ht1 hne
          exact frame_replaceTransport (s := s.replaceJob _) htn ht0 (by rfl) ht1 (fun e => hne (by simp [e]))
        · intro j1 hj1
          refine frame_jobs_agvE (tid := t0.id) rfl ?_
          rw [htj]
          exact frame_replaceJob hjn hj2 (by rfl) hj1
        · intro t' ht' x hx
          rcases back_replaceTransport (s := s.replaceJob _) htn ht0 (by rfl) ht' with rfl | ht'
          · simp [TransportState.toOutage] at hx
          · exact Or.inl ⟨t', ht', hx⟩
      · refine ⟨fun m hm _ => frame_machines_same rfl hm, ?_, ?_, ?_⟩
        · intro t1 ht1 hne
          exact frame_replaceTransport (s := s.replaceJob _) htn ht0 (by rfl) ht1 (fun e => hne (by simp [e]))
        · intro j1 hj1
          refine frame_jobs_agvE (tid := t0.id) rfl ?_
          rw [htj]
          exact frame_replaceJob hjn hj2 (by rfl) hj1
        · intro t' ht' x hx
          rcases back_replaceTransport (s := s.replaceJob _) htn ht0 (by rfl) ht' with rfl | ht'
          · simp [TransportState.toOutage] at hx
          · exact Or.inl ⟨t', ht', hx⟩
  | release t ht hst =>
    obtain ⟨t0, ht0, hid0, hstep⟩ := agv_step_cases (tid := t.id) rfl h
    have e0 : t0 = t := eq_of_mem_of_key_eq (key := fun (y : TransportState) => y.id) htn ht0 ht hid0
    subst e0
    cases hstep with
    | dispatch _ hn _ => cases hn
    | wait1 _ hn _ => cases hn
    | wait2 _ hn _ => cases hn
    | pick _ hn _ => cases hn
    | deliver _ hn _ => cases hn
    | release _ _ hh =>
      obtain ⟨_, rfl⟩ := agvOutageToIdle_spec hh
      refine ⟨fun m hm _ => frame_machines_same rfl hm, ?_, fun j1 hj1 => frame_jobs_sameE rfl _ hj1, ?_⟩
      · intro t1 ht1 hne
        exact frame_replaceTransport htn ht0 (by rfl) ht1 (fun e => hne (by simp [e]))
      · intro t' ht' x hx
        rcases back_replaceTransport htn ht0 (by rfl) ht' with rfl | ht'
        · exact Or.inl ⟨t0, ht0, hx⟩
        · exact Or.inl ⟨t', ht', hx⟩

/-! ## the batch guard is kept -/

/-- the job of an enabled AGV transition other than a dispatch is claimed by its AGV -/
theorem enE_agv_claims {s : State} {a : Transition} (hA : AgvFull inst s) (hE : EnE inst s a)
    (hns : a.new ≠ .m .setup) (hnd : a.new ≠ .t .working) {tid : Nat} (hc : a.comp = .t tid) {x : Nat} (hx : a.job = some x) :
    ∃ t ∈ s.transports, t.id = tid ∧ t.job = some x := by
  cases hE with
  | start tr hn => exact absurd hn hns
  | mWork m y hm hst hstore => cases hc
  | mOut m y hm hst hstore => cases hc
  | mIdle m y hm hst hstore => cases hc
  | dispatch t j ht hst hj hloc hfree => exact absurd rfl hnd
  | wait t j ht hst hj htjob =>
    simp only at hc hx; cases hc
    exact ⟨t, ht, rfl, by rw [htjob, hx]⟩
  | rewait t j ht hst hj htjob =>
    simp only at hc hx; cases hc
    exact ⟨t, ht, rfl, by rw [htjob, hx]⟩
  | pick t j ht hst hj htjob hloc =>
    simp only at hc hx; cases hc
    exact ⟨t, ht, rfl, by rw [htjob, hx]⟩
  | deliver t j ht hst hj hstore =>
    simp only at hc hx; cases hc
    have := hA.route.transitOwn t ht hst j.id (by rw [hstore]; simp)
    exact ⟨t, ht, rfl, by rw [this, hx]⟩
  | release t ht hst => cases hx

/-- the job of an enabled transition (no machine start, no dispatch) is not a job that nobody has
claimed – unless the transition is a machine transition -/
theorem enE_job_free {s : State} {a : Transition} (hA : AgvFull inst s) (hE : EnE inst s a)
    (hns : a.new ≠ .m .setup) (hnd : a.new ≠ .t .working) {j : JobState}
    (hfree : ∀ t ∈ s.transports, t.job ≠ some j.id) : a.job ≠ some j.id ∨ ∃ mid, a.comp = .m mid := by
  cases hc : a.comp with
  | m mid => exact Or.inr ⟨mid, rfl⟩
  | b bid =>
    left
    cases hE with
    | start tr hn => exact absurd hn hns
    | mWork m y hm hst hstore => cases hc
    | mOut m y hm hst hstore => cases hc
    | mIdle m y hm hst hstore => cases hc
    | dispatch t j ht hst hj hloc hfree => cases hc
    | wait t j ht hst hj htjob => cases hc
    | rewait t j ht hst hj htjob => cases hc
    | pick t j ht hst hj htjob hloc => cases hc
    | deliver t j ht hst hj hstore => cases hc
    | release t ht hst => cases hc
  | t tid =>
    left
    intro e
    obtain ⟨t, ht, _, htj⟩ := enE_agv_claims hA hE hns hnd hc e
    exact hfree t ht htj

/-- the job of an enabled transition (not a machine start) is not a job that lies at a pickup
place and is claimed by an AGV other than the one of the transition -/
theorem enE_job_claimed (w : WF inst) {s : State} {a : Transition} (hI : StructInv inst s) (hA : AgvFull inst s)
    (hE : EnE inst s a) (hns : a.new ≠ .m .setup) {j : JobState} (hj : j ∈ s.jobs)
    (hloc : j.loc ∈ pickupPlaces inst) {tb : TransportState} (htb : tb ∈ s.transports)
    (hclaim : tb.job = some j.id) (hne : a.comp ≠ .t tb.id) : a.job ≠ some j.id := by
  have hs := hI.shape
  have hmach : ∀ m ∈ s.machines, ∀ x, m.buffer.store = [x] → some x ≠ some j.id := by
    intro m hm x hst e
    simp at e; subst e
    have hin : j.id ∈ storeAt s m.buffer.id := by
      rw [(pre_storeAt w hs hm).2, hst]; simp
    have := job_of_store hI.cons hj hin (hs.jobsNodup w)
    exact pickupPlace_ne_internal w hs hloc hm this
  by_cases hnd : a.new = .t .working
  · cases hE with
    | start tr hn => exact absurd hn hns
    | mWork m y hm hst hstore => cases hnd
    | mOut m y hm hst hstore => cases hnd
    | mIdle m y hm hst hstore => cases hnd
    | dispatch t j2 ht hst hj2 hloc2 hfree2 =>
      intro e; simp only at e
      exact hfree2 tb htb (by rw [hclaim, e])
    | wait t j ht hst hj htjob => cases hnd
    | rewait t j ht hst hj htjob => cases hnd
    | pick t j ht hst hj htjob hloc => cases hnd
    | deliver t j ht hst hj hstore => cases hnd
    | release t ht hst => cases hnd
  · cases hc : a.comp with
    | m mid =>
      cases hE with
      | start tr hn => exact absurd hn hns
      | mWork m x hm hst hstore => exact hmach m hm x hstore
      | mOut m x hm hst hstore => exact hmach m hm x hstore
      | mIdle m x hm hst hstore => exact hmach m hm x hstore
      | dispatch t j ht hst hj hloc hfree => cases hc
      | wait t j ht hst hj htjob => cases hc
      | rewait t j ht hst hj htjob => cases hc
      | pick t j ht hst hj htjob hloc => cases hc
      | deliver t j ht hst hj hstore => cases hc
      | release t ht hst => cases hc
    | b bid =>
      cases hE with
      | start tr hn => exact absurd hn hns
      | mWork m y hm hst hstore => cases hc
      | mOut m y hm hst hstore => cases hc
      | mIdle m y hm hst hstore => cases hc
      | dispatch t j ht hst hj hloc hfree => cases hc
      | wait t j ht hst hj htjob => cases hc
      | rewait t j ht hst hj htjob => cases hc
      | pick t j ht hst hj htjob hloc => cases hc
      | deliver t j ht hst hj hstore => cases hc
      | release t ht hst => cases hc
    | t tid =>
      intro e
      obtain ⟨t, ht, hid, htj⟩ := enE_agv_claims hA hE hns hnd hc e
      have := hA.agv.unique t ht tb htb j.id htj hclaim
      exact hne (by rw [hc, ← hid, this])

/-- an enabled transition of the rest of the batch is still enabled after a step with frame -/
theorem enE_of_frame {s s' : State} {a b : Transition} (F : EnFrameE inst s s' a) (hab : Apart a b)
    (hjobD : ∀ t j, b = ⟨.t t, .t .working, some j.id⟩ → j ∈ s.jobs → Pickable inst j →
      (∀ t' ∈ s.transports, t'.job ≠ some j.id) → a.job ≠ some j.id ∨ ∃ mid, a.comp = .m mid)
    (hjobP : ∀ t j, t ∈ s.transports → b.comp = .t t.id → t.job = some j.id → j ∈ s.jobs →
      j.loc ∈ pickupPlaces inst → a.job ≠ some j.id)
    (hE : EnE inst s b) : EnE inst s' b := by
  cases hE with
  | start tr hn => exact .start _ hn
  | mWork m x hm hst hstore =>
    obtain ⟨m', hm', e1, e2, e3, _⟩ := F.machines m hm hab.1
    rw [← e1]
    exact .mWork m' x hm' (by rw [e2, hst]) (by rw [e3, hstore])
  | mOut m x hm hst hstore =>
    obtain ⟨m', hm', e1, e2, e3, _⟩ := F.machines m hm hab.1
    rw [← e1]
    exact .mOut m' x hm' (by rw [e2, hst]) (by rw [e3, hstore])
  | mIdle m x hm hst hstore =>
    obtain ⟨m', hm', e1, e2, e3, _⟩ := F.machines m hm hab.1
    rw [← e1]
    exact .mIdle m' x hm' (by rw [e2, hst]) (by rw [e3, hstore])
  | dispatch t j ht hst hj hloc hfree =>
    have ht' := F.transports t ht hab.1
    obtain ⟨j', hj', e1, e2, e3⟩ := F.jobs j hj
    have hloc' : Pickable inst j' := by
      rcases hjobD t.id j rfl hj hloc hfree with hne | hm
      · rw [e2 hne]; exact hloc
      · exact e3 hm hloc
    rw [← e1]
    refine .dispatch t j' ht' hst hj' hloc' ?_
    intro t' h' e
    rw [e1] at e
    rcases F.claims t' h' j.id e with ⟨t0, ht0, e0⟩ | ⟨hn, e0⟩
    · exact hfree t0 ht0 e0
    · exact hab.2 hn rfl e0
  | wait t j ht hst hj htjob =>
    have ht' := F.transports t ht hab.1
    obtain ⟨j', hj', e1, _⟩ := F.jobs j hj
    rw [← e1]
    exact .wait t j' ht' hst hj' (by rw [e1]; exact htjob)
  | rewait t j ht hst hj htjob =>
    have ht' := F.transports t ht hab.1
    obtain ⟨j', hj', e1, _⟩ := F.jobs j hj
    rw [← e1]
    exact .rewait t j' ht' hst hj' (by rw [e1]; exact htjob)
  | pick t j ht hst hj htjob hloc =>
    have ht' := F.transports t ht hab.1
    obtain ⟨j', hj', _, e2, _⟩ := F.jobs j hj
    have := e2 (hjobP t j ht rfl htjob hj hloc); subst this
    exact .pick t j' ht' hst hj' htjob hloc
  | deliver t j ht hst hj hstore =>
    have ht' := F.transports t ht hab.1
    obtain ⟨j', hj', e1, _⟩ := F.jobs j hj
    rw [← e1]
    exact .deliver t j' ht' hst hj' (by rw [e1]; exact hstore)
  | release t ht hst => exact .release t (F.transports t ht hab.1) hst

/-- **(1)** after the first transition of a batch the rest of the batch is still enabled (early
dispatch included).  `hS` and `hC` are not used. -/
theorem enGSE_step (w : WF inst) {s s' : State} {r r' : Rng} {a : Transition} {R : List Transition}
    (hI : StructInv inst s) (hS : SchedInv s) (hA : AgvFull inst s) (hC : CInvE inst s)
    (hgs : EnGSE inst s (a :: R)) (h : applyTransition orc inst s r a = .ok (s', r')) : EnGSE inst s' R := by
  by_cases hns : a.new = .m .setup
  · have := hgs.alone a (by simp) hns
    simp at this; subst this
    exact EnGSE.nil s'
  · have hE := hgs.en a (by simp)
    have F := apply_frameE w hI hE hns h
    have hap := (List.pairwise_cons.mp hgs.apart).1
    refine ⟨?_, hgs.tail.apart, hgs.tail.alone⟩
    intro b hb
    refine enE_of_frame F (hap b hb) ?_ ?_ (hgs.en b (by simp [hb]))
    · intro t j hbe hj hloc hfree
      by_cases hnd : a.new = .t .working
      · have := (hap b hb).2 hnd (by rw [hbe])
        rw [hbe] at this; exact Or.inl this
      · exact enE_job_free hA hE hns hnd hfree
    · intro t j ht hbc htjob hj hloc
      exact enE_job_claimed w hI hA hE hns hj hloc ht htjob (fun e => (hap b hb).1 (by rw [e, hbc]))

/-! ## re-waits -/

/-- `staleB` of an AGV record only depends on the job list -/
theorem staleB_congr {s s' : State} (h : s'.jobs = s.jobs) (t : TransportState) : staleB s' t = staleB s t := by
  unfold staleB; rw [h]

/-- **(3)** a re-wait of an AGV whose waiting time is up to date does not turn a later transition into such a
re-wait -/
theorem rwE_keep (w : WF inst) {s s' : State} {r r' : Rng} {a : Transition} {R : List Transition} (hI : StructInv inst s)
    (hgs : EnGSE inst s (a :: R)) (hrw : RWE s a) (h : applyTransition orc inst s r a = .ok (s', r')) :
    ∀ b ∈ R, RWE s' b → RWE s b := by
  have htn := hI.shape.trNodup w
  obtain ⟨t, ht, hc, hst, hn, _⟩ := hrw
  obtain ⟨t0, ht0, hid0, hstep⟩ := agv_step_cases hc h
  have e0 : t0 = t := eq_of_mem_of_key_eq (key := fun (y : TransportState) => y.id) htn ht0 ht hid0
  subst e0
  have hap := (List.pairwise_cons.mp hgs.apart).1
  have key : ∀ occ, s' = s.replaceTransport (t0.toWaiting occ) → ∀ b ∈ R, RWE s' b → RWE s b := by
    rintro occ rfl b hb ⟨t', ht', hc', hst', hn', hstale⟩
    rcases back_replaceTransport htn ht0 (by rfl) ht' with rfl | ht'
    · exact absurd (by rw [hc, hc']; rfl) (hap b hb).1
    · exact ⟨t', ht', hc', hst', hn', by rw [← hstale]; exact (staleB_congr rfl t').symm⟩
  cases hstep with
  | dispatch hs0 _ _ => rw [hst] at hs0; cases hs0
  | wait1 hs0 _ _ => rw [hst] at hs0; cases hs0
  | pick _ hn0 _ => rw [hn] at hn0; cases hn0
  | deliver _ hn0 _ => rw [hn] at hn0; cases hn0
  | release _ hn0 _ => rw [hn] at hn0; cases hn0
  | wait2 _ _ hh =>
    obtain ⟨occ, _, _, e⟩ := waitingToWaiting_spec hh
    exact key occ e

/-! ## the measure `muE`: counting lemmas -/

theorem countP_eq_sum_ite {α} (p : α → Bool) (l : List α) :
    l.countP p = (l.map fun x => if p x = true then 1 else 0).sum := by
  induction l with
  | nil => rfl
  | cons x xs ih =>
    simp only [List.countP_cons, List.map_cons, List.sum_cons, ih]
    split <;> omega

theorem countP_le_add {α} (p q c : α → Bool) (l : List α)
    (h : ∀ x ∈ l, q x = true → p x = true ∨ c x = true) : l.countP q ≤ l.countP p + l.countP c := by
  induction l with
  | nil => simp
  | cons x xs ih =>
    have ih' := ih (fun y hy => h y (by simp [hy]))
    have hx := h x (by simp)
    simp only [List.countP_cons]
    cases hq : q x <;> cases hp : p x <;> cases hc : c x <;> simp_all <;> omega

theorem countP_le_one_of_key {α} {key : α → Nat} {l : List α} (hnd : (l.map key).Nodup) (c : α → Bool)
    (h : ∀ a ∈ l, ∀ b ∈ l, c a = true → c b = true → key a = key b) : l.countP c ≤ 1 := by
  induction l with
  | nil => simp
  | cons x xs ih =>
    simp only [List.map_cons, List.nodup_cons, List.mem_map, not_exists, not_and] at hnd
    have ih' := ih hnd.2 (fun a ha b hb => h a (by simp [ha]) b (by simp [hb]))
    simp only [List.countP_cons]
    cases hx : c x with
    | false => simpa using ih'
    | true =>
      have : xs.countP c = 0 := by
        apply List.countP_eq_zero.mpr
        intro y hy hcy
        exact hnd.1 y hy (h y (by simp [hy]) x (by simp) hcy hx)
      simp [this]

/-- what `staleB` reads of the job list -/
def opsView (s : State) : List (Nat × List OpState) := s.jobs.map fun j => (j.id, j.ops)

theorem staleB_view {s s' : State} (h : opsView s' = opsView s) (t : TransportState) : staleB s' t = staleB s t := by
  have key : ∀ (S : State) (x : Nat) (c : Int),
      (S.jobs.any fun j => j.id == x && j.ops.any fun o => o.st == .processing && o.stop != some c) =
      (opsView S).any (fun p => p.1 == x && p.2.any fun o => o.st == .processing && o.stop != some c) := by
    intro S x c
    simp only [opsView, List.any_map]
    rfl
  unfold staleB
  cases t.job with
  | none => rfl
  | some x =>
    cases t.occ with
    | «at» c => simp only [key, h]
    | none => rfl
    | dep _ _ _ => rfl

theorem staleCount_view {s S : State} (hv : opsView S = opsView s) : staleCount S = S.transports.countP (staleB s) := by
  unfold staleCount
  congr 1
  funext t
  exact staleB_view hv t

/-- one AGV record is exchanged, the job records stay: one summand of `staleCount` is exchanged -/
theorem staleCount_transport {s S : State} (hnd : (s.transports.map (·.id)).Nodup) {t0 T : TransportState}
    (ht0 : t0 ∈ s.transports) (hid : T.id = t0.id) (hT : S.transports = (s.replaceTransport T).transports)
    (hv : opsView S = opsView s) :
    staleCount S + (if staleB s t0 = true then 1 else 0) = staleCount s + (if staleB s T = true then 1 else 0) := by
  have := sum_map_replace (key := fun (y : TransportState) => y.id) hnd ht0 hid
    (fun t => if staleB s t = true then 1 else 0)
  rw [staleCount_view hv, hT]
  unfold staleCount
  rw [countP_eq_sum_ite, countP_eq_sum_ite]
  simp only [State.replaceTransport]
  omega

theorem staleCount_transport_le {s S : State} (hnd : (s.transports.map (·.id)).Nodup) {t0 T : TransportState}
    (ht0 : t0 ∈ s.transports) (hid : T.id = t0.id) (hT : S.transports = (s.replaceTransport T).transports)
    (hv : opsView S = opsView s) : staleCount S ≤ staleCount s + 1 := by
  have := staleCount_transport hnd ht0 hid hT hv
  split at this <;> split at this <;> omega

/-- relocating a job does not change what `staleB` reads -/
theorem opsView_at {s S : State} (hnd : (s.jobs.map (·.id)).Nodup) {j : JobState} (hj : j ∈ s.jobs) (l : Nat)
    (hS : S.jobs = (s.replaceJob (j.at l)).jobs) : opsView S = opsView s := by
  unfold opsView
  rw [hS]
  simp only [State.replaceJob, List.map_map]
  apply List.map_congr_left
  intro x hx
  simp only [Function.comp]
  split
  · rename_i e
    have e' : x.id = j.id := by simpa [JobState.at] using e
    have : x = j := eq_of_mem_of_key_eq (key := fun (y : JobState) => y.id) hnd hx hj e'
    subst this
    rfl
  · rfl

theorem any_replace_irrelevant {l : List JobState} {J : JobState} (f : JobState → Bool)
    (hf : ∀ y : JobState, y.id = J.id → f y = false) :
    (l.map fun y => if y.id == J.id then J else y).any f = l.any f := by
  induction l with
  | nil => rfl
  | cons x xs ih =>
    simp only [List.map_cons, List.any_cons, ih]
    split
    · rename_i e
      rw [hf J rfl, hf x (by simpa using e)]
    · rfl

/-- the records of one job change: only the AGV that claims this job can become stale -/
theorem staleCount_job {s S : State} (htn : (s.transports.map (·.id)).Nodup)
    (hU : ∀ t1 ∈ s.transports, ∀ t2 ∈ s.transports, ∀ x, t1.job = some x → t2.job = some x → t1.id = t2.id)
    {j0 J : JobState} (hid : J.id = j0.id) (hT : S.transports = s.transports)
    (hJ : S.jobs = (s.replaceJob J).jobs) : staleCount S ≤ staleCount s + 1 := by
  unfold staleCount
  rw [hT]
  have h1 := countP_le_add (staleB s) (staleB S) (fun t => t.job == some j0.id) s.transports (by
    intro t _ hq
    by_cases e : t.job = some j0.id
    · right; simp [e]
    · left
      rw [← hq]
      unfold staleB
      cases htj : t.job with
      | none => rfl
      | some x =>
        have hx : x ≠ j0.id := fun e' => e (by rw [htj, e'])
        cases t.occ with
        | none => rfl
        | dep _ _ _ => rfl
        | «at» c =>
          have hany := any_replace_irrelevant (l := s.jobs) (J := J)
            (fun j : JobState => j.id == x && j.ops.any fun o => o.st == OSt.processing && o.stop != some c)
            (fun y hy => by simp [hy, hid, Ne.symm hx])
          simp only [hJ, State.replaceJob, hany])
  have h2 := countP_le_one_of_key (key := fun (y : TransportState) => y.id) htn (fun t => t.job == some j0.id) (by
    intro a ha b hb ca cb
    exact hU a ha b hb j0.id (by simpa using ca) (by simpa using cb))
  omega

/-- the waiting time `c` of the waiting AGV record `T` is up to date -/
theorem staleB_false_of_fresh {s : State} {T : TransportState} {x : Nat} {c : Int} (hjob : T.job = some x)
    (hocc : T.occ = .at c)
    (hfresh : ∀ y ∈ s.jobs, y.id = x → ∀ o ∈ y.ops, o.st = .processing → o.stop = some c) : staleB s T = false := by
  unfold staleB
  rw [hjob, hocc]
  simp only [Bool.and_eq_false_imp]
  intro _
  apply List.any_eq_false.mpr
  intro y hy
  simp only [Bool.and_eq_true, not_and, beq_iff_eq]
  intro e
  simp only [Bool.not_eq_true]
  apply List.any_eq_false.mpr
  intro o ho
  simp only [Bool.and_eq_true, not_and, beq_iff_eq]
  intro hp
  simp [hfresh y hy e o ho hp]

/-! ## the measure `muE` -/

/-- **(2a)** the bound of the measure -/
theorem muE_le {s : State} (hs : Shape inst s) : muE s ≤ 6 * inst.machines.length + 11 * inst.transports.length := by
  have h1 := stage_le hs
  have e2 : s.transports.length = inst.transports.length := by
    have := congrArg List.length hs.transports; simpa using this
  have h2 : staleCount s ≤ s.transports.length := List.countP_le_length
  unfold muE
  omega

/-- an enabled transition other than a dispatch is enabled in the old sense, or a re-wait -/
theorem en_of_enE {s : State} {a : Transition} (hE : EnE inst s a) (hnd : a.new ≠ .t .working) :
    En inst s a ∨ ∃ t j, t ∈ s.transports ∧ t.st = .waitingpickup ∧ j ∈ s.jobs ∧ t.job = some j.id ∧
      a = ⟨.t t.id, .t .waitingpickup, some j.id⟩ := by
  cases hE with
  | start tr hn => exact Or.inl (.start _ hn)
  | mWork m x hm hst hstore => exact Or.inl (.mWork m x hm hst hstore)
  | mOut m x hm hst hstore => exact Or.inl (.mOut m x hm hst hstore)
  | mIdle m x hm hst hstore => exact Or.inl (.mIdle m x hm hst hstore)
  | dispatch t j ht hst hj hloc hfree => exact absurd rfl hnd
  | wait t j ht hst hj htjob => exact Or.inl (.wait t j ht hst hj htjob)
  | rewait t j ht hst hj htjob => exact Or.inr ⟨t, j, ht, hst, hj, htjob, rfl⟩
  | pick t j ht hst hj htjob hloc => exact Or.inl (.pick t j ht hst hj htjob)
  | deliver t j ht hst hj hstore => exact Or.inl (.deliver t j ht hst hj hstore)
  | release t ht hst => exact Or.inl (.release t ht hst)

/-- a transition enabled in the old sense (no machine start, no dispatch) makes at most one AGV stale -/
theorem staleCount_step (w : WF inst) {s s' : State} {r r' : Rng} {a : Transition} (hI : StructInv inst s)
    (hA : AgvFull inst s) (hE : En inst s a) (hns : a.new ≠ .m .setup) (hnd : a.new ≠ .t .working)
    (h : applyTransition orc inst s r a = .ok (s', r')) : staleCount s' ≤ staleCount s + 1 := by
  have hs := hI.shape
  have hmn := hs.machNodup w
  have htn := hs.trNodup w
  have hjn := hs.jobsNodup w
  have hU := hA.agv.unique
  cases hE with
  | start tr hn => exact absurd hn hns
  | dispatch t j ht hst hj hloc hfree => exact absurd rfl hnd
  | mWork m x hm hst hstore =>
    obtain ⟨m0, hm0, hid0, hstep⟩ := mach_step_cases (mid := m.id) rfl h
    cases hstep with
    | start _ hn _ => cases hn
    | out _ hn _ => cases hn
    | idle _ hn _ => cases hn
    | work _ _ hh =>
      obtain ⟨j, op, oc, d, _, _, _, _, _, _, _, _, hs'⟩ := setupToWorking_spec hh
      exact staleCount_job (S := s') (j0 := j) (J := j.replaceOp (opRec oc s.time (s.time + d) m0.id)) htn hU
        (by rfl) (by subst hs'; rfl) (by subst hs'; rfl)
  | mOut m x hm hst hstore =>
    obtain ⟨m0, hm0, hid0, hstep⟩ := mach_step_cases (mid := m.id) rfl h
    cases hstep with
    | start _ hn _ => cases hn
    | work _ hn _ => cases hn
    | idle _ hn _ => cases hn
    | out _ _ hh =>
      obtain ⟨mc, outs, j, op, _, _, _, _, _, _, hs'⟩ := workingToOutage_spec hh
      exact staleCount_job (S := s') (j0 := j) (J := j.replaceOp { op with stop := some (s.time + occupiedFor outs) })
        htn hU (by rfl) (by subst hs'; rfl) (by subst hs'; rfl)
  | mIdle m x hm hst hstore =>
    obtain ⟨m0, hm0, hid0, hstep⟩ := mach_step_cases (mid := m.id) rfl h
    cases hstep with
    | start _ hn _ => cases hn
    | work _ hn _ => cases hn
    | out _ hn _ => cases hn
    | idle _ _ hh =>
      obtain ⟨j, op, mc, rest, bss1, bss2, _, _, _, _, _, _, _, hs'⟩ := outageToIdle_spec hh
      exact staleCount_job (S := s') (j0 := j)
        (J := (j.replaceOp { op with stop := some s.time, st := .done }).at m0.post.id)
        htn hU (by rfl) (by subst hs'; rfl) (by subst hs'; rfl)
  | wait t j ht hst hj htjob =>
    obtain ⟨t0, ht0, hid0, hstep⟩ := agv_step_cases (tid := t.id) rfl h
    have key : ∀ occ, s' = s.replaceTransport (t0.toWaiting occ) → staleCount s' ≤ staleCount s + 1 := by
      rintro occ rfl
      exact staleCount_transport_le htn ht0 (T := t0.toWaiting occ) (by rfl) rfl rfl
    cases hstep with
    | dispatch _ hn _ => cases hn
    | pick _ hn _ => cases hn
    | deliver _ hn _ => cases hn
    | release _ hn _ => cases hn
    | wait1 _ _ hh =>
      obtain ⟨occ, _, _, _, e⟩ := pickupToWaiting_spec hh
      exact key occ e
    | wait2 _ _ hh =>
      obtain ⟨occ, _, _, e⟩ := waitingToWaiting_spec hh
      exact key occ e
  | pick t j ht hst hj htjob =>
    obtain ⟨t0, ht0, hid0, hstep⟩ := agv_step_cases (tid := t.id) rfl h
    cases hstep with
    | dispatch _ hn _ => cases hn
    | wait1 _ hn _ => cases hn
    | wait2 _ hn _ => cases hn
    | deliver _ hn _ => cases hn
    | release _ hn _ => cases hn
    | pick _ _ hh =>
      obtain ⟨j2, src, dst, tt, bss1, bss2, hj2, _, _, _, _, hcase⟩ := pickupToTransit_spec hh
      rcases hcase with ⟨fb, _, _, _, _, _, hs'⟩ | ⟨mid, ms, bs, ms', _, _, hms, _, _, _, hrep, hs'⟩
      · exact staleCount_transport_le (S := s') (T := t0.toTransit (s.time + tt) j2.id bss2) htn ht0 (by rfl)
          (by subst hs'; rfl) (opsView_at hjn hj2 t0.buffer.id (by subst hs'; rfl))
      · exact staleCount_transport_le (S := s') (T := t0.toTransit (s.time + tt) j2.id bss2) htn ht0 (by rfl)
          (by subst hs'; rfl) (opsView_at hjn hj2 t0.buffer.id (by subst hs'; rfl))
  | deliver t j ht hst hj hstore =>
    obtain ⟨t0, ht0, hid0, hstep⟩ := agv_step_cases (tid := t.id) rfl h
    cases hstep with
    | dispatch _ hn _ => cases hn
    | wait1 _ hn _ => cases hn
    | wait2 _ hn _ => cases hn
    | pick _ hn _ => cases hn
    | release _ hn _ => cases hn
    | deliver _ _ hh =>
      obtain ⟨j2, cur, pick, drop, tc, outs, bss1, bss2, hj2, _, _, _, _, _, _, hcase⟩ := transitToOutage_spec hh
      rcases hcase with ⟨mid, ms, _, hms, _, _, hs'⟩ | ⟨bid, b, _, _, _, _, hs'⟩
      · exact staleCount_transport_le (S := s') (T := t0.toOutage j2.id bss1 outs (s.time + occupiedFor outs) drop)
          htn ht0 (by rfl) (by subst hs'; rfl) (opsView_at hjn hj2 ms.pre.id (by subst hs'; rfl))
      · exact staleCount_transport_le (S := s') (T := t0.toOutage j2.id bss1 outs (s.time + occupiedFor outs) drop)
          htn ht0 (by rfl) (by subst hs'; rfl) (opsView_at hjn hj2 b.id (by subst hs'; rfl))
  | release t ht hst =>
    obtain ⟨t0, ht0, hid0, hstep⟩ := agv_step_cases (tid := t.id) rfl h
    cases hstep with
    | dispatch _ hn _ => cases hn
    | wait1 _ hn _ => cases hn
    | wait2 _ hn _ => cases hn
    | pick _ hn _ => cases hn
    | deliver _ hn _ => cases hn
    | release _ _ hh =>
      obtain ⟨_, rfl⟩ := agvOutageToIdle_spec hh
      exact staleCount_transport_le htn ht0 (T := t0.toIdle) (by rfl) rfl rfl

/-- the waiting time `getWaitingTime` returns for a `Pickable` job is up to date -/
theorem rewait_fresh (w : WF inst) {s : State} (hI : StructInv inst s) (hS : SchedInv s) {j : JobState}
    (hj : j ∈ s.jobs) {c : Int} (h1 : j.loc ∈ pickupPlaces inst → c = s.time)
    (h2 : j.loc ∈ internalIds inst → ∃ op, j.processing? = some op ∧ op.stop = some c) (hP : Pickable inst j) :
    ∀ y ∈ s.jobs, y.id = j.id → ∀ o ∈ y.ops, o.st = .processing → o.stop = some c := by
  intro y hy e o ho hp
  have : y = j := eq_of_mem_of_key_eq (key := fun (y : JobState) => y.id) (hI.shape.jobsNodup w) hy hj e
  subst this
  rcases hP with hloc | hloc
  · have hr := pickup_not_running w hI hS hj hloc
    unfold JobState.running at hr
    have := List.any_eq_false.mp hr o ho
    simp [hp] at this
  · obtain ⟨op, hop, hstop⟩ := h2 hloc
    obtain ⟨_, _, _, _, hpst⟩ := processing?_split' hop
    have hmem := (find?_mem_ops hop).1
    have := OpsOK_one_processing y.ops none (hS.ops y hy) o ho op hmem hp hpst
    rw [this]; exact hstop

/-- the measure does not rise, and falls unless the transition is an up-to-date re-wait -/
theorem muE_core (w : WF inst) (hC : Classic inst) {s s' : State} {r r' : Rng} {a : Transition}
    (hI : StructInv inst s) (hS : SchedInv s) (hB : BundleE inst s) (hE : EnE inst s a)
    (hns : a.new ≠ .m .setup) (hnd : a.new ≠ .t .working)
    (h : applyTransition orc inst s r a = .ok (s', r')) :
    muE s' ≤ muE s ∧ (¬ RWE s a → muE s' + 1 ≤ muE s) := by
  have htn := hI.shape.trNodup w
  rcases en_of_enE hE hnd with hEn | ⟨t, j, ht, hst, hj, htjob, rfl⟩
  · have h1 := stage_step w hI hEn hns hnd h
    have h2 := staleCount_step w hI hB.full hEn hns hnd h
    unfold muE
    constructor
    · omega
    · intro _; omega
  · -- a re-wait
    obtain ⟨j2, hj2, hc2, hP⟩ := hB.cinv.claimed t ht (Or.inr hst)
    have e2 : j2 = j := by
      apply eq_of_mem_of_key_eq (key := fun (y : JobState) => y.id) (hI.shape.jobsNodup w) hj2 hj
      have : some j2.id = some j.id := by rw [← hc2, htjob]
      simpa using this
    subst e2
    obtain ⟨c, _, h1, h2, happ⟩ := wait_result_early (orc := orc) w hC hI hS ht (Or.inr hst) hj hP r
    rw [happ] at h
    have hs' : s' = s.replaceTransport { t with st := .waitingpickup, occ := .at c } := by
      have := (Except.ok.inj h); exact (Prod.mk.inj this).1.symm
    have hfresh : staleB s { t with st := .waitingpickup, occ := .at c } = false :=
      staleB_false_of_fresh (x := j2.id) (c := c) htjob rfl (rewait_fresh w hI hS hj h1 h2 hP)
    have hst1 := stage_transport (S := s') (T := { t with st := .waitingpickup, occ := .at c }) htn ht (by rfl)
      (by subst hs'; rfl) (by subst hs'; rfl)
    simp only [hst, stageT] at hst1
    have hsc := staleCount_transport (S := s') (T := { t with st := .waitingpickup, occ := .at c }) htn ht (by rfl)
      (by subst hs'; rfl) (by subst hs'; rfl)
    rw [hfresh] at hsc
    simp only [Bool.false_eq_true, if_false] at hsc
    unfold muE
    constructor
    · split at hsc <;> omega
    · intro hrw
      have : staleB s t = true := by
        cases hb : staleB s t with
        | true => rfl
        | false => exact absurd ⟨t, ht, rfl, hst, rfl, hb⟩ hrw
      rw [this] at hsc
      simp only [if_true] at hsc
      omega

/-- **(2b)** no enabled transition other than a machine start or a dispatch raises the measure -/
theorem muE_mono (w : WF inst) (hC : Classic inst) {s s' : State} {r r' : Rng} {a : Transition}
    (hI : StructInv inst s) (hS : SchedInv s) (hB : BundleE inst s) (hE : EnE inst s a)
    (hns : a.new ≠ .m .setup) (hnd : a.new ≠ .t .working)
    (h : applyTransition orc inst s r a = .ok (s', r')) : muE s' ≤ muE s :=
  (muE_core w hC hI hS hB hE hns hnd h).1

/-- **(2c)** and unless it is an up-to-date re-wait it lowers the measure -/
theorem muE_step (w : WF inst) (hC : Classic inst) {s s' : State} {r r' : Rng} {a : Transition}
    (hI : StructInv inst s) (hS : SchedInv s) (hB : BundleE inst s) (hE : EnE inst s a)
    (hns : a.new ≠ .m .setup) (hnd : a.new ≠ .t .working)
    (h : applyTransition orc inst s r a = .ok (s', r')) (hrw : ¬ RWE s a) : muE s' + 1 ≤ muE s :=
  (muE_core w hC hI hS hB hE hns hnd h).2 hrw

end JSL
