import JSL.Inv.PlanDefs
import JSL.Model.Guards

/-!
# Target schedules (C06, reachability side)

A target schedule of an instance is a function `S job idx` giving the start of every configured
operation.  `TargetOK` says that it is feasible (operations of a job in order from time 0 on,
operations of one machine disjoint) and *event-aligned*: every start is 0 or the end of some
operation.  Every semi-active schedule – in particular every list schedule – is of this kind.
-/

namespace JSL

/-- the configured constant duration of an operation (0 for a stochastic one) -/
def OpCfg.d (oc : OpCfg) : Int :=
  match oc.dur with
  | .det d => d
  | .stoch _ => 0

structure TargetOK (inst : Instance) (S : Nat → Nat → Int) : Prop where
  nonneg : ∀ oc ∈ allOps inst, 0 ≤ S oc.job oc.idx
  chain : ∀ jc ∈ inst.jobs, ∀ l1 a b l2, jc.ops = l1 ++ a :: b :: l2 → S a.job a.idx + a.d ≤ S b.job b.idx
  excl : ∀ a ∈ allOps inst, ∀ b ∈ allOps inst, a.machine = b.machine → (a.job, a.idx) ≠ (b.job, b.idx) →
    S a.job a.idx + a.d ≤ S b.job b.idx ∨ S b.job b.idx + b.d ≤ S a.job a.idx
  aligned : ∀ oc ∈ allOps inst, S oc.job oc.idx = 0 ∨
    ∃ oc' ∈ allOps inst, S oc.job oc.idx = S oc'.job oc'.idx + oc'.d

/-- the plan (in the sense of `FeasiblePlan`) a target schedule describes -/
def planOfTarget (inst : Instance) (S : Nat → Nat → Int) : Plan :=
  inst.jobs.map fun jc => jc.ops.map fun oc => (oc.machine, oc.d, S oc.job oc.idx)

/-- the makespan of a target schedule: the latest end (0 for an instance without operations) -/
def targetMakespan (inst : Instance) (S : Nat → Nat → Int) : Int :=
  ((allOps inst).map fun oc => S oc.job oc.idx + oc.d).foldl max 0

end JSL
