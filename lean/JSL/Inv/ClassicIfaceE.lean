import JSL.Inv.ClassicEnvE
import JSL.Inv.ClassicIface
import JSL.Inv.ClassicEnvDefsG
import JSL.Inv.ClassicReturns

/-!
# Classic instances with early dispatch: the interface `StepIfaceG`

The environment level for classic runs with ANY `allowEarly`.

Part A – any number of AGVs (`ClassicRunAny`): everything that does not mention a target schedule.
* `cinvE_init_any`, `cpassE_init_any` – the start state satisfies the invariant of the pass `CPassE`;
* `envReach_crE_any` – the pass invariant at every state the environment holds;
* `classic_settled_any` – at a decision point every AGV is idle, unclaimed and empty, or waits (not due)
  for the end of the processing record of a running job; every machine is idle or working;
* `classic_reset_not_done_any`, `classic_offers_any` – a running episode holds offers, its shop is not finished;
* `classic_step_returns_any`, `classic_reset_returns_any` – no step of such a run ever raises.

Part B – at least as many AGVs as jobs (`ClassicRunEarly`): the same statements under their `E`/`_early`
names, and
* `stepIfaceG_early` – the interface the steering strategy works with (this is where the number of AGVs
  matters: a forced jump keeps the run in step with the target schedule only if a waiting job always
  finds an idle AGV).
-/

namespace JSL

variable {orc : Oracle} {inst : Instance}

/-! # Part A: any number of AGVs -/

structure ClassicRunAny (orc : Oracle) (inst : Instance) (ec : EnvCfg) (st : RewardStatic) (s0 : State) : Prop where
  start : Start orc inst s0
  classic : Classic inst
  startOK : classicStartB inst s0 = true
  trunc : ec.mw.truncActive = false
  joker : 0 ≤ ec.mw.jokerInit
  numOps : st.numOps ≠ 0
  norm : st.tmax - st.lb ≠ 0
  fuel : 6 * inst.machines.length + 11 * inst.transports.length + 2 ≤ ec.fuel
  jobs : inst.jobs ≠ []

variable {ec : EnvCfg} {st : RewardStatic} {s0 : State}

theorem ClassicRunAny.wf (hR : ClassicRunAny orc inst ec st s0) : WF inst := (initOKB_sound hR.start.init).1
theorem ClassicRunAny.struct0 (hR : ClassicRunAny orc inst ec st s0) : StructInv inst s0 :=
  (initOKB_sound hR.start.init).2
theorem ClassicRunAny.nn (hR : ClassicRunAny orc inst ec st s0) : NonNeg orc inst :=
  nonnegB_sound hR.start.samples hR.start.nonneg
theorem ClassicRunAny.sched0 (hR : ClassicRunAny orc inst ec st s0) : SchedInv s0 := restB_sound hR.start.rest

/-! ## (1) the initial state -/

theorem cinvE_init_any (hR : ClassicRunAny orc inst ec st s0) : CInvE inst s0 := by
  obtain ⟨hm, hj, ht⟩ := restB_facts hR.start.rest
  obtain ⟨_, hloc, _⟩ := classicStartB_facts hR.startOK
  have hs := hR.struct0.shape
  refine ⟨fun t htm => (ht t htm).2.2.1, fun t htm => by rw [(ht t htm).1]; simp, ?_, ?_, ?_, ?_,
    fun t htm _ => hloc t htm, ?_, ?_, ?_⟩
  · intro t htm hst
    rcases hst with h | h <;> (rw [(ht t htm).1] at h; cases h)
  · intro t htm hst
    exact absurd (ht t htm).1 hst
  · intro t htm hst
    rcases hst with h | h | h <;> (rw [(ht t htm).1] at h; cases h)
  · intro t htm hst
    rw [(ht t htm).1] at hst; cases hst
  · intro j hjm _ _
    exact nextIdle_of_allIdle (job_has_record hR.classic hs hjm) (hj j hjm)
  · intro m hmm hst
    rcases hst with h | h <;> (rw [(hm m hmm).1] at h; cases h)
  · intro m hmm hst
    rw [(hm m hmm).1] at hst; cases hst

theorem cpassE_init_any (hR : ClassicRunAny orc inst ec st s0) : BundleE inst s0 ∧ DurInv inst s0 :=
  ⟨⟨AgvFull.of_rest hR.start.rest hR.start.placed, readyB_sound (classicStartB_facts hR.startOK).1, cinvE_init_any hR⟩,
   DurInv.of_rest hR.start.rest⟩

/-! ## (2) the pass invariant at every state the environment holds -/

structure CRE (inst : Instance) (res : SMResult) : Prop where
  fin : ∃ t, BundleE inst { res.state with time := t } ∧ DurInv inst { res.state with time := t }
  live : res.possible ≠ [] → BundleE inst res.state ∧ DurInv inst res.state

/-- one `state.step` from a state with the invariants -/
theorem smStep_crE_any (hR : ClassicRunAny orc inst ec st s0) {s : State} (hI : StructInv inst s) (hS : SchedInv s)
    (hP : BundleE inst s ∧ DurInv inst s) {a : Action} (ha : Admissible a) (hadm : AdmOffer inst ec.sm s a)
    {fuel : Nat} {r r' : Rng} {res : SMResult} {mic : List State}
    (hstep : smStep orc inst ec.sm fuel s r a = .ok (res, r', mic)) : CRE inst res := by
  have h := (CPassE orc inst ec.sm hR.wf hR.nn hR.classic).smStep hR.wf hR.nn hI hS hP ha hadm hstep
  refine ⟨h.2.2.1, fun hne => h.2.2.2 ?_⟩
  rcases (smStep_spec hstep).2 with h1 | h1 | h1
  · exact h1.2.1
  · exact absurd h1.2.2.1 hne
  · exact h1.2.1

theorem envReset_crE_any (hR : ClassicRunAny orc inst ec st s0) {r : Rng} {e : EnvState} {mic : List State}
    (h : envReset orc inst ec s0 r = .ok (e, mic)) : CRE inst e.res := by
  unfold envReset mwReset at h
  obtain ⟨⟨res, mw, r', mic'⟩, h1, h⟩ := except_bind_eq_ok h
  obtain ⟨⟨res', r'', mic''⟩, h2, h1⟩ := except_bind_eq_ok h1
  simp at h1 h
  obtain ⟨rfl, rfl, rfl, rfl⟩ := h1
  obtain ⟨rfl, rfl⟩ := h
  exact smStep_crE_any hR hR.struct0 hR.sched0 (cpassE_init_any hR) admissible_noOp (Or.inl rfl) h2

theorem envStep_crE_any (hR : ClassicRunAny orc inst ec st s0) {e : EnvState} (hi : ResInv orc inst ec.sm s0 e.res)
    (hd : CRE inst e.res) {a : AgentAct} {out : StepOut} (h : envStep orc inst ec st e a = .ok out) :
    CRE inst out.env.res := by
  have hst := hR.start
  unfold envStep at h
  split at h
  · simp at h
  · obtain ⟨⟨res', mw, r, mic⟩, hm, h⟩ := except_bind_eq_ok h
    simp only at h
    obtain ⟨⟨rew, cnt⟩, _, h⟩ := except_bind_eq_ok h
    simp at h; subst h
    have key : CRE inst res' := by
      rcases mwStep_cases hm with ⟨o, o', rest, _, hp, e1, _, _, _, _, _, _⟩ | ⟨act, hsub, hk, hs⟩
      · simp only at e1
        have hP := hd.live (by rw [hp]; simp)
        exact ⟨by rw [e1]; exact ⟨e.res.state.time, hP⟩, fun _ => by rw [e1]; exact hP⟩
      · obtain ⟨hne, ha, hadm⟩ := mw_action_adm hi hsub hk
        obtain ⟨_, hI, hS⟩ := occursA_inv hst (hi.live hne).1
        exact smStep_crE_any hR hI hS (hd.live hne) ha hadm hs
    by_cases hsuc : res'.success = true
    · simp only [hsuc, if_true]; exact key
    · simp only [hsuc]
      exact hd

theorem envReach_crE_any (hR : ClassicRunAny orc inst ec st s0) {e : EnvState} (h : EnvReach orc inst ec st s0 e) :
    CRE inst e.res := by
  induction h with
  | reset h => exact envReset_crE_any hR h
  | step he h ih => exact envStep_crE_any hR (envReach_inv hR.start he) ih h

/-! ## (3) settledness at decision points -/

/-- the invariants at a state that holds offers -/
theorem envReach_liveE_any (hR : ClassicRunAny orc inst ec st s0) {e : EnvState} (h : EnvReach orc inst ec st s0 e)
    (hne : e.res.possible ≠ []) :
    StructInv inst e.res.state ∧ SchedInv e.res.state ∧ BundleE inst e.res.state ∧ DurInv inst e.res.state := by
  obtain ⟨_, hI, hS⟩ := occursA_inv hR.start ((envReach_inv hR.start h).live hne).1
  have hP := (envReach_crE_any hR h).live hne
  exact ⟨hI, hS, hP.1, hP.2⟩

/-- at a decision point every AGV is idle, unclaimed and empty, or waits – not yet due – for the end of the
processing record of a running job; every machine is idle or working -/
theorem classic_settled_any (hR : ClassicRunAny orc inst ec st s0) {e : EnvState} (h : EnvReach orc inst ec st s0 e)
    (hne : e.res.possible ≠ []) :
    (∀ t ∈ e.res.state.transports, (t.st = .idle ∧ t.job = none ∧ t.buffer.store = []) ∨
       (t.st = .waitingpickup ∧ t.buffer.store = [] ∧ ∃ j ∈ e.res.state.jobs, t.job = some j.id ∧ j.running = true ∧
          ∃ c, t.occ = .at c ∧ e.res.state.time < c ∧ ∃ o ∈ j.ops, o.st = .processing ∧ o.stop = some c)) ∧
    (∀ m ∈ e.res.state.machines, m.st = .idle ∨ m.st = .working) ∧
    BundleE inst e.res.state ∧ DurInv inst e.res.state := by
  obtain ⟨hI, hS, hB, hD⟩ := envReach_liveE_any hR h hne
  have hq : Quiet inst e.res.state := (envReach_inv hR.start h).quiet hne
  refine ⟨fun t ht => ?_, fun m hm => ?_, hB, hD⟩
  · by_cases hi : t.st = .idle
    · exact Or.inl ⟨hi, hS.freeNoClaim t ht (Or.inl hi), hB.full.agv.empty t ht (by rw [hi]; simp)⟩
    · right
      obtain ⟨c, hc⟩ := hB.cinv.agvAt t ht hi
      have hlt := hq.transport ht hi hc
      have hwait : t.st = .waitingpickup := by
        cases hst : t.st with
        | idle => exact absurd hst hi
        | working => exact absurd hst (hB.cinv.noWorking t ht)
        | waitingpickup => rfl
        | pickup => have := hB.cinv.agvDue t ht (Or.inl hst) c hc; omega
        | transit => have := hB.cinv.agvDue t ht (Or.inr (Or.inl hst)) c hc; omega
        | outage => have := hB.cinv.agvDue t ht (Or.inr (Or.inr hst)) c hc; omega
      obtain ⟨j, hj, hjob, _⟩ := hB.cinv.claimed t ht (Or.inr hwait)
      refine ⟨hwait, hB.full.agv.empty t ht (by rw [hwait]; simp), j, hj, hjob, ?_⟩
      rcases hB.cinv.waitDue t ht hwait j hj hjob c hc with h1 | ⟨o, ho, hst, hstop⟩
      · omega
      · refine ⟨?_, c, hc, hlt, o, ho, hst, hstop⟩
        unfold JobState.running
        exact List.any_eq_true.mpr ⟨o, ho, by simp [hst]⟩
  · have hdue : m.st = .setup ∨ m.st = .outage → False := by
      intro hst
      have hb : m.st ≠ .idle := by rcases hst with h | h <;> rw [h] <;> simp
      obtain ⟨c, hc, hle⟩ := hB.cinv.machDue m hm hst
      obtain ⟨j, _, hstore, _⟩ := hS.busyHolds m hm hb
      have := hq.machine hm hb (by rw [hstore]; simp)
      rw [hc] at this
      simp [dueAt] at this
      omega
    cases hst : m.st with
    | idle => exact Or.inl rfl
    | working => exact Or.inr rfl
    | setup => exact (hdue (Or.inl hst)).elim
    | outage => exact (hdue (Or.inr hst)).elim

/-- at a decision point every busy AGV waits for a running job -/
theorem classic_busy_waits_any (hR : ClassicRunAny orc inst ec st s0) {e : EnvState}
    (h : EnvReach orc inst ec st s0 e) (hne : e.res.possible ≠ []) :
    ∀ t ∈ e.res.state.transports, t.st ≠ .idle → ∃ j ∈ e.res.state.jobs, t.job = some j.id ∧ j.running = true := by
  intro t ht hb
  rcases (classic_settled_any hR h hne).1 t ht with h1 | ⟨_, _, j, hj, hjob, hrun, _⟩
  · exact absurd h1.1 hb
  · exact ⟨j, hj, hjob, hrun⟩

/-! ## (4) a running episode holds offers and its shop is not finished -/

theorem classic_reset_not_done_any (hR : ClassicRunAny orc inst ec st s0) {r0 : Rng} {e0 : EnvState} {mic : List State}
    (h : envReset orc inst ec s0 r0 = .ok (e0, mic)) : isDone inst e0.res.state = false := by
  have hst := hR.start
  have hi := (envReset_inv hst h).1
  have hns : NoStartSince s0 e0.res.state := by
    unfold envReset mwReset at h
    obtain ⟨⟨res, mw, r', mic'⟩, h1, h⟩ := except_bind_eq_ok h
    obtain ⟨⟨res', r'', mic''⟩, h2, h1⟩ := except_bind_eq_ok h1
    simp at h1 h
    obtain ⟨rfl, rfl, rfl, rfl⟩ := h1
    obtain ⟨rfl, rfl⟩ := h
    exact (smStep_starts_nothing hR.wf hR.nn (preFlex_of_classic hR.classic) hR.struct0 hR.sched0 admissible_noOp
      (by simp [noOpAction]; exact NoSetup.nil) h2).1
  apply not_done_of_allIdle hR.classic hR.jobs hi.struct.shape hi.full.route
  intro j hj o ho
  apply Classical.byContradiction
  intro hne
  obtain ⟨j0, hj0, _, o0, ho0, _, _, hn0⟩ := hns j hj o ho hne
  exact hn0 ((restB_facts hst.rest).2.1 j0 hj0 o0 ho0)

/-- while the episode runs the shop is not finished -/
theorem envReach_running_any (hR : ClassicRunAny orc inst ec st s0) {e : EnvState} (h : EnvReach orc inst ec st s0 e)
    (hd : e.done = false) : isDone inst e.res.state = false ∧ e.truncated = false := by
  cases h with
  | reset h => exact ⟨classic_reset_not_done_any hR h, (envReset_flags h).2.1⟩
  | step _ h =>
    unfold envStep at h
    split at h
    · simp at h
    · obtain ⟨⟨res', mw, r, mic⟩, hm, h⟩ := except_bind_eq_ok h
      simp only at h
      obtain ⟨⟨rew, cnt⟩, _, h⟩ := except_bind_eq_ok h
      simp at h; subst h
      by_cases hsuc : res'.success = true
      · simp only [hsuc, if_true] at hd ⊢
        simp only [Bool.or_eq_false_iff] at hd
        exact ⟨hd.1, hd.2⟩
      · simp [hsuc] at hd

theorem classic_offers_any (hR : ClassicRunAny orc inst ec st s0) {e : EnvState} (h : EnvReach orc inst ec st s0 e)
    (hd : e.done = false) (hs : e.res.success = true) (_htr : e.truncated = false) :
    e.res.possible ≠ [] ∧ isDone inst e.res.state = false := by
  have hnd := (envReach_running_any hR h hd).1
  exact ⟨(envReach_good hR.start hR.classic.flex hR.classic.hasAgv h).offers hs hnd, hnd⟩

/-! ## (5) no step of a classic run ever raises, whatever `allowEarly` and the number of AGVs -/

/-- `state.step` from a state with the invariants returns successfully, and its result holds offers or
has the shop finished (the trivial property: pure totality) -/
theorem classic_smStep_returns_any (hR : ClassicRunAny orc inst ec st s0) {s : State}
    (hI : StructInv inst s) (hS : SchedInv s) (hP : BundleE inst s ∧ DurInv inst s) {r : Rng} {a : Action}
    (ha : Admissible a) (hadm : AdmOffer inst ec.sm s a)
    (hact : a.transitions = [] ∨ ∃ tr, a.transitions = [tr] ∧ transitionValid s tr = .ok true ∧
        ∃ s' r', applyTransition orc inst s r tr = .ok (s', r')) :
    ∃ res r' mic, smStep orc inst ec.sm ec.fuel s r a = .ok (res, r', mic) ∧ res.success = true ∧
      (res.possible ≠ [] ∨ isDone inst res.state = true) := by
  have hC := hR.classic
  obtain ⟨res, r', mic, hs, hsuc, _, _, _, _⟩ :=
    smStep_totalR (CPassE orc inst ec.sm hR.wf hR.nn hC) (cpassE_total_true hR.wf hR.nn hC) hR.wf hR.nn
      hI hS hP ha hadm hR.fuel hact (fun _ _ _ => trivial) (fun _ _ _ _ _ => trivial)
  refine ⟨res, r', mic, hs, hsuc, ?_⟩
  rcases (smStep_spec hs).2 with h1 | h1 | h1
  · rw [h1.1] at hsuc; cases hsuc
  · exact Or.inr h1.2.2.2
  · have hnodep : NoDep s := fun t ht hb => hP.1.cinv.agvAt t ht hb
    exact Or.inl (smStep_offers hR.wf hR.nn hC.flex hC.hasAgv hI hS ⟨hP.1.full, hnodep⟩ ha hadm hs hsuc h1.2.1)

/-- accepting the head offer: `env.step` returns the result of a `state.step` that returns successfully -/
theorem classic_accept_core_any (hR : ClassicRunAny orc inst ec st s0) {e : EnvState} (h : EnvReach orc inst ec st s0 e)
    (hd : e.done = false) (hj : 0 ≤ e.mw.joker) {tr : Transition} {rest : List Transition}
    (hp : e.res.possible = tr :: rest) :
    ∃ out res' r' mic, envStep orc inst ec st e .accept = .ok out ∧
      smStep orc inst ec.sm ec.fuel e.res.state e.rng { transitions := [tr], noOp := false, tm := .jumpToEvent } =
        .ok (res', r', mic) ∧
      out.env.res = res' ∧ res'.success = true ∧ out.env.truncated = false ∧ out.env.mw.joker = e.mw.joker ∧
      out.env.terminated = isDone inst res'.state ∧ out.env.done = isDone inst res'.state ∧
      (res'.possible ≠ [] ∨ isDone inst res'.state = true) := by
  have hC := hR.classic
  have hst := hR.start
  have w := hR.wf
  have hne : e.res.possible ≠ [] := by rw [hp]; simp
  obtain ⟨hI, hS, hB, hD⟩ := envReach_liveE_any hR h hne
  have hi := envReach_inv hst h
  obtain ⟨poss, hposs, hsub⟩ := hi.offersFrom hne
  have hl := hi.live hne
  have htr : tr ∈ e.res.possible := by rw [hp]; simp
  have hadmA : Admissible { transitions := [tr], noOp := false, tm := .jumpToEvent } :=
    ⟨fun x hx => by simp at hx; subst hx; exact hl.2 x htr, by simp⟩
  have hadmO : AdmOffer inst ec.sm e.res.state { transitions := [tr], noOp := false, tm := .jumpToEvent } :=
    Or.inr ⟨poss, hposs, tr, hsub tr htr, rfl⟩
  have hv := offers_valid w hI hS hposs tr (hsub tr htr)
  obtain ⟨s1, r1, happ⟩ :=
    env_offer_applies hst hC.tables (readyB_sound (classicStartB_facts hR.startOK).1) h tr htr
  obtain ⟨res', r', mic, hs, hs', hoff⟩ :=
    classic_smStep_returns_any hR hI hS ⟨hB, hD⟩ (r := e.rng) hadmA hadmO (Or.inr ⟨tr, rfl, hv, s1, r1, happ⟩)
  obtain ⟨out, hout, e1, e2, e3, e4, e5, _⟩ :=
    envStep_accept_of_smStep (st := st) hd hR.numOps hR.norm hj hp hs hs'
  exact ⟨out, res', r', mic, hout, hs, e1, hs', e2, e5, e3, e4, hoff⟩

/-- declining the last offer: `env.step` returns the result of a `state.step` with the forced jump that
returns successfully -/
theorem classic_decline_last_core_any (hR : ClassicRunAny orc inst ec st s0) {e : EnvState}
    (h : EnvReach orc inst ec st s0 e) (hd : e.done = false) (hj : 0 ≤ e.mw.joker) {tr : Transition}
    (hp : e.res.possible = [tr]) :
    ∃ out res' r' mic, envStep orc inst ec st e .decline = .ok out ∧
      smStep orc inst ec.sm ec.fuel e.res.state e.rng { transitions := [], noOp := true, tm := .forceJump } =
        .ok (res', r', mic) ∧
      out.env.res = res' ∧ res'.success = true ∧ out.env.truncated = false ∧ out.env.mw.joker = e.mw.joker ∧
      out.env.terminated = isDone inst res'.state ∧ out.env.done = isDone inst res'.state ∧
      (res'.possible ≠ [] ∨ isDone inst res'.state = true) := by
  have hne : e.res.possible ≠ [] := by rw [hp]; simp
  obtain ⟨hI, hS, hB, hD⟩ := envReach_liveE_any hR h hne
  have hadmA : Admissible { transitions := [], noOp := true, tm := .forceJump } :=
    ⟨fun x hx => by simp at hx, by simp⟩
  obtain ⟨res', r', mic, hs, hs', hoff⟩ :=
    classic_smStep_returns_any hR hI hS ⟨hB, hD⟩ (r := e.rng) hadmA (Or.inl rfl) (Or.inl rfl)
  obtain ⟨out, hout, e1, e2, e3, e4, e5, _⟩ :=
    envStep_decline_last_of_smStep (st := st) hd hR.numOps hR.norm hj hR.trunc hp hs hs' hoff
  exact ⟨out, res', r', mic, hout, hs, e1, hs', e2, e5, e3, e4, hoff⟩

/-- every `env.step` of a running episode returns (detailed form) -/
theorem classic_step_returns_flags_any (hR : ClassicRunAny orc inst ec st s0) {e : EnvState}
    (h : EnvReach orc inst ec st s0 e) (hd : e.done = false) (hs : e.res.success = true) (hj : 0 ≤ e.mw.joker)
    (a : AgentAct) (ha : a = .accept ∨ a = .decline) :
    ∃ out, envStep orc inst ec st e a = .ok out ∧ out.env.res.success = true ∧ out.env.truncated = false ∧
      out.env.mw.joker = e.mw.joker ∧ out.env.terminated = isDone inst out.env.res.state ∧
      out.env.done = isDone inst out.env.res.state := by
  obtain ⟨hne, _⟩ := classic_offers_any hR h hd hs (envReach_running_any hR h hd).2
  cases hp : e.res.possible with
  | nil => exact absurd hp hne
  | cons tr rest =>
    rcases ha with rfl | rfl
    · obtain ⟨out, res', _, _, hout, _, e1, hs', e2, e5, e3, e4, _⟩ := classic_accept_core_any hR h hd hj hp
      subst e1
      exact ⟨out, hout, hs', e2, e5, e3, e4⟩
    · cases rest with
      | cons o' rest' =>
        obtain ⟨out, hout, e1, e2, e3, e4, e5, _⟩ :=
          envStep_decline_many_total (orc := orc) (inst := inst) (ec := ec) (st := st) hd hR.numOps hR.norm hj hp
        refine ⟨out, hout, by rw [e1], e2, e5, by rw [e3, e1], by rw [e4, e1]⟩
      | nil =>
        obtain ⟨out, res', _, _, hout, _, e1, hs', e2, e5, e3, e4, _⟩ := classic_decline_last_core_any hR h hd hj hp
        subst e1
        exact ⟨out, hout, hs', e2, e5, e3, e4⟩

/-- **no step of a classic run with early dispatch ever raises**, and the invariant of the episode
(successful result, allowance not negative) is kept: the state after the step is again reachable and –
unless the episode is over – satisfies the hypotheses of this theorem -/
theorem classic_step_returns_any (hR : ClassicRunAny orc inst ec st s0) {e : EnvState} (h : EnvReach orc inst ec st s0 e)
    (hd : e.done = false) (hs : e.res.success = true) (hj : 0 ≤ e.mw.joker) (a : AgentAct) (ha : a = .accept ∨ a = .decline) :
    ∃ out, envStep orc inst ec st e a = .ok out ∧ EnvReach orc inst ec st s0 out.env ∧
      out.env.res.success = true ∧ 0 ≤ out.env.mw.joker ∧ out.env.truncated = false ∧
      out.env.done = isDone inst out.env.res.state := by
  obtain ⟨out, hout, h1, h2, h3, _, h5⟩ := classic_step_returns_flags_any hR h hd hs hj a ha
  exact ⟨out, hout, EnvReach.step h hout, h1, by rw [h3]; exact hj, h2, h5⟩

theorem classic_reset_returns_any (hR : ClassicRunAny orc inst ec st s0) (r0 : Rng) :
    ∃ e0 mic, envReset orc inst ec s0 r0 = .ok (e0, mic) ∧ e0.res.success = true ∧ e0.done = false ∧ 0 ≤ e0.mw.joker := by
  obtain ⟨res, r', mic, hs, hsuc, _⟩ :=
    classic_smStep_returns_any hR hR.struct0 hR.sched0 (cpassE_init_any hR) (r := r0) admissible_noOp (Or.inl rfl) (Or.inl rfl)
  have hreset : envReset orc inst ec s0 r0 =
      .ok ({ res := res, histLen := 0, histNoOps := 0, lastNoOp := false, terminated := false, truncated := false,
             done := false, mw := { joker := ec.mw.jokerInit, noOpCnt := 0, actCnt := 0 }, rng := r', rwCnt := 0 },
           mic) := by
    simp [envReset, mwReset, hs]
  exact ⟨_, _, hreset, hsuc, rfl, hR.joker⟩

/-! # Part B: at least as many AGVs as jobs -/

structure ClassicRunEarly (orc : Oracle) (inst : Instance) (ec : EnvCfg) (st : RewardStatic) (s0 : State) : Prop where
  start : Start orc inst s0
  classic : Classic inst
  startOK : classicStartB inst s0 = true
  agvs : inst.jobs.length ≤ inst.transports.length
  trunc : ec.mw.truncActive = false
  joker : 0 ≤ ec.mw.jokerInit
  numOps : st.numOps ≠ 0
  norm : st.tmax - st.lb ≠ 0
  fuel : 6 * inst.machines.length + 11 * inst.transports.length + 2 ≤ ec.fuel
  jobs : inst.jobs ≠ []

theorem ClassicRunEarly.toAny (hR : ClassicRunEarly orc inst ec st s0) : ClassicRunAny orc inst ec st s0 :=
  ⟨hR.start, hR.classic, hR.startOK, hR.trunc, hR.joker, hR.numOps, hR.norm, hR.fuel, hR.jobs⟩

theorem ClassicRunEarly.wf (hR : ClassicRunEarly orc inst ec st s0) : WF inst := hR.toAny.wf
theorem ClassicRunEarly.struct0 (hR : ClassicRunEarly orc inst ec st s0) : StructInv inst s0 := hR.toAny.struct0
theorem ClassicRunEarly.nn (hR : ClassicRunEarly orc inst ec st s0) : NonNeg orc inst := hR.toAny.nn
theorem ClassicRunEarly.sched0 (hR : ClassicRunEarly orc inst ec st s0) : SchedInv s0 := hR.toAny.sched0

/-! ## (1) the initial state -/

theorem cinvE_init (hR : ClassicRunEarly orc inst ec st s0) : CInvE inst s0 := cinvE_init_any hR.toAny

theorem cpassE_init (hR : ClassicRunEarly orc inst ec st s0) : BundleE inst s0 ∧ DurInv inst s0 :=
  cpassE_init_any hR.toAny

/-! ## (2) the pass invariant at every state the environment holds -/

theorem envReach_crE (hR : ClassicRunEarly orc inst ec st s0) {e : EnvState} (h : EnvReach orc inst ec st s0 e) :
    CRE inst e.res := envReach_crE_any hR.toAny h

/-! ## (3) settledness at decision points -/

/-- the invariants at a state that holds offers -/
theorem envReach_liveE (hR : ClassicRunEarly orc inst ec st s0) {e : EnvState} (h : EnvReach orc inst ec st s0 e)
    (hne : e.res.possible ≠ []) :
    StructInv inst e.res.state ∧ SchedInv e.res.state ∧ BundleE inst e.res.state ∧ DurInv inst e.res.state :=
  envReach_liveE_any hR.toAny h hne

/-- at a decision point every AGV is idle, unclaimed and empty, or waits – not yet due – for the end of the
processing record of a running job; every machine is idle or working -/
theorem classic_settled_early (hR : ClassicRunEarly orc inst ec st s0) {e : EnvState} (h : EnvReach orc inst ec st s0 e)
    (hne : e.res.possible ≠ []) :
    (∀ t ∈ e.res.state.transports, (t.st = .idle ∧ t.job = none ∧ t.buffer.store = []) ∨
       (t.st = .waitingpickup ∧ t.buffer.store = [] ∧ ∃ j ∈ e.res.state.jobs, t.job = some j.id ∧ j.running = true ∧
          ∃ c, t.occ = .at c ∧ e.res.state.time < c ∧ ∃ o ∈ j.ops, o.st = .processing ∧ o.stop = some c)) ∧
    (∀ m ∈ e.res.state.machines, m.st = .idle ∨ m.st = .working) ∧
    BundleE inst e.res.state ∧ DurInv inst e.res.state :=
  classic_settled_any hR.toAny h hne

/-- at a decision point every busy AGV waits for a running job -/
theorem classic_busy_waits_early (hR : ClassicRunEarly orc inst ec st s0) {e : EnvState}
    (h : EnvReach orc inst ec st s0 e) (hne : e.res.possible ≠ []) :
    ∀ t ∈ e.res.state.transports, t.st ≠ .idle → ∃ j ∈ e.res.state.jobs, t.job = some j.id ∧ j.running = true :=
  classic_busy_waits_any hR.toAny h hne

/-! ## (4) a running episode holds offers and its shop is not finished -/

theorem classic_reset_not_doneE (hR : ClassicRunEarly orc inst ec st s0) {r0 : Rng} {e0 : EnvState} {mic : List State}
    (h : envReset orc inst ec s0 r0 = .ok (e0, mic)) : isDone inst e0.res.state = false :=
  classic_reset_not_done_any hR.toAny h

/-- while the episode runs the shop is not finished -/
theorem envReach_runningE (hR : ClassicRunEarly orc inst ec st s0) {e : EnvState} (h : EnvReach orc inst ec st s0 e)
    (hd : e.done = false) : isDone inst e.res.state = false ∧ e.truncated = false :=
  envReach_running_any hR.toAny h hd

theorem classic_offersE (hR : ClassicRunEarly orc inst ec st s0) {e : EnvState} (h : EnvReach orc inst ec st s0 e)
    (hd : e.done = false) (hs : e.res.success = true) (htr : e.truncated = false) :
    e.res.possible ≠ [] ∧ isDone inst e.res.state = false :=
  classic_offers_any hR.toAny h hd hs htr

/-! ## (5) the interface -/

/-- `state.step` from a state with the invariants returns successfully, in step with the target
schedule, and its result holds offers or has the shop finished -/
theorem classic_smStepE (hR : ClassicRunEarly orc inst ec st s0) {S : Nat → Nat → Int} (hT : TargetOK inst S) {s : State}
    (hI : StructInv inst s) (hS : SchedInv s) (hP : BundleE inst s ∧ DurInv inst s) {r : Rng} {a : Action}
    (ha : Admissible a) (hadm : AdmOffer inst ec.sm s a)
    (hact : a.transitions = [] ∨ ∃ tr, a.transitions = [tr] ∧ transitionValid s tr = .ok true ∧
        ∃ s' r', applyTransition orc inst s r tr = .ok (s', r'))
    (hQa : a.tm = .jumpToEvent → ∀ p, processTransitions orc inst (sortedByTransport a.transitions) s r = .ok p →
        SyncL inst S p.state)
    (hQb : a.tm = .forceJump → ∀ p t, processTransitions orc inst (sortedByTransport a.transitions) s r = .ok p →
        forceJump p.state = .ok t → SyncL inst S { p.state with time := t }) :
    ∃ res r' mic, smStep orc inst ec.sm ec.fuel s r a = .ok (res, r', mic) ∧ res.success = true ∧
      (∃ t, SyncL inst S { res.state with time := t }) ∧ (isDone inst res.state = false → SyncL inst S res.state) ∧
      (res.possible ≠ [] ∨ isDone inst res.state = true) := by
  have hC := hR.classic
  obtain ⟨res, r', mic, hs, hsuc, hfin, hlive, _, _⟩ :=
    smStep_totalR (CPassE orc inst ec.sm hR.wf hR.nn hC) (cpassE_total hR.wf hR.nn hC hR.agvs hT) hR.wf hR.nn
      hI hS hP ha hadm hR.fuel hact hQa hQb
  refine ⟨res, r', mic, hs, hsuc, hfin, ?_, ?_⟩
  · intro hnd
    apply hlive
    rcases (smStep_spec hs).2 with h1 | h1 | h1
    · exact h1.2.1
    · rw [h1.2.2.2] at hnd; cases hnd
    · exact h1.2.1
  · rcases (smStep_spec hs).2 with h1 | h1 | h1
    · rw [h1.1] at hsuc; cases hsuc
    · exact Or.inr h1.2.2.2
    · have hnodep : NoDep s := fun t ht hb => hP.1.cinv.agvAt t ht hb
      exact Or.inl (smStep_offers hR.wf hR.nn hC.flex hC.hasAgv hI hS ⟨hP.1.full, hnodep⟩ ha hadm hs hsuc h1.2.1)

/-- the start state is in step with every target schedule -/
theorem sync_initE (hR : ClassicRunEarly orc inst ec st s0) {S : Nat → Nat → Int} (hT : TargetOK inst S) :
    SyncL inst S s0 := by
  have h0 := (classicStartB_facts hR.startOK).2.2
  have hidle := (restB_facts hR.start.rest).2.1
  refine ⟨by omega, fun j hj o ho hne => absurd (hidle j hj o ho) hne, ?_⟩
  intro j hj o ho hlt
  exfalso
  obtain ⟨oc, hoc, k1, k2, _⟩ := rec_cfg hR.wf hR.struct0.shape hj ho
  have := hT.nonneg oc hoc
  rw [k1, k2] at this
  omega

theorem stepIfaceG_early (hR : ClassicRunEarly orc inst ec st s0) {S : Nat → Nat → Int} (hT : TargetOK inst S) :
    StepIfaceG orc inst ec st s0 S where
  reset := by
    intro r0
    obtain ⟨res, r', mic, hs, hsuc, _, hlive, _⟩ :=
      classic_smStepE hR hT hR.struct0 hR.sched0 (cpassE_init hR) (r := r0) admissible_noOp (Or.inl rfl) (Or.inl rfl)
        (fun _ p hp => by rw [process_nil_state hp]; exact sync_initE hR hT)
        (fun h => by simp [noOpAction] at h)
    have hreset : envReset orc inst ec s0 r0 =
        .ok ({ res := res, histLen := 0, histNoOps := 0, lastNoOp := false, terminated := false, truncated := false,
               done := false, mw := { joker := ec.mw.jokerInit, noOpCnt := 0, actCnt := 0 }, rng := r', rwCnt := 0 },
             mic) := by
      simp [envReset, mwReset, hs]
    exact ⟨_, _, hreset, hsuc, hlive (classic_reset_not_doneE hR hreset)⟩
  step := by
    intro e hreach hd hsuc hjok hQ a ha hok
    have hC := hR.classic
    have hst := hR.start
    have w := hR.wf
    obtain ⟨hne, hnd⟩ := classic_offersE hR hreach hd hsuc (envReach_runningE hR hreach hd).2
    obtain ⟨hI, hS, hB, hD⟩ := envReach_liveE hR hreach hne
    have hi := envReach_inv hst hreach
    obtain ⟨poss, hposs, hsub⟩ := hi.offersFrom hne
    have hl := hi.live hne
    -- the common conclusion from a returned `env.step` whose result is the one of `classic_smStepE`
    have fin : ∀ {out : StepOut} {res' : SMResult}, envStep orc inst ec st e a = .ok out → out.env.res = res' →
        out.env.truncated = false → out.env.terminated = isDone inst res'.state →
        out.env.done = isDone inst res'.state → out.env.mw.joker = e.mw.joker → out.obsRes = res' →
        res'.success = true → (∃ t, SyncL inst S { res'.state with time := t }) →
        (isDone inst res'.state = false → SyncL inst S res'.state) →
        ∃ out, envStep orc inst ec st e a = .ok out ∧ out.env.res.success = true ∧ out.obsRes.success = true ∧
          out.env.truncated = false ∧ out.env.mw.joker = e.mw.joker ∧
          out.env.terminated = isDone inst out.env.res.state ∧ out.env.done = isDone inst out.env.res.state ∧
          (∃ t, SyncL inst S { out.env.res.state with time := t }) ∧
          (out.env.done = false → SyncL inst S out.env.res.state) := by
      intro out res' hout e1 e2 e3 e4 e5 e6 hs' hfin hlive
      subst e1
      exact ⟨out, hout, hs', by rw [e6]; exact hs', e2, e5, e3, e4, hfin, fun h => hlive (by rw [← e4]; exact h)⟩
    cases hp : e.res.possible with
    | nil => exact absurd hp hne
    | cons tr rest =>
      have htr : tr ∈ e.res.possible := by rw [hp]; simp
      rcases ha with rfl | rfl
      · -- accept: the head offer
        have hadmA : Admissible { transitions := [tr], noOp := false, tm := .jumpToEvent } :=
          ⟨fun x hx => by simp at hx; subst hx; exact hl.2 x htr, by simp⟩
        have hadmO : AdmOffer inst ec.sm e.res.state { transitions := [tr], noOp := false, tm := .jumpToEvent } :=
          Or.inr ⟨poss, hposs, tr, hsub tr htr, rfl⟩
        have hv := offers_valid w hI hS hposs tr (hsub tr htr)
        obtain ⟨s1, r1, happ⟩ :=
          env_offer_applies hst hC.tables (readyB_sound (classicStartB_facts hR.startOK).1) hreach tr htr
        have hQ1 : SyncL inst S s1 := by
          by_cases hnew : tr.new = .m .setup
          · rcases offer_cases hposs tr (hsub tr htr) with ⟨j, hj, o, _, _, rfl⟩ | ⟨pt, hpt, hin⟩
            · refine sync_start w hI hS hQ happ ?_
              intro j' hj' hid o' ho'
              exact hok.1 rfl ⟨.m o.machine, .m .setup, some j.id⟩ (by rw [hp]; simp) rfl j' hj' (by simp [hid]) o' ho'
            · obtain ⟨t, _, j, _, rfl, _⟩ := possibleTransport_facts hpt tr hin
              simp at hnew
          · exact sync_stepE w hC hI hS hB (offer_enE w hC hI hS hB hposs tr (hsub tr htr)) hnew happ hQ
        obtain ⟨res', r', mic, hs, hs', hfin, hlive, _⟩ :=
          classic_smStepE hR hT hI hS ⟨hB, hD⟩ (r := e.rng) hadmA hadmO (Or.inr ⟨tr, rfl, hv, s1, r1, happ⟩)
            (fun _ p hp' => by rw [process_single_state hv happ hp']; exact hQ1)
            (fun h => by simp at h)
        obtain ⟨out, hout, e1, e2, e3, e4, e5, _, _, e8, _⟩ :=
          envStep_accept_of_smStep (st := st) hd hR.numOps hR.norm hjok hp hs hs'
        exact fin hout e1 e2 e3 e4 e5 e8 hs' hfin hlive
      · cases rest with
        | cons o' rest' =>
          -- decline with at least two offers held: nothing is run
          have hm := mwStep_decline_many (orc := orc) (inst := inst) (cfg := ec.sm) (mc := ec.mw) (fuel := ec.fuel)
            e.res e.mw e.rng tr o' rest' hp
          obtain ⟨out, hout, e1, e2, e3, e4, e5, _, _, e8, _⟩ :=
            envStep_of_mwStep (st := st) hd hm rfl hjok hR.numOps hR.norm
          exact fin hout e1 e2 e3 e4 (by rw [e5]) e8 rfl ⟨e.res.state.time, hQ⟩ (fun _ => hQ)
        | nil =>
          -- decline of the last offer: the forced jump
          have hadmA : Admissible { transitions := [], noOp := true, tm := .forceJump } :=
            ⟨fun x hx => by simp at hx, by simp⟩
          obtain ⟨res', r', mic, hs, hs', hfin, hlive, hoff⟩ :=
            classic_smStepE hR hT hI hS ⟨hB, hD⟩ (r := e.rng) hadmA (Or.inl rfl) (Or.inl rfl)
              (fun h => by simp at h)
              (fun _ p t hp' hf => by
                rw [process_nil_state hp'] at hf ⊢
                exact sync_jumpE w hC hT hI hS hD hB.cinv hQ (hok.2 rfl (by rw [hp]; rfl)) hf)
          obtain ⟨out, hout, e1, e2, e3, e4, e5, _, _, e8, _⟩ :=
            envStep_decline_last_of_smStep (st := st) hd hR.numOps hR.norm hjok hR.trunc hp hs hs' hoff
          exact fin hout e1 e2 e3 e4 e5 e8 hs' hfin hlive
  atPre := by
    intro e hreach hne pt hpt hnil
    obtain ⟨hI, hS, hB, _⟩ := envReach_liveE hR hreach hne
    exact no_dispatch_at_pre_early hR.wf hR.classic hI hS hB.full hR.agvs (classic_busy_waits_early hR hreach hne)
      hpt hnil

/-! ## (6) no step of a classic run with early dispatch ever raises -/

/-- **no step of a classic run with early dispatch ever raises**, and the invariant of the episode
(successful result, allowance not negative) is kept: the state after the step is again reachable and –
unless the episode is over – satisfies the hypotheses of this theorem.  (The number of AGVs plays no
role here: `classic_step_returns_any`.) -/
theorem classic_step_returns_early (hR : ClassicRunEarly orc inst ec st s0) {e : EnvState} (h : EnvReach orc inst ec st s0 e)
    (hd : e.done = false) (hs : e.res.success = true) (hj : 0 ≤ e.mw.joker) (a : AgentAct) (ha : a = .accept ∨ a = .decline) :
    ∃ out, envStep orc inst ec st e a = .ok out ∧ EnvReach orc inst ec st s0 out.env ∧
      out.env.res.success = true ∧ 0 ≤ out.env.mw.joker ∧ out.env.truncated = false ∧
      out.env.done = isDone inst out.env.res.state :=
  classic_step_returns_any hR.toAny h hd hs hj a ha

theorem classic_reset_returns_early (hR : ClassicRunEarly orc inst ec st s0) (r0 : Rng) :
    ∃ e0 mic, envReset orc inst ec s0 r0 = .ok (e0, mic) ∧ e0.res.success = true ∧ e0.done = false ∧ 0 ≤ e0.mw.joker :=
  classic_reset_returns_any hR.toAny r0

end JSL
