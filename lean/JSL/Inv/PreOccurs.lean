import JSL.Inv.PrePass
import JSL.Inv.TotalEnv

/-!
# The invariants of the wider class along the executions of the environment
-/

namespace JSL

variable {orc : Oracle} {inst : Instance}

theorem pb_totP_of_start {s0 : State} (hst : Start orc inst s0) (C : TotClassP inst) (hR : Ready inst s0)
    (hO : OutShape inst s0) (h0 : outRestB s0 = true) : TotP inst s0 := by
  obtain ⟨_, hI⟩ := initOKB_sound hst.init
  exact ⟨AgvFull.of_rest hst.rest hst.placed, hR, OutageInv.of_rest hst.rest h0, hO, AgvShape.of_rest hst.rest,
    JobPlace.of_rest hI.shape C.jobsOps hst.rest⟩

theorem pb_totP_of_guards {s0 : State} (hst : Start orc inst s0) (h : totalClassPB inst s0 = true) : TotP inst s0 := by
  obtain ⟨C, _, hR, hO, h0⟩ := totalClassPB_sound h
  exact pb_totP_of_start hst C hR hO h0

theorem pb_occursF_tot {cfg : SMConfig} {s0 σ : State} (hst : Start orc inst s0) (C : TotClassP inst) (h0 : TotP inst s0)
    (h : OccursF orc inst cfg s0 σ) : TotP inst σ := by
  obtain ⟨w, _⟩ := initOKB_sound hst.init
  have nn := nonnegB_sound hst.samples hst.nonneg
  induction h with
  | init => exact h0
  | result hprev ha hc hstep hnd ih =>
    obtain ⟨_, hI, hS⟩ := occursA_inv hst hprev.toC.toA
    exact ((TotPassP orc inst cfg w nn C).smStep w nn hI hS ih ha hc hstep).2.2.2 hnd
  | sub hprev ha hc hstep hσ ih =>
    obtain ⟨_, hI, hS⟩ := occursA_inv hst hprev.toC.toA
    exact ((TotPassP orc inst cfg w nn C).smStep w nn hI hS ih ha hc hstep).2.1 _ hσ
  | micro hprev ha hc hstep hσ ih =>
    obtain ⟨_, hI, hS⟩ := occursA_inv hst hprev.toC.toA
    exact ((TotPassP orc inst cfg w nn C).smStep w nn hI hS ih ha hc hstep).1 _ hσ

end JSL
