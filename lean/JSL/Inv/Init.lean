import JSL.Inv.StructStep
import JSL.Model.Check

/-!
# Soundness of the decidable guards, membership form of conservation, reachability
-/

namespace JSL

variable {orc : Oracle} {inst : Instance}

theorem wfB_sound (h : wfB inst = true) : WF inst := by
  simp only [wfB, nodupB, Bool.and_eq_true, decide_eq_true_eq, List.all_eq_true, List.any_eq_true,
    beq_iff_eq] at h
  obtain ⟨⟨⟨⟨h1, h2⟩, h3⟩, h4⟩, h5⟩ := h
  exact {
    jobsNodup := h1, machNodup := h2, trNodup := h3, bufNodup := h4
    opJob := fun j hj o ho => ((h5 j hj).1.1 o ho)
    opIdxNodup := fun j hj => (h5 j hj).1.2
    opMachine := fun j hj o ho => by
      obtain ⟨m, hm, e⟩ := (h5 j hj).2 o ho
      exact ⟨m, hm, e⟩ }

theorem shapeB_sound {s : State} (h : shapeB inst s = true) : Shape inst s := by
  simp only [shapeB, Bool.and_eq_true, decide_eq_true_eq] at h
  obtain ⟨⟨⟨h1, h2⟩, h3⟩, h4⟩ := h
  exact { jobs := h1, machines := h2, transports := h3, buffers := h4 }

theorem storeAt_mem {s : State} {i x : Nat} (h : x ∈ storeAt s i) :
    ∃ b ∈ allBufStates s, b.id = i ∧ storeAt s i = b.store := by
  unfold storeAt at h ⊢
  cases hf : (allBufStates s).find? (fun b => b.id == i) with
  | none => simp [hf] at h
  | some b =>
    have h1 := List.mem_of_find?_eq_some hf
    have h2 := List.find?_some hf
    exact ⟨b, h1, by simpa using h2, rfl⟩

/-- membership form → view form -/
theorem Conserved.toV {s : State} (hs : Shape inst s) (w : WF inst) (c : Conserved s) : ConservedV s where
  stored i x hx := by
    obtain ⟨b, hb, hbi, e⟩ := storeAt_mem hx
    rw [e] at hx
    obtain ⟨j, hj, hjid, hjl⟩ := c.stored b hb x hx
    exact List.mem_map.mpr ⟨j, hj, by simp [hjid, hjl, hbi]⟩
  located p hp := by
    obtain ⟨j, hj, rfl⟩ := List.mem_map.mp hp
    obtain ⟨b, hb, hbi, hin⟩ := c.located j hj
    simp only
    rw [← hbi, storeAt_of_mem (hs.bufNodup w) hb]; exact hin
  nodup i := by
    by_cases h : ∃ x, x ∈ storeAt s i
    · obtain ⟨x, hx⟩ := h
      obtain ⟨b, hb, _, e⟩ := storeAt_mem hx
      rw [e]; exact c.nodup b hb
    · have : storeAt s i = [] := by
        cases hl : storeAt s i with
        | nil => rfl
        | cons a as => exact absurd ⟨a, by rw [hl]; simp⟩ h
      rw [this]; exact List.nodup_nil

/-- view form → membership form -/
theorem ConservedV.toM {s : State} (hs : Shape inst s) (w : WF inst) (c : ConservedV s) : Conserved s where
  stored b hb x hx := by
    have := c.stored b.id x (by rw [storeAt_of_mem (hs.bufNodup w) hb]; exact hx)
    obtain ⟨j, hj, e⟩ := List.mem_map.mp this
    simp only [Prod.mk.injEq] at e
    exact ⟨j, hj, e.1, e.2⟩
  located j hj := by
    have := c.located (j.id, j.loc) (List.mem_map.mpr ⟨j, hj, rfl⟩)
    obtain ⟨b, hb, hbi, e⟩ := storeAt_mem this
    exact ⟨b, hb, hbi, by rw [← e]; exact this⟩
  nodup b hb := by
    have := c.nodup b.id
    rwa [storeAt_of_mem (hs.bufNodup w) hb] at this

theorem conservedB_sound {s : State} (h : conservedB s = true) : Conserved s := by
  simp only [conservedB, nodupB, Bool.and_eq_true, List.all_eq_true, List.any_eq_true, decide_eq_true_eq,
    beq_iff_eq, List.contains_iff_mem] at h
  exact {
    stored := fun b hb x hx => by
      obtain ⟨j, hj, e1, e2⟩ := (h.1 b hb).2 x hx
      exact ⟨j, hj, e1, e2⟩
    located := fun j hj => by
      obtain ⟨b, hb, e1, e2⟩ := h.2 j hj
      exact ⟨b, hb, e1, e2⟩
    nodup := fun b hb => (h.1 b hb).1 }

theorem capB_sound {s : State} (hs : Shape inst s) (w : WF inst) (h : capB inst s = true) : CapV inst s := by
  simp only [capB, List.all_eq_true, Bool.or_eq_true, bne_iff_ne, ne_eq, decide_eq_true_eq] at h
  intro c hc
  by_cases hex : ∃ b ∈ allBufStates s, b.id = c.id
  · obtain ⟨b, hb, hbi⟩ := hex
    rw [← hbi, storeAt_of_mem (hs.bufNodup w) hb]
    rcases h b hb c hc with h1 | h1
    · exact absurd hbi.symm h1
    · exact h1
  · -- cannot happen (ids coincide), but the bound is trivial anyway: no such buffer, empty store
    have : storeAt s c.id = [] := storeAt_of_not_mem (fun b hb hbi => hex ⟨b, hb, hbi⟩)
    have hmem : c.id ∈ (allBufStates s).map (·.id) := by
      rw [hs.bufIds]; exact List.mem_map.mpr ⟨c, hc, rfl⟩
    obtain ⟨b, hb, hbi⟩ := List.mem_map.mp hmem
    exact absurd ⟨b, hb, hbi⟩ hex

/-- the decidable guard implies the structural invariants of the initial state -/
theorem initOKB_sound {s : State} (h : initOKB inst s = true) : WF inst ∧ StructInv inst s := by
  simp only [initOKB, Bool.and_eq_true] at h
  obtain ⟨⟨⟨h1, h2⟩, h3⟩, h4⟩ := h
  have w := wfB_sound h1
  have hs := shapeB_sound h2
  exact ⟨w, hs, (conservedB_sound h3).toV hs w, capB_sound hs w h4⟩

/-- States that occur in any execution: the initial state, the state returned by any core step
from such a state (whatever the action), every intermediate sub-state and the post-state of
every transition applied inside such a step. -/
inductive Occurs (orc : Oracle) (inst : Instance) (cfg : SMConfig) (s0 : State) : State → Prop
  | init : Occurs orc inst cfg s0 s0
  | result {s res r a r' mic fuel} : Occurs orc inst cfg s0 s →
      smStep orc inst cfg fuel s r a = .ok (res, r', mic) → Occurs orc inst cfg s0 res.state
  | sub {s res r a r' mic fuel σ} : Occurs orc inst cfg s0 s →
      smStep orc inst cfg fuel s r a = .ok (res, r', mic) → σ ∈ res.subStates → Occurs orc inst cfg s0 σ
  | micro {s res r a r' mic fuel σ} : Occurs orc inst cfg s0 s →
      smStep orc inst cfg fuel s r a = .ok (res, r', mic) → σ ∈ mic → Occurs orc inst cfg s0 σ

theorem occurs_struct {cfg : SMConfig} {s0 σ : State} (w : WF inst) (h0 : StructInv inst s0)
    (h : Occurs orc inst cfg s0 σ) : StructInv inst σ := by
  induction h with
  | init => exact h0
  | result _ hstep ih => exact (smStep_struct w ih hstep).1
  | sub _ hstep hσ ih => exact (smStep_struct w ih hstep).2.1 _ hσ
  | micro _ hstep hσ ih => exact (smStep_struct w ih hstep).2.2 _ hσ

end JSL
