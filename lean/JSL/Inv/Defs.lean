import JSL.Lib.Lists

/-!
# Well-formedness, shape and the structural invariants

* `WF inst`   – what the compiler guarantees about an instance (checked per generated instance by
                the driver and discharged for compiled instances in C17)
* `Shape`     – the state has the components of the instance, in order, with the same ids
* `Conserved` – every job is stored in exactly one buffer, the one its location names (C03)
* `CapOK`     – no buffer holds more jobs than its capacity (C08)
-/

namespace JSL

def mKey (m : MachineState) : Nat × Nat × Nat × Nat := (m.id, m.pre.id, m.buffer.id, m.post.id)
def mcKey (m : MachineCfg) : Nat × Nat × Nat × Nat := (m.id, m.pre.id, m.buf.id, m.post.id)
def tKey (t : TransportState) : Nat × Nat := (t.id, t.buffer.id)
def tcKey (t : TransportCfg) : Nat × Nat := (t.id, t.buf.id)
def opKey (o : OpState) : Nat × Nat × Nat := (o.job, o.idx, o.machine)
def ocKey (o : OpCfg) : Nat × Nat × Nat := (o.job, o.idx, o.machine)
def jKey (j : JobState) : Nat × List (Nat × Nat × Nat) := (j.id, j.ops.map opKey)
def jcKey (j : JobCfg) : Nat × List (Nat × Nat × Nat) := (j.id, j.ops.map ocKey)

structure WF (inst : Instance) : Prop where
  jobsNodup : (inst.jobs.map (·.id)).Nodup
  machNodup : (inst.machines.map (·.id)).Nodup
  trNodup : (inst.transports.map (·.id)).Nodup
  bufNodup : ((allBufCfgs inst).map (·.id)).Nodup
  opJob : ∀ j ∈ inst.jobs, ∀ o ∈ j.ops, o.job = j.id
  opIdxNodup : ∀ j ∈ inst.jobs, (j.ops.map (·.idx)).Nodup
  opMachine : ∀ j ∈ inst.jobs, ∀ o ∈ j.ops, ∃ m ∈ inst.machines, m.id = o.machine

structure Shape (inst : Instance) (s : State) : Prop where
  jobs : s.jobs.map jKey = inst.jobs.map jcKey
  machines : s.machines.map mKey = inst.machines.map mcKey
  transports : s.transports.map tKey = inst.transports.map tcKey
  buffers : s.buffers.map (·.id) = inst.buffers.map (·.id)

structure Conserved (s : State) : Prop where
  stored : ∀ b ∈ allBufStates s, ∀ x ∈ b.store, ∃ j ∈ s.jobs, j.id = x ∧ j.loc = b.id
  located : ∀ j ∈ s.jobs, ∃ b ∈ allBufStates s, b.id = j.loc ∧ j.id ∈ b.store
  nodup : ∀ b ∈ allBufStates s, b.store.Nodup

def CapOK (inst : Instance) (s : State) : Prop :=
  ∀ b ∈ allBufStates s, ∀ c ∈ allBufCfgs inst, c.id = b.id → (b.store.length : Int) ≤ c.cap

/-! ## consequences of `Shape` -/

theorem map_fst_of_map_eq {α β γ} {f : α → γ × β} {g : α → γ} (hf : ∀ a, (f a).1 = g a) (l : List α) :
    (l.map f).map Prod.fst = l.map g := by
  simp [List.map_map, Function.comp_def, hf]

theorem Shape.jobIds {inst : Instance} {s : State} (h : Shape inst s) :
    s.jobs.map (·.id) = inst.jobs.map (·.id) := by
  have := congrArg (List.map Prod.fst) h.jobs
  simpa [List.map_map, Function.comp_def, jKey, jcKey] using this

theorem Shape.machineIds {inst : Instance} {s : State} (h : Shape inst s) :
    s.machines.map (·.id) = inst.machines.map (·.id) := by
  have := congrArg (List.map Prod.fst) h.machines
  simpa [List.map_map, Function.comp_def, mKey, mcKey] using this

theorem Shape.transportIds {inst : Instance} {s : State} (h : Shape inst s) :
    s.transports.map (·.id) = inst.transports.map (·.id) := by
  have := congrArg (List.map Prod.fst) h.transports
  simpa [List.map_map, Function.comp_def, tKey, tcKey] using this

theorem Shape.jobsNodup {inst : Instance} {s : State} (h : Shape inst s) (w : WF inst) :
    (s.jobs.map (·.id)).Nodup := h.jobIds ▸ w.jobsNodup
theorem Shape.machNodup {inst : Instance} {s : State} (h : Shape inst s) (w : WF inst) :
    (s.machines.map (·.id)).Nodup := h.machineIds ▸ w.machNodup
theorem Shape.trNodup {inst : Instance} {s : State} (h : Shape inst s) (w : WF inst) :
    (s.transports.map (·.id)).Nodup := h.transportIds ▸ w.trNodup

/-- the buffer ids of the state are those of the instance, in the same order -/
theorem Shape.bufIds {inst : Instance} {s : State} (h : Shape inst s) :
    (allBufStates s).map (·.id) = (allBufCfgs inst).map (·.id) := by
  unfold allBufStates allBufCfgs
  simp only [List.map_append, List.map_flatMap, List.map_map]
  congr 1
  · congr 1
    · exact h.buffers
    · have hm := h.machines
      have e1 : ∀ l : List MachineState, List.flatMap (fun m => List.map (·.id) [m.pre, m.buffer, m.post]) l =
          (l.map mKey).flatMap (fun k => [k.2.1, k.2.2.1, k.2.2.2]) := by
        intro l; induction l with
        | nil => rfl
        | cons a as ih => simp only [List.map_cons, List.flatMap_cons] at ih ⊢; rw [ih]; simp [mKey]
      have e2 : ∀ l : List MachineCfg, List.flatMap (fun m => List.map (·.id) [m.pre, m.buf, m.post]) l =
          (l.map mcKey).flatMap (fun k => [k.2.1, k.2.2.1, k.2.2.2]) := by
        intro l; induction l with
        | nil => rfl
        | cons a as ih => simp only [List.map_cons, List.flatMap_cons] at ih ⊢; rw [ih]; simp [mcKey]
      rw [e1, e2, hm]
  · have := congrArg (List.map Prod.snd) h.transports
    simpa [List.map_map, Function.comp_def, tKey, tcKey] using this

theorem Shape.bufNodup {inst : Instance} {s : State} (h : Shape inst s) (w : WF inst) :
    ((allBufStates s).map (·.id)).Nodup := h.bufIds ▸ w.bufNodup

end JSL
