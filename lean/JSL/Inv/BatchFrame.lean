import JSL.Inv.TimeMachine

/-!
# What one applied transition leaves untouched

Used to show that the transitions of one batch (created from the state at the start of the batch
and applied one after the other) still meet their side conditions when their turn comes.
-/

namespace JSL

variable {orc : Oracle} {inst : Instance}

/-- the effect of one transition on the other machines and on the operation records -/
structure StepFrame (s s1 : State) (tr : Transition) : Prop where
  machines : ∀ m1 ∈ s1.machines, tr.comp ≠ .m m1.id →
    ∃ m ∈ s.machines, m.id = m1.id ∧ m.buffer.store = m1.buffer.store
  jobs : ∀ j1 ∈ s1.jobs, ∃ j ∈ s.jobs, j.id = j1.id ∧
    (j.ops = j1.ops ∨ (tr.new = .m .setup ∧ tr.job = some j.id) ∨ (∃ o ∈ j.ops, o.st = .processing))

theorem frame_job_machine (w : WF inst) {s : State} (hI : StructInv inst s) {j j' : JobState} {m m' : MachineState}
    {tr : Transition} {mid : Nat} (hc : tr.comp = .m mid) (hj : j ∈ s.jobs) (hm : m ∈ s.machines)
    (hjid : j'.id = j.id) (hmid : m'.id = m.id) (hmm : m.id = mid)
    (hwhy : (tr.new = .m .setup ∧ tr.job = some j.id) ∨ (∃ o ∈ j.ops, o.st = .processing))
    {s1 : State} (hs1 : s1 = (s.replaceJob j').replaceMachine m' ∨ s1 = (s.replaceMachine m').replaceJob j') :
    StepFrame s s1 tr := by
  have hjn := hI.shape.jobsNodup w
  have hmn := hI.shape.machNodup w
  have hmemJ : ∀ x, x ∈ s1.jobs ↔ (x = j' ∨ (x ∈ s.jobs ∧ x.id ≠ j.id)) := by
    intro x
    rcases hs1 with rfl | rfl
    · rw [replaceMachine_jobs]; exact mem_replaceJob hjn hj hjid x
    · exact mem_replaceJob (s := s.replaceMachine m') hjn hj hjid x
  have hmemM : ∀ y, y ∈ s1.machines ↔ (y = m' ∨ (y ∈ s.machines ∧ y.id ≠ m.id)) := by
    intro y
    rcases hs1 with rfl | rfl
    · exact mem_replaceMachine (s := s.replaceJob j') hmn hm hmid y
    · rw [replaceJob_machines]; exact mem_replaceMachine hmn hm hmid y
  constructor
  · intro m1 hm1 hne
    rcases (hmemM m1).mp hm1 with rfl | ⟨h0, _⟩
    · exact absurd (by rw [hc, hmid, hmm]) hne
    · exact ⟨m1, h0, rfl, rfl⟩
  · intro j1 hj1
    rcases (hmemJ j1).mp hj1 with rfl | ⟨h0, _⟩
    · exact ⟨j, hj, hjid.symm, Or.inr hwhy⟩
    · exact ⟨j1, h0, rfl, Or.inl rfl⟩

theorem frame_transport_only {s : State} {t' : TransportState} {tr : Transition} :
    StepFrame s (s.replaceTransport t') tr :=
  ⟨fun m1 hm1 _ => ⟨m1, hm1, rfl, rfl⟩, fun j1 hj1 => ⟨j1, hj1, rfl, Or.inl rfl⟩⟩

/-- frames compose with a relocation of one job and the replacement of components whose internal
buffers are kept -/
theorem frame_of_same {s s1 : State} {tr : Transition}
    (hm : ∀ m1 ∈ s1.machines, ∃ m ∈ s.machines, m.id = m1.id ∧ m.buffer.store = m1.buffer.store)
    (hj : ∀ j1 ∈ s1.jobs, ∃ j ∈ s.jobs, j.id = j1.id ∧ j.ops = j1.ops) : StepFrame s s1 tr :=
  ⟨fun m1 hm1 _ => hm m1 hm1, fun j1 hj1 => by
    obtain ⟨j, hj0, e1, e2⟩ := hj j1 hj1; exact ⟨j, hj0, e1, Or.inl e2⟩⟩

theorem applyTransition_frame (w : WF inst) {s s' : State} {r r' : Rng} {tr : Transition}
    (hI : StructInv inst s) (hS : SchedInv s) (hg : Guard s tr)
    (h : applyTransition orc inst s r tr = .ok (s', r')) : StepFrame s s' tr := by
  have hs := hI.shape
  unfold applyTransition at h
  cases hc : tr.comp with
  | m mid =>
    simp only [hc] at h
    obtain ⟨m0, hm0, h⟩ := except_bind_eq_ok h
    unfold handleMachineTransition at h
    obtain ⟨m, hm, h⟩ := except_bind_eq_ok h
    rw [hm0] at hm; simp at hm; subst hm
    have hmem := getMachine_ok hm0
    obtain ⟨hd, hh, h⟩ := except_bind_eq_ok h
    unfold machineHandlerOf at hh
    cases hn : tr.new with
    | t ns => simp [hn] at hh
    | m ns =>
      simp only [hn] at hh
      cases hmh : machineHandler m0.st ns with
      | none => simp [hmh] at hh
      | some hd' =>
        simp [hmh] at hh; subst hh
        cases hd' with
        | idleToSetup =>
          have hst := machineHandler_idleToSetup hmh
          obtain ⟨j, op, oc, mc, sd, b1, b2, hj, htj, _, _, _, _, _, _, _, _, _, rfl⟩ := idleToSetup_spec h
          exact frame_job_machine w hI hc hj hmem.1 (by simp) (by simp [MachineState.toSetup]) hmem.2
            (Or.inl ⟨by rw [hn, hst.2], htj⟩) (Or.inl rfl)
        | setupToWorking =>
          have hst := machineHandler_setupToWorking hmh
          obtain ⟨j, op, oc, d, hj, htj, hjin, _, _, _, _, _, rfl⟩ := setupToWorking_spec h
          obtain ⟨_, op0, hp0, _⟩ := busy_job hI hS w hmem.1 (by rw [hst.1]; simp) hj hjin
          obtain ⟨_, _, hl, _, hpst⟩ := processing?_split' hp0
          exact frame_job_machine w hI hc hj hmem.1 (by simp) (by simp [MachineState.toWorking]) hmem.2
            (Or.inr ⟨op0, by rw [hl]; simp, hpst⟩) (Or.inl rfl)
        | workingToOutage =>
          obtain ⟨mc, outs, j, op, _, _, _, hj, _, hp, rfl⟩ := workingToOutage_spec h
          obtain ⟨_, _, hl, _, hpst⟩ := processing?_split' hp
          exact frame_job_machine w hI hc hj hmem.1 (by simp) (by simp [MachineState.toOutage]) hmem.2
            (Or.inr ⟨op, by rw [hl]; simp, hpst⟩) (Or.inr rfl)
        | outageToIdle =>
          obtain ⟨j, op, mc, rest, b1, b2, _, hj, hp, _, _, _, _, rfl⟩ := outageToIdle_spec h
          obtain ⟨_, _, hl, _, hpst⟩ := processing?_split' hp
          exact frame_job_machine w hI hc hj hmem.1 (by simp) (by simp [MachineState.toIdle]) hmem.2
            (Or.inr ⟨op, by rw [hl]; simp, hpst⟩) (Or.inl rfl)
  | t tid =>
    simp only [hc] at h
    obtain ⟨t0, ht0, h⟩ := except_bind_eq_ok h
    unfold handleTransportTransition at h
    obtain ⟨t, ht, h⟩ := except_bind_eq_ok h
    rw [ht0] at ht; simp at ht; subst ht
    have hmem := (getTransport_ok ht0).1
    obtain ⟨tc, _, h⟩ := except_bind_eq_ok h
    split at h
    · simp at h
    · obtain ⟨hd, hh, h⟩ := except_bind_eq_ok h
      unfold agvHandlerOf at hh
      cases hn : tr.new with
      | m ns => simp [hn] at hh
      | t ns =>
        simp only [hn] at hh
        cases hah : agvHandler t0.st ns with
        | none => simp [hah] at hh
        | some hd' =>
          simp [hah] at hh; subst hh
          cases hd' with
          | idleToWorking =>
            obtain ⟨_, _, _, _, _, _, _, _, _, _, _, _, _, _, _, rfl⟩ := idleToWorking_spec h
            exact frame_transport_only
          | pickupToWaitingpickup =>
            obtain ⟨_, _, _, _, rfl⟩ := pickupToWaiting_spec h; exact frame_transport_only
          | waitingPickupToWaitingPickup =>
            obtain ⟨_, _, _, rfl⟩ := waitingToWaiting_spec h; exact frame_transport_only
          | outageToIdle =>
            obtain ⟨_, rfl⟩ := agvOutageToIdle_spec h; exact frame_transport_only
          | pickupToTransit =>
            have hns := (agvHandler_pickupToTransit hah).1
            obtain ⟨j, src, dst, tt, bss1, bss2, hj, htj, _, _, _, hcase⟩ := pickupToTransit_spec h
            have hnoproc := hg.notProcessing tid hc (by rw [hn, hns]) j hj htj
            rcases hcase with ⟨fb, _, _, hfb, _, _, rfl⟩ | ⟨mid, ms, bs, ms', _, _, hms, _, hbs, hin, hms', rfl⟩
            · apply frame_of_same
              · intro m1 hm1; exact ⟨m1, hm1, rfl, rfl⟩
              · intro j1 hj1
                exact (jobs_frame_at (s := s.replaceBuffer (fb.without j.id bss1)) (hs.jobsNodup w) hj t0.buffer.id).1 j1 hj1
            · obtain ⟨hbid, hbwhich⟩ := bufOfMachine_ok hbs
              have hne3 := machine_buf_ids_ne hs w hms
              have hnotint : bs ≠ ms.buffer := by
                intro e; subst e
                have hbusy : ms.st ≠ .idle := by
                  intro hi
                  have := hS.idleEmpty ms hms hi
                  rw [this] at hin; simp at hin
                obtain ⟨_, op, hp, _⟩ := busy_job hI hS w hms hbusy hj hin
                obtain ⟨_, _, hl, _, hst⟩ := processing?_split' hp
                exact hnoproc op (by rw [hl]; simp) hst
              have hms'eq : ms'.id = ms.id ∧ ms'.st = ms.st ∧ ms'.occ = ms.occ ∧ ms'.buffer.store = ms.buffer.store := by
                unfold replaceBufInMachine at hms'
                rcases hbwhich with rfl | rfl | rfl
                · simp at hms'; subst hms'; simp
                · exact absurd rfl hnotint
                · simp [hne3.2.1.symm, hne3.2.2.symm] at hms'; subst hms'; simp
              apply frame_of_same
              · intro m1 hm1
                obtain ⟨y, hy, e1, _, _, e4⟩ := (machines_frame (hs.machNodup w) hms hms'eq.1 hms'eq.2.1 hms'eq.2.2.1
                  hms'eq.2.2.2).1 m1 hm1
                exact ⟨y, hy, e1, e4⟩
              · intro j1 hj1
                exact (jobs_frame_at (s := s.replaceMachine ms') (hs.jobsNodup w) hj t0.buffer.id).1 j1 hj1
          | transitToOutage =>
            obtain ⟨j, cur, pick, drop, tc, outs, bss1, bss2, hj, _, _, _, _, _, _, hcase⟩ := transitToOutage_spec h
            rcases hcase with ⟨mid, ms, _, hms, _, _, rfl⟩ | ⟨bid, b, _, hb, _, _, rfl⟩
            · apply frame_of_same
              · intro m1 hm1
                obtain ⟨y, hy, e1, _, _, e4⟩ := (machines_frame (s := (s.replaceJob (j.at ms.pre.id)).replaceTransport
                  (t0.toOutage j.id bss1 outs (s.time + occupiedFor outs) drop)) (hs.machNodup w) hms
                  (m' := ms.withPre j.id bss2) rfl rfl rfl rfl).1 m1 hm1
                exact ⟨y, hy, e1, e4⟩
              · intro j1 hj1
                exact (jobs_frame_at (hs.jobsNodup w) hj ms.pre.id).1 j1 hj1
            · apply frame_of_same
              · intro m1 hm1; exact ⟨m1, hm1, rfl, rfl⟩
              · intro j1 hj1
                exact (jobs_frame_at (hs.jobsNodup w) hj b.id).1 j1 hj1
  | b bid =>
    simp only [hc] at h
    obtain ⟨_, _, h⟩ := except_bind_eq_ok h
    simp at h

end JSL
