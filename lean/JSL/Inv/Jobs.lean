import JSL.Inv.FrameStore

/-! Facts about the operation lists of jobs that follow from `Shape` and `WF`. -/

namespace JSL

theorem mem_of_map_eq {α β γ} {f : α → γ} {g : β → γ} {l : List α} {l' : List β} (h : l.map f = l'.map g)
    {a : α} (ha : a ∈ l) : ∃ b ∈ l', f a = g b := by
  have : f a ∈ l.map f := List.mem_map.mpr ⟨a, ha, rfl⟩
  rw [h] at this
  obtain ⟨b, hb, e⟩ := List.mem_map.mp this
  exact ⟨b, hb, e.symm⟩

theorem Shape.job_cfg {inst : Instance} {s : State} (hs : Shape inst s) {j : JobState} (hj : j ∈ s.jobs) :
    ∃ jc ∈ inst.jobs, jKey j = jcKey jc := mem_of_map_eq hs.jobs hj

theorem Shape.machine_cfg {inst : Instance} {s : State} (hs : Shape inst s) {m : MachineState}
    (hm : m ∈ s.machines) : ∃ mc ∈ inst.machines, mKey m = mcKey mc := mem_of_map_eq hs.machines hm

theorem Shape.transport_cfg {inst : Instance} {s : State} (hs : Shape inst s) {t : TransportState}
    (ht : t ∈ s.transports) : ∃ tc ∈ inst.transports, tKey t = tcKey tc := mem_of_map_eq hs.transports ht

theorem Shape.ops_job {inst : Instance} {s : State} (hs : Shape inst s) (w : WF inst) {j : JobState}
    (hj : j ∈ s.jobs) {x : OpState} (hx : x ∈ j.ops) : x.job = j.id := by
  obtain ⟨jc, hjc, hk⟩ := hs.job_cfg hj
  simp only [jKey, jcKey, Prod.mk.injEq] at hk
  obtain ⟨oc, hoc, e⟩ := mem_of_map_eq hk.2 hx
  simp only [opKey, ocKey, Prod.mk.injEq] at e
  rw [e.1, w.opJob jc hjc oc hoc, hk.1]

theorem Shape.ops_idx_nodup {inst : Instance} {s : State} (hs : Shape inst s) (w : WF inst) {j : JobState}
    (hj : j ∈ s.jobs) : (j.ops.map (·.idx)).Nodup := by
  obtain ⟨jc, hjc, hk⟩ := hs.job_cfg hj
  simp only [jKey, jcKey, Prod.mk.injEq] at hk
  have := congrArg (List.map (fun k : Nat × Nat × Nat => k.2.1)) hk.2
  simp only [List.map_map, Function.comp_def, opKey, ocKey] at this
  rw [this]; exact w.opIdxNodup jc hjc

/-- replacing an operation record by one with the same key keeps the job's key -/
theorem replaceOp_jKey {inst : Instance} {s : State} (hs : Shape inst s) (w : WF inst) {j : JobState}
    (hj : j ∈ s.jobs) {op op' : OpState} (hop : op ∈ j.ops) (hk : opKey op' = opKey op) (l : Nat) :
    jKey { (j.replaceOp op') with loc := l } = jKey j := by
  simp only [jKey, JobState.replaceOp, Prod.mk.injEq, true_and, List.map_map]
  apply List.map_congr_left
  intro x hx
  simp only [Function.comp_def]
  by_cases h : (x.job == op'.job && x.idx == op'.idx) = true
  · simp only [h, if_true]
    simp only [opKey, Prod.mk.injEq] at hk
    simp only [Bool.and_eq_true, beq_iff_eq] at h
    have : x = op := eq_of_mem_of_key_eq (key := fun (y : OpState) => y.idx) (hs.ops_idx_nodup w hj) hx hop
      (by rw [h.2, hk.2.1])
    subst this
    simp [opKey, hk]
  · simp [h]

theorem mem_replaceOp {j : JobState} {o x : OpState} :
    x ∈ (j.replaceOp o).ops ↔ (x = o ∧ ∃ y ∈ j.ops, y.job = o.job ∧ y.idx = o.idx) ∨
      (x ∈ j.ops ∧ ¬(x.job = o.job ∧ x.idx = o.idx)) := by
  simp only [JobState.replaceOp, List.mem_map]
  constructor
  · rintro ⟨y, hy, rfl⟩
    by_cases h : (y.job == o.job && y.idx == o.idx) = true
    · rw [if_pos h]
      simp only [Bool.and_eq_true, beq_iff_eq] at h
      exact Or.inl ⟨rfl, y, hy, h⟩
    · rw [if_neg h]
      simp only [Bool.and_eq_true, beq_iff_eq] at h
      exact Or.inr ⟨hy, h⟩
  · rintro (⟨rfl, y, hy, h⟩ | ⟨hx, h⟩)
    · exact ⟨y, hy, by simp [h]⟩
    · exact ⟨x, hx, by simp [h]⟩

theorem find?_mem_ops {j : JobState} {p : OpState → Bool} {op : OpState} (h : j.ops.find? p = some op) :
    op ∈ j.ops ∧ p op = true := ⟨List.mem_of_find?_eq_some h, List.find?_some h⟩

end JSL
