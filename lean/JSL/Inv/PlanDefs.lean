import JSL.Model.LowerBound

/-! Feasible schedules as data: every operation with its machine, duration and start -/

namespace JSL

/-- one scheduled operation: machine, duration, start -/
abbrev POp := Nat × Int × Int
abbrev PJob := List POp
abbrev Plan := List PJob

def POp.mach (x : POp) : Nat := x.1
def POp.dur (x : POp) : Int := x.2.1
def POp.start (x : POp) : Int := x.2.2
def POp.stop (x : POp) : Int := x.2.2 + x.2.1

def PJob.proj (j : PJob) : List (Nat × Int) := j.map fun x => (x.1, x.2.1)
def Plan.proj (p : Plan) : Sched := p.map PJob.proj

/-- the operations of one job run in order, none before `t` -/
def ChainOK : Int → PJob → Prop
  | _, [] => True
  | t, x :: rest => t ≤ x.start ∧ ChainOK x.stop rest

def disjointOps (x y : POp) : Prop := x.stop ≤ y.start ∨ y.stop ≤ x.start

/-- a feasible schedule with makespan at most `C` -/
structure FeasiblePlan (p : Plan) (C : Int) : Prop where
  chain : ∀ j ∈ p, ChainOK 0 j
  excl : (p.flatMap id).Pairwise (fun x y => x.mach = y.mach → disjointOps x y)
  bound : ∀ j ∈ p, ∀ x ∈ j, x.stop ≤ C


end JSL
