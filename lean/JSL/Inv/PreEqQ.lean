import JSL.Inv.PreEq
import JSL.Inv.TotalStep
import JSL.Inv.DiscGuard

/-!
# The queries agree on `inst` and `preFlex inst` in a state with the structural invariants

`readyForPickup` reads the type of the buffer the job lies in; for a pre-buffer the answer is `False`
whatever the type (a pre-buffer is no pickup buffer, and the job is found in the buffer its location names).
Hence the offers, the number of possible events and the time machines agree.
-/

namespace JSL

variable {orc : Oracle} {inst : Instance}

theorem pb_pickupBufferKind (i : Nat) : pickupBufferKind (preFlex inst) i = pickupBufferKind inst i := by
  unfold pickupBufferKind
  rw [preFlex_machines, List.map_map]
  rfl

theorem pb_readyForPickup (w : WF inst) {s : State} (hI : StructInv inst s) {j : JobState} (hj : j ∈ s.jobs) :
    readyForPickup (preFlex inst) s j = readyForPickup inst s j := by
  have hs := hI.shape
  have hst : j.id ∈ storeAt s j.loc := hI.cons.located (j.id, j.loc) (List.mem_map.mpr ⟨j, hj, rfl⟩)
  obtain ⟨b, hb, hbid, hbs⟩ := storeAt_mem hst
  have hin : j.id ∈ b.store := by rw [← hbs]; exact hst
  have hgs := getBufState_of_mem w hs hb
  rw [hbid] at hgs
  unfold readyForPickup
  simp only [hgs, except_bind_ok]
  rcases pb_getBufCfg_rel (inst := inst) j.loc with ⟨e, h1, h2⟩ | ⟨c, c', h1, h2, hr⟩
  · simp only [h1, h2, except_bind_error]
  · simp only [h1, h2, except_bind_ok, pb_pickupBufferKind]
    cases hidx : b.store.idxOf? j.id with
    | none => exact absurd hin (List.idxOf?_eq_none_iff.mp hidx)
    | some q =>
      simp only []
      rcases hr with rfl | ⟨rfl, mc, hmc, rfl⟩
      · rfl
      · obtain ⟨m, hm, hk⟩ := mem_of_map_eq hs.machines.symm hmc
        simp only [mKey, mcKey, Prod.mk.injEq] at hk
        have hid : b.id = m.pre.id := by rw [hbid, ← (getBufCfg_ok h1).2, hk.2.1]
        have hk' : pickupBufferKind inst b.id = false := by
          rw [hid]
          exact Bool.eq_false_iff.mpr (not_kind_machine w hs hm).1
        simp only [hk', Bool.false_and]

theorem pb_filterE_congr {α} {p q : α → Except Err Bool} : ∀ {l : List α}, (∀ a ∈ l, p a = q a) → filterE p l = filterE q l
  | [], _ => rfl
  | a :: as, h => by
    simp only [filterE]
    rw [h a (by simp), pb_filterE_congr (l := as) (fun x hx => h x (by simp [hx]))]

theorem pb_bind_congr_ok {α β} {x : Except Err α} {f g : α → Except Err β} (h : ∀ a, x = .ok a → f a = g a) :
    (x >>= f) = (x >>= g) := by
  cases x with
  | error e => rfl
  | ok a => exact h a rfl

theorem pb_earlyFilter (w : WF inst) {s : State} (hI : StructInv inst s) (cfg : SMConfig) {l : List JobState}
    (hl : ∀ j ∈ l, j ∈ s.jobs) : earlyFilter (preFlex inst) cfg s l = earlyFilter inst cfg s l := by
  unfold earlyFilter
  split
  · rfl
  · exact pb_filterE_congr (fun j hj => pb_readyForPickup w hI (hl j hj))

theorem pb_possibleTransportTransitions (w : WF inst) {s : State} (hI : StructInv inst s) (cfg : SMConfig) :
    possibleTransportTransitions (preFlex inst) cfg s = possibleTransportTransitions inst cfg s := by
  unfold possibleTransportTransitions
  have e1 : possibleTransports (preFlex inst) s = possibleTransports inst s := rfl
  have e2 : transportable (preFlex inst) s = transportable inst s := rfl
  rw [e1, e2]
  refine pb_bind_congr (fun ts => ?_)
  refine pb_bind_congr_ok (fun idle hidle => ?_)
  simp only []
  rw [pb_earlyFilter w hI cfg]
  intro j hj
  have hj' := (List.mem_filter.mp hj).1
  rcases List.mem_append.mp hj' with h | h
  · exact (List.mem_filter.mp h).1
  · exact (List.mem_filter.mp (filterE_ok hidle j h).1).1

theorem pb_possibleTransitions (w : WF inst) {s : State} (hI : StructInv inst s) (cfg : SMConfig) :
    possibleTransitions (preFlex inst) cfg s = possibleTransitions inst cfg s := by
  unfold possibleTransitions
  have e1 : possibleJobs (preFlex inst) s = possibleJobs inst s := rfl
  rw [e1, pb_possibleTransportTransitions w hI cfg]

theorem pb_numPossibleEvents (w : WF inst) {s : State} (hI : StructInv inst s) (cfg : SMConfig) :
    numPossibleEvents (preFlex inst) cfg s = numPossibleEvents inst cfg s := by
  unfold numPossibleEvents
  have e1 : possibleJobs (preFlex inst) s = possibleJobs inst s := rfl
  rw [e1, pb_possibleTransportTransitions w hI cfg]

theorem pb_jumpToEvent (w : WF inst) {s : State} (hI : StructInv inst s) (cfg : SMConfig) :
    jumpToEvent (preFlex inst) cfg s = jumpToEvent inst cfg s := by
  unfold jumpToEvent
  rw [pb_numPossibleEvents w hI cfg]

theorem pb_runTimeMachine (w : WF inst) {s : State} (hI : StructInv inst s) (cfg : SMConfig) (tm : TimeMachine) :
    runTimeMachine (preFlex inst) cfg s tm = runTimeMachine inst cfg s tm := by
  cases tm with
  | jumpByOne => rfl
  | jumpToEvent => exact pb_jumpToEvent w hI cfg
  | forceJump => rfl

theorem pb_travelTimeForTransport (r : Rng) (s : State) (jid : Option Nat) :
    travelTimeForTransport orc (preFlex inst) r s jid = travelTimeForTransport orc inst r s jid := by
  unfold travelTimeForTransport
  refine pb_bind_congr (fun j => ?_)
  apply pb_bind_cfg
  intro c' c hr
  rw [hr.parent]

theorem pb_filterTeleport (r : Rng) (s : State) (poss : List Transition) :
    filterTeleport orc (preFlex inst) r s poss = filterTeleport orc inst r s poss := by
  unfold filterTeleport
  simp only [pb_travelTimeForTransport]

end JSL
