import JSL.Inv.ClassicRoom
import JSL.Inv.ClassicTotalDefs
import JSL.Inv.ClassicMachTotal
import JSL.Inv.ClassicAgvTotalA

/-!
# Classic instances: the batches the code builds are enabled

For a classic instance run with `allowEarly = false`, in a state with the structural, the schedule
and the bundled (`Bundle`: AGV + route, ready, settled) invariants:

* `dispatch_offer_en`, `offer_en` – every offer is enabled (`En`);
* `timed_enGS`, `timedOnly_enGS` – the timed batch (followed by the teleports) meets `EnGS`;
* `action_enGS` – so does what the middleware submits (nothing, or one offer);
* `timed_noStart`, `tele_noStart` – neither batch contains a machine start.
-/

namespace JSL

variable {orc : Oracle} {inst : Instance}

/-! ## where a job lies -/

/-- the buffer a job is located in, and the job is stored there -/
theorem job_buffer_b {s : State} (hI : StructInv inst s) {j : JobState} (hj : j ∈ s.jobs) :
    ∃ b ∈ allBufStates s, b.id = j.loc ∧ j.id ∈ b.store := by
  have hst : j.id ∈ storeAt s j.loc := hI.cons.located (j.id, j.loc) (List.mem_map.mpr ⟨j, hj, rfl⟩)
  obtain ⟨b, hb, hbid, hbs⟩ := storeAt_mem hst
  exact ⟨b, hb, hbid, by rw [← hbs]; exact hst⟩

/-- a pickup place is a buffer AGVs pick up from -/
theorem kind_of_pickupPlace {l : Nat} (hl : l ∈ pickupPlaces inst) : pickupBufferKind inst l = true := by
  unfold pickupPlaces at hl
  unfold pickupBufferKind
  simp only [Bool.or_eq_true, List.contains_iff_mem]
  rcases List.mem_append.mp hl with h | h
  · left
    obtain ⟨bc, hbc, e⟩ := List.mem_map.mp h
    exact List.mem_map.mpr ⟨bc, (List.mem_filter.mp hbc).1, e⟩
  · exact Or.inr h

/-- in a classic instance (all buffers FLEX) a job lying at a pickup place is ready for pickup -/
theorem ready_of_pickupPlace (w : WF inst) (hC : Classic inst) {s : State} (hI : StructInv inst s)
    {j : JobState} (hj : j ∈ s.jobs) (hloc : j.loc ∈ pickupPlaces inst) : readyForPickup inst s j = .ok true := by
  obtain ⟨b, hb, hbid, hin⟩ := job_buffer_b hI hj
  exact readyForPickup_flex w hC.flex hI.shape hb hbid.symm hin (by rw [hbid]; exact kind_of_pickupPlace hloc)

/-- the kind check inside a positive readiness answer -/
theorem kind_of_ready {s : State} {j : JobState} (h : readyForPickup inst s j = .ok true) :
    pickupBufferKind inst j.loc = true := by
  unfold readyForPickup at h
  obtain ⟨bs, hbs, h⟩ := except_bind_eq_ok h
  obtain ⟨bc, _, h⟩ := except_bind_eq_ok h
  have hbs' := getBufState_ok hbs
  rw [← hbs'.2]
  cases hidx : bs.store.idxOf? j.id with
  | some p => simp [hidx] at h; exact h.1
  | none =>
    simp only [hidx] at h
    split at h
    · simp at h
    · cases hpn : posNone bc.type with
      | none => simp [hpn] at h
      | some r => simp [hpn] at h; exact h.1

/-! ## offers -/

set_option linter.unusedVariables false in
/-- a dispatch on offer is enabled -/
theorem dispatch_offer_en (w : WF inst) (hC : Classic inst) {cfg : SMConfig} (he : cfg.allowEarly = false) {s : State}
    (hI : StructInv inst s) (hS : SchedInv s) (hB : Bundle inst s) {pt : List Transition}
    (hpt : possibleTransportTransitions inst cfg s = .ok pt) : ∀ tr ∈ pt, En inst s tr := by
  intro tr htr
  have hs := hI.shape
  obtain ⟨t, ht, j, hj, rfl, hst, hfree, hrdy⟩ := possibleTransport_facts hpt tr htr
  obtain ⟨t2, _, tc, j2, hj2, e, _, _, _, _, hkind⟩ := dispatch_offer_facts hpt _ htr
  have hid : j2.id = j.id := by
    have := congrArg Transition.job e
    simpa using this.symm
  have : j2 = j := eq_of_mem_of_key_eq (key := fun (y : JobState) => y.id) (hs.jobsNodup w) hj2 hj hid
  subst this
  have hk := kind_of_ready (hrdy he)
  refine En.dispatch t j2 ht hst hj ?_ hfree
  unfold pickupBufferKind at hk
  simp only [Bool.or_eq_true, List.contains_iff_mem] at hk
  unfold pickupPlaces
  rcases hk with hk | hk
  · obtain ⟨bc, hbc, hbid⟩ := List.mem_map.mp hk
    apply List.mem_append.mpr; left
    refine List.mem_map.mpr ⟨bc, List.mem_filter.mpr ⟨hbc, ?_⟩, hbid⟩
    cases hrole : (bc.role == BufRole.output) with
    | false => simp [bne, hrole]
    | true =>
      exfalso
      apply not_offered_in_output hB.full.route hj ?_ hkind
      rw [← hbid]
      unfold outputIds outputBuffers
      exact List.mem_map.mpr ⟨bc, List.mem_filter.mpr ⟨hbc, hrole⟩, rfl⟩
  · exact List.mem_append.mpr (Or.inr hk)

/-- so is every offer -/
theorem offer_en (w : WF inst) (hC : Classic inst) {cfg : SMConfig} (he : cfg.allowEarly = false) {s : State}
    (hI : StructInv inst s) (hS : SchedInv s) (hB : Bundle inst s) {poss : List Transition}
    (hp : possibleTransitions inst cfg s = .ok poss) : ∀ tr ∈ poss, En inst s tr := by
  intro tr htr
  rcases offer_cases hp tr htr with ⟨j, _, o, _, _, rfl⟩ | ⟨pt, hpt, hin⟩
  · exact En.start _ rfl
  · exact dispatch_offer_en w hC he hI hS hB hpt tr hin

/-! ## the timed batch, component by component -/

/-- the results of a `mapM` over a list whose members produce pairwise related values are pairwise related -/
theorem mapM_filterMap_pairwise {α β} {f : α → Except Err (Option β)} {R : β → β → Prop} :
    ∀ (l : List α) (r : List (Option β)), l.mapM f = .ok r →
      l.Pairwise (fun x y => ∀ a b, f x = .ok (some a) → f y = .ok (some b) → R a b) →
      (r.filterMap id).Pairwise R
  | [], r, h, _ => by simp [List.mapM_nil] at h; subst h; simp
  | x :: xs, r, h, hp => by
    rw [List.mapM_cons] at h
    obtain ⟨y, hy, h⟩ := except_bind_eq_ok h
    obtain ⟨ys, hys, h⟩ := except_bind_eq_ok h
    simp at h; subst h
    obtain ⟨hx, hp'⟩ := List.pairwise_cons.mp hp
    have ih := mapM_filterMap_pairwise xs ys hys hp'
    cases y with
    | none => simpa [List.filterMap_cons] using ih
    | some a =>
      simp only [List.filterMap_cons, id]
      rw [List.pairwise_cons]
      refine ⟨?_, ih⟩
      intro b hb
      obtain ⟨ob, hob, e⟩ := List.mem_filterMap.mp hb
      simp at e; subst e
      obtain ⟨x', hx', e'⟩ := (mapM_ok_mem hys).2 _ hob
      exact hx x' hx' a b hy e'

/-- what is known about a member of the timed batch of a classic instance -/
structure TimedEn (inst : Instance) (s : State) (tr : Transition) : Prop where
  en : En inst s tr
  noDispatch : tr.new ≠ .t .working
  noStart : tr.new ≠ .m .setup
  comp : (∃ mid, tr.comp = .m mid) ∨ ∃ t ∈ s.transports, tr.comp = .t t.id ∧ t.st ≠ .idle

theorem preFlex_of_classic (hC : Classic inst) : PreFlex inst :=
  fun _ hmc => hC.flex _ (mem_allBufCfgs_of_machine hmc).1

/-- the timed transition of a machine: SETUP → WORKING, WORKING → OUTAGE or OUTAGE → IDLE with the job it holds -/
theorem timedMachine_en (w : WF inst) (hC : Classic inst) {s : State} (hI : StructInv inst s) (hS : SchedInv s)
    {m : MachineState} (hm : m ∈ s.machines) {tr : Transition} (h : timedMachine inst s.time m = .ok (some tr)) :
    TimedEn inst s tr ∧ tr.comp = .m m.id := by
  have hs := hI.shape
  have hns := timedMachine_no_setup w hs (preFlex_of_classic hC) hm h
  obtain ⟨⟨m', hm', hc, hcase⟩, hcm⟩ := timedMachine_spec hm h
  rcases hcase with ⟨ns, hnext, hnew, hjob⟩ | ⟨_, hnew, _⟩
  · have hbusy : m'.st ≠ .idle := by
      intro e; rw [e] at hnext; simp [machineTimedNext] at hnext
    obtain ⟨j, hj, hst, _⟩ := hS.busyHolds m' hm' hbusy
    rw [hst] at hjob
    simp only [List.head?_cons] at hjob
    have : tr = ⟨.m m'.id, .m ns, some j.id⟩ := by
      cases tr; simp only at hc hnew hjob; rw [hc, hnew, hjob]
    subst this
    refine ⟨⟨?_, by simp, hns, Or.inl ⟨_, rfl⟩⟩, hcm⟩
    cases hst' : m'.st with
    | idle => exact absurd hst' hbusy
    | setup =>
      rw [hst'] at hnext; simp only [machineTimedNext, Option.some.injEq] at hnext; subst hnext
      exact En.mWork m' j.id hm' hst' hst
    | working =>
      rw [hst'] at hnext; simp only [machineTimedNext, Option.some.injEq] at hnext; subst hnext
      exact En.mOut m' j.id hm' hst' hst
    | outage =>
      rw [hst'] at hnext; simp only [machineTimedNext, Option.some.injEq] at hnext; subst hnext
      exact En.mIdle m' j.id hm' hst' hst
  · exact absurd hnew hns

/-- the timed transition of an AGV -/
theorem timedTransport_en (w : WF inst) (hC : Classic inst) {s : State} (hI : StructInv inst s)
    (hB : Bundle inst s) {t : TransportState} (ht : t ∈ s.transports) {tr : Transition}
    (h : timedTransport inst s t = .ok (some tr)) : TimedEn inst s tr ∧ tr.comp = .t t.id := by
  have hs := hI.shape
  have hjn := hs.jobsNodup w
  have claim : ∀ {jid : Nat} {j : JobState}, optE t.job .transportJob = .ok jid → getJob s.jobs jid = .ok j →
      j ∈ s.jobs ∧ t.job = some j.id := by
    intro jid j h1 h2
    have hj' := getJob_ok h2
    refine ⟨hj'.1, ?_⟩
    cases htj : t.job with
    | none => simp [htj, optE] at h1
    | some x => simp [htj, optE] at h1; rw [hj'.2, h1]
  unfold timedTransport at h
  cases hocc : t.occ with
  | none => simp [hocc] at h
  | dep b j tr' => exact absurd hocc (hB.cinv.noDep t ht b j tr')
  | «at» o =>
    simp only [hocc] at h
    split at h
    · cases hst : t.st with
      | idle => simp [hst, agvTimedCreator] at h
      | working => exact absurd hst (hB.cinv.noWorking t ht)
      | pickup =>
        simp only [hst, agvTimedCreator] at h
        unfold agvIdleToPickTransition at h
        obtain ⟨jid, hjid, h⟩ := except_bind_eq_ok h
        obtain ⟨j, hj, h⟩ := except_bind_eq_ok h
        obtain ⟨rdy, hrdy, h⟩ := except_bind_eq_ok h
        obtain ⟨hjm, htj⟩ := claim hjid hj
        rw [hst] at h
        have : tr = ⟨.t t.id, .t .waitingpickup, some j.id⟩ := by
          cases rdy <;> simp [idleToPickNext] at h <;> exact h.symm
        subst this
        exact ⟨⟨En.wait t j ht hst hjm htj, by simp, by simp, Or.inr ⟨t, ht, rfl, by simp [hst]⟩⟩, rfl⟩
      | waitingpickup =>
        simp only [hst, agvTimedCreator] at h
        unfold agvIdleToPickTransition at h
        obtain ⟨jid, hjid, h⟩ := except_bind_eq_ok h
        obtain ⟨j, hj, h⟩ := except_bind_eq_ok h
        obtain ⟨rdy, hrdy, h⟩ := except_bind_eq_ok h
        obtain ⟨hjm, htj⟩ := claim hjid hj
        obtain ⟨j', hj', htj', hloc⟩ := hB.cinv.claimed t ht (Or.inr hst)
        have : j' = j := eq_of_mem_of_key_eq (key := fun (y : JobState) => y.id) hjn hj' hjm
          (by rw [htj] at htj'; simpa using htj'.symm)
        subst this
        rw [ready_of_pickupPlace w hC hI hj' hloc] at hrdy
        injection hrdy with hrdy
        subst hrdy
        rw [hst] at h
        have : tr = ⟨.t t.id, .t .transit, some j'.id⟩ := by
          simp [idleToPickNext] at h; exact h.symm
        subst this
        exact ⟨⟨En.pick t j' ht hst hjm htj, by simp, by simp, Or.inr ⟨t, ht, rfl, by simp [hst]⟩⟩, rfl⟩
      | transit =>
        simp only [hst, agvTimedCreator] at h
        split at h
        · rename_i x hstore
          obtain ⟨js, hjs, h⟩ := except_bind_eq_ok h
          have hjs' := getJob_ok hjs
          simp at h; subst h
          exact ⟨⟨En.deliver t js ht hst hjs'.1 (by rw [hstore, hjs'.2]), by simp, by simp,
            Or.inr ⟨t, ht, rfl, by simp [hst]⟩⟩, rfl⟩
        · simp at h
      | outage =>
        simp [hst, agvTimedCreator] at h; subst h
        exact ⟨⟨En.release t ht hst, by simp, by simp, Or.inr ⟨t, ht, rfl, by simp [hst]⟩⟩, rfl⟩
    · simp at h

/-! ## the timed batch -/

/-- the timed batch of a classic instance: every member is enabled, none is a dispatch or a machine start, and
the components are pairwise different -/
theorem timed_core (w : WF inst) (hC : Classic inst) {s : State} (hI : StructInv inst s) (hS : SchedInv s)
    (hB : Bundle inst s) {tt : List Transition} (htt : timedTransitions inst s = .ok tt) :
    (∀ tr ∈ tt, TimedEn inst s tr) ∧ tt.Pairwise (fun a b => a.comp ≠ b.comp) := by
  have hs := hI.shape
  unfold timedTransitions at htt
  obtain ⟨a, ha, htt⟩ := except_bind_eq_ok htt
  obtain ⟨b, hb, htt⟩ := except_bind_eq_ok htt
  simp at htt; subst htt
  unfold timedMachineTransitions at ha
  unfold timedTransportTransitions at hb
  cases hra : s.machines.mapM (timedMachine inst s.time) with
  | error e => simp [hra] at ha
  | ok ra =>
    simp [hra] at ha; subst ha
    cases hrb : s.transports.mapM (timedTransport inst s) with
    | error e => simp [hrb] at hb
    | ok rb =>
      simp [hrb] at hb; subst hb
      have hA : ∀ tr ∈ ra.filterMap id, TimedEn inst s tr ∧ ∃ m ∈ s.machines, tr.comp = .m m.id := by
        intro tr htr
        obtain ⟨x, hx, e⟩ := List.mem_filterMap.mp htr
        simp at e; subst e
        obtain ⟨m, hm, e⟩ := (mapM_ok_mem hra).2 _ hx
        have := timedMachine_en w hC hI hS hm e
        exact ⟨this.1, m, hm, this.2⟩
      have hT : ∀ tr ∈ rb.filterMap id, TimedEn inst s tr ∧ ∃ t ∈ s.transports, tr.comp = .t t.id := by
        intro tr htr
        obtain ⟨x, hx, e⟩ := List.mem_filterMap.mp htr
        simp at e; subst e
        obtain ⟨t, ht, e⟩ := (mapM_ok_mem hrb).2 _ hx
        have := timedTransport_en w hC hI hB ht e
        exact ⟨this.1, t, ht, this.2⟩
      have hAp : (ra.filterMap id).Pairwise (fun a b => a.comp ≠ b.comp) := by
        apply mapM_filterMap_pairwise _ _ hra
        have : s.machines.Pairwise (fun x y => x.id ≠ y.id) := List.pairwise_map.mp (hs.machNodup w)
        apply this.imp_of_mem
        intro x y hx hy hne a b ha hb
        rw [(timedMachine_en w hC hI hS hx ha).2, (timedMachine_en w hC hI hS hy hb).2]
        intro e
        exact hne (by simpa using e)
      have hTp : (rb.filterMap id).Pairwise (fun a b => a.comp ≠ b.comp) := by
        apply mapM_filterMap_pairwise _ _ hrb
        have : s.transports.Pairwise (fun x y => x.id ≠ y.id) := List.pairwise_map.mp (hs.trNodup w)
        apply this.imp_of_mem
        intro x y hx hy hne a b ha hb
        rw [(timedTransport_en w hC hI hB hx ha).2, (timedTransport_en w hC hI hB hy hb).2]
        intro e
        exact hne (by simpa using e)
      constructor
      · intro tr htr
        rcases List.mem_append.mp htr with h | h
        · exact (hA tr h).1
        · exact (hT tr h).1
      · apply List.pairwise_append.mpr
        refine ⟨hAp, hTp, ?_⟩
        intro a ha b hb
        obtain ⟨_, m, _, e1⟩ := hA a ha
        obtain ⟨_, t, _, e2⟩ := hT b hb
        rw [e1, e2]; simp

/-- the conflict-removal loop leaves transitions with pairwise different components and jobs -/
theorem teleportGreedy_apart : ∀ (n : Nat) (l : List Transition),
    (teleportGreedy n l).Pairwise (fun a b => a.comp ≠ b.comp ∧ a.job ≠ b.job)
  | 0, _ => by simp [teleportGreedy]
  | n + 1, [] => by simp [teleportGreedy]
  | n + 1, t :: ts => by
    simp only [teleportGreedy]
    apply List.pairwise_cons.mpr
    refine ⟨?_, teleportGreedy_apart n _⟩
    intro b hb
    have := mem_teleportGreedy n _ b hb
    have hf := (List.mem_filter.mp this).2
    simp only [Bool.and_eq_true, bne_iff_ne, ne_eq] at hf
    exact ⟨fun e => hf.2 e.symm, fun e => hf.1 e.symm⟩

/-- the teleports: offers, pairwise apart -/
theorem tele_facts {s : State} {poss tele : List Transition} {r : Rng}
    (hte : filterTeleport orc inst r s poss = .ok tele) :
    (∀ tr ∈ tele, tr ∈ poss) ∧ tele.Pairwise (fun a b => a.comp ≠ b.comp ∧ a.job ≠ b.job) := by
  unfold filterTeleport at hte
  obtain ⟨l, hl, hte⟩ := except_bind_eq_ok hte
  simp at hte; subst hte
  exact ⟨fun tr htr => (filterE_ok hl tr (mem_teleportGreedy _ _ _ htr)).1, teleportGreedy_apart _ _⟩

theorem timed_enGS (w : WF inst) (hC : Classic inst) {cfg : SMConfig} (he : cfg.allowEarly = false) {s : State}
    (hI : StructInv inst s) (hS : SchedInv s) (hB : Bundle inst s) {tt poss tele : List Transition} {r : Rng}
    (htt : timedTransitions inst s = .ok tt) (hp : possibleTransitions inst cfg s = .ok poss)
    (hte : filterTeleport orc inst r s poss = .ok tele) : EnGS inst s (tt ++ tele) := by
  have hs := hI.shape
  obtain ⟨hen, hpw⟩ := timed_core w hC hI hS hB htt
  obtain ⟨hsub, htp⟩ := tele_facts hte
  have hnew := filterTeleport_shape hp hte
  -- a teleport addresses an idle AGV
  have hidle : ∀ tr ∈ tele, ∃ t ∈ s.transports, tr.comp = .t t.id ∧ t.st = .idle := by
    intro tr htr
    rcases offer_cases hp tr (hsub tr htr) with ⟨j, _, o, _, _, e⟩ | ⟨pt, hpt, hin⟩
    · have := hnew tr htr; rw [e] at this; simp at this
    · obtain ⟨t, ht, j, _, e, hst, _⟩ := possibleTransport_facts hpt tr hin
      exact ⟨t, ht, by rw [e], hst⟩
  refine ⟨?_, ?_, ?_⟩
  · intro tr htr
    rcases List.mem_append.mp htr with h | h
    · exact (hen tr h).en
    · exact offer_en w hC he hI hS hB hp tr (hsub tr h)
  · apply List.pairwise_append.mpr
    refine ⟨?_, ?_, ?_⟩
    · apply hpw.imp_of_mem
      intro a b ha _ hne
      exact ⟨hne, fun hn => absurd hn (hen a ha).noDispatch⟩
    · exact htp.imp (fun {a b} hab => ⟨hab.1, fun _ _ => hab.2⟩)
    · intro a ha b hb
      refine ⟨?_, fun hn => absurd hn (hen a ha).noDispatch⟩
      obtain ⟨t', ht', ec, hst'⟩ := hidle b hb
      rcases (hen a ha).comp with ⟨mid, e⟩ | ⟨t, ht, e, hst⟩
      · rw [e, ec]; simp
      · rw [e, ec]
        intro e'
        have : t = t' := eq_of_mem_of_key_eq (key := fun (y : TransportState) => y.id) (hs.trNodup w) ht ht'
          (by simpa using e')
        subst this
        exact hst hst'
  · intro tr htr hn
    exfalso
    rcases List.mem_append.mp htr with h | h
    · exact (hen tr h).noStart hn
    · rw [hnew tr h] at hn; simp at hn

set_option linter.unusedVariables false in
theorem timedOnly_enGS (w : WF inst) (hC : Classic inst) {cfg : SMConfig} (he : cfg.allowEarly = false) {s : State}
    (hI : StructInv inst s) (hS : SchedInv s) (hB : Bundle inst s) {tt : List Transition}
    (htt : timedTransitions inst s = .ok tt) : EnGS inst s tt := by
  obtain ⟨hen, hpw⟩ := timed_core w hC hI hS hB htt
  refine ⟨fun tr htr => (hen tr htr).en, ?_, fun tr htr hn => absurd hn (hen tr htr).noStart⟩
  apply hpw.imp_of_mem
  intro a b ha _ hne
  exact ⟨hne, fun hn => absurd hn (hen a ha).noDispatch⟩

theorem action_enGS (w : WF inst) (hC : Classic inst) {cfg : SMConfig} (he : cfg.allowEarly = false) {s : State}
    (hI : StructInv inst s) (hS : SchedInv s) (hB : Bundle inst s) {a : Action} (hadm : AdmOffer inst cfg s a) :
    EnGS inst s (sortedByTransport a.transitions) := by
  rcases hadm with e | ⟨poss, hposs, tr, hp, e⟩
  · rw [e, sortedByTransport_nil]; exact EnGS.nil s
  · rw [e, sortedByTransport_single]
    refine ⟨?_, List.pairwise_singleton _ _, fun _ _ _ => by simp⟩
    intro t ht
    simp at ht; subst ht
    exact offer_en w hC he hI hS hB hposs t hp

/-! ## neither batch contains a machine start -/

theorem timed_noStart (w : WF inst) (hC : Classic inst) {s : State} (hI : StructInv inst s) (hS : SchedInv s)
    {tt : List Transition} (htt : timedTransitions inst s = .ok tt) : ∀ tr ∈ tt, tr.new ≠ .m .setup :=
  timed_no_setup w hI hS (preFlex_of_classic hC) htt

theorem tele_noStart {cfg : SMConfig} {s : State} {poss tele : List Transition} {r : Rng}
    (hp : possibleTransitions inst cfg s = .ok poss) (hte : filterTeleport orc inst r s poss = .ok tele) :
    ∀ tr ∈ tele, tr.new ≠ .m .setup := by
  intro tr htr
  rw [filterTeleport_shape hp hte tr htr]; simp

end JSL
