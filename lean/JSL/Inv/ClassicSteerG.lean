import JSL.Inv.ClassicSteer
import JSL.Inv.ClassicEnvDefsG

/-!
# The steering strategy for the interface `StepIfaceG`

The strategy of `JSL.Inv.ClassicSteer` for the interface `StepIfaceG`, which does not say that every AGV
is idle at a decision point (false with early dispatch) but delivers directly what `all_bad` obtained from
it: when no dispatch is on offer, every waiting job with an idle record stands in the pre-buffer of the
machine of that record.  No hypothesis on `allowEarly`.  Everything that does not mention the interface
(`DecPt`, `Finished`, `GoodOffer`, `envRun_append_ok`, `bad_offer_ahead`, `reset_not_done`, ...) is reused
from `JSL.Inv.ClassicSteer`.
-/

namespace JSL

variable {orc : Oracle} {inst : Instance}

section
variable {ec : EnvCfg} {st : RewardStatic} {s0 : State} {S : Nat → Nat → Int}

/-- declining down to an offer, along decision points -/
theorem decline_downG (hn : st.numOps ≠ 0) (hif : StepIfaceG orc inst ec st s0 S) (pre : List Transition)
    (tr : Transition) (post : List Transition) : ∀ (e : EnvState), DecPt orc inst ec st s0 S e →
    e.res.possible = pre ++ tr :: post →
    ∃ e', envRun orc inst ec st e (List.replicate pre.length .decline) = .ok e' ∧
      DecPt orc inst ec st s0 S e' ∧ e'.res.state = e.res.state ∧ e'.res.possible = tr :: post := by
  induction pre with
  | nil =>
    intro e hd hp
    exact ⟨e, by simp [envRun], hd, rfl, by simpa using hp⟩
  | cons p pre' ih =>
    intro e hd hp
    obtain ⟨o', rest, he⟩ : ∃ o' rest, pre' ++ tr :: post = o' :: rest := by
      cases pre' with
      | nil => exact ⟨tr, post, rfl⟩
      | cons a as => exact ⟨a, as ++ tr :: post, rfl⟩
    have hp' : e.res.possible = p :: o' :: rest := by rw [hp, List.cons_append, he]
    have hc : CanDecline inst st e := ⟨hd.notDone, hd.shopOpen, hd.joker, hn⟩
    obtain ⟨out, h1, _, e1, _, e3, _, e5, _, e7, _, _, _, _, _, _, _, hc'⟩ :=
      envStep_decline_many (orc := orc) (ec := ec) hc p o' rest hp'
    obtain ⟨out', h1', s1, _, _, s4, _, _, _, s8⟩ :=
      hif.step hd.reach hd.notDone hd.succ hd.joker hd.sync .decline (Or.inr rfl) (stepOK_decline_many hp')
    rw [h1] at h1'
    injection h1' with h1'
    subst h1'
    have hd' : DecPt orc inst ec st s0 S out.env :=
      ⟨EnvReach.step hd.reach h1, e7, s1, by rw [e5]; exact hd.joker, s8 e7, hc'.shopOpen⟩
    obtain ⟨e', h2, hd'', f1, f2⟩ := ih out.env hd' (by rw [e3, he])
    refine ⟨e', ?_, hd'', by rw [f1, e1], f2⟩
    simp only [List.length_cons, List.replicate_succ, envRun, h1, except_bind_ok]
    exact h2

/-- the closing step of a macro step: an accept, or the decline of the last offer -/
theorem closing_stepG (hst : Start orc inst s0) (hC : Classic inst) (hif : StepIfaceG orc inst ec st s0 S)
    {e : EnvState} (hd : DecPt orc inst ec st s0 S e) (a : AgentAct)
    (ha : a = .accept ∨ (a = .decline ∧ e.res.possible.length = 1)) (hok : StepOK S e a) :
    ∃ out, envStep orc inst ec st e a = .ok out ∧ out.obsRes.success = true ∧
      (out.env.done = true → Finished orc inst ec st s0 S out.env) ∧
      (out.env.done = false → DecPt orc inst ec st s0 S out.env ∧ FreshOffers inst ec out.env) := by
  obtain ⟨out, h1, s1, s2, s3, s4, s5, s6, s7, s8⟩ :=
    hif.step hd.reach hd.notDone hd.succ hd.joker hd.sync a (ha.imp id And.left) hok
  have hr' : EnvReach orc inst ec st s0 out.env := EnvReach.step hd.reach h1
  refine ⟨out, h1, s2, fun hdn => ?_, fun hdn => ?_⟩
  · exact ⟨hr', by rw [s5, ← s6, hdn], s3, by rw [← s6, hdn], s7⟩
  · have hd' : DecPt orc inst ec st s0 S out.env :=
      ⟨hr', hdn, s1, by rw [s4]; exact hd.joker, s8 hdn, by rw [← s6, hdn]⟩
    exact ⟨hd', envStep_fresh h1 (ha.imp id And.right) hdn (hd'.offers hst hC)⟩

/-- when no offer is good: no operation that could start now is due, and the clock is before the
makespan of the target -/
theorem all_badG (hst : Start orc inst s0) (hC : Classic inst)
    (hif : StepIfaceG orc inst ec st s0 S) {e : EnvState} (hd : DecPt orc inst ec st s0 S e)
    (hf : FreshOffers inst ec e) (hbad : ∀ tr ∈ e.res.possible, ¬ GoodOffer S e.res.state tr) :
    NoneDueNow S e.res.state ∧ e.res.state.time < targetMakespan inst S := by
  have hne := hd.offers hst hC
  have hi := envReach_inv hst hd.reach
  obtain ⟨w, hI, hS⟩ := occursA_inv hst (hi.live hne).1
  have hf' : possibleTransitions inst ec.sm e.res.state = .ok e.res.possible := hf
  obtain ⟨pj, pt, _, hpt, _, hL⟩ := possibleTransitions_split hf'
  have hK := fun tr htr => bad_offer_ahead hd.sync (hbad tr htr)
  have hnil : pt = [] := by
    cases pt with
    | nil => rfl
    | cons x xs =>
      have hx : x ∈ e.res.possible := by rw [hL]; simp
      obtain ⟨t, _, j, _, hxe, _⟩ := possibleTransport_facts hpt x (by simp)
      have := (hK x hx).1
      rw [hxe] at this
      cases this
  constructor
  · intro j hj hrun o hn hmidle
    obtain ⟨m, hm, hmid, hpre, _⟩ := hif.atPre hd.reach hne pt hpt hnil j hj hrun o hn
    have hso : StartableOp e.res.state j o m :=
      ⟨hrun, hn, by rw [← hmid]; exact getMachine_of_mem (hI.shape.machNodup w) hm, hmidle m hm hmid, hpre⟩
    have hmem := offers_complete_op hS hf' hj hso
    obtain ⟨_, j', hj', o', hid, hn', hlt⟩ := hK _ hmem
    have hid' : j.id = j'.id := by simpa using hid
    have : j = j' := eq_of_mem_of_key_eq (key := fun (y : JobState) => y.id) (hI.shape.jobsNodup w) hj hj' hid'
    subst this
    rw [hn] at hn'
    injection hn' with hn'
    subst hn'
    exact hlt
  · cases hp : e.res.possible with
    | nil => exact absurd hp hne
    | cons x xs =>
      obtain ⟨_, j, hj, o, _, hn, hlt⟩ := hK x (by rw [hp]; simp)
      have ho := (find?_mem_ops (j := j) (p := fun x => x.st == .idle) hn).1
      obtain ⟨jc, hjc, hk⟩ := hI.shape.job_cfg hj
      simp only [jKey, jcKey, Prod.mk.injEq] at hk
      obtain ⟨oc, hoc, hke⟩ := mem_of_map_eq hk.2 ho
      simp only [opKey, ocKey, Prod.mk.injEq] at hke
      have hall : oc ∈ allOps inst := List.mem_flatMap.mpr ⟨jc, hjc, hoc⟩
      obtain ⟨d, hdur, hpos⟩ := hC.posDur oc hall
      have hdd : oc.d = d := by simp [OpCfg.d, hdur]
      have := steer_le_targetMakespan (inst := inst) S hall
      rw [← hke.1, ← hke.2.1, hdd] at this
      omega

/-- one macro step from a fresh decision point: the run ends the episode in the target, or reaches a
fresh decision point that is smaller in the lexicographic measure -/
theorem macro_stepG (hst : Start orc inst s0) (hC : Classic inst)
    (hn : st.numOps ≠ 0) (hif : StepIfaceG orc inst ec st s0 S) {e : EnvState}
    (hd : DecPt orc inst ec st s0 S e) (hf : FreshOffers inst ec e) :
    ∃ acts e', envRun orc inst ec st e acts = .ok e' ∧
      (Finished orc inst ec st s0 S e' ∨
       (DecPt orc inst ec st s0 S e' ∧ FreshOffers inst ec e' ∧
        (pot inst e'.res.state < pot inst e.res.state ∨
         (pot inst e'.res.state ≤ pot inst e.res.state ∧ e.res.state.time < e'.res.state.time ∧
          e.res.state.time < targetMakespan inst S)))) := by
  by_cases hg : ∃ tr ∈ e.res.possible, GoodOffer S e.res.state tr
  · obtain ⟨tr, htr, hg⟩ := hg
    obtain ⟨pre, post, hp⟩ := List.append_of_mem htr
    obtain ⟨e1, hrun1, hd1, hs1, hp1⟩ := decline_downG hn hif pre tr post e hd hp
    obtain ⟨out, h2, hsuc, hfin, hcont⟩ :=
      closing_stepG hst hC hif hd1 .accept (Or.inl rfl) (stepOK_accept_good hp1 (by rw [hs1]; exact hg))
    refine ⟨_, out.env, envRun_append_ok hrun1 (envRun_single h2), ?_⟩
    cases hdn : out.env.done with
    | true => exact Or.inl (hfin hdn)
    | false =>
      have := accept_decreases hst hd1.reach h2 hsuc
      rw [hs1] at this
      exact Or.inr ⟨(hcont hdn).1, (hcont hdn).2, Or.inl this⟩
  · have hbad : ∀ tr ∈ e.res.possible, ¬ GoodOffer S e.res.state tr := fun tr htr h => hg ⟨tr, htr, h⟩
    obtain ⟨hnone, hlt⟩ := all_badG hst hC hif hd hf hbad
    have hne := hd.offers hst hC
    obtain ⟨e1, hrun1, hd1, hs1, hp1⟩ := decline_downG hn hif e.res.possible.dropLast (e.res.possible.getLast hne) [] e hd
      (List.dropLast_append_getLast hne).symm
    have hok : StepOK S e1 .decline := by
      unfold StepOK
      exact ⟨fun h => (by cases h), fun _ _ => (by rw [hs1]; exact hnone)⟩
    obtain ⟨out, h2, hsuc, hfin, hcont⟩ :=
      closing_stepG hst hC hif hd1 .decline (Or.inr ⟨rfl, by rw [hp1]; rfl⟩) hok
    refine ⟨_, out.env, envRun_append_ok hrun1 (envRun_single h2), ?_⟩
    cases hdn : out.env.done with
    | true => exact Or.inl (hfin hdn)
    | false =>
      have hd2 := (hcont hdn).1
      have h3 := envStep_decline_last_advances hst hd1.reach hp1 h2 hsuc hd2.shopOpen
      have h4 := envStep_pot_le hst hd1.reach h2
      rw [hs1] at h3 h4
      exact Or.inr ⟨hd2, (hcont hdn).2, Or.inr ⟨h4, h3, hlt⟩⟩

/-- from every fresh decision point the strategy ends the episode in the target -/
theorem steer_fromG (hst : Start orc inst s0) (hC : Classic inst)
    (hn : st.numOps ≠ 0) (hif : StepIfaceG orc inst ec st s0 S) :
    ∀ (p q : Nat) (e : EnvState), DecPt orc inst ec st s0 S e → FreshOffers inst ec e →
      pot inst e.res.state = p → (targetMakespan inst S - e.res.state.time).toNat = q →
      ∃ acts e', envRun orc inst ec st e acts = .ok e' ∧ Finished orc inst ec st s0 S e' := by
  intro p
  induction p using Nat.strongRecOn with
  | ind p ihp =>
    intro q
    induction q using Nat.strongRecOn with
    | ind q ihq =>
      intro e hd hf hp hq
      obtain ⟨acts, e1, hrun, hcase⟩ := macro_stepG hst hC hn hif hd hf
      rcases hcase with hfin | ⟨hd1, hf1, hlt⟩
      · exact ⟨acts, e1, hrun, hfin⟩
      · have hsmall : pot inst e1.res.state < p ∨ (pot inst e1.res.state = p ∧
            (targetMakespan inst S - e1.res.state.time).toNat < q) := by
          rcases hlt with h | ⟨h1, h2, h3⟩
          · exact Or.inl (by omega)
          · rcases Nat.lt_or_ge (pot inst e1.res.state) p with h | h
            · exact Or.inl h
            · exact Or.inr ⟨by omega, by omega⟩
        rcases hsmall with h | ⟨h1, h2⟩
        · obtain ⟨acts2, e2, hrun2, hfin⟩ := ihp _ h _ e1 hd1 hf1 rfl rfl
          exact ⟨acts ++ acts2, e2, envRun_append_ok hrun hrun2, hfin⟩
        · obtain ⟨acts2, e2, hrun2, hfin⟩ := ihq _ h2 e1 hd1 hf1 h1 rfl
          exact ⟨acts ++ acts2, e2, envRun_append_ok hrun hrun2, hfin⟩

end

set_option linter.unusedVariables false in
/-- **The steering strategy, interface `StepIfaceG`.**  For a classic instance with the step interface
`StepIfaceG` (any `allowEarly`): from the reset state a list of accept / decline decisions leads to an
environment state of the episode that is terminated, not truncated, whose shop is finished and – up to
the final stamp of the clock – in step with the target schedule. -/
theorem steerG {orc : Oracle} {inst : Instance} {ec : EnvCfg} {st : RewardStatic} {s0 : State} {S : Nat → Nat → Int}
    (hst : Start orc inst s0) (hC : Classic inst) (hjk : 0 ≤ ec.mw.jokerInit)
    (hn : st.numOps ≠ 0) (hjobs : inst.jobs ≠ [])
    (hif : StepIfaceG orc inst ec st s0 S) (r0 : Rng) :
    ∃ e0 mic acts e, envReset orc inst ec s0 r0 = .ok (e0, mic) ∧ envRun orc inst ec st e0 acts = .ok e ∧
      EnvReach orc inst ec st s0 e ∧ e.terminated = true ∧ e.truncated = false ∧
      isDone inst e.res.state = true ∧ ∃ t, SyncL inst S { e.res.state with time := t } := by
  obtain ⟨e0, mic, hreset, hsuc, hsync⟩ := hif.reset r0
  obtain ⟨f1, _, f3, _, _⟩ := envReset_flags hreset
  have hopen := reset_not_done hst hC hjobs hreset
  have hd : DecPt orc inst ec st s0 S e0 :=
    ⟨EnvReach.reset hreset, f3, hsuc, by rw [f1]; exact hjk, hsync, hopen⟩
  have hf : FreshOffers inst ec e0 := envReset_fresh hreset (hd.offers hst hC)
  obtain ⟨acts, e, hrun, hr, h1, h2, h3, h4⟩ := steer_fromG hst hC hn hif _ _ e0 hd hf rfl rfl
  exact ⟨e0, mic, acts, e, hreset, hrun, hr, h1, h2, h3, h4⟩

end JSL
