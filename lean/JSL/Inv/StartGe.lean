import JSL.Inv.Dur

/-!
# Nothing starts before the episode does
-/

namespace JSL

variable {orc : Oracle} {inst : Instance}

structure StartGe (t0 : Int) (s : State) : Prop where
  clock : t0 ≤ s.time
  starts : ∀ j ∈ s.jobs, ∀ o ∈ j.ops, o.st ≠ .idle → ∀ a, o.start = some a → t0 ≤ a

/-- the start of every record after a transition is "now" or a start that was there before -/
theorem starts_effect (w : WF inst) {s s' : State} {r r' : Rng} {tr : Transition} (hI : StructInv inst s)
    (h : applyTransition orc inst s r tr = .ok (s', r')) :
    ∀ j' ∈ s'.jobs, ∀ o' ∈ j'.ops, o'.st ≠ .idle → ∀ a, o'.start = some a →
      a = s.time ∨ ∃ j ∈ s.jobs, ∃ o ∈ j.ops, o.st ≠ .idle ∧ o.start = some a := by
  have hjn := hI.shape.jobsNodup w
  have h0 := h
  -- a job replaced by one whose records are those of `j.replaceOp rec`
  have key : ∀ (j J' : JobState) (rec : OpState), j ∈ s.jobs → J'.id = j.id → J'.ops = (j.replaceOp rec).ops →
      (∀ a, rec.start = some a → a = s.time ∨ ∃ o ∈ j.ops, o.st ≠ .idle ∧ o.start = some a) → s'.jobs = (s.replaceJob J').jobs →
      ∀ j' ∈ s'.jobs, ∀ o' ∈ j'.ops, o'.st ≠ .idle → ∀ a, o'.start = some a →
        a = s.time ∨ ∃ j ∈ s.jobs, ∃ o ∈ j.ops, o.st ≠ .idle ∧ o.start = some a := by
    intro j J' rec hj hid hops hrec hjobs j' hj' o' ho' hni a ha
    rw [hjobs] at hj'
    rcases (mem_replaceJob hjn hj hid j').mp hj' with rfl | ⟨hj0, _⟩
    · rw [hops] at ho'
      rcases mem_replaceOp.mp ho' with ⟨rfl, _⟩ | ⟨ho0, _⟩
      · rcases hrec a ha with e | ⟨o, ho, e⟩
        · exact Or.inl e
        · exact Or.inr ⟨j, hj, o, ho, e⟩
      · exact Or.inr ⟨j, hj, o', ho0, hni, ha⟩
    · exact Or.inr ⟨j', hj0, o', ho', hni, ha⟩
  unfold applyTransition at h
  cases hc : tr.comp with
  | t tid =>
    obtain ⟨_, hj⟩ := agv_effect w hI hc h0
    intro j' hj' o' ho' hni a ha
    obtain ⟨j, hj0, _, e⟩ := hj j' hj'
    exact Or.inr ⟨j, hj0, o', by rw [e]; exact ho', hni, ha⟩
  | b bid =>
    simp only [hc] at h
    obtain ⟨_, _, h⟩ := except_bind_eq_ok h
    simp at h
  | m mid =>
    simp only [hc] at h
    obtain ⟨m0, hm0, h⟩ := except_bind_eq_ok h
    unfold handleMachineTransition at h
    obtain ⟨m, hm, h⟩ := except_bind_eq_ok h
    obtain ⟨hd, hh, h⟩ := except_bind_eq_ok h
    cases hd with
    | idleToSetup =>
      obtain ⟨j, op, oc, mc, sd, b1, b2, hj, _, _, _, _, _, _, _, _, _, _, rfl⟩ := idleToSetup_spec h
      exact key j ((j.replaceOp (opRec oc s.time (s.time + sd) m.id)).at m.buffer.id) (opRec oc s.time (s.time + sd) m.id) hj rfl rfl
        (fun a ha => Or.inl (by simpa [opRec] using ha.symm)) rfl
    | setupToWorking =>
      obtain ⟨j, op, oc, d, hj, _, _, _, _, _, _, _, rfl⟩ := setupToWorking_spec h
      exact key j (j.replaceOp (opRec oc s.time (s.time + d) m.id)) (opRec oc s.time (s.time + d) m.id) hj rfl rfl
        (fun a ha => Or.inl (by simpa [opRec] using ha.symm)) rfl
    | workingToOutage =>
      obtain ⟨mc, outs, j, op, _, _, _, hj, _, hp, rfl⟩ := workingToOutage_spec h
      obtain ⟨_, _, hl, _, hpr⟩ := processing?_split' hp
      exact key j (j.replaceOp { op with stop := some (s.time + occupiedFor outs) }) { op with stop := some (s.time + occupiedFor outs) } hj rfl rfl
        (fun a ha => Or.inr ⟨op, by rw [hl]; simp, by rw [hpr]; simp, ha⟩) rfl
    | outageToIdle =>
      obtain ⟨j, op, mc, rest, b1, b2, _, hj, hp, _, _, _, _, rfl⟩ := outageToIdle_spec h
      obtain ⟨_, _, hl, _, hpr⟩ := processing?_split' hp
      exact key j ((j.replaceOp { op with stop := some s.time, st := .done }).at m.post.id) { op with stop := some s.time, st := .done } hj rfl rfl
        (fun a ha => Or.inr ⟨op, by rw [hl]; simp, by rw [hpr]; simp, ha⟩) rfl

/-- **The start pass.** -/
def StartPass (orc : Oracle) (inst : Instance) (cfg : SMConfig) (w : WF inst) (t0 : Int) : Pass orc inst cfg where
  P := StartGe t0
  GS := fun _ _ => True
  Adm := fun _ _ => True
  tail := fun _ => trivial
  step := fun {s s' r r' tr R} hI _ hP _ _ _ _ ha => by
    refine ⟨⟨by rw [applyTransition_time ha]; exact hP.clock, ?_⟩, trivial⟩
    intro j' hj' o' ho' hni a hs
    rcases starts_effect w hI ha j' hj' o' ho' hni a hs with e | ⟨j, hj, o, ho, hn, e⟩
    · rw [e]; exact hP.clock
    · exact hP.starts j hj o ho hn a e
  advance := fun _ _ hP hle _ => ⟨Int.le_trans hP.clock hle, hP.starts⟩
  timed := fun _ _ _ _ _ _ => trivial
  timedOnly := fun _ _ _ _ => trivial
  action := fun _ _ _ _ => trivial

end JSL

namespace JSL

theorem StartGe.of_rest {s : State} (h : restB s = true) : StartGe s.time s := by
  simp only [restB, Bool.and_eq_true, List.all_eq_true, beq_iff_eq] at h
  obtain ⟨⟨_, hj⟩, _⟩ := h
  exact ⟨Int.le_refl _, fun j hj' o ho hni => absurd (hj j hj' o ho) hni⟩

end JSL
