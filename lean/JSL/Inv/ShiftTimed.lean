import JSL.Inv.ShiftTransport

/-!
# Translation of simulated time: the timed transitions do not see the shift
-/

namespace JSL
variable (δ : Int) {inst : Instance}

theorem dueAt_shift (occ : Option Int) (now : Int) : dueAt (occ.map (· + δ)) (now + δ) = dueAt occ now := by
  cases occ with
  | none => rfl
  | some o =>
    simp only [dueAt, Option.map_some]
    by_cases h : o ≤ now
    · have : o + δ ≤ now + δ := by omega
      simp [h, this]
    · have : ¬ o + δ ≤ now + δ := by omega
      simp [h, this]

theorem timedMachine_shift (now : Int) (m : MachineState) :
    timedMachine inst (now + δ) (shiftMachine δ m) = timedMachine inst now m := by
  unfold timedMachine
  simp only [shiftMachine_occ, dueAt_shift, shiftMachine_st, shiftMachine_buffer, shiftMachine_id]
  rfl

theorem timedMachineTransitions_shift (s : State) :
    timedMachineTransitions inst (shiftState δ s) = timedMachineTransitions inst s := by
  unfold timedMachineTransitions
  simp only [shiftState_machines, shiftState_time]
  rw [mapM_map_inv (shiftMachine δ) _ _ (timedMachine_shift δ s.time)]

theorem timeDependencyResolved_shift (s : State) (t : TransportState) (buf blocking : Nat) :
    timeDependencyResolved inst (shiftState δ s) (shiftTransport δ t) buf blocking =
      timeDependencyResolved inst s t buf blocking := by
  unfold timeDependencyResolved
  have e : (shiftState δ s).machines.map (·.post) = s.machines.map (·.post) := by
    simp only [shiftState_machines, List.map_map]; rfl
  rw [e]
  simp only [shiftTransport_job, shiftState_transports]
  rw [any_map_inv (shiftTransport δ) _ (fun _ => rfl)]
  rfl

theorem agvIdleToPick_shift (s : State) (t : TransportState) :
    agvIdleToPickTransition inst (shiftState δ s) (shiftTransport δ t) = agvIdleToPickTransition inst s t := by
  unfold agvIdleToPickTransition
  simp only [shiftTransport_job, shiftState_jobs, getJob_shift, shiftTransport_st, shiftTransport_id]
  ecase optE t.job .transportJob with jid
  ecase getJob s.jobs jid with j
  rw [readyForPickup_shift]
  rfl

theorem timedTransport_shift (s : State) (t : TransportState) :
    timedTransport inst (shiftState δ s) (shiftTransport δ t) = timedTransport inst s t := by
  unfold timedTransport
  simp only [shiftTransport_occ]
  cases h : t.occ with
  | none => rfl
  | dep buf blocking tr =>
    simp only [shiftOcc, timeDependencyResolved_shift]
  | «at» o =>
    simp only [shiftOcc, shiftState_time, shiftTransport_st, shiftTransport_id, shiftTransport_buffer,
      agvIdleToPick_shift, shiftState_jobs, getJob_shift]
    by_cases hle : o ≤ s.time
    · have : o + δ ≤ s.time + δ := by omega
      simp only [hle, this, if_true]
      cases agvTimedCreator t.st with
      | pickupToDrop =>
        simp only
        split
        · rename_i j _
          ecase getJob s.jobs j with js
          rfl
        · rfl
      | _ => rfl
    · have : ¬ o + δ ≤ s.time + δ := by omega
      simp only [hle, this, if_false]

theorem timedTransportTransitions_shift (s : State) :
    timedTransportTransitions inst (shiftState δ s) = timedTransportTransitions inst s := by
  unfold timedTransportTransitions
  simp only [shiftState_transports]
  rw [mapM_map_inv (shiftTransport δ) _ _ (timedTransport_shift δ s)]

theorem timedTransitions_shift (s : State) :
    timedTransitions inst (shiftState δ s) = timedTransitions inst s := by
  unfold timedTransitions
  rw [timedMachineTransitions_shift, timedTransportTransitions_shift]
end JSL
